package main

import (
	"sync/atomic"
	"runtime"
	"context"
	"crypto/tls"
	"crypto/x509"
	"crypto/x509/pkix"
	"fmt"
	"math/rand/v2"
	"net"
	"net/netip"
	"os"
	"path/filepath"
	"strings"
	"sync"
	"time"

	"google.golang.org/grpc/credentials"
	"google.golang.org/grpc/peer"

	cdrkey "github.com/scionproto/scion/control/drkey"
	dkgrpc "github.com/scionproto/scion/control/drkey/grpc"
	"github.com/scionproto/scion/pkg/addr"
	"github.com/scionproto/scion/pkg/drkey"
	"github.com/scionproto/scion/pkg/drkey/generic"
	"github.com/scionproto/scion/pkg/drkey/specific"
	"github.com/scionproto/scion/pkg/scrypto/cppki"
	"github.com/scionproto/scion/pkg/spao"
	"github.com/scionproto/scion/private/drkey/drkeyutil"
	"github.com/scionproto/scion/private/storage/db"
	lvl1sqlite "github.com/scionproto/scion/private/storage/drkey/level1/sqlite"
	svsqlite "github.com/scionproto/scion/private/storage/drkey/secret/sqlite"

	ref "verif/drkeyref"
	"verif/mon"
)

// ---- host generation ----

type c39Host struct {
	Text string
	Kind string
	H    ref.Host
}

var c39SVC = []struct {
	name string
	v    uint16
}{{"DS", 1}, {"CS", 2}, {"Wildcard", 0x10}, {"DS_A", 1}, {"CS_A", 2}, {"Wildcard_A", 0x10},
	{"DS_M", 0x8001}, {"CS_M", 0x8002}, {"Wildcard_M", 0x8010}}

func c39GenHost(rng *rand.Rand) c39Host {
	switch rng.IntN(12) {
	case 0, 1, 2:
		var b [4]byte
		for i := range b {
			b[i] = byte(rng.IntN(256))
		}
		a := netip.AddrFrom4(b)
		return c39Host{a.String(), "ipv4", ref.HostFromIP(a)}
	case 3: // IPv4 whose bytes equal the wire form of a service address, or other edge values
		edge := [][4]byte{{0, 1, 0, 0}, {0, 2, 0, 0}, {0, 0x10, 0, 0}, {0x80, 1, 0, 0}, {0x80, 2, 0, 0}, {0x80, 0x10, 0, 0},
			{0, 0, 0, 0}, {255, 255, 255, 255}, {0, 0, 0, 1}, {1, 0, 0, 0}, {4, 0, 0, 0}, {3, 0, 0, 0}}
		a := netip.AddrFrom4(edge[rng.IntN(len(edge))])
		return c39Host{a.String(), "ipv4-edge", ref.HostFromIP(a)}
	case 4, 5:
		var b [16]byte
		for i := range b {
			b[i] = byte(rng.IntN(256))
		}
		b[0] = 0x20 | b[0]&0x0f
		a := netip.AddrFrom16(b)
		txt := a.String()
		kind := "ipv6"
		switch rng.IntN(3) {
		case 0:
			txt = strings.ToUpper(txt)
			kind = "ipv6-upper"
		case 1:
			txt = fmt.Sprintf("%x:%x:%x:%x:%x:%x:%x:%x", uint16(b[0])<<8|uint16(b[1]), uint16(b[2])<<8|uint16(b[3]),
				uint16(b[4])<<8|uint16(b[5]), uint16(b[6])<<8|uint16(b[7]), uint16(b[8])<<8|uint16(b[9]),
				uint16(b[10])<<8|uint16(b[11]), uint16(b[12])<<8|uint16(b[13]), uint16(b[14])<<8|uint16(b[15]))
			kind = "ipv6-expanded"
		}
		return c39Host{txt, kind, ref.HostFromIP(a)}
	case 6: // IPv6 that looks like a padded shorter address
		var b [16]byte
		for i := 0; i < 4; i++ {
			b[i] = byte(rng.IntN(256))
		}
		switch rng.IntN(4) {
		case 0:
			b = [16]byte{}
		case 1:
			b = [16]byte{15: 1}
		case 2:
			b[0], b[1], b[2], b[3] = 0, byte(1+rng.IntN(2)), 0, 0 // first bytes like a service address
		}
		a := netip.AddrFrom16(b)
		return c39Host{a.String(), "ipv6-edge", ref.HostFromIP(a)}
	case 7, 8: // IPv4-mapped IPv6 spelling of an IPv4 host
		var b [4]byte
		for i := range b {
			b[i] = byte(rng.IntN(256))
		}
		a := netip.AddrFrom4(b)
		return c39Host{"::ffff:" + a.String(), "ipv4-in-6", ref.HostFromIP(a)}
	default:
		s := c39SVC[rng.IntN(len(c39SVC))]
		return c39Host{s.name, "svc", ref.HostFromSVC(s.v)}
	}
}

// respell returns another text for the same host where one exists.
func (h c39Host) respell(rng *rand.Rand) c39Host {
	switch h.H.Type {
	case ref.HostIPv4:
		a := netip.AddrFrom4([4]byte(h.H.Bytes))
		if strings.HasPrefix(h.Text, "::ffff:") {
			return c39Host{a.String(), "ipv4", h.H}
		}
		return c39Host{"::ffff:" + a.String(), "ipv4-in-6", h.H}
	case ref.HostIPv6:
		a := netip.AddrFrom16([16]byte(h.H.Bytes))
		if h.Text != a.String() {
			return c39Host{a.String(), "ipv6", h.H}
		}
		return c39Host{strings.ToUpper(a.StringExpanded()), "ipv6-expanded-upper", h.H}
	default:
		for _, s := range c39SVC {
			if ref.HostFromSVC(s.v).Canon() == h.H.Canon() && s.name != h.Text {
				return c39Host{s.name, "svc", h.H}
			}
		}
	}
	return h
}

func c39GenProto(rng *rand.Rand) uint16 {
	switch rng.IntN(10) {
	case 0, 1, 2, 3:
		return 1 // SCMP: protocol-specific derivation
	case 4:
		return []uint16{2, 3, 0x0100, 0x0101, 0x0004, 0x0400, 0x0300, 0xffff, 0x8001, 0x0201}[rng.IntN(10)]
	default:
		return uint16(2 + rng.IntN(0xfffe))
	}
}

// ---- two control services joined in-process ----

type c39World struct {
	ia     [2]addr.IA
	eng    [2]*cdrkey.ServiceEngine
	srv    [2]*dkgrpc.Server
	dur    [2]time.Duration
	secret [2][]byte
	close  []func() error
	run    *mon.Run
	// gate, when set, holds every remote level-1 fetch until it is closed (a
	// slow remote control service); entered counts the fetches waiting at it.
	gate    atomic.Pointer[chan struct{}]
	entered atomic.Int64
}

type c39Verifier struct{}

func (c39Verifier) VerifyParsedClientCertificate(chain []*x509.Certificate) (addr.IA, error) {
	return cppki.ExtractIA(chain[0].Subject)
}

func c39Cert(ia addr.IA) *x509.Certificate {
	return &x509.Certificate{Subject: pkix.Name{Names: []pkix.AttributeTypeAndValue{
		{Type: cppki.OIDNameIA, Value: ia.String()}}}}
}

type c39Fetcher struct {
	w    *c39World
	self int
}

func (f c39Fetcher) Level1(ctx context.Context, meta drkey.Level1Meta) (drkey.Level1Key, error) {
	other := f.w.srv[1-f.self]
	if other.LocalIA != meta.SrcIA {
		return drkey.Level1Key{}, fmt.Errorf("no control service for %s", meta.SrcIA)
	}
	f.w.run.Event("level1_fetched_from_remote_cs")
	f.w.entered.Add(1)
	if g := f.w.gate.Load(); g != nil {
		<-*g
	}
	pctx := peer.NewContext(ctx, &peer.Peer{
		Addr: &net.TCPAddr{IP: net.IPv4(192, 0, 2, byte(1+f.self)), Port: 40000},
		AuthInfo: credentials.TLSInfo{State: tls.ConnectionState{
			PeerCertificates: []*x509.Certificate{c39Cert(f.w.ia[f.self])}}},
	})
	rep, err := other.DRKeyLevel1(pctx, dkgrpc.Level1MetaToProtoRequest(meta))
	if err != nil {
		return drkey.Level1Key{}, err
	}
	return dkgrpc.GetLevel1KeyFromReply(meta, rep)
}

func c39NewEngine(dir string, name string, inMem bool, ia addr.IA, secret []byte, dur time.Duration) (*cdrkey.ServiceEngine, []func() error, error) {
	cfg := &db.SqliteConfig{InMemory: inMem}
	p1, p2 := filepath.Join(dir, name+"-sv.sqlite"), filepath.Join(dir, name+"-l1.sqlite")
	if inMem {
		p1, p2 = "verif-"+filepath.Base(dir)+"-"+name+"-sv", "verif-"+filepath.Base(dir)+"-"+name+"-l1"
	}
	sv, err := svsqlite.NewBackend(p1, cfg)
	if err != nil {
		return nil, nil, err
	}
	l1, err := lvl1sqlite.NewBackend(p2, cfg)
	if err != nil {
		return nil, nil, err
	}
	arc, err := cdrkey.NewLevel1ARC(16)
	if err != nil {
		return nil, nil, err
	}
	return &cdrkey.ServiceEngine{
		SecretBackend:  cdrkey.NewSecretValueBackend(sv, secret, dur),
		LocalIA:        ia,
		DB:             l1,
		PrefetchKeeper: arc,
	}, []func() error{sv.Close, l1.Close}, nil
}

func c39NewWorld(r *mon.Run, dir string, idx int, rng *rand.Rand) (*c39World, error) {
	w := &c39World{run: r}
	durs := []time.Duration{6 * time.Minute, time.Hour, 24 * time.Hour, 72 * time.Hour, 1000 * time.Second}
	for k := 0; k < 2; k++ {
		w.ia[k] = addr.MustIAFrom(addr.ISD(1+rng.IntN(0xfffe)), addr.AS(1+rng.Uint64()%(1<<48-1)))
		if k == 1 && rng.IntN(3) == 0 { // same ISD, neighbouring AS number
			w.ia[1] = w.ia[0] ^ 1
		}
		w.dur[k] = durs[rng.IntN(len(durs))]
		w.secret[k] = make([]byte, 1+rng.IntN(40))
		for i := range w.secret[k] {
			w.secret[k][i] = byte(rng.IntN(256))
		}
	}
	if w.ia[1].AS() == 0 {
		w.ia[1] += 2
	}
	if w.ia[0] == w.ia[1] {
		w.ia[1]++
	}
	for k := 0; k < 2; k++ {
		e, cl, err := c39NewEngine(dir, fmt.Sprintf("w%d-e%d", idx, k), idx%2 == 0, w.ia[k], w.secret[k], w.dur[k])
		if err != nil {
			return nil, err
		}
		e.Fetcher = c39Fetcher{w: w, self: k}
		w.eng[k] = e
		w.close = append(w.close, cl...)
		w.srv[k] = &dkgrpc.Server{LocalIA: w.ia[k], ClientCertificateVerifier: c39Verifier{}, Engine: e}
	}
	return w, nil
}

type c39Witness struct {
	World            int
	Step             string
	Proto            uint16
	Time             time.Time
	SrcIA, DstIA     string
	SrcHost, DstHost string
	Engine           string
	Got, Want        string
	Note             string
}

func c39GenTime(rng *rand.Rand, dur time.Duration, anchors ...int64) time.Time {
	lo, hi := int64(978307200), int64(4102444800) // 2001-01-01 .. 2100-01-01
	s := lo + rng.Int64N(hi-lo)
	if len(anchors) > 0 && rng.IntN(2) == 0 { // revisit a few neighbouring epochs: stored values are reused
		d := int64(dur / time.Second)
		s = anchors[rng.IntN(len(anchors))] + rng.Int64N(4*d) - 2*d
	}
	t := time.Unix(s, int64(rng.IntN(1_000_000_000)))
	if rng.IntN(3) == 0 { // around an epoch boundary of the usual grid
		d := int64(dur / time.Second)
		b := time.Unix(s/d*d, 0)
		t = b.Add([]time.Duration{0, -1, 1, -time.Second, time.Second, -time.Millisecond, 999 * time.Millisecond,
			dur - 1, dur - time.Second}[rng.IntN(9)])
	}
	return t
}

// c39Sep tracks, for one parent key, that derived keys coincide iff the
// derivation inputs (type, protocol, host in wire form) are equal.
type c39Sep struct {
	byInput map[string]drkey.Key
	byKey   map[drkey.Key]string
}

func newC39Sep() *c39Sep { return &c39Sep{map[string]drkey.Key{}, map[drkey.Key]string{}} }

func (s *c39Sep) observe(r *mon.Run, where, input string, k drkey.Key, wit any) {
	r.Eval(1)
	if prev, ok := s.byInput[input]; ok {
		r.Event("separation_same_input_pair")
		if prev != k {
			r.Violation("C39:unstable:"+where, fmt.Sprintf("equal derivation inputs (%s) produced different keys under one parent", input), wit)
		}
		return
	}
	if other, ok := s.byKey[k]; ok {
		r.Violation("C39:collision:"+where, fmt.Sprintf("different derivation inputs (%s) and (%s) produced the same key under one parent", other, input), wit)
		return
	}
	if len(s.byInput) > 0 {
		r.Event("separation_distinct_input_pair")
	}
	s.byInput[input] = k
	s.byKey[k] = input
}

func c39Input(typ string, proto uint16, h ref.Host) string {
	return fmt.Sprintf("%s/proto=%d/host=%s", typ, proto, h.Canon())
}

func c39RunWorld(r *mon.Run, widx int, w *c39World, rng *rand.Rand, n int) {
	ctx := context.Background()
	type svKey struct {
		eng   int
		proto uint16
	}
	epochs := map[svKey]map[int64]drkey.SecretValue{}
	anchors := make([]int64, 4)
	for i := range anchors {
		anchors[i] = 1_000_000_000 + rng.Int64N(3_000_000_000)
	}
	hx := func(k drkey.Key) string { return mon.Hex(k[:]) }

	// Observation outside the judged domain: a level-2 request for protocol 0
	// (never served by the gRPC layer) uses the specific input layout under the
	// generic level-1 key and can coincide with a niche-protocol input.
	{
		t := time.Unix(anchors[0], 0)
		a, e1 := w.eng[0].DeriveASHost(ctx, drkey.ASHostMeta{ProtoId: 0, Validity: t, SrcIA: w.ia[0], DstIA: w.ia[1], DstHost: "5.0.7.8"})
		b, e2 := w.eng[0].DeriveASHost(ctx, drkey.ASHostMeta{ProtoId: 5, Validity: t, SrcIA: w.ia[0], DstIA: w.ia[1], DstHost: "7.8.0.0"})
		if e1 == nil && e2 == nil {
			r.Extra("observation_engine_level2_proto0_collides_with_niche_protocol", a.Key == b.Key)
		}
	}
	for i := 0; i < n; i++ {
		proto := c39GenProto(rng)
		s := rng.IntN(2) // fast side / key source
		d := 1 - s
		t := c39GenTime(rng, w.dur[s], anchors...)
		hs, hd := c39GenHost(rng), c39GenHost(rng)
		if rng.IntN(6) == 0 {
			hd = hs // same host on both sides: type byte must separate
		}
		pL1 := ref.Level1Proto(proto)
		wit := func(step, eng, got, want, note string) c39Witness {
			return c39Witness{World: widx, Step: step, Proto: proto, Time: t, SrcIA: w.ia[s].String(), DstIA: w.ia[d].String(),
				SrcHost: hs.Text, DstHost: hd.Text, Engine: eng, Got: got, Want: want, Note: note}
		}
		kind := "generic"
		if ref.HasSpecific(proto) {
			kind = "specific"
		}
		r.Class(fmt.Sprintf("engine/%s/src=%s/dst=%s", kind, hs.Kind, hd.Kind))

		// --- secret value of the source AS ---
		sv, err := w.eng[s].GetSecretValue(ctx, drkey.SecretValueMeta{ProtoId: drkey.Protocol(pL1), Validity: t})
		r.Eval(1)
		r.Event("secret_value")
		if err != nil {
			r.Violation("C39:sv-error", fmt.Sprintf("GetSecretValue failed: %v", err), wit("sv", "src", "", "", ""))
			continue
		}
		if t.Before(sv.Epoch.NotBefore) || !t.Before(sv.Epoch.NotAfter) {
			r.Violation("C39:sv-epoch", fmt.Sprintf("secret value epoch [%s, %s) does not contain the requested time", sv.Epoch.NotBefore, sv.Epoch.NotAfter),
				wit("sv", "src", "", "", ""))
		}
		ek := svKey{s, pL1}
		if epochs[ek] == nil {
			epochs[ek] = map[int64]drkey.SecretValue{}
		}
		b := sv.Epoch.NotBefore.Unix()
		if prev, ok := epochs[ek][b]; ok {
			if prev.Key != sv.Key || !prev.Epoch.NotAfter.Equal(sv.Epoch.NotAfter) {
				r.Violation("C39:sv-unstable", "the secret value of one (protocol, epoch) changed between requests", wit("sv", "src", hx(sv.Key), hx(prev.Key), ""))
			}
			r.Event("secret_value_repeated_epoch")
		} else {
			for ob, o := range epochs[ek] {
				if ob < sv.Epoch.NotAfter.Unix() && b < o.Epoch.NotAfter.Unix() {
					r.Violation("C39:sv-epochs-overlap", "two epochs of one protocol overlap", wit("sv", "src", "", "", ""))
				}
				if o.Key == sv.Key {
					r.Violation("C39:collision:sv", "two epochs of one protocol share their secret value", wit("sv", "src", "", "", ""))
				}
			}
			epochs[ek][b] = sv
		}
		for op, m := range epochs {
			if op.eng == s && op.proto != pL1 {
				if o, ok := m[b]; ok && o.Key == sv.Key {
					r.Violation("C39:collision:sv", "two protocols share their secret value in one epoch", wit("sv", "src", "", "", ""))
				}
			}
		}

		// --- level 1: fast side derives, slow side fetches and stores ---
		wantL1 := ref.Level1(ref.Key(sv.Key), uint64(w.ia[d]))
		l1meta := drkey.Level1Meta{Validity: t, ProtoId: drkey.Protocol(pL1), SrcIA: w.ia[s], DstIA: w.ia[d]}
		okL1 := true
		for _, side := range []int{s, d, d} {
			name := map[bool]string{true: "src", false: "dst"}[side == s]
			k, err := w.eng[side].GetLevel1Key(ctx, l1meta)
			r.Eval(1)
			r.Event("level1_" + name)
			switch {
			case err != nil:
				r.Violation("C39:level1-error:"+name, fmt.Sprintf("GetLevel1Key failed: %v", err), wit("level1", name, "", hx(drkey.Key(wantL1)), ""))
				okL1 = false
			case k.Key != drkey.Key(wantL1):
				r.Violation("C39:level1-mismatch:"+name+":"+kind, "level-1 key differs from PRF_SV(type||ISD-AS)", wit("level1", name, hx(k.Key), hx(drkey.Key(wantL1)), ""))
				okL1 = false
			case !k.Epoch.NotBefore.Equal(sv.Epoch.NotBefore) || !k.Epoch.NotAfter.Equal(sv.Epoch.NotAfter):
				r.Violation("C39:level1-epoch:"+name, "level-1 key epoch differs from the secret value's epoch", wit("level1", name, k.Epoch.String(), sv.Epoch.String(), ""))
			case k.SrcIA != w.ia[s] || k.DstIA != w.ia[d] || k.ProtoId != drkey.Protocol(pL1):
				r.Violation("C39:level1-meta:"+name, "level-1 key carries other ISD-ASes or protocol than requested", wit("level1", name, fmt.Sprint(k.SrcIA, k.DstIA, k.ProtoId), "", ""))
			}
		}
		if !okL1 {
			continue
		}

		// --- level 2 / 3 on both control services ---
		wantAH := ref.Level2(wantL1, ref.TypeASHost, proto, hd.H)
		wantHA := ref.Level2(wantL1, ref.TypeHostAS, proto, hs.H)
		wantHH := ref.HostHost(wantHA, hd.H)
		for _, side := range []int{s, d} {
			name := map[bool]string{true: "src", false: "dst"}[side == s]
			e := w.eng[side]
			ah, err := e.DeriveASHost(ctx, drkey.ASHostMeta{ProtoId: drkey.Protocol(proto), Validity: t, SrcIA: w.ia[s], DstIA: w.ia[d], DstHost: hd.Text})
			r.Eval(1)
			r.Event("as_host")
			if err != nil {
				r.Violation("C39:as-host-error:"+hd.Kind, fmt.Sprintf("DeriveASHost failed: %v", err), wit("as-host", name, "", "", ""))
			} else if ah.Key != drkey.Key(wantAH) {
				r.Violation("C39:as-host-mismatch:"+kind+":"+hd.Kind, "AS-host key differs from the documented derivation", wit("as-host", name, hx(ah.Key), hx(drkey.Key(wantAH)), ""))
			} else if !ah.Epoch.NotBefore.Equal(sv.Epoch.NotBefore) || !ah.Epoch.NotAfter.Equal(sv.Epoch.NotAfter) {
				r.Violation("C39:level2-epoch", "AS-host key epoch differs from the secret value's epoch", wit("as-host", name, ah.Epoch.String(), sv.Epoch.String(), ""))
			}
			ha, err := e.DeriveHostAS(ctx, drkey.HostASMeta{ProtoId: drkey.Protocol(proto), Validity: t, SrcIA: w.ia[s], DstIA: w.ia[d], SrcHost: hs.Text})
			r.Eval(1)
			r.Event("host_as")
			if err != nil {
				r.Violation("C39:host-as-error:"+hs.Kind, fmt.Sprintf("DeriveHostAS failed: %v", err), wit("host-as", name, "", "", ""))
			} else if ha.Key != drkey.Key(wantHA) {
				r.Violation("C39:host-as-mismatch:"+kind+":"+hs.Kind, "host-AS key differs from the documented derivation", wit("host-as", name, hx(ha.Key), hx(drkey.Key(wantHA)), ""))
			} else if !ha.Epoch.NotBefore.Equal(sv.Epoch.NotBefore) || !ha.Epoch.NotAfter.Equal(sv.Epoch.NotAfter) {
				r.Violation("C39:level2-epoch", "host-AS key epoch differs from the secret value's epoch", wit("host-as", name, ha.Epoch.String(), sv.Epoch.String(), ""))
			}
			hh, err := e.DeriveHostHost(ctx, drkey.HostHostMeta{ProtoId: drkey.Protocol(proto), Validity: t, SrcIA: w.ia[s], DstIA: w.ia[d], SrcHost: hs.Text, DstHost: hd.Text})
			r.Eval(1)
			r.Event("host_host")
			if err != nil {
				r.Violation("C39:host-host-error:"+hd.Kind, fmt.Sprintf("DeriveHostHost failed: %v", err), wit("host-host", name, "", "", ""))
			} else if hh.Key != drkey.Key(wantHH) {
				r.Violation("C39:host-host-mismatch:"+kind+":"+hd.Kind, "host-host key differs from the documented derivation", wit("host-host", name, hx(hh.Key), hx(drkey.Key(wantHH)), ""))
			}
		}
		if r.WantSample() && i%400 == 5 {
			r.Sample(wit("host-host", "both", hx(drkey.Key(wantHH)), hx(drkey.Key(wantHH)), "sample"))
		}

		// --- domain separation under this level-1 key (every 8th case) ---
		if i%8 != 0 {
			continue
		}
		sep := newC39Sep()
		sep3 := newC39Sep() // host-host keys under the host-AS key of hs
		pool := []c39Host{hs, hd}
		for k := 0; k < 6; k++ {
			pool = append(pool, c39GenHost(rng))
		}
		for k := 0; k < 3; k++ {
			pool = append(pool, pool[rng.IntN(len(pool))].respell(rng))
		}
		protos := []uint16{proto}
		if !ref.HasSpecific(proto) {
			protos = append(protos, proto^1|2, proto<<8|proto>>8|2, c39GenProto(rng)|2)
		}
		for k := 0; k < 24; k++ {
			h := pool[rng.IntN(len(pool))]
			p := protos[rng.IntN(len(protos))]
			if ref.HasSpecific(p) != ref.HasSpecific(proto) {
				p = proto
			}
			e := w.eng[rng.IntN(2)]
			sw := wit("separation", "", "", "", h.Text)
			switch rng.IntN(3) {
			case 0:
				if k, err := e.DeriveASHost(ctx, drkey.ASHostMeta{ProtoId: drkey.Protocol(p), Validity: t, SrcIA: w.ia[s], DstIA: w.ia[d], DstHost: h.Text}); err == nil {
					sep.observe(r, "level2", c39Input("as-host", p, h.H), k.Key, sw)
				}
			case 1:
				if k, err := e.DeriveHostAS(ctx, drkey.HostASMeta{ProtoId: drkey.Protocol(p), Validity: t, SrcIA: w.ia[s], DstIA: w.ia[d], SrcHost: h.Text}); err == nil {
					sep.observe(r, "level2", c39Input("host-as", p, h.H), k.Key, sw)
				}
			default:
				if k, err := e.DeriveHostHost(ctx, drkey.HostHostMeta{ProtoId: drkey.Protocol(proto), Validity: t, SrcIA: w.ia[s], DstIA: w.ia[d], SrcHost: hs.Text, DstHost: h.Text}); err == nil {
					sep3.observe(r, "level3", c39Input("host-host", 0, h.H), k.Key, sw)
				}
			}
		}
	}
}

// c39Direct exercises the derivers hosts use themselves (pkg/drkey/specific,
// pkg/drkey/generic) with random parent keys.
func c39Direct(r *mon.Run, rng *rand.Rand, n int) {
	hx := func(k drkey.Key) string { return mon.Hex(k[:]) }
	for i := 0; i < n; i++ {
		var parent drkey.Key
		for j := range parent {
			parent[j] = byte(rng.IntN(256))
		}
		sepS, sepG, sep3 := newC39Sep(), newC39Sep(), newC39Sep()
		pool := make([]c39Host, 0, 8)
		for k := 0; k < 6; k++ {
			pool = append(pool, c39GenHost(rng))
		}
		pool = append(pool, pool[0].respell(rng), pool[1].respell(rng))
		gp := c39GenProto(rng) | 2
		protos := []uint16{gp, gp ^ 1, gp<<8 | gp>>8 | 2}
		for k := 0; k < 12; k++ {
			h := pool[rng.IntN(len(pool))]
			p := protos[rng.IntN(len(protos))]
			ia := addr.IA(rng.Uint64())
			wit := c39Witness{Step: "direct", Proto: p, DstHost: h.Text, DstIA: ia.String(), Note: "parent=" + hx(parent)}
			r.Class("direct/" + h.Kind)
			r.Event("direct_derivation")
			typ, tname := byte(ref.TypeASHost), "as-host"
			if rng.IntN(2) == 0 {
				typ, tname = ref.TypeHostAS, "host-as"
			}
			var gs, gg drkey.Key
			var e1, e2 error
			if typ == ref.TypeASHost {
				gs, e1 = specific.Deriver{}.DeriveASHost(h.Text, parent)
				gg, e2 = generic.Deriver{Proto: drkey.Protocol(p)}.DeriveASHost(h.Text, parent)
			} else {
				gs, e1 = specific.Deriver{}.DeriveHostAS(h.Text, parent)
				gg, e2 = generic.Deriver{Proto: drkey.Protocol(p)}.DeriveHostAS(h.Text, parent)
			}
			g3, e3 := specific.Deriver{}.DeriveHostHost(h.Text, parent)
			g3g, e4 := generic.Deriver{Proto: drkey.Protocol(p)}.DeriveHostHost(h.Text, parent)
			g1, e5 := specific.Deriver{}.DeriveLevel1(ia, parent)
			if e1 != nil || e2 != nil || e3 != nil || e4 != nil || e5 != nil {
				r.Violation("C39:direct-error:"+h.Kind, fmt.Sprintf("deriver failed: %v %v %v %v %v", e1, e2, e3, e4, e5), wit)
				continue
			}
			r.Eval(5)
			check := func(what string, got drkey.Key, want ref.Key) {
				if got != drkey.Key(want) {
					w := wit
					w.Got, w.Want, w.Step = hx(got), hx(drkey.Key(want)), what
					r.Violation("C39:direct-mismatch:"+what+":"+h.Kind, what+" deriver output differs from the documented derivation", w)
				}
			}
			check("specific-"+tname, gs, ref.PRF(ref.Key(parent), ref.InputLevel2Specific(typ, h.H)))
			check("generic-"+tname, gg, ref.PRF(ref.Key(parent), ref.InputLevel2Generic(typ, p, h.H)))
			check("specific-host-host", g3, ref.HostHost(ref.Key(parent), h.H))
			check("generic-host-host", g3g, ref.HostHost(ref.Key(parent), h.H))
			check("level1", g1, ref.Level1(ref.Key(parent), uint64(ia)))
			sepS.observe(r, "direct-specific", c39Input(tname, 0, h.H), gs, wit)
			sepG.observe(r, "direct-generic", c39Input(tname, p, h.H), gg, wit)
			sep3.observe(r, "direct-host-host", c39Input("host-host", 0, h.H), g3, wit)
		}
	}
}

// c39Window checks the acceptance-window key selection and the relative /
// absolute timestamp conversion.
func c39Window(r *mon.Run, rng *rand.Rand, n int) {
	type ww struct {
		EpochLen, Window string
		Now              time.Time
		Timestamp        uint64
		GotEpoch         string
		Abs              time.Time
		Note             string
	}
	ia := addr.MustIAFrom(1, 0xff00_0000_0110)
	host := addr.HostIP(netip.MustParseAddr("10.0.0.1"))
	lens := []time.Duration{6 * time.Minute, 10 * time.Minute, time.Hour, 24 * time.Hour, 72 * time.Hour, 1000 * time.Second}
	for i := 0; i < n; i++ {
		L := lens[rng.IntN(len(lens))]
		var aw time.Duration
		switch rng.IntN(4) {
		case 0:
			aw = L
		case 1:
			aw = 5 * time.Minute
		case 2:
			aw = time.Duration(1 + rng.Int64N(int64(L)))
		default:
			aw = time.Duration(1+rng.IntN(20)) * time.Second
		}
		if aw > L {
			aw = L // [i]: the acceptance window is at most the epoch length
		}
		p := &drkeyutil.FakeProvider{EpochDuration: L, AcceptanceWindow: aw}
		now := c39GenTime(rng, L)
		eps := ref.EpochsAround(now, L)
		// choose the sender's absolute time near an interesting boundary, and the epoch it counted from
		k := rng.IntN(3)
		e := eps[k]
		var abs time.Time
		jit := []time.Duration{0, 1, -1, time.Millisecond, -time.Millisecond, time.Second, -time.Second}[rng.IntN(7)]
		switch rng.IntN(8) {
		case 0:
			abs = now.Add(aw/2 + jit)
		case 1:
			abs = now.Add(-aw/2 + jit)
		case 2:
			abs = e.End.Add(ref.GracePeriod + jit)
		case 3:
			abs = e.End.Add(jit)
		case 4:
			abs = e.Begin.Add(jit)
		case 5:
			abs = now.Add(time.Duration(rng.Int64N(int64(aw)+1)) - aw/2)
		case 6:
			abs = now.Add(time.Duration(rng.Int64N(int64(4*L))) - 2*L)
		default:
			abs = now.Add(jit)
		}
		if abs.Before(e.Begin) {
			abs = e.Begin.Add(time.Duration(rng.Int64N(int64(L))))
		}
		ts := uint64(abs.Sub(e.Begin))
		if ts >= 1<<48 {
			ts = rng.Uint64() & (1<<48 - 1)
		}
		// reference candidates
		cands := 0
		for _, c := range eps {
			if _, a, b := ref.WindowOK(c, ts, now, aw); a && b {
				cands++
			}
		}
		key, err := p.GetKeyWithinAcceptanceWindow(now, ts, ia, host)
		r.Eval(1)
		r.Event("window_query")
		w := ww{EpochLen: L.String(), Window: aw.String(), Now: now, Timestamp: ts}
		if err != nil {
			r.Event("window_refused")
			r.Class(fmt.Sprintf("window/refused/candidates=%d", cands)) // completeness is recorded, not judged
			continue
		}
		r.Event("window_selected")
		ge := ref.Epoch{Begin: key.Epoch.NotBefore, End: key.Epoch.NotAfter}
		which := -1
		for j, c := range eps {
			if c.Begin.Equal(ge.Begin) && c.End.Equal(ge.End) {
				which = j
			}
		}
		absGot, inW, inE := ref.WindowOK(ge, ts, now, aw)
		w.GotEpoch, w.Abs = key.Epoch.String(), absGot
		r.Class(fmt.Sprintf("window/selected=%d/candidates=%d", which-1, cands))
		switch {
		case which < 0:
			r.Violation("C39:window-foreign-epoch", "selected key belongs to none of the epochs around the current time", w)
		case !inE:
			r.Violation("C39:window-outside-epoch", fmt.Sprintf("selected epoch %s (+grace) does not contain the absolute time %s", key.Epoch, absGot), w)
		case !inW:
			r.Violation("C39:window-outside-window", fmt.Sprintf("absolute time %s under the selected epoch lies outside the acceptance window around %s", absGot, now), w)
		}
		if r.WantSample() && i%5000 == 17 {
			w.Note = "sample"
			r.Sample(w)
		}
		// relative/absolute conversion of pkg/spao
		if i%4 == 0 {
			ep := drkey.Epoch{NotBefore: e.Begin, NotAfter: e.End}
			s := e.Begin.Add(time.Duration(rng.Int64N(int64(L + ref.GracePeriod))))
			rel, err := spao.RelativeTimestamp(ep, s)
			r.Eval(1)
			r.Event("timestamp_roundtrip")
			if err != nil || rel >= 1<<48 || !spao.AbsoluteTimestamp(ep, rel).Equal(s) {
				r.Violation("C39:timestamp-roundtrip", fmt.Sprintf("RelativeTimestamp/AbsoluteTimestamp do not round-trip for %s in epoch %s (rel=%d err=%v)", s, ep, rel, err), w)
			}
			k2, err := p.GetASHostKey(s, ia, host)
			if err != nil || s.Before(k2.Epoch.NotBefore) || !s.Before(k2.Epoch.NotAfter) {
				r.Violation("C39:provider-epoch", fmt.Sprintf("GetASHostKey(%s) returned epoch %s", s, k2.Epoch), w)
			}
		}
	}
}

func checkC39(r *mon.Run) {
	r.Rule = "(a) two real control-service engines per world (real sqlite secret-value/level-1 stores, in-process level-1 fetch through the " +
		"real gRPC handler) asked for secret value, level-1, AS-host, host-AS and host-host keys for random protocol (SCMP / niche), time " +
		"(incl. epoch boundaries), ISD-ASes and IPv4/IPv6/service hosts (incl. alternative spellings and look-alike byte patterns), on the " +
		"fast and the slow side, compared with an independent AES-CBC-MAC derivation from the served secret value; (b) the exported derivers " +
		"with random parent keys; (c) per parent key: keys coincide iff (type, protocol, wire host) coincide; (d) FakeProvider acceptance-window " +
		"selection and spao timestamp conversion on random/boundary (epoch length, window, now, timestamp); class = part/derivation/host kinds or selection/candidates"
	r.Assumptions = []string{
		"derivation type codes 0..3 and zero padding to the AES block size are not spelled out in drkey.rst and are taken on trust",
		"an IPv4-mapped IPv6 spelling denotes the IPv4 host (SCION address headers carry the 4-byte form)",
		"the secret value itself (KDF) is local to the AS: only its stability, epoch containment and distinctness are checked; host-side derivation starts from the served secret value",
		"level-2/3 requests for protocol 0 (GENERIC) are outside the domain: the control service refuses them (see C40)",
		"acceptance window: soundness of a selected key is judged with inclusive bounds; whether a key is selected at all is recorded, not judged",
	}
	dir, err := os.MkdirTemp("", "verif-c39-")
	if err != nil {
		panic(err)
	}
	defer os.RemoveAll(dir)
	nWorlds := r.Pick(8, 32)
	perWorld := r.Pick(300, 1500)
	var wg sync.WaitGroup
	t0 := time.Now()
	for wi := 0; wi < nWorlds; wi++ {
		rng := r.Rand(fmt.Sprint("c39/world/", wi))
		w, err := c39NewWorld(r, dir, wi, rng)
		if err != nil {
			fmt.Println("cannot create world:", err)
			os.Exit(2)
		}
		wg.Add(1)
		go func(wi int) {
			defer wg.Done()
			c39RunWorld(r, wi, w, rng, perWorld)
			c39ConcurrentFetches(r, w, rng, r.Pick(12, 120))
			fmt.Printf("world %d done after %.1fs\n", wi, time.Since(t0).Seconds())
			for _, c := range w.close {
				_ = c()
			}
		}(wi)
	}
	wg.Add(2)
	go func() {
		defer wg.Done()
		c39Direct(r, r.Rand("c39/direct"), r.Pick(4000, 60000))
		fmt.Printf("direct part done after %.1fs\n", time.Since(t0).Seconds())
	}()
	go func() {
		defer wg.Done()
		c39Window(r, r.Rand("c39/window"), r.Pick(150000, 3000000))
		fmt.Printf("window part done after %.1fs\n", time.Since(t0).Seconds())
	}()
	wg.Wait()
	r.Require(int64(nWorlds*perWorld*8), 40, "concurrent_fetch_group_overlapped", "concurrent_fetch_key_ok", "secret_value", "secret_value_repeated_epoch", "level1_src", "level1_dst",
		"level1_fetched_from_remote_cs", "as_host", "host_as", "host_host", "separation_same_input_pair",
		"separation_distinct_input_pair", "direct_derivation", "window_selected", "window_refused", "timestamp_roundtrip")
}

// c39ConcurrentFetches: several hosts ask one control service at the same time
// for keys of the same remote AS and protocol but of DIFFERENT epochs, none of
// which it has yet, while the remote control service is slow. Each answer must
// be the key the source AS derives for that request's own validity time.
func c39ConcurrentFetches(r *mon.Run, w *c39World, rng *rand.Rand, groups int) {
	ctx := context.Background()
	for g := 0; g < groups; g++ {
		s := rng.IntN(2)
		d := 1 - s
		proto := uint16(1 + rng.IntN(3))
		// validity times stay well inside the 32-bit seconds range the protocol carries
		base := time.Unix(2_500_000_000+rng.Int64N(1_000_000_000)+int64(g)*int64(10*w.dur[s]/time.Second), 0)
		k := 2 + rng.IntN(3)
		metas := make([]drkey.ASHostMeta, k)
		for j := range metas {
			metas[j] = drkey.ASHostMeta{ProtoId: drkey.Protocol(proto), Validity: base.Add(time.Duration(j) * w.dur[s]),
				SrcIA: w.ia[s], DstIA: w.ia[d], DstHost: fmt.Sprintf("10.1.%d.%d", g%250, 1+j)}
		}
		gate := make(chan struct{})
		w.gate.Store(&gate)
		w.entered.Store(0)
		got := make([]drkey.ASHostKey, k)
		errs := make([]error, k)
		var wg sync.WaitGroup
		for j := range metas {
			wg.Add(1)
			go func(j int) {
				defer wg.Done()
				got[j], errs[j] = w.eng[d].DeriveASHost(ctx, metas[j])
			}(j)
		}
		for spin := 0; spin < 200 && w.entered.Load() < int64(k); spin++ {
			if spin > 20 {
				time.Sleep(20 * time.Microsecond)
			}
			runtime.Gosched()
		}
		overl := w.entered.Load()
		w.gate.Store(nil)
		close(gate)
		wg.Wait()
		r.Event("concurrent_fetch_group")
		if overl >= 2 {
			r.Event("concurrent_fetch_group_overlapped")
		}
		for j := range metas {
			r.Eval(1)
			want, werr := w.eng[s].DeriveASHost(ctx, metas[j])
			if werr != nil || errs[j] != nil {
				r.Event("concurrent_fetch_error")
				continue
			}
			wit := c39Witness{Step: "concurrent-fetch", Proto: proto, Time: metas[j].Validity, SrcIA: w.ia[s].String(), DstIA: w.ia[d].String(),
				DstHost: metas[j].DstHost, Engine: "fetching side", Got: mon.Hex(got[j].Key[:]), Want: mon.Hex(want.Key[:]),
				Note: fmt.Sprintf("%d concurrent requests for %d different epochs, %d remote fetches in flight together", k, k, overl)}
			switch {
			case !got[j].Epoch.Contains(metas[j].Validity):
				r.Violation("C39:concurrent:epoch", fmt.Sprintf("key served for validity %v has epoch [%v, %v)", metas[j].Validity.UTC(), got[j].Epoch.NotBefore.UTC(), got[j].Epoch.NotAfter.UTC()), wit)
			case got[j].Key != want.Key:
				r.Violation("C39:concurrent:key-differs-from-source", "the key served differs from the one the source AS derives for the same request", wit)
			default:
				r.Event("concurrent_fetch_key_ok")
			}
		}
	}
}
