package main

import (
	"context"
	"crypto/tls"
	"crypto/x509"
	"crypto/x509/pkix"
	"errors"
	"fmt"
	"math/big"
	"net"
	"net/netip"
	"sync"
	"time"

	"google.golang.org/grpc/credentials"
	"google.golang.org/grpc/peer"
	"google.golang.org/protobuf/types/known/timestamppb"

	"github.com/scionproto/scion/control/config"
	dkgrpc "github.com/scionproto/scion/control/drkey/grpc"
	"github.com/scionproto/scion/pkg/addr"
	"github.com/scionproto/scion/pkg/drkey"
	cppb "github.com/scionproto/scion/pkg/proto/control_plane"
	dkpb "github.com/scionproto/scion/pkg/proto/drkey"
	"github.com/scionproto/scion/pkg/scrypto/cppki"

	"verif/mon"
)

// c40Engine records every call and hands out a fresh recognisable key.
type c40Engine struct {
	mu    sync.Mutex
	calls []c40Call
	n     byte
}

type c40Call struct {
	Method           string
	Proto            uint16
	Validity         time.Time
	SrcIA, DstIA     addr.IA
	SrcHost, DstHost string
	Key              drkey.Key
}

func (e *c40Engine) rec(c c40Call) (drkey.Key, drkey.Epoch) {
	e.mu.Lock()
	defer e.mu.Unlock()
	e.n++
	for i := range c.Key {
		c.Key[i] = e.n ^ byte(i*17+1)
	}
	e.calls = append(e.calls, c)
	return c.Key, drkey.NewEpoch(1000, 2000)
}

func (e *c40Engine) take() []c40Call {
	e.mu.Lock()
	defer e.mu.Unlock()
	out := e.calls
	e.calls = nil
	return out
}

func (e *c40Engine) GetSecretValue(_ context.Context, m drkey.SecretValueMeta) (drkey.SecretValue, error) {
	k, ep := e.rec(c40Call{Method: "GetSecretValue", Proto: uint16(m.ProtoId), Validity: m.Validity})
	return drkey.SecretValue{Epoch: ep, ProtoId: m.ProtoId, Key: k}, nil
}

func (e *c40Engine) GetLevel1Key(_ context.Context, m drkey.Level1Meta) (drkey.Level1Key, error) {
	k, ep := e.rec(c40Call{Method: "GetLevel1Key", Proto: uint16(m.ProtoId), Validity: m.Validity, SrcIA: m.SrcIA, DstIA: m.DstIA})
	return drkey.Level1Key{Epoch: ep, ProtoId: m.ProtoId, SrcIA: m.SrcIA, DstIA: m.DstIA, Key: k}, nil
}

func (e *c40Engine) DeriveLevel1(_ context.Context, m drkey.Level1Meta) (drkey.Level1Key, error) {
	k, ep := e.rec(c40Call{Method: "DeriveLevel1", Proto: uint16(m.ProtoId), Validity: m.Validity, SrcIA: m.SrcIA, DstIA: m.DstIA})
	return drkey.Level1Key{Epoch: ep, ProtoId: m.ProtoId, SrcIA: m.SrcIA, DstIA: m.DstIA, Key: k}, nil
}

func (e *c40Engine) DeriveASHost(_ context.Context, m drkey.ASHostMeta) (drkey.ASHostKey, error) {
	k, ep := e.rec(c40Call{Method: "DeriveASHost", Proto: uint16(m.ProtoId), Validity: m.Validity, SrcIA: m.SrcIA, DstIA: m.DstIA, DstHost: m.DstHost})
	return drkey.ASHostKey{Epoch: ep, ProtoId: m.ProtoId, SrcIA: m.SrcIA, DstIA: m.DstIA, DstHost: m.DstHost, Key: k}, nil
}

func (e *c40Engine) DeriveHostAS(_ context.Context, m drkey.HostASMeta) (drkey.HostASKey, error) {
	k, ep := e.rec(c40Call{Method: "DeriveHostAS", Proto: uint16(m.ProtoId), Validity: m.Validity, SrcIA: m.SrcIA, DstIA: m.DstIA, SrcHost: m.SrcHost})
	return drkey.HostASKey{Epoch: ep, ProtoId: m.ProtoId, SrcIA: m.SrcIA, DstIA: m.DstIA, SrcHost: m.SrcHost, Key: k}, nil
}

func (e *c40Engine) DeriveHostHost(_ context.Context, m drkey.HostHostMeta) (drkey.HostHostKey, error) {
	k, ep := e.rec(c40Call{Method: "DeriveHostHost", Proto: uint16(m.ProtoId), Validity: m.Validity, SrcIA: m.SrcIA, DstIA: m.DstIA, SrcHost: m.SrcHost, DstHost: m.DstHost})
	return drkey.HostHostKey{Epoch: ep, ProtoId: m.ProtoId, SrcIA: m.SrcIA, DstIA: m.DstIA, SrcHost: m.SrcHost, DstHost: m.DstHost, Key: k}, nil
}

// c40Verifier stands in for the CP-PKI chain verification: a chain is valid
// iff its leaf says so; the authenticated AS is the leaf's ISD-AS attribute.
type c40Verifier struct{}

func (c40Verifier) VerifyParsedClientCertificate(chain []*x509.Certificate) (addr.IA, error) {
	if chain[0].Subject.CommonName != "trusted" {
		return 0, errors.New("chain does not verify against the TRC")
	}
	return cppki.ExtractIA(chain[0].Subject)
}

type c40Cert struct {
	IA      addr.IA
	HasIA   bool
	Trusted bool
	// Serial: leaf serial numbers are drawn from a tiny pool, so certificates of
	// different ASes / issuers (serials are unique per CA only) collide often.
	Serial int64
}

func (c c40Cert) x509() *x509.Certificate {
	n := pkix.Name{CommonName: "untrusted"}
	if c.Trusted {
		n.CommonName = "trusted"
	}
	if c.HasIA {
		n.Names = []pkix.AttributeTypeAndValue{{Type: cppki.OIDNameIA, Value: c.IA.String()}}
	}
	return &x509.Certificate{Subject: n, SerialNumber: big.NewInt(c.Serial),
		NotBefore: time.Now().Add(-24 * time.Hour), NotAfter: time.Now().Add(365 * 24 * time.Hour),
		Raw: []byte(fmt.Sprintf("%s/%v/%v/%d", c.IA, c.HasIA, c.Trusted, c.Serial))}
}

type c40OtherAuth struct{}

func (c40OtherAuth) AuthType() string { return "other" }

type c40Case struct {
	RPC              string
	Proto            uint16
	NoTime           bool
	Time             time.Time
	SrcIA, DstIA     addr.IA
	SrcHost, DstHost string
	PeerKind         string // tcp | udp | none
	PeerIP           netip.Addr
	PeerForm         string // "4" or "16" byte slice for IPv4 peers
	Auth             string // none | tls | tls-nocert | other
	Chain            []c40Cert
	Config           int
	Local            addr.IA
}

type c40HostProto struct {
	Host  netip.Addr
	Proto uint16
}

type c40Witness struct {
	Case     c40Case
	Served   bool
	Err      string
	Calls    []c40Call
	Expected string
	Reason   string
}

func c40Named(s string, p netip.Addr) bool {
	a, err := netip.ParseAddr(s)
	return err == nil && p.IsValid() && a.Unmap() == p.Unmap()
}

// c40Decide is the decision table of C40. authorized=false means the request
// must not reach the engine; ambiguous means the statement does not decide the
// case (nothing is judged); reason names the row.
func c40Decide(c c40Case, allowed map[c40HostProto]bool) (authorized, ambiguous bool, reason string) {
	tcp := c.PeerKind == "tcp"
	switch c.RPC {
	case "ASHost":
		switch {
		case !tcp:
			return false, false, "no-requester-address"
		case c.DstIA != c.Local:
			return false, false, "dst-not-local"
		case !c40Named(c.DstHost, c.PeerIP):
			return false, false, "requester-not-dst-host"
		case c.Proto == 0:
			return false, true, "generic-level2"
		}
		return true, false, "dst-host-of-local-dst"
	case "HostAS":
		switch {
		case !tcp:
			return false, false, "no-requester-address"
		case c.SrcIA != c.Local:
			return false, false, "src-not-local"
		case !c40Named(c.SrcHost, c.PeerIP):
			return false, false, "requester-not-src-host"
		case c.Proto == 0:
			return false, true, "generic-level2"
		}
		return true, false, "src-host-of-local-src"
	case "HostHost":
		switch {
		case c.Proto == 0:
			return false, false, "generic"
		case !tcp:
			return false, false, "no-requester-address"
		case c.SrcIA == c.Local && c40Named(c.SrcHost, c.PeerIP):
			return true, false, "local-src-host"
		case c.DstIA == c.Local && c40Named(c.DstHost, c.PeerIP):
			return true, false, "local-dst-host"
		}
		return false, false, "requester-not-a-local-named-host"
	case "Level1":
		switch {
		case c.PeerKind == "none":
			return false, false, "no-peer"
		case c.Auth != "tls":
			return false, false, "no-client-certificate"
		case !c.Chain[0].Trusted || !c.Chain[0].HasIA || c.Chain[0].IA.ISD() == 0 || c.Chain[0].IA.AS() == 0:
			return false, false, "certificate-not-verified"
		case c.Proto > 1:
			return true, true, "unassigned-protocol" // authenticated, but the statement is silent on protocol ids
		}
		return true, false, "authenticated-as"
	case "SV", "IntraLvl1":
		switch {
		case !tcp:
			return false, false, "no-requester-address"
		case !allowed[c40HostProto{c.PeerIP.Unmap(), c.Proto}]:
			return false, false, "host-not-configured-for-protocol"
		case c.RPC == "IntraLvl1" && c.SrcIA != c.Local && c.DstIA != c.Local:
			return false, false, "local-as-not-an-endpoint"
		}
		return true, false, "configured-host"
	}
	panic("unknown rpc")
}

func checkC40(r *mon.Run) {
	r.Rule = "one case = RPC (AS-host, host-AS, host-host, level-1, secret value, intra-AS level-1) x protocol (generic, SCMP, niche) x " +
		"src/dst ISD-AS from {local, neighbours, remote} x named hosts (IPv4/IPv6, alternative spellings, service names, garbage) x requester " +
		"(TCP address equal/near/other in 4- or 16-byte form, non-TCP, absent) x TLS state (none, other auth, no certificate, forged chains " +
		"with/without ISD-AS, verifying or not) x allowed-host configuration; the real grpc.Server methods are called directly with a " +
		"recording engine; oracle = decision table; class = rpc/row/outcome. Concurrent phase: groups of 2-4 individually entitled AS-host / host-AS / " +
		"host-host requests that differ in one field (named local host, remote host, protocol, second of the validity time) or are duplicates, issued at once against " +
		"one server whose engine holds every derivation at a gate until the group is under way; every requester must receive the key derived for the parameters it named"
	r.Assumptions = []string{
		"chain verification against the TRC is stubbed (C34 owns it): a chain verifies iff its leaf is marked trusted, the authenticated AS is the leaf's ISD-AS attribute",
		"a named host and a requester address are the same host iff they are the same IP after unmapping IPv4-in-IPv6",
		"AS-host/host-AS requests for the generic protocol by the otherwise entitled host, and level-1 requests for unassigned protocol numbers, are not decided by the statement: recorded, not judged",
		"requests without a valid time are malformed: they may be refused, but must not be served to an unauthorized requester",
	}
	rng := r.Rand("c40")
	local := addr.MustIAFrom(1, 0xff00_0000_0110)
	ias := []addr.IA{local, local, local, local ^ 1, addr.MustIAFrom(1, 0xff00_0000_0111), addr.MustIAFrom(2, 0xff00_0000_0110),
		addr.MustIAFrom(1, 0), 0, addr.MustIAFrom(2, 0xff00_0000_0210)}
	hosts := []netip.Addr{
		netip.MustParseAddr("10.0.0.1"), netip.MustParseAddr("10.0.0.2"), netip.MustParseAddr("10.0.1.1"),
		netip.MustParseAddr("2001:db8::1"), netip.MustParseAddr("2001:db8::2"), netip.MustParseAddr("a00:1::"),
	}
	// allowed-host configurations: reference list and the server's map (built
	// through the real config type for SCMP, directly for other protocols)
	type cfg struct {
		ref map[c40HostProto]bool
		srv map[config.HostProto]struct{}
	}
	mkCfg := func(scmp []string, extra []c40HostProto) cfg {
		c := cfg{ref: map[c40HostProto]bool{}}
		l := config.SecretValueHostList{"scmp": scmp}
		c.srv = l.ToAllowedSet()
		for _, s := range scmp {
			c.ref[c40HostProto{netip.MustParseAddr(s), 1}] = true
		}
		for _, e := range extra {
			c.ref[e] = true
			c.srv[config.HostProto{Host: e.Host, Proto: drkey.Protocol(e.Proto)}] = struct{}{}
		}
		return c
	}
	cfgs := []cfg{
		mkCfg(nil, nil),
		mkCfg([]string{"10.0.0.1", "2001:db8::1"}, nil),
		mkCfg([]string{"10.0.0.2"}, []c40HostProto{{hosts[0], 7}, {hosts[0], 0}, {hosts[3], 0x0100}, {hosts[1], 7}}),
	}
	protos := []uint16{0, 1, 1, 1, 7, 7, 0x0100, 2, 0xffff}
	rpcs := []string{"ASHost", "HostAS", "HostHost", "Level1", "SV", "IntraLvl1"}

	spell := func(a netip.Addr) string {
		if a.Is4() && rng.IntN(4) == 0 {
			return "::ffff:" + a.String()
		}
		if a.Is6() && rng.IntN(4) == 0 {
			return a.StringExpanded()
		}
		return a.String()
	}
	junkHosts := []string{"", "CS", "DS_M", "host.example", "10.0.0.1:80", "10.0.0", "2001:db8::1%eth0", "10.0.0.01"}

	n := r.Pick(200000, 3000000)
	eng := &c40Engine{}
	servers := make([]*dkgrpc.Server, len(cfgs))
	for i, c := range cfgs {
		servers[i] = &dkgrpc.Server{LocalIA: local, ClientCertificateVerifier: c40Verifier{}, Engine: eng, AllowedSVHostProto: c.srv}
	}
	for i := 0; i < n; i++ {
		c := c40Case{RPC: rpcs[rng.IntN(len(rpcs))], Proto: protos[rng.IntN(len(protos))], Local: local, Config: rng.IntN(len(cfgs))}
		c.Time = time.Unix(int64(1_600_000_000+rng.IntN(400_000_000)), 0).UTC()
		c.NoTime = rng.IntN(40) == 0
		c.SrcIA, c.DstIA = ias[rng.IntN(len(ias))], ias[rng.IntN(len(ias))]
		hs, hd := hosts[rng.IntN(len(hosts))], hosts[rng.IntN(len(hosts))]
		c.SrcHost, c.DstHost = spell(hs), spell(hd)
		if rng.IntN(25) == 0 {
			c.SrcHost = junkHosts[rng.IntN(len(junkHosts))]
		}
		if rng.IntN(25) == 0 {
			c.DstHost = junkHosts[rng.IntN(len(junkHosts))]
		}
		// requester
		switch x := rng.IntN(20); {
		case x == 0:
			c.PeerKind = "none"
		case x == 1:
			c.PeerKind = "udp"
		default:
			c.PeerKind = "tcp"
		}
		switch rng.IntN(5) {
		case 0, 1:
			c.PeerIP = hs
		case 2, 3:
			c.PeerIP = hd
		default:
			c.PeerIP = hosts[rng.IntN(len(hosts))]
		}
		c.PeerForm = "16"
		if c.PeerIP.Is4() && rng.IntN(2) == 0 {
			c.PeerForm = "4"
		}
		// client authentication
		switch x := rng.IntN(10); {
		case x < 5:
			c.Auth = "tls"
			certIA := ias[rng.IntN(len(ias))]
			if rng.IntN(2) == 0 {
				certIA = []addr.IA{c.SrcIA, c.DstIA}[rng.IntN(2)]
			}
			c.Chain = []c40Cert{{IA: certIA, HasIA: rng.IntN(12) != 0, Trusted: rng.IntN(4) != 0, Serial: int64(1 + rng.IntN(3))}}
			if rng.IntN(2) == 0 { // issuing CA of another AS behind the leaf
				c.Chain = append(c.Chain, c40Cert{IA: ias[rng.IntN(len(ias))], HasIA: true, Trusted: true, Serial: int64(1 + rng.IntN(3))})
			}
		case x < 6:
			c.Auth = "tls-nocert"
		case x < 7:
			c.Auth = "other"
		default:
			c.Auth = "none"
		}
		if c.RPC == "Level1" && rng.IntN(3) != 0 {
			c.Auth = "tls"
			if c.Chain == nil {
				c.Chain = []c40Cert{{IA: ias[3+rng.IntN(len(ias)-3)], HasIA: true, Trusted: true, Serial: int64(1 + rng.IntN(3))}}
			}
		}

		// --- build the call ---
		ctx := context.Background()
		if c.PeerKind != "none" {
			ip := net.IP(c.PeerIP.AsSlice())
			if c.PeerIP.Is4() && c.PeerForm == "16" {
				ip = ip.To16()
			}
			p := &peer.Peer{Addr: &net.TCPAddr{IP: ip, Port: 1024 + rng.IntN(60000)}}
			if c.PeerKind == "udp" {
				p.Addr = &net.UDPAddr{IP: ip, Port: 30252}
			}
			switch c.Auth {
			case "tls":
				var chain []*x509.Certificate
				for _, x := range c.Chain {
					chain = append(chain, x.x509())
				}
				p.AuthInfo = credentials.TLSInfo{State: tls.ConnectionState{PeerCertificates: chain}}
			case "tls-nocert":
				p.AuthInfo = credentials.TLSInfo{}
			case "other":
				p.AuthInfo = c40OtherAuth{}
			}
			ctx = peer.NewContext(ctx, p)
		}
		var vt *timestamppb.Timestamp
		if !c.NoTime {
			vt = timestamppb.New(c.Time)
		}
		srv := servers[c.Config]
		eng.take()
		var key []byte
		var err error
		pv, stack := mon.Try(func() {
			switch c.RPC {
			case "ASHost":
				var rep *cppb.DRKeyASHostResponse
				rep, err = srv.DRKeyASHost(ctx, &cppb.DRKeyASHostRequest{ValTime: vt, ProtocolId: dkpb.Protocol(c.Proto),
					SrcIa: uint64(c.SrcIA), DstIa: uint64(c.DstIA), DstHost: c.DstHost})
				if rep != nil {
					key = rep.Key
				}
			case "HostAS":
				var rep *cppb.DRKeyHostASResponse
				rep, err = srv.DRKeyHostAS(ctx, &cppb.DRKeyHostASRequest{ValTime: vt, ProtocolId: dkpb.Protocol(c.Proto),
					SrcIa: uint64(c.SrcIA), DstIa: uint64(c.DstIA), SrcHost: c.SrcHost})
				if rep != nil {
					key = rep.Key
				}
			case "HostHost":
				var rep *cppb.DRKeyHostHostResponse
				rep, err = srv.DRKeyHostHost(ctx, &cppb.DRKeyHostHostRequest{ValTime: vt, ProtocolId: dkpb.Protocol(c.Proto),
					SrcIa: uint64(c.SrcIA), DstIa: uint64(c.DstIA), SrcHost: c.SrcHost, DstHost: c.DstHost})
				if rep != nil {
					key = rep.Key
				}
			case "Level1":
				var rep *cppb.DRKeyLevel1Response
				rep, err = srv.DRKeyLevel1(ctx, &cppb.DRKeyLevel1Request{ValTime: vt, ProtocolId: dkpb.Protocol(c.Proto)})
				if rep != nil {
					key = rep.Key
				}
			case "SV":
				var rep *cppb.DRKeySecretValueResponse
				rep, err = srv.DRKeySecretValue(ctx, &cppb.DRKeySecretValueRequest{ValTime: vt, ProtocolId: dkpb.Protocol(c.Proto)})
				if rep != nil {
					key = rep.Key
				}
			case "IntraLvl1":
				var rep *cppb.DRKeyIntraLevel1Response
				rep, err = srv.DRKeyIntraLevel1(ctx, &cppb.DRKeyIntraLevel1Request{ValTime: vt, ProtocolId: dkpb.Protocol(c.Proto),
					SrcIa: uint64(c.SrcIA), DstIa: uint64(c.DstIA)})
				if rep != nil {
					key = rep.Key
				}
			}
		})
		calls := eng.take()
		served := err == nil && key != nil
		authorized, ambiguous, reason := c40Decide(c, cfgs[c.Config].ref)
		w := c40Witness{Case: c, Served: served, Calls: calls, Reason: reason}
		if err != nil {
			w.Err = err.Error()
		}
		if pv != nil {
			r.Violation("C40:panic:"+mon.PanicSite(stack), fmt.Sprintf("%s handler panicked: %v\n%s", c.RPC, pv, stack), w)
			continue
		}
		outcome := "refused"
		if served {
			outcome = "served"
		}
		r.Class(fmt.Sprintf("%s/%s/%s", c.RPC, reason, outcome))
		r.Class(fmt.Sprintf("%s/%s/%s/proto=%s", c.RPC, reason, outcome,
			map[bool]string{true: "generic", false: map[bool]string{true: "scmp", false: "niche"}[c.Proto == 1]}[c.Proto == 0]))
		r.Event(c.RPC + "_" + outcome)
		if ambiguous {
			r.Event("unjudged_" + reason)
			continue
		}
		r.Eval(1)
		switch {
		case !authorized && (served || len(calls) > 0):
			w.Expected = "refused without consulting the engine"
			r.Violation(fmt.Sprintf("C40:%s:served-unauthorized:%s", c.RPC, reason),
				fmt.Sprintf("%s request was served (served=%v, engine calls=%d) although the requester is not entitled: %s", c.RPC, served, len(calls), reason), w)
			continue
		case authorized && !c.NoTime && !served:
			w.Expected = "served"
			r.Violation(fmt.Sprintf("C40:%s:refused-entitled:%s", c.RPC, reason),
				fmt.Sprintf("%s request of the entitled requester (%s) was refused: %v", c.RPC, reason, err), w)
			continue
		}
		if !served {
			if len(calls) > 0 {
				r.Violation("C40:"+c.RPC+":engine-consulted-for-refused-request", "the engine derived a key for a request that was then refused", w)
			}
			continue
		}
		// served: exactly the requested (and authorised) key
		want := c40Call{Proto: c.Proto, Validity: c.Time, SrcIA: c.SrcIA, DstIA: c.DstIA}
		switch c.RPC {
		case "ASHost":
			want.Method, want.DstHost = "DeriveASHost", c.DstHost
		case "HostAS":
			want.Method, want.SrcHost = "DeriveHostAS", c.SrcHost
		case "HostHost":
			want.Method, want.SrcHost, want.DstHost = "DeriveHostHost", c.SrcHost, c.DstHost
		case "Level1":
			want.Method, want.SrcIA, want.DstIA = "DeriveLevel1", c.Local, c.Chain[0].IA
		case "SV":
			want.Method, want.SrcIA, want.DstIA = "GetSecretValue", 0, 0
		case "IntraLvl1":
			want.Method = "GetLevel1Key"
		}
		ok := len(calls) == 1
		if ok {
			g := calls[0]
			want.Key = g.Key
			ok = g.Method == want.Method && g.Proto == want.Proto && g.Validity.Equal(want.Validity) && g.SrcIA == want.SrcIA &&
				g.DstIA == want.DstIA && g.SrcHost == want.SrcHost && g.DstHost == want.DstHost && string(key) == string(g.Key[:])
		}
		if !ok {
			w.Expected = fmt.Sprintf("%+v", want)
			k := "C40:" + c.RPC + ":wrong-key-served"
			if c.RPC == "Level1" && len(calls) == 1 && calls[0].DstIA != c.Chain[0].IA {
				k = "C40:Level1:key-for-other-as-than-certificate"
			}
			r.Violation(k, fmt.Sprintf("%s served a key that is not the one requested/authorised (engine calls %+v)", c.RPC, calls), w)
		}
		if r.WantSample() && i%1999 < 40 {
			r.Sample(w)
		}
	}
	c40ConcurrentPhase(r, local)
	c40ChainPhase(r, local)
	need := []string{"concurrent_group", "concurrent_group_overlapped", "concurrent_served_own_key", "level1_list_served", "level1_list_refused"}
	for _, rpc := range rpcs {
		need = append(need, rpc+"_served", rpc+"_refused")
	}
	r.Require(int64(n)*8/10, 90, need...)
	r.RequireClasses(
		"ASHost/dst-host-of-local-dst/served", "ASHost/dst-not-local/refused", "ASHost/requester-not-dst-host/refused",
		"HostAS/src-host-of-local-src/served", "HostAS/src-not-local/refused", "HostAS/requester-not-src-host/refused",
		"HostHost/local-src-host/served", "HostHost/local-dst-host/served", "HostHost/generic/refused",
		"HostHost/requester-not-a-local-named-host/refused",
		"Level1/authenticated-as/served", "Level1/no-client-certificate/refused", "Level1/certificate-not-verified/refused",
		"SV/configured-host/served", "SV/host-not-configured-for-protocol/refused",
		"IntraLvl1/configured-host/served", "IntraLvl1/local-as-not-an-endpoint/refused", "IntraLvl1/host-not-configured-for-protocol/refused",
	)
}
