package main

import (
	"context"
	"crypto/tls"
	"crypto/x509"
	"errors"
	"fmt"
	"net"
	"time"

	"google.golang.org/grpc/credentials"
	"google.golang.org/grpc/peer"
	"google.golang.org/protobuf/types/known/timestamppb"

	dkgrpc "github.com/scionproto/scion/control/drkey/grpc"
	"github.com/scionproto/scion/pkg/addr"
	cppb "github.com/scionproto/scion/pkg/proto/control_plane"
	"github.com/scionproto/scion/pkg/scrypto/cppki"

	"verif/mon"
	gen "verif/pkitrustgen"
)

// Certificate-list phase of C40: level-1 requests whose TLS peer presents
// REAL CP-PKI certificates in lists of 1-5 entries: the requester's own chain
// with extra certificates behind it (root, a second CA, the public chain of
// ANOTHER AS), self-signed leaves in front of somebody else's chain, chains in
// the wrong order. The TLS layer proves possession of the key of the FIRST
// certificate only, so the authenticated AS is the one of a verified chain that
// starts with the first certificate. A level-1 key may be derived only towards
// that AS.

// c40ChainVerifier stands in for the TRC-based verification: a list verifies
// iff its first two certificates are one of the genuine [AS, CA] pairs of the
// world (compared by their DER bytes); the authenticated AS is the subject of
// the first.
type c40ChainVerifier struct{ genuine map[string]addr.IA }

func (v c40ChainVerifier) VerifyParsedClientCertificate(chain []*x509.Certificate) (addr.IA, error) {
	if len(chain) < 2 {
		return 0, errors.New("chain too short")
	}
	ia, ok := v.genuine[string(chain[0].Raw)+"|"+string(chain[1].Raw)]
	if !ok {
		return 0, errors.New("chain does not verify against the TRC")
	}
	return ia, nil
}

func c40ChainPhase(r *mon.Run, local addr.IA) {
	rng := r.Rand("c40-chain")
	pool := gen.NewPool(24, 4, 4)
	dr := pool.Drawer(rng)
	nb, na := time.Now().Add(-24*time.Hour), time.Now().Add(365*24*time.Hour)
	root := gen.NewRoot(dr.Next("P-256"), "root", "1-ff00:0:1", nb, na)
	type as struct {
		ia    addr.IA
		chain []*x509.Certificate
	}
	mk := func(ia string) as {
		plan := gen.ChainPlan{IA: ia, CAIA: "1-ff00:0:1", CANotBefore: nb, CANotAfter: na, ASNotBefore: nb, ASNotAfter: na}
		return as{addr.MustParseIA(ia), gen.IssueChain(plan, root, dr.Next("P-256"), dr.Next("P-256"), nil)}
	}
	victims := []as{mk("1-ff00:0:111"), mk("2-ff00:0:210"), mk("1-ff00:0:112")}
	genuine := map[string]addr.IA{}
	for _, a := range victims {
		genuine[string(a.chain[0].Raw)+"|"+string(a.chain[1].Raw)] = a.ia
	}
	// self-made certificates of an attacker: a self-signed leaf with and without
	// an ISD-AS, and an AS certificate for a victim's ISD-AS issued by a home-made CA
	leaves := map[string]*x509.Certificate{}
	for _, ia := range []string{"", "1-ff00:0:111", "2-ff00:0:210", "1-ff00:0:112"} {
		k := dr.Next("P-256")
		t := gen.Template(gen.AS, gen.Name("attacker", ia), nb, na, k.Public())
		leaves[ia] = gen.MustCreate(t, k.Public(), nil, k)
	}
	selfLeaf := func(ia string) *x509.Certificate { return leaves[ia] }
	fakeRoot := gen.NewRoot(dr.Next("P-256"), "home-made root", "1-ff00:0:666", nb, na)
	fakeChain := gen.IssueChain(gen.ChainPlan{IA: "1-ff00:0:111", CAIA: "1-ff00:0:666", CANotBefore: nb, CANotAfter: na, ASNotBefore: nb, ASNotAfter: na},
		fakeRoot, dr.Next("P-256"), dr.Next("P-256"), nil)

	eng := &c40GateEngine{}
	srv := &dkgrpc.Server{LocalIA: local, ClientCertificateVerifier: c40ChainVerifier{genuine}, Engine: eng}
	n := r.Pick(3000, 60000)
	for i := 0; i < n; i++ {
		own := victims[rng.IntN(len(victims))]
		other := victims[rng.IntN(len(victims))]
		for other.ia == own.ia {
			other = victims[rng.IntN(len(victims))]
		}
		var list []*x509.Certificate
		var shape string
		switch rng.IntN(9) {
		case 0:
			shape, list = "own-chain", own.chain
		case 1:
			shape, list = "own-chain+root", append(append([]*x509.Certificate{}, own.chain...), root.Cert)
		case 2:
			shape, list = "own-chain+other-chain", append(append([]*x509.Certificate{}, own.chain...), other.chain...)
		case 3:
			shape, list = "self-signed-leaf+other-chain", append([]*x509.Certificate{selfLeaf("")}, other.chain...)
		case 4:
			shape, list = "self-signed-leaf-claiming-ia+other-chain", append([]*x509.Certificate{selfLeaf(other.ia.String())}, other.chain...)
		case 5:
			shape, list = "home-made-chain+other-chain", append(append([]*x509.Certificate{}, fakeChain...), other.chain...)
		case 6:
			shape, list = "ca-first", []*x509.Certificate{own.chain[1], own.chain[0]}
		case 7:
			shape, list = "root+other-chain", append([]*x509.Certificate{root.Cert}, other.chain...)
		case 8:
			shape, list = "self-signed-leaf+other-chain+root", append(append([]*x509.Certificate{selfLeaf("")}, other.chain...), root.Cert)
		}
		// authenticated AS per the statement: a verified chain that STARTS with the first certificate
		var authIA addr.IA
		if len(list) >= 2 {
			authIA = genuine[string(list[0].Raw)+"|"+string(list[1].Raw)]
		}
		ctx := peer.NewContext(context.Background(), &peer.Peer{
			Addr:     &net.TCPAddr{IP: net.IPv4(192, 0, 2, byte(1+rng.IntN(200))), Port: 40000},
			AuthInfo: credentials.TLSInfo{State: tls.ConnectionState{PeerCertificates: list}},
		})
		val := time.Unix(int64(1_600_000_000+rng.IntN(400_000_000)), 0).UTC()
		gate := make(chan struct{})
		close(gate)
		eng.gate.Store(&gate)
		var rep *cppb.DRKeyLevel1Response
		var err error
		pv, stack := mon.Try(func() {
			rep, err = srv.DRKeyLevel1(ctx, &cppb.DRKeyLevel1Request{ValTime: timestamppb.New(val), ProtocolId: 1})
		})
		r.Eval(1)
		wit := map[string]any{"certificate_list": shape, "subjects": subjectsOf(list), "authenticated_as": authIA.String(), "err": fmt.Sprint(err)}
		if pv != nil {
			r.Violation("C40:panic:"+mon.PanicSite(stack), fmt.Sprintf("DRKeyLevel1 panicked: %v", pv), wit)
			continue
		}
		served := err == nil && rep != nil && rep.Key != nil
		out := "refused"
		if served {
			out = "served"
		}
		r.Class("level1-certificate-list/" + shape + "/" + out)
		r.Event("level1_list_" + out)
		if !served {
			if authIA != 0 && shape == "own-chain" {
				r.Violation("C40:Level1:refused-entitled:own-chain", fmt.Sprintf("a level-1 request over a connection authenticated with the genuine chain of %s was refused: %v", authIA, err), wit)
			}
			continue
		}
		// which AS was the key derived for? the gate engine's key is a function of (src, dst)
		var forIA addr.IA
		for _, c := range append([]as{{ia: local}}, victims...) {
			k := c40KeyOf("L1", 1, val, local, c.ia, "", "")
			if string(k[:]) == string(rep.Key) {
				forIA = c.ia
			}
		}
		wit["key_derived_for"] = forIA.String()
		switch {
		case authIA == 0:
			r.Violation("C40:Level1:served-unauthenticated-list/"+shape, fmt.Sprintf("a level-1 key (towards %s) was served although no verified chain starts with the certificate the peer proved possession of", forIA), wit)
		case forIA != authIA:
			r.Violation("C40:Level1:key-for-other-as-than-certificate/"+shape, fmt.Sprintf("level-1 key derived towards %s, the authenticated AS is %s", forIA, authIA), wit)
		}
	}
}

func subjectsOf(l []*x509.Certificate) []string {
	var out []string
	for _, c := range l {
		ia, _ := cppki.ExtractIA(c.Subject)
		out = append(out, fmt.Sprintf("%s (%s)", c.Subject.CommonName, ia))
	}
	return out
}
