package main

// C44 — the shim dispatcher never reflects traffic to unintended hosts.
//
// Real dispatcher.Server values (both settings of the dispatcher function,
// several service-address maps) bound to loopback UDP sockets. Generated
// datagram SEQUENCES (the server's decoder state is reused between packets) are
// fed through Server.processMsgNextHop (verif hook) with a chosen outer
// destination address and previous hop; the returned next hop and bytes are
// judged by verif/shimref, which parses the raw bytes itself and derives the
// set of destinations the statement allows. A final phase drives the real
// Serve loop over real loopback sockets.

import (
	"encoding/hex"
	"encoding/json"
	"fmt"
	"math/rand/v2"
	"net"
	"net/netip"
	"os"
	"sort"
	"syscall"
	"time"

	"github.com/gopacket/gopacket"

	"github.com/scionproto/scion/dispatcher"
	"github.com/scionproto/scion/pkg/addr"
	"github.com/scionproto/scion/pkg/slayers"
	"github.com/scionproto/scion/pkg/slayers/path"
	"github.com/scionproto/scion/pkg/slayers/path/empty"
	"github.com/scionproto/scion/pkg/slayers/path/epic"
	"github.com/scionproto/scion/pkg/slayers/path/onehop"
	"github.com/scionproto/scion/pkg/slayers/path/scion"

	"verif/mon"
	"verif/shimref"
)

var (
	c44IA1 = addr.MustParseIA("1-ff00:0:110")
	c44IA2 = addr.MustParseIA("1-ff00:0:111")
	c44IA3 = addr.MustParseIA("2-ff00:0:210")

	c44Hosts = []netip.Addr{
		netip.MustParseAddr("127.0.0.1"),
		netip.MustParseAddr("127.0.0.2"),
		netip.MustParseAddr("10.1.2.3"),
		netip.MustParseAddr("::1"),
		netip.MustParseAddr("fd00::1:2"),
	}
	c44SVCs = []addr.SVC{addr.SvcCS, addr.SvcDS, addr.SvcCS | addr.SVCMcast, addr.SvcWildcard}
)

type c44Gen struct {
	rng *rand.Rand
}

func (g *c44Gen) host() netip.Addr { return c44Hosts[g.rng.IntN(len(c44Hosts))] }
func (g *c44Gen) ia() addr.IA      { return []addr.IA{c44IA1, c44IA2, c44IA3}[g.rng.IntN(3)] }
func (g *c44Gen) port() uint16 {
	if g.rng.IntN(40) == 0 {
		return 0
	}
	return uint16(1 + g.rng.IntN(65535))
}
func (g *c44Gen) bytes(n int) []byte {
	b := make([]byte, n)
	for i := range b {
		b[i] = byte(g.rng.IntN(256))
	}
	return b
}

func (g *c44Gen) scionPath() *scion.Decoded {
	nseg := 1 + g.rng.IntN(3)
	d := &scion.Decoded{}
	for i := 0; i < nseg; i++ {
		l := 1 + g.rng.IntN(4)
		d.PathMeta.SegLen[i] = uint8(l)
		d.NumHops += l
		d.InfoFields = append(d.InfoFields, path.InfoField{Peer: g.rng.IntN(6) == 0, ConsDir: g.rng.IntN(2) == 0,
			SegID: uint16(g.rng.IntN(1 << 16)), Timestamp: g.rng.Uint32()})
	}
	d.NumINF = nseg
	for i := 0; i < d.NumHops; i++ {
		hf := path.HopField{IngressRouterAlert: g.rng.IntN(8) == 0, EgressRouterAlert: g.rng.IntN(8) == 0, ExpTime: uint8(g.rng.IntN(256)),
			ConsIngress: uint16(g.rng.IntN(1 << 16)), ConsEgress: uint16(g.rng.IntN(1 << 16))}
		copy(hf.Mac[:], g.bytes(6))
		d.HopFields = append(d.HopFields, hf)
	}
	// the packet has arrived: the current pointers are usually at the end
	d.PathMeta.CurrHF = uint8(d.NumHops - 1)
	d.PathMeta.CurrINF = uint8(nseg - 1)
	if g.rng.IntN(4) == 0 {
		d.PathMeta.CurrHF = uint8(g.rng.IntN(d.NumHops))
		acc := 0
		for i := 0; i < nseg; i++ {
			acc += int(d.PathMeta.SegLen[i])
			if int(d.PathMeta.CurrHF) < acc {
				d.PathMeta.CurrINF = uint8(i)
				break
			}
		}
	}
	return d
}

// anyPath returns a path and its type name.
func (g *c44Gen) anyPath() (path.Path, path.Type, string) {
	switch x := g.rng.IntN(10); {
	case x < 3:
		return empty.Path{}, empty.PathType, "empty"
	case x < 7:
		return g.scionPath(), scion.PathType, "scion"
	case x < 9:
		raw, err := g.scionPath().ToRaw()
		if err != nil {
			panic(err)
		}
		return &epic.Path{PktID: epic.PktID{Timestamp: g.rng.Uint32(), Counter: g.rng.Uint32()}, PHVF: g.bytes(4), LHVF: g.bytes(4), ScionPath: raw},
			epic.PathType, "epic"
	default:
		o := &onehop.Path{
			Info:      path.InfoField{ConsDir: true, SegID: uint16(g.rng.IntN(1 << 16)), Timestamp: g.rng.Uint32()},
			FirstHop:  path.HopField{ExpTime: 63, ConsEgress: uint16(1 + g.rng.IntN(100))},
			SecondHop: path.HopField{ExpTime: 63, ConsIngress: uint16(g.rng.IntN(3))},
		}
		copy(o.FirstHop.Mac[:], g.bytes(6))
		copy(o.SecondHop.Mac[:], g.bytes(6))
		return o, onehop.PathType, "onehop"
	}
}

type c44Hdr struct {
	dstIA, srcIA addr.IA
	dst, src     addr.Host
	path         path.Path
	pathType     path.Type
	hbh, e2e     bool
}

func (g *c44Gen) hdr(dst addr.Host) c44Hdr {
	h := c44Hdr{dstIA: g.ia(), srcIA: g.ia(), dst: dst, src: addr.HostIP(g.host())}
	if g.rng.IntN(12) == 0 {
		h.src = addr.HostSVC(c44SVCs[g.rng.IntN(len(c44SVCs))])
	}
	h.path, h.pathType, _ = g.anyPath()
	h.hbh = g.rng.IntN(6) == 0
	h.e2e = g.rng.IntN(6) == 0
	return h
}

// serialize builds SCION [HBH] [E2E] l4 [msg] payload with slayers.
func (g *c44Gen) serialize(h c44Hdr, l4 gopacket.SerializableLayer, l4proto slayers.L4ProtocolType,
	msg gopacket.SerializableLayer, payload []byte) []byte {
	s := &slayers.SCION{
		Version: 0, TrafficClass: uint8(g.rng.IntN(256)), FlowID: uint32(g.rng.IntN(1 << 20)),
		NextHdr: l4proto, PathType: h.pathType, Path: h.path, DstIA: h.dstIA, SrcIA: h.srcIA,
	}
	if err := s.SetDstAddr(h.dst); err != nil {
		panic(err)
	}
	if err := s.SetSrcAddr(h.src); err != nil {
		panic(err)
	}
	layers := []gopacket.SerializableLayer{s}
	next := l4proto
	var e2e *slayers.EndToEndExtn
	if h.e2e {
		e2e = &slayers.EndToEndExtn{}
		e2e.NextHdr = next
		e2e.Options = []*slayers.EndToEndOption{{OptType: slayers.OptionType(200 + g.rng.IntN(20)), OptData: g.bytes(1 + g.rng.IntN(9))}}
		next = slayers.End2EndClass
	}
	if h.hbh {
		hbh := &slayers.HopByHopExtn{}
		hbh.NextHdr = next
		hbh.Options = []*slayers.HopByHopOption{{OptType: slayers.OptionType(200 + g.rng.IntN(20)), OptData: g.bytes(1 + g.rng.IntN(9))}}
		next = slayers.HopByHopClass
		layers = append(layers, hbh)
	}
	if e2e != nil {
		layers = append(layers, e2e)
	}
	s.NextHdr = next
	switch l := l4.(type) {
	case *slayers.UDP:
		l.SetNetworkLayerForChecksum(s)
	case *slayers.SCMP:
		l.SetNetworkLayerForChecksum(s)
	}
	if l4 != nil {
		layers = append(layers, l4)
	}
	if msg != nil {
		layers = append(layers, msg)
	}
	layers = append(layers, gopacket.Payload(payload))
	buf := gopacket.NewSerializeBuffer()
	if err := gopacket.SerializeLayers(buf, gopacket.SerializeOptions{FixLengths: true, ComputeChecksums: true}, layers...); err != nil {
		panic(fmt.Sprintf("generator: %v", err))
	}
	return append([]byte(nil), buf.Bytes()...)
}

func (g *c44Gen) udp(h c44Hdr, src, dst uint16) []byte {
	return g.serialize(h, &slayers.UDP{SrcPort: src, DstPort: dst}, slayers.L4UDP, nil, g.bytes(g.rng.IntN(40)))
}

func (g *c44Gen) scmpInfo(h c44Hdr, t slayers.SCMPType, id uint16) []byte {
	sc := &slayers.SCMP{TypeCode: slayers.CreateSCMPTypeCode(t, slayers.SCMPCode(0))}
	var msg gopacket.SerializableLayer
	switch t {
	case slayers.SCMPTypeEchoRequest, slayers.SCMPTypeEchoReply:
		msg = &slayers.SCMPEcho{Identifier: id, SeqNumber: uint16(g.rng.IntN(1 << 16))}
	default:
		msg = &slayers.SCMPTraceroute{Identifier: id, Sequence: uint16(g.rng.IntN(1 << 16)), IA: g.ia(), Interface: g.rng.Uint64()}
	}
	return g.serialize(h, sc, slayers.L4SCMP, msg, g.bytes(g.rng.IntN(24)))
}

var c44ErrTypes = []slayers.SCMPType{slayers.SCMPTypeDestinationUnreachable, slayers.SCMPTypePacketTooBig,
	slayers.SCMPTypeParameterProblem, slayers.SCMPTypeExternalInterfaceDown, slayers.SCMPTypeInternalConnectivityDown}

func (g *c44Gen) scmpError(h c44Hdr, t slayers.SCMPType, quote []byte) []byte {
	sc := &slayers.SCMP{TypeCode: slayers.CreateSCMPTypeCode(t, slayers.SCMPCode(g.rng.IntN(4)))}
	var msg gopacket.SerializableLayer
	switch t {
	case slayers.SCMPTypeDestinationUnreachable:
		msg = &slayers.SCMPDestinationUnreachable{}
	case slayers.SCMPTypePacketTooBig:
		msg = &slayers.SCMPPacketTooBig{MTU: uint16(g.rng.IntN(1 << 16))}
	case slayers.SCMPTypeParameterProblem:
		msg = &slayers.SCMPParameterProblem{Pointer: uint16(g.rng.IntN(100))}
	case slayers.SCMPTypeExternalInterfaceDown:
		msg = &slayers.SCMPExternalInterfaceDown{IA: g.ia(), IfID: g.rng.Uint64()}
	case slayers.SCMPTypeInternalConnectivityDown:
		msg = &slayers.SCMPInternalConnectivityDown{IA: g.ia(), Ingress: g.rng.Uint64(), Egress: g.rng.Uint64()}
	}
	return g.serialize(h, sc, slayers.L4SCMP, msg, quote)
}

// quote builds the offending packet quoted by an SCMP error sent to `to`:
// normally a packet that `to` had sent.
func (g *c44Gen) quote(to addr.Host) ([]byte, string) {
	h := g.hdr(addr.HostIP(g.host()))
	h.src = to
	if g.rng.IntN(8) == 0 {
		h.src = addr.HostIP(g.host())
	}
	var q []byte
	var kind string
	switch x := g.rng.IntN(20); {
	case x < 8:
		q, kind = g.udp(h, g.port(), g.port()), "udp"
	case x < 11:
		q, kind = g.scmpInfo(h, slayers.SCMPTypeEchoRequest, g.port()), "echo-request"
	case x < 13:
		q, kind = g.scmpInfo(h, slayers.SCMPTypeTracerouteRequest, g.port()), "traceroute-request"
	case x < 14:
		q, kind = g.scmpInfo(h, slayers.SCMPTypeEchoReply, g.port()), "echo-reply"
	case x < 16: // nested: an error quoting a UDP packet
		inner := g.udp(g.hdr(addr.HostIP(g.host())), g.port(), g.port())
		q, kind = g.scmpError(h, c44ErrTypes[g.rng.IntN(len(c44ErrTypes))], inner), "nested-error"
	case x < 17:
		q, kind = g.serialize(h, nil, slayers.L4BFD, nil, g.bytes(24)), "bfd"
	case x < 18:
		q, kind = g.serialize(h, nil, slayers.L4ProtocolType(99), nil, g.bytes(12)), "unknown-l4"
	default:
		q, kind = g.bytes(g.rng.IntN(80)), "garbage"
	}
	if g.rng.IntN(4) == 0 && len(q) > 0 { // truncated quote
		q = q[:g.rng.IntN(len(q))]
		kind += "-truncated"
	}
	return q, kind
}

type c44Case struct {
	Gen     string `json:"gen"`
	Raw     []byte `json:"-"`
	RawHex  string `json:"raw"`
	Outer   string `json:"outer"`
	PrevHop string `json:"prev_hop"`
	outer   netip.Addr
	prev    netip.AddrPort
}

// packet generates one datagram and its generator label.
func (g *c44Gen) packet(svcIAs []addr.IA) ([]byte, string) {
	dstHost := addr.HostIP(g.host())
	var raw []byte
	var label string
	switch x := g.rng.IntN(100); {
	case x < 22:
		raw, label = g.udp(g.hdr(dstHost), g.port(), g.port()), "udp"
	case x < 30:
		h := g.hdr(addr.HostSVC(c44SVCs[g.rng.IntN(len(c44SVCs))]))
		if len(svcIAs) > 0 && g.rng.IntN(3) > 0 {
			h.dstIA = svcIAs[g.rng.IntN(len(svcIAs))]
		}
		raw, label = g.udp(h, g.port(), g.port()), "udp-svc"
	case x < 40:
		raw, label = g.scmpInfo(g.hdr(dstHost), slayers.SCMPTypeEchoRequest, g.port()), "echo-request"
	case x < 48:
		raw, label = g.scmpInfo(g.hdr(dstHost), slayers.SCMPTypeTracerouteRequest, g.port()), "traceroute-request"
	case x < 54:
		raw, label = g.scmpInfo(g.hdr(dstHost), slayers.SCMPTypeEchoReply, g.port()), "echo-reply"
	case x < 60:
		raw, label = g.scmpInfo(g.hdr(dstHost), slayers.SCMPTypeTracerouteReply, g.port()), "traceroute-reply"
	case x < 84:
		q, qk := g.quote(dstHost)
		t := c44ErrTypes[g.rng.IntN(len(c44ErrTypes))]
		raw, label = g.scmpError(g.hdr(dstHost), t, q), "error/"+qk
	case x < 87:
		t := slayers.SCMPType([]int{100, 3, 127, 200, 132, 255}[g.rng.IntN(6)])
		sc := &slayers.SCMP{TypeCode: slayers.CreateSCMPTypeCode(t, 0)}
		raw, label = g.serialize(g.hdr(dstHost), sc, slayers.L4SCMP, nil, g.bytes(g.rng.IntN(60))), "scmp-unknown-type"
	case x < 90:
		raw, label = g.serialize(g.hdr(dstHost), nil, []slayers.L4ProtocolType{slayers.L4BFD, 99, 6, 0}[g.rng.IntN(4)], nil, g.bytes(g.rng.IntN(40))), "other-l4"
	case x < 93: // SCMP to a service address
		h := g.hdr(addr.HostSVC(c44SVCs[g.rng.IntN(len(c44SVCs))]))
		raw, label = g.scmpInfo(h, slayers.SCMPTypeEchoReply, g.port()), "echo-reply-to-svc"
	case x < 96: // IPv4-mapped IPv6 destination spelled with 16 bytes
		raw = g.udp(g.hdr(addr.HostIP(netip.MustParseAddr("fd00::7"))), g.port(), g.port())
		if p, err := shimref.Parse(raw); err == nil && len(p.RawDst) == 16 {
			m := netip.AddrFrom16(netip.MustParseAddr("127.0.0.1").As16()).As16()
			if g.rng.IntN(2) == 0 {
				m = netip.AddrFrom16(netip.MustParseAddr("127.0.0.2").As16()).As16()
			}
			copy(p.RawDst, m[:]) // p.RawDst aliases raw; the UDP checksum is now stale (not looked at by the shim)
		}
		label = "udp-mapped-dst"
	default:
		raw, label = g.bytes(g.rng.IntN(120)), "garbage"
	}
	// hostile mutations
	switch x := g.rng.IntN(100); {
	case x < 8 && len(raw) > 0:
		raw = raw[:g.rng.IntN(len(raw))]
		label += "+truncated"
	case x < 14 && len(raw) > 0:
		for k := 1 + g.rng.IntN(3); k > 0; k-- {
			raw[g.rng.IntN(len(raw))] ^= byte(1 << g.rng.IntN(8))
		}
		label += "+bitflip"
	case x < 17 && len(raw) > 12:
		raw[9] = byte(g.rng.IntN(256)) // address type/length nibbles
		label += "+addrtype"
	case x < 19 && len(raw) > 12:
		raw[5] = byte(g.rng.IntN(256)) // header length
		label += "+hdrlen"
	case x < 21 && len(raw) > 12:
		raw[4] = []byte{17, 200, 201, 202, 203, 0}[g.rng.IntN(6)] // next header
		label += "+nexthdr"
	case x < 23 && len(raw) > 12:
		raw[8] = byte(g.rng.IntN(6)) // path type
		label += "+pathtype"
	}
	return raw, label
}

// outerFor chooses the outer IP destination relative to the packet's SCION
// destination host.
func (g *c44Gen) outerFor(raw []byte, disp bool, svc map[shimref.SvcKey]netip.AddrPort) (netip.Addr, string) {
	if !disp && g.rng.IntN(4) != 0 {
		return netip.Addr{}, "none" // what Serve passes when the dispatcher function is off
	}
	var dst netip.Addr
	if p, err := shimref.Parse(raw); err == nil {
		if a, ok := netip.AddrFromSlice(p.RawDst); ok {
			dst = a
		}
		if e := shimref.Derive(p, svc); len(e.Allowed) > 0 {
			dst = e.Allowed[0].Addr()
		}
	}
	switch x := g.rng.IntN(10); {
	case x < 5 && dst.IsValid():
		return dst, "same"
	case x < 6 && dst.IsValid():
		if dst.Is4() {
			return netip.AddrFrom16(dst.As16()), "same-mapped"
		}
		if dst.Is4In6() {
			return dst.Unmap(), "same-mapped"
		}
		return dst, "same"
	default:
		o := g.host()
		if dst.IsValid() && o.Unmap() == dst.Unmap() {
			return o, "same"
		}
		return o, "other"
	}
}

type c44Server struct {
	srv   *dispatcher.Server
	disp  bool
	svc   map[shimref.SvcKey]netip.AddrPort
	ias   []addr.IA
	label string
}

func c44NewServer(r *mon.Run, g *c44Gen, disp bool, v6 bool) (*c44Server, func()) {
	laddr := &net.UDPAddr{IP: net.IPv4(127, 0, 0, 1)}
	if v6 {
		laddr = &net.UDPAddr{IP: net.IPv6loopback}
	}
	conn, err := net.ListenUDP("udp", laddr)
	if err != nil {
		if v6 {
			r.Inconclusive("no-ipv6-loopback")
			return nil, nil
		}
		panic(err)
	}
	s := &c44Server{disp: disp, svc: map[shimref.SvcKey]netip.AddrPort{}}
	m := map[addr.Addr]netip.AddrPort{}
	switch g.rng.IntN(3) {
	case 0:
		s.label = "svc=none"
	default:
		s.label = "svc=some"
		for _, ia := range []addr.IA{c44IA1, c44IA2} {
			if g.rng.IntN(3) == 0 {
				continue
			}
			s.ias = append(s.ias, ia)
			for _, svc := range []addr.SVC{addr.SvcCS, addr.SvcDS} {
				ap := netip.AddrPortFrom(g.host(), uint16(30000+g.rng.IntN(1000)))
				m[addr.Addr{IA: ia, Host: addr.HostSVC(svc)}] = ap
				s.svc[shimref.SvcKey{IA: uint64(ia), Svc: uint16(svc)}] = ap
			}
		}
	}
	s.srv = dispatcher.NewServer(disp, m, conn)
	return s, func() { conn.Close() }
}

type c44Fed struct {
	Raw   string `json:"raw"`
	Outer string `json:"outer"`
	Prev  string `json:"prev"`
}

type c44Svc struct {
	IA   string `json:"ia"`
	Svc  uint16 `json:"svc"`
	Addr string `json:"addr"`
}

type c44Witness struct {
	Server   string   `json:"server"`
	Disp     bool     `json:"dispatcher_function"`
	Svc      []c44Svc `json:"service_addresses"`
	Sequence []c44Fed `json:"sequence"` // the last packets fed to this server (most recent last = the judged one)
	Gen      string   `json:"generator"`
	Raw      string   `json:"raw"`
	Outer    string   `json:"outer_destination"`
	PrevHop  string   `json:"previous_hop"`
	NextHop  string   `json:"next_hop"`
	Out      string   `json:"out_bytes,omitempty"`
}

func checkC44(r *mon.Run) {
	r.Rule = "packet kind (UDP to IP/SVC, SCMP echo/traceroute request and reply, 5 SCMP error types x quote kind {udp, echo/traceroute request, " +
		"echo reply, nested error, bfd, unknown l4, garbage, truncated}, unknown SCMP types, other L4, garbage) x path type {empty, scion 1-3 segments, epic, onehop} " +
		"x extension headers x hostile mutation {truncate, bit flips, address type, header length, next header, path type} x outer destination {same, same IPv4-mapped, other, none} " +
		"x dispatcher function on/off x service map; sequences of 200 packets through one server; class = reference packet kind | outcome | dispatcher on/off | outer relation"
	r.Assumptions = []string{
		"dropping is always allowed by the statement; that deliverable packets are forwarded is required only as observed coverage (required classes), not judged per packet",
		"SCMP messages whose SCION destination is not of an IP type: only port and outer-destination comparison are judged (class suffix dst-not-ip)",
		"the reply path is judged only if the request path is well formed (current pointers inside the path); reserved bits are ignored",
		"loopback delivery on Linux is synchronous: a datagram written by the shim before a marker datagram is in the receiver's queue when the marker has arrived",
	}
	if p := r.ReplayFile(); p != "" {
		c44Replay(r, p)
		return
	}
	g := &c44Gen{rng: r.Rand("c44")}
	nServers := r.Pick(400, 4000)
	perServer := r.Pick(200, 400)
	svcStrings := func(s *c44Server) []c44Svc {
		var out []c44Svc
		for k, v := range s.svc {
			out = append(out, c44Svc{addr.IA(k.IA).String(), k.Svc, v.String()})
		}
		sort.Slice(out, func(i, j int) bool { return out[i].IA+fmt.Sprint(out[i].Svc) < out[j].IA+fmt.Sprint(out[j].Svc) })
		return out
	}
	table := map[string]int{}
	for si := 0; si < nServers; si++ {
		disp := g.rng.IntN(4) != 0
		s, closeFn := c44NewServer(r, g, disp, g.rng.IntN(5) == 0)
		if s == nil {
			continue
		}
		var seq []c44Fed
		for pi := 0; pi < perServer; pi++ {
			raw, label := g.packet(s.ias)
			outer, rel := g.outerFor(raw, disp, s.svc)
			prev := netip.AddrPortFrom(g.host(), uint16(30000+g.rng.IntN(200)))
			in := shimref.Input{Raw: raw, Outer: outer, PrevHop: prev, IsDispatcher: disp, Svc: s.svc}
			fed := append([]byte(nil), raw...) // the shim may write into its input
			var out []byte
			var next netip.AddrPort
			var err error
			pv, stack := mon.Try(func() { out, next, err = s.srv.VerifProcessMsgNextHop(fed, outer, prev) })
			seq = append(append([]c44Fed(nil), seq...), c44Fed{mon.Hex(raw), outer.String(), prev.String()})
			if len(seq) > 8 {
				seq = seq[1:]
			}
			w := c44Witness{Server: s.label, Disp: disp, Svc: svcStrings(s), Sequence: seq, Gen: label, Raw: mon.Hex(raw), Outer: outer.String(),
				PrevHop: prev.String(), NextHop: next.String()}
			r.Eval(1)
			if pv != nil {
				r.Violation("C44:panic:"+mon.PanicSite(stack), fmt.Sprintf("panic: %v\n%s", pv, stack), w)
				// the server's decoder state is undefined now: use a fresh one
				closeFn()
				s2, c2 := c44NewServer(r, g, disp, false)
				s2.svc, s2.ias, s2.label = s.svc, s.ias, s.label
				s, closeFn = s2, c2
				continue
			}
			if err != nil {
				r.Class("fatal-error")
				r.Violation("C44:fatal-error", fmt.Sprintf("processMsgNextHop returned a non-recoverable error (Serve would stop): %v", err), w)
				continue
			}
			if next.IsValid() {
				w.Out = mon.Hex(out)
			}
			kind, outcome, fs := shimref.Judge(in, next, out)
			r.Class(fmt.Sprintf("%s|%s|disp=%v|outer=%s", kind, outcome, disp, rel))
			r.Event(outcome)
			table[kind+"|"+outcome]++
			if outcome != "dropped" && outcome != "dropped-deliverable" {
				r.Event(outcome + "/" + label)
			}
			for _, f := range fs {
				r.Violation(f.Key, f.What, w)
			}
			if r.WantSample() && (pi*7+si)%211 == 5 && next.IsValid() {
				r.Sample(w)
			}
		}
		closeFn()
	}
	r.Extra("packets_by_kind_and_outcome", table)
	c44Sockets(r, g)
	r.Require(int64(nServers*perServer/2), 80, "forwarded", "replied", "dropped", "socket_delivered", "socket_not_reflected", "socket_replied")
	r.RequireClasses(
		"udp/ip|forwarded|disp=true|outer=same",
		"udp/ip|forwarded|disp=true|outer=same-mapped",
		"udp/ip|dropped|disp=true|outer=other",
		"udp/ip|dropped|disp=false|outer=none",
		"udp/svc|forwarded|disp=true|outer=same",
		"udp/svc|dropped|disp=true|outer=other",
		"scmp/echo-request|replied|disp=true|outer=other",
		"scmp/echo-request|replied|disp=false|outer=none",
		"scmp/traceroute-request|replied|disp=false|outer=none",
		"scmp/echo-reply|forwarded|disp=true|outer=same",
		"scmp/echo-reply|dropped|disp=true|outer=other",
		"scmp/traceroute-reply|forwarded|disp=true|outer=same",
		"scmp/error-1/quote-udp|forwarded|disp=true|outer=same",
		"scmp/error-1/quote-udp|dropped|disp=true|outer=other",
		"scmp/error-5/quote-scmp-request|forwarded|disp=true|outer=same",
		"scmp/error-6/quote-udp|dropped|disp=false|outer=none",
	)
}

// c44Sockets drives the real Serve loop over loopback sockets: the shim is
// bound to the wildcard address, so the outer destination (IP_PKTINFO) is
// whichever 127/8 address the datagram was sent to. A packet whose SCION
// destination is application B's address but which was sent to another outer
// address must not arrive at B. "Not arrived" is decided without a timeout: a
// valid marker packet sent afterwards through the same shim socket to
// application A has arrived, and the shim handles datagrams in order.
func c44Sockets(r *mon.Run, g *c44Gen) {
	lc, err := net.ListenUDP("udp4", &net.UDPAddr{IP: net.IPv4zero})
	if err != nil {
		r.Inconclusive("socket-listen")
		return
	}
	shimPort := uint16(lc.LocalAddr().(*net.UDPAddr).Port)
	srv := dispatcher.NewServer(true, map[addr.Addr]netip.AddrPort{}, lc)
	go func() { _ = srv.Serve() }() // never returns; the process exits at the end of the run
	open := func(ip string) (*net.UDPConn, uint16) {
		c, err := net.ListenUDP("udp4", &net.UDPAddr{IP: net.ParseIP(ip)})
		if err != nil {
			return nil, 0
		}
		return c, uint16(c.LocalAddr().(*net.UDPAddr).Port)
	}
	appA, portA := open("127.0.0.1")
	appB, portB := open("127.0.0.2")
	br, _ := open("127.0.0.3") // the "border router": sends to the shim, receives replies
	if appA == nil || appB == nil || br == nil {
		r.Inconclusive("socket-bind-127.0.0.x")
		return
	}
	defer appA.Close()
	defer appB.Close()
	defer br.Close()
	ipA, ipB := netip.MustParseAddr("127.0.0.1"), netip.MustParseAddr("127.0.0.2")
	send := func(raw []byte, outer netip.Addr) {
		_, _ = br.WriteToUDPAddrPort(raw, netip.AddrPortFrom(outer, shimPort))
	}
	recv := func(c *net.UDPConn, d time.Duration) ([]byte, bool) {
		buf := make([]byte, 2048)
		_ = c.SetReadDeadline(time.Now().Add(d))
		n, _, err := c.ReadFromUDPAddrPort(buf)
		if err != nil {
			return nil, false
		}
		return buf[:n], true
	}
	// poll reads a datagram that is already queued, without waiting (a read
	// deadline would be racy: an expired deadline is reported before the
	// queue is looked at).
	poll := func(c *net.UDPConn) ([]byte, bool) {
		rc, err := c.SyscallConn()
		if err != nil {
			return nil, false
		}
		buf := make([]byte, 2048)
		n := -1
		_ = rc.Read(func(fd uintptr) bool {
			k, _, e := syscall.Recvfrom(int(fd), buf, syscall.MSG_DONTWAIT)
			if e == nil {
				n = k
			}
			return true
		})
		if n < 0 {
			return nil, false
		}
		return buf[:n], true
	}
	n := r.Pick(2000, 20000)
	for i := 0; i < n; i++ {
		// the probe: addressed (SCION) to application B
		h := g.hdr(addr.HostIP(ipB))
		var probe []byte
		var kind string
		switch g.rng.IntN(3) {
		case 0:
			probe, kind = g.udp(h, g.port(), portB), "udp"
		case 1:
			probe, kind = g.scmpInfo(h, slayers.SCMPTypeEchoReply, portB), "echo-reply"
		default:
			qh := g.hdr(addr.HostIP(g.host()))
			qh.src = addr.HostIP(ipB)
			probe, kind = g.scmpError(h, c44ErrTypes[g.rng.IntN(len(c44ErrTypes))], g.udp(qh, portB, g.port())), "error-quote-udp"
		}
		hostile := g.rng.IntN(3) != 0
		outer := ipB
		if hostile {
			outer = []netip.Addr{ipA, netip.MustParseAddr("127.0.0.3"), netip.MustParseAddr("127.0.0.9")}[g.rng.IntN(3)]
		}
		send(probe, outer)
		// the marker: a valid packet for application A, sent to A's address
		marker := g.udp(g.hdr(addr.HostIP(ipA)), 7, portA)
		send(marker, ipA)
		r.Eval(1)
		got, ok := recv(appA, 5*time.Second)
		if !ok || string(got) != string(marker) {
			r.Inconclusive("socket-marker-lost")
			continue
		}
		atB, okB := poll(appB)
		if okB && string(atB) != string(probe) {
			r.Inconclusive("socket-unexpected-datagram")
			continue
		}
		w := map[string]any{"phase": "sockets", "probe": mon.Hex(probe), "kind": kind, "sent_to_outer": outer.String(), "scion_destination": ipB.String(), "arrived_at_b": okB}
		switch {
		case hostile && okB:
			r.Class("socket/" + kind + "/hostile/reflected")
			r.Violation("C44:socket-reflected:"+kind, fmt.Sprintf("a %s packet sent to outer address %v was forwarded to its SCION destination %v:%d", kind, outer, ipB, portB), w)
		case hostile:
			r.Class("socket/" + kind + "/hostile/not-reflected")
			r.Event("socket_not_reflected")
		case okB && string(atB) == string(probe):
			r.Class("socket/" + kind + "/matching/delivered")
			r.Event("socket_delivered")
		default:
			r.Class("socket/" + kind + "/matching/not-delivered")
			r.Event("socket_valid_not_delivered")
		}
		// an echo request from anywhere is answered to its sender only
		if i%3 == 0 {
			req := g.scmpInfo(g.hdr(addr.HostIP(ipB)), slayers.SCMPTypeEchoRequest, g.port())
			send(req, ipA)
			send(marker, ipA)
			r.Eval(1)
			// the reply (if any) is written before the marker is forwarded
			if _, okM := recv(appA, 5*time.Second); !okM {
				r.Inconclusive("socket-marker-lost")
				continue
			}
			rep, okR := poll(br)
			if !okR {
				r.Class("socket/echo-request/not-answered")
				continue
			}
			_, leakA := poll(appA)
			_, leakB := poll(appB)
			p, perr := shimref.Parse(rep)
			switch {
			case leakA || leakB:
				r.Violation("C44:socket-reply-elsewhere", "the answer to an echo request reached a host other than the previous hop", map[string]any{"phase": "sockets", "request": mon.Hex(req)})
			case perr != nil || p.L4Type != shimref.ProtoSCMP || len(p.L4) < 4:
				r.Class("socket/echo-request/reply-unreadable")
			default:
				r.Class("socket/echo-request/replied")
				r.Event("socket_replied")
			}
		}
	}
}

// c44Replay feeds the packet sequence of a replay file to a fresh server with
// the recorded configuration and judges the last packet.
func c44Replay(r *mon.Run, file string) {
	b, err := os.ReadFile(file)
	if err != nil {
		fmt.Fprintln(os.Stderr, "replay:", err)
		os.Exit(2)
	}
	var f struct {
		Witness c44Witness `json:"witness"`
	}
	if err := json.Unmarshal(b, &f); err != nil || len(f.Witness.Sequence) == 0 {
		fmt.Fprintln(os.Stderr, "replay: no packet sequence in", file, err)
		os.Exit(2)
	}
	w := f.Witness
	conn, err := net.ListenUDP("udp", &net.UDPAddr{IP: net.IPv4(127, 0, 0, 1)})
	if err != nil {
		panic(err)
	}
	defer conn.Close()
	m := map[addr.Addr]netip.AddrPort{}
	svc := map[shimref.SvcKey]netip.AddrPort{}
	for _, e := range w.Svc {
		ia, err1 := addr.ParseIA(e.IA)
		ap, err2 := netip.ParseAddrPort(e.Addr)
		if err1 != nil || err2 != nil {
			continue
		}
		m[addr.Addr{IA: ia, Host: addr.HostSVC(addr.SVC(e.Svc))}] = ap
		svc[shimref.SvcKey{IA: uint64(ia), Svc: e.Svc}] = ap
	}
	srv := dispatcher.NewServer(w.Disp, m, conn)
	for i, fed := range w.Sequence {
		raw, _ := hex.DecodeString(fed.Raw)
		outer, _ := netip.ParseAddr(fed.Outer) // "invalid IP" parses to the zero Addr
		prev, _ := netip.ParseAddrPort(fed.Prev)
		var out []byte
		var next netip.AddrPort
		pv, stack := mon.Try(func() { out, next, _ = srv.VerifProcessMsgNextHop(append([]byte(nil), raw...), outer, prev) })
		if i < len(w.Sequence)-1 {
			continue
		}
		r.Eval(1)
		w.NextHop = next.String()
		if pv != nil {
			r.Violation("C44:panic:"+mon.PanicSite(stack), fmt.Sprintf("panic: %v", pv), w)
			break
		}
		kind, outcome, fs := shimref.Judge(shimref.Input{Raw: raw, Outer: outer, PrevHop: prev, IsDispatcher: w.Disp, Svc: svc}, next, out)
		r.Class("replay/" + kind + "|" + outcome)
		for _, x := range fs {
			r.Violation(x.Key, x.What, w)
		}
	}
	r.Class("replay")
	r.Sample(map[string]any{"replayed": file})
}
