// Command shim serves the shim-dispatcher property (C44).
package main

import "verif/mon"

func main() {
	mon.Main(map[string]func(*mon.Run){
		"C44": checkC44,
	})
}
