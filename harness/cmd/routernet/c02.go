package main

import (
	"encoding/binary"
	"fmt"
	"math/rand/v2"
	"sync"

	"verif/mon"
	"verif/rfix"
	"verif/simnet"
)

// worlds generates the topology list of a tier: multi-ISD topologies plus chains.
func worlds(r *mon.Run, _ *rand.Rand, nMulti int, chains []int, epic bool, each func(w *world, wi int, rng *rand.Rand)) {
	// every world has its own PRNG stream (seed, property, world index), so the
	// worlds can be explored concurrently without affecting each other's cases
	type job struct{ wi, chain int }
	var jobs []job
	for i := 0; i < nMulti; i++ {
		jobs = append(jobs, job{len(jobs), 0})
	}
	for _, n := range chains {
		jobs = append(jobs, job{len(jobs), n})
	}
	sem := make(chan struct{}, r.Pick(8, 14))
	var wg sync.WaitGroup
	for _, j := range jobs {
		wg.Add(1)
		sem <- struct{}{}
		go func(j job) {
			defer wg.Done()
			defer func() { <-sem }()
			rng := r.Rand(fmt.Sprintf("%s-world-%d", r.ID, j.wi))
			w, err := newWorld(rng, j.chain, epic, j.wi)
			if err != nil {
				r.Violation(r.ID+":fixture", "world construction failed: "+err.Error(), nil)
				return
			}
			each(w, j.wi, rng)
		}(j)
	}
	wg.Wait()
}

func checkC02(r *mon.Run) {
	r.Rule = "generated multi-ISD topologies (core mesh, multi-homed provider DAG, peering, parallel links, 1-3 border routers per AS) and chains; segments from the REAL " +
		"beacon extender per AS (real keys); every path combinator.Combine returns for every ordered AS pair is sent as a packet through a network of REAL router data planes " +
		"(one per border router, bytes carried by the simulator); oracle: no router drops or answers SCMP, observed interface crossings == path metadata interfaces, final " +
		"event = delivery to the destination host address in the destination AS; class = topology family/path shape/#sibling hops"
	r.Assumptions = []string{
		"control-plane RPC transport and segment registration RPCs are bypassed (extender is called directly, as the registration writers do)",
		"routers are not Run: the simulator calls the real fast/slow path per packet and follows the link the router chose",
	}
	rng := r.Rand("c02")
	nMulti := r.Pick(40, 600)
	chains := []int{2, 3, 5, 9, 17}
	pairLimit := r.Pick(0, 0)
	if r.Thorough() {
		chains = []int{2, 3, 4, 5, 8, 13, 21, 34, 64}
	}
	worlds(r, rng, nMulti, chains, false, func(w *world, wi int, rng *rand.Rand) {
		for _, pr := range w.pairs(rng, pairLimit) {
			for _, f := range w.flows(rng, pr[0], pr[1]) {
				f := f
				in := f.packet(rng, func(p *rfix.PktSpec) {
					p.HBH, p.E2E = rng.IntN(5) == 0, rng.IntN(5) == 0
				})
				wk := w.net.Send(f.src, f.br, f.srcUDP, in)
				r.Eval(1)
				judgeC02(r, w, &f, in, wk)
			}
		}
	})
	r.Require(int64(r.Pick(5000, 100000)), 12, "delivered", "crossed_sibling")
	r.RequireClasses()
}

func judgeC02(r *mon.Run, w *world, f *flow, in []byte, wk *simnet.Walk) bool {
	sib := 0
	for _, e := range wk.Events {
		if e.Outcome == "forward-sibling" {
			sib++
		}
	}
	r.Class(fmt.Sprintf("%s/%s/sib=%d", w.topo.Family, shapeOf(f), min(sib, 3)))
	if r.WantSample() && r.Events("delivered")%701 == 0 {
		r.Sample(wit(w, f, in, wk, "sample"))
	}
	if wk.Panic != "" {
		r.Violation("C02:panic:"+mon.PanicSite(wk.Stack), "router panicked", wit(w, f, in, wk, ""))
		return false
	}
	if wk.Answered || !wk.Delivered {
		last := wk.Events[len(wk.Events)-1]
		key := "C02:not-accepted:" + last.Outcome
		if wk.Answered {
			for _, e := range wk.Events {
				if e.Outcome == "scmp" {
					key = fmt.Sprintf("C02:not-accepted:scmp-%d-%d", e.SlowKind, e.SlowCode)
					break
				}
			}
		}
		r.Violation(key, "a path built by the combinator from real beacons was not accepted by every router on it", wit(w, f, in, wk, ""))
		return false
	}
	if wk.DeliveredAt != f.dst {
		r.Violation("C02:delivered-in-wrong-as", fmt.Sprintf("delivered in %s instead of %s", wk.DeliveredAt, f.dst), wit(w, f, in, wk, ""))
		return false
	}
	if wk.DeliveredTo == nil || !wk.DeliveredTo.IP.Equal(f.dstHost.IP().AsSlice()) {
		r.Violation("C02:delivered-to-wrong-host", fmt.Sprintf("handed to %v instead of host %s", wk.DeliveredTo, f.dstHost), wit(w, f, in, wk, ""))
		return false
	}
	if !crossEq(wk.Cross, f.expectedCross()) {
		r.Violation("C02:interfaces-differ", "the packet crossed other interfaces than the path metadata lists", wit(w, f, in, wk, ""))
		return false
	}
	r.Event("delivered")
	if sib > 0 {
		r.Event("crossed_sibling")
	}
	return true
}

// ---------------- C22 ----------------

func checkC22(r *mon.Run) {
	r.Rule = "same worlds as C02 plus chains up to 64 ASes; on every wire (host->router, AS->AS, router->sibling router) the SegID of every info field is compared with the " +
		"accumulator value reconstructed from the REGISTERED segments (beta_0 = SegmentID, beta_{i+1} = beta_i XOR MAC_i[:2], peer entries use beta_{i+1}) and the traversal " +
		"rules of the statement: the current segment carries beta_i of the hop about to be validated (XOR MAC_i[:2] still pending when travelling against construction " +
		"direction and arriving from outside, none on peering hops), segments still ahead carry the beta of their first traversed hop; class = family/shape/direction/arrival kind/position"
	r.Assumptions = []string{
		"MAC values are concrete, not symbolic: a hop whose MAC starts with two zero bytes masks an off-by-one at that hop (counted as zero_mac_prefix_hops)",
		"hop fields are located in the registered segments by (timestamp, MAC); a 48-bit collision is ignored",
	}
	rng := r.Rand("c22")
	nMulti := r.Pick(24, 300)
	chains := []int{2, 3, 4, 7, 16, 33, 64}
	if r.Thorough() {
		chains = nil
		for n := 2; n <= 64; n++ {
			chains = append(chains, n)
		}
	}
	worlds(r, rng, nMulti, chains, false, func(w *world, wi int, rng *rand.Rand) {
		limit := 0
		if w.topo.Family == "chain" && len(w.topo.ASes) > 24 && !r.Thorough() {
			limit = 400
		}
		for _, pr := range w.pairs(rng, limit) {
			for _, f := range w.flows(rng, pr[0], pr[1]) {
				f := f
				in := f.packet(rng, nil)
				wk := w.net.Send(f.src, f.br, f.srcUDP, in)
				r.Eval(1)
				judgeC22(r, w, &f, in, wk)
			}
		}
	})
	r.Require(int64(r.Pick(4000, 80000)), 20, "wire_checked", "wire_nonconsdir_external", "wire_peering", "wire_after_xover", "future_segment_checked")
}

func judgeC22(r *mon.Run, w *world, f *flow, in []byte, wk *simnet.Walk) {
	if wk.Panic != "" || wk.Answered || !wk.Delivered {
		// acceptance is C02's business; a desynchronised accumulator shows up here as a MAC failure
		for _, e := range wk.Events {
			if e.Outcome == "scmp" && e.SlowKind == 4 && e.SlowCode == 51 {
				r.Violation("C22:mac-failure-on-combined-path", "a router rejected the hop-field MAC of a path built by the combinator: the accumulator desynchronised", wit(w, f, in, wk, ""))
				return
			}
		}
		r.Inconclusive("walk-not-delivered")
		return
	}
	for ei, e := range wk.Events {
		h, err := rfix.ParseHdr(e.In)
		if err != nil || h.PathType != 1 {
			r.Inconclusive("unparsable-wire")
			continue
		}
		cur := h.CurrHF
		for s := h.CurrINF; s < h.NumINF; s++ {
			info := e.In[h.InfoOff[s]:]
			consDir := info[0]&1 != 0
			peerFlag := info[0]&2 != 0
			wire := binary.BigEndian.Uint16(info[2:4])
			ts := binary.BigEndian.Uint32(info[4:8])
			// the hop whose validation this SegID is meant for
			g := cur
			if s > h.CurrINF {
				g = 0
				for k := 0; k < s; k++ {
					g += h.SegLen[k]
				}
			}
			hop := e.In[h.HopOff[g]:]
			var mac [6]byte
			copy(mac[:], hop[6:12])
			beta, ok := w.beta[betaKey{ts, mac}]
			if !ok {
				r.Violation("C22:hop-not-in-registered-segments", "a hop field of a combined path is not a hop or peer entry of any registered segment", wit(w, f, in, wk, fmt.Sprintf("event %d seg %d hop %d", ei, s, g)))
				return
			}
			if mac[0] == 0 && mac[1] == 0 {
				r.Event("zero_mac_prefix_hops")
			}
			peering := peerFlag && (g == h.SegLen[0]-1 || g == h.SegLen[0])
			want := beta
			pos := "future"
			if s == h.CurrINF {
				pos = "current"
				if e.InKind == "external" && !consDir && !peering {
					want = beta ^ binary.BigEndian.Uint16(mac[:2])
					r.Event("wire_nonconsdir_external")
				}
				if peering {
					r.Event("wire_peering")
				}
				if g > 0 && h.SegOfHop(g-1) != s {
					r.Event("wire_after_xover")
				}
				r.Event("wire_checked")
			} else {
				r.Event("future_segment_checked")
			}
			r.Class(fmt.Sprintf("%s/%s/consdir=%v/%s/%s/peering=%v", w.topo.Family, shapeOf(f), consDir, e.InKind, pos, peering))
			if wire != want {
				r.Violation(fmt.Sprintf("C22:segid-mismatch:%s:consdir=%v:%s:peering=%v", pos, consDir, e.InKind, peering),
					fmt.Sprintf("event %d (%s#br%d, arrival %s): info field %d carries SegID %#04x, accumulator of hop %d per registered segment is %#04x (expected on wire %#04x)",
						ei, e.IA, e.BR, e.InKind, s, wire, g, beta, want), wit(w, f, in, wk, ""))
				return
			}
		}
	}
	if r.WantSample() && r.Events("wire_checked")%5003 < 8 {
		r.Sample(wit(w, f, in, wk, "sample"))
	}
}
