package main

import (
	"github.com/scionproto/scion/pkg/slayers/path"
	"github.com/scionproto/scion/pkg/slayers/path/onehop"
)

type onehopPath struct {
	ts    uint32
	segID uint16
	exp   uint8
	eg    uint16
	mac   [6]byte
}

func (o *onehopPath) build() *onehop.Path {
	return &onehop.Path{
		Info:     path.InfoField{ConsDir: true, SegID: o.segID, Timestamp: o.ts},
		FirstHop: path.HopField{ConsEgress: o.eg, ExpTime: o.exp, Mac: o.mac},
	}
}
