package main

import (
	"fmt"
	"math/rand/v2"

	"verif/mon"
	"verif/rfix"
	"verif/simnet"
)

// hopPositions maps every hop index of the path to the position (0 = source
// AS) of the AS whose routers process it, from a clean walk.
func hopPositions(wk *simnet.Walk, numHF int) []int {
	pos := make([]int, numHF)
	for i := range pos {
		pos[i] = -1
	}
	as := 0
	for _, e := range wk.Events {
		if e.InKind == "external" {
			as++
		}
		if e.InHF < 0 {
			continue
		}
		hi := e.InHF
		if e.OutHF-1 > hi {
			hi = e.OutHF - 1
		}
		for h := e.InHF; h <= hi && h < numHF; h++ {
			pos[h] = as
		}
	}
	return pos
}

// rejectPos returns the AS position of the first router that refused the packet (-1: none).
func rejectPos(wk *simnet.Walk) int {
	as := 0
	for _, e := range wk.Events {
		if e.Answer {
			break
		}
		if e.InKind == "external" {
			as++
		}
		switch e.Outcome {
		case "drop", "scmp", "panic":
			return as
		}
	}
	return -1
}

type tamper struct {
	name string
	off  int // byte offset in packet
	bit  int
	hop  int // hop index whose AS must reject at the latest
}

// tamperList enumerates every bit of every MAC-protected value of the path.
func tamperList(h *rfix.Hdr) []tamper {
	var out []tamper
	for g := 0; g < h.NumHF; g++ {
		o := h.HopOff[g]
		for b := 0; b < 8; b++ {
			out = append(out, tamper{"hop-exptime", o + 1, b, g})
		}
		for b := 0; b < 16; b++ {
			out = append(out, tamper{"hop-consingress", o + 2 + b/8, b % 8, g})
			out = append(out, tamper{"hop-consegress", o + 4 + b/8, b % 8, g})
		}
		for b := 0; b < 48; b++ {
			out = append(out, tamper{"hop-mac", o + 6 + b/8, b % 8, g})
		}
	}
	first := 0
	for s := 0; s < h.NumINF; s++ {
		o := h.InfoOff[s]
		for b := 0; b < 16; b++ {
			out = append(out, tamper{"info-segid", o + 2 + b/8, b % 8, first})
		}
		for b := 0; b < 32; b++ {
			out = append(out, tamper{"info-timestamp", o + 4 + b/8, b % 8, first})
		}
		first += h.SegLen[s]
	}
	return out
}

func checkC04(r *mon.Run) {
	r.Rule = "C02 worlds; for sampled valid combinator paths every bit of every MAC-protected value (hop ConsIngress, ConsEgress, ExpTime, MAC; info Timestamp, SegID) is flipped " +
		"at the source, one at a time, and the packet is sent through the network of real routers; oracle: never delivered to the destination host, and the first refusing router " +
		"belongs to an AS no later on the path than the AS of the first hop field whose MAC input depends on the flipped value; class = family/shape/field/relative position of the refusal"
	r.Assumptions = []string{
		"a 48-bit MAC collision (2^-48 per check) is ignored",
		"flipping the timestamp or ExpTime may make a hop expired instead of MAC-invalid; either refusal satisfies the statement",
	}
	rng := r.Rand("c04")
	nMulti := r.Pick(16, 150)
	pathsPer := r.Pick(40, 80)
	bitSample := r.Pick(40, 0) // 0 = all bits
	worlds(r, rng, nMulti, []int{6}, false, func(w *world, wi int, rng *rand.Rand) {
		var fl []flow
		for _, pr := range w.pairs(rng, 0) {
			fl = append(fl, w.flows(rng, pr[0], pr[1])...)
		}
		rng.Shuffle(len(fl), func(i, j int) { fl[i], fl[j] = fl[j], fl[i] })
		if len(fl) > pathsPer {
			fl = fl[:pathsPer]
		}
		for i := range fl {
			f := &fl[i]
			in := f.packet(rng, nil)
			clean := w.net.Send(f.src, f.br, f.srcUDP, in)
			if !clean.Delivered || clean.Answered {
				r.Inconclusive("clean-walk-not-delivered")
				continue
			}
			h, err := rfix.ParseHdr(in)
			if err != nil {
				r.Inconclusive("ref-parse")
				continue
			}
			pos := hopPositions(clean, h.NumHF)
			tl := tamperList(h)
			if bitSample > 0 {
				rng.Shuffle(len(tl), func(a, b int) { tl[a], tl[b] = tl[b], tl[a] })
				if len(tl) > bitSample*h.NumHF {
					tl = tl[:bitSample*h.NumHF]
				}
			}
			for _, t := range tl {
				mut := append([]byte(nil), in...)
				mut[t.off] ^= 1 << t.bit
				wk := w.net.Send(f.src, f.br, f.srcUDP, mut)
				r.Eval(1)
				c04Judge(r, w, f, mut, wk, t, pos)
			}
		}
	})
	r.Require(int64(r.Pick(40000, 1000000)), 20, "refused_at_hop_as", "refused_scmp")
}

func c04Judge(r *mon.Run, w *world, f *flow, mut []byte, wk *simnet.Walk, t tamper, pos []int) {
	note := fmt.Sprintf("flipped %s bit %d at byte %d (hop %d, AS position %d)", t.name, t.bit, t.off, t.hop, pos[t.hop])
	if wk.Panic != "" {
		r.Violation("C04:panic:"+mon.PanicSite(wk.Stack), "router panicked", wit(w, f, mut, wk, note))
		return
	}
	if wk.Delivered {
		r.Violation("C04:delivered:"+t.name, "a packet with a tampered MAC-protected value was delivered to a host", wit(w, f, mut, wk, note))
		return
	}
	rp := rejectPos(wk)
	if rp < 0 {
		r.Violation("C04:no-refusal:"+t.name, "tampered packet neither delivered nor refused (loop?)", wit(w, f, mut, wk, note))
		return
	}
	want := pos[t.hop]
	rel := "at-hop-as"
	switch {
	case rp < want:
		rel = "earlier"
		r.Event("refused_earlier")
	case rp == want:
		r.Event("refused_at_hop_as")
	default:
		r.Violation("C04:refused-too-late:"+t.name, fmt.Sprintf("refused at AS position %d, but the AS at position %d validates a hop field depending on the flipped value", rp, want), wit(w, f, mut, wk, note))
		return
	}
	if wk.Answered {
		r.Event("refused_scmp")
	} else {
		r.Event("refused_drop")
	}
	r.Class(fmt.Sprintf("%s/%s/%s/%s", w.topo.Family, shapeOf(f), t.name, rel))
	if r.WantSample() && r.Events("refused_at_hop_as")%4001 == 1 {
		r.Sample(wit(w, f, mut, wk, note))
	}
}

// ---------------- C10 ----------------

func checkC10(r *mon.Run) {
	r.Rule = "C02 worlds; (a) a MAC bit of hop k is flipped / hop k re-issued expired so that the router of AS k answers with an SCMP error: the answer, carried by the network of real " +
		"routers, must be delivered to the original source host and cross the request's interfaces in reverse; (b) traceroute requests with a router-alert flag on hop k " +
		"(ingress or egress side): exactly the router owning the flagged interface answers, reporting its ISD-AS and that interface, and the reply reaches the source host; " +
		"class = family/shape/cause/position"
	r.Assumptions = []string{
		"interface-down causes need running BFD sessions and are exercised in C15's running-router check, not here",
		"flags on interfaces the packet does not traverse over an external link (interface 0, the unused side at a segment change) are recorded, not judged",
	}
	rng := r.Rand("c10")
	nMulti := r.Pick(24, 300)
	pathsPer := r.Pick(60, 200)
	worlds(r, rng, nMulti, []int{7}, false, func(w *world, wi int, rng *rand.Rand) {
		var fl []flow
		for _, pr := range w.pairs(rng, 0) {
			fl = append(fl, w.flows(rng, pr[0], pr[1])...)
		}
		rng.Shuffle(len(fl), func(i, j int) { fl[i], fl[j] = fl[j], fl[i] })
		if len(fl) > pathsPer {
			fl = fl[:pathsPer]
		}
		for i := range fl {
			c10Flow(r, rng, w, &fl[i])
		}
	})
	r.Require(int64(r.Pick(10000, 200000)), 20, "scmp_error_returned", "traceroute_ingress_answered", "traceroute_egress_answered", "traceroute_untraversed_flag", "traceroute_egress_of_down_link")
}

type ifOwner struct {
	ia string
	id uint16
	br int
}

func c10Flow(r *mon.Run, rng *rand.Rand, w *world, f *flow) {
	in := f.packet(rng, nil)
	clean := w.net.Send(f.src, f.br, f.srcUDP, in)
	if !clean.Delivered || clean.Answered {
		r.Inconclusive("clean-walk-not-delivered")
		return
	}
	h, err := rfix.ParseHdr(in)
	if err != nil {
		r.Inconclusive("ref-parse")
		return
	}
	// (a) SCMP errors provoked at every hop
	for g := 0; g < h.NumHF; g++ {
		mut := append([]byte(nil), in...)
		mut[h.HopOff[g]+6+rng.IntN(6)] ^= 1 << rng.IntN(8)
		wk := w.net.Send(f.src, f.br, f.srcUDP, mut)
		r.Eval(1)
		note := fmt.Sprintf("MAC bit of hop %d flipped", g)
		if wk.Panic != "" {
			r.Violation("C10:panic:"+mon.PanicSite(wk.Stack), "router panicked", wit(w, f, mut, wk, note))
			continue
		}
		if !wk.Answered {
			r.Event("error_not_answered")
			r.Class(fmt.Sprintf("%s/%s/mac-flip/silent", w.topo.Family, shapeOf(f)))
			continue
		}
		c10JudgeAnswer(r, w, f, mut, wk, note, "mac-flip")
	}
	// (b) traceroute with router alert
	type want struct {
		ia string
		id uint16
		br int
		ok bool
		// downOK: the flagged interface is this router's egress, that link is
		// down in w.netDown, and no other down interface lies on the way to
		// this router or on the answer's way back
		downOK bool
	}
	exp := map[[2]int]want{} // (hop, flag: 1=I(ConsIngress) 0=E(ConsEgress))
	consDirOfHop := func(g int) bool {
		s := h.SegOfHop(g)
		return in[h.InfoOff[s]]&1 != 0
	}
	otherDown := false // a down interface used before the current event (either direction)
	for _, e := range clean.Events {
		if e.InKind == "external" && w.down[downKey{e.IA, e.InIf}] {
			otherDown = true // the answer would have to leave through it
		}
		if e.InKind == "external" && e.InHF >= 0 {
			flag := 0
			if consDirOfHop(e.InHF) {
				flag = 1
			}
			exp[[2]int{e.InHF, flag}] = want{e.IA.String(), e.InIf, e.BR, true, false}
		}
		if e.Outcome == "forward-external" && e.OutHF >= 1 {
			g := e.OutHF - 1
			flag := 1
			if consDirOfHop(g) {
				flag = 0
			}
			exp[[2]int{g, flag}] = want{e.IA.String(), e.EgIf, e.BR, true, !otherDown && w.down[downKey{e.IA, e.EgIf}]}
		}
		if e.Outcome == "forward-external" && w.down[downKey{e.IA, e.EgIf}] {
			otherDown = true
		}
	}
	id, seq := uint16(rng.IntN(1<<16)), uint16(rng.IntN(1<<16))
	trExt := rng.IntN(4) // extension headers in front of the SCMP header
	tr := f.packet(rng, func(p *rfix.PktSpec) {
		p.L4 = rfix.L4SCMPTraceReq
		p.DstPort, p.Seq = id, seq
		p.Payload = nil
		p.HBH, p.E2E = trExt&1 != 0, trExt&2 != 0
	})
	r.Class(fmt.Sprintf("traceroute-request/ext=%d", trExt))
	th, err := rfix.ParseHdr(tr)
	if err != nil {
		r.Inconclusive("ref-parse")
		return
	}
	for g := 0; g < th.NumHF; g++ {
		for flag := 0; flag < 2; flag++ {
			mut := append([]byte(nil), tr...)
			mut[th.HopOff[g]] |= 1 << flag // bit0 = E (ConsEgress alert), bit1 = I (ConsIngress alert)
			net := w.net
			if exp[[2]int{g, flag}].downOK {
				// the link behind the flagged egress interface is down: the request
				// is answered all the same (the alert is handled before the link state)
				net = w.netDown
				r.Event("traceroute_egress_of_down_link")
			}
			wk := net.Send(f.src, f.br, f.srcUDP, mut)
			r.Eval(1)
			side := []string{"egress-flag", "ingress-flag"}[flag]
			if net == w.netDown {
				side += "/link-down"
			}
			note := fmt.Sprintf("traceroute request, %s on hop %d", side, g)
			if wk.Panic != "" {
				r.Violation("C10:panic:"+mon.PanicSite(wk.Stack), "router panicked", wit(w, f, mut, wk, note))
				continue
			}
			wnt := exp[[2]int{g, flag}]
			var m rfix.SCMPInfo
			isTraceReply := false
			if wk.Answered {
				m = rfix.ParseSCMP(wk.AnswerBytes)
				isTraceReply = m.OK && m.Type == 131
			}
			if !wnt.ok {
				r.Event("traceroute_untraversed_flag")
				r.Class(fmt.Sprintf("%s/%s/traceroute/untraversed/answered=%v", w.topo.Family, shapeOf(f), isTraceReply))
				continue
			}
			cls := "traceroute-" + side
			if !wk.Answered || !isTraceReply {
				r.Violation("C10:traceroute-not-answered:"+side, "a traceroute request with a router-alert flag on a traversed interface was not answered with a traceroute reply", wit(w, f, mut, wk, note))
				continue
			}
			if wk.AnswerBy.String() != wnt.ia || wk.AnswerByBR != wnt.br {
				r.Violation("C10:traceroute-wrong-router:"+side, fmt.Sprintf("answered by %s#br%d, the flagged interface %d belongs to %s#br%d", wk.AnswerBy, wk.AnswerByBR, wnt.id, wnt.ia, wnt.br), wit(w, f, mut, wk, note))
				continue
			}
			if fmt.Sprint(addrIA(m.IA)) != wnt.ia || m.IfA != uint64(wnt.id) {
				r.Violation("C10:traceroute-wrong-report:"+side, fmt.Sprintf("reply reports %s#%d, expected %s#%d", addrIA(m.IA), m.IfA, wnt.ia, wnt.id), wit(w, f, mut, wk, note))
				continue
			}
			if m.Ident != id || m.Seq != seq {
				r.Violation("C10:traceroute-id-seq", "traceroute reply does not echo identifier/sequence", wit(w, f, mut, wk, note))
				continue
			}
			// exactly one router answers: the answer itself must not trigger another
			n := 0
			for _, e := range wk.Events {
				if e.Outcome == "scmp" || e.Outcome == "scmp-to-answer" {
					n++
				}
			}
			if n != 1 {
				r.Violation("C10:traceroute-multiple-answers", fmt.Sprintf("%d routers answered", n), wit(w, f, mut, wk, note))
				continue
			}
			if c10JudgeAnswer(r, w, f, mut, wk, note, cls) {
				if flag == 1 == consDirOfHop(g) {
					r.Event("traceroute_ingress_answered")
				} else {
					r.Event("traceroute_egress_answered")
				}
			}
		}
	}
}

// c10JudgeAnswer: the answer must reach the original source host, crossing the
// request's interfaces in reverse order.
func c10JudgeAnswer(r *mon.Run, w *world, f *flow, mut []byte, wk *simnet.Walk, note, cls string) bool {
	as := rejectPos(wk)
	r.Class(fmt.Sprintf("%s/%s/%s/pos=%d", w.topo.Family, shapeOf(f), cls, min(as, 6)))
	if r.WantSample() && r.Events("scmp_error_returned")%1501 == 1 {
		r.Sample(wit(w, f, mut, wk, note))
	}
	if !wk.AnswerDelivered {
		r.Violation("C10:answer-lost:"+cls, "the router's answer was not accepted by every router on the way back", wit(w, f, mut, wk, note))
		return false
	}
	if wk.AnswerAt != f.src || wk.AnswerTo == nil || !wk.AnswerTo.IP.Equal(f.srcHost.IP().AsSlice()) {
		r.Violation("C10:answer-wrong-destination:"+cls, fmt.Sprintf("answer delivered at %s to %v, expected source host %s in %s", wk.AnswerAt, wk.AnswerTo, f.srcHost, f.src), wit(w, f, mut, wk, note))
		return false
	}
	if !crossEq(wk.AnswerCross, reverseCross(wk.Cross)) {
		r.Violation("C10:answer-crossings:"+cls, "answer crossed "+fmtCross(wk.AnswerCross)+", request had crossed "+fmtCross(wk.Cross), wit(w, f, mut, wk, note))
		return false
	}
	for _, e := range wk.Events {
		if e.Outcome == "scmp-to-answer" {
			r.Violation("C10:answer-triggered-answer:"+cls, "a router answered the answer", wit(w, f, mut, wk, note))
			return false
		}
	}
	r.Event("scmp_error_returned")
	return true
}
