package main

import (
	"encoding/binary"
	"fmt"
	"math/rand/v2"
	"net"
	"time"

	"github.com/scionproto/scion/pkg/addr"
	seg "github.com/scionproto/scion/pkg/segment"
	"github.com/scionproto/scion/pkg/slayers/path/scion"
	"github.com/scionproto/scion/private/path/combinator"

	"verif/mon"
	"verif/rfix"
	"verif/simbeacon"
	"verif/simnet"
	"verif/simtopo"
)

type betaKey struct {
	ts  uint32
	mac [6]byte
}

// world = one generated topology with real beaconing output and real routers.
type world struct {
	topo *simtopo.Topo
	bn   *simbeacon.Net
	segs *simbeacon.Segments
	net  *simnet.Net
	// netDown is the same network in which one external interface per AS
	// (those in down) has BFD enabled and, nobody running the sessions, is down.
	netDown *simnet.Net
	down    map[downKey]bool
	// beta: accumulator value each registered hop field's MAC was created with,
	// reconstructed from the registered segments (SegmentID and the MAC chain),
	// keyed by (segment timestamp, MAC).
	beta map[betaKey]uint16
	desc string
	now  time.Time
}

type downKey struct {
	ia addr.IA
	id uint16
}

func newWorld(rng *rand.Rand, chain int, epic bool, wi int) (*world, error) {
	var t *simtopo.Topo
	if chain > 0 {
		t = simtopo.Chain(rng, chain)
	} else {
		t = simtopo.Generate(rng, simtopo.Params{MaxASes: 6 + rng.IntN(8), CorePeering: rng.IntN(2) == 0, PeerLinks: 1 + rng.IntN(4)})
	}
	now := time.Now()
	bn, err := simbeacon.New(t, simbeacon.Params{Now: now, MaxAge: 10 * time.Minute, ExpTimeMin: 20, ExpTimeMax: 255, EPIC: epic, ShortSignerPct: 30})
	if err != nil {
		return nil, err
	}
	segs, err := bn.Run(rng)
	if err != nil {
		return nil, err
	}
	sn, err := simnet.New(t, simnet.Opts{ReuseLocal: wi%2 == 0})
	if err != nil {
		return nil, err
	}
	down := map[downKey]bool{}
	for _, ia := range t.IAs() {
		ids := t.ASes[ia].IfIDs()
		if len(ids) > 0 && rng.IntN(3) != 0 {
			down[downKey{ia, ids[rng.IntN(len(ids))]}] = true
		}
	}
	snDown, err := simnet.New(t, simnet.Opts{ReuseLocal: wi%2 == 0, BFD: func(ia addr.IA, id uint16) bool { return down[downKey{ia, id}] }})
	if err != nil {
		return nil, err
	}
	w := &world{topo: t, bn: bn, segs: segs, net: sn, netDown: snDown, down: down, beta: map[betaKey]uint16{}, now: now}
	w.desc = fmt.Sprintf("%s/%dAS", t.Family, len(t.ASes))
	add := func(s *seg.PathSegment) {
		b := s.Info.SegmentID
		ts := uint32(s.Info.Timestamp.Unix())
		for _, e := range s.ASEntries {
			m := e.HopEntry.HopField.MAC
			next := b ^ binary.BigEndian.Uint16(m[:2])
			w.beta[betaKey{ts, m}] = b
			for _, p := range e.PeerEntries {
				w.beta[betaKey{ts, p.HopField.MAC}] = next
			}
			b = next
		}
	}
	for _, ia := range t.IAs() {
		for _, s := range segs.Up[ia] {
			add(s)
		}
	}
	for _, s := range segs.Core {
		add(s)
	}
	return w, nil
}

// flow is one packet to send along a combinator path.
type flow struct {
	src, dst         addr.IA
	path             combinator.Path
	srcHost, dstHost addr.Host
	srcUDP           *net.UDPAddr
	br               int
}

func (w *world) flows(rng *rand.Rand, src, dst addr.IA) []flow {
	ups, cores, downs := w.segs.Lookup(src, dst)
	ps := combinator.Combine(src, dst, ups, cores, downs, false)
	var out []flow
	for _, p := range ps {
		if len(p.Metadata.Interfaces) == 0 {
			continue
		}
		f := flow{src: src, dst: dst, path: p, srcHost: rfix.RandHost(rng), dstHost: rfix.RandHost(rng)}
		f.srcUDP = &net.UDPAddr{IP: f.srcHost.IP().AsSlice(), Port: 30100 + rng.IntN(900)}
		first := p.Metadata.Interfaces[0]
		f.br = w.topo.ASes[src].Ifaces[uint16(first.ID)].BR
		out = append(out, f)
	}
	return out
}

func (f *flow) rawPath() *scion.Raw {
	r := &scion.Raw{}
	if err := r.DecodeFromBytes(f.path.SCIONPath.Raw); err != nil {
		panic(err)
	}
	return r
}

func (f *flow) packet(rng *rand.Rand, mod func(*rfix.PktSpec)) []byte {
	ps := &rfix.PktSpec{
		SrcIA: f.src, DstIA: f.dst, SrcHost: f.srcHost, DstHost: f.dstHost,
		Path: f.rawPath(), PathType: 1,
		TC: uint8(rng.IntN(256)), FlowID: uint32(rng.IntN(1 << 20)),
		L4: rfix.L4UDP, SrcPort: uint16(30100 + rng.IntN(900)), DstPort: uint16(1024 + rng.IntN(60000)),
		Payload: make([]byte, rng.IntN(64)),
	}
	ps.SrcPort = uint16(f.srcUDP.Port)
	if mod != nil {
		mod(ps)
	}
	b, err := ps.Build()
	if err != nil {
		panic(err)
	}
	return b
}

func (f *flow) expectedCross() []simnet.Crossing {
	var c []simnet.Crossing
	for _, i := range f.path.Metadata.Interfaces {
		c = append(c, simnet.Crossing{IA: i.IA, If: uint16(i.ID)})
	}
	return c
}

func crossEq(a, b []simnet.Crossing) bool {
	if len(a) != len(b) {
		return false
	}
	for i := range a {
		if a[i] != b[i] {
			return false
		}
	}
	return true
}

func reverseCross(a []simnet.Crossing) []simnet.Crossing {
	out := make([]simnet.Crossing, len(a))
	for i := range a {
		out[len(a)-1-i] = a[i]
	}
	return out
}

type walkWitness struct {
	Topology string   `json:"topology"`
	Src      string   `json:"src"`
	Dst      string   `json:"dst"`
	Path     string   `json:"path"`
	Note     string   `json:"note,omitempty"`
	Input    string   `json:"input_hex"`
	Events   []string `json:"events"`
	Cross    string   `json:"crossings"`
	Expected string   `json:"expected_crossings,omitempty"`
}

func fmtCross(c []simnet.Crossing) string {
	s := ""
	for i, x := range c {
		if i > 0 {
			s += " "
		}
		s += fmt.Sprintf("%s#%d", x.IA, x.If)
	}
	return s
}

func wit(w *world, f *flow, in []byte, wk *simnet.Walk, note string) walkWitness {
	ww := walkWitness{Topology: w.desc, Note: note, Input: mon.Hex(in)}
	if f != nil {
		ww.Src, ww.Dst = f.src.String(), f.dst.String()
		ww.Path = fmt.Sprint(f.path.Metadata.Interfaces)
		ww.Expected = fmtCross(f.expectedCross())
	}
	if wk != nil {
		for _, e := range wk.Events {
			ww.Events = append(ww.Events, fmt.Sprintf("%s#br%d in=%s/%d hf=%d->%d %s eg=%d scmp=%d/%d %s answer=%v",
				e.IA, e.BR, e.InKind, e.InIf, e.InHF, e.OutHF, e.Outcome, e.EgIf, e.SlowKind, e.SlowCode, e.SlowErr, e.Answer))
		}
		ww.Cross = fmtCross(wk.Cross)
		if wk.Panic != "" {
			ww.Note += " panic: " + wk.Panic + "\n" + wk.Stack
		}
	}
	return ww
}

// shape classifies a combinator path for evidence classes.
func shapeOf(f *flow) string {
	r := f.rawPath()
	nseg := 0
	for _, l := range r.PathMeta.SegLen {
		if l > 0 {
			nseg++
		}
	}
	peer := false
	if inf, err := r.GetInfoField(0); err == nil && inf.Peer {
		peer = true
	}
	hops := r.NumHops
	b := "hops<=4"
	switch {
	case hops > 32:
		b = "hops>32"
	case hops > 12:
		b = "hops<=32"
	case hops > 4:
		b = "hops<=12"
	}
	return fmt.Sprintf("segs=%d/peer=%v/%s", nseg, peer, b)
}

// pairs enumerates ordered (src,dst) pairs, src != dst, up to limit (PRNG subset).
func (w *world) pairs(rng *rand.Rand, limit int) [][2]addr.IA {
	ias := w.topo.IAs()
	var all [][2]addr.IA
	for _, a := range ias {
		for _, b := range ias {
			if a != b {
				all = append(all, [2]addr.IA{a, b})
			}
		}
	}
	if limit > 0 && len(all) > limit {
		rng.Shuffle(len(all), func(i, j int) { all[i], all[j] = all[j], all[i] })
		all = all[:limit]
	}
	return all
}

func addrIA(v uint64) addr.IA { return addr.IA(v) }
