// Command routernet serves the properties decided on a network of real router
// data planes fed with paths built from real beaconing output.
package main

import "verif/mon"

func main() {
	mon.Main(map[string]func(*mon.Run){
		"C02": checkC02,
		"C03": checkC03,
		"C04": checkC04,
		"C10": checkC10,
		"C22": checkC22,
	})
}
