// Command routernet serves the properties decided on a network of real router
// data planes fed with paths built from real beaconing output.
package main

import "verif/mon"

// replayable wraps a check whose cases are a pure function of (seed, tier): a
// witness is replayed by regenerating the run that produced it.
func replayable(f func(*mon.Run)) func(*mon.Run) {
	return func(r *mon.Run) {
		r.AdoptReplaySeed()
		f(r)
	}
}

func main() {
	mon.Main(map[string]func(*mon.Run){
		"C02": replayable(checkC02),
		"C03": replayable(checkC03),
		"C04": replayable(checkC04),
		"C10": replayable(checkC10),
		"C22": replayable(checkC22),
	})
}
