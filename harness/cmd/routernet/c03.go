package main

import (
	"fmt"
	"math/rand/v2"
	"net"

	"github.com/scionproto/scion/pkg/slayers"
	"github.com/scionproto/scion/pkg/slayers/path"
	"github.com/scionproto/scion/pkg/slayers/path/epic"
	"github.com/scionproto/scion/pkg/slayers/path/scion"
	"github.com/scionproto/scion/pkg/snet"
	snetpath "github.com/scionproto/scion/pkg/snet/path"

	"verif/mon"
	"verif/rfix"
	"verif/simnet"
)

// replyPath computes the reply path from the bytes delivered at the
// destination with one of the reversal APIs named by the property.
func replyPath(final []byte, how int) (path.Path, error) {
	h, err := rfix.ParseHdr(final)
	if err != nil {
		return nil, err
	}
	raw := final[h.PathOff : h.PathOff+h.PathLen]
	switch how {
	case 0: // snet.DefaultReplyPather
		dp, err := snet.DefaultReplyPather{}.ReplyPath(snet.RawPath{PathType: path.Type(h.PathType), Raw: raw})
		if err != nil {
			return nil, err
		}
		var s slayers.SCION
		if err := dp.SetPath(&s); err != nil {
			return nil, err
		}
		return s.Path, nil
	case 1: // scion.Raw.Reverse
		if h.PathType == 3 {
			var ep epic.Path
			if err := ep.DecodeFromBytes(raw); err != nil {
				return nil, err
			}
			// epic.Path.Reverse keeps the EPIC wrapper; an EPIC reply needs fresh
			// validation fields which only the source can compute: reply over the
			// embedded SCION path, as the property's reply pather does.
			return ep.ScionPath.Reverse()
		}
		var r scion.Raw
		if err := r.DecodeFromBytes(append([]byte(nil), raw...)); err != nil {
			return nil, err
		}
		return r.Reverse()
	default: // scion.Decoded.Reverse
		if h.PathType == 3 {
			var ep epic.Path
			if err := ep.DecodeFromBytes(raw); err != nil {
				return nil, err
			}
			d, err := ep.ScionPath.ToDecoded()
			if err != nil {
				return nil, err
			}
			return d.Reverse()
		}
		var d scion.Decoded
		if err := d.DecodeFromBytes(append([]byte(nil), raw...)); err != nil {
			return nil, err
		}
		return d.Reverse()
	}
}

func checkC03(r *mon.Run) {
	r.Rule = "C02 worlds (half of them with EPIC-enabled beaconing); every combinator path is sent as SCION and, where the metadata carries EPIC authenticators, as EPIC " +
		"(snet EPIC dataplane path); after delivery the destination reverses the DELIVERED path bytes with snet.DefaultReplyPather, scion.Raw.Reverse or scion.Decoded.Reverse, " +
		"swaps addresses and sends the reply through the router that delivered the request; oracle: reply delivered to the original source host address in the source AS and " +
		"crossings == request crossings reversed; class = family/shape/request path type/reversal API"
	r.Assumptions = []string{
		"EPIC replies travel as plain SCION paths (what the reply pather and the specification do)",
		"completed one-hop paths are reversed in the one-hop phase (between neighbouring ASes over every link of the topology)",
	}
	rng := r.Rand("c03")
	nMulti := r.Pick(30, 400)
	chains := []int{3, 9}
	worlds(r, rng, nMulti, chains, true, func(w *world, wi int, rng *rand.Rand) {
		srvBuf := make([]byte, 9000)
		var pend *pending
		for _, pr := range w.pairs(rng, 0) {
			for _, f := range w.flows(rng, pr[0], pr[1]) {
				f := f
				useEPIC := rng.IntN(2) == 0 && f.path.Metadata.EpicAuths.SupportsEpic()
				in := f.packet(rng, func(p *rfix.PktSpec) {
					if useEPIC {
						ep, err := snetpath.NewEPICDataplanePath(f.path.SCIONPath, f.path.Metadata.EpicAuths)
						if err == nil {
							p.PathSetter = ep.SetPath
						}
					}
				})
				wk := w.net.Send(f.src, f.br, f.srcUDP, in)
				r.Eval(1)
				if !judgeRequest(r, w, &f, in, wk, useEPIC) {
					continue
				}
				how := rng.IntN(4)
				if how < 3 {
					c03Reply(r, rng, w, &f, in, wk, useEPIC, how, nil)
					continue
				}
				// api3: the destination is a server on one long-lived receive buffer (as
				// snet.Conn): it decodes the request with snet.Packet.Decode, computes the
				// reply path, then reads the NEXT request (another flow, another path)
				// into the same buffer before it sends the first reply.
				n := copy(srvBuf, wk.Final)
				pkt := snet.Packet{Bytes: snet.Bytes(srvBuf[:n])}
				if err := pkt.Decode(); err != nil {
					r.Violation("C03:server-decode", "snet.Packet.Decode fails on a delivered packet: "+err.Error(), wit(w, &f, in, wk, ""))
					continue
				}
				rp, ok := pkt.Path.(snet.RawPath)
				if !ok {
					r.Inconclusive("server-path-not-raw")
					continue
				}
				dp, err := snet.DefaultReplyPather{}.ReplyPath(rp)
				if err != nil {
					r.Violation("C03:reverse-error:api3", "ReplyPath fails: "+err.Error(), wit(w, &f, in, wk, ""))
					continue
				}
				if pend != nil {
					pend.send()
				}
				f2, in2, wk2, epic2 := f, in, wk, useEPIC
				pend = &pending{send: func() {
					var sl slayers.SCION
					if err := dp.SetPath(&sl); err != nil {
						r.Violation("C03:reverse-error:api3", "SetPath fails: "+err.Error(), wit(w, &f2, in2, wk2, ""))
						return
					}
					c03Reply(r, rng, w, &f2, in2, wk2, epic2, 3, sl.Path)
				}}
			}
		}
		if pend != nil {
			pend.send()
			pend = nil
		}
		c03OneHop(r, rng, w)
	})
	r.Require(int64(r.Pick(3000, 60000)), 12, "reply_delivered", "epic_request_delivered", "onehop_reply_delivered")
}

func judgeRequest(r *mon.Run, w *world, f *flow, in []byte, wk *simnet.Walk, epicReq bool) bool {
	if wk.Panic != "" {
		r.Violation("C03:panic:"+mon.PanicSite(wk.Stack), "router panicked on the request", wit(w, f, in, wk, ""))
		return false
	}
	if !wk.Delivered || wk.DeliveredAt != f.dst {
		if epicReq {
			// C03 is conditional on delivery. Observed on the unchanged tree: EPIC
			// requests over two-hop peering paths (SegLen 1,1) are dropped by the
			// first router (EPIC authenticator of a peering hop); recorded, not judged.
			r.Inconclusive("epic-request-not-delivered/" + shapeOf(f))
			r.Event("epic_request_not_delivered")
		} else {
			r.Inconclusive("request-not-delivered")
		}
		return false
	}
	if epicReq {
		r.Event("epic_request_delivered")
	}
	return true
}

type pending struct{ send func() }

func c03Reply(r *mon.Run, rng *rand.Rand, w *world, f *flow, in []byte, wk *simnet.Walk, epicReq bool, how int, pre path.Path) {
	rp, err := pre, error(nil)
	if pre == nil {
		rp, err = replyPath(wk.Final, how)
	}
	if err != nil {
		r.Violation(fmt.Sprintf("C03:reverse-error:api%d", how), "reversing a delivered path failed: "+err.Error(), wit(w, f, in, wk, ""))
		return
	}
	ps := &rfix.PktSpec{
		SrcIA: f.dst, DstIA: f.src, SrcHost: f.dstHost, DstHost: f.srcHost,
		Path: rp, PathType: rp.Type(), TC: uint8(rng.IntN(256)), FlowID: uint32(rng.IntN(1 << 20)),
		L4: rfix.L4UDP, SrcPort: uint16(wk.DeliveredTo.Port), DstPort: uint16(f.srcUDP.Port),
		Payload: []byte("reply"),
	}
	rb, err := ps.Build()
	if err != nil {
		r.Violation("C03:reply-build", "cannot serialize reply: "+err.Error(), wit(w, f, in, wk, ""))
		return
	}
	from := &net.UDPAddr{IP: wk.DeliveredTo.IP, Port: wk.DeliveredTo.Port}
	rw := w.net.Send(f.dst, wk.DeliveredBR, from, rb)
	cls := fmt.Sprintf("%s/%s/epicreq=%v/api%d", w.topo.Family, shapeOf(f), epicReq, how)
	r.Class(cls)
	if r.WantSample() && r.Events("reply_delivered")%997 == 0 {
		r.Sample(map[string]any{"request": wit(w, f, in, wk, ""), "reply": wit(w, nil, rb, rw, cls)})
	}
	wt := map[string]any{"request": wit(w, f, in, wk, ""), "reply": wit(w, nil, rb, rw, cls)}
	key := fmt.Sprintf("epicreq=%v:api%d", epicReq, how)
	if rw.Panic != "" {
		r.Violation("C03:panic:"+mon.PanicSite(rw.Stack), "router panicked on the reply", wt)
		return
	}
	if rw.Answered || !rw.Delivered {
		r.Violation("C03:reply-not-accepted:"+key, "the reply along the reversed path was not accepted by every router on the way back", wt)
		return
	}
	if rw.DeliveredAt != f.src || rw.DeliveredTo == nil || !rw.DeliveredTo.IP.Equal(f.srcHost.IP().AsSlice()) {
		r.Violation("C03:reply-wrong-destination:"+key, fmt.Sprintf("reply delivered at %s to %v, expected %s host %s", rw.DeliveredAt, rw.DeliveredTo, f.src, f.srcHost), wt)
		return
	}
	if !crossEq(rw.Cross, reverseCross(wk.Cross)) {
		r.Violation("C03:reply-crossings:"+key, "the reply did not cross exactly the request's interfaces in reverse order: "+fmtCross(rw.Cross)+" vs request "+fmtCross(wk.Cross), wt)
		return
	}
	r.Event("reply_delivered")
}

// c03OneHop sends a one-hop-path packet over every link of the topology, lets
// the far router complete it, reverses the completed path at the destination
// and sends the reply back.
func c03OneHop(r *mon.Run, rng *rand.Rand, w *world) {
	for _, l := range w.topo.Links() {
		for dir := 0; dir < 2; dir++ {
			a, aid, b := l.A, l.AID, l.B
			if dir == 1 {
				a, aid, b = l.B, l.BID, l.A
			}
			key := w.net.Keys[a]
			ts := uint32(w.now.Unix() - int64(rng.IntN(100)))
			segID := uint16(rng.IntN(1 << 16))
			exp := uint8(63)
			full := rfix.HopMAC(key, segID, ts, exp, 0, aid)
			var mac [6]byte
			copy(mac[:], full[:6])
			ohp := &onehopPath{ts: ts, segID: segID, exp: exp, eg: aid, mac: mac}
			srcHost, dstHost := rfix.RandHost(rng), rfix.RandHost(rng)
			ps := &rfix.PktSpec{SrcIA: a, DstIA: b, SrcHost: srcHost, DstHost: dstHost,
				Path: ohp.build(), PathType: 2, L4: rfix.L4UDP, SrcPort: 40001, DstPort: 40002, Payload: []byte("ohp")}
			in, err := ps.Build()
			if err != nil {
				r.Inconclusive("ohp-build")
				continue
			}
			br := w.topo.ASes[a].Ifaces[aid].BR
			srcUDP := &net.UDPAddr{IP: srcHost.IP().AsSlice(), Port: 40001}
			wk := w.net.Send(a, br, srcUDP, in)
			r.Eval(1)
			if wk.Panic != "" {
				r.Violation("C03:panic:"+mon.PanicSite(wk.Stack), "router panicked on a one-hop packet", wit(w, nil, in, wk, "one-hop"))
				continue
			}
			if !wk.Delivered || wk.DeliveredAt != b {
				r.Violation("C03:onehop-request-not-delivered", "a valid one-hop packet to the neighbour was not delivered", wit(w, nil, in, wk, "one-hop "+a.String()+"->"+b.String()))
				continue
			}
			rp, err := replyPath(wk.Final, 0)
			if err != nil {
				r.Violation("C03:reverse-error:onehop", "reversing a completed one-hop path failed: "+err.Error(), wit(w, nil, in, wk, "one-hop"))
				continue
			}
			rps := &rfix.PktSpec{SrcIA: b, DstIA: a, SrcHost: dstHost, DstHost: srcHost, Path: rp, PathType: rp.Type(),
				L4: rfix.L4UDP, SrcPort: 40002, DstPort: 40001, Payload: []byte("ohp-reply")}
			rb, err := rps.Build()
			if err != nil {
				r.Violation("C03:reply-build", "cannot serialize one-hop reply: "+err.Error(), nil)
				continue
			}
			rw := w.net.Send(b, wk.DeliveredBR, &net.UDPAddr{IP: wk.DeliveredTo.IP, Port: 40002}, rb)
			r.Class(fmt.Sprintf("%s/onehop/linktype=%d", w.topo.Family, l.TypeA))
			wt := map[string]any{"request": wit(w, nil, in, wk, "one-hop"), "reply": wit(w, nil, rb, rw, "one-hop reply")}
			if rw.Panic != "" {
				r.Violation("C03:panic:"+mon.PanicSite(rw.Stack), "router panicked on a one-hop reply", wt)
				continue
			}
			if rw.Answered || !rw.Delivered || rw.DeliveredAt != a || !rw.DeliveredTo.IP.Equal(srcHost.IP().AsSlice()) {
				r.Violation("C03:onehop-reply-not-delivered", "the reply along the reversed completed one-hop path did not reach the source host", wt)
				continue
			}
			if !crossEq(rw.Cross, reverseCross(wk.Cross)) {
				r.Violation("C03:onehop-reply-crossings", "one-hop reply crossed other interfaces than the request", wt)
				continue
			}
			r.Event("onehop_reply_delivered")
		}
	}
}
