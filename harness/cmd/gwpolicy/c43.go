package main

import (
	"sync/atomic"
	"encoding/json"
	"fmt"
	"net"
	"os"

	"github.com/gopacket/gopacket"
	"github.com/gopacket/gopacket/layers"

	"github.com/scionproto/scion/gateway/pktcls"

	"verif/mon"
)

// C43 — traffic-class expressions evaluate as written and survive printing.

type c43Witness struct {
	Expr     string `json:"expr"`
	Printed  string `json:"printed_by_implementation,omitempty"`
	Packet   string `json:"packet,omitempty"`
	Raw      string `json:"packet_hex,omitempty"`
	Got      *bool  `json:"eval,omitempty"`
	GotAgain *bool  `json:"eval_after_print_parse,omitempty"`
	Want     *bool  `json:"reference,omitempty"`
	Err      string `json:"error,omitempty"`
}

var c43DecodeOptions = gopacket.DecodeOptions{NoCopy: true, Lazy: true}

// c43Layer decodes the harness-built bytes the way the gateway does
// (ipforwarder.go) and returns the network layer handed to Cond.Eval.
func c43Layer(p *gwPkt) gopacket.Layer {
	first := layers.LayerTypeIPv4
	if p.V6 {
		first = layers.LayerTypeIPv6
	}
	nl := gopacket.NewPacket(p.Raw, first, c43DecodeOptions).NetworkLayer()
	if nl == nil {
		return nil
	}
	return nl
}

func c43Eval(c pktcls.Cond, l gopacket.Layer) (res bool, panicked any, stack string) {
	panicked, stack = mon.Try(func() { res = c.Eval(l) })
	return
}

// c43Case parses expr, judges it on the packets, prints, re-parses, and judges
// again. Returns false if the expression could not be built.
var c43Rejected atomic.Int64

func c43Case(r *mon.Run, cond *gwCond, expr string, pkts []*gwPkt, sample bool) {
	kinds := gwKinds(cond)
	var c1 pktcls.Cond
	var err error
	// A class with an unusable value was submitted before (and refused): what
	// the parser did with it must leave no trace in the next, valid class.
	if n := c43Rejected.Add(1); n%4 == 0 {
		bad := []string{"protocol=FOO", "src=10.0.0.0/33", "srcport=65536", "tos=0x100", "dscp=0x40", "all(dst=1.2.3.4/40,protocol=udp)",
			"any(protocol=tcp,dstport=70000)", "not(src=300.0.0.1/8)"}[int(n/4)%8]
		var berr error
		if n%8 == 0 {
			if p, stack := mon.Try(func() { berr = pktcls.ValidateTrafficClass(bad) }); p != nil {
				r.Violation("C43:panic:"+mon.PanicSite(stack), fmt.Sprintf("ValidateTrafficClass(%q) panicked: %v", bad, p), c43Witness{Expr: bad})
			}
		} else if p, stack := mon.Try(func() { _, berr = pktcls.BuildClassTree(bad) }); p != nil {
			r.Violation("C43:panic:"+mon.PanicSite(stack), fmt.Sprintf("BuildClassTree(%q) panicked: %v", bad, p), c43Witness{Expr: bad})
		}
		if berr != nil {
			r.Event("class_rejected_before_valid")
		}
	}
	if p, stack := mon.Try(func() { c1, err = pktcls.BuildClassTree(expr) }); p != nil {
		r.Violation("C43:panic:"+mon.PanicSite(stack), fmt.Sprintf("BuildClassTree(%q) panicked: %v", expr, p), c43Witness{Expr: expr})
		return
	}
	if err != nil {
		r.Eval(1)
		r.Violation("C43:rejects-valid:"+kinds, fmt.Sprintf("BuildClassTree(%q): %v", expr, err), c43Witness{Expr: expr, Err: err.Error()})
		return
	}
	printed := c1.String()
	var c2 pktcls.Cond
	if p, stack := mon.Try(func() { c2, err = pktcls.BuildClassTree(printed) }); p != nil {
		r.Violation("C43:panic:"+mon.PanicSite(stack), fmt.Sprintf("BuildClassTree(%q) panicked: %v", printed, p), c43Witness{Expr: expr, Printed: printed})
		return
	}
	if err != nil {
		r.Eval(1)
		r.Violation("C43:print-unparseable:"+kinds, fmt.Sprintf("String() of parsed %q is %q, which does not parse: %v", expr, printed, err),
			c43Witness{Expr: expr, Printed: printed, Err: err.Error()})
		return
	}
	r.Event("print_parse")
	hasPort := gwHasPortPred(cond)
	for i, p := range pkts {
		l := c43Layer(p)
		if l == nil {
			r.Inconclusive("packet-not-decodable")
			continue
		}
		got, pn, stack := c43Eval(c1, l)
		if pn != nil {
			r.Violation("C43:panic:"+mon.PanicSite(stack), fmt.Sprintf("Eval panicked: %v", pn), c43Witness{Expr: expr, Packet: p.Describe(), Raw: mon.Hex(p.Raw)})
			continue
		}
		again, pn, stack := c43Eval(c2, c43Layer(p))
		if pn != nil {
			r.Violation("C43:panic:"+mon.PanicSite(stack), fmt.Sprintf("Eval panicked: %v", pn), c43Witness{Expr: printed, Packet: p.Describe(), Raw: mon.Hex(p.Raw)})
			continue
		}
		r.Eval(1)
		w := c43Witness{Expr: expr, Printed: printed, Packet: p.Describe(), Raw: mon.Hex(p.Raw), Got: &got, GotAgain: &again}
		if got != again {
			r.Violation("C43:print-changes-value:"+kinds, fmt.Sprintf("%q evaluates to %v, its printed form %q to %v on %s",
				expr, got, printed, again, p.Describe()), w)
		}
		if p.Fragment() && hasPort {
			// whether a fragment "has ports" is not stated; value not judged
			r.Class("fragment+port-predicate/not-judged")
			r.Event("eval_not_judged")
			continue
		}
		want := gwEval(cond, p)
		w.Want = &want
		r.Class(fmt.Sprintf("kinds=%s/depth=%d/pkt=%s/%v", kinds, gwDepth(cond), p.Kind, want))
		if want {
			r.Event("eval_true")
		} else {
			r.Event("eval_false")
		}
		if sample && i == 0 && r.WantSample() {
			r.Sample(w)
		}
		if got != want {
			r.Violation("C43:eval:"+kinds, fmt.Sprintf("%q evaluates to %v on %s; the expression's value is %v", expr, got, p.Describe(), want), w)
		}
	}
}

func c43Replay(r *mon.Run) bool {
	b, err := os.ReadFile(r.ReplayFile())
	if err != nil {
		return false
	}
	var rep struct {
		Witness c43Witness `json:"witness"`
	}
	if json.Unmarshal(b, &rep) != nil || rep.Witness.Expr == "" {
		return false
	}
	w := rep.Witness
	c, err := pktcls.BuildClassTree(w.Expr)
	fmt.Printf("replay: BuildClassTree(%q) err=%v\n", w.Expr, err)
	r.Eval(1)
	r.Class("replay")
	r.Class("replay/built=" + fmt.Sprint(err == nil))
	r.Sample(w)
	if err != nil {
		r.Violation("C43:replay", "expression still refused", w)
		return true
	}
	if w.Raw != "" && w.Want != nil {
		raw := make([]byte, len(w.Raw)/2)
		fmt.Sscanf(w.Raw, "%x", &raw)
		l := gopacket.NewPacket(raw, layers.LayerTypeIPv4, c43DecodeOptions).NetworkLayer()
		got := c.Eval(l)
		fmt.Printf("replay: eval=%v reference-at-the-time=%v printed=%q\n", got, *w.Want, c.String())
		if got != *w.Want {
			r.Violation("C43:replay", "replayed witness still differs from the reference", w)
		}
	}
	return true
}

func checkC43(r *mon.Run) {
	r.Rule = "random expression trees of depth <= 4 over all/any/not/bool and src/dst/dscp/tos/protocol/srcport/dstport predicates, " +
		"printed by the harness's printer (keyword case, blanks, hex case, leading zeros, single port or range varied) -> BuildClassTree -> " +
		"Eval on IPv4 packets built by the harness (TCP/UDP with options, ICMP, other protocols, fragments; fields biased to the " +
		"expression's constants and their neighbours) vs an independent evaluator; String() -> BuildClassTree -> Eval must agree on " +
		"every packet; plus complete tables tos/dscp value x TOS byte, protocol name x protocol number, port edges; " +
		"class = predicate kinds x depth x packet kind x value"
	r.Assumptions = []string{
		"packets are decoded with gopacket exactly as gateway/dataplane/ipforwarder.go does (NoCopy, Lazy) and the IPv4 layer is passed to Eval",
		"port predicates are false on packets without a complete TCP/UDP header; on IPv4 fragments the value of expressions with port predicates is not judged",
		"any()/all() without operands (not expressible in the grammar, constructible through the API) are true as documented in pktcls/doc.go",
		"cls= conditions have no stated meaning and are not generated",
	}
	if r.ReplayFile() != "" && c43Replay(r) {
		return
	}
	rng := r.Rand("c43")

	// --- complete tables (every value, decided by the same oracle) ---
	tablePkts := make([]*gwPkt, 256)
	for tos := 0; tos < 256; tos++ {
		p := &gwPkt{Src: []byte{10, 0, 0, 1}, Dst: []byte{10, 0, 0, 2}, TTL: 64, TOS: uint8(tos), Kind: "udp", Proto: 17, HasPorts: true, SPort: 1000, DPort: 2000}
		p.Build()
		tablePkts[tos] = p
	}
	for v := 0; v < 256; v++ {
		for _, kind := range []string{"tos", "dscp"} {
			c := &gwCond{Kind: kind, Val: uint8(v)}
			c43Case(r, c, (&gwPrinter{}).Print(c), tablePkts, false)
		}
	}
	protoPkts := make([]*gwPkt, 256)
	for pn := 0; pn < 256; pn++ {
		p := &gwPkt{Src: []byte{10, 0, 0, 1}, Dst: []byte{10, 0, 0, 2}, TTL: 64, Proto: uint8(pn), Kind: "raw", Data: []byte{1, 2, 3, 4, 5, 6, 7, 8}}
		switch pn {
		case 6:
			p.Kind, p.HasPorts, p.SPort, p.DPort = "tcp", true, 1, 2
		case 17:
			p.Kind, p.HasPorts, p.SPort, p.DPort = "udp", true, 1, 2
		}
		p.Build()
		protoPkts[pn] = p
	}
	for _, name := range gwProtoNames {
		c := &gwCond{Kind: "proto", Proto: name}
		for _, pr := range []*gwPrinter{{}, {rng: rng}} {
			c43Case(r, c, pr.Print(c), protoPkts, false)
		}
	}
	var portPkts []*gwPkt
	for _, kind := range []string{"tcp", "udp"} {
		for _, sp := range gwPortEdges {
			for _, dp := range []uint16{0, 80, 65535} {
				p := &gwPkt{Src: []byte{10, 0, 0, 1}, Dst: []byte{10, 0, 0, 2}, TTL: 64, Kind: kind, Proto: map[string]uint8{"tcp": 6, "udp": 17}[kind],
					HasPorts: true, SPort: sp, DPort: dp}
				p.Build()
				portPkts = append(portPkts, p)
				q := *p
				q.SPort, q.DPort = dp, sp
				q.Build()
				portPkts = append(portPkts, &q)
			}
		}
	}
	for _, kind := range []string{"sport", "dport"} {
		for _, lo := range gwPortEdges {
			for _, hi := range gwPortEdges {
				c := &gwCond{Kind: kind, Lo: lo, Hi: hi, Range: true}
				if lo == hi {
					c.Range = false
				}
				c43Case(r, c, (&gwPrinter{}).Print(c), portPkts, false)
			}
		}
	}
	r.Extra("complete_tables", "tos x TOS (256x256), dscp x TOS (256x256), 14 protocol names x 256 protocol numbers, 13x13 port ranges x port edges")

	// --- random trees ---
	nExpr := r.Pick(12000, 200000)
	for i := 0; i < nExpr; i++ {
		cond := gwGenCond(rng, 1+rng.IntN(4))
		expr := (&gwPrinter{rng: rng}).Print(cond)
		pkts := make([]*gwPkt, r.Pick(24, 32))
		for k := range pkts {
			pkts[k] = gwGenV4Packet(rng, cond, true)
		}
		c43Case(r, cond, expr, pkts, i%2000 == 7)
	}

	// --- trees built through the API (operand-less any/all, nesting) ---
	nAPI := r.Pick(2000, 20000)
	for i := 0; i < nAPI; i++ {
		cond := gwGenCond(rng, 1+rng.IntN(4))
		// replace some inner nodes by empty any/all
		gwWalk(cond, func(n *gwCond) {
			for k, kid := range n.Kids {
				if (kid.Kind == "any" || kid.Kind == "all") && rng.IntN(3) == 0 {
					n.Kids[k] = &gwCond{Kind: kid.Kind}
				}
			}
		})
		if rng.IntN(10) == 0 {
			cond = &gwCond{Kind: []string{"any", "all"}[rng.IntN(2)]}
		}
		impl := c43BuildAPI(cond)
		for k := 0; k < 16; k++ {
			p := gwGenV4Packet(rng, cond, false)
			got, pn, stack := c43Eval(impl, c43Layer(p))
			if pn != nil {
				r.Violation("C43:panic:"+mon.PanicSite(stack), fmt.Sprintf("Eval panicked: %v", pn), c43Witness{Expr: (&gwPrinter{}).Print(cond), Packet: p.Describe()})
				continue
			}
			want := gwEval(cond, p)
			r.Eval(1)
			r.Event("api_eval")
			r.Class(fmt.Sprintf("api/kinds=%s/%v", gwKinds(cond), want))
			if got != want {
				r.Violation("C43:eval-api:"+gwKinds(cond), fmt.Sprintf("API-built %s evaluates to %v on %s; value is %v", (&gwPrinter{}).Print(cond), got, p.Describe(), want),
					c43Witness{Expr: (&gwPrinter{}).Print(cond), Packet: p.Describe(), Raw: mon.Hex(p.Raw), Got: &got, Want: &want})
			}
		}
	}
	c43ConcurrentPhase(r)
	r.Require(int64(nExpr)*10, 200, "eval_true", "eval_false", "print_parse", "api_eval", "concurrent_eval", "class_rejected_before_valid")
}

// c43BuildAPI constructs the expression through pktcls's exported types.
func c43BuildAPI(c *gwCond) pktcls.Cond {
	kids := make([]pktcls.Cond, len(c.Kids))
	for i, k := range c.Kids {
		kids[i] = c43BuildAPI(k)
	}
	ipnet := func() *net.IPNet {
		m := net.CIDRMask(c.Bits, 32)
		return &net.IPNet{IP: net.IP(c.Net[:]).Mask(m), Mask: m}
	}
	switch c.Kind {
	case "all":
		return pktcls.NewCondAllOf(kids...)
	case "any":
		return pktcls.NewCondAnyOf(kids...)
	case "not":
		return pktcls.NewCondNot(kids[0])
	case "bool":
		return pktcls.CondBool(c.Bool)
	case "src":
		return pktcls.NewCondIPv4(&pktcls.IPv4MatchSource{Net: ipnet()})
	case "dst":
		return pktcls.NewCondIPv4(&pktcls.IPv4MatchDestination{Net: ipnet()})
	case "dscp":
		return pktcls.NewCondIPv4(&pktcls.IPv4MatchDSCP{DSCP: c.Val})
	case "tos":
		return pktcls.NewCondIPv4(&pktcls.IPv4MatchToS{TOS: c.Val})
	case "proto":
		return pktcls.NewCondIPv4(&pktcls.IPv4MatchProtocol{Protocol: gwProtoNum[c.Proto]})
	case "sport":
		return pktcls.NewCondPorts(&pktcls.PortMatchSource{MinPort: c.Lo, MaxPort: c.Hi})
	case "dport":
		return pktcls.NewCondPorts(&pktcls.PortMatchDestination{MinPort: c.Lo, MaxPort: c.Hi})
	}
	panic("c43BuildAPI: " + c.Kind)
}
