package main

import (
	"encoding/binary"
	"fmt"
	"math/rand/v2"
	"strings"
)

// =====================================================================
// Shared by C42 and C43: the harness's own IP packet builder, the AST of
// traffic-class expressions with its printer (antlr/TrafficClass.g4) and the
// reference evaluator. Nothing here imports scion or gopacket.
// =====================================================================

// ---- packets ----

// gwPkt describes an IP packet by its fields; Raw is built from them by the
// harness's own serializer. The reference models only ever look at the fields.
type gwPkt struct {
	V6       bool
	Src, Dst []byte // 4 or 16 bytes
	TOS      uint8  // IPv4 TOS / IPv6 traffic class
	Proto    uint8  // IPv4 protocol / IPv6 next header
	TTL      uint8
	DF, MF   bool
	FragOff  uint16 // in 8-byte units
	OptWords int    // IPv4 option words (NOP padding)
	Kind     string // tcp, udp, icmp, none, raw
	HasPorts bool   // a complete TCP/UDP header is present in an unfragmented packet
	SPort    uint16
	DPort    uint16
	TCPOpt   int // TCP option words
	Data     []byte
	Raw      []byte
}

func (p *gwPkt) Fragment() bool { return !p.V6 && (p.MF || p.FragOff != 0) }

func (p *gwPkt) Describe() string {
	v := "v4"
	if p.V6 {
		v = "v6"
	}
	return fmt.Sprintf("%s %s->%s tos=%#x proto=%d kind=%s sport=%d dport=%d df=%v mf=%v off=%d opt=%d len=%d",
		v, gwIPString(p.Src), gwIPString(p.Dst), p.TOS, p.Proto, p.Kind, p.SPort, p.DPort, p.DF, p.MF, p.FragOff, p.OptWords, len(p.Raw))
}

func gwIPString(b []byte) string {
	if len(b) == 4 {
		return fmt.Sprintf("%d.%d.%d.%d", b[0], b[1], b[2], b[3])
	}
	// uncompressed IPv6 text (valid input for every parser; no "::" logic needed)
	parts := make([]string, 8)
	for i := 0; i < 8; i++ {
		parts[i] = fmt.Sprintf("%x", binary.BigEndian.Uint16(b[2*i:]))
	}
	return strings.Join(parts, ":")
}

func gwChecksum(b []byte) uint16 {
	var s uint32
	for i := 0; i+1 < len(b); i += 2 {
		s += uint32(b[i])<<8 | uint32(b[i+1])
	}
	if len(b)%2 == 1 {
		s += uint32(b[len(b)-1]) << 8
	}
	for s>>16 != 0 {
		s = s&0xffff + s>>16
	}
	return ^uint16(s)
}

// l4 returns the bytes following the IP header.
func (p *gwPkt) l4() []byte {
	switch p.Kind {
	case "tcp":
		h := make([]byte, 20+4*p.TCPOpt)
		binary.BigEndian.PutUint16(h[0:], p.SPort)
		binary.BigEndian.PutUint16(h[2:], p.DPort)
		binary.BigEndian.PutUint32(h[4:], 0x01020304)
		h[12] = byte(5+p.TCPOpt) << 4
		h[13] = 0x18 // PSH|ACK
		binary.BigEndian.PutUint16(h[14:], 65535)
		for i := 20; i < len(h); i++ {
			h[i] = 1 // NOP
		}
		return append(h, p.Data...)
	case "udp":
		h := make([]byte, 8)
		binary.BigEndian.PutUint16(h[0:], p.SPort)
		binary.BigEndian.PutUint16(h[2:], p.DPort)
		binary.BigEndian.PutUint16(h[4:], uint16(8+len(p.Data)))
		return append(h, p.Data...)
	case "icmp":
		h := make([]byte, 8)
		if p.V6 {
			h[0] = 128
		} else {
			h[0] = 8
		}
		binary.BigEndian.PutUint16(h[4:], 0x1234)
		binary.BigEndian.PutUint16(h[6:], 1)
		return append(h, p.Data...)
	case "none":
		return nil
	}
	return append([]byte(nil), p.Data...)
}

func (p *gwPkt) Build() {
	l4 := p.l4()
	if p.V6 {
		h := make([]byte, 40)
		h[0] = 6<<4 | p.TOS>>4
		h[1] = p.TOS << 4
		binary.BigEndian.PutUint16(h[4:], uint16(len(l4)))
		h[6] = p.Proto
		h[7] = p.TTL
		copy(h[8:24], p.Src)
		copy(h[24:40], p.Dst)
		p.Raw = append(h, l4...)
		return
	}
	hl := 20 + 4*p.OptWords
	h := make([]byte, hl)
	h[0] = 4<<4 | byte(hl/4)
	h[1] = p.TOS
	binary.BigEndian.PutUint16(h[2:], uint16(hl+len(l4)))
	binary.BigEndian.PutUint16(h[4:], 0xbeef)
	fl := p.FragOff & 0x1fff
	if p.DF {
		fl |= 0x4000
	}
	if p.MF {
		fl |= 0x2000
	}
	binary.BigEndian.PutUint16(h[6:], fl)
	h[8] = p.TTL
	h[9] = p.Proto
	copy(h[12:16], p.Src)
	copy(h[16:20], p.Dst)
	for i := 20; i < hl; i++ {
		h[i] = 1 // NOP
	}
	binary.BigEndian.PutUint16(h[10:], gwChecksum(h))
	p.Raw = append(h, l4...)
}

// gwPrefixContains: the first bits bits of a and net agree (same family).
func gwPrefixContains(net []byte, bits int, a []byte) bool {
	if len(net) != len(a) {
		return false
	}
	for i := 0; i < bits; i++ {
		m := byte(0x80) >> (i % 8)
		if net[i/8]&m != a[i/8]&m {
			return false
		}
	}
	return true
}

func gwRandBytes(rng *rand.Rand, n int) []byte {
	b := make([]byte, n)
	for i := range b {
		b[i] = byte(rng.IntN(256))
	}
	return b
}

// ---- traffic-class expressions ----

type gwCond struct {
	Kind  string // all any not bool src dst dscp tos proto sport dport
	Kids  []*gwCond
	Bool  bool
	Net   [4]byte
	Bits  int
	Val   uint8  // dscp / tos
	Proto string // canonical protocol name
	Lo    uint16
	Hi    uint16
	Range bool // written as lo-hi
}

// Protocol names the grammar can express (STRING = letters only) with their
// IANA numbers.
var gwProtoNum = map[string]uint8{
	"TCP": 6, "UDP": 17, "SCTP": 132, "GRE": 47, "OSPF": 89, "IGMP": 2, "VRRP": 112, "RUDP": 27,
	"EtherIP": 97, "IPSecAH": 51, "IPSecESP": 50, "UDPLite": 136, "MPLS": 137, "NoNextHeader": 59,
}

var gwProtoNames = []string{"TCP", "UDP", "SCTP", "GRE", "OSPF", "IGMP", "VRRP", "RUDP", "EtherIP", "IPSecAH",
	"IPSecESP", "UDPLite", "MPLS", "NoNextHeader"}

// gwEval is the documented meaning: all = conjunction, any = disjunction
// (without operands: true, gateway/pktcls/doc.go), not = negation; address
// predicates test prefix membership, tos compares the whole byte, dscp its
// upper six bits, protocol the IP protocol number, ports the TCP/UDP ports of
// an unfragmented IPv4 packet (false when the packet has none).
func gwEval(c *gwCond, p *gwPkt) bool {
	switch c.Kind {
	case "all":
		for _, k := range c.Kids {
			if !gwEval(k, p) {
				return false
			}
		}
		return true
	case "any":
		if len(c.Kids) == 0 {
			return true
		}
		for _, k := range c.Kids {
			if gwEval(k, p) {
				return true
			}
		}
		return false
	case "not":
		return !gwEval(c.Kids[0], p)
	case "bool":
		return c.Bool
	}
	if p.V6 {
		return false
	}
	switch c.Kind {
	case "src":
		return gwPrefixContains(c.Net[:], c.Bits, p.Src)
	case "dst":
		return gwPrefixContains(c.Net[:], c.Bits, p.Dst)
	case "dscp":
		return p.TOS>>2 == c.Val
	case "tos":
		return p.TOS == c.Val
	case "proto":
		return p.Proto == gwProtoNum[c.Proto]
	case "sport":
		return p.HasPorts && p.SPort >= c.Lo && p.SPort <= c.Hi
	case "dport":
		return p.HasPorts && p.DPort >= c.Lo && p.DPort <= c.Hi
	}
	panic("gwEval: bad kind " + c.Kind)
}

func gwWalk(c *gwCond, f func(*gwCond)) {
	f(c)
	for _, k := range c.Kids {
		gwWalk(k, f)
	}
}

func gwHasPortPred(c *gwCond) bool {
	has := false
	gwWalk(c, func(n *gwCond) {
		if n.Kind == "sport" || n.Kind == "dport" {
			has = true
		}
	})
	return has
}

func gwDepth(c *gwCond) int {
	d := 0
	for _, k := range c.Kids {
		if x := gwDepth(k); x > d {
			d = x
		}
	}
	return d + 1
}

func gwKinds(c *gwCond) string {
	seen := map[string]bool{}
	gwWalk(c, func(n *gwCond) { seen[n.Kind] = true })
	var out []string
	for _, k := range []string{"all", "any", "not", "bool", "src", "dst", "dscp", "tos", "proto", "sport", "dport"} {
		if seen[k] {
			out = append(out, k)
		}
	}
	return strings.Join(out, ",")
}

// gwPrinter prints an expression following antlr/TrafficClass.g4: keywords in
// lower or upper case, optional blanks around '(' ',' ')', hexadecimal values
// in either letter case with an optional leading zero, single ports or ranges.
type gwPrinter struct {
	rng *rand.Rand
}

func (pr *gwPrinter) kw(s string) string {
	if pr.rng != nil && pr.rng.IntN(2) == 0 {
		return strings.ToUpper(s)
	}
	return s
}

func (pr *gwPrinter) sp() string {
	if pr.rng != nil && pr.rng.IntN(5) == 0 {
		return " "
	}
	return ""
}

func (pr *gwPrinter) hex(v uint8) string {
	f := "%x"
	if pr.rng != nil {
		f = []string{"%x", "%X", "%02x", "%02X"}[pr.rng.IntN(4)]
	}
	return fmt.Sprintf(f, v)
}

func (pr *gwPrinter) name(s string) string {
	if pr.rng == nil {
		return s
	}
	switch pr.rng.IntN(3) {
	case 0:
		return strings.ToLower(s)
	case 1:
		return strings.ToUpper(s)
	}
	return s
}

func (pr *gwPrinter) Print(c *gwCond) string {
	switch c.Kind {
	case "all", "any":
		parts := make([]string, len(c.Kids))
		for i, k := range c.Kids {
			parts[i] = pr.sp() + pr.Print(k) + pr.sp()
		}
		return pr.kw(c.Kind) + pr.sp() + "(" + strings.Join(parts, ",") + ")"
	case "not":
		return pr.kw("not") + pr.sp() + "(" + pr.sp() + pr.Print(c.Kids[0]) + pr.sp() + ")"
	case "bool":
		return pr.kw("bool") + fmt.Sprintf("=%v", c.Bool)
	case "src", "dst":
		return pr.kw(c.Kind) + fmt.Sprintf("=%d.%d.%d.%d/%d", c.Net[0], c.Net[1], c.Net[2], c.Net[3], c.Bits)
	case "dscp", "tos":
		return pr.kw(c.Kind) + "=0x" + pr.hex(c.Val)
	case "proto":
		return pr.kw("protocol") + "=" + pr.name(c.Proto)
	case "sport", "dport":
		k := "srcport"
		if c.Kind == "dport" {
			k = "dstport"
		}
		if c.Range {
			return pr.kw(k) + fmt.Sprintf("=%d-%d", c.Lo, c.Hi)
		}
		return pr.kw(k) + fmt.Sprintf("=%d", c.Lo)
	}
	panic("gwPrinter: bad kind " + c.Kind)
}

var gwPortEdges = []uint16{0, 1, 22, 53, 80, 443, 1023, 1024, 8080, 30041, 32768, 65534, 65535}

// gwNetPool: the address blocks predicates and packets are drawn from.
var gwNetPool = [][4]byte{{10, 0, 0, 0}, {10, 1, 0, 0}, {10, 1, 2, 0}, {192, 168, 0, 0}, {172, 16, 5, 128}, {0, 0, 0, 0}, {255, 255, 255, 255}, {10, 1, 2, 3}}

func gwGenNet(rng *rand.Rand) ([4]byte, int) {
	n := gwNetPool[rng.IntN(len(gwNetPool))]
	if rng.IntN(4) == 0 {
		copy(n[:], gwRandBytes(rng, 4))
	}
	bits := []int{0, 1, 7, 8, 9, 16, 23, 24, 25, 30, 31, 32}[rng.IntN(12)]
	if rng.IntN(3) == 0 {
		bits = rng.IntN(33)
	}
	if rng.IntN(3) != 0 { // mostly written as a network address
		for i := bits; i < 32; i++ {
			n[i/8] &^= 0x80 >> (i % 8)
		}
	}
	return n, bits
}

func gwGenLeaf(rng *rand.Rand) *gwCond {
	switch rng.IntN(12) {
	case 0:
		return &gwCond{Kind: "bool", Bool: rng.IntN(2) == 0}
	case 1, 2:
		n, b := gwGenNet(rng)
		return &gwCond{Kind: "src", Net: n, Bits: b}
	case 3, 4:
		n, b := gwGenNet(rng)
		return &gwCond{Kind: "dst", Net: n, Bits: b}
	case 5:
		v := uint8(rng.IntN(64))
		if rng.IntN(8) == 0 {
			v = uint8(rng.IntN(256)) // may exceed six bits: never matches
		}
		return &gwCond{Kind: "dscp", Val: v}
	case 6:
		return &gwCond{Kind: "tos", Val: []uint8{0, 1, 2, 3, 4, 0x2e << 2, 0xb8, 0xb9, 0xff, 0x10, 0xa0}[rng.IntN(11)]}
	case 7, 8:
		return &gwCond{Kind: "proto", Proto: gwProtoNames[rng.IntN(len(gwProtoNames))]}
	default:
		c := &gwCond{Kind: "sport"}
		if rng.IntN(2) == 0 {
			c.Kind = "dport"
		}
		c.Lo = gwPortEdges[rng.IntN(len(gwPortEdges))]
		if rng.IntN(4) == 0 {
			c.Lo = uint16(rng.IntN(65536))
		}
		c.Hi = c.Lo
		if rng.IntN(2) == 0 {
			c.Range = true
			c.Hi = gwPortEdges[rng.IntN(len(gwPortEdges))]
			if rng.IntN(4) == 0 {
				c.Hi = uint16(rng.IntN(65536))
			}
			if c.Hi < c.Lo && rng.IntN(6) != 0 { // keep a few inverted (empty) ranges
				c.Lo, c.Hi = c.Hi, c.Lo
			}
		}
		return c
	}
}

// gwGenCond generates an expression of depth <= depth.
func gwGenCond(rng *rand.Rand, depth int) *gwCond {
	if depth <= 1 || rng.IntN(4) == 0 {
		return gwGenLeaf(rng)
	}
	switch rng.IntN(5) {
	case 0:
		return &gwCond{Kind: "not", Kids: []*gwCond{gwGenCond(rng, depth-1)}}
	case 1, 2:
		c := &gwCond{Kind: "all"}
		for k := 1 + rng.IntN(3); k > 0; k-- {
			c.Kids = append(c.Kids, gwGenCond(rng, depth-1))
		}
		return c
	default:
		c := &gwCond{Kind: "any"}
		for k := 1 + rng.IntN(3); k > 0; k-- {
			c.Kids = append(c.Kids, gwGenCond(rng, depth-1))
		}
		return c
	}
}

// gwGenBoolCond generates an expression over bool leaves only (used where the
// packet may be IPv6, for which the IPv4 predicates have no stated meaning).
func gwGenBoolCond(rng *rand.Rand, depth int) *gwCond {
	if depth <= 1 || rng.IntN(3) == 0 {
		return &gwCond{Kind: "bool", Bool: rng.IntN(3) != 0}
	}
	switch rng.IntN(3) {
	case 0:
		return &gwCond{Kind: "not", Kids: []*gwCond{gwGenBoolCond(rng, depth-1)}}
	case 1:
		return &gwCond{Kind: "all", Kids: []*gwCond{gwGenBoolCond(rng, depth-1), gwGenBoolCond(rng, depth-1)}}
	}
	return &gwCond{Kind: "any", Kids: []*gwCond{gwGenBoolCond(rng, depth-1), gwGenBoolCond(rng, depth-1)}}
}

// gwGenV4Packet draws an IPv4 packet whose fields are biased towards the
// constants of cond (so that predicates are hit on both sides of every edge).
func gwGenV4Packet(rng *rand.Rand, cond *gwCond, allowFragments bool) *gwPkt {
	var nets []*gwCond
	var vals []uint8
	var protos []uint8
	var ports []uint16
	if cond != nil {
		gwWalk(cond, func(n *gwCond) {
			switch n.Kind {
			case "src", "dst":
				nets = append(nets, n)
			case "tos":
				vals = append(vals, n.Val)
			case "dscp":
				vals = append(vals, n.Val<<2|uint8(rng.IntN(4)))
			case "proto":
				protos = append(protos, gwProtoNum[n.Proto])
			case "sport", "dport":
				ports = append(ports, n.Lo, n.Hi, n.Lo-1, n.Hi+1, n.Lo+1)
			}
		})
	}
	addr := func() []byte {
		if len(nets) > 0 && rng.IntN(5) != 0 {
			n := nets[rng.IntN(len(nets))]
			a := append([]byte(nil), n.Net[:]...)
			// random host bits, then perhaps flip one bit near the prefix edge
			for i := n.Bits; i < 32; i++ {
				if rng.IntN(2) == 0 {
					a[i/8] ^= 0x80 >> (i % 8)
				}
			}
			if rng.IntN(3) == 0 && n.Bits > 0 {
				i := n.Bits - 1 - rng.IntN(min(n.Bits, 3))
				a[i/8] ^= 0x80 >> (i % 8)
			}
			return a
		}
		if rng.IntN(2) == 0 {
			n := gwNetPool[rng.IntN(len(gwNetPool))]
			return append([]byte(nil), n[:]...)
		}
		return gwRandBytes(rng, 4)
	}
	port := func() uint16 {
		if len(ports) > 0 && rng.IntN(4) != 0 {
			return ports[rng.IntN(len(ports))]
		}
		if rng.IntN(2) == 0 {
			return gwPortEdges[rng.IntN(len(gwPortEdges))]
		}
		return uint16(rng.IntN(65536))
	}
	p := &gwPkt{Src: addr(), Dst: addr(), TTL: uint8(1 + rng.IntN(255)), DF: rng.IntN(2) == 0}
	if len(vals) > 0 && rng.IntN(3) != 0 {
		p.TOS = vals[rng.IntN(len(vals))]
		if rng.IntN(4) == 0 {
			p.TOS ^= 1 << rng.IntN(8)
		}
	} else {
		p.TOS = uint8(rng.IntN(256))
	}
	if rng.IntN(6) == 0 {
		p.OptWords = 1 + rng.IntN(3)
	}
	p.Data = gwRandBytes(rng, rng.IntN(40))
	switch k := rng.IntN(10); {
	case k < 4:
		p.Kind, p.Proto, p.HasPorts = "tcp", 6, true
		p.TCPOpt = rng.IntN(3)
	case k < 7:
		p.Kind, p.Proto, p.HasPorts = "udp", 17, true
	case k < 8:
		p.Kind, p.Proto = "icmp", 1
	default:
		p.Kind = "raw"
		if len(protos) > 0 && rng.IntN(2) == 0 {
			p.Proto = protos[rng.IntN(len(protos))]
		} else {
			p.Proto = []uint8{2, 27, 47, 50, 51, 59, 89, 97, 112, 132, 136, 137, 253, 0, 255, 41}[rng.IntN(16)]
		}
		if p.Proto == 6 || p.Proto == 17 {
			// a TCP/UDP protocol number must come with a real header here
			if p.Proto == 6 {
				p.Kind = "tcp"
			} else {
				p.Kind = "udp"
			}
			p.HasPorts = true
		}
	}
	if p.HasPorts {
		p.SPort, p.DPort = port(), port()
	}
	if allowFragments && rng.IntN(10) == 0 {
		switch rng.IntN(3) {
		case 0:
			p.MF = true
		case 1:
			p.FragOff = uint16(1 + rng.IntN(100))
		default:
			p.MF, p.FragOff = true, uint16(1+rng.IntN(100))
		}
		p.DF = false
		p.HasPorts = false
	}
	p.Build()
	return p
}
