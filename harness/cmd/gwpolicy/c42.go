package main

import (
	"bytes"
	"context"
	"encoding/json"
	"fmt"
	"io"
	"math/rand/v2"
	"net"
	"net/netip"
	"os"
	"sort"
	"strings"

	"github.com/gopacket/gopacket"

	"github.com/scionproto/scion/gateway/control"
	"github.com/scionproto/scion/gateway/dataplane"
	"github.com/scionproto/scion/gateway/pktcls"
	"github.com/scionproto/scion/gateway/routing"
	"github.com/scionproto/scion/pkg/addr"

	"verif/mon"
)

// =====================================================================
// C42 — gateway routing (longest prefix, first traffic class, session,
// fragments) and routing policies (first accept/reject rule, default action,
// text round trip, advertised prefixes).
// =====================================================================

// ---------------------------------------------------------------------
// Part A: routing table + IPForwarder.Run
// ---------------------------------------------------------------------

type c42Prefix struct {
	IP   []byte // 4 or 16 bytes, as written (host bits may be set)
	Bits int
}

func (p c42Prefix) V6() bool { return len(p.IP) == 16 }

func (p c42Prefix) String() string { return fmt.Sprintf("%s/%d", gwIPString(p.IP), p.Bits) }

func (p c42Prefix) Masked() c42Prefix {
	ip := append([]byte(nil), p.IP...)
	for i := p.Bits; i < 8*len(ip); i++ {
		ip[i/8] &^= 0x80 >> (i % 8)
	}
	return c42Prefix{IP: ip, Bits: p.Bits}
}

func (p c42Prefix) Contains(a []byte) bool { return gwPrefixContains(p.IP, p.Bits, a) }

func (p c42Prefix) First() []byte { return p.Masked().IP }

func (p c42Prefix) Last() []byte {
	ip := append([]byte(nil), p.IP...)
	for i := p.Bits; i < 8*len(ip); i++ {
		ip[i/8] |= 0x80 >> (i % 8)
	}
	return ip
}

// c42Inc / c42Dec: neighbouring address, ok=false on wrap-around.
func c42Inc(a []byte) ([]byte, bool) {
	b := append([]byte(nil), a...)
	for i := len(b) - 1; i >= 0; i-- {
		b[i]++
		if b[i] != 0 {
			return b, true
		}
	}
	return nil, false
}

func c42Dec(a []byte) ([]byte, bool) {
	b := append([]byte(nil), a...)
	for i := len(b) - 1; i >= 0; i-- {
		b[i]--
		if b[i] != 0xff {
			return b, true
		}
	}
	return nil, false
}

type c42Matcher struct {
	ID   int
	Cond *gwCond
	Text string
}

type c42Chain struct {
	Prefixes []c42Prefix
	Matchers []c42Matcher
}

type c42Step struct {
	// exactly one of: Pkt, Set (id -> session name), Clear (id), Empty read
	Pkt   *gwPkt
	Class string // generator's packet class
	SetID int
	Sess  string
	Op    string // "", "set", "clear", "empty"
}

type c42Write struct {
	Sess string
	Data []byte
}

type c42Session struct {
	name string
	run  *c42Script
}

func (s *c42Session) Write(p gopacket.Packet) {
	s.run.writes[s.run.cur] = append(s.run.writes[s.run.cur], c42Write{Sess: s.name, Data: append([]byte(nil), p.Data()...)})
}

func (s *c42Session) String() string { return s.name }

// c42Script is the scripted io.Reader: it applies session operations between
// packets (on the forwarder's own goroutine, so everything is sequential) and
// records which packet was being processed when a session was written to.
type c42Script struct {
	steps   []c42Step
	pos     int
	cur     int // index of the step whose packet was returned last
	rt      *dataplane.RoutingTable
	writes  map[int][]c42Write
	opErr   []string
	session map[string]*c42Session
}

func (s *c42Script) Read(b []byte) (int, error) {
	for s.pos < len(s.steps) {
		st := s.steps[s.pos]
		idx := s.pos
		s.pos++
		switch st.Op {
		case "set":
			if err := s.rt.SetSession(st.SetID, s.session[st.Sess]); err != nil {
				s.opErr = append(s.opErr, fmt.Sprintf("SetSession(%d): %v", st.SetID, err))
			}
		case "clear":
			if err := s.rt.ClearSession(st.SetID); err != nil {
				s.opErr = append(s.opErr, fmt.Sprintf("ClearSession(%d): %v", st.SetID, err))
			}
		case "empty":
			s.cur = idx
			return 0, nil
		default:
			s.cur = idx
			return copy(b, st.Pkt.Raw), nil
		}
	}
	return 0, io.EOF
}

var c42V4Bases = [][]byte{{10, 0, 0, 0}, {10, 1, 0, 0}, {10, 1, 2, 0}, {10, 1, 2, 128}, {192, 168, 0, 0}, {172, 16, 0, 0}, {0, 0, 0, 0}, {128, 0, 0, 0}, {255, 255, 255, 255}, {10, 1, 2, 3}}

var c42V6Bases = [][]byte{
	{0x20, 0x01, 0x0d, 0xb8, 0, 0, 0, 0, 0, 0, 0, 0, 0, 0, 0, 0},
	{0x20, 0x01, 0x0d, 0xb8, 0, 1, 0, 0, 0, 0, 0, 0, 0, 0, 0, 0},
	{0x20, 0x01, 0x0d, 0xb8, 0, 1, 0, 2, 0, 0, 0, 0, 0, 0, 0, 3},
	{0xfd, 0, 0, 0, 0, 0, 0, 0, 0, 0, 0, 0, 0, 0, 0, 0},
	{0, 0, 0, 0, 0, 0, 0, 0, 0, 0, 0, 0, 0, 0, 0, 0},
	{0, 0, 0, 0, 0, 0, 0, 0, 0, 0, 0, 0, 0, 0, 0, 1},
	{0xff, 0xff, 0xff, 0xff, 0xff, 0xff, 0xff, 0xff, 0xff, 0xff, 0xff, 0xff, 0xff, 0xff, 0xff, 0xff},
}

func c42GenPrefix(rng *rand.Rand, v6 bool, existing []c42Prefix) c42Prefix {
	// Either refine an existing prefix of the family (nesting) or start from a base.
	var fam []c42Prefix
	for _, e := range existing {
		if e.V6() == v6 {
			fam = append(fam, e)
		}
	}
	total := 32
	if v6 {
		total = 128
	}
	if len(fam) > 0 && rng.IntN(2) == 0 {
		e := fam[rng.IntN(len(fam))]
		if e.Bits < total {
			bits := e.Bits + 1 + rng.IntN(min(total-e.Bits, 12))
			ip := append([]byte(nil), e.IP...)
			for i := e.Bits; i < bits; i++ {
				if rng.IntN(2) == 0 {
					ip[i/8] |= 0x80 >> (i % 8)
				}
			}
			return c42Prefix{IP: ip, Bits: bits}.Masked()
		}
	}
	var ip []byte
	if v6 {
		ip = append([]byte(nil), c42V6Bases[rng.IntN(len(c42V6Bases))]...)
	} else {
		ip = append([]byte(nil), c42V4Bases[rng.IntN(len(c42V4Bases))]...)
		if rng.IntN(4) == 0 {
			ip = gwRandBytes(rng, 4)
		}
	}
	var bits int
	if v6 {
		bits = []int{0, 1, 8, 32, 48, 64, 65, 127, 128}[rng.IntN(9)]
	} else {
		bits = []int{0, 1, 8, 9, 16, 24, 25, 31, 32}[rng.IntN(9)]
	}
	if rng.IntN(4) == 0 {
		bits = rng.IntN(total + 1)
	}
	return c42Prefix{IP: ip, Bits: bits}.Masked()
}

type c42Table struct {
	Chains []c42Chain
}

func c42GenTable(rng *rand.Rand) (*c42Table, []c42Prefix) {
	t := &c42Table{}
	var all []c42Prefix
	seen := map[string]bool{}
	nextID := 1 + rng.IntN(5)
	for n := 1 + rng.IntN(4); n > 0; n-- {
		var ch c42Chain
		hasV6 := false
		for k := 1 + rng.IntN(3); k > 0; k-- {
			for try := 0; try < 20; try++ {
				p := c42GenPrefix(rng, rng.IntN(3) == 0, all)
				if seen[p.String()] || (p.Bits >= 96 && c42IsV4Mapped(p.IP)) {
					continue
				}
				seen[p.String()] = true
				all = append(all, p)
				ch.Prefixes = append(ch.Prefixes, p)
				hasV6 = hasV6 || p.V6()
				break
			}
		}
		if len(ch.Prefixes) == 0 {
			continue
		}
		for k := 1 + rng.IntN(3); k > 0; k-- {
			var c *gwCond
			if hasV6 {
				c = gwGenBoolCond(rng, 1+rng.IntN(3))
			} else if rng.IntN(4) == 0 {
				c = &gwCond{Kind: "bool", Bool: true}
			} else {
				c = gwGenCond(rng, 1+rng.IntN(3))
			}
			ch.Matchers = append(ch.Matchers, c42Matcher{ID: nextID, Cond: c, Text: (&gwPrinter{rng: rng}).Print(c)})
			nextID += 1 + rng.IntN(3)
		}
		t.Chains = append(t.Chains, ch)
	}
	return t, all
}

// c42RefRoute is the reference decision: the most specific prefix containing
// the destination selects the chain; its first traffic class that is true on
// the packet selects the session; fragments are dropped.
func c42RefRoute(t *c42Table, state map[int]string, p *gwPkt) (sess string, reason string, nContaining int, classIdx int) {
	if p.Fragment() {
		return "", "fragment", 0, -1
	}
	best, bestBits := -1, -1
	for ci, ch := range t.Chains {
		for _, pf := range ch.Prefixes {
			if pf.Contains(p.Dst) {
				nContaining++
				if pf.Bits > bestBits {
					best, bestBits = ci, pf.Bits
				}
			}
		}
	}
	if best < 0 {
		return "", "no-prefix", 0, -1
	}
	for mi, m := range t.Chains[best].Matchers {
		if gwEval(m.Cond, p) {
			if s := state[m.ID]; s != "" {
				return s, "routed", nContaining, mi
			}
			return "", "no-session", nContaining, mi
		}
	}
	return "", "no-class", nContaining, -1
}

// UDP ports for which gopacket guesses an application-layer decoder.
var c42AppPorts = []uint16{53, 67, 68, 123, 546, 547, 623, 666, 1000, 1812, 2123, 2152, 2222, 3784, 3868, 4789, 5060, 5082, 5083, 6081, 6343, 44818}

func c42IsAppPort(p uint16) bool {
	for _, q := range c42AppPorts {
		if p == q {
			return true
		}
	}
	return false
}

// IP protocol numbers gopacket has no decoder for.
var c42UnknownProtos = []uint8{88, 103, 115, 253, 254, 9, 33}

// c42GenDst draws a destination; IPv4-mapped IPv6 addresses are redrawn (no
// stated family).
func c42GenDst(rng *rand.Rand, all []c42Prefix, v6 bool) []byte {
	for {
		if a := c42GenDstAny(rng, all, v6); !c42IsV4Mapped(a) {
			return a
		}
	}
}

func c42GenDstAny(rng *rand.Rand, all []c42Prefix, v6 bool) []byte {
	var fam []c42Prefix
	for _, p := range all {
		if p.V6() == v6 {
			fam = append(fam, p)
		}
	}
	n := 4
	if v6 {
		n = 16
	}
	if len(fam) == 0 || rng.IntN(8) == 0 {
		if v6 {
			b := gwRandBytes(rng, 16)
			b[0] = 0x20 // stay clear of ::ffff:0:0/96
			return b
		}
		return gwRandBytes(rng, n)
	}
	p := fam[rng.IntN(len(fam))]
	switch rng.IntN(6) {
	case 0:
		return p.First()
	case 1:
		return p.Last()
	case 2:
		if a, ok := c42Dec(p.First()); ok {
			return a
		}
	case 3:
		if a, ok := c42Inc(p.Last()); ok {
			return a
		}
	}
	a := append([]byte(nil), p.IP...)
	for i := p.Bits; i < 8*n; i++ {
		if rng.IntN(2) == 0 {
			a[i/8] ^= 0x80 >> (i % 8)
		}
	}
	return a
}

func c42IsV4Mapped(a []byte) bool {
	if len(a) != 16 {
		return false
	}
	for i := 0; i < 10; i++ {
		if a[i] != 0 {
			return false
		}
	}
	return a[10] == 0xff && a[11] == 0xff
}

// c42GenPacket returns a packet and its generator class. Classes "wellformed/*"
// and "fragment/*" are IP packets with complete, decodable transport headers;
// "udp-app-payload" and "unknown-ip-protocol" are equally valid IP packets for
// which gopacket's guessed upper-layer decoder fails; "garbage" is not an IP
// packet (never judged).
func c42GenPacket(rng *rand.Rand, t *c42Table, all []c42Prefix) (*gwPkt, string) {
	v6 := rng.IntN(3) == 0
	if !v6 {
		// bias fields towards the constants of a random matcher
		var cond *gwCond
		if len(t.Chains) > 0 {
			ch := t.Chains[rng.IntN(len(t.Chains))]
			cond = ch.Matchers[rng.IntN(len(ch.Matchers))].Cond
		}
		p := gwGenV4Packet(rng, cond, true)
		p.Dst = c42GenDst(rng, all, false)
		class := "wellformed/v4/" + p.Kind
		if p.Kind == "raw" {
			// no bytes after the header: nothing for a strict upper-layer decoder to reject
			p.Kind = "none"
			p.Data = nil
			class = "wellformed/v4/header-only"
		}
		if p.Kind == "udp" {
			for c42IsAppPort(p.SPort) || c42IsAppPort(p.DPort) {
				p.SPort, p.DPort = uint16(1024+rng.IntN(100)), uint16(20000+rng.IntN(100))
			}
		}
		switch rng.IntN(14) {
		case 0:
			p.Kind, p.Proto, p.HasPorts = "udp", 17, !p.Fragment()
			p.SPort, p.DPort = uint16(32768+rng.IntN(1000)), c42AppPorts[rng.IntN(len(c42AppPorts))]
			if rng.IntN(2) == 0 {
				p.SPort, p.DPort = p.DPort, p.SPort
			}
			p.Data = append([]byte{0xff, 0xff, 0xff}, gwRandBytes(rng, rng.IntN(6))...)
			class = "udp-app-payload/v4"
		case 1:
			p.Kind, p.HasPorts = "raw", false
			p.Proto = c42UnknownProtos[rng.IntN(len(c42UnknownProtos))]
			p.Data = gwRandBytes(rng, 1+rng.IntN(30))
			class = "unknown-ip-protocol/v4"
		}
		if p.Fragment() {
			class = "fragment/v4/" + p.Kind
		}
		p.Build()
		return p, class
	}
	p := &gwPkt{V6: true, Src: gwRandBytes(rng, 16), Dst: c42GenDst(rng, all, true), TOS: uint8(rng.IntN(256)), TTL: uint8(1 + rng.IntN(255)),
		Data: gwRandBytes(rng, rng.IntN(40))}
	p.Src[0] = 0x20
	class := ""
	switch rng.IntN(12) {
	case 0, 1, 2, 3:
		p.Kind, p.Proto, p.HasPorts = "tcp", 6, true
		p.SPort, p.DPort = uint16(rng.IntN(65536)), uint16(rng.IntN(65536))
	case 4, 5, 6:
		p.Kind, p.Proto, p.HasPorts = "udp", 17, true
		p.SPort, p.DPort = uint16(1024+rng.IntN(100)), uint16(20000+rng.IntN(100))
	case 7, 8:
		p.Kind, p.Proto = "icmp", 58
	case 9:
		// No Next Header; bytes after the header are ignored by receivers. (A zero
		// payload length is kept out: gopacket reads it as a jumbogram marker.)
		p.Kind, p.Proto, p.Data = "raw", 59, gwRandBytes(rng, 1+rng.IntN(20))
		class = "wellformed/v6/no-next-header"
	case 10:
		p.Kind, p.Proto, p.HasPorts = "udp", 17, true
		p.SPort, p.DPort = uint16(32768+rng.IntN(1000)), c42AppPorts[rng.IntN(len(c42AppPorts))]
		p.Data = append([]byte{0xff, 0xff, 0xff}, gwRandBytes(rng, rng.IntN(6))...)
		class = "udp-app-payload/v6"
	default:
		p.Kind, p.Proto = "raw", c42UnknownProtos[rng.IntN(len(c42UnknownProtos))]
		p.Data = gwRandBytes(rng, 1+rng.IntN(30))
		class = "unknown-ip-protocol/v6"
	}
	if class == "" {
		class = "wellformed/v6/" + p.Kind
	}
	p.Build()
	return p, class
}

type c42RouteWitness struct {
	Chains   []map[string]any  `json:"chains"`
	Sessions map[string]string `json:"sessions_by_class_id"`
	Packet   string            `json:"packet"`
	Raw      string            `json:"packet_hex"`
	Class    string            `json:"packet_class"`
	Want     string            `json:"expected_session"`
	Reason   string            `json:"reference_reason"`
	Got      []string          `json:"written_to"`
}

func c42TableDescr(t *c42Table) []map[string]any {
	var out []map[string]any
	for _, ch := range t.Chains {
		var ps []string
		for _, p := range ch.Prefixes {
			ps = append(ps, p.String())
		}
		var ms []string
		for _, m := range ch.Matchers {
			ms = append(ms, fmt.Sprintf("%d: %s", m.ID, m.Text))
		}
		out = append(out, map[string]any{"prefixes": ps, "classes": ms})
	}
	return out
}

func c42RoutingCase(r *mon.Run, rng *rand.Rand, caseNo int) {
	t, all := c42GenTable(rng)
	if len(t.Chains) == 0 {
		return
	}
	// Build the real table.
	var chains []*control.RoutingChain
	var ids []int
	for _, ch := range t.Chains {
		rc := &control.RoutingChain{RemoteIA: addr.MustIAFrom(1, 0xff0000000110)}
		for _, p := range ch.Prefixes {
			_, n, err := net.ParseCIDR(p.String())
			if err != nil {
				panic("c42: harness prefix does not parse: " + p.String())
			}
			rc.Prefixes = append(rc.Prefixes, n)
		}
		for _, m := range ch.Matchers {
			c, err := pktcls.BuildClassTree(m.Text)
			if err != nil {
				r.Violation("C42:class-rejected", fmt.Sprintf("BuildClassTree(%q): %v", m.Text, err), m.Text)
				return
			}
			rc.TrafficMatchers = append(rc.TrafficMatchers, control.TrafficMatcher{ID: m.ID, Matcher: c})
			ids = append(ids, m.ID)
		}
		chains = append(chains, rc)
	}
	if rng.IntN(2) == 0 { // chain order must not matter
		rng.Shuffle(len(chains), func(i, j int) { chains[i], chains[j] = chains[j], chains[i] })
	}
	rt := dataplane.NewRoutingTable(chains)
	script := &c42Script{rt: rt, writes: map[int][]c42Write{}, session: map[string]*c42Session{}}
	for _, n := range []string{"A", "B", "C", "D", "E"} {
		script.session[n] = &c42Session{name: n, run: script}
	}
	names := []string{"A", "B", "C", "D", "E"}
	// Script: initial session assignment, then packets interleaved with changes.
	state := map[int]string{}
	expect := map[int][4]string{} // step -> session, reason, containing, classIdx
	for _, id := range ids {
		if rng.IntN(4) != 0 {
			script.steps = append(script.steps, c42Step{Op: "set", SetID: id, Sess: names[rng.IntN(len(names))]})
		}
	}
	nPkts := 30 + rng.IntN(30)
	var order []int
	applied := 0
	apply := func(upto int) {
		for ; applied < upto; applied++ {
			st := script.steps[applied]
			switch st.Op {
			case "set":
				state[st.SetID] = st.Sess
			case "clear":
				delete(state, st.SetID)
			}
		}
	}
	for k := 0; k < nPkts; k++ {
		switch rng.IntN(12) {
		case 0:
			script.steps = append(script.steps, c42Step{Op: "clear", SetID: ids[rng.IntN(len(ids))]})
		case 1:
			script.steps = append(script.steps, c42Step{Op: "set", SetID: ids[rng.IntN(len(ids))], Sess: names[rng.IntN(len(names))]})
		case 2:
			if rng.IntN(4) == 0 {
				script.steps = append(script.steps, c42Step{Op: "empty"})
			}
		}
		var st c42Step
		if rng.IntN(40) == 0 {
			g := &gwPkt{Kind: "garbage", Raw: gwRandBytes(rng, 1+rng.IntN(40))}
			if rng.IntN(2) == 0 {
				g.Raw[0] = 0x45 // looks like IPv4 but is truncated / inconsistent
			}
			st = c42Step{Pkt: g, Class: "garbage"}
		} else {
			p, class := c42GenPacket(rng, t, all)
			st = c42Step{Pkt: p, Class: class}
		}
		script.steps = append(script.steps, st)
		idx := len(script.steps) - 1
		apply(idx)
		if st.Class != "garbage" {
			s, reason, nc, ci := c42RefRoute(t, state, st.Pkt)
			expect[idx] = [4]string{s, reason, fmt.Sprint(min(nc, 3)), fmt.Sprint(ci)}
		}
		order = append(order, idx)
	}
	fw := &dataplane.IPForwarder{Reader: script, RoutingTable: rt}
	var runErr error
	if p, stack := mon.Try(func() { runErr = fw.Run(context.Background()) }); p != nil {
		cur := script.steps[script.cur]
		w := c42RouteWitness{Chains: c42TableDescr(t), Class: cur.Class}
		if cur.Pkt != nil {
			w.Raw, w.Packet = mon.Hex(cur.Pkt.Raw), cur.Pkt.Describe()
		}
		r.Violation("C42:panic:"+mon.PanicSite(stack), fmt.Sprintf("IPForwarder.Run panicked: %v", p), w)
		return
	}
	if script.pos != len(script.steps) || runErr == nil {
		r.Violation("C42:run-stopped-early", fmt.Sprintf("Run returned %v after %d of %d script steps", runErr, script.pos, len(script.steps)), nil)
		return
	}
	if len(script.opErr) > 0 {
		r.Violation("C42:session-op-refused", strings.Join(script.opErr, "; "), c42RouteWitness{Chains: c42TableDescr(t)})
		return
	}
	r.Event("forwarder_run")
	// Replay the state evolution for witnesses and judge each packet.
	state = map[int]string{}
	applied = 0
	for _, idx := range order {
		apply(idx)
		st := script.steps[idx]
		ws := script.writes[idx]
		var got []string
		for _, w := range ws {
			got = append(got, w.Sess)
		}
		if st.Class == "garbage" {
			r.Class("garbage/" + fmt.Sprint(len(ws) > 0))
			r.Event("garbage_not_judged")
			continue
		}
		e := expect[idx]
		want, reason := e[0], e[1]
		r.Eval(1)
		fam := st.Class
		r.Class(fmt.Sprintf("route/%s/%s/containing=%s/class=%s", fam, reason, e[2], e[3]))
		r.Event("pkt_" + reason)
		mk := func() c42RouteWitness {
			ss := map[string]string{}
			for id, s := range state {
				ss[fmt.Sprint(id)] = s
			}
			return c42RouteWitness{Chains: c42TableDescr(t), Sessions: ss, Packet: st.Pkt.Describe(), Raw: mon.Hex(st.Pkt.Raw),
				Class: st.Class, Want: want, Reason: reason, Got: got}
		}
		if r.WantSample() && caseNo%150 == 3 && reason == "routed" {
			r.Sample(mk())
		}
		special := strings.HasPrefix(st.Class, "udp-app-payload") || strings.HasPrefix(st.Class, "unknown-ip-protocol")
		switch {
		case want == "" && len(ws) == 0:
		case want == "" && len(ws) > 0:
			r.Violation("C42:route:forwarded:"+reason, fmt.Sprintf("packet (%s) must be dropped (%s) but was written to %v", st.Pkt.Describe(), reason, got), mk())
		case len(ws) == 0:
			key := "C42:route:dropped-routable"
			if special {
				key = "C42:route:dropped-routable:" + strings.Split(st.Class, "/")[0]
			}
			r.Violation(key, fmt.Sprintf("packet (%s) has route to session %s (most specific prefix, first true class) but was dropped", st.Pkt.Describe(), want), mk())
		case len(ws) > 1:
			r.Violation("C42:route:duplicated", fmt.Sprintf("packet (%s) written %d times: %v", st.Pkt.Describe(), len(ws), got), mk())
		case ws[0].Sess != want:
			r.Violation("C42:route:wrong-session", fmt.Sprintf("packet (%s) written to session %s, expected %s", st.Pkt.Describe(), ws[0].Sess, want), mk())
		case !bytes.Equal(ws[0].Data, st.Pkt.Raw):
			r.Violation("C42:route:bytes-altered", fmt.Sprintf("packet (%s) reached session %s with different bytes", st.Pkt.Describe(), want), mk())
		}
	}
}

// ---------------------------------------------------------------------
// Part B: routing policies
// ---------------------------------------------------------------------

type c42IAM struct {
	ISD, AS uint64
	Neg     bool
	Upper   bool // print hex AS in upper case (text side only)
}

// Match: 0 is a wildcard for either part; negation inverts.
func (m c42IAM) Match(isd, as uint64) bool {
	res := (m.ISD == 0 || m.ISD == isd) && (m.AS == 0 || m.AS == as)
	return res != m.Neg
}

func c42ASText(as uint64, upper bool) string {
	if as <= 0xffffffff {
		return fmt.Sprint(as)
	}
	s := fmt.Sprintf("%x:%x:%x", as>>32&0xffff, as>>16&0xffff, as&0xffff)
	if upper {
		s = strings.ToUpper(s)
	}
	return s
}

func (m c42IAM) String() string {
	s := fmt.Sprintf("%d-%s", m.ISD, c42ASText(m.AS, m.Upper))
	if m.Neg {
		return "!" + s
	}
	return s
}

type c42Rule struct {
	Action  string // accept reject advertise redistribute-bgp
	From    c42IAM
	To      c42IAM
	Nets    []c42Prefix
	NegNet  bool
	NextHop string
	Comment string
}

func (ru c42Rule) NetMatch(a []byte) bool {
	in := false
	for _, n := range ru.Nets {
		if n.Contains(a) {
			in = true
		}
	}
	return in != ru.NegNet
}

type c42Policy struct {
	Rules   []c42Rule
	Default string // accept reject unknown
}

// c42Accepts: the first accept or reject rule matching the ISD-AS pair and
// the address decides; otherwise the default action.
func (p *c42Policy) Accepts(fi, fa, ti, ta uint64, a []byte) bool {
	for _, ru := range p.Rules {
		if ru.Action != "accept" && ru.Action != "reject" {
			continue
		}
		if ru.From.Match(fi, fa) && ru.To.Match(ti, ta) && ru.NetMatch(a) {
			return ru.Action == "accept"
		}
	}
	return p.Default == "accept"
}

// c42Advertised: prefixes of the advertise rules matching the pair, or ok=false
// if a matching advertise rule is negated (no stated meaning).
func (p *c42Policy) Advertised(fi, fa, ti, ta uint64) (out []string, ok bool) {
	ok = true
	for _, ru := range p.Rules {
		if ru.Action != "advertise" || !ru.From.Match(fi, fa) || !ru.To.Match(ti, ta) {
			continue
		}
		if ru.NegNet {
			ok = false
			continue
		}
		for _, n := range ru.Nets {
			out = append(out, n.Masked().String())
		}
	}
	sort.Strings(out)
	return out, ok
}

var (
	c42PolISDs = []uint64{1, 2}
	c42PolASes = []uint64{0xff00_0000_0110, 0xff00_0000_0111, 64512}
)

func c42GenIAM(rng *rand.Rand) c42IAM {
	m := c42IAM{Neg: rng.IntN(4) == 0, Upper: rng.IntN(6) == 0}
	if rng.IntN(3) != 0 {
		m.ISD = c42PolISDs[rng.IntN(len(c42PolISDs))]
	}
	if rng.IntN(3) != 0 {
		m.AS = c42PolASes[rng.IntN(len(c42PolASes))]
	}
	return m
}

func c42GenPolicyPrefix(rng *rand.Rand, existing []c42Prefix) c42Prefix {
	p := c42GenPrefix(rng, rng.IntN(4) == 0, existing)
	if rng.IntN(5) == 0 { // written with host bits set, e.g. 10.0.9.0/8 as in the manual
		q := c42Prefix{IP: append([]byte(nil), p.IP...), Bits: p.Bits}
		for i := p.Bits; i < 8*len(q.IP); i++ {
			if rng.IntN(2) == 0 {
				q.IP[i/8] |= 0x80 >> (i % 8)
			}
		}
		return q
	}
	return p
}

var c42Comments = []string{"", "", "Accept from AS 110.", "x", "has # hash", "tabs\tinside", "  leading blanks", "trailing  ", "ünïcode ✓", "accept 1-0 2-0 10.0.0.0/8"}

func c42GenPolicy(rng *rand.Rand) (*c42Policy, []c42Prefix) {
	pol := &c42Policy{Default: []string{"accept", "reject", "unknown"}[rng.IntN(3)]}
	var all []c42Prefix
	for n := rng.IntN(7); n > 0; n-- {
		ru := c42Rule{From: c42GenIAM(rng), To: c42GenIAM(rng), NegNet: rng.IntN(4) == 0}
		switch k := rng.IntN(10); {
		case k < 4:
			ru.Action = "accept"
		case k < 7:
			ru.Action = "reject"
		case k < 9:
			ru.Action = "advertise"
		default:
			ru.Action = "redistribute-bgp"
		}
		for k := 1 + rng.IntN(3); k > 0; k-- {
			p := c42GenPolicyPrefix(rng, all)
			ru.Nets = append(ru.Nets, p)
			all = append(all, p)
		}
		if ru.Action == "advertise" && rng.IntN(3) == 0 {
			ru.NextHop = []string{"10.0.0.1", "192.168.1.254", "2001:db8::1", "::1"}[rng.IntN(4)]
		}
		ru.Comment = c42Comments[rng.IntN(len(c42Comments))]
		pol.Rules = append(pol.Rules, ru)
	}
	return pol, all
}

func c42PolicyText(rng *rand.Rand, pol *c42Policy) string {
	var sb strings.Builder
	gap := func() string {
		if rng.IntN(4) == 0 {
			return "\t"
		}
		return strings.Repeat(" ", 1+rng.IntN(4))
	}
	for _, ru := range pol.Rules {
		if rng.IntN(6) == 0 {
			sb.WriteString(gap())
		}
		var nets []string
		for _, n := range ru.Nets {
			nets = append(nets, n.String())
		}
		neg := ""
		if ru.NegNet {
			neg = "!"
		}
		sb.WriteString(ru.Action + gap() + ru.From.String() + gap() + ru.To.String() + gap() + neg + strings.Join(nets, ","))
		if ru.NextHop != "" {
			sb.WriteString(gap() + ru.NextHop)
		}
		if ru.Comment != "" {
			sb.WriteString(gap() + "#" + []string{"", " "}[rng.IntN(2)] + ru.Comment)
		} else if rng.IntN(5) == 0 {
			sb.WriteString(gap())
		}
		sb.WriteString("\n")
	}
	return sb.String()
}

func c42Action(s string) routing.Action {
	switch s {
	case "accept":
		return routing.Accept
	case "reject":
		return routing.Reject
	case "advertise":
		return routing.Advertise
	case "redistribute-bgp":
		return routing.RedistributeBGP
	}
	return routing.UnknownAction
}

func c42NetipPrefix(p c42Prefix) netip.Prefix {
	var a netip.Addr
	if p.V6() {
		a = netip.AddrFrom16([16]byte(p.IP))
	} else {
		a = netip.AddrFrom4([4]byte(p.IP))
	}
	return netip.PrefixFrom(a, p.Bits)
}

func c42NetipAddr(b []byte) netip.Addr {
	if len(b) == 16 {
		return netip.AddrFrom16([16]byte(b))
	}
	return netip.AddrFrom4([4]byte(b))
}

func c42BuildPolicyStruct(pol *c42Policy) *routing.Policy {
	out := &routing.Policy{DefaultAction: c42Action(pol.Default)}
	iam := func(m c42IAM) routing.IAMatcher {
		s := routing.SingleIAMatcher{IA: addr.MustIAFrom(addr.ISD(m.ISD), addr.AS(m.AS))}
		if m.Neg {
			return routing.NegatedIAMatcher{IAMatcher: s}
		}
		return s
	}
	for _, ru := range pol.Rules {
		rr := routing.Rule{Action: c42Action(ru.Action), From: iam(ru.From), To: iam(ru.To), Comment: strings.TrimRight(ru.Comment, " ")}
		rr.Network.Negated = ru.NegNet
		for _, n := range ru.Nets {
			rr.Network.Allowed = append(rr.Network.Allowed, c42NetipPrefix(n))
		}
		if ru.NextHop != "" {
			rr.NextHop = net.ParseIP(ru.NextHop)
		}
		out.Rules = append(out.Rules, rr)
	}
	return out
}

type c42PolicyWitness struct {
	Text      string   `json:"policy_text"`
	Default   string   `json:"default_action"`
	Via       string   `json:"built_via"`
	Stage     string   `json:"stage"`
	Marshaled string   `json:"marshaled_text,omitempty"`
	From      string   `json:"from"`
	To        string   `json:"to"`
	Query     string   `json:"query_prefix,omitempty"`
	Addr      string   `json:"address,omitempty"`
	Got       any      `json:"got,omitempty"`
	Want      any      `json:"want,omitempty"`
	Set       string   `json:"returned_set,omitempty"`
	Err       string   `json:"error,omitempty"`
	Adv       []string `json:"advertised,omitempty"`
}

// c42ProbePoints: every address at which membership of a union/difference of
// the given prefixes can change (first, last and their outer neighbours), plus
// the edges of the ranges the implementation returned, plus random addresses.
func c42ProbePoints(rng *rand.Rand, prefixes []c42Prefix, query c42Prefix, set *routing.IPSet) [][]byte {
	var pts [][]byte
	add := func(a []byte) { pts = append(pts, a) }
	edges := func(first, last []byte) {
		add(first)
		add(last)
		if a, ok := c42Dec(first); ok {
			add(a)
		}
		if a, ok := c42Inc(last); ok {
			add(a)
		}
	}
	for _, p := range append(append([]c42Prefix(nil), prefixes...), query) {
		edges(p.First(), p.Last())
	}
	if set != nil {
		for _, rg := range set.Ranges() {
			edges(rg.From().AsSlice(), rg.To().AsSlice())
		}
	}
	// family edges
	edges(make([]byte, 4), bytes.Repeat([]byte{0xff}, 4))
	edges(make([]byte, 16), bytes.Repeat([]byte{0xff}, 16))
	for k := 0; k < 6; k++ {
		a := append([]byte(nil), query.IP...)
		for i := query.Bits; i < 8*len(a); i++ {
			if rng.IntN(2) == 0 {
				a[i/8] ^= 0x80 >> (i % 8)
			}
		}
		add(a)
		add(gwRandBytes(rng, len(query.IP)))
	}
	return pts
}

func c42IATriple(isd, as uint64) string { return fmt.Sprintf("%d-%s", isd, c42ASText(as, false)) }

func c42PolicyCase(r *mon.Run, rng *rand.Rand, caseNo int) {
	pol, all := c42GenPolicy(rng)
	large := false
	if caseNo%150 == 7 && len(pol.Rules) > 0 {
		// a rule with thousands of prefixes: lines of the serialized form exceed
		// 64 KiB (size boundary of line-oriented readers)
		large = true
		ru := &pol.Rules[rng.IntN(len(pol.Rules))]
		n := 2500 + rng.IntN(4000)
		seen := map[string]bool{}
		for _, p := range ru.Nets {
			seen[p.Masked().String()] = true
		}
		for len(ru.Nets) < n {
			var p c42Prefix
			if rng.IntN(2) == 0 {
				p = c42Prefix{IP: []byte{10, byte(rng.IntN(256)), byte(rng.IntN(256)), byte(rng.IntN(256))}, Bits: 24 + rng.IntN(9)}
			} else {
				ip := make([]byte, 16)
				ip[0], ip[1] = 0x20, 0x01
				for i := 2; i < 10; i++ {
					ip[i] = byte(rng.IntN(256))
				}
				p = c42Prefix{IP: ip, Bits: 48 + rng.IntN(33)}
			}
			p = p.Masked()
			if seen[p.String()] {
				continue
			}
			seen[p.String()] = true
			ru.Nets = append(ru.Nets, p)
			all = append(all, p)
		}
		r.Event("policy_large_rule")
	}
	text := c42PolicyText(rng, pol)
	via := "text"
	var impl *routing.Policy
	if rng.IntN(3) == 0 {
		via = "struct"
		impl = c42BuildPolicyStruct(pol)
	} else {
		impl = &routing.Policy{DefaultAction: c42Action(pol.Default)}
		if err := impl.UnmarshalText([]byte(text)); err != nil {
			if large {
				// an explicit refusal of an oversized line is not a wrong answer
				r.Class("policy/large-rule/unmarshal-refused")
				r.Event("policy_large_unmarshal_refused")
				return
			}
			r.Eval(1)
			r.Violation("C42:policy:rejects-valid", fmt.Sprintf("UnmarshalText refused a documented policy: %v", err),
				c42PolicyWitness{Text: text, Default: pol.Default, Via: via, Err: err.Error()})
			return
		}
	}
	base := c42PolicyWitness{Text: text, Default: pol.Default, Via: via}

	// serialize + re-parse (as Policy.Copy does: the default action is configuration, not text)
	stages := []struct {
		name string
		p    *routing.Policy
	}{{"original", impl}}
	raw, err := impl.MarshalText()
	if err != nil && large {
		// refusing to serialize an oversized policy is not a wrong round trip
		r.Class("policy/large-rule/marshal-refused")
		r.Event("policy_large_marshal_refused")
		return
	}
	if err != nil {
		r.Violation("C42:policy:marshal-error", fmt.Sprintf("MarshalText: %v", err), base)
		return
	}
	if large {
		r.Class("policy/large-rule/marshaled")
		base.Text = fmt.Sprintf("(policy with a rule of thousands of prefixes, %d bytes of text)", len(text))
	}
	base.Marshaled = string(raw)
	re := &routing.Policy{DefaultAction: impl.DefaultAction}
	if err := re.UnmarshalText(raw); err != nil {
		r.Eval(1)
		w := base
		w.Err = err.Error()
		r.Violation("C42:policy:marshaled-unparseable", fmt.Sprintf("UnmarshalText(MarshalText(p)): %v", err), w)
		return
	}
	stages = append(stages, struct {
		name string
		p    *routing.Policy
	}{"reparsed", re})
	if caseNo%4 == 0 {
		var cp *routing.Policy
		if p, stack := mon.Try(func() { cp = impl.Copy() }); p != nil {
			r.Violation("C42:panic:"+mon.PanicSite(stack), fmt.Sprintf("Policy.Copy panicked: %v", p), base)
			return
		}
		stages = append(stages, struct {
			name string
			p    *routing.Policy
		}{"copy", cp})
	}
	r.Event("policy_roundtrip")

	hasNegIA, hasNegNet := false, false
	for _, ru := range pol.Rules {
		hasNegIA = hasNegIA || ru.From.Neg || ru.To.Neg
		hasNegNet = hasNegNet || ru.NegNet
	}
	shape := fmt.Sprintf("rules=%d/negIA=%v/negNet=%v/default=%s/via=%s", min(len(pol.Rules), 4), hasNegIA, hasNegNet, pol.Default, via)

	for q := 0; q < 6; q++ {
		fi, fa := uint64(1+rng.IntN(3)), append(c42PolASes, 65000)[rng.IntN(4)]
		ti, ta := uint64(1+rng.IntN(3)), append(c42PolASes, 65000)[rng.IntN(4)]
		from, to := addr.MustIAFrom(addr.ISD(fi), addr.AS(fa)), addr.MustIAFrom(addr.ISD(ti), addr.AS(ta))
		var query c42Prefix
		if len(all) > 0 && rng.IntN(4) != 0 {
			query = all[rng.IntN(len(all))].Masked()
			if rng.IntN(2) == 0 && query.Bits > 0 { // a covering prefix
				query = c42Prefix{IP: query.IP, Bits: query.Bits - 1 - rng.IntN(min(query.Bits, 8))}.Masked()
			} else if rng.IntN(2) == 0 && query.Bits < 8*len(query.IP) { // a sub-prefix
				query = c42GenPrefix(rng, query.V6(), []c42Prefix{query})
			}
		} else {
			query = c42GenPrefix(rng, rng.IntN(4) == 0, nil)
		}
		w := base
		w.From, w.To, w.Query = c42IATriple(fi, fa), c42IATriple(ti, ta), query.String()
		wantAdv, advJudged := pol.Advertised(fi, fa, ti, ta)
		var firstAdv []string
		for si, st := range stages {
			w.Stage = st.name
			var set routing.IPSet
			var err error
			if p, stack := mon.Try(func() { set, err = st.p.Match(from, to, c42NetipPrefix(query)) }); p != nil {
				r.Violation("C42:panic:"+mon.PanicSite(stack), fmt.Sprintf("Policy.Match panicked: %v", p), w)
				return
			}
			if err != nil {
				w.Err = err.Error()
				r.Violation("C42:policy:match-error", fmt.Sprintf("Match: %v", err), w)
				return
			}
			w.Set = set.String()
			nAcc, nRej := 0, 0
			for _, a := range c42ProbePoints(rng, all, query, &set) {
				want := query.Contains(a) && pol.Accepts(fi, fa, ti, ta, a)
				got := set.Contains(c42NetipAddr(a))
				r.Eval(1)
				if want {
					nAcc++
				} else {
					nRej++
				}
				if got != want {
					w.Addr, w.Got, w.Want = gwIPString(a), got, want
					key := "C42:policy:match"
					if si > 0 {
						key = "C42:policy:roundtrip-changes-decision"
					}
					r.Violation(key, fmt.Sprintf("policy (%s, %s) from %s to %s, prefix %s: address %s accepted=%v, reference %v",
						via, st.name, w.From, w.To, w.Query, w.Addr, got, want), w)
					return
				}
			}
			if nAcc > 0 {
				r.Event("addr_accepted")
			}
			if nRej > 0 {
				r.Event("addr_rejected")
			}
			r.Class(fmt.Sprintf("policy/%s/stage=%s/acc=%v/rej=%v", shape, st.name, nAcc > 0, nRej > 0))
			if q == 0 && si == 0 && caseNo%500 == 11 && r.WantSample() {
				r.Sample(w)
			}
			// advertised prefixes
			var adv []netip.Prefix
			if p, stack := mon.Try(func() { adv, err = routing.AdvertiseList(st.p, from, to) }); p != nil || err != nil {
				r.Violation("C42:policy:advertise-error", fmt.Sprintf("AdvertiseList: panic=%v err=%v %s", p, err, stack), w)
				return
			}
			var advText []string
			for _, a := range adv {
				advText = append(advText, a.Masked().String())
			}
			sort.Strings(advText)
			r.Eval(1)
			if si == 0 {
				firstAdv = advText
				r.Class(fmt.Sprintf("advertise/n=%d/judged=%v", min(len(advText), 3), advJudged))
				if len(advText) > 0 {
					r.Event("advertised_nonempty")
				}
				if advJudged && !c42SameStrings(advText, c42CanonPrefixes(wantAdv)) {
					w.Adv, w.Want = advText, wantAdv
					r.Violation("C42:policy:advertise-list", fmt.Sprintf("AdvertiseList(%s -> %s) = %v, advertise rules say %v", w.From, w.To, advText, wantAdv), w)
					return
				}
			} else if !c42SameStrings(advText, firstAdv) {
				w.Adv, w.Want = advText, firstAdv
				r.Violation("C42:policy:roundtrip-changes-advertised", fmt.Sprintf("advertised prefixes %v before, %v after %s", firstAdv, advText, st.name), w)
				return
			}
		}
	}
}

// c42CanonPrefixes re-renders harness prefix texts through netip so that both
// sides use the same textual form.
func c42CanonPrefixes(in []string) []string {
	out := make([]string, len(in))
	for i, s := range in {
		out[i] = netip.MustParsePrefix(s).Masked().String()
	}
	sort.Strings(out)
	return out
}

func c42SameStrings(a, b []string) bool {
	if len(a) != len(b) {
		return false
	}
	for i := range a {
		if a[i] != b[i] {
			return false
		}
	}
	return true
}

// ---- replay ----

func c42Replay(r *mon.Run) bool {
	b, err := os.ReadFile(r.ReplayFile())
	if err != nil {
		return false
	}
	var rep struct {
		Witness c42PolicyWitness `json:"witness"`
	}
	if json.Unmarshal(b, &rep) != nil || rep.Witness.Addr == "" {
		fmt.Println("replay: only routing-policy witnesses (with an address) can be replayed; routing witnesses carry table, session state and packet bytes for manual reproduction")
		return false
	}
	w := rep.Witness
	p := &routing.Policy{DefaultAction: c42Action(w.Default)}
	if err := p.UnmarshalText([]byte(w.Text)); err != nil {
		fmt.Printf("replay: UnmarshalText: %v\n", err)
		return false
	}
	set, err := p.Match(addr.MustParseIA(w.From), addr.MustParseIA(w.To), netip.MustParsePrefix(w.Query))
	got := err == nil && set.Contains(netip.MustParseAddr(w.Addr))
	fmt.Printf("replay: Match(%s,%s,%s) contains %s = %v (err=%v); reference at the time: %v\n", w.From, w.To, w.Query, w.Addr, got, err, w.Want)
	r.Eval(1)
	r.Class("replay")
	r.Class("replay/got=" + fmt.Sprint(got))
	r.Sample(w)
	if want, ok := w.Want.(bool); ok && want != got {
		r.Violation("C42:replay", "replayed witness still differs from the reference", w)
	}
	return true
}

func checkC42(r *mon.Run) {
	r.Rule = "A: random routing tables (1-4 chains, distinct nested IPv4/IPv6 prefixes, 1-3 traffic classes each from the C43 expression " +
		"generator, sessions set / replaced / cleared between packets) x 30-60 harness-built packets per table (TCP/UDP/ICMP/header-only, " +
		"IPv4 options, DF, IPv4 fragments, destinations on and next to prefix edges, UDP on ports with a gopacket application decoder, " +
		"IP protocols unknown to gopacket) through IPForwarder.Run with a scripted Reader and recording sessions, judged by a " +
		"longest-prefix / first-true-class / session-state model; B: random routing policies (0-6 rules; accept/reject/advertise/" +
		"redistribute-bgp; ISD-AS wildcards and negation; prefix lists with negation, host bits, IPv4+IPv6; comments; next hops), built " +
		"from harness-printed text or through the API, Match() judged at every edge address of every prefix involved and of the returned " +
		"set plus random addresses against a first-match model; MarshalText->UnmarshalText and Copy() must preserve all decisions and " +
		"AdvertiseList; class = packet class x drop reason x nesting x class index, resp. policy shape x stage x outcomes"
	r.Assumptions = []string{
		"IPv6 destinations/prefixes inside ::ffff:0:0/96 are not generated (IPv4-mapped addresses have no stated family)",
		"traffic classes of chains that contain an IPv6 prefix use bool leaves only (IPv4 predicates on IPv6 packets have no stated meaning)",
		"a policy's default action is configuration, not part of the text format: it is carried across the round trip as Policy.Copy does",
		"AdvertiseList is judged absolutely only when no matching advertise rule has a negated prefix list; preservation is judged always",
		"byte strings that are not IP packets (garbage) are sent but never judged",
	}
	if r.ReplayFile() != "" && c42Replay(r) {
		return
	}
	rngA := r.Rand("c42-routing")
	nA := r.Pick(1500, 30000)
	for i := 0; i < nA; i++ {
		c42RoutingCase(r, rngA, i)
	}
	rngB := r.Rand("c42-policy")
	nB := r.Pick(4000, 80000)
	for i := 0; i < nB; i++ {
		c42PolicyCase(r, rngB, i)
	}
	r.Require(int64(nA)*20+int64(nB)*50, 150, "forwarder_run", "pkt_routed", "pkt_fragment", "pkt_no-prefix", "pkt_no-class", "pkt_no-session",
		"policy_roundtrip", "addr_accepted", "addr_rejected", "advertised_nonempty")
}
