package main

import (
	"fmt"
	"sync"

	"github.com/scionproto/scion/gateway/pktcls"

	"verif/mon"
)

// Concurrent phase of C43: the gateway evaluates the same parsed condition
// trees from several forwarder goroutines at once, each on its own packets.
// Eval must return the value of the expression for the packet it was given,
// whatever other evaluations run at the same time. Built with the race
// detector: shared scratch state inside Eval is reported as a data race, a
// value that belongs to another goroutine's packet by the oracle.
func c43ConcurrentPhase(r *mon.Run) {
	rng := r.Rand("c43-conc")
	nRounds := r.Pick(60, 1200)
	const workers = 8
	for round := 0; round < nRounds; round++ {
		// a handful of trees shared by all workers (parsed once, as the routing
		// table holds them), port predicates guaranteed in most of them
		type tree struct {
			cond *gwCond
			expr string
			impl pktcls.Cond
		}
		var trees []tree
		for len(trees) < 4 {
			cond := gwGenCond(rng, 1+rng.IntN(3))
			if len(trees) < 3 && !gwHasPortPred(cond) {
				continue
			}
			expr := (&gwPrinter{rng: rng}).Print(cond)
			impl, err := pktcls.BuildClassTree(expr)
			if err != nil {
				continue // judged by the sequential phase
			}
			trees = append(trees, tree{cond, expr, impl})
		}
		type job struct {
			t    int
			p    *gwPkt
			want bool
		}
		jobs := make([][]job, workers)
		for w := range jobs {
			for k := 0; k < 200; k++ {
				t := rng.IntN(len(trees))
				p := gwGenV4Packet(rng, trees[t].cond, true)
				if p.Fragment() && gwHasPortPred(trees[t].cond) {
					continue
				}
				jobs[w] = append(jobs[w], job{t, p, gwEval(trees[t].cond, p)})
			}
		}
		var wg sync.WaitGroup
		start := make(chan struct{})
		type bad struct {
			j   job
			got bool
			pan string
		}
		bads := make([][]bad, workers)
		for w := 0; w < workers; w++ {
			wg.Add(1)
			go func(w int) {
				defer wg.Done()
				<-start
				for _, j := range jobs[w] {
					l := c43Layer(j.p)
					if l == nil {
						continue
					}
					got, pn, stack := c43Eval(trees[j.t].impl, l)
					switch {
					case pn != nil:
						bads[w] = append(bads[w], bad{j: j, pan: fmt.Sprintf("%v\n%s", pn, stack)})
					case got != j.want:
						bads[w] = append(bads[w], bad{j: j, got: got})
					}
				}
			}(w)
		}
		close(start)
		wg.Wait()
		n := 0
		for w := range jobs {
			n += len(jobs[w])
		}
		r.Eval(n)
		r.EventN("concurrent_eval", int64(n))
		r.Class("concurrent/8-evaluators-on-shared-trees")
		for w := range bads {
			for _, b := range bads[w] {
				t := trees[b.j.t]
				wit := c43Witness{Expr: t.expr, Packet: b.j.p.Describe(), Raw: mon.Hex(b.j.p.Raw), Got: &b.got, Want: &b.j.want}
				if b.pan != "" {
					r.Violation("C43:panic:"+mon.PanicSite(b.pan), "Eval panicked under concurrent evaluation: "+b.pan, wit)
					continue
				}
				r.Violation("C43:concurrent-eval:"+gwKinds(t.cond), fmt.Sprintf("with 8 concurrent evaluators %q evaluates to %v on %s; the expression's value is %v",
					t.expr, b.got, b.j.p.Describe(), b.j.want), wit)
			}
		}
	}
}
