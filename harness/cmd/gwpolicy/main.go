// Command gwpolicy serves the gateway routing / routing-policy / traffic-class
// properties (C42, C43).
package main

import "verif/mon"

func main() {
	mon.Main(map[string]func(*mon.Run){
		"C42": checkC42,
		"C43": checkC43,
	})
}
