package main

import (
	"context"
	"fmt"
	"runtime"
	"sync"
	"time"
	"verif/monlog"

	"github.com/scionproto/scion/pkg/addr"
	"github.com/scionproto/scion/pkg/private/ctrl/path_mgmt"
	"github.com/scionproto/scion/pkg/segment/iface"
	"github.com/scionproto/scion/private/revcache"
	"github.com/scionproto/scion/private/revcache/memrevcache"

	"verif/mon"
)

// Concurrent phase of C31: several goroutines work on ONE memrevcache around a
// whole second E at which many of the inserted revocations expire (expiration
// = timestamp + TTL has 1 s granularity, so the operations are placed around
// the boundary instead of the boundary around the operations).
//
// Nothing that is decided depends on scheduling: every call is bracketed by
// two clock readings and a verdict is only given when the revocation's
// expiration lies clearly outside the bracket.

const (
	c31cGuard = time.Millisecond // clock granularity guard around every expiration
)

// c31cSpan is a clock reading: the offset from the round's base instant
// measured with the monotonic clock and with the wall clock (the cache
// compares wall-clock readings with the wall-clock expiration). Lo/Hi are the
// smaller/larger of the two; "surely after x" uses Lo, "surely before x" Hi,
// so that a verdict needs both clocks to agree.
type c31cSpan struct{ Lo, Hi time.Duration }

type c31cClock struct{ base time.Time }

func (c c31cClock) now() c31cSpan {
	t := time.Now()
	m := t.Sub(c.base)                   // monotonic
	w := t.Round(0).Sub(c.base.Round(0)) // wall
	if m < w {
		return c31cSpan{m, w}
	}
	return c31cSpan{w, m}
}

// off places a wall-clock instant (no monotonic reading) on the round's axis.
func (c c31cClock) off(x time.Time) time.Duration { return x.Sub(c.base.Round(0)) }

// c31cIns is one generated insertion and, after the run, what was observed.
type c31cIns struct {
	ID     int
	Owner  int // inserting goroutine; -1 = set-up (ballast)
	Key    int // index into the key table
	Tier   string
	ExpSec int    // expiration in seconds relative to E
	TTL    uint32 // timestamp = expiration - TTL
	OffUs  int    // not issued earlier than E+OffUs

	rev    *path_mgmt.RevInfo
	Exp    time.Duration // expiration on the round's axis
	T0, T1 c31cSpan
	Done   bool
	Got    bool
	Err    string
}

func (x *c31cIns) dur() time.Duration { return x.T1.Hi - x.T0.Lo }

type c31cCall struct {
	Kind    string // get | getall | delete-expired
	Who     int
	Key     int
	OffUs   int
	T0, T1  c31cSpan
	Ret     []int // ids of the returned revocations (get: at most one); ballast is only counted
	Ballast int
	Unknown []string
	Dups    int
	Removed int64
	Err     string
}

type c31cID struct {
	IA      addr.IA
	IfID    iface.ID
	TS, TTL uint32
}

type c31cCache struct {
	r          *mon.Run
	round, idx int
	E          time.Time
	clk        c31cClock
	keys       []revcache.Key
	nBallast   int // keys [0,nBallast) are ballast
	ins        []*c31cIns
	byID       map[c31cID]int
	byKey      map[int][]int // key -> insertion ids in issue order (one owner per key)
	owners     [][]int       // inserter -> its insertion ids in issue order
	readers    [][]c31cCall
	cleaners   [][]c31cCall
	cache      revcache.RevCache
	ctx        context.Context
	reported   map[string]bool
	nInserters int
}

type c31cWitness struct {
	Phase  string
	Round  int
	Cache  int
	E      time.Time
	Rev    any
	Call   any
	Stored any
	Note   string
}

func (c *c31cCache) showIns(x *c31cIns) any {
	if x == nil {
		return nil
	}
	return map[string]any{
		"id": x.ID, "key": c.keys[x.Key].String(), "tier": x.Tier, "ts": x.rev.RawTimestamp, "ttl": x.TTL,
		"expiration_rel_E_s": x.ExpSec, "expiration_us": x.Exp.Microseconds(), "inserter": x.Owner,
		"t0_us": []int64{x.T0.Lo.Microseconds(), x.T0.Hi.Microseconds()},
		"t1_us": []int64{x.T1.Lo.Microseconds(), x.T1.Hi.Microseconds()}, "accepted": x.Got, "err": x.Err,
	}
}

func (c *c31cCache) showCall(k *c31cCall) any {
	m := map[string]any{
		"op": k.Kind, "goroutine": k.Who, "returned_ids": k.Ret,
		"t0_us": []int64{k.T0.Lo.Microseconds(), k.T0.Hi.Microseconds()},
		"t1_us": []int64{k.T1.Lo.Microseconds(), k.T1.Hi.Microseconds()},
	}
	if k.Kind == "get" {
		m["key"] = c.keys[k.Key].String()
	}
	return m
}

func (c *c31cCache) violation(key, what string, rev *c31cIns, call *c31cCall, stored *c31cIns, note string) {
	if c.reported[key] {
		return
	}
	c.reported[key] = true
	w := c31cWitness{Phase: "concurrent", Round: c.round, Cache: c.idx, E: c.E, Rev: c.showIns(rev),
		Stored: c.showIns(stored), Note: note + " (times in microseconds from the round's base = E" +
			fmt.Sprintf("%+dus", -c.clk.off(c.E).Microseconds()) + "; [monotonic/wall min, max])"}
	if call != nil {
		w.Call = c.showCall(call)
	}
	c.r.Violation(key, what, w)
}

// c31cGen builds the static part of one cache's workload.
func c31cGen(r *mon.Run, round, idx int) *c31cCache {
	rng := r.Rand(fmt.Sprint("c31conc/", round, "/", idx))
	c := &c31cCache{r: r, round: round, idx: idx, byID: map[c31cID]int{}, byKey: map[int][]int{}, reported: map[string]bool{}}
	ia := addr.MustIAFrom(addr.ISD(1+rng.IntN(3)), addr.AS(0xff00_0000_0110+uint64(rng.IntN(3))))
	used := map[[3]int]bool{} // (key, ExpSec, TTL) must identify one insertion
	add := func(x *c31cIns) {
		for used[[3]int{x.Key, x.ExpSec, int(x.TTL)}] {
			x.TTL++ // same expiration, older issue time
		}
		used[[3]int{x.Key, x.ExpSec, int(x.TTL)}] = true
		x.ID = len(c.ins)
		c.ins = append(c.ins, x)
		c.byKey[x.Key] = append(c.byKey[x.Key], x.ID)
	}
	// ballast: comfortably live revocations that make GetAll/DeleteExpired hold the lock for a while
	c.nBallast = 150 + rng.IntN(250)
	for j := 0; j < c.nBallast; j++ {
		c.keys = append(c.keys, revcache.Key{IA: ia + addr.IA(j%3), IfID: iface.ID(100000 + j)})
		add(&c31cIns{Owner: -1, Key: j, Tier: "ballast", ExpSec: 600 + rng.IntN(3000), TTL: uint32(3600 + rng.IntN(100))})
	}
	c.nInserters = 5 + rng.IntN(3)
	// not-earlier-than schedule: a fifth of a goroutine's operations is spread over the tens of
	// milliseconds before E, three fifths are packed into the few milliseconds around E, the rest
	// follows; a goroutine that is behind its schedule (lock contention, race detector, loaded
	// machine) issues its operations back to back
	earlyUs := 30000 + rng.IntN(20000)
	leadUs := 4000 + rng.IntN(3000)
	tailUs := 2000 + rng.IntN(1500)
	lateUs := 10000 + rng.IntN(10000)
	sched := func(i, n int) int {
		a, b := n/5, n-n/5
		switch {
		case i < a:
			return -earlyUs + i*(earlyUs-leadUs)/a + rng.IntN(30)
		case i < b:
			return -leadUs + (i-a)*(leadUs+tailUs)/(b-a) + rng.IntN(30)
		default:
			return tailUs + (i-b)*lateUs/(n-b) + rng.IntN(30)
		}
	}
	ttls := []uint32{0, 1, 2, 3, 5, 10, 11, 30, 60, 3600}
	for g := 0; g < c.nInserters; g++ {
		n := r.Pick(110, 160) + rng.IntN(40)
		var own []int // key indices
		var ids []int
		for i := 0; i < n; i++ {
			x := &c31cIns{Owner: g, OffUs: sched(i, n)}
			switch p := rng.IntN(20); {
			case p < 11:
				x.Tier, x.ExpSec = "window", 0
			case p < 14:
				x.Tier, x.ExpSec = "expired", -[]int{1, 1, 2, 5, 60, 3600}[rng.IntN(6)]
			default:
				x.Tier, x.ExpSec = "live", []int{2, 3, 5, 10, 60, 3600}[rng.IntN(6)]
			}
			x.TTL = ttls[rng.IntN(len(ttls))]
			if len(own) == 0 || rng.IntN(2) == 0 {
				c.keys = append(c.keys, revcache.Key{IA: ia + addr.IA(rng.IntN(2)), IfID: iface.ID((g+1)*1000 + len(own))})
				own = append(own, len(c.keys)-1)
				x.Key = len(c.keys) - 1
			} else {
				x.Key = own[rng.IntN(len(own))]
			}
			add(x)
			ids = append(ids, x.ID)
		}
		c.owners = append(c.owners, ids)
	}
	nDyn := len(c.keys) - c.nBallast
	for g, n := 0, 2+rng.IntN(2); g < n; g++ { // readers
		n := r.Pick(150, 220) + rng.IntN(40)
		var calls []c31cCall
		for i := 0; i < n; i++ {
			k := c31cCall{Kind: "get", Who: g, OffUs: sched(i, n) - 200}
			switch p := rng.IntN(16); {
			case p == 0:
				k.Kind = "getall"
			case p == 1:
				k.Key = rng.IntN(c.nBallast)
			default:
				k.Key = c.nBallast + rng.IntN(nDyn)
			}
			calls = append(calls, k)
		}
		c.readers = append(c.readers, calls)
	}
	for g, n := 0, 2+rng.IntN(2); g < n; g++ { // cleaners
		n := r.Pick(60, 90) + rng.IntN(20)
		var calls []c31cCall
		for i := 0; i < n; i++ {
			calls = append(calls, c31cCall{Kind: "delete-expired", Who: g, OffUs: sched(i, n) - 200})
		}
		c.cleaners = append(c.cleaners, calls)
	}
	return c
}

// bind fixes the absolute times once the round's second E is known.
func (c *c31cCache) bind(E, base time.Time) {
	c.E, c.clk = E, c31cClock{base: base}
	c.ctx = monlog.Alternate()
	c.cache = memrevcache.New()
	for _, x := range c.ins {
		k := c.keys[x.Key]
		x.rev = &path_mgmt.RevInfo{IfID: k.IfID, RawIsdas: k.IA,
			RawTimestamp: uint32(E.Unix() + int64(x.ExpSec) - int64(x.TTL)), RawTTL: x.TTL}
		x.Exp = c.clk.off(E.Add(time.Duration(x.ExpSec) * time.Second))
		c.byID[c31cID{k.IA, k.IfID, x.rev.RawTimestamp, x.TTL}] = x.ID
	}
}

func (c *c31cCache) waitUntil(offUs int) {
	target := c.clk.off(c.E) + time.Duration(offUs)*time.Microsecond
	for {
		d := target - c.clk.now().Hi
		if d <= 0 {
			return
		}
		if d > 300*time.Microsecond {
			time.Sleep(d - 200*time.Microsecond)
		} else {
			runtime.Gosched()
		}
	}
}

func (c *c31cCache) doInsert(x *c31cIns) {
	x.T0 = c.clk.now()
	got, err := c.cache.Insert(c.ctx, x.rev)
	x.T1 = c.clk.now()
	x.Got, x.Done = got, true
	if err != nil {
		x.Err = err.Error()
	}
}

func (c *c31cCache) identify(k *c31cCall, rev *path_mgmt.RevInfo, seen map[int]bool) {
	if rev == nil {
		return
	}
	id, ok := c.byID[c31cID{rev.RawIsdas, rev.IfID, rev.RawTimestamp, rev.RawTTL}]
	switch {
	case !ok:
		if len(k.Unknown) < 4 {
			k.Unknown = append(k.Unknown, c31Show(rev))
		}
	case seen != nil && seen[c.ins[id].Key]:
		k.Dups++
	case c.ins[id].Owner < 0 && k.Kind == "getall":
		seen[c.ins[id].Key] = true
		k.Ballast++
	default:
		if seen != nil {
			seen[c.ins[id].Key] = true
		}
		k.Ret = append(k.Ret, id)
	}
}

func (c *c31cCache) doCall(k *c31cCall) {
	switch k.Kind {
	case "get":
		k.T0 = c.clk.now()
		rev, err := c.cache.Get(c.ctx, c.keys[k.Key])
		k.T1 = c.clk.now()
		if err != nil {
			k.Err = err.Error()
		}
		c.identify(k, rev, nil)
	case "getall":
		k.T0 = c.clk.now()
		ch, err := c.cache.GetAll(c.ctx)
		var revs []*path_mgmt.RevInfo
		if err == nil && ch != nil {
			for x := range ch {
				if x.Err != nil {
					err = x.Err
					continue
				}
				revs = append(revs, x.Rev)
			}
		}
		k.T1 = c.clk.now()
		if err != nil {
			k.Err = err.Error()
		}
		seen := make(map[int]bool, len(revs))
		for _, rev := range revs {
			c.identify(k, rev, seen)
		}
	case "delete-expired":
		k.T0 = c.clk.now()
		n, err := c.cache.DeleteExpired(c.ctx)
		k.T1 = c.clk.now()
		k.Removed = n
		if err != nil {
			k.Err = err.Error()
		}
	}
}

// run executes the workload: ballast first (sequentially), then all goroutines at once.
func (c *c31cCache) run() {
	for _, x := range c.ins[:c.nBallast] {
		c.doInsert(x)
	}
	var wg sync.WaitGroup
	for g := range c.owners {
		wg.Add(1)
		go func(ids []int) {
			defer wg.Done()
			for _, id := range ids {
				c.waitUntil(c.ins[id].OffUs)
				c.doInsert(c.ins[id])
			}
		}(c.owners[g])
	}
	for _, calls := range append(append([][]c31cCall{}, c.readers...), c.cleaners...) {
		wg.Add(1)
		go func(calls []c31cCall) {
			defer wg.Done()
			for i := range calls {
				c.waitUntil(calls[i].OffUs)
				c.doCall(&calls[i])
			}
		}(calls)
	}
	wg.Wait()
}

// surelyGone: at the instant t the revocation is expired and, given that the
// cache arms its own timer inside the Insert call that stored it, no longer
// retrievable. surelyLive: not yet expired at t.
func (x *c31cIns) surelyGone(t c31cSpan) bool { return t.Lo > x.Exp+c31cGuard+x.dur() }
func (x *c31cIns) surelyLive(t c31cSpan) bool { return t.Hi < x.Exp-c31cGuard }

// judgeInserts replays every key's insertions (one goroutine per key, hence a
// sequence) against "accepted iff unexpired and newer than the live stored one".
func (c *c31cCache) judgeInserts() {
	r := c.r
	cur := map[int]*c31cIns{}
	var evals, acc, rej int64
	order := append([][]int{nil}, c.owners...)
	for j := 0; j < c.nBallast; j++ {
		order[0] = append(order[0], j)
	}
	for _, ids := range order {
		for _, id := range ids {
			x := c.ins[id]
			if !x.Done {
				continue
			}
			if x.Err != "" {
				c.violation("C31:concurrent:insert-error", "Insert returned error "+x.Err, x, nil, nil, "")
				continue
			}
			st := cur[x.Key]
			if x.Got {
				cur[x.Key] = x
			}
			if x.Tier != "ballast" && x.T0.Hi < x.Exp && x.T1.Lo > x.Exp {
				// the call was in progress at the expiration instant: either answer is right
				r.Class("concurrent/insert-across-expiry-window")
				r.Class(fmt.Sprintf("concurrent/insert-across-expiry-window/accepted=%v", x.Got))
				r.Event("concurrent/insert-across-expiry-window")
			}
			want, situation := "", "empty"
			switch {
			case x.T0.Lo > x.Exp+c31cGuard:
				want, situation = "reject", "any"
			case !x.surelyLive(x.T1):
				r.Inconclusive("concurrent/time-bracket")
				continue
			case st == nil:
				want = "accept"
			case st.surelyLive(x.T1):
				rel := "older"
				want = "reject"
				if x.rev.RawTimestamp > st.rev.RawTimestamp {
					rel, want = "newer", "accept"
				} else if x.rev.RawTimestamp == st.rev.RawTimestamp {
					rel = "equal"
				}
				situation = "stored-live/new-is-" + rel
			case st.surelyGone(x.T0):
				situation = "stored-expired"
				want = "accept"
			default:
				r.Inconclusive("concurrent/time-bracket")
				continue
			}
			evals++
			fresh := "fresh"
			if want == "reject" && situation == "any" {
				fresh = "expired"
			}
			r.Class(fmt.Sprintf("concurrent/insert/%s/%s/%s/accepted=%v", x.Tier, situation, fresh, want == "accept"))
			switch {
			case x.Got && fresh == "expired":
				c.violation("C31:concurrent:expired-accepted",
					fmt.Sprintf("Insert accepted %s, which had expired %v before the call began", c31Show(x.rev), x.T0.Lo-x.Exp),
					x, nil, nil, "")
			case x.Got && want == "reject":
				c.violation("C31:concurrent:insert-accepted-not-newer/"+situation,
					fmt.Sprintf("Insert accepted %s although the live stored revocation %s is not older", c31Show(x.rev), c31Show(st.rev)),
					x, nil, st, "the key is written by one goroutine only")
			case !x.Got && want == "accept":
				what := fmt.Sprintf("Insert rejected the unexpired revocation %s (situation %s)", c31Show(x.rev), situation)
				if st != nil {
					what += fmt.Sprintf("; previously accepted for this interface: %s", c31Show(st.rev))
				}
				c.violation("C31:concurrent:insert-rejected/"+situation, what, x, nil, st, "the key is written by one goroutine only")
			}
			if x.Got {
				acc++
			} else {
				rej++
			}
		}
	}
	r.Eval(int(evals))
	r.EventN("concurrent_insert", evals)
	r.EventN("concurrent_insert_accepted", acc)
	r.EventN("concurrent_insert_rejected", rej)
}

// floor returns the accepted revocation X of the key with the largest issue
// time such that (1) its Insert had returned before the lookup began and (2)
// X and every accepted revocation of the key that could be stored during the
// lookup and is not older than X is unexpired throughout the lookup. Then the
// lookup must return a revocation that is not older than X: a live stored
// revocation is only ever replaced by a newer one.
func (c *c31cCache) floor(k *c31cCall) *c31cIns {
	var best *c31cIns
	ids := c.byKey[k.Key]
	for _, id := range ids {
		x := c.ins[id]
		if !x.Done || !x.Got || x.T1.Hi >= k.T0.Lo || !x.surelyLive(k.T1) {
			continue
		}
		ok := true
		for _, jd := range ids {
			y := c.ins[jd]
			if y == x || !y.Done || !y.Got || y.T0.Lo > k.T1.Hi || y.rev.RawTimestamp < x.rev.RawTimestamp {
				continue
			}
			ok = ok && y.surelyLive(k.T1)
		}
		if ok && (best == nil || x.rev.RawTimestamp > best.rev.RawTimestamp) {
			best = x
		}
	}
	return best
}

// judgeCall judges one lookup. stage: "" during the concurrent part, "final"
// for the sweep after the join, "cleanup" for the sweep after DeleteExpired.
func (c *c31cCache) judgeCall(k *c31cCall, stage string) {
	r := c.r
	via := k.Kind
	if k.Err != "" || k.Dups > 0 {
		c.violation("C31:concurrent:"+via+"-error", fmt.Sprintf("%s: err=%q duplicates=%d", via, k.Err, k.Dups), nil, k, nil, "")
		return
	}
	if len(k.Unknown) > 0 {
		c.violation("C31:concurrent:returned-never-inserted",
			fmt.Sprintf("%s returned %v, which was never inserted", via, k.Unknown), nil, k, nil, "")
		return
	}
	pre := "concurrent/"
	if stage != "" {
		pre = "concurrent/final-sweep/" + stage + "/"
	}
	judged := false
	for _, id := range k.Ret {
		x := c.ins[id]
		switch {
		case !x.Done || x.T0.Lo > k.T1.Hi:
			c.violation("C31:concurrent:returned-never-inserted",
				fmt.Sprintf("%s returned %s before its insertion began", via, c31Show(x.rev)), x, k, nil, "")
		case !x.Got:
			c.violation("C31:concurrent:returned-rejected",
				fmt.Sprintf("%s returned %s although its (only) insertion was rejected", via, c31Show(x.rev)), x, k, nil, "")
		case x.surelyGone(k.T0):
			key := "C31:concurrent:expired-returned-by-" + via
			if stage == "cleanup" {
				key = "C31:concurrent:expired-survives-cleanup"
			}
			c.violation(key, fmt.Sprintf("%s%s returned %s, which had expired %v before the call began (its Insert took %v)",
				map[string]string{"": "", "final": "after all goroutines were joined, ", "cleanup": "after the final DeleteExpired, "}[stage],
				via, c31Show(x.rev), k.T0.Lo-x.Exp, x.dur()), x, k, nil, "")
			judged = true
		case x.surelyLive(k.T1):
			judged = true
			r.Class(pre + via + "/returned-live/" + x.Tier)
		default:
			r.Inconclusive("concurrent/time-bracket")
		}
	}
	if k.Kind == "get" {
		fl := c.floor(k)
		switch {
		case fl != nil && len(k.Ret) == 0:
			c.violation("C31:concurrent:live-lost",
				fmt.Sprintf("get returned nothing although %s had been accepted before the call and is unexpired", c31Show(fl.rev)), fl, k, nil, "")
			judged = true
		case fl != nil && c.ins[k.Ret[0]].rev.RawTimestamp < fl.rev.RawTimestamp:
			c.violation("C31:concurrent:older-returned",
				fmt.Sprintf("get returned %s although the newer %s had been accepted before the call and is unexpired",
					c31Show(c.ins[k.Ret[0]].rev), c31Show(fl.rev)), fl, k, c.ins[k.Ret[0]], "")
			judged = true
		case len(k.Ret) == 0:
			// nothing returned: right iff every revocation that may be stored is expired; decidable when all are surely gone
			all, any := true, false
			for _, id := range c.byKey[k.Key] {
				x := c.ins[id]
				if x.Done && x.Got && x.T0.Lo <= k.T1.Hi {
					any = true
					all = all && x.surelyGone(k.T0)
				}
			}
			if all {
				judged = true
				if any {
					r.Class(pre + "get/nil/all-accepted-expired")
				} else {
					r.Class(pre + "get/nil/none-accepted")
				}
			}
		}
	}
	if judged || (k.Kind == "getall" && len(k.Ret) == 0 && k.Ballast > 0) {
		r.Eval(1)
		r.Event("concurrent_" + via)
	}
}

// finalSweep: after the join and after the latest nearby expiration, no
// expired revocation may come out of the cache, before or after a clean-up.
func (c *c31cCache) finalSweep() {
	r := c.r
	// bounded wait until every window/expired revocation is surely gone
	var need time.Duration
	for _, x := range c.ins[c.nBallast:] {
		if x.ExpSec <= 0 && x.Done && x.Got {
			need = max(need, x.Exp+c31cGuard+x.dur())
		}
	}
	need = min(need, c.clk.off(c.E)+1500*time.Millisecond)
	for c.clk.now().Lo <= need {
		time.Sleep(200 * time.Microsecond)
	}
	sweep := func(stage string) {
		for key := c.nBallast - 3; key < len(c.keys); key++ {
			k := c31cCall{Kind: "get", Who: -1, Key: key}
			c.doCall(&k)
			c.judgeCall(&k, stage)
		}
		k := c31cCall{Kind: "getall", Who: -1}
		c.doCall(&k)
		c.judgeCall(&k, stage)
		nAcc := 0
		for _, x := range c.ins[:c.nBallast] {
			if x.Done && x.Got {
				nAcc++
			}
		}
		if k.Ballast != nAcc {
			c.violation("C31:concurrent:live-lost", fmt.Sprintf("getall returned %d of the %d comfortably live revocations accepted before the concurrent part",
				k.Ballast, nAcc), nil, &k, nil, "")
		}
	}
	sweep("final")
	d := c31cCall{Kind: "delete-expired", Who: -1}
	c.doCall(&d)
	if d.Err != "" {
		c.violation("C31:concurrent:delete-expired-error", "DeleteExpired: "+d.Err, nil, &d, nil, "")
	}
	sweep("cleanup")
	r.Event("concurrent/final-sweep")
	r.Class("concurrent/final-sweep")
}

func (c *c31cCache) judge() {
	r := c.r
	c.judgeInserts()
	for _, calls := range c.readers {
		for i := range calls {
			c.judgeCall(&calls[i], "")
		}
	}
	var nDel int64
	for _, calls := range c.cleaners {
		for i := range calls {
			k := &calls[i]
			if k.Err != "" {
				c.violation("C31:concurrent:delete-expired-error", "DeleteExpired: "+k.Err, nil, k, nil, "")
			}
			nDel++
			if k.Removed > 0 {
				r.Class("concurrent/delete-expired/removed>0") // the count is not judged
			} else {
				r.Class("concurrent/delete-expired/removed=0")
			}
		}
	}
	r.EventN("concurrent_delete_expired", nDel)
	c.finalSweep()
	if r.WantSample() && c.idx == 0 {
		var s []any
		for _, id := range c.owners[0] {
			if x := c.ins[id]; x.Tier == "window" && len(s) < 6 {
				s = append(s, c.showIns(x))
			}
		}
		r.Sample(c31cWitness{Phase: "concurrent", Round: c.round, Cache: c.idx, E: c.E, Rev: s, Note: "sample: first window insertions of inserter 0"})
	}
}

// c31Concurrent runs the concurrent phase: per round one whole second E and a
// few caches, each hammered by its own set of goroutines around E.
func c31Concurrent(r *mon.Run) {
	rounds, caches := r.Pick(4, 14), r.Pick(3, 4)
	for round := 0; round < rounds; round++ {
		var cs []*c31cCache
		for i := 0; i < caches; i++ {
			cs = append(cs, c31cGen(r, round, i))
		}
		base := time.Now()
		E := base.Truncate(time.Second).Add(time.Second)
		if E.Sub(base) < 350*time.Millisecond { // room for the set-up
			E = E.Add(time.Second)
		}
		var wg sync.WaitGroup
		for _, c := range cs {
			c.bind(E, base)
			wg.Add(1)
			go func(c *c31cCache) {
				defer wg.Done()
				c.run()
			}(c)
		}
		wg.Wait()
		for _, c := range cs {
			c.judge()
		}
	}
}

// c31cMinEvals: the fewest judged concurrent cases a run may have (about
// 2000-3000 per cache are observed).
func c31cMinEvals(r *mon.Run) int { return r.Pick(4, 14) * r.Pick(3, 4) * 800 }

var c31cRequired = []string{
	"concurrent/insert-across-expiry-window",
	"concurrent/final-sweep",
	"concurrent/insert/window/empty/fresh/accepted=true",
	"concurrent/insert/window/any/expired/accepted=false",
	"concurrent/insert/expired/any/expired/accepted=false",
	"concurrent/insert/live/empty/fresh/accepted=true",
	"concurrent/insert/live/stored-live/new-is-newer/fresh/accepted=true",
	"concurrent/insert/live/stored-live/new-is-older/fresh/accepted=false",
	"concurrent/get/returned-live/live",
	"concurrent/get/nil/all-accepted-expired",
	"concurrent/final-sweep/final/get/nil/all-accepted-expired",
	"concurrent/final-sweep/cleanup/get/nil/all-accepted-expired",
	"concurrent/final-sweep/cleanup/get/returned-live/live",
}
