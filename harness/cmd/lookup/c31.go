package main

import (
	"encoding/json"
	"fmt"
	"os"
	"sort"
	"sync"
	"time"
	"verif/monlog"

	"github.com/scionproto/scion/pkg/addr"
	"github.com/scionproto/scion/pkg/private/ctrl/path_mgmt"
	"github.com/scionproto/scion/pkg/segment/iface"
	"github.com/scionproto/scion/private/revcache"
	"github.com/scionproto/scion/private/revcache/memrevcache"

	ref "verif/lookupref"
	"verif/mon"
)

// c31Op is one operation of a generated history. Times are logical: second
// Sec of the history plus Ms milliseconds; revocation times are whole seconds
// relative to the history's base second.
type c31Op struct {
	Kind string // insert | get | getall | delete-expired
	Sec  int
	Ms   int
	Key  int
	TS   int // issue time, seconds relative to base (may be negative or in the future)
	TTL  uint32
}

type c31Obs struct {
	Op       c31Op
	T0, T1   time.Duration // relative to base
	Got      string
	Expected string
}

type c31Witness struct {
	Cache   int
	Keys    []string
	Base    time.Time
	History []c31Obs
	Note    string
}

func c31GenHistory(r *mon.Run, idx int) (keys []revcache.Key, ops []c31Op) {
	rng := r.Rand(fmt.Sprint("c31/", idx))
	T := r.Pick(6, 9) + rng.IntN(3)
	nKeys := 1 + rng.IntN(3)
	ia := addr.MustIAFrom(addr.ISD(1+rng.IntN(3)), addr.AS(0xff00_0000_0110+uint64(rng.IntN(3))))
	for k := 0; k < nKeys; k++ {
		key := revcache.Key{IA: ia, IfID: iface.ID(1 + rng.IntN(4))}
		if k > 0 && rng.IntN(2) == 0 { // same interface number in another AS
			key = revcache.Key{IA: ia + 1, IfID: keys[0].IfID}
		}
		for dup := true; dup; {
			dup = false
			for _, o := range keys {
				dup = dup || o == key
			}
			if dup {
				key.IfID += 10
			}
		}
		keys = append(keys, key)
	}
	lo, span := 250, 500
	if r.Thorough() && rng.IntN(2) == 0 {
		lo, span = 15, 970
	}
	nOps := 14 + rng.IntN(r.Pick(18, 30))
	lastTS := map[int]int{}
	for i := 0; i < nOps; i++ {
		op := c31Op{Sec: rng.IntN(T), Ms: lo + rng.IntN(span), Key: rng.IntN(nKeys)}
		switch x := rng.IntN(20); {
		case x < 9:
			op.Kind = "insert"
		case x < 16:
			op.Kind = "get"
		case x < 18:
			op.Kind = "getall"
		default:
			op.Kind = "delete-expired"
		}
		ops = append(ops, op)
	}
	sort.SliceStable(ops, func(i, j int) bool {
		if ops[i].Sec != ops[j].Sec {
			return ops[i].Sec < ops[j].Sec
		}
		return ops[i].Ms < ops[j].Ms
	})
	for i := range ops {
		op := &ops[i]
		if op.Kind != "insert" {
			continue
		}
		// expiry second relative to base: mostly inside the rest of the history
		var e int
		switch rng.IntN(10) {
		case 0:
			e = op.Sec - rng.IntN(4) // already expired (e <= op second)
		case 1:
			e = op.Sec + 1000 + rng.IntN(5000)
		default:
			e = op.Sec + 1 + rng.IntN(4)
		}
		prev, has := lastTS[op.Key]
		switch x := rng.IntN(10); {
		case has && x < 2:
			op.TS = prev // equal issue time
		case has && x < 4:
			op.TS = prev - 1 - rng.IntN(3) // older
		case has && x < 7:
			op.TS = prev + 1 + rng.IntN(3) // newer
		default:
			ttl := []int{0, 1, 2, 3, 5, 10, 11, 30, 60, 3600}[rng.IntN(10)]
			op.TS = e - ttl
		}
		if op.TS > e { // a lifetime cannot be negative
			op.TS = e - rng.IntN(3)
		}
		op.TTL = uint32(e - op.TS)
		lastTS[op.Key] = op.TS
	}
	return keys, ops
}

func c31Show(r *path_mgmt.RevInfo) string {
	if r == nil {
		return "nil"
	}
	return fmt.Sprintf("%s#%d ts=%d ttl=%d", r.RawIsdas, r.IfID, r.RawTimestamp, r.RawTTL)
}

func c31ShowRef(keys []revcache.Key, v ref.Rev, base int64) string {
	return fmt.Sprintf("ts=base%+d ttl=%d", int64(v.TS)-base, v.TTL)
}

func c31Same(got *path_mgmt.RevInfo, want ref.Rev) bool {
	return got != nil && uint64(got.RawIsdas) == want.Key.IA && uint64(got.IfID) == want.Key.IfID &&
		got.RawTimestamp == want.TS && got.RawTTL == want.TTL
}

func c31Run(r *mon.Run, idx int, base time.Time) {
	keys, ops := c31GenHistory(r, idx)
	cache := memrevcache.New()
	model := ref.NewRevCacheRef()
	ctx := monlog.Alternate() // log level is a configuration dimension
	baseS := base.Unix()
	rk := func(k revcache.Key) ref.RevKey { return ref.RevKey{IA: uint64(k.IA), IfID: uint64(k.IfID)} }
	var hist []c31Obs
	wit := func(note string) c31Witness {
		w := c31Witness{Cache: idx, Base: base, History: hist, Note: note}
		for _, k := range keys {
			w.Keys = append(w.Keys, k.String())
		}
		return w
	}
	everAccepted := map[int]bool{}
	deleted := false
	for i, op := range ops {
		target := base.Add(time.Duration(op.Sec)*time.Second + time.Duration(op.Ms)*time.Millisecond)
		if d := time.Until(target); d > 0 {
			time.Sleep(d)
		}
		key := keys[op.Key]
		obs := c31Obs{Op: op}
		switch op.Kind {
		case "insert":
			rev := &path_mgmt.RevInfo{IfID: key.IfID, RawIsdas: key.IA,
				RawTimestamp: uint32(baseS + int64(op.TS)), RawTTL: op.TTL}
			mrev := ref.Rev{Key: rk(key), TS: rev.RawTimestamp, TTL: rev.RawTTL, ID: i}
			t0 := time.Now()
			got, err := cache.Insert(ctx, rev)
			t1 := time.Now()
			cur, live := model.Live(mrev.Key, t0, t1)
			situation := "empty"
			if _, ok := model.Has(mrev.Key); ok {
				rel := "older"
				if mrev.TS > cur.TS {
					rel = "newer"
				} else if mrev.TS == cur.TS {
					rel = "equal"
				}
				situation = fmt.Sprintf("stored-%s/new-is-%s", map[ref.Tri]string{ref.Yes: "live", ref.No: "expired", ref.Unknown: "unknown"}[live], rel)
			}
			fresh := "fresh"
			if !mrev.Expiry().After(t1) {
				fresh = "expired"
			}
			want := model.Insert(mrev, t0, t1)
			obs.T0, obs.T1, obs.Got, obs.Expected = t0.Sub(base), t1.Sub(base), fmt.Sprint(got, err), want.String()
			hist = append(hist, obs)
			if want == ref.Unknown {
				r.Inconclusive("time-bracket")
				r.Inconclusive("history-abandoned")
				return
			}
			r.Eval(1)
			r.Event("insert")
			r.Class(fmt.Sprintf("insert/%s/%s/accepted=%v", situation, fresh, want == ref.Yes))
			if err != nil {
				r.Violation("C31:insert-error", fmt.Sprintf("Insert returned error %v", err), wit(""))
				return
			}
			switch {
			case got && want == ref.No && fresh == "expired":
				r.Violation("C31:insert-accepted-expired", fmt.Sprintf("Insert accepted an expired revocation (%s)", c31Show(rev)), wit(""))
				return
			case got && want == ref.No:
				r.Violation("C31:insert-accepted-not-newer/"+situation,
					fmt.Sprintf("Insert accepted %s although the live stored revocation (%s) is not older", c31Show(rev), c31ShowRef(keys, cur, baseS)), wit(""))
				return
			case !got && want == ref.Yes:
				r.Violation("C31:insert-rejected/"+situation,
					fmt.Sprintf("Insert rejected the unexpired revocation %s (situation %s)", c31Show(rev), situation), wit(""))
				return
			}
			if got {
				r.Event("insert_accepted")
				everAccepted[op.Key] = true
			} else {
				r.Event("insert_rejected")
			}
		case "get":
			t0 := time.Now()
			got, err := cache.Get(ctx, key)
			t1 := time.Now()
			cur, live := model.Live(rk(key), t0, t1)
			obs.T0, obs.T1, obs.Got = t0.Sub(base), t1.Sub(base), c31Show(got)
			obs.Expected = "nil"
			if live == ref.Yes {
				obs.Expected = c31ShowRef(keys, cur, baseS)
			} else if live == ref.Unknown {
				obs.Expected = "unknown"
			}
			hist = append(hist, obs)
			if live == ref.Unknown {
				r.Inconclusive("time-bracket")
				continue
			}
			r.Eval(1)
			r.Event("get")
			state := "never-inserted"
			if everAccepted[op.Key] {
				state = "live"
				if live == ref.No {
					state = "expired"
				}
			}
			r.Class(fmt.Sprintf("get/%s/after-delete=%v", state, deleted))
			if !c31JudgeGet(r, "get", got, err, cur, live, wit) {
				return
			}
		case "getall":
			t0 := time.Now()
			ch, err := cache.GetAll(ctx)
			got := map[revcache.Key]*path_mgmt.RevInfo{}
			dups := 0
			if err == nil && ch != nil {
				for x := range ch {
					if x.Err != nil {
						err = x.Err
						continue
					}
					k := revcache.Key{IA: x.Rev.RawIsdas, IfID: x.Rev.IfID}
					if _, d := got[k]; d {
						dups++
					}
					got[k] = x.Rev
				}
			}
			t1 := time.Now()
			obs.T0, obs.T1, obs.Got = t0.Sub(base), t1.Sub(base), fmt.Sprint(len(got), " revocations")
			hist = append(hist, obs)
			if err != nil || dups > 0 {
				r.Violation("C31:getall-error", fmt.Sprintf("GetAll: err=%v duplicates=%d", err, dups), wit(""))
				return
			}
			unknown := false
			nLive := 0
			for _, k := range keys {
				cur, live := model.Live(rk(k), t0, t1)
				if live == ref.Unknown {
					unknown = true
					delete(got, k) // present or absent, both are right: it is not an unknown revocation
					continue
				}
				if live == ref.Yes {
					nLive++
				}
				if !c31JudgeGet(r, "getall", got[k], nil, cur, live, wit) {
					return
				}
				delete(got, k)
			}
			if len(got) > 0 {
				r.Violation("C31:getall-unknown-revocation", fmt.Sprintf("GetAll returned %d revocations for interfaces never inserted", len(got)), wit(""))
				return
			}
			if unknown {
				r.Inconclusive("time-bracket")
				continue
			}
			r.Eval(1)
			r.Event("getall")
			r.Class(fmt.Sprintf("getall/live=%d/of=%d", nLive, len(keys)))
		case "delete-expired":
			n, err := cache.DeleteExpired(ctx)
			hist = append(hist, c31Obs{Op: op, Got: fmt.Sprint(n, err)})
			if err != nil {
				r.Violation("C31:delete-expired-error", fmt.Sprintf("DeleteExpired: %v", err), wit(""))
				return
			}
			deleted = true
			r.Event("delete_expired")
			r.Class(fmt.Sprintf("delete-expired/removed=%d", n)) // count is not judged: the statement is silent
		}
	}
	if r.WantSample() && idx%101 == 7 {
		r.Sample(wit("sample"))
	}
}

func c31JudgeGet(r *mon.Run, via string, got *path_mgmt.RevInfo, err error, cur ref.Rev, live ref.Tri,
	wit func(string) c31Witness) bool {
	switch {
	case err != nil:
		r.Violation("C31:"+via+"-error", fmt.Sprintf("lookup returned error %v", err), wit(""))
	case live == ref.No && got != nil && c31Same(got, cur):
		r.Violation("C31:"+via+"-returned-expired", fmt.Sprintf("lookup returned the expired revocation %s", c31Show(got)), wit(""))
	case live == ref.No && got != nil:
		r.Violation("C31:"+via+"-returned-unaccepted", fmt.Sprintf("lookup returned %s, which is not the accepted revocation (none is live)", c31Show(got)), wit(""))
	case live == ref.Yes && got == nil:
		r.Violation("C31:"+via+"-lost-live", fmt.Sprintf("lookup returned nothing although the accepted revocation (ts=%d ttl=%d) is unexpired", cur.TS, cur.TTL), wit(""))
	case live == ref.Yes && !c31Same(got, cur):
		k := "C31:" + via + "-wrong-revocation"
		if got.RawTimestamp < cur.TS {
			k += "/older-than-accepted"
		}
		r.Violation(k, fmt.Sprintf("lookup returned %s, the accepted revocation is ts=%d ttl=%d", c31Show(got), cur.TS, cur.TTL), wit(""))
	default:
		return true
	}
	return false
}

func checkC31(r *mon.Run) {
	r.Rule = "one history = 14-45 operations (insert with issue time older/equal/newer than the previous one and lifetimes 0 s - hours, " +
		"get, get-all, delete-expired) over 1-3 interfaces on a 6-12 s logical timeline mapped to real seconds, executed on its own " +
		"memrevcache at >= 250 ms from second boundaries (thorough: >= 15 ms), every call time-bracketed and compared with the " +
		"reference cache; hundreds of histories run in parallel; class = operation/state of the stored revocation/relation/outcome. " +
		"Concurrent phase: 4 (thorough 14) rounds x 3 (4) caches; one cache is pre-filled with 150-400 live revocations and then worked on by " +
		"5-7 inserters (110-200 insertions each: expiring at the round's whole second E, already expired, comfortably live; each key written " +
		"by one goroutine), 2-3 readers (get/get-all) and 2-3 cleaners (delete-expired), all paced (not-earlier-than schedule) over E-50 ms .. E+20 ms, three fifths of the operations within E-7 ms .. E+3.5 ms; every call is " +
		"recorded with its clock readings before/after and judged after the join only when the expiration lies clearly outside the bracket; " +
		"then a final sweep (get of every key, get-all, delete-expired, again) after E"
	r.Assumptions = []string{
		"real clock with 1 s revocation granularity; a call whose reference verdict differs between the instants before and after it is inconclusive, and an inconclusive insert abandons the rest of that history",
		"a stored revocation may outlive its expiry by at most the duration of the Insert call that stored it (the cache arms its own timer inside the call)",
		"'newer' is a strictly later issue timestamp; the number returned by DeleteExpired is recorded, not judged",
		"concurrent phase: a verdict needs the monotonic and the wall clock reading to agree, with a 1 ms guard around every expiration; calls in progress at the expiration instant are unjudged; a revocation counts as 'must be gone' only after expiration + guard + duration of the Insert that stored it",
	}
	rounds, per := 1, 700
	if r.Thorough() {
		rounds, per = 6, 2500
	}
	if f := r.ReplayFile(); f != "" {
		var rp struct {
			Witness struct {
				Cache int
				Phase string
			}
		}
		if b, err := os.ReadFile(f); err == nil && json.Unmarshal(b, &rp) == nil {
			if rp.Witness.Phase == "concurrent" { // the exposure depends on scheduling: re-run the whole phase
				c31Concurrent(r)
				return
			}
			base := time.Now().Truncate(time.Second).Add(2 * time.Second)
			c31Run(r, rp.Witness.Cache, base)
			return
		}
	}
	for round := 0; round < rounds; round++ {
		base := time.Now().Truncate(time.Second).Add(2 * time.Second)
		var wg sync.WaitGroup
		for i := 0; i < per; i++ {
			wg.Add(1)
			go func(idx int) {
				defer wg.Done()
				c31Run(r, idx, base)
			}(round*per + i)
		}
		wg.Wait()
	}
	c31Concurrent(r)
	r.Require(int64(rounds*per*8+c31cMinEvals(r)), 36, "insert", "insert_accepted", "insert_rejected", "get", "getall", "delete_expired",
		"concurrent_insert", "concurrent_insert_accepted", "concurrent_insert_rejected", "concurrent_get", "concurrent_getall",
		"concurrent_delete_expired", "concurrent/insert-across-expiry-window", "concurrent/final-sweep")
	r.RequireClasses(c31cRequired...)
	r.RequireClasses(
		"insert/empty/fresh/accepted=true",
		"insert/empty/expired/accepted=false",
		"insert/stored-live/new-is-newer/fresh/accepted=true",
		"insert/stored-live/new-is-older/fresh/accepted=false",
		"insert/stored-live/new-is-equal/fresh/accepted=false",
		"insert/stored-expired/new-is-older/fresh/accepted=true",
		"get/live/after-delete=true", "get/live/after-delete=false",
		"get/expired/after-delete=true", "get/expired/after-delete=false",
		"get/never-inserted/after-delete=false",
	)
}
