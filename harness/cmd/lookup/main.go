// Command lookup serves the path-lookup and revocation-cache properties
// (C30, C31).
package main

import "verif/mon"

func main() {
	mon.Main(map[string]func(*mon.Run){
		"C30": checkC30,
		"C31": checkC31,
	})
}
