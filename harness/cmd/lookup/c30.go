package main

import (
	"sync/atomic"
	"context"
	"encoding/json"
	"fmt"
	"math/rand/v2"
	"net"
	"os"
	"sync"
	"time"
	"verif/monlog"

	"github.com/scionproto/scion/pkg/addr"
	"github.com/scionproto/scion/pkg/private/ctrl/path_mgmt"
	seg "github.com/scionproto/scion/pkg/segment"
	"github.com/scionproto/scion/pkg/segment/iface"
	"github.com/scionproto/scion/pkg/snet"
	snetpath "github.com/scionproto/scion/pkg/snet/path"
	"github.com/scionproto/scion/private/revcache"
	"github.com/scionproto/scion/private/revcache/memrevcache"
	"github.com/scionproto/scion/private/segment/segfetcher"
	"github.com/scionproto/scion/private/trust"

	ref "verif/lookupref"
	"verif/mon"
)

// ---- stubs around the real Pather ----

type c30Inspector struct{ t *ref.Topo }

func (i c30Inspector) ByAttributes(_ context.Context, isd addr.ISD, _ trust.Attribute) ([]addr.IA, error) {
	return i.t.CoresOf(isd), nil
}

func (i c30Inspector) HasAttributes(_ context.Context, ia addr.IA, _ trust.Attribute) (bool, error) {
	return i.t.Core[ia], nil
}

type c30NextHop struct{}

func (c30NextHop) UnderlayNextHop(ifID uint16) *net.UDPAddr {
	return &net.UDPAddr{IP: net.IPv4(10, 0, byte(ifID>>8), byte(ifID)), Port: 30042}
}

// c30Resolver serves segment requests from the case's segment universe and
// records the requests it was asked for.
type c30Resolver struct {
	mu   sync.Mutex
	segs []*ref.SegSpec
	last []ref.Req
	n    int
	// delay: the segment lookup takes that long (slow control service);
	// tDone: when the last lookup handed its answer back.
	delay time.Duration
	tDone time.Time
}

func typeName(t seg.Type) string {
	switch t {
	case seg.TypeUp:
		return "up"
	case seg.TypeDown:
		return "down"
	case seg.TypeCore:
		return "core"
	}
	return fmt.Sprintf("type%d", int(t))
}

func (r *c30Resolver) Resolve(_ context.Context, reqs segfetcher.Requests, _ bool) (segfetcher.Segments, segfetcher.Requests, error) {
	r.mu.Lock()
	defer r.mu.Unlock()
	r.n++
	r.last = r.last[:0]
	var out segfetcher.Segments
	for _, q := range reqs {
		r.last = append(r.last, ref.Req{Type: typeName(q.SegType), Src: q.Src, Dst: q.Dst})
		for _, s := range r.segs {
			var ok bool
			switch q.SegType {
			case seg.TypeUp: // from the local AS (last entry) up to a core AS (first entry)
				ok = !s.Core && ref.Matches(s.Last(), q.Src) && ref.Matches(s.First(), q.Dst)
			case seg.TypeDown:
				ok = !s.Core && ref.Matches(s.First(), q.Src) && ref.Matches(s.Last(), q.Dst)
			case seg.TypeCore: // stored with the remote core first, the requesting side last
				ok = s.Core && ref.Matches(s.Last(), q.Src) && ref.Matches(s.First(), q.Dst)
			}
			if ok {
				out = append(out, &seg.Meta{Type: q.SegType, Segment: s.Seg})
			}
		}
	}
	if r.delay > 0 {
		time.Sleep(r.delay)
	}
	r.tDone = time.Now()
	return out, nil, nil
}

func (r *c30Resolver) take() ([]ref.Req, int) {
	r.mu.Lock()
	defer r.mu.Unlock()
	out := append([]ref.Req(nil), r.last...)
	n := r.n
	r.n = 0
	r.last = r.last[:0]
	return out, n
}

// ---- case data ----

type c30Rev struct {
	IA     addr.IA
	IfID   uint16
	TS     uint32
	TTL    uint32
	Class  string
	Insert bool // result of the cache's Insert (informative)
}

func (v c30Rev) expiry() time.Time { return time.Unix(int64(v.TS)+int64(v.TTL), 0) }

type c30SegPlan struct {
	egress []uint16
	core   bool
}

type c30Case struct {
	idx   int
	rng   *rand.Rand
	topo  *ref.Topo
	local addr.IA
	cache revcache.RevCache
	plan  []c30SegPlan
	revs  map[[2]uint64]*c30Rev
	hot   []uint16 // interfaces on planned segments
}

type c30PathW struct {
	Src, Dst   string
	Interfaces []string
	MetaExpiry time.Time
	RawExpiry  time.Time
}

type c30SegW struct {
	Kind   string
	ASes   []string
	Egress []uint16
	TS     uint32
	Class  string
	Expiry time.Time
}

type c30Witness struct {
	Case     int
	Local    string
	Dst      string
	Core     map[string]bool
	Links    []ref.Link
	Segs     []c30SegW
	Revs     []c30Rev
	T0, T1   time.Time
	Requests []ref.Req
	Paths    []c30PathW
	Err      string
	Note     string
}

func (c *c30Case) addRev(ia addr.IA, ifID uint16, ts, ttl uint32, class string) {
	k := [2]uint64{uint64(ia), uint64(ifID)}
	if _, dup := c.revs[k]; dup {
		return // at most one revocation per interface: C31 owns replacement semantics
	}
	rv := &c30Rev{IA: ia, IfID: ifID, TS: ts, TTL: ttl, Class: class}
	ok, _ := c.cache.Insert(context.Background(), &path_mgmt.RevInfo{
		IfID: iface.ID(ifID), RawIsdas: ia, RawTimestamp: ts, RawTTL: ttl,
	})
	rv.Insert = ok
	c.revs[k] = rv
}

func (c *c30Case) pickIf() uint16 {
	if len(c.hot) > 0 && c.rng.IntN(5) != 0 {
		return c.hot[c.rng.IntN(len(c.hot))]
	}
	// any interface of the topology (sorted for determinism)
	l := c.topo.Links[c.rng.IntN(len(c.topo.Links))]
	if c.rng.IntN(2) == 0 {
		return l.AIf
	}
	return l.BIf
}

func c30Phase1(r *mon.Run, idx int) *c30Case {
	rng := r.Rand(fmt.Sprint("c30/", idx))
	c := &c30Case{idx: idx, rng: rng, topo: ref.GenTopo(rng), cache: memrevcache.New(), revs: map[[2]uint64]*c30Rev{}}
	t := c.topo
	if rng.IntN(2) == 0 {
		non := t.NonCores()
		c.local = non[rng.IntN(len(non))]
	} else {
		var cores []addr.IA
		for _, ia := range t.ASes {
			if t.Core[ia] {
				cores = append(cores, ia)
			}
		}
		c.local = cores[rng.IntN(len(cores))]
	}
	hot := map[uint16]bool{}
	for _, ch := range t.Chains(3) {
		if rng.IntN(10) < 8 {
			c.plan = append(c.plan, c30SegPlan{egress: ch})
			if rng.IntN(5) == 0 {
				c.plan = append(c.plan, c30SegPlan{egress: ch})
			}
			for _, e := range ch {
				hot[e], hot[t.IfPeer[e]] = true, true
			}
		}
	}
	for _, ro := range t.CoreRoutes(3) {
		if rng.IntN(10) < 8 {
			c.plan = append(c.plan, c30SegPlan{egress: ro, core: true})
			if rng.IntN(6) == 0 {
				c.plan = append(c.plan, c30SegPlan{egress: ro, core: true})
			}
			for _, e := range ro {
				hot[e], hot[t.IfPeer[e]] = true, true
			}
		}
	}
	for _, l := range t.Links {
		if l.Kind == ref.LinkPeer {
			hot[l.AIf], hot[l.BIf] = true, true
		}
	}
	for _, l := range t.Links { // deterministic order
		for _, x := range []uint16{l.AIf, l.BIf} {
			if hot[x] {
				c.hot = append(c.hot, x)
			}
		}
	}
	// Revocations that are live now but expired by the time of the lookup
	// ("expired, still stored"), and long-lived ones.
	if rng.IntN(20) < 13 {
		now := time.Now()
		for k := rng.IntN(3); k > 0; k-- {
			e := now.Add(300 * time.Millisecond).Truncate(time.Second).Add(time.Second) // first whole second >= now+0.3s
			ttl := uint32(10 + rng.IntN(50))
			x := c.pickIf()
			c.addRev(t.IfOwner[x], x, uint32(e.Unix())-ttl, ttl, "expired-stored")
		}
		for k := rng.IntN(3); k > 0; k-- {
			ttl := uint32(60 + rng.IntN(3000))
			ts := uint32(now.Unix()) - uint32(rng.IntN(int(ttl)-40)) // expires >= 40 s from now
			x := c.pickIf()
			c.addRev(t.IfOwner[x], x, ts, ttl, "active")
		}
	}
	return c
}

func c30Dsts(c *c30Case) []struct {
	ia   addr.IA
	kind string
} {
	t, rng := c.topo, c.rng
	type d = struct {
		ia   addr.IA
		kind string
	}
	var cands []d
	for _, ia := range t.ASes {
		if ia == c.local {
			continue
		}
		k := "noncore"
		if t.Core[ia] {
			k = "core"
		}
		if ia.ISD() == c.local.ISD() {
			k += "-same"
		} else {
			k += "-other"
		}
		cands = append(cands, d{ia, k})
	}
	for _, isd := range t.ISDs() {
		k := "wildcard-other"
		if isd == c.local.ISD() {
			k = "wildcard-same"
		}
		cands = append(cands, d{addr.MustIAFrom(isd, 0), k})
	}
	rng.Shuffle(len(cands), func(i, j int) { cands[i], cands[j] = cands[j], cands[i] })
	n := 4
	if len(cands) < n {
		n = len(cands)
	}
	out := append([]d(nil), cands[:n]...)
	switch rng.IntN(8) {
	case 0:
		out = append(out, d{c.local, "local"})
	case 1:
		out = append(out, d{addr.MustIAFrom(c.local.ISD(), 0xff00_0000_0fff), "unknown-as"})
	case 2:
		out = append(out, d{addr.MustIAFrom(addr.ISD(900+rng.IntN(50)), addr.AS(rng.IntN(2)*0x1234)), "unknown-isd"})
	case 3:
		out = append(out, d{addr.MustIAFrom(0, addr.AS(rng.IntN(2)*0xff00_0000_0110)), "isd0"})
	}
	return out
}

var c30SlowBudget atomic.Int64

func c30Phase3(r *mon.Run, c *c30Case) {
	t, rng := c.topo, c.rng
	ctx := context.Background()
	// log level as a configuration dimension: every other case runs with a
	// debug-enabled logger, as a daemon with log.console.level = "debug"
	logCfg := "log=default"
	if rng.IntN(2) == 0 {
		ctx = monlog.Debug(ctx)
		logCfg = "log=debug"
	}
	r.Class("config/" + logCfg)
	thorough := r.Thorough()
	now := time.Now()

	// --- segments, relative to now ---
	used := map[uint32]bool{}
	var universe []*ref.SegSpec
	anyExpired, anyNear := false, false
	for _, pl := range c.plan {
		n := len(pl.egress) + 1
		var spec *ref.SegSpec
		for try := 0; try < 50 && spec == nil; try++ {
			exps := make([]uint8, n)
			var ts uint32
			class := "live"
			switch x := rng.IntN(20); {
			case x < 13:
				for i := range exps {
					exps[i] = uint8(6 + rng.IntN(250))
				}
				ts = uint32(now.Unix()) - uint32(rng.IntN(1200))
			default:
				e := uint8(rng.IntN(4))
				for i := range exps {
					exps[i] = e + uint8(rng.IntN(256-int(e)))
				}
				exps[rng.IntN(n)] = e
				// ts is floored to whole seconds, which moves the real expiry up to
				// one second earlier than now+off; m is the guaranteed margin.
				var off time.Duration
				m := 400
				if thorough {
					m = 0
				}
				switch {
				case x < 16:
					class = "expired"
					off = -time.Duration(1300+rng.IntN(900_000)) * time.Millisecond
				case x < 18:
					class = "near-live"
					off = time.Duration(1000+m+rng.IntN(2600)) * time.Millisecond
				default:
					class = "near-dead"
					off = -time.Duration(m+rng.IntN(3600)) * time.Millisecond
				}
				ts = uint32(now.Add(off - ref.HopTTL(e)).Unix()) // Unix() floors for positive times
			}
			if used[ts] {
				continue
			}
			s, err := t.BuildSeg(pl.egress, pl.core, ts, uint16(rng.IntN(1<<16)), exps)
			if err != nil {
				panic(err)
			}
			s.Class = class
			used[ts] = true
			spec = s
		}
		if spec == nil {
			continue
		}
		switch spec.Class {
		case "expired":
			anyExpired = true
		case "near-live", "near-dead":
			anyNear = true
		}
		universe = append(universe, spec)
	}
	byTS := map[uint32]*ref.SegSpec{}
	for _, s := range universe {
		byTS[s.TS] = s
	}

	// --- revocations inserted right before the lookup ---
	if rng.IntN(20) < 11 {
		for k := rng.IntN(4); k > 0; k-- {
			x := c.pickIf()
			ia := t.IfOwner[x]
			nowS := time.Now()
			switch rng.IntN(5) {
			case 0: // about to expire, still active during the lookups
				lead := 400 * time.Millisecond
				if thorough {
					lead = 30 * time.Millisecond
				}
				e := nowS.Add(lead).Truncate(time.Second).Add(time.Second)
				ttl := uint32(10 + rng.IntN(30))
				c.addRev(ia, x, uint32(e.Unix())-ttl, ttl, "active-near")
			case 1: // already expired when inserted
				e := nowS.Add(-400 * time.Millisecond).Truncate(time.Second).Add(-time.Duration(rng.IntN(100)) * time.Second)
				ttl := uint32(10 + rng.IntN(30))
				c.addRev(ia, x, uint32(e.Unix())-ttl, ttl, "expired-on-insert")
			case 2: // same interface number, other AS: must not matter
				other := t.ASes[rng.IntN(len(t.ASes))]
				if other != ia {
					c.addRev(other, x, uint32(nowS.Unix())-5, 600, "other-as")
				}
			default:
				ttl := uint32(10 + rng.IntN(600))
				c.addRev(ia, x, uint32(nowS.Unix())-uint32(rng.IntN(5)), ttl, "active")
			}
		}
	}
	if rng.IntN(3) == 0 {
		_, _ = c.cache.DeleteExpired(ctx)
		r.Event("delete_expired")
	}
	anyActive := false
	for _, rv := range c.revs {
		if rv.Class == "active" || rv.Class == "active-near" {
			anyActive = true
		}
	}

	res := &c30Resolver{segs: universe}
	srcCore := t.Core[c.local]
	mk := func(rc revcache.RevCache) *segfetcher.Pather {
		return &segfetcher.Pather{
			IA: c.local, MTU: 1472, NextHopper: c30NextHop{}, RevCache: rc,
			Fetcher:  &segfetcher.Fetcher{Resolver: res},
			Splitter: &segfetcher.MultiSegmentSplitter{LocalIA: c.local, Core: srcCore, Inspector: c30Inspector{t}},
		}
	}
	pather := mk(c.cache)
	baseline := mk(memrevcache.New())

	witness := func(dst addr.IA, t0, t1 time.Time, reqs []ref.Req, paths []snet.Path, err error, note string) c30Witness {
		w := c30Witness{Case: c.idx, Local: c.local.String(), Dst: dst.String(), Core: map[string]bool{},
			Links: t.Links, T0: t0, T1: t1, Requests: reqs, Note: note}
		for _, ia := range t.ASes {
			w.Core[ia.String()] = t.Core[ia]
		}
		for _, s := range universe {
			sw := c30SegW{Kind: "updown", Egress: s.Egress, TS: s.TS, Class: s.Class, Expiry: s.Expiry}
			if s.Core {
				sw.Kind = "core"
			}
			for _, ia := range s.ASes {
				sw.ASes = append(sw.ASes, ia.String())
			}
			w.Segs = append(w.Segs, sw)
		}
		for _, l := range t.Links { // deterministic order
			for _, ia := range t.ASes {
				for _, x := range []uint16{l.AIf, l.BIf} {
					if rv, ok := c.revs[[2]uint64{uint64(ia), uint64(x)}]; ok {
						w.Revs = append(w.Revs, *rv)
					}
				}
			}
		}
		for _, p := range paths {
			pw := c30PathW{Src: p.Source().String(), Dst: p.Destination().String()}
			if md := p.Metadata(); md != nil {
				pw.MetaExpiry = md.Expiry
				for _, x := range md.Interfaces {
					pw.Interfaces = append(pw.Interfaces, x.String())
				}
			}
			if sp, ok := p.Dataplane().(snetpath.SCION); ok {
				if segs, e := ref.DecodeRaw(sp.Raw); e == nil {
					pw.RawExpiry = ref.RawExpiry(segs)
				}
			}
			w.Paths = append(w.Paths, pw)
		}
		if err != nil {
			w.Err = err.Error()
		}
		return w
	}

	for _, d := range c30Dsts(c) {
		dst := d.ia
		refresh := rng.IntN(4) == 0
		var paths []snet.Path
		var err error
		res.take()
		// a few lookups are answered slowly by the control service, long enough
		// for segments that are about to expire to do so while the lookup waits
		res.delay, res.tDone = 0, time.Time{}
		slow := false
		if anyNear && c30SlowBudget.Add(-1) >= 0 {
			res.delay = time.Duration(1500+rng.IntN(2500)) * time.Millisecond
			slow = true
			r.Event("lookup_with_slow_segment_fetch")
		}
		t0 := time.Now()
		pv, stack := mon.Try(func() { paths, err = pather.GetPaths(ctx, dst, refresh) })
		t1 := time.Now()
		tFetched := res.tDone
		res.delay = 0
		_ = slow
		reqs, nres := res.take()
		if pv != nil {
			r.Violation("C30:panic:"+mon.PanicSite(stack), fmt.Sprintf("GetPaths panicked: %v\n%s", pv, stack),
				witness(dst, t0, t1, reqs, nil, nil, "panic"))
			continue
		}
		var base []snet.Path
		if d.kind != "local" && d.kind != "isd0" {
			base, _ = baseline.GetPaths(ctx, dst, refresh)
			res.take()
		}
		r.Event("lookup")
		r.EventN("path", int64(len(paths)))
		wit := func(note string) c30Witness { return witness(dst, t0, t1, reqs, paths, err, note) }

		srcK := "noncore"
		if srcCore {
			srcK = "core"
		}
		single := len(t.CoresOf(c.local.ISD())) == 1
		perturb := "clean"
		switch {
		case (anyExpired || anyNear) && anyActive:
			perturb = "expiry+revocation"
		case anyExpired || anyNear:
			perturb = "expiry"
		case anyActive:
			perturb = "revocation"
		}
		outcome := "none"
		if len(paths) > 0 {
			outcome = "some"
			if len(base) > len(paths) {
				outcome = "some-rev-filtered"
			}
		} else if len(base) > 0 {
			outcome = "all-rev-filtered"
		}
		r.Class(fmt.Sprintf("src=%s/dst=%s/single=%v/%s/%s", srcK, d.kind, single, perturb, outcome))

		switch d.kind {
		case "isd0":
			// The statement is silent about ISD 0; only "no path that does not end at dst".
			if len(paths) != 0 {
				r.Violation("C30:isd0-paths", fmt.Sprintf("lookup for %s returned %d paths", dst, len(paths)), wit(""))
			}
			r.Event("isd0_refused")
			continue
		case "local":
			r.Eval(1)
			r.Event("local_lookup")
			ok := err == nil && len(paths) == 1
			if ok {
				p := paths[0]
				md := p.Metadata()
				ok = p.Source() == c.local && p.Destination() == c.local && (md == nil || len(md.Interfaces) == 0)
				switch dp := p.Dataplane().(type) {
				case nil, snetpath.Empty:
				case snetpath.SCION:
					ok = ok && len(dp.Raw) == 0
				default:
					ok = false
				}
				if md != nil && !md.Expiry.After(t0) {
					r.Violation("C30:local-expired", "the empty path for the local AS is already expired", wit(""))
				}
			}
			if !ok {
				r.Violation("C30:local-not-one-empty-path",
					fmt.Sprintf("lookup for the local AS: err=%v, %d paths; expected exactly one empty path", err, len(paths)), wit(""))
			}
			if nres != 0 {
				r.Event("local_lookup_issued_requests") // not judged
			}
			continue
		}

		// --- segment requests ---
		dstCore := dst.AS() == 0 || t.Core[dst]
		want := ref.ExpectedRequests(c.local, dst, srcCore, dstCore, t.CoresOf(c.local.ISD()))
		r.Eval(1)
		r.Event("split_judged")
		tblKey := fmt.Sprintf("src=%s/dst=%s/single=%v", srcK, d.kind, single)
		if nres != 1 {
			r.Violation("C30:split:"+tblKey, fmt.Sprintf("resolver consulted %d times for one lookup", nres), wit("requests"))
		} else if ok, why := ref.MatchRequests(reqs, want); !ok {
			r.Violation("C30:split:"+tblKey,
				fmt.Sprintf("segment requests %v (%s) differ from the required %s: %s", reqs, ref.TypesOf(reqs), ref.PatternTypes(want), why),
				wit("requests"))
		}
		r.Class("split/" + tblKey + "/" + ref.PatternTypes(want))

		// --- returned paths ---
		inconclusive := false
		for _, p := range paths {
			md := p.Metadata()
			if md == nil || len(md.Interfaces) < 2 || len(md.Interfaces)%2 != 0 {
				r.Violation("C30:path-no-interfaces", "returned path has no usable interface list", wit(""))
				continue
			}
			ifs := md.Interfaces
			end := ifs[len(ifs)-1].IA
			if p.Source() != c.local || ifs[0].IA != c.local {
				r.Violation("C30:wrong-source", fmt.Sprintf("path starts at %s/%s, local AS is %s", p.Source(), ifs[0].IA, c.local), wit(""))
			}
			if dst.AS() == 0 {
				pd := p.Destination()
				if pd.ISD() != dst.ISD() || pd.AS() == 0 || !t.Core[pd] || end != pd {
					r.Violation("C30:wildcard-destination", fmt.Sprintf("path for wildcard %s ends at %s (interfaces end at %s), not at a core AS of that ISD", dst, pd, end), wit(""))
				}
			} else if p.Destination() != dst || end != dst {
				r.Violation("C30:wrong-destination", fmt.Sprintf("path ends at %s (interfaces end at %s), requested %s", p.Destination(), end, dst), wit(""))
			}
			// continuity over the generated topology
			for k := 0; k+1 < len(ifs); k += 2 {
				a, b := ifs[k], ifs[k+1]
				if a.ID > 0xffff || b.ID > 0xffff || t.IfOwner[uint16(a.ID)] != a.IA || t.IfOwner[uint16(b.ID)] != b.IA ||
					t.IfPeer[uint16(a.ID)] != uint16(b.ID) || (k+2 < len(ifs) && ifs[k+2].IA != b.IA) {
					r.Violation("C30:path-discontinuous", fmt.Sprintf("interfaces %v do not form a walk over the topology at position %d", ifs, k), wit(""))
					break
				}
			}
			// expiry: metadata and raw hop fields
			exp := md.Expiry
			sp, isSCION := p.Dataplane().(snetpath.SCION)
			if !isSCION {
				r.Violation("C30:path-no-dataplane", fmt.Sprintf("dataplane path is %T", p.Dataplane()), wit(""))
			} else if raw, e := ref.DecodeRaw(sp.Raw); e != nil {
				r.Violation("C30:raw-undecodable", e.Error(), wit(""))
			} else {
				for _, rs := range raw {
					spec := byTS[rs.Timestamp]
					if spec == nil {
						r.Violation("C30:raw-foreign-hop", fmt.Sprintf("info field timestamp %d belongs to no supplied segment", rs.Timestamp), wit(""))
						continue
					}
					for _, h := range rs.Hops {
						if !spec.Hops[[3]uint16{h.ConsIngress, h.ConsEgress, uint16(h.ExpTime)}] {
							r.Violation("C30:raw-foreign-hop", fmt.Sprintf("hop field %+v is not part of the segment with timestamp %d", h, rs.Timestamp), wit(""))
						}
					}
				}
				for _, rs := range raw {
					if rs.Peer {
						r.Event("path_over_peering_link")
						break
					}
				}
				r.Event(fmt.Sprintf("path_with_%d_segments", len(raw)))
				if re := ref.RawExpiry(raw); re.Before(exp) {
					exp = re
				}
			}
			switch {
			case !exp.After(t0):
				r.Violation("C30:expired-path", fmt.Sprintf("returned path expired at %s, lookup started at %s", exp.Format(time.RFC3339Nano), t0.Format(time.RFC3339Nano)), wit(""))
			case !tFetched.IsZero() && !exp.After(tFetched.Add(-time.Millisecond)):
				// paths can only be built once the segments are there: a path that
				// had expired before the segment lookup even returned was expired
				// whenever it was judged
				r.Violation("C30:expired-path", fmt.Sprintf("returned path expired at %s, before the segment lookup handed its answer back at %s (lookup started at %s)",
					exp.Format(time.RFC3339Nano), tFetched.Format(time.RFC3339Nano), t0.Format(time.RFC3339Nano)), wit(""))
			case !exp.After(t1):
				inconclusive = true
			}
			if exp.Sub(t1) < 10*time.Second {
				r.Event("path_near_expiry_returned")
			}
			// revocations
			for _, x := range ifs {
				rv, ok := c.revs[[2]uint64{uint64(x.IA), uint64(x.ID)}]
				if !ok {
					continue
				}
				e := rv.expiry()
				switch {
				case e.After(t1):
					r.Violation("C30:revoked-interface:"+rv.Class, fmt.Sprintf("returned path traverses %s which has a revocation active until %s", x, e.Format(time.RFC3339)), wit(""))
				case e.After(t0):
					inconclusive = true
				default:
					r.Event("path_over_expired_revocation")
				}
			}
		}
		r.Eval(1)
		r.Event("paths_judged")
		if inconclusive {
			r.Inconclusive("time-bracket")
		}
		if len(paths) > 0 {
			r.Event("lookup_nonempty")
		} else {
			r.Event("lookup_empty")
		}
		if len(base) > len(paths) {
			r.Event("lookup_revocation_filtered")
		}
		if r.WantSample() && len(paths) > 0 && (c.idx%97 == 3 || (len(base) > len(paths) && c.idx%11 == 0)) {
			r.Sample(wit("sample"))
		}
	}
}

func checkC30(r *mon.Run) {
	c30SlowBudget.Store(int64(r.Pick(4, 24)))
	r.Rule = "case = generated topology (1-3 ISDs, 1-3 cores, provider DAG, peering) x local AS (core/non-core) x hand-built up/core/down " +
		"segments with expiries relative to now (live, expired, within seconds of expiry) x revocations in a real memrevcache " +
		"(active, about to expire, expired but stored, expired on insert, other AS) x destination kind (core/non-core, same/other ISD, " +
		"wildcard, local, unknown, ISD 0); real Pather + MultiSegmentSplitter; class = src kind/dst kind/single core/perturbation/outcome " +
		"and split-table row"
	r.Assumptions = []string{
		"the stub Resolver returns every supplied segment that matches a request (type, endpoints, ISD wildcards) and nothing else",
		"time bracket: a path or revocation whose expiry lies between the instants before and after the lookup is not judged",
		"expected segment requests are transcribed from the statement and doc/control-plane.rst; where the single core AS and the ISD wildcard are interchangeable both are accepted; request order is not judged",
		"completeness (every live unrevoked path is returned) is not part of the statement and only recorded",
		"ISD 0 destinations and lookups without an Inspector are not judged",
	}
	n := r.Pick(4000, 40000)
	first := 0
	if f := r.ReplayFile(); f != "" {
		var rp struct {
			Witness struct{ Case int }
		}
		if b, err := os.ReadFile(f); err == nil && json.Unmarshal(b, &rp) == nil {
			first, n = rp.Witness.Case, 1
		}
	}
	batch := 4000
	for lo := first; lo < first+n; lo += batch {
		hi := lo + batch
		if hi > first+n {
			hi = first + n
		}
		cases := make([]*c30Case, hi-lo)
		parallel(len(cases), func(i int) { cases[i] = c30Phase1(r, lo+i) })
		// let the short-lived revocations of phase 1 expire (they expire <= 1.3 s after insertion)
		time.Sleep(1700 * time.Millisecond)
		parallel(len(cases), func(i int) { c30Phase3(r, cases[i]) })
	}
	if r.ReplayFile() == "" {
		r.Require(int64(n)*4, 60, "lookup_with_slow_segment_fetch", "lookup", "path", "lookup_nonempty", "lookup_empty", "lookup_revocation_filtered",
			"local_lookup", "split_judged", "paths_judged", "path_near_expiry_returned", "path_over_expired_revocation",
			"path_over_peering_link", "path_with_1_segments", "path_with_2_segments", "path_with_3_segments")
	}
}

// parallel runs f(0..n-1) on a bounded number of goroutines.
func parallel(n int, f func(i int)) {
	const workers = 12
	var wg sync.WaitGroup
	ch := make(chan int)
	for w := 0; w < workers; w++ {
		wg.Add(1)
		go func() {
			defer wg.Done()
			for i := range ch {
				f(i)
			}
		}()
	}
	for i := 0; i < n; i++ {
		ch <- i
	}
	close(ch)
	wg.Wait()
}
