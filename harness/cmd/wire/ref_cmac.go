package main

// AES-CMAC written from RFC 4493 (sections 2.3 and 2.4) on top of crypto/aes.
// Independent of github.com/dchest/cmac, which the implementation uses.

import (
	"bytes"
	"crypto/aes"
	"encoding/hex"
	"fmt"
)

func cmacDouble(in [16]byte) (out [16]byte) {
	// left shift by one bit; if the MSB was set, xor the constant Rb = 0x87
	var carry byte
	for i := 15; i >= 0; i-- {
		out[i] = in[i]<<1 | carry
		carry = in[i] >> 7
	}
	if carry != 0 {
		out[15] ^= 0x87
	}
	return out
}

// refCMAC returns AES-CMAC(key, msg).
func refCMAC(key, msg []byte) ([16]byte, error) {
	var mac [16]byte
	c, err := aes.NewCipher(key)
	if err != nil {
		return mac, err
	}
	var l [16]byte
	c.Encrypt(l[:], l[:])
	k1 := cmacDouble(l)
	k2 := cmacDouble(k1)

	n := (len(msg) + 15) / 16
	complete := n > 0 && len(msg)%16 == 0
	if n == 0 {
		n = 1
	}
	var last [16]byte
	tail := msg[(n-1)*16:]
	if complete {
		copy(last[:], tail)
		for i := range last {
			last[i] ^= k1[i]
		}
	} else {
		copy(last[:], tail)
		last[len(tail)] = 0x80
		for i := range last {
			last[i] ^= k2[i]
		}
	}
	var x [16]byte
	for i := 0; i < n-1; i++ {
		for j := 0; j < 16; j++ {
			x[j] ^= msg[i*16+j]
		}
		c.Encrypt(x[:], x[:])
	}
	for j := 0; j < 16; j++ {
		x[j] ^= last[j]
	}
	c.Encrypt(mac[:], x[:])
	return mac, nil
}

// refCMACSelfTest checks the reference against the test vectors of RFC 4493
// section 4.
func refCMACSelfTest() error {
	key, _ := hex.DecodeString("2b7e151628aed2a6abf7158809cf4f3c")
	msg, _ := hex.DecodeString("6bc1bee22e409f96e93d7e117393172a" + "ae2d8a571e03ac9c9eb76fac45af8e51" +
		"30c81c46a35ce411e5fbc1191a0a52ef" + "f69f2445df4f9b17ad2b417be66c3710")
	for _, v := range []struct {
		n    int
		want string
	}{
		{0, "bb1d6929e95937287fa37d129b756746"},
		{16, "070a16b46b4d4144f79bdd9dd04a287c"},
		{40, "dfa66747de9ae63030ca32611497c827"},
		{64, "51f0bebf7e3b9d92fc49741779363cfe"},
	} {
		got, err := refCMAC(key, msg[:v.n])
		want, _ := hex.DecodeString(v.want)
		if err != nil || !bytes.Equal(got[:], want) {
			return fmt.Errorf("reference AES-CMAC fails RFC 4493 example with %d bytes: %x != %s (%v)", v.n, got, v.want, err)
		}
	}
	return nil
}
