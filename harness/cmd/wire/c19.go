package main

import (
	"encoding/binary"
	"encoding/json"
	"fmt"
	"math/rand/v2"
	"os"
	"runtime/debug"
	"strings"
	"time"

	"github.com/scionproto/scion/pkg/slayers/path"
	"github.com/scionproto/scion/pkg/slayers/path/scion"

	"verif/mon"
)

// C19 — path pointer arithmetic.
//
// Phase A enumerates every one of the 2^26 (CurrINF, CurrHF, Seg0Len, Seg1Len,
// Seg2Len) meta headers and compares scion.Base.DecodeFromBytes with refShape.
// Phase B takes the accepted shapes (all 43743 of them in thorough tier; in
// quick tier a PRNG-chosen share c19QuickFraction, currently all as well) and,
// for all 256 pointer values of each, compares every pointer predicate,
// IncPath, Reverse and the Raw/Decoded conversions with the reference model in
// ref_path.go. Thorough tier adds more random field fillings per shape, more
// RSV samples and Raw.Reverse on every (not only every consistent) state.
// Run.Exhaustive is set only if both phases really enumerated everything.

// c19QuickFraction is the share of accepted shapes that the quick tier takes
// through phase B (PRNG-chosen subset when < 1). On 16 idle cores the whole
// quick run takes ~12 s with 1.0 (phase A ~8 s of it); lower it if the quick
// budget is ever a concern -- the run then reports exhaustive=false.
const c19QuickFraction = 1.0

type c19Wit struct {
	Seg     [3]uint8 `json:"seg"`
	Inf     uint8    `json:"curr_inf"`
	Hf      uint8    `json:"curr_hf"`
	Rsv     uint8    `json:"rsv"`
	Meta    string   `json:"meta_hex"`
	Content string   `json:"path_hex,omitempty"`
	Got     string   `json:"got,omitempty"`
	Want    string   `json:"want,omitempty"`
	Object  string   `json:"object,omitempty"`     // failed-operation monitor: which object
	Ops     string   `json:"operations,omitempty"` // ... and the calls made on it, in order
}

func segPattern(seg [3]uint8) string {
	p := []byte("zzz")
	for i := range seg {
		if seg[i] > 0 {
			p[i] = 'n'
		}
	}
	return string(p)
}

func hopBucket(n int) string {
	switch {
	case n <= 1:
		return "1"
	case n <= 3:
		return "2-3"
	case n <= 16:
		return "4-16"
	case n <= 63:
		return "17-63"
	case n == 64:
		return "64"
	case n == 65:
		return "65"
	default:
		return ">65"
	}
}

// c19JudgeDecode compares one Base.DecodeFromBytes outcome with the reference.
func c19JudgeDecode(a *acc, inf, hf, rsv uint8, seg [3]uint8, kind string, ninf, nhops int,
	base *scion.Base, err error) {

	wit := func(got, want string) c19Wit {
		var m [4]byte
		binary.BigEndian.PutUint32(m[:], refMetaWord(inf, hf, rsv, seg))
		return c19Wit{Seg: seg, Inf: inf, Hf: hf, Rsv: rsv, Meta: hexs(m[:]), Got: got, Want: want}
	}
	switch kind {
	case shapeEmpty:
		// The statement speaks of non-empty segments and says nothing about the
		// header with no segment at all, with one exception: where it is accepted
		// with both pointers at zero (the canonical empty path) it has no segment
		// boundary, so neither cross-over predicate may be reported.
		if err == nil && inf == 0 && hf == 0 {
			a.evals++
			a.event("empty_path_predicates_judged")
			if base.IsXover() || base.IsFirstHopAfterXover() {
				a.violation("C19:empty-path:xover", fmt.Sprintf("the accepted empty path (no segment, no hop) reports IsXover()=%v IsFirstHopAfterXover()=%v",
					base.IsXover(), base.IsFirstHopAfterXover()), wit("cross-over", "none"))
			}
		}
		return
	case shapeOK:
		a.evals++
		if err != nil {
			a.violation("C19:decode-rejects-good-shape", fmt.Sprintf(
				"Base.DecodeFromBytes rejects SegLen=%v (contiguous, %d hops): %v", seg, nhops, err),
				wit("error", "accepted"))
			return
		}
		pm := base.PathMeta
		if pm.CurrINF != inf || pm.CurrHF != hf || pm.SegLen != seg || base.NumINF != ninf ||
			base.NumHops != nhops || base.Len() != refPathLen(ninf, nhops) {
			a.violation("C19:decode-fields", fmt.Sprintf(
				"decoded meta %+v NumINF=%d NumHops=%d Len=%d; header says inf=%d hf=%d seg=%v → NumINF=%d NumHops=%d Len=%d",
				pm, base.NumINF, base.NumHops, base.Len(), inf, hf, seg, ninf, nhops, refPathLen(ninf, nhops)),
				wit(fmt.Sprintf("%+v/%d/%d", pm, base.NumINF, base.NumHops), fmt.Sprintf("%d/%d", ninf, nhops)))
		}
	default:
		a.evals++
		if err == nil {
			a.violation("C19:decode-accepts-bad-shape/"+kind, fmt.Sprintf(
				"Base.DecodeFromBytes accepts SegLen=%v (%s, %d hops)", seg, kind, nhops),
				wit("accepted", "error"))
		}
	}
}

func outcome(err error) string {
	if err != nil {
		return "rejected"
	}
	return "accepted"
}

// c19SweepTask handles all headers with the given Seg0Len and Seg1Len:
// 64 Seg2Len values x 4 CurrINF x 64 CurrHF.
//
// One scion.Base lives as long as the task and is decoded into again and again
// (reuse monitor, see reuse.go): for every shape, one header per CurrINF value,
// and after every 16th shape the all-zero header. Seg2Len is visited in the order
// 0, 63, 1, 62, ... so that this object sees long shapes followed by short ones
// and accepted shapes followed by rejected and again accepted ones.
func c19SweepTask(a *acc, s0, s1 uint8, rsvOf func(seg [3]uint8, inf, hf uint8) uint8) {
	var cur c19Wit
	ru := newReuseStream("C19", a, false)
	p, stack := mon.Try(func() {
		var b [4]byte
		for k := uint8(0); k < 64; k++ {
			s2 := k / 2
			if k%2 == 1 {
				s2 = 63 - k/2
			}
			seg := [3]uint8{s0, s1, s2}
			kind, ninf, nhops := refShape(seg)
			var lastErr error
			for inf := uint8(0); inf < 4; inf++ {
				for hf := uint8(0); hf < 64; hf++ {
					rsv := rsvOf(seg, inf, hf)
					binary.BigEndian.PutUint32(b[:], refMetaWord(inf, hf, rsv, seg))
					cur = c19Wit{Seg: seg, Inf: inf, Hf: hf, Rsv: rsv}
					var base scion.Base
					err := base.DecodeFromBytes(b[:])
					c19JudgeDecode(a, inf, hf, rsv, seg, kind, ninf, nhops, &base, err)
					lastErr = err
					if hf == (16*inf+s2)%64 {
						ru.baseExt(b[:], &base, err)
					}
				}
			}
			if k%16 == 15 {
				c19ReuseZero(ru, k/16, k)
			}
			a.class("decode/pattern=" + segPattern(seg) + "/hops=" + hopBucket(nhops) + "/" + outcome(lastErr))
			a.eventN("decode_"+outcome(lastErr), 256)
			if kind == shapeEmpty {
				a.class("decode/all-zero-seglens/" + outcome(lastErr) + "/unjudged")
			}
		}
	})
	if p != nil {
		a.violation("C19:panic:"+mon.PanicSite(stack), fmt.Sprintf("panic in Base.DecodeFromBytes: %v\n%s", p, stack), cur)
	}
}

// c19ReuseZero decodes the header with three zero SegLens into the long-lived
// Base of a sweep task and into a fresh one. (Whether that header is accepted
// is not judged; that a used object treats it like a fresh one is.)
func c19ReuseZero(ru *reuseStream, inf, hf uint8) {
	var z [4]byte
	binary.BigEndian.PutUint32(z[:], refMetaWord(inf, hf, 0, [3]uint8{}))
	var fresh scion.Base
	err := fresh.DecodeFromBytes(z[:])
	ru.baseExt(z[:], &fresh, err)
}

func eqInfo(i path.InfoField, r refInfo) bool {
	return i.Peer == r.Peer && i.ConsDir == r.ConsDir && i.SegID == r.SegID && i.Timestamp == r.TS
}

func eqHop(h path.HopField, r refHop) bool {
	return h.IngressRouterAlert == r.IngAlert && h.EgressRouterAlert == r.EgAlert &&
		h.ExpTime == r.Exp && h.ConsIngress == r.In && h.ConsEgress == r.Eg && h.Mac == r.Mac
}

// diffDecoded describes the first difference between an implementation path and
// the reference, "" if none. Pointers are compared as full uint8 values.
func diffDecoded(d *scion.Decoded, q *refScionPath) string {
	if d.PathMeta.CurrINF != q.Meta.Inf || d.PathMeta.CurrHF != q.Meta.Hf {
		return fmt.Sprintf("pointers (%d,%d) want (%d,%d)", d.PathMeta.CurrINF, d.PathMeta.CurrHF, q.Meta.Inf, q.Meta.Hf)
	}
	if d.PathMeta.SegLen != q.Meta.Seg {
		return fmt.Sprintf("SegLen %v want %v", d.PathMeta.SegLen, q.Meta.Seg)
	}
	if d.NumINF != len(q.Infos) || d.NumHops != len(q.Hops) || len(d.InfoFields) != len(q.Infos) ||
		len(d.HopFields) != len(q.Hops) {
		return fmt.Sprintf("dimensions %d/%d (%d/%d fields) want %d/%d", d.NumINF, d.NumHops,
			len(d.InfoFields), len(d.HopFields), len(q.Infos), len(q.Hops))
	}
	for i := range q.Infos {
		if !eqInfo(d.InfoFields[i], q.Infos[i]) {
			return fmt.Sprintf("info field %d: %+v want %+v", i, d.InfoFields[i], q.Infos[i])
		}
	}
	for i := range q.Hops {
		if !eqHop(d.HopFields[i], q.Hops[i]) {
			return fmt.Sprintf("hop field %d: %+v want %+v", i, d.HopFields[i], q.Hops[i])
		}
	}
	return ""
}

// posCode is a cheap injective code of posKind's result, used to avoid
// formatting the class key for each of the millions of states.
func posCode(seg [3]uint8, ninf, nhops int, inf, hf uint8) uint32 {
	if int(hf) >= nhops {
		if int(inf) >= ninf {
			return 1
		}
		return 2
	}
	idx, first, last := refSegOf(seg, int(hf))
	var c uint32 = 4
	switch {
	case first == last:
		c = 5
	case int(hf) == first:
		c = 6
	case int(hf) == last:
		c = 7
	}
	if int(hf) == nhops-1 {
		c |= 8
	}
	if hf == 0 {
		c |= 16
	}
	c |= uint32(idx) << 5
	switch {
	case int(inf) >= ninf:
		c |= 1 << 8
	case int(inf) != idx:
		c |= 2 << 8
	}
	return c
}

func posKind(seg [3]uint8, ninf, nhops int, inf, hf uint8) string {
	if int(hf) >= nhops {
		if int(inf) >= ninf {
			return "hf-out/inf-out"
		}
		return "hf-out/inf-in"
	}
	idx, first, last := refSegOf(seg, int(hf))
	k := "mid"
	switch {
	case first == last:
		k = "single-hop-seg"
	case int(hf) == first:
		k = "seg-first"
	case int(hf) == last:
		k = "seg-last"
	}
	if int(hf) == nhops-1 {
		k += "+path-last"
	}
	if hf == 0 {
		k += "+path-first"
	}
	switch {
	case int(inf) >= ninf:
		return fmt.Sprintf("seg%d/%s/inf-out", idx, k)
	case int(inf) != idx:
		return fmt.Sprintf("seg%d/%s/inf-other-seg", idx, k)
	}
	return fmt.Sprintf("seg%d/%s/consistent", idx, k)
}

// c19DeepShape runs the pointer, stepping, reverse and representation checks
// for one accepted shape with PRNG-sampled field contents.
func c19DeepShape(a *acc, rng *rand.Rand, seg [3]uint8, cleanReserved bool, allStatesRawReverse bool, ru *reuseStream, irng *rand.Rand) {
	_, ninf, nhops := refShape(seg)
	plen := refPathLen(ninf, nhops)
	mask := refScionPathMask(ninf, nhops)
	content := make([]byte, plen)
	for i := range content {
		content[i] = byte(rng.Uint32())
	}
	if cleanReserved {
		for i := range content {
			content[i] &^= mask[i]
		}
	}
	rsv := (content[1] >> 2) & 63
	setMeta := func(b []byte, inf, hf uint8) {
		binary.BigEndian.PutUint32(b, refMetaWord(inf, hf, rsv, seg))
	}
	setMeta(content, 0, 0)
	shapeCls := fmt.Sprintf("ninf=%d/hops=%s", ninf, hopBucket(nhops))
	cur := c19Wit{Seg: seg, Rsv: rsv, Content: hexs(content)}
	wit := func(inf, hf uint8, got, want string) c19Wit {
		var m [4]byte
		setMeta(m[:], inf, hf)
		return c19Wit{Seg: seg, Inf: inf, Hf: hf, Rsv: rsv, Meta: hexs(m[:]), Content: hexs(content), Got: got, Want: want}
	}
	work := make([]byte, plen)
	work2 := make([]byte, plen)

	p, stack := mon.Try(func() {
		// ---- the long-lived objects of this stream: an interlude, then this path ----
		if ru != nil {
			c19ReuseInterlude(ru, irng, content)
			c19ReuseFeed(ru, content)
		}
		// ---- representation agreement on sampled contents (pointer independent) ----
		ref0 := refParseScionPath(content)
		copy(work, content)
		var dec scion.Decoded
		if err := dec.DecodeFromBytes(work); err != nil {
			a.violation("C19:decode-rejects-good-shape", "Decoded.DecodeFromBytes: "+err.Error(), wit(0, 0, "error", "accepted"))
			return
		}
		a.evals++
		if d := diffDecoded(&dec, ref0); d != "" {
			a.violation("C19:raw-decoded/decoded-fields", "Decoded.DecodeFromBytes: "+d, wit(0, 0, d, ""))
		}
		var raw scion.Raw
		copy(work2, content)
		if err := raw.DecodeFromBytes(work2); err != nil {
			a.violation("C19:decode-rejects-good-shape", "Raw.DecodeFromBytes: "+err.Error(), wit(0, 0, "error", "accepted"))
			return
		}
		for i := 0; i < ninf; i++ {
			a.evals++
			inf, err := raw.GetInfoField(i)
			off := refMetaLen + refInfoLen*i // InfoFieldOffset = 4B + 8B*i
			if err != nil || !eqInfo(inf, refParseInfo(content[off:])) || !eqInfo(dec.InfoFields[i], refParseInfo(content[off:])) {
				a.violation("C19:raw-decoded/info-field", fmt.Sprintf("Raw.GetInfoField(%d)=%+v,%v Decoded=%+v bytes at offset %d say %+v",
					i, inf, err, dec.InfoFields[i], off, refParseInfo(content[off:])), wit(0, 0, "", ""))
			}
		}
		if _, err := raw.GetInfoField(ninf); err == nil {
			a.violation("C19:raw-decoded/info-index-bound", fmt.Sprintf("Raw.GetInfoField(%d) succeeds with NumINF=%d", ninf, ninf), wit(0, 0, "", ""))
		}
		for i := 0; i < nhops; i++ {
			a.evals++
			hop, err := raw.GetHopField(i)
			off := refMetaLen + refInfoLen*ninf + refHopLen*i // HopFieldOffset = 4B + 8B*NumINF + 12B*i
			if err != nil || !eqHop(hop, refParseHop(content[off:])) {
				a.violation("C19:raw-decoded/hop-field", fmt.Sprintf("Raw.GetHopField(%d)=%+v,%v; bytes at offset %d say %+v",
					i, hop, err, off, refParseHop(content[off:])), wit(0, 0, "", ""))
			}
		}
		if _, err := raw.GetHopField(nhops); err == nil {
			a.violation("C19:raw-decoded/hop-index-bound", fmt.Sprintf("Raw.GetHopField(%d) succeeds with NumHops=%d", nhops, nhops), wit(0, 0, "", ""))
		}
		a.evals++
		if r2, err := dec.ToRaw(); err != nil || !eqMasked(r2.Raw, content, mask) || r2.NumINF != ninf || r2.NumHops != nhops {
			a.violation("C19:raw-decoded/to-raw", fmt.Sprintf("Decoded.ToRaw: err=%v, bytes differ from the decoded input outside reserved bits", err), wit(0, 0, "", ""))
		}
		if d2, err := raw.ToDecoded(); err != nil {
			a.violation("C19:raw-decoded/to-decoded", "Raw.ToDecoded: "+err.Error(), wit(0, 0, "", ""))
		} else if d := diffDecoded(d2, ref0); d != "" {
			a.violation("C19:raw-decoded/to-decoded", "Raw.ToDecoded: "+d, wit(0, 0, d, ""))
		}
		a.class("repr/" + shapeCls + fmt.Sprintf("/reserved-clean=%v", cleanReserved))
		a.event("representation_checked")

		// ---- stepping from the first hop to the end ----
		copy(work, content)
		var st scion.Raw
		if err := st.DecodeFromBytes(work); err != nil {
			return
		}
		var sd scion.Decoded
		copy(work2, content)
		if err := sd.DecodeFromBytes(work2); err != nil {
			return
		}
		for k := 0; k < nhops; k++ {
			idx, _, _ := refSegOf(seg, k)
			cur.Inf, cur.Hf = uint8(idx), uint8(k)
			a.evals++
			if st.PathMeta.CurrHF != uint8(k) || st.PathMeta.CurrINF != uint8(idx) ||
				sd.PathMeta.CurrHF != uint8(k) || sd.PathMeta.CurrINF != uint8(idx) ||
				st.Raw[0] != uint8(idx)<<6|uint8(k) {
				a.violation("C19:incpath/stepping", fmt.Sprintf(
					"after %d IncPath calls from hop 0: Raw at (%d,%d) raw[0]=%#x, Decoded at (%d,%d); expected (%d,%d)",
					k, st.PathMeta.CurrINF, st.PathMeta.CurrHF, st.Raw[0], sd.PathMeta.CurrINF, sd.PathMeta.CurrHF, idx, k),
					wit(uint8(idx), uint8(k), "", ""))
				break
			}
			e1, e2 := st.IncPath(), sd.IncPath()
			if last := k == nhops-1; (e1 != nil) != last || (e2 != nil) != last {
				a.violation("C19:incpath/end", fmt.Sprintf("IncPath at hop %d of %d: Raw err=%v Decoded err=%v", k, nhops, e1, e2),
					wit(uint8(idx), uint8(k), "", ""))
				break
			}
			a.event("incpath_step")
		}
		if !eqMasked(st.Raw[1:], content[1:], mask[1:]) {
			a.violation("C19:incpath/clobber", "stepping a Raw path changed bytes other than the pointers", wit(0, 0, "", ""))
		}
		a.class("stepping/" + shapeCls)

		// ---- failed operations are part of the histories ----
		c19FailedOpsShape(a, ru, seg, content, ref0, mask)

		// ---- every pointer state ----
		rev0 := ref0.refReverse() // pointer-independent part of the reversed path
		reversedRef := func(inf, hf uint8) *refScionPath {
			return &refScionPath{Meta: refMeta{Inf: uint8(ninf - 1 - int(inf)), Hf: uint8(nhops - 1 - int(hf)), Rsv: rsv, Seg: rev0.Meta.Seg},
				Infos: rev0.Infos, Hops: rev0.Hops}
		}
		var d scion.Decoded
		dFresh := false
		work3 := make([]byte, plen)
		var nRevDecoded, nRevRaw, nBoundary int64
		seenPos := map[uint32]struct{}{}
		for inf := uint8(0); inf < 4; inf++ {
			for hf := uint8(0); hf < 64; hf++ {
				cur.Inf, cur.Hf = inf, hf
				copy(work, content)
				setMeta(work, inf, hf)
				var rw scion.Raw
				if err := rw.DecodeFromBytes(work); err != nil {
					a.violation("C19:decode-rejects-good-shape", "Raw.DecodeFromBytes: "+err.Error(), wit(inf, hf, "error", "accepted"))
					continue
				}
				hfIn := int(hf) < nhops
				infIn := int(inf) < ninf
				if pc := posCode(seg, ninf, nhops, inf, hf); true {
					if _, ok := seenPos[pc]; !ok {
						seenPos[pc] = struct{}{}
						a.class("state/" + fmt.Sprintf("ninf=%d/", ninf) + posKind(seg, ninf, nhops, inf, hf))
					}
				}
				consistent := false
				if hfIn {
					idx, first, last := refSegOf(seg, int(hf))
					consistent = infIn && int(inf) == idx
					// current info field == segment containing the current hop
					a.evals++
					if got := rw.CurrINFMatchesCurrHF(); got != (int(inf) == idx) {
						a.violation("C19:curr-inf-match", fmt.Sprintf(
							"CurrINFMatchesCurrHF()=%v with CurrINF=%d, CurrHF=%d in segment %d of %v", got, inf, hf, idx, seg),
							wit(inf, hf, fmt.Sprint(got), fmt.Sprint(!got)))
					}
					a.evals++
					if rw.IsLastHop() != (int(hf) == nhops-1) || rw.IsFirstHop() != (hf == 0) ||
						rw.IsPenultimateHop() != (int(hf) == nhops-2) {
						a.violation("C19:is-last-hop", fmt.Sprintf(
							"IsFirstHop/IsPenultimateHop/IsLastHop = %v/%v/%v at hop %d of %d",
							rw.IsFirstHop(), rw.IsPenultimateHop(), rw.IsLastHop(), hf, nhops), wit(inf, hf, "", ""))
					}
					if consistent {
						wantX := int(hf) == last && int(hf) != nhops-1
						wantF := idx > 0 && int(hf) == first
						a.evals += 2
						if got := rw.IsXover(); got != wantX {
							a.violation("C19:is-xover", fmt.Sprintf(
								"IsXover()=%v at hop %d (segment %d spans hops %d..%d of %d)", got, hf, idx, first, last, nhops),
								wit(inf, hf, fmt.Sprint(got), fmt.Sprint(wantX)))
						}
						if got := rw.IsFirstHopAfterXover(); got != wantF {
							a.violation("C19:is-first-hop-after-xover", fmt.Sprintf(
								"IsFirstHopAfterXover()=%v at hop %d (segment %d spans hops %d..%d)", got, hf, idx, first, last),
								wit(inf, hf, fmt.Sprint(got), fmt.Sprint(wantF)))
						}
						nBoundary++
						// current fields at the specified offsets
						a.evals++
						ci, e1 := rw.GetCurrentInfoField()
						ch, e2 := rw.GetCurrentHopField()
						io := refMetaLen + refInfoLen*int(inf)
						ho := refMetaLen + refInfoLen*ninf + refHopLen*int(hf)
						if e1 != nil || e2 != nil || !eqInfo(ci, refParseInfo(content[io:])) || !eqHop(ch, refParseHop(content[ho:])) {
							a.violation("C19:raw-decoded/current-fields", fmt.Sprintf(
								"GetCurrentInfoField/GetCurrentHopField = %+v,%v / %+v,%v; offsets %d/%d hold %+v / %+v",
								ci, e1, ch, e2, io, ho, refParseInfo(content[io:]), refParseHop(content[ho:])), wit(inf, hf, "", ""))
						}
					}
					// advancing: next hop, and the segment that contains it
					a.evals++
					err := rw.IncPath()
					if int(hf) == nhops-1 {
						if err == nil || rw.PathMeta.CurrHF != hf {
							a.violation("C19:incpath/end", fmt.Sprintf("IncPath at the last hop %d: err=%v, CurrHF now %d", hf, err, rw.PathMeta.CurrHF),
								wit(inf, hf, "", "error"))
						}
					} else {
						nidx, _, _ := refSegOf(seg, int(hf)+1)
						if err != nil || rw.PathMeta.CurrHF != hf+1 || int(rw.PathMeta.CurrINF) != nidx ||
							rw.Raw[0] != uint8(nidx)<<6|(hf+1) || !eqMasked(rw.Raw[1:], content[1:], mask[1:]) {
							a.violation("C19:incpath/step", fmt.Sprintf(
								"IncPath from (%d,%d): err=%v now (%d,%d) raw[0]=%#x; expected (%d,%d)",
								inf, hf, err, rw.PathMeta.CurrINF, rw.PathMeta.CurrHF, rw.Raw[0], nidx, hf+1),
								wit(inf, hf, "", ""))
						}
					}
				}

				// ---- Reverse on the decoded representation ----
				// The reference path differs between states only in its pointers; the
				// implementation object is decoded afresh whenever the previous state
				// did not leave it equal to the reference original.
				orig := &refScionPath{Meta: refMeta{Inf: inf, Hf: hf, Rsv: rsv, Seg: seg}, Infos: ref0.Infos, Hops: ref0.Hops}
				if !dFresh {
					copy(work3, content)
					if err := d.DecodeFromBytes(work3); err != nil {
						a.violation("C19:decode-rejects-good-shape", "Decoded.DecodeFromBytes: "+err.Error(), wit(inf, hf, "error", "accepted"))
						continue
					}
				}
				dFresh = false
				d.PathMeta.CurrINF, d.PathMeta.CurrHF = inf, hf
				a.evals++
				rp, err := d.Reverse()
				rd, ok := rp.(*scion.Decoded)
				if err != nil || !ok {
					a.violation("C19:reverse-once", fmt.Sprintf("Decoded.Reverse: %v (%T)", err, rp), wit(inf, hf, "", ""))
					continue
				}
				if consistent {
					a.evals++
					if df := diffDecoded(rd, reversedRef(inf, hf)); df != "" {
						a.violation("C19:reverse-once", "Decoded.Reverse: "+df, wit(inf, hf, df, ""))
					}
				}
				rp2, err := rd.Reverse()
				rd2, ok := rp2.(*scion.Decoded)
				if err != nil || !ok {
					a.violation("C19:reverse-twice", fmt.Sprintf("second Decoded.Reverse: %v", err), wit(inf, hf, "", ""))
					continue
				}
				if df := diffDecoded(rd2, orig); df != "" {
					a.violation("C19:reverse-twice", "Decoded.Reverse twice: "+df, wit(inf, hf, df, ""))
				} else if rd2 == &d {
					dFresh = true // restored: reusable for the next state
				}
				nRevDecoded++

				// ---- Reverse on the raw representation ----
				if !consistent && !allStatesRawReverse && (int(hf)+int(inf))%8 != 0 {
					continue
				}
				copy(work, content)
				setMeta(work, inf, hf)
				var r1 scion.Raw
				if err := r1.DecodeFromBytes(work); err != nil {
					continue
				}
				a.evals++
				if _, err := r1.Reverse(); err != nil {
					a.violation("C19:reverse-once", "Raw.Reverse: "+err.Error(), wit(inf, hf, "", ""))
					continue
				}
				if consistent {
					a.evals++
					q := reversedRef(inf, hf)
					qb := q.bytes()
					if !eqMasked(r1.Raw, qb, mask) || r1.PathMeta.CurrINF != q.Meta.Inf || r1.PathMeta.CurrHF != q.Meta.Hf ||
						r1.PathMeta.SegLen != q.Meta.Seg || r1.NumINF != ninf || r1.NumHops != nhops {
						a.violation("C19:reverse-once", fmt.Sprintf("Raw.Reverse: meta %+v, bytes %s; reference reversed path %s",
							r1.PathMeta, hexs(r1.Raw[:4]), hexs(qb[:4])), wit(inf, hf, hexs(r1.Raw), hexs(qb)))
					}
					// raw and decoded agree on the reversed path
					if rdd, err := r1.ToDecoded(); err != nil {
						a.violation("C19:raw-decoded/to-decoded", "ToDecoded after Reverse: "+err.Error(), wit(inf, hf, "", ""))
					} else if df := diffDecoded(rdd, q); df != "" {
						a.violation("C19:raw-decoded/to-decoded", "ToDecoded after Reverse: "+df, wit(inf, hf, df, ""))
					}
				}
				if _, err := r1.Reverse(); err != nil {
					a.violation("C19:reverse-twice", "second Raw.Reverse: "+err.Error(), wit(inf, hf, "", ""))
					continue
				}
				copy(work2, content)
				setMeta(work2, inf, hf)
				if !eqMasked(r1.Raw, work2, mask) || r1.PathMeta.CurrINF != inf || r1.PathMeta.CurrHF != hf || r1.PathMeta.SegLen != seg {
					a.violation("C19:reverse-twice", fmt.Sprintf("Raw.Reverse twice: meta %+v bytes %s, started from %s",
						r1.PathMeta, hexs(r1.Raw[:4]), hexs(work2[:4])), wit(inf, hf, hexs(r1.Raw), hexs(work2)))
				}
				nRevRaw++
			}
		}
		a.eventN("reverse_decoded", nRevDecoded)
		a.eventN("reverse_raw", nRevRaw)
		a.eventN("boundary_predicates", nBoundary)
	})
	if p != nil {
		a.violation("C19:panic:"+mon.PanicSite(stack), fmt.Sprintf("panic: %v\n%s", p, stack), cur)
	}
}

// ---- failed operations as part of the histories ----
//
// The statement's invariants are invariants of the object, not of the calls
// that succeed: a path that was walked to its last hop and asked to advance
// once more (the call fails, as it must) is still the same path at its last
// hop. The failed-operation monitor takes a fresh scion.Base, scion.Raw and
// scion.Decoded and the three long-lived ones of the reuse stream, all holding
// the shape's path, walks each to the last hop, calls IncPath again one to three
// times (every call must fail) and, where the type has them, other calls that
// must fail (Get/Set*Field with the first index out of range, SerializeTo into
// a buffer one byte too short). After every failed call the object must report
// what it reported before it, and what it reports is judged against the
// reference: CurrHF is the last hop, CurrINF the segment containing it,
// IsXover/IsFirstHopAfterXover/IsLastHop/CurrINFMatchesCurrHF, dimensions and
// Len(), the current info/hop field, SerializeTo reproduces the path with these
// pointers, Raw.ToDecoded and Decoded.ToRaw agree with it, Reverse gives the
// reference reversal and a second Reverse the state before. For part of the
// shapes the history goes on: the reversed path is walked to its end, asked to
// advance again, and reversed, which must give the original path at hop 0.
// Decoding a rejected header into an object is still not looked at.

type c19Subject struct {
	name string
	b    *scion.Base
	raw  *scion.Raw
	dec  *scion.Decoded
}

func (s *c19Subject) inc() error {
	switch {
	case s.raw != nil:
		return s.raw.IncPath()
	case s.dec != nil:
		return s.dec.IncPath()
	}
	return s.b.IncPath()
}

// c19Obs is what an object reports about itself.
type c19Obs struct {
	meta              scion.MetaHdr
	numINF, numHops   int
	length            int
	xover, firstAfter bool
	match, last       bool   // Raw only
	held              []byte // Raw only: the bytes the object holds (PathMeta written back)
	ser               []byte // Raw, Decoded: SerializeTo into exactly Len() bytes
	serErr            bool
}

func (s *c19Subject) observe(o *c19Obs) {
	b := s.b
	o.meta, o.numINF, o.numHops, o.length = b.PathMeta, b.NumINF, b.NumHops, b.Len()
	o.xover, o.firstAfter = b.IsXover(), b.IsFirstHopAfterXover()
	if s.raw != nil {
		o.match, o.last = s.raw.CurrINFMatchesCurrHF(), s.raw.IsLastHop()
	}
	if s.raw == nil && s.dec == nil {
		return
	}
	n := max(o.length, 0)
	if cap(o.ser) < n {
		o.ser = make([]byte, n, 2*n)
	}
	o.ser = o.ser[:n:n]
	clear(o.ser)
	var err error
	if s.raw != nil {
		err = s.raw.SerializeTo(o.ser)
		// taken after SerializeTo, which writes PathMeta (with zero RSV bits) into the
		// bytes the path holds: the observation itself must not count as a change
		o.held = append(o.held[:0], s.raw.Raw...)
	} else {
		err = s.dec.SerializeTo(o.ser)
	}
	o.serErr = err != nil
}

// diff describes the first thing o reports differently from p, "" if nothing.
func (o *c19Obs) diff(p *c19Obs) string {
	switch {
	case o.meta != p.meta:
		return fmt.Sprintf("PathMeta %+v, before %+v", o.meta, p.meta)
	case o.numINF != p.numINF || o.numHops != p.numHops || o.length != p.length:
		return fmt.Sprintf("NumINF/NumHops/Len() %d/%d/%d, before %d/%d/%d", o.numINF, o.numHops, o.length, p.numINF, p.numHops, p.length)
	case o.xover != p.xover || o.firstAfter != p.firstAfter:
		return fmt.Sprintf("IsXover/IsFirstHopAfterXover %v/%v, before %v/%v", o.xover, o.firstAfter, p.xover, p.firstAfter)
	case o.match != p.match || o.last != p.last:
		return fmt.Sprintf("CurrINFMatchesCurrHF/IsLastHop %v/%v, before %v/%v", o.match, o.last, p.match, p.last)
	case string(o.held) != string(p.held):
		return fmt.Sprintf("the bytes the Raw path holds: %x.., before %x..", o.held[:min(4, len(o.held))], p.held[:min(4, len(p.held))])
	case o.serErr != p.serErr:
		return fmt.Sprintf("SerializeTo into Len() bytes fails: %v, before: %v", o.serErr, p.serErr)
	case string(o.ser) != string(p.ser):
		return fmt.Sprintf("SerializeTo writes %x.., before %x..", o.ser[:min(4, len(o.ser))], p.ser[:min(4, len(p.ser))])
	}
	return ""
}

// c19FailedCtx is one subject's history under the failed-operation monitor.
type c19FailedCtx struct {
	a       *acc
	s       *c19Subject
	content []byte // the path as first decoded (pointers 0,0)
	mask    []byte
	ops     []string // calls made so far
	verdict bool     // something was reported
	before  c19Obs
	now     c19Obs
}

func (c *c19FailedCtx) report(prefix, what, msg string, want *refScionPath) {
	c.verdict = true
	m := c.s.b.PathMeta
	c.a.violation(prefix+what, fmt.Sprintf(
		"%s, SegLen=%v, after [%s]: %s", c.s.name, want.Meta.Seg, strings.Join(c.ops, " "), msg),
		c19Wit{Seg: refParseMeta(c.content).Seg, Inf: m.CurrINF, Hf: m.CurrHF, Rsv: want.Meta.Rsv, Content: hexs(c.content),
			Object: c.s.name, Ops: strings.Join(c.ops, " "), Got: msg,
			Want: fmt.Sprintf("CurrINF=%d CurrHF=%d", want.Meta.Inf, want.Meta.Hf)})
}

// judge compares what the object reports now with the reference path want
// (pointers included) and, if before is set, with what it reported before the
// failed call. op is the key prefix: it names the failed call and the object.
func (c *c19FailedCtx) judge(op string, want *refScionPath, wantBytes []byte, cmpBefore bool) {
	s, o := c.s, &c.now
	s.observe(o)
	c.a.evals++
	seg, ninf, nhops := want.Meta.Seg, len(want.Infos), len(want.Hops)
	if o.meta.SegLen != seg || o.numINF != ninf || o.numHops != nhops || o.length != refPathLen(ninf, nhops) {
		c.report(op, "dims", fmt.Sprintf("SegLen %v NumINF %d NumHops %d Len() %d; the path has SegLen %v, %d segments, %d hops, %d bytes",
			o.meta.SegLen, o.numINF, o.numHops, o.length, seg, ninf, nhops, refPathLen(ninf, nhops)), want)
		return
	}
	hf := int(o.meta.CurrHF)
	if hf != int(want.Meta.Hf) {
		c.report(op, "curr-hf", fmt.Sprintf("CurrHF is %d, the current hop was %d", hf, want.Meta.Hf), want)
	}
	consistent := false
	if hf < nhops {
		idx, first, last := refSegOf(seg, hf)
		consistent = int(o.meta.CurrINF) == idx
		if !consistent {
			c.report(op, "curr-inf", fmt.Sprintf("CurrINF is %d, hop %d lies in segment %d (hops %d..%d)", o.meta.CurrINF, hf, idx, first, last), want)
		}
		if s.raw != nil && (o.match != consistent || o.last != (hf == nhops-1)) {
			c.report(op, "predicates", fmt.Sprintf("CurrINFMatchesCurrHF()=%v IsLastHop()=%v with CurrINF=%d CurrHF=%d, segment %d, %d hops",
				o.match, o.last, o.meta.CurrINF, hf, idx, nhops), want)
		}
		if consistent {
			wantX := hf == last && hf != nhops-1
			wantF := idx > 0 && hf == first
			if o.xover != wantX || o.firstAfter != wantF {
				c.report(op, "predicates", fmt.Sprintf("IsXover()=%v IsFirstHopAfterXover()=%v at hop %d (segment %d spans %d..%d of %d hops); expected %v/%v",
					o.xover, o.firstAfter, hf, idx, first, last, nhops, wantX, wantF), want)
			}
		}
	}
	if cmpBefore {
		if d := o.diff(&c.before); d != "" {
			c.report(op, "state-changed", "the failed call changed what the object reports: "+d, want)
		}
	}
	switch {
	case s.raw != nil:
		if o.serErr || !eqMasked(o.ser, wantBytes, c.mask) {
			c.report(op, "serialize", fmt.Sprintf("SerializeTo (failed: %v) writes meta %x, the path at its current hop is %x",
				o.serErr, o.ser[:min(4, len(o.ser))], wantBytes[:4]), want)
		}
		if d2, err := s.raw.ToDecoded(); err != nil {
			c.report(op, "raw-decoded", "Raw.ToDecoded: "+err.Error(), want)
		} else if d := diffDecoded(d2, want); d != "" {
			c.report(op, "raw-decoded", "Raw.ToDecoded: "+d, want)
		}
		if consistent && hf == int(want.Meta.Hf) {
			ci, e1 := s.raw.GetCurrentInfoField()
			ch, e2 := s.raw.GetCurrentHopField()
			if e1 != nil || e2 != nil || !eqInfo(ci, want.Infos[want.Meta.Inf]) || !eqHop(ch, want.Hops[want.Meta.Hf]) {
				c.report(op, "current-fields", fmt.Sprintf("GetCurrentInfoField/GetCurrentHopField = %+v,%v / %+v,%v; the path holds %+v / %+v there",
					ci, e1, ch, e2, want.Infos[want.Meta.Inf], want.Hops[want.Meta.Hf]), want)
			}
		} else if _, e1 := s.raw.GetCurrentInfoField(); e1 != nil {
			c.report(op, "current-fields", "GetCurrentInfoField: "+e1.Error(), want)
		}
	case s.dec != nil:
		if o.serErr || !eqMasked(o.ser, wantBytes, c.mask) {
			c.report(op, "serialize", fmt.Sprintf("SerializeTo (failed: %v) writes meta %x, the path at its current hop is %x",
				o.serErr, o.ser[:min(4, len(o.ser))], wantBytes[:4]), want)
		}
		if d := diffDecoded(s.dec, want); d != "" {
			c.report(op, "decoded-fields", "Decoded: "+d, want)
		}
		if r2, err := s.dec.ToRaw(); err != nil {
			c.report(op, "raw-decoded", "Decoded.ToRaw: "+err.Error(), want)
		} else if !eqMasked(r2.Raw, wantBytes, c.mask) || r2.PathMeta.CurrINF != want.Meta.Inf || r2.PathMeta.CurrHF != want.Meta.Hf {
			c.report(op, "raw-decoded", fmt.Sprintf("Decoded.ToRaw: meta %+v bytes %x, the path at its current hop is %x", r2.PathMeta, r2.Raw[:4], wantBytes[:4]), want)
		}
	}
	c.a.event("failed_ops_state_judged")
}

// failing calls other than IncPath; each returns whether the call failed
// (a call that unexpectedly succeeds is not judged here).
func (s *c19Subject) failGet() bool {
	_, e1 := s.raw.GetInfoField(s.raw.NumINF)
	_, e2 := s.raw.GetHopField(s.raw.NumHops)
	return e1 != nil && e2 != nil
}

func (s *c19Subject) failSet() bool {
	e1 := s.raw.SetInfoField(path.InfoField{SegID: 0xFFFF, Timestamp: 0xFFFFFFFF, ConsDir: true, Peer: true}, s.raw.NumINF)
	e2 := s.raw.SetHopField(path.HopField{ExpTime: 0xFF, ConsIngress: 0xFFFF, ConsEgress: 0xFFFF, Mac: [6]byte{1, 2, 3, 4, 5, 6}}, s.raw.NumHops)
	return e1 != nil && e2 != nil
}

func (s *c19Subject) failSerializeShort(scratch *[]byte) bool {
	n := s.b.Len() - 1
	if n < 0 {
		return false
	}
	b := zeroed(scratch, n)
	if s.raw != nil {
		return s.raw.SerializeTo(b) != nil
	}
	return s.dec.SerializeTo(b) != nil
}

// c19FailedOps plays the history described above on one subject that holds the
// path ref0 (any pointer position on the way from hop 0). sel chooses how many
// failing IncPath calls and which other failing calls are made.
func c19FailedOps(a *acc, s *c19Subject, content []byte, ref0 *refScionPath, mask []byte, sel uint8) {
	c := &c19FailedCtx{a: a, s: s, content: content, mask: mask}
	ninf, nhops := len(ref0.Infos), len(ref0.Hops)
	cls := "failed-ops/" + s.name + "/"
	after := func(op string) string { return "C19:after-failed-" + op + ":" + s.name + ":" }
	var scratch []byte
	want := &refScionPath{Meta: ref0.Meta, Infos: ref0.Infos, Hops: ref0.Hops}
	legs := 1
	if (s.raw != nil || s.dec != nil) && sel&0x40 != 0 {
		legs = 2
	}
	for leg := 0; leg < legs; leg++ {
		// ---- to the last hop ----
		steps := 0
		for int(s.b.PathMeta.CurrHF) < nhops-1 && steps < 64 {
			if err := s.inc(); err != nil {
				c.ops = append(c.ops, "IncPath:error")
				c.report("C19:walked-to-end:"+s.name+":", "incpath", fmt.Sprintf("IncPath at hop %d of %d fails: %v", s.b.PathMeta.CurrHF, nhops, err), want)
				return
			}
			steps++
		}
		c.ops = append(c.ops, fmt.Sprintf("IncPath:ok*%d", steps))
		idx, _, _ := refSegOf(want.Meta.Seg, nhops-1)
		want.Meta.Inf, want.Meta.Hf = uint8(idx), uint8(nhops-1)
		wantBytes := want.bytes()
		// the state the failing calls start from (the reuse monitor has already asked
		// its objects to advance once: on a one-hop path that call was a failing one)
		if start := "C19:walked-to-end:" + s.name + ":"; leg == 0 && nhops == 1 && strings.HasPrefix(s.name, "reused-") {
			c.ops = append(c.ops, "(IncPath:failed before)")
			c.judge(after("incpath"), want, wantBytes, false)
		} else {
			c.judge(start, want, wantBytes, false)
		}
		if c.verdict {
			return
		}
		c.before, c.now = c.now, c.before // (the slices are swapped along: no aliasing)
		// ---- IncPath again: must fail, must leave the object as it was ----
		nInc := 1 + int(sel%3)
		for k := 0; k < nInc; k++ {
			if err := s.inc(); err == nil {
				c.ops = append(c.ops, "IncPath:ok")
				a.violation("C19:incpath/end", fmt.Sprintf("%s: IncPath at the last hop %d of SegLen=%v succeeds (call %d at the end)", s.name, nhops-1, want.Meta.Seg, k+1),
					c19Wit{Seg: want.Meta.Seg, Inf: want.Meta.Inf, Hf: want.Meta.Hf, Content: hexs(content), Object: s.name, Ops: strings.Join(c.ops, " ")})
				return
			}
			c.ops = append(c.ops, "IncPath:failed")
			a.event("failed_incpath")
			c.judge(after("incpath"), want, wantBytes, true)
			if c.verdict {
				return // attributed to this call; what later calls would report follows from it
			}
		}
		a.class(fmt.Sprintf("%sninf=%d/incpath-at-end", cls, ninf))
		a.class(fmt.Sprintf("%sincpath-at-end-x%d", cls, nInc))
		if nhops == 1 {
			a.class(cls + "single-hop-path")
		}
		if leg == 1 {
			a.class(cls + "incpath-at-end-of-reversed-path")
		}
		// ---- other calls that must fail ----
		other, failed := "", false
		switch {
		case s.raw != nil && (sel>>2)%4 == 1:
			other, failed = "get-field", s.failGet()
		case s.raw != nil && (sel>>2)%4 == 2:
			other, failed = "set-field", s.failSet()
		case s.raw != nil && (sel>>2)%4 == 3, s.dec != nil && (sel>>2)%2 == 1:
			other, failed = "serialize-short", s.failSerializeShort(&scratch)
		}
		if other != "" {
			if !failed {
				c.ops = append(c.ops, other+":ok")
				a.class(cls + other + "/succeeded-unjudged")
			} else {
				c.ops = append(c.ops, other+":failed")
				a.event("failed_" + other)
				a.class(cls + other)
				c.judge(after(other), want, wantBytes, true)
				if c.verdict {
					return
				}
				if sel&0x20 != 0 { // and a retry of the advance after it
					if err := s.inc(); err != nil {
						c.ops = append(c.ops, "IncPath:failed")
						a.event("failed_incpath")
						a.class(cls + "incpath-after-" + other)
						c.judge(after("incpath"), want, wantBytes, true)
						if c.verdict {
							return
						}
					}
				}
			}
		}
		if s.raw == nil && s.dec == nil {
			break
		}
		// ---- Reverse: the reference reversal; again: the state before ----
		reverse := func() bool {
			var err error
			if s.raw != nil {
				_, err = s.raw.Reverse()
			} else {
				_, err = s.dec.Reverse()
			}
			if err != nil {
				c.ops = append(c.ops, "Reverse:error")
				c.report(after("incpath"), "reverse-error", "Reverse: "+err.Error(), want)
				return false
			}
			c.ops = append(c.ops, "Reverse")
			return true
		}
		rev := want.refReverse()
		if !reverse() {
			return
		}
		c.judge(after("incpath")+"reverse-once/", rev, rev.bytes(), false)
		if c.verdict {
			return
		}
		if leg == legs-1 {
			if !reverse() {
				return
			}
			c.judge(after("incpath")+"reverse-twice/", want, wantBytes, false)
			a.event("failed_ops_reverse_twice")
			break
		}
		want = rev // the reversed path, at its hop 0: walked to its end in the next leg
	}
	if legs == 2 && !c.verdict {
		// the path was reversed, walked to the end, asked to advance, reversed twice
		// (state before), and is reversed once more: the original path at hop 0
		var err error
		if s.raw != nil {
			_, err = s.raw.Reverse()
		} else {
			_, err = s.dec.Reverse()
		}
		c.ops = append(c.ops, "Reverse")
		if err != nil {
			c.report(after("incpath"), "reverse-error", "Reverse: "+err.Error(), want)
			return
		}
		orig := &refScionPath{Meta: ref0.Meta, Infos: ref0.Infos, Hops: ref0.Hops}
		orig.Meta.Inf, orig.Meta.Hf = 0, 0
		c.judge(after("incpath")+"reversed-walked-failed-reversed/", orig, orig.bytes(), false)
		a.class(cls + "reversed-walked-failed-reversed")
	}
}

// c19FailedOpsShape runs the failed-operation monitor for one shape: on fresh
// objects decoded from content and on the long-lived objects of the reuse
// stream (which c19ReuseFeed has just handed the same bytes).
func c19FailedOpsShape(a *acc, ru *reuseStream, seg [3]uint8, content []byte, ref0 *refScionPath, mask []byte) {
	_, ninf, nhops := refShape(seg)
	plen := refPathLen(ninf, nhops)
	sel := content[plen-1] // a PRNG byte (MAC of the last hop field)
	var fb scion.Base
	var fr scion.Raw
	var fd scion.Decoded
	if fb.DecodeFromBytes(content) == nil {
		c19FailedOps(a, &c19Subject{name: "base", b: &fb}, content, ref0, mask, sel)
	}
	if fr.DecodeFromBytes(append([]byte(nil), content...)) == nil {
		c19FailedOps(a, &c19Subject{name: "raw", b: &fr.Base, raw: &fr}, content, ref0, mask, sel>>1|sel<<7)
	}
	if fd.DecodeFromBytes(content) == nil {
		c19FailedOps(a, &c19Subject{name: "decoded", b: &fd.Base, dec: &fd}, content, ref0, mask, sel>>2|sel<<6)
	}
	if ru == nil {
		return
	}
	// the long-lived objects: only if they hold this path (that they do after
	// decoding it is the reuse monitor's business)
	holds := func(b *scion.Base) bool { return b.PathMeta.SegLen == seg && b.NumINF == ninf && b.NumHops == nhops }
	if holds(&ru.base) {
		c19FailedOps(a, &c19Subject{name: "reused-base", b: &ru.base}, content, ref0, mask, sel>>3|sel<<5)
	}
	if holds(&ru.raw.Base) && len(ru.raw.Raw) == plen {
		c19FailedOps(a, &c19Subject{name: "reused-raw", b: &ru.raw.Base, raw: &ru.raw}, content, ref0, mask, sel>>4|sel<<4)
	}
	if holds(&ru.dec.Base) && len(ru.dec.InfoFields) == ninf && len(ru.dec.HopFields) == nhops {
		c19FailedOps(a, &c19Subject{name: "reused-decoded", b: &ru.dec.Base, dec: &ru.dec}, content, ref0, mask, sel>>5|sel<<3)
	}
}

// c19Packet wraps path bytes into a SCION header with 4-byte host addresses.
func c19Packet(region []byte) []byte {
	a := refAddrHdr{DstIA: 0x0001ff0000000110, SrcIA: 0x0002ff0000000220, Dst: []byte{10, 0, 0, 1}, Src: []byte{10, 0, 0, 2}}
	c := refCmn{Flow: 1, NextHdr: protoUDP, HdrLen: uint8((36 + len(region)) / 4), PathType: 1}
	return refEncodeSCION(c, &a, region)
}

// c19ReuseFeed decodes the bytes of a path into the long-lived Base, Raw and
// Decoded, and the same path inside a packet into the two long-lived SCION
// layers, each compared with a fresh object.
func c19ReuseFeed(ru *reuseStream, region []byte) {
	ru.scionPath(region, false)
	if len(region)%4 == 0 && 36+len(region) <= 1020 {
		pkt := c19Packet(region)
		ru.layer(true, pkt, nil, nil, nil, nil)
		ru.layer(false, pkt, nil, nil, nil, nil)
	}
}

// c19ReuseInterlude hands the long-lived objects something else between two
// accepted shapes: the header without segments, shapes that must be rejected,
// a truncated path, or a minimal path. The inputs come from the same meta
// header space as everything else in this check; the point is the order.
func c19ReuseInterlude(ru *reuseStream, irng *rand.Rand, content []byte) {
	meta := func(seg [3]uint8, tail []byte) []byte {
		b := binary.BigEndian.AppendUint32(nil, refMetaWord(uint8(irng.IntN(4)), uint8(irng.IntN(64)), uint8(irng.IntN(64)), seg))
		return append(b, tail...)
	}
	nz := func() uint8 { return uint8(1 + irng.IntN(63)) }
	switch irng.IntN(8) {
	case 0, 1:
		ru.a.class("reuse/interlude/none")
	case 2:
		ru.a.class("reuse/interlude/header-without-segments")
		c19ReuseFeed(ru, meta([3]uint8{}, nil))
	case 3:
		ru.a.class("reuse/interlude/header-without-segments+trailing-bytes")
		c19ReuseFeed(ru, meta([3]uint8{}, content[4:min(len(content), 16)]))
	case 4:
		ru.a.class("reuse/interlude/gap-shape")
		seg := [][3]uint8{{0, nz(), 0}, {0, 0, nz()}, {nz(), 0, nz()}, {0, nz(), nz()}}[irng.IntN(4)]
		c19ReuseFeed(ru, meta(seg, content[4:]))
	case 5:
		ru.a.class("reuse/interlude/more-than-64-hops")
		c19ReuseFeed(ru, meta([3]uint8{uint8(33 + irng.IntN(31)), uint8(32 + irng.IntN(32)), uint8(irng.IntN(64))}, content[4:]))
	case 6:
		ru.a.class("reuse/interlude/truncated-path")
		n := 4 * (1 + irng.IntN(len(content)/4-1))
		c19ReuseFeed(ru, content[:n])
	case 7:
		ru.a.class("reuse/interlude/one-hop-one-segment")
		tail := make([]byte, refInfoLen+refHopLen)
		for i := range tail {
			tail[i] = byte(irng.Uint32())
		}
		c19ReuseFeed(ru, meta([3]uint8{1, 0, 0}, tail))
	}
}

func c19Replay(r *mon.Run) bool {
	f := r.ReplayFile()
	if f == "" {
		return false
	}
	b, err := os.ReadFile(f)
	var rec struct {
		Witness c19Wit `json:"witness"`
	}
	if err != nil || json.Unmarshal(b, &rec) != nil {
		fmt.Printf("C19: cannot read replay file %s: %v\n", f, err)
		os.Exit(2)
	}
	var rw struct {
		Witness reuseWit `json:"witness"`
	}
	if json.Unmarshal(b, &rw) == nil && rw.Witness.Dir == "reuse" {
		// the recorded input history into a new set of long-lived objects
		r.Rule = "replay of one input history of the reuse monitor"
		a := newAcc()
		if err := newReuseStream("C19", a, true).replay(&rw.Witness); err != nil {
			fmt.Printf("C19: cannot replay %s: %v\n", f, err)
			os.Exit(2)
		}
		a.sample(rw.Witness)
		a.class("replay")
		a.class("replay/reuse")
		a.flush(r)
		return true
	}
	seg := rec.Witness.Seg
	kind, _, _ := refShape(seg)
	fmt.Printf("C19 replay: SegLen=%v (%s)\n", seg, kind)
	r.Rule = "replay of one shape: all 256 pointer values"
	a := newAcc()
	c19SweepTask(a, seg[0], seg[1], func([3]uint8, uint8, uint8) uint8 { return rec.Witness.Rsv })
	if kind == shapeOK {
		c19DeepShape(a, r.Rand("replay"), seg, true, true, nil, nil)
		c19DeepShape(a, r.Rand("replay2"), seg, false, true, nil, nil)
	}
	a.sample(rec.Witness)
	a.class("replay")
	a.flush(r)
	return true
}

func checkC19(r *mon.Run) {
	if c19Replay(r) {
		return
	}
	r.Rule = "phase A: every (CurrINF, CurrHF, Seg0Len, Seg1Len, Seg2Len) combination (2^26 headers, RSV=0) through " +
		"scion.Base.DecodeFromBytes, verdict and decoded dimensions compared with the documented shape rule; then every " +
		"shape once more with PRNG-chosen non-zero RSV bits and pointers; phase B: for accepted shapes x all 256 pointer " +
		"values, with PRNG-sampled info/hop field contents: CurrINFMatchesCurrHF, IsXover, IsFirstHopAfterXover, " +
		"IsFirst/Penultimate/LastHop, IncPath (single step and stepping from hop 0 to the end), Reverse (once against the " +
		"reference reversal, twice against the original) on Raw and Decoded, ToRaw/ToDecoded/Get*Field agreement. " +
		"class = decode pattern (which SegLens are zero) x hop-count bucket x outcome; pointer state kind " +
		"(NumINF x segment x position in segment x pointer consistency); representation/stepping per NumINF x hop bucket. " +
		"Reuse monitor: in phase A one scion.Base per (Seg0Len, Seg1Len) task decodes four headers of every shape (Seg2Len in the order " +
		"0,63,1,62,...) and the all-zero header after every 16th shape; in phase B one scion.Base, scion.Raw, scion.Decoded and two " +
		"slayers.SCION layers (with/without RecyclePaths, the path wrapped into a packet) per stream of 32 shapes decode every shape's bytes, " +
		"with a PRNG-chosen interlude before each (header without segments, gap shape, more than 64 hops, truncated path, one-hop path); " +
		"each is compared with a fresh object on the same bytes: decision, fields, Len(), SerializeTo into exactly Len() bytes, IncPath. " +
		"reuse/<object>/<what the object decoded before>. Failed-operation monitor: per accepted shape a fresh scion.Base, Raw and Decoded and the " +
		"three long-lived ones of the reuse stream are walked to the last hop and asked to advance again 1-3 times (must fail), Raw/Decoded also " +
		"get other calls that must fail (Get/Set*Field one past the last index, SerializeTo into Len()-1 bytes, a further IncPath after those); after " +
		"every failed call the object must report what it reported before and what the reference says about the path at its last hop (CurrINF = " +
		"segment of CurrHF, predicates, dimensions, current fields, SerializeTo bytes, ToDecoded/ToRaw agreement), Reverse must give the reference " +
		"reversal and Reverse again the state before; for a PRNG-chosen half the reversed path is walked to its end, asked to advance, and reversed " +
		"back to the original at hop 0; failed-ops/<object>/<calls>"
	r.Assumptions = []string{
		"the all-zero SegLen header (and only it) is recorded but not judged: the statement does not fix it",
		"IsXover/IsFirstHopAfterXover/single Reverse are judged only where CurrINF designates the segment containing an in-range CurrHF; other pointer states are judged for CurrINFMatchesCurrHF, hop position predicates, IncPath and Reverse-twice only",
		"reserved bits are compared under the mask derived from scion-header.rst (serialization may clear them)",
		"hop/info field contents are sampled (one or more random fillings per shape), not enumerated",
		"reuse monitor: whether the all-zero SegLen header is accepted is still not judged, that a used object answers it like a fresh one is; the state of an object after a rejected decode is not looked at",
		"failed-operation monitor: failing calls are made only on a path standing at its last hop with CurrINF designating that hop's segment (IncPath with an out-of-range CurrHF clamps it, which the statement does not speak about); a Get/Set*Field or short SerializeTo that unexpectedly succeeds is recorded, not judged; whether the bytes a scion.Raw holds lag behind its PathMeta is not judged, only that a failed call does not change them",
	}

	// The rejecting decodes allocate an error with a stack trace each; with 16
	// workers the default GC pacing makes the collector the bottleneck.
	// (measured on 16 idle cores: phase A 37 s at GOGC=100, 8 s at 1600.)
	defer debug.SetGCPercent(debug.SetGCPercent(1600))
	// ---- phase A: the complete 2^26 space, RSV = 0 ----
	t0 := time.Now() // reporting only, never part of a verdict
	runTasks(r, 64*64, func(t int, a *acc) {
		c19SweepTask(a, uint8(t>>6), uint8(t&63), func([3]uint8, uint8, uint8) uint8 { return 0 })
	})
	r.Extra("meta_headers_enumerated", 1<<26)
	r.Extra("phase_a_wall_s", time.Since(t0).Seconds())

	// ---- phase A2: reserved bits toggled ----
	rsvRounds := r.Pick(1, 8)
	for round := 0; round < rsvRounds; round++ {
		runTasks(r, 64, func(t int, a *acc) {
			rng := r.Rand(fmt.Sprintf("rsv/%d/%d", round, t))
			var cur c19Wit
			ru := newReuseStream("C19", a, false)
			p, stack := mon.Try(func() {
				for s1 := uint8(0); s1 < 64; s1++ {
					for s2 := uint8(0); s2 < 64; s2++ {
						seg := [3]uint8{uint8(t), s1, s2}
						kind, ninf, nhops := refShape(seg)
						inf, hf, rsv := uint8(rng.IntN(4)), uint8(rng.IntN(64)), uint8(1+rng.IntN(63))
						cur = c19Wit{Seg: seg, Inf: inf, Hf: hf, Rsv: rsv}
						var b [4]byte
						binary.BigEndian.PutUint32(b[:], refMetaWord(inf, hf, rsv, seg))
						var base scion.Base
						err := base.DecodeFromBytes(b[:])
						c19JudgeDecode(a, inf, hf, rsv, seg, kind, ninf, nhops, &base, err)
						a.event("rsv_toggled_" + outcome(err))
						ru.baseExt(b[:], &base, err)
						if s2 == 40 && s1%8 == 7 {
							c19ReuseZero(ru, inf, hf)
						}
					}
				}
				a.class("decode/rsv-nonzero")
			})
			if p != nil {
				a.violation("C19:panic:"+mon.PanicSite(stack), fmt.Sprintf("panic: %v\n%s", p, stack), cur)
			}
		})
	}

	// ---- phase B ----
	var shapes [][3]uint8
	for s0 := 1; s0 < 64; s0++ {
		for s1 := 0; s1 < 64; s1++ {
			for s2 := 0; s2 < 64; s2++ {
				seg := [3]uint8{uint8(s0), uint8(s1), uint8(s2)}
				if k, _, _ := refShape(seg); k == shapeOK {
					shapes = append(shapes, seg)
				}
			}
		}
	}
	total := len(shapes)
	all := r.Thorough() || c19QuickFraction >= 1
	if !all {
		sel := r.Rand("c19/subset")
		sel.Shuffle(len(shapes), func(i, j int) { shapes[i], shapes[j] = shapes[j], shapes[i] })
		shapes = shapes[:int(float64(len(shapes))*c19QuickFraction)]
	}
	fillings := r.Pick(1, 3)
	const chunk = 32
	ntasks := (len(shapes) + chunk - 1) / chunk
	runTasks(r, ntasks, func(t int, a *acc) {
		rng := r.Rand(fmt.Sprintf("c19/deep/%d", t))
		// the long-lived decoder objects of this stream of shapes, and the PRNG
		// that chooses what they are handed between two shapes
		ru := newReuseStream("C19", a, true)
		irng := r.Rand(fmt.Sprintf("c19/reuse/%d", t))
		for i := t * chunk; i < (t+1)*chunk && i < len(shapes); i++ {
			for f := 0; f < fillings; f++ {
				c19DeepShape(a, rng, shapes[i], (i+f)%2 == 0, r.Thorough(), ru, irng)
			}
			a.event("shape_deep_checked")
		}
		if t%97 == 3 {
			s := shapes[t*chunk]
			_, ninf, nhops := refShape(s)
			a.sample(map[string]any{"seg_len": s, "num_inf": ninf, "num_hops": nhops, "pointer_states": 256, "fillings": fillings})
		}
	})
	r.Extra("accepted_shapes_total", total)
	r.Extra("total_wall_s", time.Since(t0).Seconds())
	r.Extra("accepted_shapes_deep_checked", len(shapes))
	r.Exhaustive = all && len(shapes) == total && r.Events("shape_deep_checked") == int64(total) &&
		r.Events("decode_accepted")+r.Events("decode_rejected") == 1<<26
	r.Sample(map[string]any{"phase": "A", "headers": 1 << 26, "accepted": r.Events("decode_accepted"), "rejected": r.Events("decode_rejected")})
	r.Require(1<<26-256, 40, "decode_accepted", "decode_rejected", "rsv_toggled_accepted", "rsv_toggled_rejected",
		"incpath_step", "boundary_predicates", "reverse_decoded", "reverse_raw", "representation_checked",
		"reuse_step", "reuse_equal", "reuse_both_rejected",
		"failed_incpath", "failed_get-field", "failed_set-field", "failed_serialize-short", "failed_ops_state_judged", "failed_ops_reverse_twice")
	for _, o := range []string{"base", "raw", "decoded", "reused-base", "reused-raw", "reused-decoded"} {
		for n := 1; n <= 3; n++ {
			r.RequireClasses(fmt.Sprintf("failed-ops/%s/ninf=%d/incpath-at-end", o, n), fmt.Sprintf("failed-ops/%s/incpath-at-end-x%d", o, n))
		}
		if all { // the one shape with a single hop is certainly visited only when all shapes are
			r.RequireClasses("failed-ops/" + o + "/single-hop-path")
		}
		if !strings.HasSuffix(o, "base") {
			r.RequireClasses("failed-ops/"+o+"/serialize-short", "failed-ops/"+o+"/incpath-after-serialize-short",
				"failed-ops/"+o+"/incpath-at-end-of-reversed-path", "failed-ops/"+o+"/reversed-walked-failed-reversed")
		}
		if strings.HasSuffix(o, "raw") {
			r.RequireClasses("failed-ops/"+o+"/get-field", "failed-ops/"+o+"/set-field")
		}
	}
	r.RequireClasses("decode/pattern=nnn/hops=64/accepted", "decode/pattern=nnn/hops=65/rejected",
		"decode/pattern=nzn/hops=2-3/rejected", "decode/pattern=znn/hops=2-3/rejected", "decode/pattern=zzn/hops=1/rejected",
		"decode/pattern=nzz/hops=17-63/accepted", "decode/pattern=nnz/hops=64/accepted",
		"reuse/base/nonempty-then-empty", "reuse/raw/nonempty-then-empty", "reuse/decoded/nonempty-then-empty",
		"reuse/scion-layer-recycled-paths/nonempty-then-empty", "reuse/scion-layer/nonempty-then-empty",
		"reuse/interlude/header-without-segments", "reuse/interlude/gap-shape", "reuse/interlude/more-than-64-hops",
		"reuse/interlude/truncated-path")
	reuseRequire(r, "base", "raw", "decoded", "scion-layer", "scion-layer-recycled-paths")
}
