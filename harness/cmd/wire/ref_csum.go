package main

// Internet checksum (RFC 1071) and the SCION upper-layer pseudo header
// (doc/protocols/scion-header.rst, "Pseudo Header for Upper-Layer Checksum").
// Independent of pkg/slayers.

import "encoding/binary"

// refOnesSum returns the 16-bit one's-complement sum of data taken as
// big-endian 16-bit words, an odd trailing byte being padded with a zero byte
// on the right (RFC 1071 section 4.1).
func refOnesSum(data []byte) uint16 {
	var acc uint64
	n := len(data)
	for i := 0; i+1 < n; i += 2 {
		acc += uint64(data[i])<<8 | uint64(data[i+1])
	}
	if n%2 == 1 {
		acc += uint64(data[n-1]) << 8
	}
	for acc>>16 != 0 {
		acc = (acc & 0xffff) + (acc >> 16)
	}
	return uint16(acc)
}

// refPseudoHeader lays out DstISD-AS, SrcISD-AS, DstHostAddr, SrcHostAddr, the
// 32-bit upper-layer packet length, 24 zero bits and the next-header value.
func refPseudoHeader(dstIA, srcIA uint64, dst, src []byte, upperLen uint32, proto uint8) []byte {
	b := make([]byte, 0, 16+len(dst)+len(src)+8)
	b = binary.BigEndian.AppendUint64(b, dstIA)
	b = binary.BigEndian.AppendUint64(b, srcIA)
	b = append(b, dst...)
	b = append(b, src...)
	b = binary.BigEndian.AppendUint32(b, upperLen)
	b = append(b, 0, 0, 0, proto)
	return b
}
