// Command wire serves the packet-format properties C18 (header round trip),
// C19 (path pointer arithmetic), C20 (checksums) and C21 (SPAO coverage).
//
// All four run the real pkg/slayers, pkg/slayers/path/... and pkg/spao code and
// judge it against reference code in this directory (ref_*.go) that was
// written from doc/protocols/*.rst and the RFCs and imports nothing from the
// implementation.
package main

import (
	"fmt"
	"os"
	"runtime"
	"runtime/pprof"
	"sort"
	"sync"
	"sync/atomic"

	"verif/mon"
)

func main() {
	if f := os.Getenv("WIRE_PPROF"); f != "" {
		fh, _ := os.Create(f)
		_ = pprof.StartCPUProfile(fh)
	}
	// mon.Main ends in os.Exit, so the (optional, diagnostic) profile is closed
	// right after the check function returns.
	wrap := func(f func(*mon.Run)) func(*mon.Run) {
		return func(r *mon.Run) { f(r); pprof.StopCPUProfile() }
	}
	mon.Main(map[string]func(*mon.Run){
		"C18": wrap(checkC18),
		"C19": wrap(checkC19),
		"C20": wrap(checkC20),
		"C21": wrap(checkC21),
	})
}

// ---- per-task accumulator -------------------------------------------------
//
// Work is split into a fixed, PRNG-independent list of tasks; workers pull
// tasks from a counter. Everything a task observed is kept in its own acc and
// flushed into the mon.Run in task order afterwards, so the evidence and the
// order of reported violations do not depend on goroutine scheduling.

type violRec struct {
	key, what string
	witness   any
}

type acc struct {
	evals   int64
	classes map[string]struct{}
	events  map[string]int64
	incon   map[string]int64
	viols   []violRec
	perKey  map[string]int
	samples []any
}

func newAcc() *acc {
	return &acc{
		classes: map[string]struct{}{},
		events:  map[string]int64{},
		incon:   map[string]int64{},
		perKey:  map[string]int{},
	}
}

func (a *acc) eval(n int)               { a.evals += int64(n) }
func (a *acc) class(k string)           { a.classes[k] = struct{}{} }
func (a *acc) event(k string)           { a.events[k]++ }
func (a *acc) eventN(k string, n int64) { a.events[k] += n }
func (a *acc) sample(v any) {
	if len(a.samples) < 2 {
		a.samples = append(a.samples, v)
	}
}

// violation keeps at most a few witnesses per key and task; the rest are
// counted through the event counter "violations_elided".
func (a *acc) violation(key, what string, witness any) {
	a.perKey[key]++
	if a.perKey[key] > 2 {
		a.events["violations_elided"]++
		return
	}
	a.viols = append(a.viols, violRec{key, what, witness})
}

func (a *acc) flush(r *mon.Run) {
	r.Eval(int(a.evals))
	ks := make([]string, 0, len(a.classes))
	for k := range a.classes {
		ks = append(ks, k)
	}
	sort.Strings(ks)
	for _, k := range ks {
		r.Class(k)
		if dumpClasses {
			fmt.Println("CLASS", k)
		}
	}
	for k, n := range a.events {
		r.EventN(k, n)
	}
	for k, n := range a.incon {
		for i := int64(0); i < n; i++ {
			r.Inconclusive(k)
		}
	}
	for _, v := range a.viols {
		r.Violation(v.key, v.what, v.witness)
	}
	for _, s := range a.samples {
		r.Sample(s)
	}
}

// runTasks executes f(task, acc) for task = 0..n-1 on up to 16 workers and
// flushes the accumulators in task order.
func runTasks(r *mon.Run, n int, f func(task int, a *acc)) {
	accs := make([]*acc, n)
	workers := runtime.GOMAXPROCS(0)
	if workers > 16 {
		workers = 16
	}
	if workers > n {
		workers = n
	}
	var next atomic.Int64
	var wg sync.WaitGroup
	var panicMu sync.Mutex
	var panics []string
	for w := 0; w < workers; w++ {
		wg.Add(1)
		go func() {
			defer wg.Done()
			for {
				t := int(next.Add(1)) - 1
				if t >= n {
					return
				}
				a := newAcc()
				accs[t] = a
				if p, stack := mon.Try(func() { f(t, a) }); p != nil {
					// A panic that escaped the per-call guards of a check is a harness
					// or implementation failure we cannot attribute: report it.
					panicMu.Lock()
					panics = append(panics, fmt.Sprintf("task %d: %v\n%s", t, p, stack))
					panicMu.Unlock()
				}
			}
		}()
	}
	wg.Wait()
	for _, a := range accs {
		if a != nil {
			a.flush(r)
		}
	}
	for _, p := range panics {
		r.Violation(r.ID+":unguarded-panic", p, nil)
	}
}

// dumpClasses (diagnostic): print every class key as it is flushed.
var dumpClasses = os.Getenv("WIRE_DUMP_CLASSES") != ""

func hexs(b []byte) string { return mon.Hex(b) }
