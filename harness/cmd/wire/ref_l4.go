package main

// Upper-layer formats from doc/protocols/scmp.rst and RFC 768, plus the glue
// that turns a specified wire image into the implementation's layer structs
// (the glue is a driver, not an oracle: it only copies fields at the offsets
// the specification gives).

import (
	"encoding/binary"

	"github.com/gopacket/gopacket"

	"github.com/scionproto/scion/pkg/addr"
	"github.com/scionproto/scion/pkg/slayers"
)

const (
	protoUDP  = 17
	protoSCMP = 202
	protoHBH  = 200
	protoE2E  = 201
)

// scmpTypes are the message types scmp.rst defines.
var scmpTypes = []uint8{1, 2, 4, 5, 6, 128, 129, 130, 131}

var scmpNames = map[uint8]string{
	1: "dest-unreachable", 2: "packet-too-big", 4: "parameter-problem", 5: "ext-if-down",
	6: "int-conn-down", 128: "echo-request", 129: "echo-reply", 130: "traceroute-request", 131: "traceroute-reply",
}

// refSCMPInfoLen is the length of the InfoBlock of a message type; types the
// specification does not define have none (everything after the 4-byte header
// is data).
func refSCMPInfoLen(typ uint8) int {
	switch typ {
	case 1, 2, 4, 128, 129:
		return 4
	case 5:
		return 16
	case 6:
		return 24
	case 130, 131:
		return 20
	}
	return 0
}

// refSCMPInfoMask marks the reserved/unused bits of the InfoBlock.
func refSCMPInfoMask(typ uint8) []byte {
	m := make([]byte, refSCMPInfoLen(typ))
	switch typ {
	case 1: // "Unused"
		for i := range m {
			m[i] = 0xFF
		}
	case 2, 4: // "reserved" 16 bits
		m[0], m[1] = 0xFF, 0xFF
	}
	return m
}

// implSCMPLayers builds slayers.SCMP plus the typed message layer whose fields
// are read from info at the specified offsets.
func implSCMPLayers(scn *slayers.SCION, typ, code uint8, info []byte) []gopacket.SerializableLayer {
	h := &slayers.SCMP{TypeCode: slayers.CreateSCMPTypeCode(slayers.SCMPType(typ), slayers.SCMPCode(code))}
	h.SetNetworkLayerForChecksum(scn)
	ls := []gopacket.SerializableLayer{h}
	u16 := func(o int) uint16 { return binary.BigEndian.Uint16(info[o:]) }
	u64 := func(o int) uint64 { return binary.BigEndian.Uint64(info[o:]) }
	switch typ {
	case 1:
		ls = append(ls, &slayers.SCMPDestinationUnreachable{})
	case 2:
		ls = append(ls, &slayers.SCMPPacketTooBig{MTU: u16(2)})
	case 4:
		ls = append(ls, &slayers.SCMPParameterProblem{Pointer: u16(2)})
	case 5:
		ls = append(ls, &slayers.SCMPExternalInterfaceDown{IA: addr.IA(u64(0)), IfID: u64(8)})
	case 6:
		ls = append(ls, &slayers.SCMPInternalConnectivityDown{IA: addr.IA(u64(0)), Ingress: u64(8), Egress: u64(16)})
	case 128, 129:
		ls = append(ls, &slayers.SCMPEcho{Identifier: u16(0), SeqNumber: u16(2)})
	case 130, 131:
		ls = append(ls, &slayers.SCMPTraceroute{Identifier: u16(0), Sequence: u16(2), IA: addr.IA(u64(4)), Interface: u64(12)})
	}
	return ls
}

// refAddrHdr is the SCION address header with its type/length nibbles
// (DT/DL and ST/SL of the common header).
type refAddrHdr struct {
	DT, ST       uint8 // 4-bit T<<2|L
	DstIA, SrcIA uint64
	Dst, Src     []byte
}

func refAddrLen(tl uint8) int { return 4 * (1 + int(tl&3)) }

func (a *refAddrHdr) bytes() []byte {
	b := make([]byte, 0, 16+len(a.Dst)+len(a.Src))
	b = binary.BigEndian.AppendUint64(b, a.DstIA)
	b = binary.BigEndian.AppendUint64(b, a.SrcIA)
	b = append(b, a.Dst...)
	return append(b, a.Src...)
}

func (a *refAddrHdr) clone() refAddrHdr {
	c := *a
	c.Dst = append([]byte(nil), a.Dst...)
	c.Src = append([]byte(nil), a.Src...)
	return c
}

// applyTo copies the address header into an implementation SCION layer.
func (a *refAddrHdr) applyTo(s *slayers.SCION) {
	s.DstAddrType, s.SrcAddrType = slayers.AddrType(a.DT), slayers.AddrType(a.ST)
	s.DstIA, s.SrcIA = addr.IA(a.DstIA), addr.IA(a.SrcIA)
	s.RawDstAddr = append([]byte(nil), a.Dst...)
	s.RawSrcAddr = append([]byte(nil), a.Src...)
}
