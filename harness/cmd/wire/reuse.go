package main

// History-independence (object reuse) monitor shared by C18 and C19.
//
// The router and snet do not allocate a decoder per packet: they keep
// slayers.SCION layers (with RecyclePaths: one pooled path object per path
// type) and path objects alive and decode packet after packet into them, from a
// receive buffer that is itself reused. The property statements quantify over
// inputs, so what such an object reports for an input must not depend on what it
// decoded before. A reuseStream holds one set of long-lived objects for one
// workload stream (one task of a check); every input of the stream is decoded
// into the long-lived object and into a fresh one, and accept/reject decision,
// every decoded field, Len(), the bytes SerializeTo writes into a buffer of
// exactly Len() bytes (and, for C19, the effect of IncPath) are compared.
// After a rejected decode the state of an object is unspecified and not looked
// at; the next accepted decode is compared again.

import (
	"bytes"
	"encoding/hex"
	"fmt"

	"github.com/gopacket/gopacket"

	"github.com/scionproto/scion/pkg/slayers"
	"github.com/scionproto/scion/pkg/slayers/path"
	"github.com/scionproto/scion/pkg/slayers/path/empty"
	"github.com/scionproto/scion/pkg/slayers/path/epic"
	"github.com/scionproto/scion/pkg/slayers/path/onehop"
	"github.com/scionproto/scion/pkg/slayers/path/scion"

	"verif/mon"
)

const reuseRing = 6

// reuseWit is the witness of a reuse violation: the last inputs decoded into
// the object (oldest first); reused and fresh object differ at the last one.
type reuseWit struct {
	Dir     string   `json:"direction"` // always "reuse"
	Object  string   `json:"object"`
	History []string `json:"history_hex"`
	Fed     int      `json:"inputs_decoded_so_far"`
	Got     string   `json:"reused_object,omitempty"`
	Want    string   `json:"fresh_object,omitempty"`
}

type reuseHist struct {
	seen      bool // an accepted decode happened before
	inf, hops int  // dimensions of the last accepted path (-1: not a SCION path)
	length    int
	kind      string
	rejected  int // rejected decodes since the last accepted one
	ring      [reuseRing][]byte
	n         int
}

func (h *reuseHist) push(in []byte) {
	i := h.n % reuseRing
	h.ring[i] = append(h.ring[i][:0], in...)
	h.n++
}

func (h *reuseHist) history() []string {
	var out []string
	first := h.n - reuseRing
	if first < 0 {
		first = 0
	}
	for k := first; k < h.n; k++ {
		out = append(out, hex.EncodeToString(h.ring[k%reuseRing]))
	}
	return out
}

// transitions between consecutive accepted decodes of one object
const (
	trLongShort = iota
	trShortLong
	trSameSize
	trNonEmptyEmpty
	trEmptyNonEmpty
	trValidRejectedValid
	trRejectedAfterValid
	trN
)

var trNames = [trN]string{"long-then-short", "short-then-long", "same-size", "nonempty-then-empty",
	"empty-then-nonempty", "valid-rejected-valid", "rejected-after-valid"}

type reuseObj struct {
	name string
	hist reuseHist
	buf  []byte // the reused input buffer of the long-lived object (decoded objects alias it)
	cls  [trN]string

	decode func(fresh bool, b []byte) error
	diff   func() string                               // reused vs fresh after both accepted; "" if equal
	dims   func() (inf, hops, length int, kind string) // of the fresh object
	size   func(fresh bool) int                        // bytes to serialize into; nil: nothing to serialize
	ser    func(fresh bool, b []byte) error
	inc    func(fresh bool) (error, string) // IncPath and the state it leaves; nil: none
}

type reuseStream struct {
	id      string // property id, prefix of the violation keys
	a       *acc
	incPath bool // compare the effect of IncPath as well (C19)

	dec, fdec   scion.Decoded
	raw, fraw   scion.Raw
	base, fbase scion.Base
	ep, fep     epic.Path
	oh, foh     onehop.Path
	scnR, scnN  slayers.SCION  // long-lived layers, with and without RecyclePaths
	ifscn       slayers.SCION  // internal fresh layer
	fscn        *slayers.SCION // the fresh layer of the current step
	curL        *slayers.SCION // the long-lived layer of the current step
	trR, trF    dfb
	trKnown     bool
	decided     bool   // both decodes of the current step returned
	fb          []byte // scratch input copy for the fresh objects
	outF, outR  []byte
	pathF       []byte
	sb          gopacket.SerializeBuffer
	oDec, oRaw  *reuseObj
	oBase, oEp  *reuseObj
	oOh         *reuseObj
	oScnR, oScn *reuseObj
}

func stage(buf *[]byte, in []byte) []byte {
	if cap(*buf) < len(in) {
		*buf = make([]byte, len(in), 2*len(in)+4096)
	}
	b := (*buf)[:len(in):len(in)] // capacity clipped: reading or writing beyond the input panics
	copy(b, in)
	return b
}

func zeroed(buf *[]byte, n int) []byte {
	if n < 0 {
		n = 0
	}
	if cap(*buf) < n {
		*buf = make([]byte, n, 2*n+1024)
	}
	b := (*buf)[:n:n] // exactly n bytes: writing beyond them panics instead of spilling into spare capacity
	clear(b)
	return b
}

func diffBase(r, f *scion.Base) string {
	if r.PathMeta != f.PathMeta || r.NumINF != f.NumINF || r.NumHops != f.NumHops || r.Len() != f.Len() {
		return fmt.Sprintf("reused: meta %+v NumINF=%d NumHops=%d Len=%d; fresh: meta %+v NumINF=%d NumHops=%d Len=%d",
			r.PathMeta, r.NumINF, r.NumHops, r.Len(), f.PathMeta, f.NumINF, f.NumHops, f.Len())
	}
	return ""
}

func diffDecodedObj(r, f *scion.Decoded) string {
	if d := diffBase(&r.Base, &f.Base); d != "" {
		return d
	}
	if len(r.InfoFields) != len(f.InfoFields) || len(r.HopFields) != len(f.HopFields) {
		return fmt.Sprintf("reused holds %d info / %d hop fields, fresh %d / %d (NumINF=%d NumHops=%d)",
			len(r.InfoFields), len(r.HopFields), len(f.InfoFields), len(f.HopFields), f.NumINF, f.NumHops)
	}
	for i := range f.InfoFields {
		if r.InfoFields[i] != f.InfoFields[i] {
			return fmt.Sprintf("info field %d: reused %+v fresh %+v", i, r.InfoFields[i], f.InfoFields[i])
		}
	}
	for i := range f.HopFields {
		if r.HopFields[i] != f.HopFields[i] {
			return fmt.Sprintf("hop field %d: reused %+v fresh %+v", i, r.HopFields[i], f.HopFields[i])
		}
	}
	return ""
}

func diffRawObj(r, f *scion.Raw) string {
	if d := diffBase(&r.Base, &f.Base); d != "" {
		return d
	}
	if !bytes.Equal(r.Raw, f.Raw) {
		return fmt.Sprintf("Raw bytes: reused %d bytes %x, fresh %d bytes %x", len(r.Raw), r.Raw, len(f.Raw), f.Raw)
	}
	return ""
}

func diffEpicObj(r, f *epic.Path) string {
	if r.PktID != f.PktID || !bytes.Equal(r.PHVF, f.PHVF) || !bytes.Equal(r.LHVF, f.LHVF) {
		return fmt.Sprintf("EPIC fields: reused %+v %x %x, fresh %+v %x %x", r.PktID, r.PHVF, r.LHVF, f.PktID, f.PHVF, f.LHVF)
	}
	if (r.ScionPath == nil) != (f.ScionPath == nil) {
		return "ScionPath nil in one of the two"
	}
	if r.Len() != f.Len() {
		return fmt.Sprintf("Len: reused %d fresh %d", r.Len(), f.Len())
	}
	if r.ScionPath != nil {
		return diffRawObj(r.ScionPath, f.ScionPath)
	}
	return ""
}

func pathObjKind(p path.Path) int {
	switch p.(type) {
	case *scion.Raw:
		return 1
	case *scion.Decoded:
		return 2
	case *epic.Path:
		return 3
	case *onehop.Path:
		return 4
	case empty.Path:
		return 5
	}
	return 6
}

func diffPathObj(r, f path.Path) string {
	if pathObjKind(r) != pathObjKind(f) {
		return fmt.Sprintf("path object: reused %T fresh %T", r, f)
	}
	if r.Len() != f.Len() {
		return fmt.Sprintf("path Len: reused %d fresh %d", r.Len(), f.Len())
	}
	switch fp := f.(type) {
	case *scion.Raw:
		return diffRawObj(r.(*scion.Raw), fp)
	case *scion.Decoded:
		return diffDecodedObj(r.(*scion.Decoded), fp)
	case *epic.Path:
		return diffEpicObj(r.(*epic.Path), fp)
	case *onehop.Path:
		if rp := r.(*onehop.Path); *rp != *fp {
			return fmt.Sprintf("one-hop path: reused %+v fresh %+v", *rp, *fp)
		}
	case empty.Path:
	}
	return "" // other path objects: compared through Len() and their serialization
}

func diffScionLayer(r, f *slayers.SCION) string {
	switch {
	case r.Version != f.Version, r.TrafficClass != f.TrafficClass, r.FlowID != f.FlowID:
		return fmt.Sprintf("version/tc/flow: reused %d/%#x/%#x fresh %d/%#x/%#x", r.Version, r.TrafficClass, r.FlowID, f.Version, f.TrafficClass, f.FlowID)
	case r.NextHdr != f.NextHdr, r.HdrLen != f.HdrLen, r.PayloadLen != f.PayloadLen:
		return fmt.Sprintf("next/hdrlen/payloadlen: reused %d/%d/%d fresh %d/%d/%d", r.NextHdr, r.HdrLen, r.PayloadLen, f.NextHdr, f.HdrLen, f.PayloadLen)
	case r.PathType != f.PathType, r.DstAddrType != f.DstAddrType, r.SrcAddrType != f.SrcAddrType:
		return fmt.Sprintf("pathtype/dt/st: reused %d/%d/%d fresh %d/%d/%d", r.PathType, r.DstAddrType, r.SrcAddrType, f.PathType, f.DstAddrType, f.SrcAddrType)
	case r.DstIA != f.DstIA, r.SrcIA != f.SrcIA, !bytes.Equal(r.RawDstAddr, f.RawDstAddr), !bytes.Equal(r.RawSrcAddr, f.RawSrcAddr):
		return fmt.Sprintf("address header: reused %v %v %x %x fresh %v %v %x %x", r.DstIA, r.SrcIA, r.RawDstAddr, r.RawSrcAddr, f.DstIA, f.SrcIA, f.RawDstAddr, f.RawSrcAddr)
	case !bytes.Equal(r.Contents, f.Contents), !bytes.Equal(r.Payload, f.Payload):
		return fmt.Sprintf("contents/payload: reused %d/%d bytes fresh %d/%d bytes", len(r.Contents), len(r.Payload), len(f.Contents), len(f.Payload))
	case (r.Path == nil) != (f.Path == nil):
		return "Path nil in one of the two"
	case f.Path != nil:
		return diffPathObj(r.Path, f.Path)
	}
	return ""
}

func scionLayerSize(l *slayers.SCION) int {
	if l.Path == nil {
		return -1
	}
	return slayers.CmnHdrLen + l.AddrHdrLen() + l.Path.Len()
}

var reusePathKinds = map[path.Type]string{0: "empty", 1: "scion", 2: "onehop", 3: "epic"}

func newReuseStream(id string, a *acc, incPath bool) *reuseStream {
	s := &reuseStream{id: id, a: a, incPath: incPath, sb: gopacket.NewSerializeBuffer()}
	s.scnR.RecyclePaths()
	mk := func(o *reuseObj) *reuseObj {
		for i := range o.cls {
			o.cls[i] = "reuse/" + o.name + "/" + trNames[i]
		}
		return o
	}
	baseInc := func(b *scion.Base) (error, string) {
		err := b.IncPath()
		return err, fmt.Sprintf("%+v", b.PathMeta)
	}
	s.oDec = mk(&reuseObj{name: "decoded",
		decode: func(fresh bool, b []byte) error {
			if fresh {
				s.fdec = scion.Decoded{}
				return s.fdec.DecodeFromBytes(b)
			}
			return s.dec.DecodeFromBytes(b)
		},
		diff: func() string { return diffDecodedObj(&s.dec, &s.fdec) },
		dims: func() (int, int, int, string) { return s.fdec.NumINF, s.fdec.NumHops, s.fdec.Len(), "scion" },
		size: func(fresh bool) int {
			if fresh {
				return s.fdec.Len()
			}
			return s.dec.Len()
		},
		ser: func(fresh bool, b []byte) error {
			if fresh {
				return s.fdec.SerializeTo(b)
			}
			return s.dec.SerializeTo(b)
		},
		inc: func(fresh bool) (error, string) {
			if fresh {
				return baseInc(&s.fdec.Base)
			}
			return baseInc(&s.dec.Base)
		},
	})
	rawInc := func(r *scion.Raw) (error, string) {
		err := r.IncPath()
		return err, fmt.Sprintf("%+v raw[:4]=%x", r.PathMeta, r.Raw[:min(4, len(r.Raw))])
	}
	s.oRaw = mk(&reuseObj{name: "raw",
		decode: func(fresh bool, b []byte) error {
			if fresh {
				s.fraw = scion.Raw{}
				return s.fraw.DecodeFromBytes(b)
			}
			return s.raw.DecodeFromBytes(b)
		},
		diff: func() string { return diffRawObj(&s.raw, &s.fraw) },
		dims: func() (int, int, int, string) { return s.fraw.NumINF, s.fraw.NumHops, s.fraw.Len(), "scion" },
		size: func(fresh bool) int {
			if fresh {
				return s.fraw.Len()
			}
			return s.raw.Len()
		},
		ser: func(fresh bool, b []byte) error {
			if fresh {
				return s.fraw.SerializeTo(b)
			}
			return s.raw.SerializeTo(b)
		},
		inc: func(fresh bool) (error, string) {
			if fresh {
				return rawInc(&s.fraw)
			}
			return rawInc(&s.raw)
		},
	})
	s.oBase = mk(&reuseObj{name: "base",
		decode: func(fresh bool, b []byte) error {
			if fresh {
				s.fbase = scion.Base{}
				return s.fbase.DecodeFromBytes(b)
			}
			return s.base.DecodeFromBytes(b)
		},
		diff: func() string { return diffBase(&s.base, &s.fbase) },
		dims: func() (int, int, int, string) { return s.fbase.NumINF, s.fbase.NumHops, s.fbase.Len(), "scion" },
		inc: func(fresh bool) (error, string) {
			if fresh {
				return baseInc(&s.fbase)
			}
			return baseInc(&s.base)
		},
	})
	s.oEp = mk(&reuseObj{name: "epic",
		decode: func(fresh bool, b []byte) error {
			if fresh {
				s.fep = epic.Path{}
				return s.fep.DecodeFromBytes(b)
			}
			return s.ep.DecodeFromBytes(b)
		},
		diff: func() string { return diffEpicObj(&s.ep, &s.fep) },
		dims: func() (int, int, int, string) {
			if s.fep.ScionPath == nil {
				return -1, -1, s.fep.Len(), "epic"
			}
			return s.fep.ScionPath.NumINF, s.fep.ScionPath.NumHops, s.fep.Len(), "epic"
		},
		size: func(fresh bool) int {
			if fresh {
				return s.fep.Len()
			}
			return s.ep.Len()
		},
		ser: func(fresh bool, b []byte) error {
			if fresh {
				return s.fep.SerializeTo(b)
			}
			return s.ep.SerializeTo(b)
		},
	})
	s.oOh = mk(&reuseObj{name: "onehop",
		decode: func(fresh bool, b []byte) error {
			if fresh {
				s.foh = onehop.Path{}
				return s.foh.DecodeFromBytes(b)
			}
			return s.oh.DecodeFromBytes(b)
		},
		diff: func() string {
			if s.oh != s.foh {
				return fmt.Sprintf("one-hop path: reused %+v fresh %+v", s.oh, s.foh)
			}
			return ""
		},
		dims: func() (int, int, int, string) { return -1, -1, s.foh.Len(), "onehop" },
		size: func(fresh bool) int {
			if fresh {
				return s.foh.Len()
			}
			return s.oh.Len()
		},
		ser: func(fresh bool, b []byte) error {
			if fresh {
				return s.foh.SerializeTo(b)
			}
			return s.oh.SerializeTo(b)
		},
	})
	layer := func(name string, recycle bool) *reuseObj {
		return mk(&reuseObj{name: name,
			decode: func(fresh bool, b []byte) error {
				if fresh {
					s.ifscn = slayers.SCION{}
					if recycle {
						s.ifscn.RecyclePaths()
					}
					s.fscn = &s.ifscn
					s.trF = dfb{}
					s.trKnown = true
					return s.fscn.DecodeFromBytes(b, &s.trF)
				}
				s.trR = dfb{}
				return s.curL.DecodeFromBytes(b, &s.trR)
			},
			diff: func() string { return diffScionLayer(s.curL, s.fscn) },
			dims: func() (int, int, int, string) {
				f := s.fscn
				kind, ok := reusePathKinds[f.PathType]
				if !ok {
					kind = "unassigned"
				}
				inf, hops := -1, -1
				switch p := f.Path.(type) {
				case *scion.Raw:
					inf, hops = p.NumINF, p.NumHops
				case *epic.Path:
					if p.ScionPath != nil {
						inf, hops = p.ScionPath.NumINF, p.ScionPath.NumHops
					}
				}
				return inf, hops, scionLayerSize(f), kind
			},
			size: func(fresh bool) int {
				if fresh {
					return scionLayerSize(s.fscn)
				}
				return scionLayerSize(s.curL)
			},
			ser: func(fresh bool, b []byte) error {
				l := s.curL
				if fresh {
					l = s.fscn
				}
				// the path alone into a buffer of exactly Len() bytes, then the layer
				pb := zeroed(&s.pathF, l.Path.Len())
				if err := l.Path.SerializeTo(pb); err != nil {
					return err
				}
				if err := gopacket.SerializeLayers(s.sb, gopacket.SerializeOptions{}, l); err != nil {
					return err
				}
				out := s.sb.Bytes()
				if len(out) != len(b) {
					return fmt.Errorf("layer serialized to %d bytes, header fields say %d", len(out), len(b))
				}
				copy(b, out)
				if !bytes.Equal(out[len(out)-len(pb):], pb) {
					return fmt.Errorf("path serialized into an exactly Len()-sized buffer differs from the path inside the layer")
				}
				return nil
			},
		})
	}
	s.oScnR = layer("scion-layer-recycled-paths", true)
	s.oScn = layer("scion-layer", false)
	return s
}

func (s *reuseStream) transition(o *reuseObj, k int) {
	s.a.class("reuse/" + trNames[k])
	s.a.class(o.cls[k])
}

// step decodes in into the long-lived object o and into a fresh one (unless
// the caller has already done the latter: ext) and compares.
// mask, if not nil, returns the reserved-bit mask of the bytes the accepted
// input must re-serialize to (nil: the round trip is not judged for this input).
func (s *reuseStream) step(o *reuseObj, in []byte, ext bool, extErr error, mask func() []byte) {
	if accepted, equal := s.stepDecode(o, in, ext, extErr); accepted {
		s.stepFinish(o, in, ext, equal, mask)
	}
}

// stepDecode is the first half of step: both decodes, the decision and the
// decoded fields. Nothing is serialized yet (serializing a scion.Raw writes
// into the buffer it was decoded from).
func (s *reuseStream) stepDecode(o *reuseObj, in []byte, ext bool, extErr error) (accepted, equal bool) {
	a := s.a
	o.hist.push(in)
	prefix := s.id + ":reuse:" + o.name + ":"
	wit := func(got, want string) reuseWit {
		return reuseWit{Dir: "reuse", Object: o.name, History: o.hist.history(), Fed: o.hist.n, Got: got, Want: want}
	}
	errF, errR := extErr, error(nil)
	if !ext {
		fb := stage(&s.fb, in)
		if p, stack := mon.Try(func() { errF = o.decode(true, fb) }); p != nil {
			a.violation(s.id+":panic:"+mon.PanicSite(stack), fmt.Sprintf("panic while decoding into a fresh %s: %v\n%s", o.name, p, stack), wit("", ""))
			return
		}
	}
	rb := stage(&o.buf, in)
	if p, stack := mon.Try(func() { errR = o.decode(false, rb) }); p != nil {
		a.violation(prefix+"panic", fmt.Sprintf("decoding into the long-lived %s panics at %s, a fresh object %s the same input: %v\n%s",
			o.name, mon.PanicSite(stack), outcome(errF), p, stack), wit("panic", outcome(errF)))
		return
	}
	s.decided = true
	a.evals++
	a.event("reuse_step")
	if (errF == nil) != (errR == nil) {
		a.violation(prefix+"decision", fmt.Sprintf("the long-lived %s %s an input (%d bytes) that a fresh object %s: reused err=%v, fresh err=%v",
			o.name, outcome(errR), len(in), outcome(errF), errR, errF), wit(outcome(errR), outcome(errF)))
		return
	}
	h := &o.hist
	if errF != nil {
		a.event("reuse_both_rejected")
		if h.seen {
			h.rejected++
			s.transition(o, trRejectedAfterValid)
		}
		return
	}
	equal = true
	if d := o.diff(); d != "" {
		equal = false
		a.violation(prefix+"fields", fmt.Sprintf("after decoding the same %d bytes the long-lived %s differs from a fresh one: %s", len(in), o.name, d), wit(d, ""))
	}
	return true, equal
}

// stepFinish is the second half of step after both objects accepted:
// serialization, IncPath, and the bookkeeping of what kind of history this was.
func (s *reuseStream) stepFinish(o *reuseObj, in []byte, ext, equal bool, mask func() []byte) {
	a := s.a
	h := &o.hist
	prefix := s.id + ":reuse:" + o.name + ":"
	wit := func(got, want string) reuseWit {
		return reuseWit{Dir: "reuse", Object: o.name, History: o.hist.history(), Fed: o.hist.n, Got: got, Want: want}
	}
	if o.size != nil {
		nF, nR := o.size(true), o.size(false)
		bF, bR := zeroed(&s.outF, nF), zeroed(&s.outR, nR)
		var sF, sR error
		if p, stack := mon.Try(func() { sF = o.ser(true, bF) }); p != nil {
			a.violation(s.id+":panic:"+mon.PanicSite(stack), fmt.Sprintf("panic while serializing a fresh %s into %d bytes: %v\n%s", o.name, nF, p, stack), wit("", ""))
			return
		}
		if p, stack := mon.Try(func() { sR = o.ser(false, bR) }); p != nil {
			equal = false
			a.violation(prefix+"panic", fmt.Sprintf("serializing the long-lived %s into a buffer of exactly Len()=%d bytes panics at %s (a fresh object serializes %d bytes, err=%v): %v\n%s",
				o.name, nR, mon.PanicSite(stack), nF, sF, p, stack), wit("panic", hexs(bF)))
		} else if (sF == nil) != (sR == nil) || (sF == nil && !bytes.Equal(bF, bR)) {
			equal = false
			rt := ""
			if mask != nil && sF == nil {
				if m := mask(); m != nil && len(m) <= len(in) {
					rt = fmt.Sprintf("; reused reproduces the input on non-reserved bits: %v, fresh: %v", eqMasked(bR, in[:len(m)], m), eqMasked(bF, in[:len(m)], m))
				}
			}
			a.violation(prefix+"serialize", fmt.Sprintf("the long-lived %s serializes the accepted input differently from a fresh one: reused err=%v %d bytes, fresh err=%v %d bytes%s",
				o.name, sR, nR, sF, nF, rt), wit(hexs(bR), hexs(bF)))
		} else if sF == nil && mask != nil {
			if m := mask(); m != nil && len(m) <= len(in) {
				a.evals++
				if !eqMasked(bR, in[:len(m)], m) {
					// not a reuse effect (the fresh object does the same): the plain round-trip property
					a.violation(s.id+":dec-reserialize/path-object/"+o.name, fmt.Sprintf(
						"%s: SerializeTo of the accepted input (%d bytes out, %d expected) does not reproduce it on non-reserved bits", o.name, nR, len(m)),
						wit(hexs(bR), hexs(in[:len(m)])))
				} else {
					a.event("reuse_roundtrip_equal")
				}
			}
		}
	}
	if s.incPath && o.inc != nil && !ext {
		var eF, eR error
		var stF, stR string
		pF, _ := mon.Try(func() { eF, stF = o.inc(true) })
		pR, stack := mon.Try(func() { eR, stR = o.inc(false) })
		switch {
		case pF != nil: // judged by the ordinary part of the check on fresh objects
		case pR != nil:
			equal = false
			a.violation(prefix+"panic", fmt.Sprintf("IncPath on the long-lived %s panics at %s: %v\n%s", o.name, mon.PanicSite(stack), pR, stack), wit("panic", stF))
		case (eF == nil) != (eR == nil) || stF != stR:
			equal = false
			a.violation(prefix+"incpath", fmt.Sprintf("IncPath after decoding the same bytes: long-lived %s err=%v state %s; fresh err=%v state %s",
				o.name, eR, stR, eF, stF), wit(stR, stF))
		}
	}
	if equal {
		a.event("reuse_equal")
	}
	inf, hops, length, kind := o.dims()
	if h.seen {
		shorter := length < h.length || (inf >= 0 && h.inf >= 0 && (inf < h.inf || hops < h.hops))
		longer := length > h.length || (inf >= 0 && h.inf >= 0 && (inf > h.inf || hops > h.hops))
		switch {
		case shorter:
			s.transition(o, trLongShort)
		case longer:
			s.transition(o, trShortLong)
		default:
			s.transition(o, trSameSize)
		}
		if inf == 0 && h.inf > 0 {
			s.transition(o, trNonEmptyEmpty)
		}
		if inf > 0 && h.inf == 0 {
			s.transition(o, trEmptyNonEmpty)
		}
		if h.rejected > 0 {
			s.transition(o, trValidRejectedValid)
		}
		if kind != h.kind {
			a.class("reuse/" + o.name + "/path=" + h.kind + "-then-" + kind)
		}
	}
	h.seen, h.inf, h.hops, h.length, h.kind, h.rejected = true, inf, hops, length, kind, 0
}

// reuseScionPathMask is the reserved-bit mask of the SCION path at the start
// of region, nil if the reference cannot lay it out.
func reuseScionPathMask(region []byte) []byte {
	if len(region) < refMetaLen {
		return nil
	}
	kind, ninf, nhops := refShape(refParseMeta(region).Seg)
	if (kind != shapeOK && kind != shapeEmpty) || refPathLen(ninf, nhops) > len(region) {
		return nil
	}
	return refScionPathMask(ninf, nhops)
}

// scionPath feeds the bytes of a SCION path to the long-lived Base, Raw and
// Decoded. judgeRT: the round trip of accepted inputs is part of the property.
func (s *reuseStream) scionPath(region []byte, judgeRT bool) {
	var mask func() []byte
	if judgeRT {
		mask = func() []byte { return reuseScionPathMask(region) }
	}
	s.step(s.oBase, region, false, nil, nil)
	s.step(s.oRaw, region, false, nil, mask)
	s.step(s.oDec, region, false, nil, mask)
}

// baseExt decodes a meta header into the long-lived Base; fresh is the fresh
// Base the caller has decoded the same bytes into, with result freshErr.
func (s *reuseStream) baseExt(hdr []byte, fresh *scion.Base, freshErr error) {
	s.fbase = *fresh
	s.step(s.oBase, hdr, true, freshErr, nil)
}

// layer feeds a packet to one of the two long-lived SCION layers. If fresh is
// not nil it is the fresh layer the caller has decoded the same bytes into, with
// result freshErr.
func (s *reuseStream) layer(recycle bool, pkt []byte, fresh *slayers.SCION, freshErr error, freshTrunc *bool, mask func() []byte) {
	if accepted, equal := s.layerDecode(recycle, pkt, fresh, freshErr, freshTrunc); accepted {
		s.layerFinish(recycle, pkt, fresh != nil, equal, mask)
	}
}

func (s *reuseStream) pickLayer(recycle bool) *reuseObj {
	if recycle {
		s.curL = &s.scnR
		return s.oScnR
	}
	s.curL = &s.scnN
	return s.oScn
}

func (s *reuseStream) layerDecode(recycle bool, pkt []byte, fresh *slayers.SCION, freshErr error, freshTrunc *bool) (accepted, equal bool) {
	o := s.pickLayer(recycle)
	s.trKnown, s.decided = false, false
	if fresh != nil {
		s.fscn = fresh
		if freshTrunc != nil {
			s.trF, s.trKnown = dfb{truncated: *freshTrunc}, true
		}
	}
	accepted, equal = s.stepDecode(o, pkt, fresh != nil, freshErr)
	if s.decided && s.trKnown && s.trF.truncated != s.trR.truncated {
		s.a.violation(s.id+":reuse:"+o.name+":truncated-feedback", fmt.Sprintf(
			"SetTruncated feedback for the same input: long-lived layer %v, fresh layer %v", s.trR.truncated, s.trF.truncated),
			reuseWit{Dir: "reuse", Object: o.name, History: o.hist.history(), Fed: o.hist.n})
	}
	return accepted, equal
}

func (s *reuseStream) layerFinish(recycle bool, pkt []byte, ext, equal bool, mask func() []byte) {
	s.stepFinish(s.pickLayer(recycle), pkt, ext, equal, mask)
}

// packet feeds one input of the decoder (or the serialized output of the
// encoder direction) to all long-lived objects: both SCION layers, and the path
// objects that correspond to the path type the common header names.
// fresh/freshErr/freshTrunc describe the fresh layer the check itself judged.
// light: only the long-lived layer that has the RecyclePaths setting of fresh
// (used for the byte-by-byte truncation sweeps, which are rejected almost
// throughout and would otherwise dominate the cost).
func (s *reuseStream) packet(pkt []byte, freshRecycle bool, fresh *slayers.SCION, freshErr error, freshTrunc *bool, light bool) {
	var lay *refLayout
	mask := func() []byte {
		if lay == nil {
			l := refScionLayout(pkt)
			lay = &l
		}
		if lay.Mask == nil || lay.MustReject != "" || (lay.Odd != "" && lay.Odd != "scion-path-without-segments") || lay.HdrLen != lay.Used {
			return nil
		}
		return lay.Mask
	}
	if light {
		s.layer(freshRecycle, pkt, fresh, freshErr, freshTrunc, mask)
		return
	}
	if len(pkt) < 12 || pkt[8] < 4 {
		// For the four assigned path types a fresh layer behaves the same with and
		// without RecyclePaths (same kinds of path objects), so the judged fresh
		// layer is the reference for both long-lived layers. Both are decoded and
		// compared before anything is serialized (serializing a scion.Raw
		// normalises the PathMeta bytes of the buffer it aliases).
		acc1, eq1 := s.layerDecode(freshRecycle, pkt, fresh, freshErr, freshTrunc)
		acc2, eq2 := s.layerDecode(!freshRecycle, pkt, fresh, freshErr, freshTrunc)
		if acc1 {
			s.layerFinish(freshRecycle, pkt, true, eq1, mask)
		}
		if acc2 {
			s.fscn = fresh
			s.layerFinish(!freshRecycle, pkt, true, eq2, mask)
		}
	} else {
		// unassigned path type: strict decoding rejects it without RecyclePaths,
		// the pooled raw path takes it with RecyclePaths; fresh layer of its own
		s.layer(freshRecycle, pkt, fresh, freshErr, freshTrunc, mask)
		s.layer(!freshRecycle, pkt, nil, nil, nil, mask)
	}
	s.pathsOf(pkt)
}

// pathsOf feeds the path bytes of a packet (as far as they are present) to the
// long-lived path objects of the path type named in the common header.
func (s *reuseStream) pathsOf(pkt []byte) {
	if len(pkt) < 12 {
		return
	}
	fixed := 28 + refAddrLen(pkt[9]>>4) + refAddrLen(pkt[9]&0xF)
	end := int(pkt[5]) * 4
	if end > len(pkt) {
		end = len(pkt)
	}
	if fixed > end {
		return
	}
	region := pkt[fixed:end]
	switch pkt[8] {
	case 1:
		s.scionPath(region, true)
	case 2:
		s.step(s.oOh, region, false, nil, func() []byte {
			if len(region) < refOneHop {
				return nil
			}
			return refOneHopMask()
		})
	case 3:
		s.step(s.oEp, region, false, nil, func() []byte {
			if len(region) < refEpicLen {
				return nil
			}
			m := reuseScionPathMask(region[refEpicLen:])
			if m == nil {
				return nil
			}
			return append(make([]byte, refEpicLen), m...)
		})
		if len(region) >= refEpicLen {
			s.scionPath(region[refEpicLen:], true)
		}
	}
}

// replay feeds the history of a reuse witness to a new set of objects.
func (s *reuseStream) replay(w *reuseWit) error {
	for _, hx := range w.History {
		in, err := hex.DecodeString(hx)
		if err != nil {
			return err
		}
		switch w.Object {
		case "decoded":
			s.step(s.oDec, in, false, nil, func() []byte { return reuseScionPathMask(in) })
		case "raw":
			s.step(s.oRaw, in, false, nil, func() []byte { return reuseScionPathMask(in) })
		case "base":
			s.step(s.oBase, in, false, nil, nil)
		case "epic":
			s.step(s.oEp, in, false, nil, nil)
		case "onehop":
			s.step(s.oOh, in, false, nil, nil)
		case "scion-layer":
			s.layer(false, in, nil, nil, nil, nil)
		case "scion-layer-recycled-paths":
			s.layer(true, in, nil, nil, nil, nil)
		default:
			return fmt.Errorf("unknown object %q", w.Object)
		}
	}
	return nil
}

// reuseRequire lists the classes and events a run of the reuse monitor must
// have produced for the given objects.
func reuseRequire(r *mon.Run, objs ...string) {
	r.RequireClasses("reuse/long-then-short", "reuse/short-then-long", "reuse/nonempty-then-empty", "reuse/valid-rejected-valid")
	for _, o := range objs {
		r.RequireClasses("reuse/"+o+"/long-then-short", "reuse/"+o+"/valid-rejected-valid")
	}
}
