package main

import (
	"encoding/binary"
	"encoding/json"
	"fmt"
	"math/rand/v2"
	"os"

	"github.com/scionproto/scion/pkg/slayers"
	"github.com/scionproto/scion/pkg/slayers/path"
	"github.com/scionproto/scion/pkg/slayers/path/empty"
	"github.com/scionproto/scion/pkg/slayers/path/epic"
	"github.com/scionproto/scion/pkg/slayers/path/onehop"
	"github.com/scionproto/scion/pkg/slayers/path/scion"
	"github.com/scionproto/scion/pkg/spao"

	"verif/mon"
)

// C21 — which packet fields the SPAO authenticator covers.
//
// A packet is described by c21Pkt (plain values, no implementation types).
// toImpl turns it into the slayers/spao inputs; refMACInput lays out the MAC
// input as doc/protocols/authenticator-option.rst ("Authenticated Data")
// specifies it, and refCMAC (RFC 4493) gives the expected authenticator. Every
// single-field change is applied to the description; the oracle says whether
// the authenticator must stay or must change, and spao.ComputeAuthCMAC is
// observed before and after.

type c21Pkt struct {
	Version    uint8  `json:"version"`
	TC         uint8  `json:"traffic_class"`
	Flow       uint32 `json:"flow_id"`
	NextHdr    uint8  `json:"next_hdr"`
	HdrLenFld  uint8  `json:"hdr_len_field"`
	PayloadLen uint16 `json:"payload_len"`
	PathTypeF  uint8  `json:"path_type_field"`
	DT         uint8  `json:"dt_dl"`
	ST         uint8  `json:"st_sl"`
	DstIA      uint64 `json:"dst_ia"`
	SrcIA      uint64 `json:"src_ia"`
	Dst        []byte `json:"dst_host"`
	Src        []byte `json:"src_host"`

	PathKind string        `json:"path_kind"` // empty | scion-decoded | scion-raw | epic | onehop
	SP       *refScionPath `json:"scion_path,omitempty"`
	EpicTS   uint32        `json:"epic_ts,omitempty"`
	EpicCtr  uint32        `json:"epic_counter,omitempty"`
	PHVF     []byte        `json:"phvf,omitempty"`
	LHVF     []byte        `json:"lhvf,omitempty"`
	OHInfo   refInfo       `json:"onehop_info"`
	OH1      refHop        `json:"onehop_first"`
	OH2      refHop        `json:"onehop_second"`

	SPI  uint32 `json:"spi"`
	Alg  uint8  `json:"algorithm"`
	TS   uint64 `json:"timestamp_sn"`
	Auth []byte `json:"authenticator_field"`

	PldType uint8  `json:"upper_layer_type"`
	Pld     []byte `json:"payload"`
	Key     []byte `json:"key"`
}

func (p *c21Pkt) clone() *c21Pkt {
	q := *p
	q.Dst = append([]byte(nil), p.Dst...)
	q.Src = append([]byte(nil), p.Src...)
	q.PHVF = append([]byte(nil), p.PHVF...)
	q.LHVF = append([]byte(nil), p.LHVF...)
	q.Auth = append([]byte(nil), p.Auth...)
	q.Pld = append([]byte(nil), p.Pld...)
	q.Key = append([]byte(nil), p.Key...)
	if p.SP != nil {
		sp := *p.SP
		sp.Infos = append([]refInfo(nil), p.SP.Infos...)
		sp.Hops = append([]refHop(nil), p.SP.Hops...)
		q.SP = &sp
	}
	return &q
}

// ---- SPI semantics (authenticator-option.rst, "Security Parameter Index") ----

func refSPIIsDRKey(spi uint32) bool { return spi >= 1 && spi < 1<<21 }

// refSPICovers reports which address fields enter the MAC input.
func refSPICovers(spi uint32) (ias, dstHost, srcHost bool) {
	if !refSPIIsDRKey(spi) {
		return true, true, true
	}
	t := spi >> 17 & 1 // 0: AS-to-host key, 1: host-to-host key
	d := spi >> 16 & 1 // 0: sender-side derivation, 1: receiver-side derivation
	if t == 1 {
		return false, false, false
	}
	return false, d == 1, d == 0
}

func spiKind(spi uint32) string {
	if !refSPIIsDRKey(spi) {
		return "non-drkey"
	}
	k := "drkey-as-host"
	if spi>>17&1 == 1 {
		k = "drkey-host-host"
	}
	if spi>>16&1 == 1 {
		return k + "-receiver"
	}
	return k + "-sender"
}

// ---- reference MAC input ----

func (p *c21Pkt) refPathZeroed() []byte {
	zeroScion := func(sp *refScionPath) []byte {
		q := *sp
		q.Meta.Inf, q.Meta.Hf = 0, 0 // PathMeta: CurrINF, CurrHF
		q.Infos = append([]refInfo(nil), sp.Infos...)
		q.Hops = append([]refHop(nil), sp.Hops...)
		for i := range q.Infos {
			q.Infos[i].SegID = 0 // Info Fields: SegID
		}
		for i := range q.Hops {
			q.Hops[i].IngAlert, q.Hops[i].EgAlert = false, false // Hop Fields: router alert flags
		}
		return q.bytes()
	}
	switch p.PathKind {
	case "scion-decoded", "scion-raw":
		return zeroScion(p.SP)
	case "epic":
		b := make([]byte, 0, refEpicLen)
		b = binary.BigEndian.AppendUint32(b, p.EpicTS)
		b = binary.BigEndian.AppendUint32(b, p.EpicCtr)
		b = append(b, p.PHVF...)
		b = append(b, p.LHVF...)
		return append(b, zeroScion(p.SP)...)
	case "onehop":
		b := make([]byte, refOneHop)
		inf := p.OHInfo
		inf.SegID = 0 // updated by the first router like any SegID
		inf.put(b)
		h := p.OH1
		h.IngAlert, h.EgAlert = false, false // First Hop Field: router alert flags
		h.put(b[refInfoLen:])
		// Second Hop Field: all zero
		return b
	}
	return nil
}

func (p *c21Pkt) refMACInput() []byte {
	pth := p.refPathZeroed()
	hdrLen := 12 + 16 + len(p.Dst) + len(p.Src) + len(pth)
	b := make([]byte, 0, 64+len(pth)+len(p.Pld))
	// 1. authenticator option metadata
	b = append(b, byte(hdrLen/4), p.PldType)
	b = binary.BigEndian.AppendUint16(b, uint16(len(p.Pld)))
	b = append(b, p.Alg, 0)
	b = append(b, byte(p.TS>>40), byte(p.TS>>32), byte(p.TS>>24), byte(p.TS>>16), byte(p.TS>>8), byte(p.TS))
	// 2. common header without the second row; traffic class without ECN
	dscp := p.TC &^ 0x03
	b = binary.BigEndian.AppendUint32(b, uint32(p.Version&0xF)<<28|uint32(dscp)<<20|p.Flow&0xFFFFF)
	b = append(b, p.PathTypeF, p.DT<<4|p.ST&0xF, 0, 0)
	// 3. address header
	ias, dh, sh := refSPICovers(p.SPI)
	if ias {
		b = binary.BigEndian.AppendUint64(b, p.DstIA)
		b = binary.BigEndian.AppendUint64(b, p.SrcIA)
	}
	if dh {
		b = append(b, p.Dst...)
	}
	if sh {
		b = append(b, p.Src...)
	}
	// 4. path with mutable fields zeroed, 5. upper-layer payload
	b = append(b, pth...)
	return append(b, p.Pld...)
}

// ---- implementation side ----

func implInfo(i refInfo) path.InfoField {
	return path.InfoField{Peer: i.Peer, ConsDir: i.ConsDir, SegID: i.SegID, Timestamp: i.TS}
}

func implHop(h refHop) path.HopField {
	return path.HopField{IngressRouterAlert: h.IngAlert, EgressRouterAlert: h.EgAlert, ExpTime: h.Exp,
		ConsIngress: h.In, ConsEgress: h.Eg, Mac: h.Mac}
}

func implDecoded(sp *refScionPath) *scion.Decoded {
	d := &scion.Decoded{}
	d.PathMeta = scion.MetaHdr{CurrINF: sp.Meta.Inf, CurrHF: sp.Meta.Hf, SegLen: sp.Meta.Seg}
	d.NumINF, d.NumHops = len(sp.Infos), len(sp.Hops)
	for _, i := range sp.Infos {
		d.InfoFields = append(d.InfoFields, implInfo(i))
	}
	for _, h := range sp.Hops {
		d.HopFields = append(d.HopFields, implHop(h))
	}
	return d
}

func (p *c21Pkt) toImpl() (spao.MACInput, error) {
	s := &slayers.SCION{
		Version: p.Version, TrafficClass: p.TC, FlowID: p.Flow, NextHdr: slayers.L4ProtocolType(p.NextHdr),
		HdrLen: p.HdrLenFld, PayloadLen: p.PayloadLen, PathType: path.Type(p.PathTypeF),
	}
	a := refAddrHdr{DT: p.DT, ST: p.ST, DstIA: p.DstIA, SrcIA: p.SrcIA, Dst: p.Dst, Src: p.Src}
	a.applyTo(s)
	switch p.PathKind {
	case "empty":
		s.Path = empty.Path{}
	case "scion-decoded":
		s.Path = implDecoded(p.SP)
	case "scion-raw":
		r := &scion.Raw{}
		if err := r.DecodeFromBytes(p.SP.bytes()); err != nil {
			return spao.MACInput{}, err
		}
		s.Path = r
	case "epic":
		r := &scion.Raw{}
		if err := r.DecodeFromBytes(p.SP.bytes()); err != nil {
			return spao.MACInput{}, err
		}
		s.Path = &epic.Path{PktID: epic.PktID{Timestamp: p.EpicTS, Counter: p.EpicCtr},
			PHVF: append([]byte(nil), p.PHVF...), LHVF: append([]byte(nil), p.LHVF...), ScionPath: r}
	case "onehop":
		s.Path = &onehop.Path{Info: implInfo(p.OHInfo), FirstHop: implHop(p.OH1), SecondHop: implHop(p.OH2)}
	}
	opt, err := slayers.NewPacketAuthOption(slayers.PacketAuthOptionParams{
		SPI: slayers.PacketAuthSPI(p.SPI), Algorithm: slayers.PacketAuthAlg(p.Alg), TimestampSN: p.TS,
		Auth: append([]byte(nil), p.Auth...),
	})
	if err != nil {
		return spao.MACInput{}, err
	}
	return spao.MACInput{Key: p.Key, Header: opt, ScionLayer: s, PldType: slayers.L4ProtocolType(p.PldType),
		Pld: append([]byte(nil), p.Pld...)}, nil
}

type c21Bufs struct{ aux, out []byte }

func (p *c21Pkt) implMAC(bufs *c21Bufs) (mac [16]byte, err error, panicked string) {
	pv, stack := mon.Try(func() {
		var in spao.MACInput
		in, err = p.toImpl()
		if err != nil {
			return
		}
		var m []byte
		m, err = spao.ComputeAuthCMAC(in, bufs.aux, bufs.out)
		if err == nil {
			if len(m) != 16 {
				err = fmt.Errorf("authenticator has %d bytes", len(m))
				return
			}
			copy(mac[:], m)
		}
	})
	if pv != nil {
		return mac, fmt.Errorf("panic: %v", pv), stack
	}
	return mac, err, ""
}

// ---- single-field changes ----

const (
	mustStay   = "must-stay"
	mustChange = "must-change"
	unjudged   = "unjudged"
)

type c21Mut struct {
	field  string // canonical field name (part of the violation key)
	detail string // which bit / element
	expect string
	apply  func(q *c21Pkt)
	tcMask uint8 // != 0: this is the traffic-class bit with that mask
}

func flipBits(b []byte, bit int) { b[bit/8] ^= 0x80 >> (bit % 8) }

func c21Mutations(p *c21Pkt, rng *rand.Rand) []c21Mut {
	var ms []c21Mut
	add := func(field, detail, expect string, f func(q *c21Pkt)) {
		ms = append(ms, c21Mut{field: field, detail: detail, expect: expect, apply: f})
	}
	cov := func(b bool) string {
		if b {
			return mustChange
		}
		return mustStay
	}
	kind := spiKind(p.SPI)
	ias, dh, sh := refSPICovers(p.SPI)

	// --- common header ---
	for b := 0; b < 4; b++ {
		add("version", fmt.Sprintf("bit %d", b), mustChange, func(q *c21Pkt) { q.Version ^= 1 << b })
	}
	for b := 0; b < 8; b++ {
		m := uint8(1) << b
		exp := mustChange // the six DSCP bits
		if m&0x03 != 0 {
			exp = mustStay // the two ECN bits (RFC 3168: the two least significant bits)
		}
		ms = append(ms, c21Mut{field: "traffic-class", detail: fmt.Sprintf("mask %#02x", m), expect: exp, tcMask: m,
			apply: func(q *c21Pkt) { q.TC ^= m }})
	}
	for b := 0; b < 20; b++ {
		add("flow-id", fmt.Sprintf("bit %d", b), mustChange, func(q *c21Pkt) { q.Flow ^= 1 << b })
	}
	for b := 0; b < 8; b++ {
		add("next-hdr", fmt.Sprintf("bit %d", b), mustStay, func(q *c21Pkt) { q.NextHdr ^= 1 << b })
	}
	for b := 0; b < 16; b += 1 + rng.IntN(3) {
		add("payload-len", fmt.Sprintf("bit %d", b), mustStay, func(q *c21Pkt) { q.PayloadLen ^= 1 << b })
	}
	// an extension header inserted in front of the upper layer: NextHdr and PayloadLen move together
	add("extension-header", "hbh inserted", mustStay, func(q *c21Pkt) { q.NextHdr = protoHBH; q.PayloadLen += 8 })
	for b := 0; b < 8*len(p.Auth); b += 1 + rng.IntN(24) {
		add("extension-header", fmt.Sprintf("authenticator field bit %d", b), mustStay, func(q *c21Pkt) { flipBits(q.Auth, b) })
	}
	add("hdr-len-field", "value", unjudged, func(q *c21Pkt) { q.HdrLenFld ^= 0x10 })
	for b := 0; b < 8; b++ {
		add("path-type", fmt.Sprintf("bit %d", b), mustChange, func(q *c21Pkt) { q.PathTypeF ^= 1 << b })
	}
	// address types: the T bits change the type only; an L change also resizes the address
	for _, b := range []uint8{4, 8} {
		add("dst-addr-type", fmt.Sprintf("T mask %#x", b), mustChange, func(q *c21Pkt) { q.DT ^= b })
		add("src-addr-type", fmt.Sprintf("T mask %#x", b), mustChange, func(q *c21Pkt) { q.ST ^= b })
	}
	resize := func(old []byte, tl uint8) []byte {
		n := make([]byte, refAddrLen(tl))
		copy(n, old)
		return n
	}
	for _, b := range []uint8{1, 2} {
		add("dst-addr-type", fmt.Sprintf("L mask %#x (address resized)", b), mustChange, func(q *c21Pkt) { q.DT ^= b; q.Dst = resize(q.Dst, q.DT) })
		add("src-addr-type", fmt.Sprintf("L mask %#x (address resized)", b), mustChange, func(q *c21Pkt) { q.ST ^= b; q.Src = resize(q.Src, q.ST) })
	}
	// --- address header ---
	for b := 0; b < 64; b += 1 + rng.IntN(4) {
		add("dst-ia["+kind+"]", fmt.Sprintf("bit %d", b), cov(ias), func(q *c21Pkt) { q.DstIA ^= 1 << b })
		add("src-ia["+kind+"]", fmt.Sprintf("bit %d", b), cov(ias), func(q *c21Pkt) { q.SrcIA ^= 1 << b })
	}
	for b := 0; b < 8*len(p.Dst); b += 1 + rng.IntN(4) {
		add("dst-host["+kind+"]", fmt.Sprintf("bit %d", b), cov(dh), func(q *c21Pkt) { flipBits(q.Dst, b) })
	}
	for b := 0; b < 8*len(p.Src); b += 1 + rng.IntN(4) {
		add("src-host["+kind+"]", fmt.Sprintf("bit %d", b), cov(sh), func(q *c21Pkt) { flipBits(q.Src, b) })
	}
	// --- authenticator option ---
	for b := 0; b < 8; b++ {
		add("algorithm", fmt.Sprintf("bit %d", b), mustChange, func(q *c21Pkt) { q.Alg ^= 1 << b })
	}
	for b := 0; b < 48; b++ {
		add("timestamp", fmt.Sprintf("bit %d", b), mustChange, func(q *c21Pkt) { q.TS ^= 1 << b })
	}
	if refSPIIsDRKey(p.SPI) {
		// same key type and direction, other protocol number: the statement lists the SPI on neither side
		add("spi-protocol", "low bit", unjudged, func(q *c21Pkt) {
			q.SPI ^= 1
			if q.SPI&0xFFFF == 0 {
				q.SPI ^= 2
			}
		})
	}
	// --- upper layer ---
	for b := 0; b < 8; b++ {
		add("upper-layer-type", fmt.Sprintf("bit %d", b), mustChange, func(q *c21Pkt) { q.PldType ^= 1 << b })
	}
	add("upper-layer-length", "zero byte appended", mustChange, func(q *c21Pkt) { q.Pld = append(q.Pld, 0) })
	if len(p.Pld) > 0 {
		add("upper-layer-length", "last byte dropped", mustChange, func(q *c21Pkt) { q.Pld = q.Pld[:len(q.Pld)-1] })
		for k := 0; k < 12; k++ {
			b := rng.IntN(8 * len(p.Pld))
			add("upper-layer-payload", fmt.Sprintf("bit %d", b), mustChange, func(q *c21Pkt) { flipBits(q.Pld, b) })
		}
		add("upper-layer-payload", "first bit", mustChange, func(q *c21Pkt) { flipBits(q.Pld, 0) })
		add("upper-layer-payload", "last bit", mustChange, func(q *c21Pkt) { flipBits(q.Pld, 8*len(q.Pld)-1) })
	}
	// --- path ---
	infoMuts := func(prefix string, get func(q *c21Pkt) *refInfo, idx int) {
		d := fmt.Sprintf("info %d", idx)
		for b := 0; b < 16; b += 1 + rng.IntN(5) {
			add(prefix+"seg-id", fmt.Sprintf("%s bit %d", d, b), mustStay, func(q *c21Pkt) { get(q).SegID ^= 1 << b })
		}
		add(prefix+"info-peer-flag", d, mustChange, func(q *c21Pkt) { i := get(q); i.Peer = !i.Peer })
		add(prefix+"info-consdir-flag", d, mustChange, func(q *c21Pkt) { i := get(q); i.ConsDir = !i.ConsDir })
		tb := rng.IntN(32)
		add(prefix+"info-timestamp", fmt.Sprintf("%s bit %d", d, tb), mustChange, func(q *c21Pkt) { get(q).TS ^= 1 << tb })
	}
	hopMuts := func(prefix string, get func(q *c21Pkt) *refHop, idx int, immutable bool) {
		d := fmt.Sprintf("hop %d", idx)
		add(prefix+"router-alert", d+" ingress", mustStay, func(q *c21Pkt) { h := get(q); h.IngAlert = !h.IngAlert })
		add(prefix+"router-alert", d+" egress", mustStay, func(q *c21Pkt) { h := get(q); h.EgAlert = !h.EgAlert })
		eb, ib, gb, mb := rng.IntN(8), rng.IntN(16), rng.IntN(16), rng.IntN(48)
		add(prefix+"hop-exptime", fmt.Sprintf("%s bit %d", d, eb), cov(immutable), func(q *c21Pkt) { get(q).Exp ^= 1 << eb })
		add(prefix+"hop-cons-ingress", fmt.Sprintf("%s bit %d", d, ib), cov(immutable), func(q *c21Pkt) { get(q).In ^= 1 << ib })
		add(prefix+"hop-cons-egress", fmt.Sprintf("%s bit %d", d, gb), cov(immutable), func(q *c21Pkt) { get(q).Eg ^= 1 << gb })
		add(prefix+"hop-mac", fmt.Sprintf("%s bit %d", d, mb), cov(immutable), func(q *c21Pkt) { h := get(q); flipBits(h.Mac[:], mb) })
	}
	switch p.PathKind {
	case "scion-decoded", "scion-raw", "epic":
		ninf, nhops := len(p.SP.Infos), len(p.SP.Hops)
		for v := 0; v < 4; v++ {
			if uint8(v) != p.SP.Meta.Inf {
				add("curr-inf", fmt.Sprintf("%d -> %d", p.SP.Meta.Inf, v), mustStay, func(q *c21Pkt) { q.SP.Meta.Inf = uint8(v) })
			}
		}
		for b := 0; b < 6; b++ {
			add("curr-hf", fmt.Sprintf("bit %d", b), mustStay, func(q *c21Pkt) { q.SP.Meta.Hf ^= 1 << b })
		}
		for i := 0; i < ninf; i++ {
			infoMuts("", func(q *c21Pkt) *refInfo { return &q.SP.Infos[i] }, i)
		}
		step := 1
		if nhops > 12 {
			step = 1 + rng.IntN(nhops/6)
		}
		for i := rng.IntN(step); i < nhops; i += step {
			hopMuts("", func(q *c21Pkt) *refHop { return &q.SP.Hops[i] }, i, true)
		}
		if ninf >= 2 && p.SP.Meta.Seg[0] > 1 && p.SP.Meta.Seg[1] < 63 {
			add("seg-len", "one hop moved from segment 0 to segment 1", mustChange, func(q *c21Pkt) { q.SP.Meta.Seg[0]--; q.SP.Meta.Seg[1]++ })
		}
		if p.PathKind == "epic" {
			tb, cb, pb, lb := rng.IntN(32), rng.IntN(32), rng.IntN(32), rng.IntN(32)
			add("epic-pktid", fmt.Sprintf("timestamp bit %d", tb), mustChange, func(q *c21Pkt) { q.EpicTS ^= 1 << tb })
			add("epic-pktid", fmt.Sprintf("counter bit %d", cb), mustChange, func(q *c21Pkt) { q.EpicCtr ^= 1 << cb })
			add("epic-phvf", fmt.Sprintf("bit %d", pb), mustChange, func(q *c21Pkt) { flipBits(q.PHVF, pb) })
			add("epic-lhvf", fmt.Sprintf("bit %d", lb), mustChange, func(q *c21Pkt) { flipBits(q.LHVF, lb) })
		}
	case "onehop":
		infoMuts("onehop-", func(q *c21Pkt) *refInfo { return &q.OHInfo }, 0)
		hopMuts("onehop-first-", func(q *c21Pkt) *refHop { return &q.OH1 }, 0, true)
		hopMuts("onehop-second-", func(q *c21Pkt) *refHop { return &q.OH2 }, 1, false)
	}
	return ms
}

// ---- generator ----

func c21GenHop(rng *rand.Rand) refHop {
	h := refHop{IngAlert: rng.IntN(2) == 0, EgAlert: rng.IntN(2) == 0, Exp: uint8(rng.IntN(256)),
		In: uint16(rng.IntN(1 << 16)), Eg: uint16(rng.IntN(1 << 16))}
	for i := range h.Mac {
		h.Mac[i] = byte(rng.Uint32())
	}
	return h
}

func c21GenInfo(rng *rand.Rand) refInfo {
	return refInfo{Peer: rng.IntN(2) == 0, ConsDir: rng.IntN(2) == 0, SegID: uint16(rng.IntN(1 << 16)), TS: rng.Uint32()}
}

func c21GenScionPath(rng *rand.Rand) *refScionPath {
	ninf := 1 + rng.IntN(3)
	sp := &refScionPath{}
	budget := 64
	if rng.IntN(3) != 0 {
		budget = 12 // mostly realistic sizes, sometimes up to the maximum
	}
	for i := 0; i < ninf; i++ {
		maxLen := budget - (ninf - 1 - i)
		if maxLen > 63 {
			maxLen = 63
		}
		n := 1 + rng.IntN(maxLen)
		if rng.IntN(3) == 0 && n > 4 {
			n = 1 + rng.IntN(4)
		}
		sp.Meta.Seg[i] = uint8(n)
		budget -= n
		sp.Infos = append(sp.Infos, c21GenInfo(rng))
		for k := 0; k < n; k++ {
			sp.Hops = append(sp.Hops, c21GenHop(rng))
		}
	}
	sp.Meta.Hf = uint8(rng.IntN(len(sp.Hops)))
	idx, _, _ := refSegOf(sp.Meta.Seg, int(sp.Meta.Hf))
	sp.Meta.Inf = uint8(idx)
	if rng.IntN(8) == 0 { // as in pkg/spao/mac_test.go: pointers need not be in range
		sp.Meta.Inf, sp.Meta.Hf = uint8(rng.IntN(4)), uint8(rng.IntN(64))
	}
	return sp
}

var c21PathKinds = []string{"empty", "scion-decoded", "scion-raw", "epic", "onehop"}
var c21PathTypeOf = map[string]uint8{"empty": 0, "scion-decoded": 1, "scion-raw": 1, "onehop": 2, "epic": 3}

func c21Gen(rng *rand.Rand, idx int) *c21Pkt {
	p := &c21Pkt{
		Version: uint8(rng.IntN(16)), TC: uint8(rng.IntN(256)), Flow: uint32(rng.IntN(1 << 20)),
		NextHdr: protoE2E, PayloadLen: uint16(rng.IntN(1 << 16)),
		DT: uint8(rng.IntN(16)), ST: uint8(rng.IntN(16)), DstIA: rng.Uint64(), SrcIA: rng.Uint64(),
		Alg: uint8(rng.IntN(3)), TS: rng.Uint64() & (1<<48 - 1), PldType: []uint8{protoUDP, protoSCMP, 6, 203, uint8(rng.IntN(256))}[rng.IntN(5)],
	}
	if rng.IntN(4) == 0 {
		p.Version = 0
	}
	if idx%3 == 0 {
		p.TC &= 0x3C // traffic classes on which every reading of "without ECN" agrees
	}
	// the common address types most of the time
	if rng.IntN(2) == 0 {
		p.DT = []uint8{0, 4, 3}[rng.IntN(3)]
		p.ST = []uint8{0, 4, 3}[rng.IntN(3)]
	}
	fill := func(n int) []byte {
		b := make([]byte, n)
		for i := range b {
			b[i] = byte(rng.Uint32())
		}
		return b
	}
	p.Dst, p.Src = fill(refAddrLen(p.DT)), fill(refAddrLen(p.ST))
	p.PathKind = c21PathKinds[idx%len(c21PathKinds)]
	p.PathTypeF = c21PathTypeOf[p.PathKind]
	switch p.PathKind {
	case "scion-decoded", "scion-raw":
		p.SP = c21GenScionPath(rng)
	case "epic":
		p.SP = c21GenScionPath(rng)
		p.EpicTS, p.EpicCtr, p.PHVF, p.LHVF = rng.Uint32(), rng.Uint32(), fill(4), fill(4)
	case "onehop":
		p.OHInfo, p.OH1, p.OH2 = c21GenInfo(rng), c21GenHop(rng), c21GenHop(rng)
		if rng.IntN(2) == 0 {
			p.OH2 = refHop{} // not yet filled in by the second AS
		}
	}
	// SPI kinds: the four DRKey combinations and non-DRKey values
	switch (idx / len(c21PathKinds)) % 6 {
	case 0, 1, 2, 3:
		k := uint32((idx / len(c21PathKinds)) % 6)
		p.SPI = (k>>1)<<17 | (k&1)<<16 | uint32(1+rng.IntN(0xFFFF))
		if rng.IntN(4) == 0 {
			p.SPI |= uint32(rng.IntN(8)) << 18 // reserved R bits, "SHOULD be ignored"
		}
	case 4:
		p.SPI = 1<<21 + uint32(rng.IntN(1<<21))
	default:
		p.SPI = rng.Uint32() | 1<<21
	}
	p.Auth = fill(16)
	n := rng.IntN(64)
	if rng.IntN(6) == 0 {
		n = rng.IntN(1500)
	}
	p.Pld = fill(n)
	p.Key = fill(16)
	hdr := 12 + 16 + len(p.Dst) + len(p.Src) + len(p.refPathZeroed())
	p.HdrLenFld = uint8(hdr / 4)
	return p
}

func c21Judge(a *acc, rng *rand.Rand, p *c21Pkt, bufs *c21Bufs) {
	pk, sk := p.PathKind, spiKind(p.SPI)
	base, err, stack := p.implMAC(bufs)
	if stack != "" {
		a.violation("C21:panic:"+mon.PanicSite(stack), fmt.Sprintf("ComputeAuthCMAC panicked: %v\n%s", err, stack), p)
		return
	}
	if err != nil {
		a.violation("C21:compute-error/"+pk, "ComputeAuthCMAC failed on a well-formed packet: "+err.Error(), p)
		return
	}
	// ---- the authenticator is AES-CMAC over exactly the documented input ----
	a.evals++
	want, rerr := refCMAC(p.Key, p.refMACInput())
	if rerr != nil {
		a.incon["reference-cmac-error"]++
		return
	}
	a.class("mac/" + pk + "/" + sk)
	a.event("mac_compared")
	if base != want {
		tcOnly := false
		if p.TC&0xC3 != 0 {
			q := p.clone()
			q.TC &= 0x3C
			m2, e2, _ := q.implMAC(bufs)
			w2, _ := refCMAC(q.Key, q.refMACInput())
			tcOnly = e2 == nil && m2 == w2
		}
		if tcOnly {
			// Attributed bit by bit below (keys C21:tc-bit:<mask>).
			a.class("mac/differs-only-through-traffic-class")
			a.event("mac_differs_tc_only")
		} else {
			a.violation("C21:mac-input/"+pk+"/"+sk, fmt.Sprintf(
				"ComputeAuthCMAC = %x, AES-CMAC over the documented authenticated data = %x", base, want), p)
		}
	} else {
		a.event("mac_equal_reference")
	}
	// ---- single-field changes ----
	for _, m := range c21Mutations(p, rng) {
		q := p.clone()
		m.apply(q)
		got, err, stack := q.implMAC(bufs)
		if stack != "" {
			a.violation("C21:panic:"+mon.PanicSite(stack), fmt.Sprintf("ComputeAuthCMAC panicked after changing %s (%s): %v\n%s", m.field, m.detail, err, stack), q)
			continue
		}
		if err != nil {
			// e.g. an address-length change that pushes the header over its maximum
			a.class("mutation-not-computable/" + m.field)
			continue
		}
		changed := got != base
		oc := "stays"
		if changed {
			oc = "changes"
		}
		a.class("field/" + m.field + "/" + pk + "/" + oc)
		if m.expect == unjudged {
			a.class("unjudged/" + m.field + "/" + oc)
			continue
		}
		a.evals++
		a.event("field_" + m.expect + "_" + oc)
		if (m.expect == mustChange) == changed {
			continue
		}
		wit := map[string]any{"packet": p, "field": m.field, "change": m.detail, "authenticator_before": hexs(base[:]), "authenticator_after": hexs(got[:])}
		switch {
		case m.tcMask != 0 && m.expect == mustStay:
			a.violation(fmt.Sprintf("C21:tc-bit:%#02x", m.tcMask), fmt.Sprintf(
				"flipping ECN bit %#02x of the traffic class (%#02x -> %#02x) changes the authenticator", m.tcMask, p.TC, q.TC), wit)
		case m.tcMask != 0:
			a.violation(fmt.Sprintf("C21:tc-bit:%#02x", m.tcMask), fmt.Sprintf(
				"flipping DSCP bit %#02x of the traffic class (%#02x -> %#02x) leaves the authenticator unchanged", m.tcMask, p.TC, q.TC), wit)
		case m.expect == mustStay:
			a.violation("C21:changes-on-mutable/"+m.field, fmt.Sprintf(
				"changing the mutable/excluded field %s (%s) changes the authenticator [%s path, %s]", m.field, m.detail, pk, sk), wit)
		default:
			a.violation("C21:ignores-covered/"+m.field, fmt.Sprintf(
				"changing the covered field %s (%s) leaves the authenticator unchanged [%s path, %s]", m.field, m.detail, pk, sk), wit)
		}
	}
}

// ---- scratch buffers and payload sizes ----
//
// ComputeAuthCMAC takes two scratch buffers from its caller ("must be at least
// MACBufferSize long"; "written to outBuffer (appending, if necessary)"). What
// the authenticator covers must not depend on them. c21Buffers takes a packet
// through aux buffers of exactly MACBufferSize, one byte more, twice and 64 KiB,
// holding zeros, ones, PRNG bytes or whatever the previous computation left,
// through output buffers of several lengths and capacities, and through payload
// lengths from 0 to beyond 3000 bytes with every length around the point where
// authenticated header plus payload reach MACBufferSize. Every authenticator must
// equal the reference AES-CMAC over the documented input, and flipping one bit
// in the first, the middle, the last payload byte and in the bytes around offset
// MACBufferSize-headerLen must change it.

type c21Aux struct {
	name string
	buf  []byte
}

type c21BufSet struct {
	aux   []c21Aux
	noise []byte // PRNG bytes to fill buffers from
	pool  []byte // PRNG bytes payloads are taken from
}

const c21MaxPld = 3400

func newC21BufSet(rng *rand.Rand) *c21BufSet {
	s := &c21BufSet{aux: []c21Aux{
		{"macbuffersize", make([]byte, spao.MACBufferSize)},
		{"macbuffersize+1", make([]byte, spao.MACBufferSize+1)},
		{"2x-macbuffersize", make([]byte, 2*spao.MACBufferSize)},
		{"64k", make([]byte, 64<<10)},
	}}
	s.noise = make([]byte, 4096)
	for i := range s.noise {
		s.noise[i] = byte(rng.Uint32()) | 1
	}
	s.pool = make([]byte, c21MaxPld)
	for i := range s.pool {
		s.pool[i] = byte(rng.Uint32())
	}
	return s
}

var c21AuxContents = []string{"zeros", "ones", "prng-bytes", "left-by-previous-call"}

func (s *c21BufSet) fill(b []byte, kind int) {
	switch kind {
	case 0:
		clear(b)
	case 1:
		for i := range b {
			b[i] = 0xFF
		}
	case 2:
		for o := 0; o < len(b); o += len(s.noise) {
			copy(b[o:], s.noise)
		}
	}
}

var c21OutKinds = []string{"nil", "len0-cap0", "len16", "len0-cap16", "len7", "len64-prng-bytes"}

func (s *c21BufSet) out(kind int) []byte {
	switch kind {
	case 0:
		return nil
	case 1:
		return []byte{}
	case 2:
		return make([]byte, 16)
	case 3:
		return make([]byte, 0, 16)
	case 4:
		return []byte{1, 2, 3, 4, 5, 6, 7}
	}
	return append([]byte(nil), s.noise[:64]...)
}

func c21PldBucket(hdr, n, aux int) string {
	switch {
	case hdr+n <= spao.MACBufferSize:
		return "header+payload-within-macbuffersize"
	case hdr+n <= aux:
		return "header+payload-beyond-macbuffersize-within-aux"
	}
	return "header+payload-beyond-aux"
}

func c21Buffers(a *acc, rng *rand.Rand, p0 *c21Pkt, bs *c21BufSet) {
	p := p0.clone()
	p.TC &= 0x3C // traffic classes on which every reading of "without ECN" agrees (C21:tc-bit is judged elsewhere)
	p.Pld = nil
	hdr := len(p.refMACInput()) // the authenticated data in front of the payload
	b := spao.MACBufferSize - hdr
	// payload lengths: small ones, block boundaries of the MAC, everything around b, large ones
	var lens []int
	seen := map[int]bool{}
	addLen := func(n int) {
		if n >= 0 && n <= c21MaxPld && !seen[n] {
			seen[n] = true
			lens = append(lens, n)
		}
	}
	for _, n := range []int{0, 1, 15, 16, 17, b - 17, b - 16, b - 15, b - 2, b - 1, b, b + 1, b + 2, b + 15, b + 16, b + 17,
		spao.MACBufferSize - 1, spao.MACBufferSize, spao.MACBufferSize + 1, 2*spao.MACBufferSize - hdr, 2*spao.MACBufferSize - hdr + 1,
		3000, 3001 + rng.IntN(c21MaxPld-3001), b + 18 + rng.IntN(900), 18 + rng.IntN(max(b-36, 1)), rng.IntN(c21MaxPld)} {
		addLen(n)
	}
	wit := func(aux c21Aux, outKind, content int, n int, extra map[string]any) map[string]any {
		q := p.clone()
		q.Pld = nil
		w := map[string]any{"packet": q, "buffers": true, "aux_len": len(aux.buf), "aux_content": c21AuxContents[content],
			"out_buffer": c21OutKinds[outKind], "payload_len": n, "authenticated_header_len": hdr}
		for k, v := range extra {
			w[k] = v
		}
		return w
	}
	step := 0
	for _, n := range lens {
		p.Pld = bs.pool[:n]
		want, rerr := refCMAC(p.Key, p.refMACInput())
		if rerr != nil {
			a.incon["reference-cmac-error"]++
			return
		}
		switch {
		case n == 0:
			a.class("buffers/payload-len=0")
		case n < 16:
			a.class("buffers/payload-len=1-15")
		case n >= 3000:
			a.class("buffers/payload-len>=3000")
		}
		for _, aux := range bs.aux {
			step++
			content, outKind := step%len(c21AuxContents), (step/len(c21AuxContents))%len(c21OutKinds)
			bs.fill(aux.buf, content)
			bufs := &c21Bufs{aux: aux.buf, out: bs.out(outKind)}
			bucket := c21PldBucket(hdr, n, len(aux.buf))
			got, err, stack := p.implMAC(bufs)
			if stack != "" {
				a.violation("C21:panic:"+mon.PanicSite(stack), fmt.Sprintf("ComputeAuthCMAC panicked (aux %d bytes, out %s, payload %d bytes): %v\n%s",
					len(aux.buf), c21OutKinds[outKind], n, err, stack), wit(aux, outKind, content, n, nil))
				continue
			}
			if err != nil {
				a.violation("C21:buffers:compute-error:aux="+aux.name, fmt.Sprintf("ComputeAuthCMAC fails with an aux buffer of %d bytes, out buffer %s, payload %d bytes: %v",
					len(aux.buf), c21OutKinds[outKind], n, err), wit(aux, outKind, content, n, nil))
				continue
			}
			a.evals++
			a.event("buffers_mac_compared")
			a.class("buffers/aux=" + aux.name + "/" + bucket)
			a.class("buffers/aux-content=" + c21AuxContents[content])
			a.class("buffers/out=" + c21OutKinds[outKind])
			if got != want {
				a.violation("C21:buffers:mac:aux="+aux.name+":"+bucket, fmt.Sprintf(
					"ComputeAuthCMAC with an aux buffer of %d bytes (%s), out buffer %s, %d authenticated header bytes and %d payload bytes = %x; AES-CMAC over the documented authenticated data = %x",
					len(aux.buf), c21AuxContents[content], c21OutKinds[outKind], hdr, n, got, want),
					wit(aux, outKind, content, n, map[string]any{"authenticator": hexs(got[:]), "reference": hexs(want[:])}))
			} else {
				a.event("buffers_mac_equal_reference")
			}
			if n == 0 {
				continue
			}
			// ---- one bit of a payload byte: the authenticator must change ----
			type at struct {
				off    int
				region string
			}
			var offs []at
			for _, c := range []at{{b - 1, "before-boundary"}, {b, "at-boundary"}, {b + 1, "after-boundary"}, {0, "first"}, {n - 1, "last"}, {n / 2, "middle"}} {
				dup := c.off < 0 || c.off >= n
				for _, o := range offs {
					dup = dup || o.off == c.off
				}
				if !dup {
					offs = append(offs, c)
				}
			}
			for _, o := range offs {
				q := p.clone() // copies the payload
				q.Pld[o.off] ^= 1 << rng.IntN(8)
				bs.fill(aux.buf, content)
				got2, err, stack := q.implMAC(&c21Bufs{aux: aux.buf, out: bs.out(outKind)})
				if stack != "" || err != nil {
					a.violation("C21:buffers:compute-error:aux="+aux.name, fmt.Sprintf("ComputeAuthCMAC fails after flipping a bit of payload byte %d of %d: %v\n%s", o.off, n, err, stack),
						wit(aux, outKind, content, n, map[string]any{"flipped_payload_byte": o.off}))
					continue
				}
				a.evals++
				a.class("buffers/flip/aux=" + aux.name + "/payload-byte=" + o.region)
				if got2 == got {
					a.violation("C21:buffers:payload-byte-ignored:aux="+aux.name+":"+o.region, fmt.Sprintf(
						"flipping a bit of payload byte %d of %d (%s; %d authenticated header bytes, aux buffer of %d bytes, MACBufferSize-headerLen = %d) leaves the authenticator at %x",
						o.off, n, o.region, hdr, len(aux.buf), b, got),
						wit(aux, outKind, content, n, map[string]any{"flipped_payload_byte": o.off, "authenticator": hexs(got[:])}))
				} else {
					a.event("buffers_flip_changes")
				}
			}
		}
	}
}

func checkC21(r *mon.Run) {
	r.Rule = "packet = path kind (empty, SCION decoded, SCION raw, EPIC, one-hop) x SPI kind (DRKey AS-host/host-host x sender/receiver, " +
		"non-DRKey) with PRNG field values; (1) spao.ComputeAuthCMAC compared with an RFC 4493 AES-CMAC over the MAC input laid " +
		"out from authenticator-option.rst; (2) every single-field change (each bit of version, traffic class, flow id, next-hdr, " +
		"path type, algorithm, timestamp, upper-layer type; sampled bits of addresses, payload, SegIDs, hop/info fields; pointers; " +
		"router alerts; lengths) applied and the authenticator observed to change or stay; class = field x path kind x outcome, " +
		"mac comparison per path kind x SPI kind. Buffers monitor: one packet per task of 30 (traffic class restricted to the bits all readings " +
		"agree on) x ~25 payload lengths (0, 1, 15-17, every length within 2 and at 15-17 of MACBufferSize-headerLen, MACBufferSize+-1, " +
		"2*MACBufferSize-headerLen, 3000, PRNG lengths up to 3400) x aux buffers of MACBufferSize, +1, 2x, 64 KiB (zeros, ones, PRNG bytes, left " +
		"by the previous call) with rotating output buffers (nil, empty, 16, cap 16, 7, 64 bytes): authenticator = reference AES-CMAC; one bit of " +
		"the first, middle, last payload byte and of the bytes at MACBufferSize-headerLen-1, +0, +1 flipped: authenticator changes; " +
		"buffers/aux=<size>/<where header+payload end>"
	r.Assumptions = []string{
		"ECN = the two least significant traffic-class bits, DSCP = the six most significant (RFC 2474/3168)",
		"EPIC is not described in authenticator-option.rst: PktID, PHVF and LHVF are taken as immutable path content, the embedded SCION path as for the SCION path type",
		"one-hop paths: the info field's SegID is treated as a segment identifier (mutable) although the document's one-hop list names only the router alerts and the second hop field",
		"reserved hop/info bits are zero in generated packets (the document does not say whether they are covered)",
		"the HdrLen struct field and the DRKey protocol number in the SPI are observed but not judged (the statement lists them on neither side)",
		"a collision of AES-CMAC on two different inputs (2^-128) would be misread as 'not covered'",
		"buffers monitor: any aux buffer of at least spao.MACBufferSize bytes with any content and any output buffer (nil included: 'appending, if necessary') is a legal argument, as the doc comment of ComputeAuthCMAC says; whether the returned slice aliases the output buffer is not judged",
	}
	if err := refCMACSelfTest(); err != nil {
		fmt.Println("C21:", err)
		os.Exit(2)
	}
	if f := r.ReplayFile(); f != "" {
		b, err := os.ReadFile(f)
		var rec struct {
			Witness json.RawMessage `json:"witness"`
		}
		var p c21Pkt
		if err == nil {
			err = json.Unmarshal(b, &rec)
		}
		if err == nil {
			var w struct {
				Packet *c21Pkt `json:"packet"`
			}
			if json.Unmarshal(rec.Witness, &w) == nil && w.Packet != nil {
				p = *w.Packet
			} else {
				err = json.Unmarshal(rec.Witness, &p)
			}
		}
		if err != nil {
			fmt.Println("C21: cannot load replay file:", err)
			os.Exit(2)
		}
		a := newAcc()
		c21Judge(a, r.Rand("replay"), &p, &c21Bufs{aux: make([]byte, spao.MACBufferSize), out: make([]byte, 16)})
		c21Buffers(a, r.Rand("replay/buffers"), &p, newC21BufSet(r.Rand("replay/bufset")))
		a.sample(p)
		a.class("replay")
		a.flush(r)
		return
	}

	n := r.Pick(6000, 60000)
	const chunk = 30
	runTasks(r, (n+chunk-1)/chunk, func(t int, a *acc) {
		rng := r.Rand(fmt.Sprintf("c21/%d", t))
		bufs := &c21Bufs{aux: make([]byte, spao.MACBufferSize), out: make([]byte, 16)}
		brng := r.Rand(fmt.Sprintf("c21/buffers/%d", t))
		var bs *c21BufSet
		for i := t * chunk; i < (t+1)*chunk && i < n; i++ {
			p := c21Gen(rng, i)
			c21Judge(a, rng, p, bufs)
			if i == t*chunk+t%chunk { // one packet per task; path and SPI kinds rotate with t
				if bs == nil {
					bs = newC21BufSet(brng)
				}
				c21Buffers(a, brng, p, bs)
				a.class("buffers/path=" + p.PathKind)
			}
			if i%601 == 7 {
				s := p.clone()
				if len(s.Pld) > 32 {
					s.Pld = s.Pld[:32]
				}
				if s.SP != nil && len(s.SP.Hops) > 3 {
					s.SP.Hops = s.SP.Hops[:3]
				}
				a.sample(map[string]any{"packet_abridged": s, "mac_input_hex_prefix": hexs(p.refMACInput()[:20])})
			}
		}
	})
	need := []string{"mac_compared", "mac_equal_reference", "field_must-stay_stays", "field_must-change_changes",
		"buffers_mac_compared", "buffers_mac_equal_reference", "buffers_flip_changes"}
	r.Require(int64(n)*100, 120, need...)
	var cls []string
	for _, pk := range c21PathKinds {
		for _, sk := range []string{"non-drkey", "drkey-as-host-sender", "drkey-as-host-receiver", "drkey-host-host-sender", "drkey-host-host-receiver"} {
			cls = append(cls, "mac/"+pk+"/"+sk)
		}
	}
	r.RequireClasses(cls...)
	for _, aux := range []string{"macbuffersize", "macbuffersize+1", "2x-macbuffersize", "64k"} {
		r.RequireClasses("buffers/aux=" + aux + "/header+payload-within-macbuffersize")
		if aux != "macbuffersize" {
			r.RequireClasses("buffers/aux=" + aux + "/header+payload-beyond-macbuffersize-within-aux")
		}
		if aux != "64k" {
			r.RequireClasses("buffers/aux=" + aux + "/header+payload-beyond-aux")
		}
		for _, reg := range []string{"first", "middle", "last", "before-boundary", "at-boundary", "after-boundary"} {
			r.RequireClasses("buffers/flip/aux=" + aux + "/payload-byte=" + reg)
		}
	}
	for _, k := range c21AuxContents {
		r.RequireClasses("buffers/aux-content=" + k)
	}
	for _, k := range c21OutKinds {
		r.RequireClasses("buffers/out=" + k)
	}
	for _, k := range c21PathKinds {
		r.RequireClasses("buffers/path=" + k)
	}
	r.RequireClasses("buffers/payload-len=0", "buffers/payload-len=1-15", "buffers/payload-len>=3000")
}
