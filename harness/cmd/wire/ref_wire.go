package main

// Reference wire model of the SCION common/address header, the extension
// headers, UDP and SCMP, written from doc/protocols/scion-header.rst,
// extension-header.rst, scmp.rst and RFC 768. It shares no code with
// pkg/slayers. It provides (a) an encoder for generated header values and
// (b) a layout analysis of arbitrary bytes: how long each header claims to be,
// whether a declared length exceeds the data, and which bits are reserved.

import (
	"encoding/binary"
	"fmt"
)

// refCmn is the common header.
type refCmn struct {
	Version    uint8 // 4 bits
	TC         uint8
	Flow       uint32 // 20 bits
	NextHdr    uint8
	HdrLen     uint8
	PayloadLen uint16
	PathType   uint8
	Rsv        uint16
}

// refEncodeSCION lays out common header, address header and the given path
// bytes. HdrLen and PayloadLen are written as given.
func refEncodeSCION(c refCmn, a *refAddrHdr, pathBytes []byte) []byte {
	b := make([]byte, 0, 12+16+len(a.Dst)+len(a.Src)+len(pathBytes))
	b = binary.BigEndian.AppendUint32(b, uint32(c.Version&0xF)<<28|uint32(c.TC)<<20|c.Flow&0xFFFFF)
	b = append(b, c.NextHdr, c.HdrLen)
	b = binary.BigEndian.AppendUint16(b, c.PayloadLen)
	b = append(b, c.PathType, a.DT<<4|a.ST&0xF)
	b = binary.BigEndian.AppendUint16(b, c.Rsv)
	b = append(b, a.bytes()...)
	return append(b, pathBytes...)
}

// refOpt is one TLV option. Type 0 is Pad1 and has neither length nor data.
type refOpt struct {
	Type   uint8
	Data   []byte
	AlignX uint8 // alignment requirement xn+y; x == 0: none
	AlignY uint8
}

func (o refOpt) wireLen() int {
	if o.Type == 0 {
		return 1
	}
	return 2 + len(o.Data)
}

// refEncodeExtExact lays the options out back to back, without inserting any
// padding; the caller makes the total a multiple of 4.
func refEncodeExtExact(next uint8, opts []refOpt) []byte {
	b := []byte{next, 0}
	for _, o := range opts {
		if o.Type == 0 {
			b = append(b, 0)
			continue
		}
		b = append(b, o.Type, uint8(len(o.Data)))
		b = append(b, o.Data...)
	}
	b[1] = uint8(len(b)/4 - 1)
	return b
}

type refOptAt struct {
	Off  int // offset of OptType from the start of the extension header
	Type uint8
	Data []byte
}

// refLayout is the outcome of analysing the bytes of one header.
type refLayout struct {
	// MustReject is non-empty when a length the header declares (or the fixed
	// part of the header itself) extends beyond the bytes available to it.
	MustReject string
	// Odd is non-empty when the header is malformed in a way the property does
	// not rule on (the implementation may accept or reject).
	Odd string
	// HdrLen is the number of bytes the header occupies according to its own
	// length field; Used is the part of it that its structure accounts for.
	HdrLen, Used int
	// Mask marks reserved bits (len == HdrLen); bytes beyond Used are fully masked.
	Mask []byte
	Next uint8
	Opts []refOptAt
}

func scionPathLayout(region []byte, off int, mask []byte) (used int, mustReject, odd string) {
	if len(region) < refMetaLen {
		return 0, "path-meta-header-exceeds-header", ""
	}
	m := refParseMeta(region)
	kind, ninf, nhops := refShape(m.Seg)
	switch kind {
	case shapeGap, shapeTooLong:
		return 0, "", "scion-path-shape-" + kind
	case shapeEmpty:
		odd = "scion-path-without-segments"
	}
	plen := refPathLen(ninf, nhops)
	if plen > len(region) {
		return 0, "path-segments-exceed-header", ""
	}
	copy(mask[off:], refScionPathMask(ninf, nhops))
	return plen, "", odd
}

// refScionLayout analyses a SCION header (common, address, path).
func refScionLayout(d []byte) refLayout {
	var l refLayout
	if len(d) < 12 {
		l.MustReject = "shorter-than-common-header"
		return l
	}
	l.Next = d[4]
	dl, sl := refAddrLen(d[9]>>4), refAddrLen(d[9]&0xF)
	fixed := 12 + 16 + dl + sl
	if fixed > len(d) {
		l.MustReject = "address-header-exceeds-data"
		return l
	}
	l.HdrLen = int(d[5]) * 4
	if l.HdrLen > len(d) {
		l.MustReject = "hdrlen-exceeds-data"
		return l
	}
	if l.HdrLen < fixed {
		l.Odd = "hdrlen-smaller-than-address-header"
		return l
	}
	l.Mask = make([]byte, l.HdrLen)
	l.Mask[10], l.Mask[11] = 0xFF, 0xFF
	region := d[fixed:l.HdrLen]
	l.Used = fixed
	switch d[8] {
	case 0:
		if len(region) != 0 {
			l.Odd = "empty-path-type-with-path-bytes"
		}
	case 1:
		n, mr, odd := scionPathLayout(region, fixed, l.Mask)
		l.MustReject, l.Odd = mr, odd
		l.Used += n
	case 2:
		if len(region) < refOneHop {
			l.MustReject = "onehop-path-exceeds-header"
			break
		}
		copy(l.Mask[fixed:], refOneHopMask())
		l.Used += refOneHop
	case 3:
		if len(region) < refEpicLen {
			l.MustReject = "epic-header-exceeds-header"
			break
		}
		n, mr, odd := scionPathLayout(region[refEpicLen:], fixed+refEpicLen, l.Mask)
		l.MustReject, l.Odd = mr, odd
		l.Used += refEpicLen + n
	default:
		l.Odd = fmt.Sprintf("unassigned-path-type")
		l.Used = l.HdrLen
	}
	if l.MustReject != "" || (l.Odd != "" && l.Odd != "scion-path-without-segments") {
		return l
	}
	for i := l.Used; i < l.HdrLen; i++ {
		l.Mask[i] = 0xFF
	}
	return l
}

// refExtLayout analyses a hop-by-hop (hbh = true) or end-to-end options header.
func refExtLayout(d []byte, hbh bool) refLayout {
	var l refLayout
	if len(d) < 2 {
		l.MustReject = "shorter-than-extension-header"
		return l
	}
	l.Next = d[0]
	l.HdrLen = (int(d[1]) + 1) * 4
	if l.HdrLen > len(d) {
		l.MustReject = "extlen-exceeds-data"
		return l
	}
	off := 2
	for off < l.HdrLen {
		t := d[off]
		if t == 0 {
			l.Opts = append(l.Opts, refOptAt{Off: off})
			off++
			continue
		}
		if off+2 > l.HdrLen {
			l.MustReject = "option-header-exceeds-extension"
			return l
		}
		n := int(d[off+1])
		if off+2+n > l.HdrLen {
			l.MustReject = "option-data-exceeds-extension"
			return l
		}
		l.Opts = append(l.Opts, refOptAt{Off: off, Type: t, Data: d[off+2 : off+2+n]})
		off += 2 + n
	}
	l.Used = l.HdrLen
	l.Mask = make([]byte, l.HdrLen)
	// "at most one of each", "HBH options MUST come before the E2E options"
	if l.Next == protoHBH || (!hbh && l.Next == protoE2E) {
		l.Odd = "extension-order"
	}
	return l
}

func refUDPLayout(d []byte) refLayout {
	var l refLayout
	if len(d) < 8 {
		l.MustReject = "shorter-than-udp-header"
		return l
	}
	l.HdrLen, l.Used = 8, 8
	l.Mask = make([]byte, 8)
	switch n := int(binary.BigEndian.Uint16(d[4:])); {
	case n == 0:
		l.Odd = "udp-length-zero"
	case n < 8:
		l.Odd = "udp-length-below-header"
	case n > len(d):
		l.Odd = "udp-length-exceeds-data"
	case n < len(d):
		l.Odd = "udp-length-below-data"
	}
	return l
}

// refSCMPLayout analyses the 4-byte SCMP header; the InfoBlock is a header of
// its own (refSCMPInfoLayout), as in the implementation's layering.
func refSCMPLayout(d []byte) refLayout {
	var l refLayout
	if len(d) < 4 {
		l.MustReject = "shorter-than-scmp-header"
		return l
	}
	l.HdrLen, l.Used = 4, 4
	l.Mask = make([]byte, 4)
	return l
}

func refSCMPInfoLayout(typ uint8, d []byte) refLayout {
	var l refLayout
	n := refSCMPInfoLen(typ)
	if len(d) < n {
		l.MustReject = "scmp-info-block-exceeds-data"
		return l
	}
	l.HdrLen, l.Used = n, n
	l.Mask = refSCMPInfoMask(typ)
	return l
}
