package main

import (
	"bytes"
	"encoding/binary"
	"encoding/hex"
	"encoding/json"
	"fmt"
	"math/rand/v2"
	"net/netip"
	"os"

	"github.com/gopacket/gopacket"

	"github.com/scionproto/scion/pkg/addr"
	"github.com/scionproto/scion/pkg/slayers"
	"github.com/scionproto/scion/pkg/slayers/path"
	"github.com/scionproto/scion/pkg/slayers/path/empty"
	"github.com/scionproto/scion/pkg/slayers/path/epic"
	"github.com/scionproto/scion/pkg/slayers/path/onehop"
	"github.com/scionproto/scion/pkg/slayers/path/scion"

	"verif/mon"
)

// C18 — header round trip.
//
// Encoder direction: a packet description (c18Pkt, plain values) is turned into
// slayers layers, serialized by the implementation (FixLengths,
// ComputeChecksums), (a) compared with the wire layout the specification
// prescribes (ref_wire.go; extension headers are judged semantically: options
// preserved, alignment met, padding well-formed, lengths consistent) and (b)
// decoded again by the implementation, layer by layer and through
// gopacket.NewPacket, and compared field by field with the description.
//
// Decoder direction: reference-encoded packets (reserved bits set at random),
// mutated, truncated, extended, or random bytes. ref_wire.go says for every
// header whether a declared length exceeds the data (=> the implementation must
// return an error and must not panic); whatever the implementation accepts is
// serialized again (FixLengths off) and must equal the input on all
// non-reserved bits.

// c18JudgeHdrLenSlack: a SCION header whose HdrLen is larger than its address
// header and path need is accepted by the decoder and re-serialized without
// the surplus bytes (HdrLen kept). The specification does not define such
// bytes, so this is recorded as an observation class, not judged.
const c18JudgeHdrLenSlack = true

type dfb struct{ truncated bool }

func (d *dfb) SetTruncated() { d.truncated = true }

type c18Spao struct {
	SPI  uint32
	Alg  uint8
	TS   uint64
	Auth []byte
}

type c18Ext struct {
	Opts    []refOpt
	Spao    *c18Spao // if set, Opts[SpaoIdx] is the authenticator option built through NewPacketAuthOption
	SpaoIdx int
}

type c18Pkt struct {
	Cmn      refCmn
	Addr     refAddrHdr
	PathKind string // empty | scion | epic | onehop
	RawImpl  bool   // scion: hand the implementation a scion.Raw instead of a scion.Decoded
	SP       *refScionPath
	EpicTS   uint32
	EpicCtr  uint32
	PHVF     []byte
	LHVF     []byte
	OHInfo   refInfo
	OH1, OH2 refHop
	HBH, E2E *c18Ext
	L4       string // udp | scmp | other
	Proto    uint8
	Sport    uint16
	Dport    uint16
	Typ      uint8
	Code     uint8
	Info     []byte
	Csum     uint16 // only used by the reference encoder (decoder direction)
	Pld      []byte
}

var c18PathType = map[string]uint8{"empty": 0, "scion": 1, "onehop": 2, "epic": 3}

func (p *c18Pkt) pathBytes() []byte {
	switch p.PathKind {
	case "scion":
		return p.SP.bytes()
	case "epic":
		b := make([]byte, 0, refEpicLen)
		b = binary.BigEndian.AppendUint32(b, p.EpicTS)
		b = binary.BigEndian.AppendUint32(b, p.EpicCtr)
		b = append(b, p.PHVF...)
		b = append(b, p.LHVF...)
		return append(b, p.SP.bytes()...)
	case "onehop":
		b := make([]byte, refOneHop)
		p.OHInfo.put(b)
		p.OH1.put(b[refInfoLen:])
		p.OH2.put(b[refInfoLen+refHopLen:])
		return b
	}
	return nil
}

func (p *c18Pkt) pathMask() []byte {
	switch p.PathKind {
	case "scion":
		return refScionPathMask(len(p.SP.Infos), len(p.SP.Hops))
	case "epic":
		return append(make([]byte, refEpicLen), refScionPathMask(len(p.SP.Infos), len(p.SP.Hops))...)
	case "onehop":
		return refOneHopMask()
	}
	return nil
}

func (p *c18Pkt) firstNext() uint8 {
	switch {
	case p.HBH != nil:
		return protoHBH
	case p.E2E != nil:
		return protoE2E
	}
	return p.Proto
}

func (p *c18Pkt) l4Bytes() []byte {
	switch p.L4 {
	case "udp":
		b := make([]byte, 8, 8+len(p.Pld))
		binary.BigEndian.PutUint16(b[0:], p.Sport)
		binary.BigEndian.PutUint16(b[2:], p.Dport)
		binary.BigEndian.PutUint16(b[4:], uint16(8+len(p.Pld)))
		binary.BigEndian.PutUint16(b[6:], p.Csum)
		return append(b, p.Pld...)
	case "scmp":
		b := []byte{p.Typ, p.Code, byte(p.Csum >> 8), byte(p.Csum)}
		b = append(b, p.Info...)
		return append(b, p.Pld...)
	}
	return append([]byte(nil), p.Pld...)
}

// refPadOpts inserts Pad1/PadN options so that every option meets its xn+y
// alignment and the header (2 + options) is a multiple of 4 bytes long.
func refPadOpts(opts []refOpt) []refOpt {
	var out []refOpt
	off := 2
	pad := func(n int) {
		switch {
		case n == 1:
			out = append(out, refOpt{Type: 0})
		case n >= 2:
			out = append(out, refOpt{Type: 1, Data: make([]byte, n-2)})
		}
		off += n
	}
	for _, o := range opts {
		if o.AlignX > 0 {
			x, y := int(o.AlignX), int(o.AlignY)
			pad(((y-off)%x + x) % x)
		}
		out = append(out, o)
		off += o.wireLen()
	}
	pad((4 - off%4) % 4)
	return out
}

// refWire is the complete reference encoding of the description.
func (p *c18Pkt) refWire() []byte {
	rest := p.l4Bytes()
	if p.E2E != nil {
		rest = append(refEncodeExtExact(p.Proto, refPadOpts(p.E2E.Opts)), rest...)
	}
	if p.HBH != nil {
		next := p.Proto
		if p.E2E != nil {
			next = protoE2E
		}
		rest = append(refEncodeExtExact(next, refPadOpts(p.HBH.Opts)), rest...)
	}
	pb := p.pathBytes()
	c := p.Cmn
	c.NextHdr = p.firstNext()
	c.PathType = c18PathType[p.PathKind]
	c.HdrLen = uint8((12 + 16 + len(p.Addr.Dst) + len(p.Addr.Src) + len(pb)) / 4)
	c.PayloadLen = uint16(len(rest))
	return append(refEncodeSCION(c, &p.Addr, pb), rest...)
}

// ---- implementation side of the encoder direction ----

func implExtOpts(e *c18Ext) ([]*slayers.EndToEndOption, error) {
	var out []*slayers.EndToEndOption
	for i, o := range e.Opts {
		if e.Spao != nil && i == e.SpaoIdx {
			po, err := slayers.NewPacketAuthOption(slayers.PacketAuthOptionParams{
				SPI: slayers.PacketAuthSPI(e.Spao.SPI), Algorithm: slayers.PacketAuthAlg(e.Spao.Alg),
				TimestampSN: e.Spao.TS, Auth: append([]byte(nil), e.Spao.Auth...)})
			if err != nil {
				return nil, err
			}
			out = append(out, po.EndToEndOption)
			continue
		}
		out = append(out, &slayers.EndToEndOption{OptType: slayers.OptionType(o.Type),
			OptData: append([]byte(nil), o.Data...), OptAlign: [2]uint8{o.AlignX, o.AlignY}})
	}
	return out, nil
}

func (p *c18Pkt) implPath() (path.Path, error) {
	rawOf := func() (*scion.Raw, error) {
		r := &scion.Raw{}
		return r, r.DecodeFromBytes(p.SP.bytes())
	}
	switch p.PathKind {
	case "scion":
		if p.RawImpl {
			return rawOf()
		}
		return implDecoded(p.SP), nil
	case "epic":
		r, err := rawOf()
		return &epic.Path{PktID: epic.PktID{Timestamp: p.EpicTS, Counter: p.EpicCtr},
			PHVF: append([]byte(nil), p.PHVF...), LHVF: append([]byte(nil), p.LHVF...), ScionPath: r}, err
	case "onehop":
		return &onehop.Path{Info: implInfo(p.OHInfo), FirstHop: implHop(p.OH1), SecondHop: implHop(p.OH2)}, nil
	}
	return empty.Path{}, nil
}

func (p *c18Pkt) implLayers() ([]gopacket.SerializableLayer, error) {
	scn := &slayers.SCION{
		Version: p.Cmn.Version, TrafficClass: p.Cmn.TC, FlowID: p.Cmn.Flow,
		NextHdr: slayers.L4ProtocolType(p.firstNext()), PathType: path.Type(c18PathType[p.PathKind]),
	}
	p.Addr.applyTo(scn)
	var err error
	if scn.Path, err = p.implPath(); err != nil {
		return nil, err
	}
	ls := []gopacket.SerializableLayer{scn}
	if p.HBH != nil {
		h := &slayers.HopByHopExtn{}
		h.NextHdr = slayers.L4ProtocolType(p.Proto)
		if p.E2E != nil {
			h.NextHdr = slayers.End2EndClass
		}
		opts, err := implExtOpts(p.HBH)
		if err != nil {
			return nil, err
		}
		for _, o := range opts {
			h.Options = append(h.Options, (*slayers.HopByHopOption)(o))
		}
		ls = append(ls, h)
	}
	if p.E2E != nil {
		e := &slayers.EndToEndExtn{}
		e.NextHdr = slayers.L4ProtocolType(p.Proto)
		if e.Options, err = implExtOpts(p.E2E); err != nil {
			return nil, err
		}
		ls = append(ls, e)
	}
	switch p.L4 {
	case "udp":
		u := &slayers.UDP{SrcPort: p.Sport, DstPort: p.Dport}
		u.SetNetworkLayerForChecksum(scn)
		ls = append(ls, u)
	case "scmp":
		ls = append(ls, implSCMPLayers(scn, p.Typ, p.Code, p.Info)...)
	}
	return append(ls, gopacket.Payload(p.Pld)), nil
}

// scmpMsgBytes re-derives the InfoBlock bytes from a decoded SCMP message
// layer, field by field at the specified offsets (reserved fields zero).
func scmpMsgBytes(l gopacket.Layer) ([]byte, bool) {
	var b []byte
	switch m := l.(type) {
	case *slayers.SCMPDestinationUnreachable:
		b = make([]byte, 4)
	case *slayers.SCMPPacketTooBig:
		b = binary.BigEndian.AppendUint16(make([]byte, 2), m.MTU)
	case *slayers.SCMPParameterProblem:
		b = binary.BigEndian.AppendUint16(make([]byte, 2), m.Pointer)
	case *slayers.SCMPExternalInterfaceDown:
		b = binary.BigEndian.AppendUint64(binary.BigEndian.AppendUint64(nil, uint64(m.IA)), m.IfID)
	case *slayers.SCMPInternalConnectivityDown:
		b = binary.BigEndian.AppendUint64(binary.BigEndian.AppendUint64(binary.BigEndian.AppendUint64(nil, uint64(m.IA)), m.Ingress), m.Egress)
	case *slayers.SCMPEcho:
		b = binary.BigEndian.AppendUint16(binary.BigEndian.AppendUint16(nil, m.Identifier), m.SeqNumber)
	case *slayers.SCMPTraceroute:
		b = binary.BigEndian.AppendUint16(binary.BigEndian.AppendUint16(nil, m.Identifier), m.Sequence)
		b = binary.BigEndian.AppendUint64(binary.BigEndian.AppendUint64(b, uint64(m.IA)), m.Interface)
	default:
		return nil, false
	}
	return b, true
}

// newSCMPMsg returns an empty message layer for an SCMP type (nil if the type
// has no InfoBlock layer).
func newSCMPMsg(typ uint8) interface {
	gopacket.SerializableLayer
	DecodeFromBytes([]byte, gopacket.DecodeFeedback) error
} {
	switch typ {
	case 1:
		return &slayers.SCMPDestinationUnreachable{}
	case 2:
		return &slayers.SCMPPacketTooBig{}
	case 4:
		return &slayers.SCMPParameterProblem{}
	case 5:
		return &slayers.SCMPExternalInterfaceDown{}
	case 6:
		return &slayers.SCMPInternalConnectivityDown{}
	case 128, 129:
		return &slayers.SCMPEcho{}
	case 130, 131:
		return &slayers.SCMPTraceroute{}
	}
	return nil
}

type c18Wit struct {
	Dir     string `json:"direction"`
	Packet  any    `json:"packet,omitempty"`
	Input   string `json:"input_hex,omitempty"`
	Output  string `json:"output_hex,omitempty"`
	Layer   string `json:"layer,omitempty"`
	Offset  int    `json:"layer_offset"`
	Note    string `json:"note,omitempty"`
	Recycle bool   `json:"recycle_paths"`
}

func pathClass(p *c18Pkt) string {
	if p.PathKind == "scion" {
		if p.RawImpl {
			return fmt.Sprintf("scion-raw/ninf=%d", len(p.SP.Infos))
		}
		return fmt.Sprintf("scion-decoded/ninf=%d", len(p.SP.Infos))
	}
	if p.PathKind == "epic" {
		return fmt.Sprintf("epic/ninf=%d", len(p.SP.Infos))
	}
	return p.PathKind
}

func l4Class(p *c18Pkt) string {
	if p.L4 == "scmp" {
		if n, ok := scmpNames[p.Typ]; ok {
			return "scmp-" + n
		}
		return "scmp-unassigned-type"
	}
	return p.L4
}

// cmpExt judges one serialized extension header against its description.
// It returns the header length, or -1 after reporting a violation.
func cmpExt(a *acc, name string, rest []byte, e *c18Ext, wantNext uint8, wit func(string) c18Wit) int {
	lay := refExtLayout(rest, name == "hbh")
	if lay.MustReject != "" || lay.Odd != "" {
		a.violation("C18:enc-wire/"+name+"/structure", "serialized extension header is malformed: "+lay.MustReject+lay.Odd, wit(name))
		return -1
	}
	if lay.Next != wantNext {
		a.violation("C18:enc-wire/"+name+"/next-hdr", fmt.Sprintf("NextHdr %d, expected %d", lay.Next, wantNext), wit(name))
		return -1
	}
	var got []refOptAt
	for _, o := range lay.Opts {
		switch o.Type {
		case 0:
		case 1:
			for _, b := range o.Data {
				if b != 0 {
					a.violation("C18:enc-wire/"+name+"/padding", "PadN option with non-zero data", wit(name))
					return -1
				}
			}
		default:
			got = append(got, o)
		}
	}
	if len(got) != len(e.Opts) {
		a.violation("C18:enc-wire/"+name+"/options", fmt.Sprintf("%d non-padding options on the wire, %d given", len(got), len(e.Opts)), wit(name))
		return -1
	}
	for i, o := range e.Opts {
		if got[i].Type != o.Type || !bytes.Equal(got[i].Data, o.Data) {
			a.violation("C18:enc-wire/"+name+"/options", fmt.Sprintf("option %d is type %d data %x on the wire, given type %d data %x",
				i, got[i].Type, got[i].Data, o.Type, o.Data), wit(name))
			return -1
		}
		if o.AlignX > 0 && got[i].Off%int(o.AlignX) != int(o.AlignY) {
			a.violation("C18:enc-wire/"+name+"/alignment", fmt.Sprintf("option %d (type %d) at offset %d violates %dn+%d",
				i, o.Type, got[i].Off, o.AlignX, o.AlignY), wit(name))
			return -1
		}
	}
	return lay.HdrLen
}

// cmpDecodedOpts compares the options an extension decoder returned with the description.
func cmpDecodedOpts(opts []*slayers.EndToEndOption, e *c18Ext) string {
	var got []*slayers.EndToEndOption
	for _, o := range opts {
		if o.OptType != slayers.OptTypePad1 && o.OptType != slayers.OptTypePadN {
			got = append(got, o)
		}
		if o.OptType != slayers.OptTypePad1 && (int(o.OptDataLen) != len(o.OptData) || o.ActualLength != len(o.OptData)+2) {
			return fmt.Sprintf("option type %d: OptDataLen %d, ActualLength %d, %d data bytes", o.OptType, o.OptDataLen, o.ActualLength, len(o.OptData))
		}
	}
	if len(got) != len(e.Opts) {
		return fmt.Sprintf("%d options decoded, %d given", len(got), len(e.Opts))
	}
	for i, o := range e.Opts {
		if uint8(got[i].OptType) != o.Type || !bytes.Equal(got[i].OptData, o.Data) {
			return fmt.Sprintf("option %d decoded as type %d data %x, given type %d data %x", i, got[i].OptType, got[i].OptData, o.Type, o.Data)
		}
	}
	return ""
}

func c18Encode(a *acc, p *c18Pkt, buf gopacket.SerializeBuffer, ru *reuseStream) {
	wit := func(layer string) c18Wit { return c18Wit{Dir: "encode", Packet: p, Layer: layer} }
	var out []byte
	var err error
	pv, stack := mon.Try(func() {
		var ls []gopacket.SerializableLayer
		if ls, err = p.implLayers(); err != nil {
			return
		}
		if err = gopacket.SerializeLayers(buf, gopacket.SerializeOptions{FixLengths: true, ComputeChecksums: true}, ls...); err == nil {
			out = append([]byte(nil), buf.Bytes()...)
		}
	})
	if pv != nil {
		a.violation("C18:panic:"+mon.PanicSite(stack), fmt.Sprintf("panic while serializing: %v\n%s", pv, stack), wit(""))
		return
	}
	if err != nil {
		a.violation("C18:enc-error", "serializing a representable header value failed: "+err.Error(), wit(""))
		return
	}
	a.evals++
	ext := ""
	if p.HBH != nil {
		ext += "+hbh"
	}
	if p.E2E != nil {
		ext += "+e2e"
		if p.E2E.Spao != nil {
			ext += "(spao)"
		}
	}
	a.class("enc/" + pathClass(p) + "/" + l4Class(p) + ext)
	a.class(fmt.Sprintf("enc/addr/dt=%d,dl=%d,st=%d,sl=%d", p.Addr.DT>>2, refAddrLen(p.Addr.DT), p.Addr.ST>>2, refAddrLen(p.Addr.ST)))
	a.event("encoded")
	witOut := func(layer string) c18Wit { w := wit(layer); w.Output = hexs(out); return w }

	// ---- (a) wire layout ----
	pb := p.pathBytes()
	hdrLen := 12 + 16 + len(p.Addr.Dst) + len(p.Addr.Src) + len(pb)
	if len(out) < hdrLen {
		a.violation("C18:enc-wire/scion", fmt.Sprintf("%d bytes serialized, the SCION header alone needs %d", len(out), hdrLen), witOut("scion"))
		return
	}
	c := p.Cmn
	c.NextHdr, c.PathType, c.HdrLen, c.PayloadLen = p.firstNext(), c18PathType[p.PathKind], uint8(hdrLen/4), uint16(len(out)-hdrLen)
	c.Rsv = 0
	want := refEncodeSCION(c, &p.Addr, pb)
	mask := make([]byte, hdrLen)
	mask[10], mask[11] = 0xFF, 0xFF
	copy(mask[hdrLen-len(pb):], p.pathMask())
	if !eqMasked(out[:hdrLen], want, mask) {
		w := witOut("scion")
		w.Note = "specified layout: " + hexs(want)
		a.violation("C18:enc-wire/scion/"+p.PathKind, "serialized SCION header differs from the specified layout", w)
		return
	}
	rest := out[hdrLen:]
	off := hdrLen
	hbhOff, e2eOff := -1, -1
	if p.HBH != nil {
		next := p.Proto
		if p.E2E != nil {
			next = protoE2E
		}
		n := cmpExt(a, "hbh", rest, p.HBH, next, witOut)
		if n < 0 {
			return
		}
		hbhOff = off
		rest, off = rest[n:], off+n
	}
	if p.E2E != nil {
		n := cmpExt(a, "e2e", rest, p.E2E, p.Proto, witOut)
		if n < 0 {
			return
		}
		e2eOff = off
		rest, off = rest[n:], off+n
	}
	l4Off := off
	wantL4 := p.l4Bytes()
	l4mask := make([]byte, len(wantL4))
	switch p.L4 {
	case "udp":
		l4mask[6], l4mask[7] = 0xFF, 0xFF // checksum: judged by C20
	case "scmp":
		l4mask[2], l4mask[3] = 0xFF, 0xFF
		copy(l4mask[4:], refSCMPInfoMask(p.Typ))
	}
	if !eqMasked(rest, wantL4, l4mask) {
		w := witOut(l4Class(p))
		w.Note = "specified layout (checksum aside): " + hexs(wantL4)
		a.violation("C18:enc-wire/"+l4Class(p), "serialized upper layer differs from the specified layout", w)
		return
	}

	// ---- (b) decode again, compare field values ----
	c18RoundTrip(a, p, out, hdrLen, hbhOff, e2eOff, l4Off, witOut, ru)
}

func cmpPath(p *c18Pkt, got path.Path) string {
	switch p.PathKind {
	case "empty":
		if _, ok := got.(empty.Path); !ok {
			return fmt.Sprintf("decoded path is %T", got)
		}
	case "scion":
		r, ok := got.(*scion.Raw)
		if !ok {
			return fmt.Sprintf("decoded path is %T", got)
		}
		d, err := r.ToDecoded()
		if err != nil {
			return "ToDecoded: " + err.Error()
		}
		return diffDecoded(d, p.SP)
	case "epic":
		e, ok := got.(*epic.Path)
		if !ok || e.ScionPath == nil {
			return fmt.Sprintf("decoded path is %T", got)
		}
		if e.PktID.Timestamp != p.EpicTS || e.PktID.Counter != p.EpicCtr || !bytes.Equal(e.PHVF, p.PHVF) || !bytes.Equal(e.LHVF, p.LHVF) {
			return fmt.Sprintf("EPIC fields %+v %x %x", e.PktID, e.PHVF, e.LHVF)
		}
		d, err := e.ScionPath.ToDecoded()
		if err != nil {
			return "ToDecoded: " + err.Error()
		}
		return diffDecoded(d, p.SP)
	case "onehop":
		o, ok := got.(*onehop.Path)
		if !ok {
			return fmt.Sprintf("decoded path is %T", got)
		}
		if !eqInfo(o.Info, p.OHInfo) || !eqHop(o.FirstHop, p.OH1) || !eqHop(o.SecondHop, p.OH2) {
			return fmt.Sprintf("one-hop fields %+v %+v %+v", o.Info, o.FirstHop, o.SecondHop)
		}
	}
	return ""
}

// refHost is the meaning of a host address of the three assigned type/length
// combinations (scion-header.rst DT/DL; 0/4 bytes: IPv4, 1/4 bytes: service,
// 0/16 bytes: IPv6).
func refHost(tl uint8, raw []byte) (addr.Host, bool) {
	switch tl {
	case 0:
		return addr.HostIP(netip.AddrFrom4([4]byte(raw))), true
	case 4:
		return addr.HostSVC(addr.SVC(binary.BigEndian.Uint16(raw))), true
	case 3:
		return addr.HostIP(netip.AddrFrom16([16]byte(raw))), true
	}
	return addr.Host{}, false
}

func c18RoundTrip(a *acc, p *c18Pkt, out []byte, hdrLen, hbhOff, e2eOff, l4Off int, wit func(string) c18Wit, ru *reuseStream) {
	fail := func(layer, field, msg string) {
		a.violation("C18:enc-roundtrip/"+layer+"/"+field, "decode(serialize(v)) differs from v: "+msg, wit(layer))
	}
	data := append([]byte(nil), out...)
	var cur string
	pv, stack := mon.Try(func() {
		cur = "scion"
		var s slayers.SCION
		err := s.DecodeFromBytes(data, gopacket.NilDecodeFeedback)
		if ru != nil {
			// the same serialized packet into the long-lived objects of this stream
			cur = "reuse"
			ru.packet(out, false, &s, err, nil, false)
			cur = "scion"
		}
		if err != nil {
			fail("scion", "decode", err.Error())
			return
		}
		a.evals++
		switch {
		case s.Version != p.Cmn.Version, s.TrafficClass != p.Cmn.TC, s.FlowID != p.Cmn.Flow:
			fail("scion", "first-line", fmt.Sprintf("version/tc/flow %d/%#x/%#x", s.Version, s.TrafficClass, s.FlowID))
		case uint8(s.NextHdr) != p.firstNext(), int(s.HdrLen)*4 != hdrLen, int(s.PayloadLen) != len(out)-hdrLen:
			fail("scion", "second-line", fmt.Sprintf("next/hdrlen/payloadlen %d/%d/%d", s.NextHdr, s.HdrLen, s.PayloadLen))
		case uint8(s.PathType) != c18PathType[p.PathKind], uint8(s.DstAddrType) != p.Addr.DT, uint8(s.SrcAddrType) != p.Addr.ST:
			fail("scion", "third-line", fmt.Sprintf("pathtype/dt/st %d/%d/%d", s.PathType, s.DstAddrType, s.SrcAddrType))
		case uint64(s.DstIA) != p.Addr.DstIA, uint64(s.SrcIA) != p.Addr.SrcIA, !bytes.Equal(s.RawDstAddr, p.Addr.Dst), !bytes.Equal(s.RawSrcAddr, p.Addr.Src):
			fail("scion", "address-header", fmt.Sprintf("%v %v %x %x", s.DstIA, s.SrcIA, s.RawDstAddr, s.RawSrcAddr))
		case len(s.Contents) != hdrLen || len(s.Payload) != len(out)-hdrLen:
			fail("scion", "contents", fmt.Sprintf("contents/payload %d/%d bytes", len(s.Contents), len(s.Payload)))
		default:
			if d := cmpPath(p, s.Path); d != "" {
				fail("scion", "path-"+p.PathKind, d)
			}
		}
		// typed host accessors for the assigned address types
		for _, side := range []struct {
			name string
			tl   uint8
			raw  []byte
			get  func() (addr.Host, error)
		}{{"dst", p.Addr.DT, p.Addr.Dst, s.DstAddr}, {"src", p.Addr.ST, p.Addr.Src, s.SrcAddr}} {
			want, ok := refHost(side.tl, side.raw)
			h, err := side.get()
			if !ok {
				a.class(fmt.Sprintf("enc/host-accessor/unassigned-type/%s", outcome(err)))
				continue
			}
			a.evals++
			if err != nil || h != want {
				fail("scion", side.name+"-host", fmt.Sprintf("%v, %v; raw %x means %v", h, err, side.raw, want))
			}
		}
		rest := data[hdrLen:]
		if p.HBH != nil {
			cur = "hbh"
			var h slayers.HopByHopExtn
			if err := h.DecodeFromBytes(data[hbhOff:], gopacket.NilDecodeFeedback); err != nil {
				fail("hbh", "decode", err.Error())
				return
			}
			a.evals++
			var opts []*slayers.EndToEndOption
			for _, o := range h.Options {
				opts = append(opts, (*slayers.EndToEndOption)(o))
			}
			end := e2eOff
			if end < 0 {
				end = l4Off
			}
			if d := cmpDecodedOpts(opts, p.HBH); d != "" {
				fail("hbh", "options", d)
			} else if h.ActualLen != end-hbhOff || int(h.ExtLen) != h.ActualLen/4-1 || len(h.Contents) != h.ActualLen {
				fail("hbh", "length", fmt.Sprintf("ExtLen %d ActualLen %d, header is %d bytes", h.ExtLen, h.ActualLen, end-hbhOff))
			}
			var sk slayers.HopByHopExtnSkipper
			if err := sk.DecodeFromBytes(data[hbhOff:], gopacket.NilDecodeFeedback); err != nil || sk.ActualLen != h.ActualLen || sk.NextHdr != h.NextHdr {
				fail("hbh", "skipper", fmt.Sprintf("skipper: %v len %d next %d", err, sk.ActualLen, sk.NextHdr))
			}
			rest = data[hbhOff+h.ActualLen:]
		}
		if p.E2E != nil {
			cur = "e2e"
			var e slayers.EndToEndExtn
			if err := e.DecodeFromBytes(data[e2eOff:], gopacket.NilDecodeFeedback); err != nil {
				fail("e2e", "decode", err.Error())
				return
			}
			a.evals++
			if d := cmpDecodedOpts(e.Options, p.E2E); d != "" {
				fail("e2e", "options", d)
			} else if e.ActualLen != l4Off-e2eOff || int(e.ExtLen) != e.ActualLen/4-1 || uint8(e.NextHdr) != p.Proto {
				fail("e2e", "length", fmt.Sprintf("ExtLen %d ActualLen %d next %d, header is %d bytes", e.ExtLen, e.ActualLen, e.NextHdr, l4Off-e2eOff))
			}
			var sk slayers.EndToEndExtnSkipper
			if err := sk.DecodeFromBytes(data[e2eOff:], gopacket.NilDecodeFeedback); err != nil || sk.ActualLen != e.ActualLen || sk.NextHdr != e.NextHdr {
				fail("e2e", "skipper", fmt.Sprintf("skipper: %v len %d next %d", err, sk.ActualLen, sk.NextHdr))
			}
			if sp := p.E2E.Spao; sp != nil {
				a.evals++
				o, err := e.FindOption(slayers.OptTypeAuthenticator)
				var po slayers.PacketAuthOption
				if err == nil {
					po, err = slayers.ParsePacketAuthOption(o)
				}
				if err != nil || uint32(po.SPI()) != sp.SPI || uint8(po.Algorithm()) != sp.Alg || po.TimestampSN() != sp.TS ||
					!bytes.Equal(po.Authenticator(), sp.Auth) {
					fail("e2e", "authenticator-option", fmt.Sprintf("err=%v", err))
				}
				a.event("spao_roundtrip")
			}
			rest = data[e2eOff+e.ActualLen:]
		}
		cur = p.L4
		switch p.L4 {
		case "udp":
			var u slayers.UDP
			if err := u.DecodeFromBytes(rest, gopacket.NilDecodeFeedback); err != nil {
				fail("udp", "decode", err.Error())
				return
			}
			a.evals++
			if u.SrcPort != p.Sport || u.DstPort != p.Dport || int(u.Length) != 8+len(p.Pld) || !bytes.Equal(u.Payload, p.Pld) {
				fail("udp", "fields", fmt.Sprintf("%d %d len %d payload %d bytes", u.SrcPort, u.DstPort, u.Length, len(u.Payload)))
			}
		case "scmp":
			var m slayers.SCMP
			if err := m.DecodeFromBytes(rest, gopacket.NilDecodeFeedback); err != nil {
				fail("scmp", "decode", err.Error())
				return
			}
			a.evals++
			if uint8(m.TypeCode.Type()) != p.Typ || uint8(m.TypeCode.Code()) != p.Code {
				fail("scmp", "type-code", m.TypeCode.String())
				return
			}
			pld := m.Payload
			if msg := newSCMPMsg(p.Typ); msg != nil {
				if err := msg.DecodeFromBytes(m.Payload, gopacket.NilDecodeFeedback); err != nil {
					fail(l4Class(p), "decode", err.Error())
					return
				}
				gotInfo, _ := scmpMsgBytes(msg.(gopacket.Layer))
				if !bytes.Equal(gotInfo, p.Info) {
					fail(l4Class(p), "info-block", fmt.Sprintf("%x, given %x", gotInfo, p.Info))
				}
				pld = msg.(gopacket.Layer).LayerPayload()
			}
			if !bytes.Equal(pld, p.Pld) {
				fail(l4Class(p), "payload", fmt.Sprintf("%d bytes, given %d", len(pld), len(p.Pld)))
			}
		default:
			if !bytes.Equal(rest, p.Pld) {
				fail("payload", "bytes", "")
			}
		}
		// ---- the whole stack through gopacket.NewPacket ----
		cur = "newpacket"
		pkt := gopacket.NewPacket(append([]byte(nil), out...), slayers.LayerTypeSCION, gopacket.DecodeOptions{SkipDecodeRecovery: true})
		if el := pkt.ErrorLayer(); el != nil {
			fail("newpacket", "error-layer", el.Error().Error())
			return
		}
		a.evals++
		want := []gopacket.LayerType{slayers.LayerTypeSCION}
		if p.HBH != nil {
			want = append(want, slayers.LayerTypeHopByHopExtn)
		}
		if p.E2E != nil {
			want = append(want, slayers.LayerTypeEndToEndExtn)
		}
		switch p.L4 {
		case "udp":
			want = append(want, slayers.LayerTypeSCIONUDP)
		case "scmp":
			want = append(want, slayers.LayerTypeSCMP)
		}
		ls := pkt.Layers()
		for i, t := range want {
			if i >= len(ls) || ls[i].LayerType() != t {
				fail("newpacket", "layer-sequence", fmt.Sprint(ls))
				return
			}
		}
		last := ls[len(ls)-1]
		if len(p.Pld) > 0 && (last.LayerType() != gopacket.LayerTypePayload || !bytes.Equal(last.LayerContents(), p.Pld)) {
			fail("newpacket", "payload", fmt.Sprintf("last layer %v with %d bytes", last.LayerType(), len(last.LayerContents())))
		}
		if sl, ok := ls[0].(*slayers.SCION); !ok || sl.FlowID != p.Cmn.Flow || cmpPath(p, sl.Path) != "" {
			fail("newpacket", "scion-layer", "")
		}
		a.event("roundtrip_ok")
	})
	if pv != nil {
		a.violation("C18:panic:"+mon.PanicSite(stack), fmt.Sprintf("panic while decoding serialized %s layer: %v\n%s", cur, pv, stack), wit(cur))
	}
}

// ---- generators ----

func c18GenOpts(rng *rand.Rand, e2e bool, dirty bool) *c18Ext {
	e := &c18Ext{SpaoIdx: -1}
	n := rng.IntN(5)
	if rng.IntN(6) == 0 {
		n = 0
	}
	aligns := [][2]uint8{{0, 0}, {0, 0}, {1, 0}, {2, 0}, {2, 1}, {4, 0}, {4, 1}, {4, 2}, {4, 3}, {8, 0}, {8, 2}, {8, 6}, {8, 7}}
	for i := 0; i < n; i++ {
		o := refOpt{Type: uint8(2 + rng.IntN(254))}
		if e2e && o.Type == 2 {
			o.Type = 3 // type 2 only through the authenticator path below
		}
		l := rng.IntN(12)
		if rng.IntN(5) == 0 {
			l = rng.IntN(60)
		}
		o.Data = make([]byte, l)
		for j := range o.Data {
			o.Data[j] = byte(rng.Uint32())
		}
		al := aligns[rng.IntN(len(aligns))]
		o.AlignX, o.AlignY = al[0], al[1]
		e.Opts = append(e.Opts, o)
	}
	if e2e && rng.IntN(3) == 0 {
		sp := &c18Spao{SPI: rng.Uint32(), Alg: uint8(rng.IntN(256)), TS: rng.Uint64() & (1<<48 - 1), Auth: make([]byte, []int{0, 4, 16, 36}[rng.IntN(4)])}
		for j := range sp.Auth {
			sp.Auth[j] = byte(rng.Uint32())
		}
		d := binary.BigEndian.AppendUint32(nil, sp.SPI)
		d = append(d, sp.Alg, 0, byte(sp.TS>>40), byte(sp.TS>>32), byte(sp.TS>>24), byte(sp.TS>>16), byte(sp.TS>>8), byte(sp.TS))
		d = append(d, sp.Auth...)
		if dirty {
			d[5] = byte(rng.Uint32()) // RSV of the option; only the reference encoder can set it
		}
		e.Spao = sp
		e.SpaoIdx = rng.IntN(len(e.Opts) + 1)
		o := refOpt{Type: 2, Data: d, AlignX: 4, AlignY: 2}
		e.Opts = append(e.Opts[:e.SpaoIdx], append([]refOpt{o}, e.Opts[e.SpaoIdx:]...)...)
	}
	return e
}

func c18GenScionPath(rng *rand.Rand, dirty bool) *refScionPath {
	sp := c21GenScionPath(rng)
	if rng.IntN(3) == 0 { // in-range but arbitrary pointers
		sp.Meta.Hf = uint8(rng.IntN(len(sp.Hops)))
		sp.Meta.Inf = uint8(rng.IntN(len(sp.Infos)))
	}
	if dirty {
		sp.Meta.Rsv = uint8(rng.IntN(64))
		for i := range sp.Infos {
			sp.Infos[i].R6, sp.Infos[i].Rsv = uint8(rng.IntN(64)), uint8(rng.IntN(256))
		}
		for i := range sp.Hops {
			sp.Hops[i].R6 = uint8(rng.IntN(64))
		}
	}
	return sp
}

// c18Gen generates a packet description. dirty: set reserved bits at random
// (only meaningful for the reference encoder); idx steers systematic coverage
// of address types, path kinds and upper layers.
func c18Gen(rng *rand.Rand, idx int, dirty bool) *c18Pkt {
	p := &c18Pkt{}
	p.Cmn = refCmn{Version: uint8(rng.IntN(16)), TC: uint8(rng.IntN(256)), Flow: uint32(rng.IntN(1 << 20))}
	if rng.IntN(3) == 0 {
		p.Cmn.Version = 0
	}
	if dirty {
		p.Cmn.Rsv = uint16(rng.IntN(1 << 16))
	}
	p.Addr = c20GenAddr(rng, idx%512) // idx%512 < 256: systematic DT/ST combination
	p.PathKind = []string{"empty", "scion", "scion", "epic", "onehop"}[idx%5]
	p.RawImpl = rng.IntN(2) == 0
	fill := func(n int) []byte {
		b := make([]byte, n)
		for i := range b {
			b[i] = byte(rng.Uint32())
		}
		return b
	}
	switch p.PathKind {
	case "scion":
		p.SP = c18GenScionPath(rng, dirty)
	case "epic":
		p.SP = c18GenScionPath(rng, dirty)
		p.EpicTS, p.EpicCtr, p.PHVF, p.LHVF = rng.Uint32(), rng.Uint32(), fill(4), fill(4)
	case "onehop":
		p.OHInfo, p.OH1, p.OH2 = c21GenInfo(rng), c21GenHop(rng), c21GenHop(rng)
		if dirty {
			p.OHInfo.R6, p.OHInfo.Rsv, p.OH1.R6, p.OH2.R6 = uint8(rng.IntN(64)), uint8(rng.IntN(256)), uint8(rng.IntN(64)), uint8(rng.IntN(64))
		}
	}
	if rng.IntN(3) == 0 {
		p.HBH = c18GenOpts(rng, false, dirty)
	}
	if rng.IntN(3) == 0 {
		p.E2E = c18GenOpts(rng, true, dirty)
	}
	k := (idx / 5) % 12
	switch {
	case k == 0:
		p.L4, p.Proto = "udp", protoUDP
		p.Sport, p.Dport = uint16(rng.IntN(1<<16)), uint16(rng.IntN(1<<16))
	case k <= len(scmpTypes):
		p.L4, p.Proto, p.Typ, p.Code = "scmp", protoSCMP, scmpTypes[k-1], uint8(rng.IntN(256))
		p.Info = fill(refSCMPInfoLen(p.Typ))
		if !dirty {
			m := refSCMPInfoMask(p.Typ)
			for i := range p.Info {
				p.Info[i] &^= m[i]
			}
		}
	case k == len(scmpTypes)+1:
		p.L4, p.Proto, p.Typ, p.Code = "scmp", protoSCMP, []uint8{0, 3, 100, 127, 200, 255}[rng.IntN(6)], uint8(rng.IntN(256))
	default:
		p.L4, p.Proto = "other", []uint8{6, 253, 254, 0, 99}[rng.IntN(5)]
	}
	p.Csum = uint16(rng.IntN(1 << 16))
	n := rng.IntN(48)
	if rng.IntN(8) == 0 {
		n = rng.IntN(1200)
	}
	p.Pld = fill(n)
	return p
}

// ---- decoder direction ----

type c18Dec struct {
	a       *acc
	orig    []byte
	recycle bool
	buf     gopacket.SerializeBuffer
	src     string // how the input was produced (class component)
}

func (d *c18Dec) wit(layer string, off int, out []byte, note string) c18Wit {
	return c18Wit{Dir: "decode", Input: hexs(d.orig), Output: hexs(out), Layer: layer, Offset: off, Note: note, Recycle: d.recycle}
}

// reserialize serializes the given decoded layers followed by tail with all
// fix-ups off.
func (d *c18Dec) reserialize(tail []byte, ls ...gopacket.SerializableLayer) ([]byte, error) {
	ls = append(ls, gopacket.Payload(tail))
	if err := gopacket.SerializeLayers(d.buf, gopacket.SerializeOptions{}, ls...); err != nil {
		return nil, err
	}
	return append([]byte(nil), d.buf.Bytes()...), nil
}

// judge handles one header at offset off of the input: lay is the reference
// analysis of d.orig[off:], err the implementation's verdict on the same bytes;
// if accepted, ls are the decoded layers to serialize again.
// It returns true if the walk may continue behind this header.
func (d *c18Dec) judge(layer string, off int, lay refLayout, err error, truncated bool, ls ...gopacket.SerializableLayer) bool {
	a := d.a
	in := d.orig[off:]
	reason := lay.MustReject
	if reason == "" {
		reason = lay.Odd
	}
	if reason == "" {
		reason = "well-formed"
	}
	a.class("dec/" + layer + "/" + outcome(err) + "/" + reason)
	a.event("dec_" + outcome(err))
	if lay.MustReject != "" {
		a.evals++
		a.event("dec_length_exceeds_data")
		if err == nil {
			a.violation("C18:dec-accepts-overlong/"+layer+"/"+lay.MustReject, fmt.Sprintf(
				"%s decoder accepts %d bytes although %s", layer, len(in), lay.MustReject), d.wit(layer, off, nil, lay.MustReject))
		}
		return false
	}
	if err != nil {
		return false
	}
	if lay.Mask == nil || (lay.Odd != "" && lay.Odd != "scion-path-without-segments" && layer == "scion" && lay.Odd != "unassigned-path-type") {
		// accepted something whose layout the reference cannot lay out: recorded only
		a.class("dec/" + layer + "/accepted-unjudged/" + lay.Odd)
		return false
	}
	a.evals++
	tail := in[lay.HdrLen:]
	out, serr := d.reserialize(tail, ls...)
	if serr != nil {
		a.violation("C18:dec-reserialize-error/"+layer, "an accepted header cannot be serialized again: "+serr.Error(), d.wit(layer, off, nil, lay.Odd))
		return false
	}
	want, mask := in, append(append([]byte(nil), lay.Mask...), make([]byte, len(tail))...)
	if slack := lay.HdrLen - lay.Used; slack > 0 {
		// surplus header bytes behind the path (HdrLen larger than needed)
		a.class("obs/" + layer + "/hdrlen-larger-than-path-needs")
		a.event("obs_hdrlen_slack")
		if !c18JudgeHdrLenSlack {
			want = append(append([]byte(nil), in[:lay.Used]...), tail...)
			mask = append(append([]byte(nil), lay.Mask[:lay.Used]...), make([]byte, len(tail))...)
		}
	}
	if !eqMasked(out, want, mask) {
		key := "C18:dec-reserialize/" + layer
		if lay.HdrLen != lay.Used {
			key += "/hdrlen-slack"
		}
		a.violation(key, fmt.Sprintf("re-serializing the accepted %s header does not reproduce the input on non-reserved bits (%d bytes out, %d expected)",
			layer, len(out), len(want)), d.wit(layer, off, out, lay.Odd))
		return false
	}
	a.event("dec_reserialized_equal")
	if !bytes.Equal(out, want) {
		a.class("obs/" + layer + "/reserved-bits-normalised")
		a.event("obs_reserved_normalised")
	}
	return true
}

func c18Decode(a *acc, orig []byte, recycle bool, buf gopacket.SerializeBuffer, src string, ru *reuseStream) {
	d := &c18Dec{a: a, orig: orig, recycle: recycle, buf: buf, src: src}
	cur, curOff := "scion", 0
	allAccepted := false
	var udpOdd string
	slack := false
	pv, stack := mon.Try(func() {
		// every decoder gets its own copy: decoded layers alias their input and
		// scion.Raw.SerializeTo writes into it
		data := append([]byte(nil), orig...)
		var s slayers.SCION
		if recycle {
			s.RecyclePaths()
		}
		lay := refScionLayout(orig)
		var fb dfb
		err := s.DecodeFromBytes(data, &fb)
		if ru != nil {
			// the same input into the long-lived objects of this stream, compared
			// with the fresh layer judged below
			cur = "reuse"
			ru.packet(orig, recycle, &s, err, &fb.truncated, src == "truncation-sweep")
			cur = "scion"
		}
		if !d.judge("scion", 0, lay, err, fb.truncated, &s) {
			return
		}
		slack = lay.HdrLen != lay.Used
		a.class("dec/input=" + src)
		off := lay.HdrLen
		next := lay.Next
		seenHBH, seenE2E := false, false
		for {
			cur, curOff = fmt.Sprint("proto-", next), off
			data := append([]byte(nil), orig[off:]...)
			switch {
			case next == protoHBH && !seenHBH && !seenE2E:
				seenHBH = true
				cur = "hbh"
				var h slayers.HopByHopExtn
				el := refExtLayout(orig[off:], true)
				err := h.DecodeFromBytes(data, gopacket.NilDecodeFeedback)
				var sk slayers.HopByHopExtnSkipper
				skErr := sk.DecodeFromBytes(append([]byte(nil), orig[off:]...), gopacket.NilDecodeFeedback)
				if (el.MustReject == "shorter-than-extension-header" || el.MustReject == "extlen-exceeds-data") && skErr == nil {
					a.violation("C18:dec-accepts-overlong/hbh-skipper/"+el.MustReject, "HopByHopExtnSkipper accepts although "+el.MustReject, d.wit("hbh", off, nil, ""))
				}
				if !d.judge("hbh", off, el, err, false, &h) {
					return
				}
				off, next = off+el.HdrLen, el.Next
			case next == protoE2E && !seenE2E:
				seenE2E = true
				cur = "e2e"
				var e slayers.EndToEndExtn
				el := refExtLayout(orig[off:], false)
				err := e.DecodeFromBytes(data, gopacket.NilDecodeFeedback)
				var sk slayers.EndToEndExtnSkipper
				skErr := sk.DecodeFromBytes(append([]byte(nil), orig[off:]...), gopacket.NilDecodeFeedback)
				if (el.MustReject == "shorter-than-extension-header" || el.MustReject == "extlen-exceeds-data") && skErr == nil {
					a.violation("C18:dec-accepts-overlong/e2e-skipper/"+el.MustReject, "EndToEndExtnSkipper accepts although "+el.MustReject, d.wit("e2e", off, nil, ""))
				}
				if !d.judge("e2e", off, el, err, false, &e) {
					return
				}
				if err == nil {
					// the authenticator accessors must not read beyond the option
					for _, o := range e.Options {
						if o.OptType == slayers.OptTypeAuthenticator {
							po, perr := slayers.ParsePacketAuthOption(o)
							if perr == nil {
								_, _, _, _ = po.SPI(), po.Algorithm(), po.TimestampSN(), po.Authenticator()
								a.class("dec/e2e/authenticator-option/parsed")
							} else if len(o.OptData) >= 12 {
								a.violation("C18:dec-reserialize/e2e/authenticator-option", "ParsePacketAuthOption rejects an option with 12 or more data bytes: "+perr.Error(), d.wit("e2e", off, nil, ""))
							} else {
								a.class("dec/e2e/authenticator-option/too-short-rejected")
							}
						}
					}
				}
				off, next = off+el.HdrLen, el.Next
			case next == protoHBH || next == protoE2E:
				// a repeated or misordered extension header: the previous header's
				// decoder accepted it, which contradicts the ordering rule it enforces
				a.class("dec/extension-order/unexpected-accept")
				return
			case next == protoUDP:
				cur = "udp"
				var u slayers.UDP
				ul := refUDPLayout(orig[off:])
				var fb dfb
				err := u.DecodeFromBytes(data, &fb)
				if ul.Odd == "udp-length-exceeds-data" && err == nil {
					a.class(fmt.Sprintf("obs/udp/length-exceeds-data/accepted/truncated-flag=%v", fb.truncated))
					a.event("obs_udp_length_exceeds_data")
				}
				udpOdd = ul.Odd
				if !d.judge("udp", off, ul, err, fb.truncated, &u) {
					return
				}
				if n := int(u.Length); n >= 8 && n <= len(data) {
					a.evals++
					if !bytes.Equal(u.Payload, orig[off+8:off+n]) {
						a.violation("C18:dec-reserialize/udp/payload-bounds", fmt.Sprintf("UDP payload has %d bytes, Length field says %d", len(u.Payload), n-8), d.wit("udp", off, nil, ""))
					}
				}
				allAccepted = true
				return
			case next == protoSCMP:
				cur = "scmp"
				var m slayers.SCMP
				sl := refSCMPLayout(orig[off:])
				err := m.DecodeFromBytes(data, gopacket.NilDecodeFeedback)
				if !d.judge("scmp", off, sl, err, false, &m) {
					return
				}
				typ := orig[off]
				off += 4
				msg := newSCMPMsg(typ)
				if msg == nil {
					a.class("dec/scmp/unassigned-type")
					allAccepted = true
					return
				}
				cur, curOff = "scmp-"+scmpNames[typ], off
				il := refSCMPInfoLayout(typ, orig[off:])
				err = msg.DecodeFromBytes(append([]byte(nil), orig[off:]...), gopacket.NilDecodeFeedback)
				if d.judge(cur, off, il, err, false, msg) {
					allAccepted = true
				}
				return
			default:
				allAccepted = true
				return
			}
		}
	})
	if pv != nil {
		a.violation("C18:panic:"+mon.PanicSite(stack), fmt.Sprintf("panic in the %s decoder at offset %d: %v\n%s", cur, curOff, pv, stack),
			d.wit(cur, curOff, nil, ""))
		return
	}

	// ---- the same input through gopacket.NewPacket (registered decoders) ----
	if recycle {
		return
	}
	var pkt gopacket.Packet
	pv, stack = mon.Try(func() {
		pkt = gopacket.NewPacket(append([]byte(nil), orig...), slayers.LayerTypeSCION, gopacket.DecodeOptions{SkipDecodeRecovery: true})
	})
	if pv != nil {
		a.violation("C18:panic:"+mon.PanicSite(stack), fmt.Sprintf("panic in gopacket.NewPacket: %v\n%s", pv, stack), d.wit("newpacket", 0, nil, ""))
		return
	}
	a.evals++
	if pkt.ErrorLayer() != nil {
		a.event("newpacket_error_layer")
		if allAccepted && orig[4] != 203 {
			// every layer decoder accepted its header, the registered decoders did not
			a.class("obs/newpacket-rejects-what-layer-decoders-accept")
		}
		return
	}
	a.event("newpacket_decoded")
	if !allAccepted {
		// NewPacket reports no error although a layer decoder did. gopacket does
		// not call the next decoder when no bytes are left, so a packet that ends
		// exactly where the next header should start passes silently; recorded.
		if curOff >= len(orig) {
			a.class("obs/newpacket-silent-when-next-header-has-no-bytes")
		} else {
			a.class("obs/newpacket-accepts-what-layer-decoder-rejects")
			if dumpClasses {
				fmt.Println("ACCEPTS-MORE", cur, curOff, hexs(orig))
			}
		}
		return
	}
	if slack || (udpOdd != "" && udpOdd != "udp-length-zero") {
		return // lengths the whole-stack serialization cannot be expected to reproduce (see observations)
	}
	var ls []gopacket.SerializableLayer
	for _, l := range pkt.Layers() {
		sl, ok := l.(gopacket.SerializableLayer)
		if !ok {
			a.class("obs/newpacket-layer-not-serializable")
			return
		}
		ls = append(ls, sl)
	}
	var out []byte
	var err error
	pv, stack = mon.Try(func() {
		if err = gopacket.SerializeLayers(buf, gopacket.SerializeOptions{}, ls...); err == nil {
			out = append([]byte(nil), buf.Bytes()...)
		}
	})
	if pv != nil {
		a.violation("C18:panic:"+mon.PanicSite(stack), fmt.Sprintf("panic while re-serializing NewPacket layers: %v\n%s", pv, stack), d.wit("newpacket", 0, nil, ""))
		return
	}
	if err != nil {
		a.violation("C18:dec-reserialize-error/newpacket", err.Error(), d.wit("newpacket", 0, nil, ""))
		return
	}
	mask := c18WholeMask(orig)
	if mask == nil || !eqMasked(out, orig, mask) {
		a.violation("C18:dec-reserialize/newpacket", fmt.Sprintf("layers of gopacket.NewPacket re-serialize to %d bytes that differ from the %d input bytes on non-reserved bits",
			len(out), len(orig)), d.wit("newpacket", 0, out, ""))
		return
	}
	a.event("newpacket_reserialized_equal")
}

// c18WholeMask concatenates the reserved-bit masks of all headers of a packet
// every layer of which the reference can lay out.
func c18WholeMask(orig []byte) []byte {
	lay := refScionLayout(orig)
	if lay.Mask == nil || lay.MustReject != "" {
		return nil
	}
	mask := append([]byte(nil), lay.Mask...)
	off, next := lay.HdrLen, lay.Next
	for {
		switch next {
		case protoHBH, protoE2E:
			el := refExtLayout(orig[off:], next == protoHBH)
			if el.Mask == nil || el.MustReject != "" {
				return nil
			}
			mask = append(mask, el.Mask...)
			off, next = off+el.HdrLen, el.Next
			continue
		case protoSCMP:
			if len(orig) < off+4 {
				return nil
			}
			mask = append(mask, 0, 0, 0, 0)
			im := refSCMPInfoMask(orig[off])
			if len(orig) >= off+4+len(im) {
				mask = append(mask, im...)
			}
		}
		break
	}
	return append(mask, make([]byte, len(orig)-len(mask))...)
}

// c18Mutate derives a hostile input from a reference-encoded packet.
func c18Mutate(rng *rand.Rand, p *c18Pkt, wire []byte) ([]byte, string) {
	b := append([]byte(nil), wire...)
	hdr := int(b[5]) * 4
	pick := rng.IntN(14)
	switch pick {
	case 0:
		return b, "valid"
	case 1: // truncate anywhere
		return b[:rng.IntN(len(b)+1)], "truncated"
	case 2: // truncate inside the headers
		n := hdr + 8
		if n > len(b) {
			n = len(b)
		}
		return b[:rng.IntN(n+1)], "truncated-in-header"
	case 3: // HdrLen
		b[5] = byte(rng.IntN(256))
		if rng.IntN(2) == 0 {
			b[5] = byte(int(wire[5]) + rng.IntN(7) - 3)
		}
		return b, "hdrlen-changed"
	case 4: // address type/length nibbles
		b[9] = byte(rng.IntN(256))
		return b, "addr-types-changed"
	case 5: // path type
		b[8] = byte(rng.IntN(6))
		if rng.IntN(4) == 0 {
			b[8] = byte(rng.IntN(256))
		}
		return b, "path-type-changed"
	case 6: // path meta header
		o := 12 + 16 + len(p.Addr.Dst) + len(p.Addr.Src)
		if p.PathKind == "epic" {
			o += refEpicLen
		}
		if o+4 <= len(b) {
			binary.BigEndian.PutUint32(b[o:], binary.BigEndian.Uint32(b[o:])^(uint32(1)<<rng.IntN(32)))
			if rng.IntN(3) == 0 {
				binary.BigEndian.PutUint32(b[o:], rng.Uint32())
			}
		}
		return b, "path-meta-changed"
	case 7: // extension / option length bytes
		if hdr+2 <= len(b) && (p.HBH != nil || p.E2E != nil) {
			o := hdr + 1
			if rng.IntN(2) == 0 {
				// some option length byte inside the first extension header
				n := (int(b[hdr+1]) + 1) * 4
				if n > 3 && hdr+n <= len(b) {
					o = hdr + 2 + rng.IntN(n-2)
				}
			}
			b[o] = byte(rng.IntN(256))
			if rng.IntN(2) == 0 {
				b[o] = wire[o] + byte(rng.IntN(5)) - 2
			}
		}
		return b, "extension-length-changed"
	case 8: // next-header chain
		b[4] = []byte{protoHBH, protoE2E, protoUDP, protoSCMP, 203, 6}[rng.IntN(6)]
		return b, "next-hdr-changed"
	case 9: // random bit flips
		for k := 1 + rng.IntN(4); k > 0; k-- {
			i := rng.IntN(len(b))
			b[i] ^= 1 << rng.IntN(8)
		}
		return b, "bit-flips"
	case 10: // garbage appended
		n := 1 + rng.IntN(40)
		for i := 0; i < n; i++ {
			b = append(b, byte(rng.Uint32()))
		}
		return b, "bytes-appended"
	case 11: // upper-layer length fields and type
		o := len(b) - len(p.l4Bytes())
		if o >= 0 && o+8 <= len(b) {
			if p.L4 == "udp" {
				binary.BigEndian.PutUint16(b[o+4:], uint16(rng.IntN(len(b)+20)))
			} else {
				b[o] = scmpTypes[rng.IntN(len(scmpTypes))]
			}
		}
		return b, "l4-length-or-type-changed"
	case 12: // header bytes randomised
		n := hdr
		if n > len(b) {
			n = len(b)
		}
		for k := 1 + rng.IntN(6); k > 0 && n > 0; k-- {
			b[rng.IntN(n)] = byte(rng.Uint32())
		}
		return b, "header-bytes-randomised"
	default: // pure noise with a plausible start
		n := rng.IntN(120)
		b = make([]byte, n)
		for i := range b {
			b[i] = byte(rng.Uint32())
		}
		if n > 9 && rng.IntN(2) == 0 {
			b[5] = byte(rng.IntN(n/4 + 2))
			b[8] = byte(rng.IntN(4))
			b[9] = []byte{0, 0x03, 0x30, 0x33, 0x40, 0x11}[rng.IntN(6)]
		}
		return b, "random-bytes"
	}
}

func checkC18(r *mon.Run) {
	r.Rule = "encoder direction: PRNG header values (all 256 DT/DL x ST/SL combinations; empty, SCION (Decoded and Raw), EPIC, one-hop " +
		"paths; optional HBH/E2E headers with 0-5 options of arbitrary type, length and xn+y alignment, optional authenticator " +
		"option; UDP, each of the nine SCMP types, unassigned SCMP types, other protocols) serialized by slayers, compared with the " +
		"specified wire layout and decoded again (layer decoders and gopacket.NewPacket) for field equality. Decoder direction: " +
		"reference-encoded packets with random reserved bits, then valid/truncated/length-field-mutated/bit-flipped/extended/" +
		"random inputs (and, for a subset, every truncation length), with and without RecyclePaths; a reference layout analysis " +
		"says where a declared length exceeds the data (must be rejected, no panic); accepted headers are serialized again and " +
		"compared with the input under the reserved-bit mask. Reuse monitor: per stream of 200 generated inputs (in generation order, plus " +
		"every 4th length of the truncation sweeps; 1 in 24 SCION/EPIC paths is replaced by the path without segments) one long-lived " +
		"slayers.SCION with RecyclePaths, one without, one scion.Decoded, scion.Raw, scion.Base, epic.Path and onehop.Path are decoded into " +
		"again and again from a reused buffer and compared with a fresh object on the same bytes: decision, every field, Len(), SerializeTo " +
		"into exactly Len() bytes. class = direction x layer x outcome x reason / path kind x upper layer x extensions; " +
		"reuse/<object>/<what the object decoded before: longer, shorter, empty, rejected, other path type>"
	r.Assumptions = []string{
		"reserved bits (scion-header.rst): common-header RSV, PathMeta RSV, the six r bits and the RSV byte of info fields, the six r bits of hop fields; (scmp.rst) the Unused word of DestinationUnreachable and the reserved half-word of PacketTooBig/ParameterProblem",
		"a SCION header whose HdrLen exceeds what address header and path need is accepted and re-serialized without the surplus bytes: recorded as observation obs/scion/hdrlen-larger-than-path-needs, not judged (c18JudgeHdrLenSlack)",
		"PayloadLen and the UDP Length field are not used by the layer decoders to delimit headers; values inconsistent with the data are recorded as observations (UDP: SetTruncated feedback), not judged as 'declared length exceeds the data'",
		"extension headers serialized with FixLengths are judged semantically (options preserved in order, xn+y alignment met, Pad1/PadN well-formed with zero data, ExtLen consistent), not against one particular padding layout",
		"checksum fields are ignored here (C20)",
		"total option size is kept below the 1024-byte limit of ExtLen; header values that do not fit the length fields are not generated",
		"reuse monitor: the state of a decoder object after a rejected decode is not looked at; for the four assigned path types the fresh layer the check judges is the reference for the long-lived layer with and without RecyclePaths, for unassigned path types (strict decoding rejects them only without RecyclePaths) each has a fresh layer of its own setting; empty.Path is a value without state and only exercised inside the layers",
	}
	if f := r.ReplayFile(); f != "" {
		b, err := os.ReadFile(f)
		var rec struct {
			Witness struct {
				Dir     string          `json:"direction"`
				Input   string          `json:"input_hex"`
				Packet  json.RawMessage `json:"packet"`
				Recycle bool            `json:"recycle_paths"`
			} `json:"witness"`
		}
		if err == nil {
			err = json.Unmarshal(b, &rec)
		}
		a := newAcc()
		buf := gopacket.NewSerializeBuffer()
		if err == nil && rec.Witness.Dir == "reuse" {
			// the recorded input history into a new set of long-lived objects
			var rw struct {
				Witness reuseWit `json:"witness"`
			}
			if err = json.Unmarshal(b, &rw); err == nil {
				err = newReuseStream("C18", a, false).replay(&rw.Witness)
			}
		} else if err == nil && rec.Witness.Dir == "decode" {
			var in []byte
			if in, err = hex.DecodeString(rec.Witness.Input); err == nil {
				c18Decode(a, in, rec.Witness.Recycle, buf, "replay", newReuseStream("C18", a, false))
			}
		} else if err == nil {
			var p c18Pkt
			if err = json.Unmarshal(rec.Witness.Packet, &p); err == nil {
				c18Encode(a, &p, buf, newReuseStream("C18", a, false))
			}
		}
		if err != nil {
			fmt.Println("C18: cannot load replay file:", err)
			os.Exit(2)
		}
		a.sample(rec.Witness)
		a.class("replay")
		a.flush(r)
		return
	}

	nEnc := r.Pick(80000, 1500000)
	nDec := r.Pick(200000, 4000000)
	const chunk = 200
	runTasks(r, (nEnc+chunk-1)/chunk, func(t int, a *acc) {
		rng := r.Rand(fmt.Sprintf("c18/enc/%d", t))
		buf := gopacket.NewSerializeBuffer()
		ru := newReuseStream("C18", a, false) // the long-lived decoder objects of this stream
		for i := t * chunk; i < (t+1)*chunk && i < nEnc; i++ {
			p := c18Gen(rng, i, false)
			c18Encode(a, p, buf, ru)
			if i%4801 == 11 {
				q := *p
				if len(q.Pld) > 24 {
					q.Pld = q.Pld[:24]
				}
				if q.SP != nil && len(q.SP.Hops) > 2 {
					sp := *q.SP
					sp.Hops = sp.Hops[:2]
					q.SP = &sp
				}
				a.sample(map[string]any{"direction": "encode", "packet_abridged": q})
			}
		}
	})
	runTasks(r, (nDec+chunk-1)/chunk, func(t int, a *acc) {
		rng := r.Rand(fmt.Sprintf("c18/dec/%d", t))
		buf := gopacket.NewSerializeBuffer()
		ru := newReuseStream("C18", a, false) // the long-lived decoder objects of this stream
		for i := t * chunk; i < (t+1)*chunk && i < nDec; i++ {
			p := c18Gen(rng, i, rng.IntN(2) == 0)
			if p.SP != nil && rng.IntN(24) == 0 {
				// a SCION path without segments (all SegLens zero, arbitrary pointers):
				// the shortest path a decoder object can be handed after a longer one
				p.SP = &refScionPath{Meta: refMeta{Inf: uint8(rng.IntN(4)), Hf: uint8(rng.IntN(64)), Rsv: p.SP.Meta.Rsv}}
			} else if rng.IntN(16) == 0 && p.SP != nil {
				// the largest paths, to reach the 1020-byte header limit
				p.SP = &refScionPath{Meta: refMeta{Seg: [3]uint8{22, 21, 21}}}
				for k := 0; k < 3; k++ {
					p.SP.Infos = append(p.SP.Infos, c21GenInfo(rng))
				}
				for k := 0; k < 64; k++ {
					p.SP.Hops = append(p.SP.Hops, c21GenHop(rng))
				}
			}
			wire := p.refWire()
			in, how := c18Mutate(rng, p, wire)
			c18Decode(a, in, i%4 == 3, buf, how, ru)
			if i%64 == 5 {
				// every truncation length of a valid packet
				limit := int(wire[5])*4 + 48
				for n := 0; n < len(wire) && n < limit; n++ {
					// the long-lived layer sees every fourth truncation length and all
					// lengths that leave the SCION header complete (the others are
					// rejected one after the other and only cost error values)
					sru := ru
					if n%4 != 0 && n < int(wire[5])*4 {
						sru = nil
					}
					c18Decode(a, wire[:n], false, buf, "truncation-sweep", sru)
				}
				a.event("truncation_sweep")
			}
			if i%12007 == 3 {
				s := hexs(in)
				if len(s) > 160 {
					s = s[:160] + "…"
				}
				a.sample(map[string]any{"direction": "decode", "mutation": how, "input_hex": s})
			}
		}
	})
	r.Require(int64(nEnc+nDec), 150, "encoded", "roundtrip_ok", "spao_roundtrip", "dec_accepted", "dec_rejected",
		"dec_length_exceeds_data", "dec_reserialized_equal", "obs_reserved_normalised", "truncation_sweep",
		"newpacket_decoded", "newpacket_error_layer", "newpacket_reserialized_equal",
		"reuse_step", "reuse_equal", "reuse_both_rejected", "reuse_roundtrip_equal")
	r.RequireClasses(
		"dec/scion/rejected/hdrlen-exceeds-data", "dec/scion/rejected/address-header-exceeds-data",
		"dec/scion/rejected/shorter-than-common-header", "dec/scion/rejected/path-segments-exceed-header",
		"dec/scion/rejected/onehop-path-exceeds-header", "dec/scion/rejected/epic-header-exceeds-header",
		"dec/scion/accepted/well-formed", "dec/hbh/accepted/well-formed", "dec/e2e/accepted/well-formed",
		"dec/hbh/rejected/extlen-exceeds-data", "dec/e2e/rejected/extlen-exceeds-data",
		"dec/e2e/rejected/option-data-exceeds-extension", "dec/hbh/rejected/option-data-exceeds-extension",
		"dec/udp/rejected/shorter-than-udp-header", "dec/udp/accepted/well-formed",
		"dec/scmp/rejected/shorter-than-scmp-header", "dec/scmp/accepted/well-formed",
		"dec/scmp-echo-request/accepted/well-formed", "dec/scmp-traceroute-reply/rejected/scmp-info-block-exceeds-data",
		"dec/scmp-int-conn-down/rejected/scmp-info-block-exceeds-data",
		"dec/scion/accepted/scion-path-without-segments",
		"reuse/scion-layer-recycled-paths/nonempty-then-empty", "reuse/decoded/nonempty-then-empty", "reuse/raw/nonempty-then-empty",
		"reuse/scion-layer-recycled-paths/path=scion-then-epic", "reuse/scion-layer-recycled-paths/path=epic-then-scion",
		"reuse/scion-layer-recycled-paths/path=scion-then-empty", "reuse/scion-layer-recycled-paths/path=onehop-then-scion",
	)
	reuseRequire(r, "scion-layer", "scion-layer-recycled-paths", "decoded", "raw", "base", "epic")
}
