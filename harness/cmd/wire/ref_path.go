package main

// Reference model of the SCION path type, written from
// doc/protocols/scion-header.rst ("Path Type: SCION", "PathMeta Header",
// "Path Offset Calculations", "Info Field", "Hop Field", "Path Type:
// OneHopPath", "Path Type: EPIC-HP"). It shares no code with
// pkg/slayers/path.

import "encoding/binary"

const (
	refMetaLen = 4
	refInfoLen = 8
	refHopLen  = 12
	refMaxHops = 64
	refEpicLen = 16
	refOneHop  = refInfoLen + 2*refHopLen
)

// refInfo is an info field: |r r r r r r P C| RSV | SegID | Timestamp |.
type refInfo struct {
	R6      uint8 // the six reserved flag bits (as the upper six bits of byte 0 >> 2)
	Peer    bool
	ConsDir bool
	Rsv     uint8
	SegID   uint16
	TS      uint32
}

func (i refInfo) put(b []byte) {
	b[0] = i.R6 << 2
	if i.Peer {
		b[0] |= 2
	}
	if i.ConsDir {
		b[0] |= 1
	}
	b[1] = i.Rsv
	binary.BigEndian.PutUint16(b[2:], i.SegID)
	binary.BigEndian.PutUint32(b[4:], i.TS)
}

func refParseInfo(b []byte) refInfo {
	return refInfo{
		R6: b[0] >> 2, Peer: b[0]&2 != 0, ConsDir: b[0]&1 != 0, Rsv: b[1],
		SegID: binary.BigEndian.Uint16(b[2:]), TS: binary.BigEndian.Uint32(b[4:]),
	}
}

// refHop is a hop field: |r r r r r r I E| ExpTime | ConsIngress | ConsEgress | MAC(6) |.
type refHop struct {
	R6       uint8
	IngAlert bool
	EgAlert  bool
	Exp      uint8
	In, Eg   uint16
	Mac      [6]byte
}

func (h refHop) put(b []byte) {
	b[0] = h.R6 << 2
	if h.IngAlert {
		b[0] |= 2
	}
	if h.EgAlert {
		b[0] |= 1
	}
	b[1] = h.Exp
	binary.BigEndian.PutUint16(b[2:], h.In)
	binary.BigEndian.PutUint16(b[4:], h.Eg)
	copy(b[6:12], h.Mac[:])
}

func refParseHop(b []byte) refHop {
	h := refHop{
		R6: b[0] >> 2, IngAlert: b[0]&2 != 0, EgAlert: b[0]&1 != 0, Exp: b[1],
		In: binary.BigEndian.Uint16(b[2:]), Eg: binary.BigEndian.Uint16(b[4:]),
	}
	copy(h.Mac[:], b[6:12])
	return h
}

// refMetaWord builds the 32-bit PathMeta header
// | C(2) | CurrHF(6) | RSV(6) | Seg0Len(6) | Seg1Len(6) | Seg2Len(6) |.
func refMetaWord(inf, hf, rsv uint8, seg [3]uint8) uint32 {
	return uint32(inf&3)<<30 | uint32(hf&63)<<24 | uint32(rsv&63)<<18 |
		uint32(seg[0]&63)<<12 | uint32(seg[1]&63)<<6 | uint32(seg[2]&63)
}

type refMeta struct {
	Inf, Hf, Rsv uint8
	Seg          [3]uint8
}

func refParseMeta(b []byte) refMeta {
	w := binary.BigEndian.Uint32(b)
	return refMeta{
		Inf: uint8(w >> 30), Hf: uint8(w>>24) & 63, Rsv: uint8(w>>18) & 63,
		Seg: [3]uint8{uint8(w>>12) & 63, uint8(w>>6) & 63, uint8(w) & 63},
	}
}

// Shape verdicts of the three segment lengths.
const (
	shapeOK      = "ok"       // non-empty prefix, then zeros, sum <= 64
	shapeEmpty   = "empty"    // all three zero: the statement does not fix it
	shapeGap     = "gap"      // Seg_X > 0 with Seg_Y == 0 for some Y < X
	shapeTooLong = "too-long" // contiguous but more than 64 hops
)

// refShape classifies the segment lengths: "It is an error to have Seg_XLen >
// 0 and Seg_YLen == 0, 2 >= X > Y >= 0"; "up to 3 info fields and up to 64 hop
// fields".
func refShape(seg [3]uint8) (kind string, ninf, nhops int) {
	nhops = int(seg[0]) + int(seg[1]) + int(seg[2])
	if nhops == 0 {
		return shapeEmpty, 0, 0
	}
	for x := 2; x >= 1; x-- {
		if seg[x] > 0 {
			for y := 0; y < x; y++ {
				if seg[y] == 0 {
					return shapeGap, 0, nhops
				}
			}
		}
	}
	for i := 0; i < 3; i++ {
		if seg[i] > 0 {
			ninf = i + 1
		}
	}
	if nhops > refMaxHops {
		return shapeTooLong, ninf, nhops
	}
	return shapeOK, ninf, nhops
}

// refSegOf returns the index of the segment that contains hop hf, and the
// first and last hop index of that segment. hf must be < total hops.
func refSegOf(seg [3]uint8, hf int) (idx, first, last int) {
	start := 0
	for i := 0; i < 3; i++ {
		end := start + int(seg[i])
		if hf < end {
			return i, start, end - 1
		}
		start = end
	}
	return -1, -1, -1
}

func refPathLen(ninf, nhops int) int { return refMetaLen + ninf*refInfoLen + nhops*refHopLen }

// refScionPath is a fully parsed SCION path.
type refScionPath struct {
	Meta  refMeta
	Infos []refInfo
	Hops  []refHop
}

func (p *refScionPath) bytes() []byte {
	b := make([]byte, refPathLen(len(p.Infos), len(p.Hops)))
	binary.BigEndian.PutUint32(b, refMetaWord(p.Meta.Inf, p.Meta.Hf, p.Meta.Rsv, p.Meta.Seg))
	off := refMetaLen
	for _, i := range p.Infos {
		i.put(b[off:])
		off += refInfoLen
	}
	for _, h := range p.Hops {
		h.put(b[off:])
		off += refHopLen
	}
	return b
}

// refParseScionPath parses b, which must hold a path of an OK shape.
func refParseScionPath(b []byte) *refScionPath {
	m := refParseMeta(b)
	_, ninf, nhops := refShape(m.Seg)
	p := &refScionPath{Meta: m}
	off := refMetaLen
	for i := 0; i < ninf; i++ {
		p.Infos = append(p.Infos, refParseInfo(b[off:]))
		off += refInfoLen
	}
	for i := 0; i < nhops; i++ {
		p.Hops = append(p.Hops, refParseHop(b[off:]))
		off += refHopLen
	}
	return p
}

// refReverse is the specified meaning of "the same path used in the other
// direction": segments and hop fields in reverse order, construction-direction
// flags inverted, and both pointers still designating the same hop field and
// segment. Pointers must be in range.
func (p *refScionPath) refReverse() *refScionPath {
	ninf, nhops := len(p.Infos), len(p.Hops)
	q := &refScionPath{Meta: p.Meta}
	q.Meta.Seg = [3]uint8{}
	for i := 0; i < ninf; i++ {
		q.Meta.Seg[i] = p.Meta.Seg[ninf-1-i]
		inf := p.Infos[ninf-1-i]
		inf.ConsDir = !inf.ConsDir
		q.Infos = append(q.Infos, inf)
	}
	for i := 0; i < nhops; i++ {
		q.Hops = append(q.Hops, p.Hops[nhops-1-i])
	}
	q.Meta.Inf = uint8(ninf - 1 - int(p.Meta.Inf))
	q.Meta.Hf = uint8(nhops - 1 - int(p.Meta.Hf))
	return q
}

// refScionPathMask returns the reserved-bit mask (1 = reserved) of a SCION
// path of the given dimensions: PathMeta RSV, the r bits and RSV byte of every
// info field, the r bits of every hop field.
func refScionPathMask(ninf, nhops int) []byte {
	m := make([]byte, refPathLen(ninf, nhops))
	m[1] = 0xFC // bits 23..18 of the meta word
	off := refMetaLen
	for i := 0; i < ninf; i++ {
		m[off] = 0xFC
		m[off+1] = 0xFF
		off += refInfoLen
	}
	for i := 0; i < nhops; i++ {
		m[off] = 0xFC
		off += refHopLen
	}
	return m
}

func refOneHopMask() []byte {
	m := make([]byte, refOneHop)
	m[0], m[1] = 0xFC, 0xFF
	m[refInfoLen] = 0xFC
	m[refInfoLen+refHopLen] = 0xFC
	return m
}

// eqMasked reports whether a and b agree on all bits where mask is 0. All three
// must have equal length.
func eqMasked(a, b, mask []byte) bool {
	if len(a) != len(b) || len(a) != len(mask) {
		return false
	}
	for i := range a {
		if (a[i]^b[i])&^mask[i] != 0 {
			return false
		}
	}
	return true
}
