package main

import "verif/mon"

func checkC18(r *mon.Run) {}
func checkC20(r *mon.Run) {}
func checkC21(r *mon.Run) {}
