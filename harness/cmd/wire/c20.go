package main

import (
	"encoding/binary"
	"encoding/hex"
	"encoding/json"
	"fmt"
	"math/rand/v2"
	"os"
	"strings"

	"github.com/gopacket/gopacket"

	"github.com/scionproto/scion/pkg/addr"
	"github.com/scionproto/scion/pkg/slayers"
	"github.com/scionproto/scion/pkg/slayers/path/empty"

	"verif/mon"
)

// C20 — UDP and SCMP checksums.
//
// Every case is serialized by the real slayers code (SCION + optional E2E
// extension + UDP | SCMP + typed message + payload, FixLengths and
// ComputeChecksums on). The oracle (ref_csum.go) builds the documented pseudo
// header, adds the upper-layer bytes as they appear on the wire and requires
// the folded one's-complement sum to be 0xFFFF. Each single-bit change of a
// covered input (ISD-AS, host address, L4 header field, payload bit, length) is
// applied to the *input* of the serializer; the re-serialized packet must again
// sum to 0xFFFF and carry a different checksum, and the wire image with just
// that bit flipped must not sum to 0xFFFF.

type c20Case struct {
	Addr  refAddrHdr
	Kind  string // class name of the upper layer
	Proto uint8
	Typ   uint8  // SCMP type
	Code  uint8  // SCMP code
	Hdr   []byte // UDP: src port, dst port; SCMP: info block as specified
	Pld   []byte
	Ext   bool // an end-to-end extension header sits between SCION and the upper layer
}

type c20Wit struct {
	Kind    string `json:"kind"`
	Proto   uint8  `json:"proto"`
	Typ     uint8  `json:"scmp_type"`
	Code    uint8  `json:"scmp_code"`
	DT      uint8  `json:"dt_dl"`
	ST      uint8  `json:"st_sl"`
	DstIA   uint64 `json:"dst_ia"`
	SrcIA   uint64 `json:"src_ia"`
	Dst     string `json:"dst_host_hex"`
	Src     string `json:"src_host_hex"`
	Hdr     string `json:"l4_fields_hex"`
	Pld     string `json:"payload_hex"`
	Ext     bool   `json:"e2e_extension"`
	Flip    string `json:"flip,omitempty"`
	L4      string `json:"l4_wire_hex,omitempty"`
	RefFold string `json:"ref_fold,omitempty"`
}

func (c *c20Case) wit(flip string, l4 []byte, fold uint16) c20Wit {
	w := c20Wit{Kind: c.Kind, Proto: c.Proto, Typ: c.Typ, Code: c.Code, DT: c.Addr.DT, ST: c.Addr.ST,
		DstIA: c.Addr.DstIA, SrcIA: c.Addr.SrcIA, Dst: hexs(c.Addr.Dst), Src: hexs(c.Addr.Src),
		Hdr: hexs(c.Hdr), Pld: hexs(c.Pld), Ext: c.Ext, Flip: flip, RefFold: fmt.Sprintf("%#04x", fold)}
	if len(l4) <= 512 {
		w.L4 = hexs(l4)
	}
	return w
}

func (w *c20Wit) toCase() (*c20Case, error) {
	c := &c20Case{Kind: w.Kind, Proto: w.Proto, Typ: w.Typ, Code: w.Code, Ext: w.Ext}
	c.Addr = refAddrHdr{DT: w.DT, ST: w.ST, DstIA: w.DstIA, SrcIA: w.SrcIA}
	var err error
	for _, f := range []struct {
		dst *[]byte
		src string
	}{{&c.Addr.Dst, w.Dst}, {&c.Addr.Src, w.Src}, {&c.Hdr, w.Hdr}, {&c.Pld, w.Pld}} {
		if *f.dst, err = hex.DecodeString(f.src); err != nil {
			return nil, err
		}
	}
	return c, nil
}

func (c *c20Case) clone() *c20Case {
	d := *c
	d.Addr = c.Addr.clone()
	d.Hdr = append([]byte(nil), c.Hdr...)
	d.Pld = append([]byte(nil), c.Pld...)
	return &d
}

func (c *c20Case) l4HdrLen() int {
	if c.Proto == protoUDP {
		return 8
	}
	return 4 + refSCMPInfoLen(c.Typ)
}

// serialize runs the implementation and returns the upper-layer bytes (the
// tail of the packet).
func (c *c20Case) serialize(buf gopacket.SerializeBuffer) ([]byte, error) {
	scn := &slayers.SCION{
		FlowID: 0xabcde, NextHdr: slayers.L4ProtocolType(c.Proto),
		PathType: empty.PathType, Path: empty.Path{},
	}
	c.Addr.applyTo(scn)
	layers := []gopacket.SerializableLayer{scn}
	if c.Ext {
		scn.NextHdr = slayers.End2EndClass
		e2e := &slayers.EndToEndExtn{}
		e2e.NextHdr = slayers.L4ProtocolType(c.Proto)
		e2e.Options = []*slayers.EndToEndOption{{OptType: 77, OptData: []byte{1, 2, 3, 4, 5}, OptAlign: [2]uint8{4, 2}}}
		layers = append(layers, e2e)
	}
	if c.Proto == protoUDP {
		u := &slayers.UDP{SrcPort: binary.BigEndian.Uint16(c.Hdr[0:]), DstPort: binary.BigEndian.Uint16(c.Hdr[2:])}
		u.SetNetworkLayerForChecksum(scn)
		layers = append(layers, u)
	} else {
		layers = append(layers, implSCMPLayers(scn, c.Typ, c.Code, c.Hdr)...)
	}
	layers = append(layers, gopacket.Payload(c.Pld))
	if err := gopacket.SerializeLayers(buf, gopacket.SerializeOptions{FixLengths: true, ComputeChecksums: true}, layers...); err != nil {
		return nil, err
	}
	all := buf.Bytes()
	n := c.l4HdrLen() + len(c.Pld)
	if len(all) < n {
		return nil, fmt.Errorf("serialized packet has %d bytes, upper layer alone needs %d", len(all), n)
	}
	return append([]byte(nil), all[len(all)-n:]...), nil
}

func (c *c20Case) csumOff() int {
	if c.Proto == protoUDP {
		return 6
	}
	return 2
}

// refFold computes the folded sum the receiver would compute.
func (c *c20Case) refFold(l4 []byte) uint16 {
	ps := refPseudoHeader(c.Addr.DstIA, c.Addr.SrcIA, c.Addr.Dst, c.Addr.Src, uint32(len(l4)), c.Proto)
	return refOnesSum(append(ps, l4...))
}

type c20Flip struct {
	field string
	bit   int
}

// apply returns a copy of c with one covered input bit changed ("length": one
// zero byte appended to the payload, which changes nothing but the length).
func (c *c20Case) apply(f c20Flip) *c20Case {
	d := c.clone()
	flipIn := func(b []byte) { b[f.bit/8] ^= 0x80 >> (f.bit % 8) }
	switch f.field {
	case "dst-ia":
		d.Addr.DstIA ^= 1 << (63 - f.bit)
	case "src-ia":
		d.Addr.SrcIA ^= 1 << (63 - f.bit)
	case "dst-host":
		flipIn(d.Addr.Dst)
	case "src-host":
		flipIn(d.Addr.Src)
	case "l4-field":
		flipIn(d.Hdr)
	case "scmp-code":
		d.Code ^= 0x80 >> f.bit
	case "payload":
		flipIn(d.Pld)
	case "length":
		d.Pld = append(d.Pld, 0)
	}
	return d
}

// flips lists the single-bit changes of covered inputs of c: all of them when
// full, otherwise a PRNG sample that still touches every field.
func (c *c20Case) flips(rng *rand.Rand, full bool) []c20Flip {
	var out []c20Flip
	add := func(field string, nbits int, skip func(int) bool) {
		if nbits == 0 {
			return
		}
		if full {
			for b := 0; b < nbits; b++ {
				if skip == nil || !skip(b) {
					out = append(out, c20Flip{field, b})
				}
			}
			return
		}
		for k := 0; k < 6; k++ {
			b := rng.IntN(nbits)
			if skip == nil || !skip(b) {
				out = append(out, c20Flip{field, b})
			}
		}
		// always the first and last bit (word boundaries, odd trailing byte)
		for _, b := range []int{0, nbits - 1} {
			if skip == nil || !skip(b) {
				out = append(out, c20Flip{field, b})
			}
		}
	}
	add("dst-ia", 64, nil)
	add("src-ia", 64, nil)
	add("dst-host", 8*len(c.Addr.Dst), nil)
	add("src-host", 8*len(c.Addr.Src), nil)
	if c.Proto == protoUDP {
		add("l4-field", 32, nil)
	} else {
		m := refSCMPInfoMask(c.Typ)
		add("l4-field", 8*len(c.Hdr), func(b int) bool { return m[b/8]&(0x80>>(b%8)) != 0 })
		add("scmp-code", 8, nil)
	}
	add("payload", 8*len(c.Pld), nil)
	out = append(out, c20Flip{"length", 0})
	return out
}

func lenBucket(n int) string {
	par := "even"
	if n%2 == 1 {
		par = "odd"
	}
	switch {
	case n == 0:
		return "len=0"
	case n <= 64:
		return "len=1-64/" + par
	case n <= 256:
		return "len=65-256/" + par
	case n <= 1500:
		return "len=257-1500/" + par
	default:
		return "len=1501-9000/" + par
	}
}

// c20Run judges one case with its flips.
func c20Run(a *acc, rng *rand.Rand, c *c20Case, buf gopacket.SerializeBuffer, fullFlips bool) {
	var l4 []byte
	var err error
	if p, stack := mon.Try(func() { l4, err = c.serialize(buf) }); p != nil {
		a.violation("C20:panic:"+mon.PanicSite(stack), fmt.Sprintf("panic while serializing: %v\n%s", p, stack), c.wit("", nil, 0))
		return
	}
	if err != nil {
		a.violation("C20:serialize-error/"+c.Kind, "serializing with ComputeChecksums failed: "+err.Error(), c.wit("", nil, 0))
		return
	}
	a.evals++
	a.class(c.Kind + "/" + lenBucket(len(c.Pld)) + fmt.Sprintf("/ext=%v", c.Ext))
	a.class(fmt.Sprintf("addr/dl=%d,sl=%d", refAddrLen(c.Addr.DT), refAddrLen(c.Addr.ST)))
	a.class(fmt.Sprintf("addr-types/dt=%d,st=%d", c.Addr.DT>>2, c.Addr.ST>>2))
	a.event("checksum_" + c.Kind)
	fold := c.refFold(l4)
	if fold != 0xFFFF {
		par := "even"
		if len(l4)%2 == 1 {
			par = "odd"
		}
		a.violation("C20:sum-not-ffff/"+c.Kind+"/"+par, fmt.Sprintf(
			"one's-complement sum over pseudo header and %d upper-layer bytes folds to %#04x, not 0xffff (checksum field %#04x)",
			len(l4), fold, binary.BigEndian.Uint16(l4[c.csumOff():])), c.wit("", l4, fold))
		return
	}
	if len(l4)%2 == 1 {
		a.event("odd_length")
	} else {
		a.event("even_length")
	}
	if binary.BigEndian.Uint16(l4[c.csumOff():]) == 0 {
		a.class("checksum-field-zero")
	}
	base := binary.BigEndian.Uint16(l4[c.csumOff():])

	// ---- single-bit changes of covered inputs, through the serializer ----
	for _, f := range c.flips(rng, fullFlips) {
		d := c.apply(f)
		var l4f []byte
		if p, stack := mon.Try(func() { l4f, err = d.serialize(buf) }); p != nil {
			a.violation("C20:panic:"+mon.PanicSite(stack), fmt.Sprintf("panic while serializing: %v\n%s", p, stack), d.wit(fmt.Sprint(f), nil, 0))
			continue
		}
		if err != nil {
			a.violation("C20:serialize-error/"+c.Kind, err.Error(), d.wit(fmt.Sprint(f), nil, 0))
			continue
		}
		a.evals++
		a.event("flip_" + f.field)
		if ff := d.refFold(l4f); ff != 0xFFFF {
			a.violation("C20:sum-not-ffff/"+c.Kind+"/after-"+f.field, fmt.Sprintf(
				"after changing %s bit %d the serialized packet folds to %#04x", f.field, f.bit, ff), d.wit(fmt.Sprintf("%s bit %d", f.field, f.bit), l4f, ff))
			continue
		}
		if got := binary.BigEndian.Uint16(l4f[c.csumOff():]); got == base {
			a.violation("C20:flip-undetected/"+f.field, fmt.Sprintf(
				"changing %s bit %d leaves the checksum at %#04x: the field is not covered", f.field, f.bit, got),
				c.wit(fmt.Sprintf("%s bit %d", f.field, f.bit), l4, fold))
		}
	}

	// ---- single-bit flips of the covered wire image ----
	ps := refPseudoHeader(c.Addr.DstIA, c.Addr.SrcIA, c.Addr.Dst, c.Addr.Src, uint32(len(l4)), c.Proto)
	img := append(ps, l4...)
	nbits := 8 * len(img)
	try := func(b int) {
		img[b/8] ^= 0x80 >> (b % 8)
		a.evals++
		if refOnesSum(img) == 0xFFFF {
			a.violation("C20:wire-flip-undetected", fmt.Sprintf("flipping bit %d of pseudo header||upper layer still folds to 0xffff", b),
				c.wit(fmt.Sprintf("wire bit %d", b), l4, 0xFFFF))
		}
		img[b/8] ^= 0x80 >> (b % 8)
	}
	if fullFlips {
		for b := 0; b < nbits; b++ {
			try(b)
		}
		a.eventN("wire_flip", int64(nbits))
	} else {
		for k := 0; k < 64; k++ {
			try(rng.IntN(nbits))
		}
		try(nbits - 1)
		try(nbits - 8)
		a.eventN("wire_flip", 66)
	}
}

// ---- serialization options x what the upper layer was used for before ----
//
// The checksum "written when serializing" is written by a layer object under
// SerializeOptions. Both are dimensions of their own: callers ask for
// FixLengths+ComputeChecksums, or (two-pass pattern: a first pass fixes the
// lengths, a second one only computes checksums; or lengths maintained by the
// caller) for ComputeChecksums alone; and the slayers.UDP / slayers.SCMP object
// may be new, may have been serialized before (then it carries the checksum of
// that pass, of this or of another packet), may have been filled by
// DecodeFromBytes (re-serializing a received packet), or its Checksum field may
// hold anything. c20Options takes a case through all combinations; wherever
// ComputeChecksums is set the written value must satisfy the same reference as
// everywhere in this check (pseudo header and upper-layer bytes fold to
// 0xFFFF), and for PRNG-chosen combinations a single-bit change of a covered
// input, taken through the same combination, must verify and change the field.

var c20Priors = []string{"fresh", "reserialized-same-packet", "reserialized-other-packet",
	"decoded-same-packet", "decoded-other-packet", "garbage-checksum"}

func c20OptName(fix bool) string {
	if fix {
		return "fixlengths+computechecksums"
	}
	return "computechecksums-only"
}

func (c *c20Case) layerName() string {
	if c.Proto == protoUDP {
		return "udp"
	}
	return "scmp"
}

// serializeOpt serializes the case through new SCION (and E2E) layers and the
// given upper-layer object, whatever state that is in. fix: FixLengths and
// ComputeChecksums; otherwise ComputeChecksums alone, every length field having
// been set by the caller (here: from the layout the specification gives).
func (c *c20Case) serializeOpt(buf gopacket.SerializeBuffer, fix bool, udp *slayers.UDP, scmp *slayers.SCMP) ([]byte, error) {
	l4len := c.l4HdrLen() + len(c.Pld)
	scn := &slayers.SCION{
		FlowID: 0xabcde, NextHdr: slayers.L4ProtocolType(c.Proto),
		PathType: empty.PathType, Path: empty.Path{},
	}
	c.Addr.applyTo(scn)
	layers := []gopacket.SerializableLayer{scn}
	extLen := 0
	if c.Ext {
		// one option of 4 data bytes: 2 + 2 + 4 = 8 bytes = ExtLen 1, no padding needed
		extLen = 8
		scn.NextHdr = slayers.End2EndClass
		e2e := &slayers.EndToEndExtn{}
		e2e.NextHdr = slayers.L4ProtocolType(c.Proto)
		e2e.ExtLen = 1
		e2e.Options = []*slayers.EndToEndOption{{OptType: 77, OptData: []byte{1, 2, 3, 4}, OptDataLen: 4}}
		layers = append(layers, e2e)
	}
	if !fix {
		scn.HdrLen = uint8((12 + 16 + len(c.Addr.Dst) + len(c.Addr.Src)) / 4) // empty path
		scn.PayloadLen = uint16(extLen + l4len)
	}
	if c.Proto == protoUDP {
		udp.SrcPort, udp.DstPort = binary.BigEndian.Uint16(c.Hdr[0:]), binary.BigEndian.Uint16(c.Hdr[2:])
		if !fix {
			udp.Length = uint16(l4len) // RFC 768: header and data
		}
		udp.SetNetworkLayerForChecksum(scn)
		layers = append(layers, udp)
	} else {
		scmp.TypeCode = slayers.CreateSCMPTypeCode(slayers.SCMPType(c.Typ), slayers.SCMPCode(c.Code))
		scmp.SetNetworkLayerForChecksum(scn)
		layers = append(layers, scmp)
		layers = append(layers, implSCMPLayers(scn, c.Typ, c.Code, c.Hdr)[1:]...)
	}
	layers = append(layers, gopacket.Payload(c.Pld))
	if err := gopacket.SerializeLayers(buf, gopacket.SerializeOptions{FixLengths: fix, ComputeChecksums: true}, layers...); err != nil {
		return nil, err
	}
	all := buf.Bytes()
	if len(all) != 12+16+len(c.Addr.Dst)+len(c.Addr.Src)+extLen+l4len {
		return nil, fmt.Errorf("serialized packet has %d bytes, the layout needs %d", len(all), 12+16+len(c.Addr.Dst)+len(c.Addr.Src)+extLen+l4len)
	}
	return all[len(all)-l4len:], nil // valid until buf is used again
}

// c20Prior returns an upper-layer object in the named state.
func (c *c20Case) c20Prior(prior string, other *c20Case, garbage uint16, buf gopacket.SerializeBuffer) (udp *slayers.UDP, scmp *slayers.SCMP, err error) {
	udp, scmp = &slayers.UDP{}, &slayers.SCMP{}
	src := c
	switch prior {
	case "fresh":
	case "garbage-checksum":
		udp.Checksum, scmp.Checksum = garbage, garbage
	case "reserialized-other-packet":
		src = other
		fallthrough
	case "reserialized-same-packet":
		_, err = src.serializeOpt(buf, true, udp, scmp)
	case "decoded-other-packet":
		src = other
		fallthrough
	case "decoded-same-packet":
		var l4 []byte
		if l4, err = src.serialize(buf); err != nil {
			return
		}
		if c.Proto == protoUDP {
			err = udp.DecodeFromBytes(l4, gopacket.NilDecodeFeedback)
		} else {
			err = scmp.DecodeFromBytes(l4, gopacket.NilDecodeFeedback)
		}
	}
	return
}

// c20OptOne takes c through one combination and judges the checksum written.
func c20OptOne(a *acc, c, other *c20Case, prior string, fix bool, garbage uint16, buf gopacket.SerializeBuffer, flip string) (field uint16, ok bool) {
	layer, opt := c.layerName(), c20OptName(fix)
	key := "C20:options:" + layer + ":" + prior + ":" + opt
	desc := fmt.Sprintf("prior state %s, options %s", prior, opt)
	if flip != "" {
		desc += ", " + flip
	}
	var l4 []byte
	var err error
	var stage string
	if p, stack := mon.Try(func() {
		var udp *slayers.UDP
		var scmp *slayers.SCMP
		stage = "preparing the layer"
		if udp, scmp, err = c.c20Prior(prior, other, garbage, buf); err != nil {
			return
		}
		stage = "serializing"
		l4, err = c.serializeOpt(buf, fix, udp, scmp)
	}); p != nil {
		a.violation("C20:panic:"+mon.PanicSite(stack), fmt.Sprintf("panic while %s (%s): %v\n%s", stage, desc, p, stack), c.wit(desc, nil, 0))
		return 0, false
	}
	if err != nil {
		if stage == "serializing" {
			a.violation(key, fmt.Sprintf("%s %s fails (%s): %v", stage, c.Kind, desc, err), c.wit(desc, nil, 0))
		} else {
			a.incon["options-prior-state-not-built"]++ // the ordinary path of this check reports that
		}
		return 0, false
	}
	a.evals++
	field = binary.BigEndian.Uint16(l4[c.csumOff():])
	if fold := c.refFold(l4); fold != 0xFFFF {
		a.violation(key, fmt.Sprintf(
			"%s (%s): the checksum %#04x written makes pseudo header and the %d upper-layer bytes fold to %#04x, not 0xffff",
			c.Kind, desc, field, len(l4), fold), c.wit(desc, l4, fold))
		return field, false
	}
	a.event("options_verified")
	return field, true
}

func c20Options(a *acc, rng *rand.Rand, c *c20Case, buf gopacket.SerializeBuffer) {
	// another packet of the same kind: other payload bytes and length, other source AS
	other := c.clone()
	for k := 1 + rng.IntN(9); k > 0; k-- {
		other.Pld = append(other.Pld, byte(rng.Uint32()))
	}
	if len(other.Pld) > 1 {
		other.Pld[0] ^= byte(1 + rng.IntN(255))
	}
	other.Addr.SrcIA ^= 1 << rng.IntN(64)
	garbage := uint16(1 + rng.IntN(0xFFFF))
	// one single-bit change of a covered input, taken through two of the combinations
	fl := c.flips(rng, false)
	f := fl[rng.IntN(len(fl))]
	d := c.apply(f)
	n := 2 * len(c20Priors)
	pick1, pick2 := rng.IntN(n), rng.IntN(n)
	layer := c.layerName()
	for pi, prior := range c20Priors {
		for oi, fix := range []bool{true, false} {
			field, ok := c20OptOne(a, c, other, prior, fix, garbage, buf, "")
			a.class("options/" + layer + "/" + prior + "/" + c20OptName(fix))
			if k := 2*pi + oi; !ok || (k != pick1 && k != pick2) {
				continue
			}
			desc := fmt.Sprintf("%s bit %d changed", f.field, f.bit)
			field2, ok := c20OptOne(a, d, other, prior, fix, garbage, buf, desc)
			if !ok {
				continue
			}
			a.evals++
			a.event("options_flip")
			a.class("options-flip/" + layer + "/" + c20OptName(fix))
			if field2 == field {
				a.violation("C20:options:"+layer+":"+prior+":"+c20OptName(fix), fmt.Sprintf(
					"%s (prior state %s, options %s): changing %s bit %d leaves the checksum at %#04x", c.Kind, prior, c20OptName(fix), f.field, f.bit, field),
					c.wit(desc, nil, 0xFFFF))
			}
		}
	}
}

func c20GenAddr(rng *rand.Rand, idx int) refAddrHdr {
	a := refAddrHdr{DT: uint8(idx>>4) & 15, ST: uint8(idx) & 15}
	if idx >= 256 {
		a.DT, a.ST = uint8(rng.IntN(16)), uint8(rng.IntN(16))
	}
	fill := func(n int) []byte {
		b := make([]byte, n)
		switch rng.IntN(8) {
		case 0: // all zero
		case 1:
			for i := range b {
				b[i] = 0xFF
			}
		default:
			for i := range b {
				b[i] = byte(rng.Uint32())
			}
		}
		return b
	}
	a.Dst, a.Src = fill(refAddrLen(a.DT)), fill(refAddrLen(a.ST))
	a.DstIA, a.SrcIA = rng.Uint64(), rng.Uint64()
	switch rng.IntN(10) {
	case 0:
		a.DstIA, a.SrcIA = 0, 0
	case 1:
		a.DstIA, a.SrcIA = ^uint64(0), ^uint64(0)
	case 2:
		a.SrcIA = a.DstIA
	}
	return a
}

func c20Gen(rng *rand.Rand, idx int, kind int, plen int) *c20Case {
	c := &c20Case{Addr: c20GenAddr(rng, idx), Ext: rng.IntN(4) == 0}
	if kind == 0 {
		c.Kind, c.Proto = "udp", protoUDP
		c.Hdr = make([]byte, 4)
	} else if kind <= len(scmpTypes) {
		c.Typ = scmpTypes[kind-1]
		c.Kind, c.Proto = "scmp-"+scmpNames[c.Typ], protoSCMP
		c.Hdr = make([]byte, refSCMPInfoLen(c.Typ))
		c.Code = uint8(rng.IntN(256))
	} else {
		c.Typ = []uint8{0, 3, 100, 127, 200, 255}[rng.IntN(6)]
		c.Kind, c.Proto = "scmp-other-type", protoSCMP
		c.Code = uint8(rng.IntN(256))
	}
	for i := range c.Hdr {
		c.Hdr[i] = byte(rng.Uint32())
	}
	if c.Proto == protoSCMP {
		m := refSCMPInfoMask(c.Typ)
		for i := range c.Hdr {
			c.Hdr[i] &^= m[i] // reserved fields are not representable in the layer structs
		}
	}
	c.Pld = make([]byte, plen)
	switch rng.IntN(6) {
	case 0: // zeros
	case 1:
		for i := range c.Pld {
			c.Pld[i] = 0xFF
		}
	default:
		for i := range c.Pld {
			c.Pld[i] = byte(rng.Uint32())
		}
	}
	return c
}

// ---- history independence: long-lived layers, one receive buffer ----
//
// snet and router responders keep their slayers.SCION layer (and the UDP/SCMP
// layers) alive, decode every received packet into it from a receive buffer
// that is reused as well (so RawDstAddr/RawSrcAddr alias that buffer and their
// bytes change in place with the next packet), swap source and destination and
// serialize the reply through the same layer. The checksum written then must
// be the one of the pseudo header that is on the wire now, whatever the layer
// was used for before. c20Reuse plays that with the cases the check generates:
//
//  (a) one receive buffer: the case's packet is copied into it, decoded, the
//      addresses swapped, UDP and SCMP serialized; then the packet of another
//      host of the same AS pair (same lengths) takes its place and is decoded;
//      then one address bit is flipped in the buffer without decoding again;
//      then one ISD-AS bit is changed in the layer; finally the first packet is
//      received once more (the reply must be byte-identical to the first one);
//  (b) a layer that is never decoded: the application installs the addresses
//      (in place if the lengths allow), serializes, rewrites host bytes and an
//      ISD-AS in place and serializes again.
//
// After every step the reference sum over the pseudo header read from the
// serialized packet itself and the upper layer must fold to 0xFFFF, and after a
// single-bit change the checksum field must differ from the previous one.

type c20ReuseWit struct {
	Dir      string  `json:"direction"` // always "reuse"
	Scenario string  `json:"scenario"`
	L4       string  `json:"upper_layer"`
	Case     c20Wit  `json:"case"`
	Prev     *c20Wit `json:"previous_case_in_buffer,omitempty"`
	Step     string  `json:"step,omitempty"`
	Out      string  `json:"serialized_hex,omitempty"`
	RefFold  string  `json:"ref_fold,omitempty"`
	Field    string  `json:"checksum_field,omitempty"`
}

type c20Reuse struct {
	a    *acc
	rng  *rand.Rand
	rx   []byte        // the one receive buffer
	n    int           // bytes of the packet in it
	scn  slayers.SCION // long-lived, RecyclePaths, decoded from rx again and again
	own  slayers.SCION // long-lived, never decoded: addresses written by the application
	udp  slayers.UDP
	scmp slayers.SCMP
	sb   gopacket.SerializeBuffer
	prev *c20Case
	cur  *c20Case
}

func newC20Reuse(a *acc, rng *rand.Rand) *c20Reuse {
	u := &c20Reuse{a: a, rng: rng, rx: make([]byte, 12+16+32+8+24+9000+64), sb: gopacket.NewSerializeBuffer()}
	u.scn.RecyclePaths()
	u.own.FlowID, u.own.PathType, u.own.Path = 0xabcde, empty.PathType, empty.Path{}
	return u
}

// requestWire is the reference encoding of the case as a received packet
// (empty path, checksum field zero: nothing here verifies it).
func (c *c20Case) requestWire() []byte {
	var l4 []byte
	if c.Proto == protoUDP {
		l4 = append(l4, c.Hdr[:4]...)
		l4 = binary.BigEndian.AppendUint16(l4, uint16(8+len(c.Pld)))
		l4 = append(l4, 0, 0)
	} else {
		l4 = append(l4, c.Typ, c.Code, 0, 0)
		l4 = append(l4, c.Hdr...)
	}
	l4 = append(l4, c.Pld...)
	cm := refCmn{Flow: 0xabcde, NextHdr: c.Proto, HdrLen: uint8((28 + len(c.Addr.Dst) + len(c.Addr.Src)) / 4), PayloadLen: uint16(len(l4))}
	return append(refEncodeSCION(cm, &c.Addr, nil), l4...)
}

// c20WireFold reads the address header and the upper layer from a serialized
// packet (no extension headers) and returns the reference sum over the pseudo
// header that is on the wire and the upper layer, and the checksum field.
func c20WireFold(out []byte) (fold, field uint16, ok bool) {
	if len(out) < 12 {
		return 0, 0, false
	}
	dl, sl := refAddrLen(out[9]>>4), refAddrLen(out[9]&0xF)
	hdr := int(out[5]) * 4
	if hdr < 28+dl+sl || hdr > len(out) {
		return 0, 0, false
	}
	proto := out[4]
	l4 := out[hdr:]
	off := 2
	if proto == protoUDP {
		off = 6
	}
	if len(l4) < off+2 {
		return 0, 0, false
	}
	ps := refPseudoHeader(binary.BigEndian.Uint64(out[12:]), binary.BigEndian.Uint64(out[20:]), out[28:28+dl], out[28+dl:28+dl+sl],
		uint32(len(l4)), proto)
	return refOnesSum(append(ps, l4...)), binary.BigEndian.Uint16(l4[off:]), true
}

func (u *c20Reuse) wit(scenario, l4, step string, out []byte, fold, field uint16) c20ReuseWit {
	w := c20ReuseWit{Dir: "reuse", Scenario: scenario, L4: l4, Case: u.cur.wit("", nil, 0), Step: step,
		RefFold: fmt.Sprintf("%#04x", fold), Field: fmt.Sprintf("%#04x", field)}
	if len(w.Case.Pld) > 1024 {
		w.Case.Pld = w.Case.Pld[:1024] + "…"
	}
	if u.prev != nil {
		pw := u.prev.wit("", nil, 0)
		pw.Pld = ""
		w.Prev = &pw
	}
	if len(out) <= 512 {
		w.Out = hexs(out)
	}
	return w
}

// emitOne serializes one upper layer through the long-lived layer l and judges
// the checksum against the packet that came out. It returns the checksum field
// and the serialized bytes (valid until the next call).
func (u *c20Reuse) emitOne(scenario string, l *slayers.SCION, udp bool, pld []byte, step string) (field uint16, out []byte, ok bool) {
	a, c := u.a, u.cur
	name := "scmp"
	var ls []gopacket.SerializableLayer
	if udp {
		name = "udp"
		l.NextHdr = slayers.L4UDP
		u.udp.SrcPort, u.udp.DstPort = uint16(30041), uint16(len(c.Pld))
		if c.Proto == protoUDP { // the reply goes back to where the request came from
			u.udp.SrcPort, u.udp.DstPort = binary.BigEndian.Uint16(c.Hdr[2:]), binary.BigEndian.Uint16(c.Hdr[0:])
		}
		u.udp.SetNetworkLayerForChecksum(l)
		ls = []gopacket.SerializableLayer{l, &u.udp}
	} else {
		l.NextHdr = slayers.L4SCMP
		typ, code, info := uint8(129), uint8(0), []byte{0x12, 0x34, 0, byte(len(c.Pld))}
		if c.Proto == protoSCMP {
			typ, code, info = c.Typ, c.Code, c.Hdr
		}
		ms := implSCMPLayers(l, typ, code, info)
		u.scmp.TypeCode = slayers.CreateSCMPTypeCode(slayers.SCMPType(typ), slayers.SCMPCode(code))
		u.scmp.SetNetworkLayerForChecksum(l)
		ls = append([]gopacket.SerializableLayer{l, &u.scmp}, ms[1:]...)
	}
	ls = append(ls, gopacket.Payload(pld))
	var err error
	if p, stack := mon.Try(func() {
		err = gopacket.SerializeLayers(u.sb, gopacket.SerializeOptions{FixLengths: true, ComputeChecksums: true}, ls...)
	}); p != nil {
		a.violation("C20:reuse:"+scenario, fmt.Sprintf("%s: panic at %s while serializing %s through the long-lived layer: %v\n%s",
			step, mon.PanicSite(stack), name, p, stack), u.wit(scenario, name, step, nil, 0, 0))
		return 0, nil, false
	}
	if err != nil {
		a.violation("C20:reuse:"+scenario, fmt.Sprintf("%s: serializing %s through the long-lived layer failed: %v", step, name, err),
			u.wit(scenario, name, step, nil, 0, 0))
		return 0, nil, false
	}
	out = u.sb.Bytes()
	a.evals++
	a.event("reuse_serialize_" + name)
	fold, field, ok := c20WireFold(out)
	if !ok {
		a.violation("C20:reuse:"+scenario, fmt.Sprintf("%s: the serialized packet (%d bytes) cannot be laid out", step, len(out)),
			u.wit(scenario, name, step, out, 0, 0))
		return 0, nil, false
	}
	if fold != 0xFFFF {
		a.violation("C20:reuse:"+scenario, fmt.Sprintf(
			"%s: the %s checksum %#04x written through the long-lived layer is not the one of the packet on the wire: pseudo header of that packet and its %d upper-layer bytes fold to %#04x, not 0xffff",
			step, name, field, len(out)-int(out[5])*4, fold), u.wit(scenario, name, step, out, fold, field))
		return field, out, false
	}
	a.event("reuse_verified")
	return field, out, true
}

// emit serializes the upper layer of the case with its whole payload and the
// other upper layer with the first bytes of it, through the same layer.
func (u *c20Reuse) emit(scenario string, l *slayers.SCION, step string, full bool) (field uint16, out []byte, ok bool) {
	c := u.cur
	short := c.Pld[:min(len(c.Pld), 41)]
	pld := c.Pld
	if !full {
		pld = short
	}
	if _, _, ok2 := u.emitOne(scenario, l, c.Proto != protoUDP, short, step+" (other upper layer first)"); !ok2 {
		return 0, nil, false
	}
	return u.emitOne(scenario, l, c.Proto == protoUDP, pld, step)
}

// receive copies the packet of c into the receive buffer, decodes it into the
// long-lived layer and turns the layer around for the reply.
func (u *c20Reuse) receive(c *c20Case) bool {
	w := c.requestWire()
	u.n = copy(u.rx, w)
	var err error
	if p, _ := mon.Try(func() { err = u.scn.DecodeFromBytes(u.rx[:u.n], gopacket.NilDecodeFeedback) }); p != nil || err != nil {
		u.a.incon["reuse-request-not-decoded"]++ // C18's business
		return false
	}
	l := &u.scn
	l.DstIA, l.SrcIA = l.SrcIA, l.DstIA
	l.DstAddrType, l.SrcAddrType = l.SrcAddrType, l.DstAddrType
	l.RawDstAddr, l.RawSrcAddr = l.RawSrcAddr, l.RawDstAddr
	return true
}

func (u *c20Reuse) changed(scenario, what string, before, after uint16) {
	u.a.evals++
	if before == after {
		u.a.violation("C20:reuse:"+scenario, fmt.Sprintf("%s, but the checksum written through the long-lived layer stays %#04x", what, after),
			u.wit(scenario, "", what, nil, 0xFFFF, after))
	}
}

func (u *c20Reuse) otherHost(b []byte) []byte {
	o := make([]byte, len(b))
	for i := range o {
		o[i] = byte(u.rng.Uint32())
	}
	if string(o) == string(b) {
		o[len(o)-1] ^= 1
	}
	return o
}

func (u *c20Reuse) run(c *c20Case) {
	a := u.a
	u.cur = c
	defer func() { u.prev = c }()
	// ---- (a) one receive buffer ----
	if p := u.prev; p != nil {
		if p.Addr.DstIA == c.Addr.DstIA && p.Addr.SrcIA == c.Addr.SrcIA {
			a.class("reuse/same-buffer-same-as-pair")
		} else {
			a.class("reuse/same-buffer-other-as")
		}
		if len(p.Addr.Dst) != len(c.Addr.Dst) || len(p.Addr.Src) != len(c.Addr.Src) {
			a.class("reuse/same-buffer-other-address-lengths")
		} else {
			a.class("reuse/same-buffer-same-address-lengths")
		}
	}
	a.class("reuse/" + c.Kind)
	if !u.receive(c) {
		return
	}
	_, out, ok := u.emit("same-buffer-next-packet", &u.scn, "received into the reused buffer, addresses swapped", true)
	if !ok {
		return
	}
	first := append([]byte(nil), out...)

	// another host of the same AS pair
	c2 := c.clone()
	switch u.rng.IntN(3) {
	case 0:
		c2.Addr.Dst = u.otherHost(c.Addr.Dst)
	case 1:
		c2.Addr.Src = u.otherHost(c.Addr.Src)
	default:
		c2.Addr.Dst, c2.Addr.Src = u.otherHost(c.Addr.Dst), u.otherHost(c.Addr.Src)
	}
	u.cur = c2
	if !u.receive(c2) {
		return
	}
	a.class("reuse/same-buffer-other-host")
	f1, _, ok := u.emit("same-buffer-other-host", &u.scn, "next packet in the same buffer: same ISD-AS pair and address lengths, other host bytes", true)
	if !ok {
		return
	}

	// one address bit flipped in the buffer, no decode in between
	al := len(c.Addr.Dst) + len(c.Addr.Src)
	bit := u.rng.IntN(8 * al)
	u.rx[28+bit/8] ^= 0x80 >> (bit % 8)
	if bit/8 < len(c.Addr.Dst) { // keep the description of what is in the buffer in step
		c2.Addr.Dst[bit/8] ^= 0x80 >> (bit % 8)
	} else {
		c2.Addr.Src[bit/8-len(c.Addr.Dst)] ^= 0x80 >> (bit % 8)
	}
	a.class("reuse/in-place-host-bit")
	f2, _, ok := u.emit("in-place-host-bit", &u.scn, fmt.Sprintf("bit %d of the host addresses flipped in the receive buffer the layer aliases", bit), true)
	if !ok {
		return
	}
	u.changed("in-place-host-bit", fmt.Sprintf("bit %d of the host addresses was flipped in place", bit), f1, f2)

	// one ISD-AS bit changed in the layer
	k := u.rng.IntN(128)
	if k < 64 {
		u.scn.DstIA ^= 1 << k
	} else {
		u.scn.SrcIA ^= 1 << (k - 64)
	}
	a.class("reuse/in-place-ia-bit")
	f3, _, ok := u.emit("in-place-ia-bit", &u.scn, fmt.Sprintf("bit %d of DstIA|SrcIA changed in the layer", k), true)
	if !ok {
		return
	}
	u.changed("in-place-ia-bit", fmt.Sprintf("bit %d of DstIA|SrcIA was changed", k), f2, f3)

	// the first packet once more
	u.cur = c
	if !u.receive(c) {
		return
	}
	a.class("reuse/same-packet-again")
	_, out, ok = u.emit("same-packet-again", &u.scn, "the first packet received again", true)
	if !ok {
		return
	}
	a.evals++
	if string(out) != string(first) {
		a.violation("C20:reuse:same-packet-again", "the reply to the same packet, received again after other packets went through the layer, differs from the first reply",
			u.wit("same-packet-again", "", "first reply: "+hexs(first[:min(len(first), 256)]), out, 0xFFFF, 0))
	}

	// ---- (b) a layer the application fills ----
	o := &u.own
	o.DstIA, o.SrcIA = addr.IA(c.Addr.DstIA), addr.IA(c.Addr.SrcIA)
	o.DstAddrType, o.SrcAddrType = slayers.AddrType(c.Addr.DT), slayers.AddrType(c.Addr.ST)
	if len(o.RawDstAddr) == len(c.Addr.Dst) && len(o.RawSrcAddr) == len(c.Addr.Src) {
		copy(o.RawDstAddr, c.Addr.Dst)
		copy(o.RawSrcAddr, c.Addr.Src)
		a.class("reuse/own-layer/next-addresses-written-in-place")
	} else {
		o.RawDstAddr, o.RawSrcAddr = append([]byte(nil), c.Addr.Dst...), append([]byte(nil), c.Addr.Src...)
		a.class("reuse/own-layer/address-slices-replaced")
	}
	g0, _, ok := u.emit("own-layer-next-addresses", o, "addresses of the next case installed in the long-lived layer", false)
	if !ok {
		return
	}
	bit = u.rng.IntN(8 * al)
	if bit/8 < len(o.RawDstAddr) {
		o.RawDstAddr[bit/8] ^= 0x80 >> (bit % 8)
	} else {
		o.RawSrcAddr[bit/8-len(o.RawDstAddr)] ^= 0x80 >> (bit % 8)
	}
	a.class("reuse/own-layer/host-bit-in-place")
	g1, _, ok := u.emit("own-layer-host-bit-in-place", o, fmt.Sprintf("bit %d of RawDstAddr|RawSrcAddr flipped in place", bit), false)
	if !ok {
		return
	}
	u.changed("own-layer-host-bit-in-place", fmt.Sprintf("bit %d of RawDstAddr|RawSrcAddr was flipped in place", bit), g0, g1)
	copy(o.RawSrcAddr, u.otherHost(o.RawSrcAddr))
	copy(o.RawDstAddr, u.otherHost(o.RawDstAddr))
	a.class("reuse/own-layer/hosts-rewritten-in-place")
	if _, _, ok = u.emit("own-layer-hosts-rewritten-in-place", o, "both host addresses overwritten in place", false); !ok {
		return
	}
	k = u.rng.IntN(128)
	if k < 64 {
		o.DstIA ^= 1 << k
	} else {
		o.SrcIA ^= 1 << (k - 64)
	}
	a.class("reuse/own-layer/ia-bit")
	u.emit("own-layer-ia-bit", o, fmt.Sprintf("bit %d of DstIA|SrcIA changed", k), false)
}

func checkC20(r *mon.Run) {
	r.Rule = "case = address header (all 256 DT/DL x ST/SL combinations, then random; random/all-zero/all-one ISD-AS and host values) " +
		"x upper layer (UDP, the nine SCMP message types, an unassigned SCMP type) x payload length (every length 0..64, then " +
		"boundary and PRNG-chosen lengths of both parities up to 9000) x with/without E2E extension; serialized by slayers with " +
		"ComputeChecksums; oracle = RFC 1071 sum over the documented pseudo header and the wire bytes; every single-bit change " +
		"of a covered input (all bits for upper layers <= 256 bytes, sampled beyond) re-serialized and re-judged; " +
		"class = upper layer x length bucket x parity x extension, address lengths, address types. Reuse monitor: the same cases in " +
		"generation order, 64 per stream, through one long-lived slayers.SCION (RecyclePaths) decoded again and again from one receive buffer " +
		"(next case; other host of the same AS pair; address bit flipped in the buffer; ISD-AS bit changed; first packet again), addresses " +
		"swapped for the reply, and one long-lived layer whose addresses the application rewrites in place, with long-lived UDP and SCMP " +
		"layers; after every step both upper layers are serialized and the reference sum over the pseudo header read from the serialized " +
		"packet must be 0xFFFF, single-bit changes must change the checksum; reuse/<scenario>. Options monitor: every case once more through " +
		"{FixLengths+ComputeChecksums, ComputeChecksums alone with all length fields set by the caller} x {new slayers.UDP/SCMP object, object " +
		"serialized before for this packet, for another packet, object filled by DecodeFromBytes from this packet, from another packet, object " +
		"whose Checksum field holds a PRNG value}: same reference sum; for two PRNG-chosen combinations per case a single-bit input change " +
		"through the same combination must verify and change the field; options/<layer>/<prior state>/<options>"
	r.Assumptions = []string{
		"the pseudo header is the one of scion-header.rst: DstIA, SrcIA, DstHost, SrcHost, 32-bit upper-layer length, 24 zero bits, protocol number of the upper layer (not NextHdr)",
		"the upper-layer length is the number of upper-layer bytes on the wire (for UDP this equals the Length field written with FixLengths)",
		"payload lengths are limited to 9000 as in the property's quantifier",
		"reuse monitor: requests carry an empty path and no extension header; the second upper layer of every step is serialized with at most 41 payload bytes, the steps on the application-filled layer as well",
		"options monitor: without FixLengths the caller's lengths are the correct ones (HdrLen, PayloadLen, ExtLen, UDP Length from the specified layout); what is written when ComputeChecksums is not set is not judged (the statement speaks of the checksum written by the serializer)",
	}
	if f := r.ReplayFile(); f != "" {
		b, err := os.ReadFile(f)
		var rec struct {
			Witness c20Wit `json:"witness"`
		}
		var rrec struct {
			Witness c20ReuseWit `json:"witness"`
		}
		if err == nil {
			err = json.Unmarshal(b, &rec)
		}
		if err == nil && json.Unmarshal(b, &rrec) == nil && rrec.Witness.Dir == "reuse" {
			// the previous case and the case through a new set of long-lived layers
			// (host bytes and bit positions of the in-place steps are drawn anew)
			a := newAcc()
			u := newC20Reuse(a, r.Rand("replay"))
			var c *c20Case
			if pw := rrec.Witness.Prev; pw != nil {
				if c, err = pw.toCase(); err == nil {
					u.run(c)
				}
			}
			if err == nil {
				if c, err = rrec.Witness.Case.toCase(); err == nil && !strings.HasSuffix(rrec.Witness.Case.Pld, "…") {
					u.run(c)
				}
			}
			if err != nil {
				fmt.Println("C20: cannot load replay file:", err)
				os.Exit(2)
			}
			a.sample(rrec.Witness)
			a.class("replay")
			a.class("replay/reuse")
			a.flush(r)
			return
		}
		var c *c20Case
		if err == nil {
			c, err = rec.Witness.toCase()
		}
		if err != nil {
			fmt.Println("C20: cannot load replay file:", err)
			os.Exit(2)
		}
		a := newAcc()
		c20Run(a, r.Rand("replay"), c, gopacket.NewSerializeBuffer(), true)
		for k := 0; k < 8; k++ { // the PRNG-chosen parts (other packet, garbage, which bit) several times
			c20Options(a, r.Rand(fmt.Sprint("replay/options/", k)), c, gopacket.NewSerializeBuffer())
		}
		a.sample(rec.Witness)
		a.class("replay")
		a.flush(r)
		return
	}

	rng := r.Rand("c20/gen")
	nkinds := len(scmpTypes) + 2
	var cases []*c20Case
	idx := 0
	addCase := func(kind, plen int) {
		cases = append(cases, c20Gen(rng, idx, kind, plen))
		idx++
	}
	reps := r.Pick(2, 8)
	for rep := 0; rep < reps; rep++ {
		for plen := 0; plen <= 64; plen++ {
			for k := 0; k < nkinds; k++ {
				addCase(k, plen)
			}
		}
	}
	edges := []int{65, 66, 127, 128, 255, 256, 257, 1231, 1232, 1233, 1471, 1472, 4095, 4096, 8191, 8999, 9000}
	nrand := r.Pick(80, 1500)
	for k := 0; k < nkinds; k++ {
		for _, e := range edges {
			addCase(k, e)
		}
		for i := 0; i < nrand; i++ {
			var n int
			switch i % 4 {
			case 0:
				n = 65 + rng.IntN(192) // still in the all-bits range
			case 1:
				n = 257 + rng.IntN(1244)
			default:
				n = 1501 + rng.IntN(7500)
			}
			if i%2 == 0 {
				n |= 1 // force odd
				if n > 9000 {
					n = 8999
				}
			} else {
				n &^= 1
			}
			addCase(k, n)
		}
	}
	const chunk = 8
	ntasks := (len(cases) + chunk - 1) / chunk
	runTasks(r, ntasks, func(t int, a *acc) {
		rng := r.Rand(fmt.Sprintf("c20/flips/%d", t))
		orng := r.Rand(fmt.Sprintf("c20/options/%d", t))
		buf := gopacket.NewSerializeBuffer()
		for i := t * chunk; i < (t+1)*chunk && i < len(cases); i++ {
			c := cases[i]
			c20Run(a, rng, c, buf, c.l4HdrLen()+len(c.Pld) <= 256)
			c20Options(a, orng, c, buf)
			if i%997 == 5 {
				w := c.wit("", nil, 0xFFFF)
				if len(w.Pld) > 64 {
					w.Pld = w.Pld[:64] + "…"
				}
				a.sample(w)
			}
		}
	})
	// ---- the same cases, in the generated order, through long-lived layers ----
	const rchunk = 64
	runTasks(r, (len(cases)+rchunk-1)/rchunk, func(t int, a *acc) {
		u := newC20Reuse(a, r.Rand(fmt.Sprintf("c20/reuse/%d", t)))
		for i := t * rchunk; i < (t+1)*rchunk && i < len(cases); i++ {
			u.run(cases[i])
		}
	})
	r.Extra("cases", len(cases))
	need := []string{"odd_length", "even_length", "wire_flip", "flip_dst-ia", "flip_src-ia", "flip_dst-host", "flip_src-host",
		"flip_l4-field", "flip_payload", "flip_length", "flip_scmp-code", "checksum_udp", "checksum_scmp-other-type",
		"reuse_serialize_udp", "reuse_serialize_scmp", "reuse_verified", "options_verified", "options_flip"}
	for _, t := range scmpTypes {
		need = append(need, "checksum_scmp-"+scmpNames[t])
	}
	r.Require(int64(len(cases)), 60, need...)
	r.RequireClasses("reuse/same-buffer-other-host", "reuse/same-buffer-other-as", "reuse/same-buffer-other-address-lengths",
		"reuse/same-buffer-same-address-lengths", "reuse/in-place-host-bit", "reuse/in-place-ia-bit", "reuse/same-packet-again",
		"reuse/own-layer/next-addresses-written-in-place", "reuse/own-layer/address-slices-replaced",
		"reuse/own-layer/host-bit-in-place", "reuse/own-layer/hosts-rewritten-in-place", "reuse/own-layer/ia-bit",
		"reuse/udp", "reuse/scmp-echo-request", "reuse/scmp-other-type")
	for _, l := range []string{"udp", "scmp"} {
		for _, fix := range []bool{true, false} {
			for _, p := range c20Priors {
				r.RequireClasses("options/" + l + "/" + p + "/" + c20OptName(fix))
			}
			r.RequireClasses("options-flip/" + l + "/" + c20OptName(fix))
		}
	}
}
