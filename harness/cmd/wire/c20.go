package main

import (
	"encoding/binary"
	"encoding/hex"
	"encoding/json"
	"fmt"
	"math/rand/v2"
	"os"

	"github.com/gopacket/gopacket"

	"github.com/scionproto/scion/pkg/slayers"
	"github.com/scionproto/scion/pkg/slayers/path/empty"

	"verif/mon"
)

// C20 — UDP and SCMP checksums.
//
// Every case is serialized by the real slayers code (SCION + optional E2E
// extension + UDP | SCMP + typed message + payload, FixLengths and
// ComputeChecksums on). The oracle (ref_csum.go) builds the documented pseudo
// header, adds the upper-layer bytes as they appear on the wire and requires
// the folded one's-complement sum to be 0xFFFF. Each single-bit change of a
// covered input (ISD-AS, host address, L4 header field, payload bit, length) is
// applied to the *input* of the serializer; the re-serialized packet must again
// sum to 0xFFFF and carry a different checksum, and the wire image with just
// that bit flipped must not sum to 0xFFFF.

type c20Case struct {
	Addr  refAddrHdr
	Kind  string // class name of the upper layer
	Proto uint8
	Typ   uint8  // SCMP type
	Code  uint8  // SCMP code
	Hdr   []byte // UDP: src port, dst port; SCMP: info block as specified
	Pld   []byte
	Ext   bool // an end-to-end extension header sits between SCION and the upper layer
}

type c20Wit struct {
	Kind    string `json:"kind"`
	Proto   uint8  `json:"proto"`
	Typ     uint8  `json:"scmp_type"`
	Code    uint8  `json:"scmp_code"`
	DT      uint8  `json:"dt_dl"`
	ST      uint8  `json:"st_sl"`
	DstIA   uint64 `json:"dst_ia"`
	SrcIA   uint64 `json:"src_ia"`
	Dst     string `json:"dst_host_hex"`
	Src     string `json:"src_host_hex"`
	Hdr     string `json:"l4_fields_hex"`
	Pld     string `json:"payload_hex"`
	Ext     bool   `json:"e2e_extension"`
	Flip    string `json:"flip,omitempty"`
	L4      string `json:"l4_wire_hex,omitempty"`
	RefFold string `json:"ref_fold,omitempty"`
}

func (c *c20Case) wit(flip string, l4 []byte, fold uint16) c20Wit {
	w := c20Wit{Kind: c.Kind, Proto: c.Proto, Typ: c.Typ, Code: c.Code, DT: c.Addr.DT, ST: c.Addr.ST,
		DstIA: c.Addr.DstIA, SrcIA: c.Addr.SrcIA, Dst: hexs(c.Addr.Dst), Src: hexs(c.Addr.Src),
		Hdr: hexs(c.Hdr), Pld: hexs(c.Pld), Ext: c.Ext, Flip: flip, RefFold: fmt.Sprintf("%#04x", fold)}
	if len(l4) <= 512 {
		w.L4 = hexs(l4)
	}
	return w
}

func (w *c20Wit) toCase() (*c20Case, error) {
	c := &c20Case{Kind: w.Kind, Proto: w.Proto, Typ: w.Typ, Code: w.Code, Ext: w.Ext}
	c.Addr = refAddrHdr{DT: w.DT, ST: w.ST, DstIA: w.DstIA, SrcIA: w.SrcIA}
	var err error
	for _, f := range []struct {
		dst *[]byte
		src string
	}{{&c.Addr.Dst, w.Dst}, {&c.Addr.Src, w.Src}, {&c.Hdr, w.Hdr}, {&c.Pld, w.Pld}} {
		if *f.dst, err = hex.DecodeString(f.src); err != nil {
			return nil, err
		}
	}
	return c, nil
}

func (c *c20Case) clone() *c20Case {
	d := *c
	d.Addr = c.Addr.clone()
	d.Hdr = append([]byte(nil), c.Hdr...)
	d.Pld = append([]byte(nil), c.Pld...)
	return &d
}

func (c *c20Case) l4HdrLen() int {
	if c.Proto == protoUDP {
		return 8
	}
	return 4 + refSCMPInfoLen(c.Typ)
}

// serialize runs the implementation and returns the upper-layer bytes (the
// tail of the packet).
func (c *c20Case) serialize(buf gopacket.SerializeBuffer) ([]byte, error) {
	scn := &slayers.SCION{
		FlowID: 0xabcde, NextHdr: slayers.L4ProtocolType(c.Proto),
		PathType: empty.PathType, Path: empty.Path{},
	}
	c.Addr.applyTo(scn)
	layers := []gopacket.SerializableLayer{scn}
	if c.Ext {
		scn.NextHdr = slayers.End2EndClass
		e2e := &slayers.EndToEndExtn{}
		e2e.NextHdr = slayers.L4ProtocolType(c.Proto)
		e2e.Options = []*slayers.EndToEndOption{{OptType: 77, OptData: []byte{1, 2, 3, 4, 5}, OptAlign: [2]uint8{4, 2}}}
		layers = append(layers, e2e)
	}
	if c.Proto == protoUDP {
		u := &slayers.UDP{SrcPort: binary.BigEndian.Uint16(c.Hdr[0:]), DstPort: binary.BigEndian.Uint16(c.Hdr[2:])}
		u.SetNetworkLayerForChecksum(scn)
		layers = append(layers, u)
	} else {
		layers = append(layers, implSCMPLayers(scn, c.Typ, c.Code, c.Hdr)...)
	}
	layers = append(layers, gopacket.Payload(c.Pld))
	if err := gopacket.SerializeLayers(buf, gopacket.SerializeOptions{FixLengths: true, ComputeChecksums: true}, layers...); err != nil {
		return nil, err
	}
	all := buf.Bytes()
	n := c.l4HdrLen() + len(c.Pld)
	if len(all) < n {
		return nil, fmt.Errorf("serialized packet has %d bytes, upper layer alone needs %d", len(all), n)
	}
	return append([]byte(nil), all[len(all)-n:]...), nil
}

func (c *c20Case) csumOff() int {
	if c.Proto == protoUDP {
		return 6
	}
	return 2
}

// refFold computes the folded sum the receiver would compute.
func (c *c20Case) refFold(l4 []byte) uint16 {
	ps := refPseudoHeader(c.Addr.DstIA, c.Addr.SrcIA, c.Addr.Dst, c.Addr.Src, uint32(len(l4)), c.Proto)
	return refOnesSum(append(ps, l4...))
}

type c20Flip struct {
	field string
	bit   int
}

// apply returns a copy of c with one covered input bit changed ("length": one
// zero byte appended to the payload, which changes nothing but the length).
func (c *c20Case) apply(f c20Flip) *c20Case {
	d := c.clone()
	flipIn := func(b []byte) { b[f.bit/8] ^= 0x80 >> (f.bit % 8) }
	switch f.field {
	case "dst-ia":
		d.Addr.DstIA ^= 1 << (63 - f.bit)
	case "src-ia":
		d.Addr.SrcIA ^= 1 << (63 - f.bit)
	case "dst-host":
		flipIn(d.Addr.Dst)
	case "src-host":
		flipIn(d.Addr.Src)
	case "l4-field":
		flipIn(d.Hdr)
	case "scmp-code":
		d.Code ^= 0x80 >> f.bit
	case "payload":
		flipIn(d.Pld)
	case "length":
		d.Pld = append(d.Pld, 0)
	}
	return d
}

// flips lists the single-bit changes of covered inputs of c: all of them when
// full, otherwise a PRNG sample that still touches every field.
func (c *c20Case) flips(rng *rand.Rand, full bool) []c20Flip {
	var out []c20Flip
	add := func(field string, nbits int, skip func(int) bool) {
		if nbits == 0 {
			return
		}
		if full {
			for b := 0; b < nbits; b++ {
				if skip == nil || !skip(b) {
					out = append(out, c20Flip{field, b})
				}
			}
			return
		}
		for k := 0; k < 6; k++ {
			b := rng.IntN(nbits)
			if skip == nil || !skip(b) {
				out = append(out, c20Flip{field, b})
			}
		}
		// always the first and last bit (word boundaries, odd trailing byte)
		for _, b := range []int{0, nbits - 1} {
			if skip == nil || !skip(b) {
				out = append(out, c20Flip{field, b})
			}
		}
	}
	add("dst-ia", 64, nil)
	add("src-ia", 64, nil)
	add("dst-host", 8*len(c.Addr.Dst), nil)
	add("src-host", 8*len(c.Addr.Src), nil)
	if c.Proto == protoUDP {
		add("l4-field", 32, nil)
	} else {
		m := refSCMPInfoMask(c.Typ)
		add("l4-field", 8*len(c.Hdr), func(b int) bool { return m[b/8]&(0x80>>(b%8)) != 0 })
		add("scmp-code", 8, nil)
	}
	add("payload", 8*len(c.Pld), nil)
	out = append(out, c20Flip{"length", 0})
	return out
}

func lenBucket(n int) string {
	par := "even"
	if n%2 == 1 {
		par = "odd"
	}
	switch {
	case n == 0:
		return "len=0"
	case n <= 64:
		return "len=1-64/" + par
	case n <= 256:
		return "len=65-256/" + par
	case n <= 1500:
		return "len=257-1500/" + par
	default:
		return "len=1501-9000/" + par
	}
}

// c20Run judges one case with its flips.
func c20Run(a *acc, rng *rand.Rand, c *c20Case, buf gopacket.SerializeBuffer, fullFlips bool) {
	var l4 []byte
	var err error
	if p, stack := mon.Try(func() { l4, err = c.serialize(buf) }); p != nil {
		a.violation("C20:panic:"+mon.PanicSite(stack), fmt.Sprintf("panic while serializing: %v\n%s", p, stack), c.wit("", nil, 0))
		return
	}
	if err != nil {
		a.violation("C20:serialize-error/"+c.Kind, "serializing with ComputeChecksums failed: "+err.Error(), c.wit("", nil, 0))
		return
	}
	a.evals++
	a.class(c.Kind + "/" + lenBucket(len(c.Pld)) + fmt.Sprintf("/ext=%v", c.Ext))
	a.class(fmt.Sprintf("addr/dl=%d,sl=%d", refAddrLen(c.Addr.DT), refAddrLen(c.Addr.ST)))
	a.class(fmt.Sprintf("addr-types/dt=%d,st=%d", c.Addr.DT>>2, c.Addr.ST>>2))
	a.event("checksum_" + c.Kind)
	fold := c.refFold(l4)
	if fold != 0xFFFF {
		par := "even"
		if len(l4)%2 == 1 {
			par = "odd"
		}
		a.violation("C20:sum-not-ffff/"+c.Kind+"/"+par, fmt.Sprintf(
			"one's-complement sum over pseudo header and %d upper-layer bytes folds to %#04x, not 0xffff (checksum field %#04x)",
			len(l4), fold, binary.BigEndian.Uint16(l4[c.csumOff():])), c.wit("", l4, fold))
		return
	}
	if len(l4)%2 == 1 {
		a.event("odd_length")
	} else {
		a.event("even_length")
	}
	if binary.BigEndian.Uint16(l4[c.csumOff():]) == 0 {
		a.class("checksum-field-zero")
	}
	base := binary.BigEndian.Uint16(l4[c.csumOff():])

	// ---- single-bit changes of covered inputs, through the serializer ----
	for _, f := range c.flips(rng, fullFlips) {
		d := c.apply(f)
		var l4f []byte
		if p, stack := mon.Try(func() { l4f, err = d.serialize(buf) }); p != nil {
			a.violation("C20:panic:"+mon.PanicSite(stack), fmt.Sprintf("panic while serializing: %v\n%s", p, stack), d.wit(fmt.Sprint(f), nil, 0))
			continue
		}
		if err != nil {
			a.violation("C20:serialize-error/"+c.Kind, err.Error(), d.wit(fmt.Sprint(f), nil, 0))
			continue
		}
		a.evals++
		a.event("flip_" + f.field)
		if ff := d.refFold(l4f); ff != 0xFFFF {
			a.violation("C20:sum-not-ffff/"+c.Kind+"/after-"+f.field, fmt.Sprintf(
				"after changing %s bit %d the serialized packet folds to %#04x", f.field, f.bit, ff), d.wit(fmt.Sprintf("%s bit %d", f.field, f.bit), l4f, ff))
			continue
		}
		if got := binary.BigEndian.Uint16(l4f[c.csumOff():]); got == base {
			a.violation("C20:flip-undetected/"+f.field, fmt.Sprintf(
				"changing %s bit %d leaves the checksum at %#04x: the field is not covered", f.field, f.bit, got),
				c.wit(fmt.Sprintf("%s bit %d", f.field, f.bit), l4, fold))
		}
	}

	// ---- single-bit flips of the covered wire image ----
	ps := refPseudoHeader(c.Addr.DstIA, c.Addr.SrcIA, c.Addr.Dst, c.Addr.Src, uint32(len(l4)), c.Proto)
	img := append(ps, l4...)
	nbits := 8 * len(img)
	try := func(b int) {
		img[b/8] ^= 0x80 >> (b % 8)
		a.evals++
		if refOnesSum(img) == 0xFFFF {
			a.violation("C20:wire-flip-undetected", fmt.Sprintf("flipping bit %d of pseudo header||upper layer still folds to 0xffff", b),
				c.wit(fmt.Sprintf("wire bit %d", b), l4, 0xFFFF))
		}
		img[b/8] ^= 0x80 >> (b % 8)
	}
	if fullFlips {
		for b := 0; b < nbits; b++ {
			try(b)
		}
		a.eventN("wire_flip", int64(nbits))
	} else {
		for k := 0; k < 64; k++ {
			try(rng.IntN(nbits))
		}
		try(nbits - 1)
		try(nbits - 8)
		a.eventN("wire_flip", 66)
	}
}

func c20GenAddr(rng *rand.Rand, idx int) refAddrHdr {
	a := refAddrHdr{DT: uint8(idx>>4) & 15, ST: uint8(idx) & 15}
	if idx >= 256 {
		a.DT, a.ST = uint8(rng.IntN(16)), uint8(rng.IntN(16))
	}
	fill := func(n int) []byte {
		b := make([]byte, n)
		switch rng.IntN(8) {
		case 0: // all zero
		case 1:
			for i := range b {
				b[i] = 0xFF
			}
		default:
			for i := range b {
				b[i] = byte(rng.Uint32())
			}
		}
		return b
	}
	a.Dst, a.Src = fill(refAddrLen(a.DT)), fill(refAddrLen(a.ST))
	a.DstIA, a.SrcIA = rng.Uint64(), rng.Uint64()
	switch rng.IntN(10) {
	case 0:
		a.DstIA, a.SrcIA = 0, 0
	case 1:
		a.DstIA, a.SrcIA = ^uint64(0), ^uint64(0)
	case 2:
		a.SrcIA = a.DstIA
	}
	return a
}

func c20Gen(rng *rand.Rand, idx int, kind int, plen int) *c20Case {
	c := &c20Case{Addr: c20GenAddr(rng, idx), Ext: rng.IntN(4) == 0}
	if kind == 0 {
		c.Kind, c.Proto = "udp", protoUDP
		c.Hdr = make([]byte, 4)
	} else if kind <= len(scmpTypes) {
		c.Typ = scmpTypes[kind-1]
		c.Kind, c.Proto = "scmp-"+scmpNames[c.Typ], protoSCMP
		c.Hdr = make([]byte, refSCMPInfoLen(c.Typ))
		c.Code = uint8(rng.IntN(256))
	} else {
		c.Typ = []uint8{0, 3, 100, 127, 200, 255}[rng.IntN(6)]
		c.Kind, c.Proto = "scmp-other-type", protoSCMP
		c.Code = uint8(rng.IntN(256))
	}
	for i := range c.Hdr {
		c.Hdr[i] = byte(rng.Uint32())
	}
	if c.Proto == protoSCMP {
		m := refSCMPInfoMask(c.Typ)
		for i := range c.Hdr {
			c.Hdr[i] &^= m[i] // reserved fields are not representable in the layer structs
		}
	}
	c.Pld = make([]byte, plen)
	switch rng.IntN(6) {
	case 0: // zeros
	case 1:
		for i := range c.Pld {
			c.Pld[i] = 0xFF
		}
	default:
		for i := range c.Pld {
			c.Pld[i] = byte(rng.Uint32())
		}
	}
	return c
}

func checkC20(r *mon.Run) {
	r.Rule = "case = address header (all 256 DT/DL x ST/SL combinations, then random; random/all-zero/all-one ISD-AS and host values) " +
		"x upper layer (UDP, the nine SCMP message types, an unassigned SCMP type) x payload length (every length 0..64, then " +
		"boundary and PRNG-chosen lengths of both parities up to 9000) x with/without E2E extension; serialized by slayers with " +
		"ComputeChecksums; oracle = RFC 1071 sum over the documented pseudo header and the wire bytes; every single-bit change " +
		"of a covered input (all bits for upper layers <= 256 bytes, sampled beyond) re-serialized and re-judged; " +
		"class = upper layer x length bucket x parity x extension, address lengths, address types"
	r.Assumptions = []string{
		"the pseudo header is the one of scion-header.rst: DstIA, SrcIA, DstHost, SrcHost, 32-bit upper-layer length, 24 zero bits, protocol number of the upper layer (not NextHdr)",
		"the upper-layer length is the number of upper-layer bytes on the wire (for UDP this equals the Length field written with FixLengths)",
		"payload lengths are limited to 9000 as in the property's quantifier",
	}
	if f := r.ReplayFile(); f != "" {
		b, err := os.ReadFile(f)
		var rec struct {
			Witness c20Wit `json:"witness"`
		}
		if err == nil {
			err = json.Unmarshal(b, &rec)
		}
		var c *c20Case
		if err == nil {
			c, err = rec.Witness.toCase()
		}
		if err != nil {
			fmt.Println("C20: cannot load replay file:", err)
			os.Exit(2)
		}
		a := newAcc()
		c20Run(a, r.Rand("replay"), c, gopacket.NewSerializeBuffer(), true)
		a.sample(rec.Witness)
		a.class("replay")
		a.flush(r)
		return
	}

	rng := r.Rand("c20/gen")
	nkinds := len(scmpTypes) + 2
	var cases []*c20Case
	idx := 0
	addCase := func(kind, plen int) {
		cases = append(cases, c20Gen(rng, idx, kind, plen))
		idx++
	}
	reps := r.Pick(2, 8)
	for rep := 0; rep < reps; rep++ {
		for plen := 0; plen <= 64; plen++ {
			for k := 0; k < nkinds; k++ {
				addCase(k, plen)
			}
		}
	}
	edges := []int{65, 66, 127, 128, 255, 256, 257, 1231, 1232, 1233, 1471, 1472, 4095, 4096, 8191, 8999, 9000}
	nrand := r.Pick(80, 1500)
	for k := 0; k < nkinds; k++ {
		for _, e := range edges {
			addCase(k, e)
		}
		for i := 0; i < nrand; i++ {
			var n int
			switch i % 4 {
			case 0:
				n = 65 + rng.IntN(192) // still in the all-bits range
			case 1:
				n = 257 + rng.IntN(1244)
			default:
				n = 1501 + rng.IntN(7500)
			}
			if i%2 == 0 {
				n |= 1 // force odd
				if n > 9000 {
					n = 8999
				}
			} else {
				n &^= 1
			}
			addCase(k, n)
		}
	}
	const chunk = 8
	ntasks := (len(cases) + chunk - 1) / chunk
	runTasks(r, ntasks, func(t int, a *acc) {
		rng := r.Rand(fmt.Sprintf("c20/flips/%d", t))
		buf := gopacket.NewSerializeBuffer()
		for i := t * chunk; i < (t+1)*chunk && i < len(cases); i++ {
			c := cases[i]
			c20Run(a, rng, c, buf, c.l4HdrLen()+len(c.Pld) <= 256)
			if i%997 == 5 {
				w := c.wit("", nil, 0xFFFF)
				if len(w.Pld) > 64 {
					w.Pld = w.Pld[:64] + "…"
				}
				a.sample(w)
			}
		}
	})
	r.Extra("cases", len(cases))
	need := []string{"odd_length", "even_length", "wire_flip", "flip_dst-ia", "flip_src-ia", "flip_dst-host", "flip_src-host",
		"flip_l4-field", "flip_payload", "flip_length", "flip_scmp-code", "checksum_udp", "checksum_scmp-other-type"}
	for _, t := range scmpTypes {
		need = append(need, "checksum_scmp-"+scmpNames[t])
	}
	r.Require(int64(len(cases)), 60, need...)
}
