// Command gwenc serves the gateway encapsulation property (C41).
package main

import "verif/mon"

func main() {
	mon.Main(map[string]func(*mon.Run){
		"C41": checkC41,
	})
}
