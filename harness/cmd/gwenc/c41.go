package main

import (
	"bytes"
	"encoding/binary"
	"encoding/json"
	"fmt"
	"math/rand/v2"
	"os"
	"runtime"
	"runtime/pprof"
	"sort"
	"sync"
	"sync/atomic"
	"time"

	"github.com/scionproto/scion/gateway/dataplane"

	"verif/mon"
)

// C41 — gateway encapsulation reproduces the IP packet stream.
//
// The real egress encoder (newEncoder/Write/Read/Close, through hook H5) is fed
// generated IPv4/IPv6 packets (unique ids, invalid ones mixed in); the frames it
// produces are handed to the real ingress worker (processFrame / Run), whose
// tunnel device is a recorder.
//   lossless phase: frames in order, no loss   => recorder sequence == accepted
//                   valid packets, in order; the frame payload stream must be
//                   exactly the accepted valid packets (invalid never encapsulated)
//   fault phase:    PRNG loss/dup/reorder/replay over several interleaved streams
//                   => every recorded packet is byte-identical to a sent one.
//                   Delivery is not demanded there.
// The oracle is the list of packets the harness itself generated; it never asks
// the gateway code what to expect.

// ---------- packets ----------

type c41Pkt struct {
	Kind     string `json:"kind"` // v4 | v6 | invalid:<why>
	Size     int    `json:"size"`
	Valid    bool   `json:"valid"`
	Accepted bool   `json:"accepted"`
	b        []byte
}

// c41Pool64k is a per-case block of PRNG bytes; packet bodies are slices of it
// taken at PRNG offsets (much cheaper under the race detector than drawing
// every byte), made unique by the ids stamped into the headers.
type c41Rand struct {
	*rand.Rand
	block []byte
}

func c41NewRand(rng *rand.Rand) *c41Rand {
	r := &c41Rand{Rand: rng, block: make([]byte, 1<<16)}
	c41FillSlow(rng, r.block)
	return r
}

func c41Fill(rng *c41Rand, b []byte) {
	for len(b) > 0 {
		off := rng.IntN(len(rng.block))
		n := copy(b, rng.block[off:])
		b = b[n:]
	}
}

func c41FillSlow(rng *rand.Rand, b []byte) {
	i := 0
	for ; i+8 <= len(b); i += 8 {
		binary.LittleEndian.PutUint64(b[i:], rng.Uint64())
	}
	if i < len(b) {
		var t [8]byte
		binary.LittleEndian.PutUint64(t[:], rng.Uint64())
		copy(b[i:], t[:])
	}
}

func c41Csum(h []byte) uint16 {
	var s uint32
	for i := 0; i+1 < len(h); i += 2 {
		s += uint32(h[i])<<8 | uint32(h[i+1])
	}
	for s>>16 != 0 {
		s = s&0xffff + s>>16
	}
	return ^uint16(s)
}

// c41V4 builds a well-formed IPv4 packet of exactly size bytes (>= 20). The
// unique id sits in the Identification field and the source address (and again
// at the start of the payload when there is room).
func c41V4(rng *c41Rand, uid uint64, size int) []byte {
	b := make([]byte, size)
	c41Fill(rng, b)
	ihl := 5
	if size >= 24 && rng.IntN(6) == 0 {
		ihl = 5 + 1 + rng.IntN(min(10, (size-20)/4))
	}
	b[0] = 0x40 | byte(ihl)
	binary.BigEndian.PutUint16(b[2:4], uint16(size))
	binary.BigEndian.PutUint16(b[4:6], uint16(uid))
	b[6] &= 0x40
	b[7] = 0
	b[8] |= 1
	b[12], b[13], b[14], b[15] = 10, byte(uid>>32), byte(uid>>24), byte(uid>>16)
	b[10], b[11] = 0, 0
	binary.BigEndian.PutUint16(b[10:12], c41Csum(b[:ihl*4]))
	if size >= ihl*4+8 {
		binary.BigEndian.PutUint64(b[ihl*4:], uid)
	}
	return b
}

// c41V6 builds a well-formed IPv6 packet of exactly size bytes (>= 40); the
// unique id is the low half of the source address.
func c41V6(rng *c41Rand, uid uint64, size int) []byte {
	b := make([]byte, size)
	c41Fill(rng, b)
	b[0] = 0x60 | b[0]&0x0f
	binary.BigEndian.PutUint16(b[4:6], uint16(size-40))
	b[7] |= 1
	b[8] = 0xfd
	binary.BigEndian.PutUint64(b[16:24], uid)
	if size >= 48 {
		binary.BigEndian.PutUint64(b[40:], uid)
	}
	return b
}

var c41InvalidKinds = []string{"empty", "version", "v4short", "v4len+", "v4len-", "v6short", "v6len+", "v6len-"}

// c41Invalid builds a packet that is not a valid IPv4/IPv6 packet by the only
// criteria the SIG framing knows: version nibble, fixed header present, length
// field equal to the actual length.
func c41Invalid(rng *c41Rand, uid uint64, kind string, size int) []byte {
	switch kind {
	case "empty":
		return []byte{}
	case "version":
		var b []byte
		if rng.IntN(2) == 0 {
			b = c41V4(rng, uid, max(size, 20))
		} else {
			b = c41V6(rng, uid, max(size, 40))
		}
		vs := []byte{0, 1, 2, 3, 5, 7, 8, 9, 15}
		b[0] = b[0]&0x0f | vs[rng.IntN(len(vs))]<<4
		return b
	case "v4short":
		n := 1 + rng.IntN(19)
		b := make([]byte, n)
		c41Fill(rng, b)
		b[0] = 0x45
		if n >= 4 {
			binary.BigEndian.PutUint16(b[2:4], uint16(n))
		}
		return b
	case "v4len+":
		b := c41V4(rng, uid, max(size, 20))
		binary.BigEndian.PutUint16(b[2:4], uint16(min(len(b)+1+rng.IntN(100), 65535)))
		return b
	case "v4len-":
		b := c41V4(rng, uid, max(size, 20))
		binary.BigEndian.PutUint16(b[2:4], uint16(len(b)-1-rng.IntN(len(b))))
		return b
	case "v6short":
		n := 1 + rng.IntN(39)
		b := make([]byte, n)
		c41Fill(rng, b)
		b[0] = 0x60
		if n >= 6 {
			binary.BigEndian.PutUint16(b[4:6], 0)
		}
		return b
	case "v6len+":
		b := c41V6(rng, uid, max(size, 40))
		binary.BigEndian.PutUint16(b[4:6], uint16(min(len(b)-40+1+rng.IntN(100), 65535)))
		return b
	default: // v6len-
		b := c41V6(rng, uid, max(size, 41))
		binary.BigEndian.PutUint16(b[4:6], uint16(len(b)-40-1-rng.IntN(len(b)-40)))
		return b
	}
}

// ---------- streams ----------

type c41Stream struct {
	MTU       int       `json:"mtu"`
	StreamID  uint32    `json:"stream_id"`
	Sess      uint8     `json:"session"`
	TxMode    string    `json:"tx_mode"`
	Pkts      []*c41Pkt `json:"packets"`
	FrameLens []int     `json:"frame_lens"`
	Notes     []string  `json:"frame_header_notes,omitempty"`

	frames    [][]byte
	exp       []*c41Pkt // accepted valid packets, in order
	offs      []int     // offset of exp[k] in the payload byte stream
	span      []int     // number of frames exp[k] touches
	refuseTry int
	refuseDrp int
	multiPkt  bool // some frame carries (parts of) more than one packet
	maxSpan   int
}

func c41MTUBucket(m int) string {
	switch {
	case m <= 64:
		return "57-64"
	case m <= 200:
		return "65-200"
	case m <= 1500:
		return "201-1500"
	case m <= 9000:
		return "1501-9000"
	}
	return ">9000"
}

func c41PickMTU(rng *c41Rand) int {
	switch x := rng.IntN(20); {
	case x < 4:
		return dataplane.VerifMinMTU + rng.IntN(8)
	case x < 8:
		return 65 + rng.IntN(136)
	case x < 14:
		return 201 + rng.IntN(1300)
	case x < 18:
		return 1501 + rng.IntN(7500)
	case x < 19:
		return 9001 + rng.IntN(65535-9001)
	}
	return []int{dataplane.VerifMinMTU, 1280 - 150, 1472, 9000, 65535}[rng.IntN(5)]
}

func c41PickSize(rng *c41Rand, payload, minSize int) int {
	clamp := func(v int) int { return max(minSize, min(v, 9000)) }
	switch x := rng.IntN(20); {
	case x < 5:
		return minSize + rng.IntN(60)
	case x < 10:
		// around multiples of the frame payload size and the places where the
		// encoder decides whether another header still fits
		kmax := max(1, min(9000/payload, 6))
		v := (1+rng.IntN(kmax))*payload + rng.IntN(5) - 2 - []int{0, 16, 20, 40, 41}[rng.IntN(5)]
		return clamp(v)
	case x < 14:
		return clamp(minSize + rng.IntN(1500-minSize))
	case x < 17:
		return clamp(1500 + rng.IntN(7501))
	case x < 18:
		return clamp([]int{20, 21, 39, 40, 41, 60, 8999, 9000}[rng.IntN(8)])
	default:
		// many frames per packet: around one hundred frames
		return clamp(payload*(90+rng.IntN(20)) + rng.IntN(payload))
	}
}

func c41GenStream(rng *c41Rand, caseIdx, sIdx int, uid *uint64, budget int) *c41Stream {
	s := &c41Stream{MTU: c41PickMTU(rng), Sess: uint8(rng.IntN(256))}
	// distinct 20-bit stream ids within a case (reuse of one id by two encoders
	// is outside the protocol's defence and is not generated)
	s.StreamID = uint32(rng.IntN(1<<18))<<2 | uint32(sIdx)
	s.TxMode = []string{"preloaded", "preloaded-discard", "concurrent-retry", "concurrent-drop"}[rng.IntN(4)]
	n := 1 + rng.IntN(dataplane.VerifPktRingSize)
	if s.TxMode[0] == 'c' {
		n = 1 + rng.IntN(160)
	}
	// part of the concurrently written streams consist of many small packets so
	// that the 64-entry packet ring actually fills up
	smallOnly := s.TxMode[0] == 'c' && rng.IntN(5) < 2
	if smallOnly {
		n = 80 + rng.IntN(81)
	}
	pInv := []float64{0, 0.1, 0.3}[rng.IntN(3)]
	vmix := rng.IntN(3) // 0 v4, 1 v6, 2 both
	payload := s.MTU - dataplane.VerifHdrLen
	budget = min(budget, 800*payload) // bound the number of frames per stream
	total := 0
	for i := 0; i < n && total < budget; i++ {
		*uid++
		id := uint64(caseIdx&0xfffff)<<20 | *uid&0xfffff
		v6 := vmix == 1 || (vmix == 2 && rng.IntN(2) == 0)
		minSize := 20
		if v6 {
			minSize = 40
		}
		size := c41PickSize(rng, payload, minSize)
		if smallOnly {
			size = minSize + rng.IntN(150)
		}
		p := &c41Pkt{Size: size}
		if rng.Float64() < pInv {
			k := c41InvalidKinds[rng.IntN(len(c41InvalidKinds))]
			p.Kind = "invalid:" + k
			p.b = c41Invalid(rng, id, k, min(size, 2000))
			p.Size = len(p.b)
		} else if v6 {
			p.Kind, p.Valid, p.b = "v6", true, c41V6(rng, id, size)
		} else {
			p.Kind, p.Valid, p.b = "v4", true, c41V4(rng, id, size)
		}
		total += len(p.b)
		s.Pkts = append(s.Pkts, p)
	}
	return s
}

// encode runs the real encoder over the stream's packets. It returns false if
// the encoder stalled (watchdog: inconclusive).
func (s *c41Stream) encode(rng *rand.Rand) bool {
	enc := dataplane.VerifNewEncoder(s.Sess, s.StreamID, uint16(s.MTU))
	switch s.TxMode {
	case "preloaded", "preloaded-discard":
		// Everything is written (at most one ring full) and the encoder closed
		// before the first Read: single-threaded and deterministic.
		for _, p := range s.Pkts {
			if s.TxMode == "preloaded-discard" {
				enc.WriteDiscard(p.b) // exactly what sender.Write does
				p.Accepted = true
			} else {
				p.Accepted = enc.Write(p.b) == 1
			}
		}
		enc.Close()
		for {
			f := enc.Read()
			if f == nil {
				break
			}
			s.frames = append(s.frames, append([]byte(nil), f...))
		}
		return true
	}
	yields := make([]int, len(s.Pkts))
	burst := rng.IntN(3)
	for i := range yields {
		switch burst {
		case 0:
			yields[i] = 0
		case 1:
			yields[i] = rng.IntN(4)
		default:
			if rng.IntN(8) == 0 {
				yields[i] = rng.IntN(400)
			}
		}
	}
	// The frame reader starts once the writer has offered delayK packets (in
	// retry mode at the latest when the ring first refuses), so that a full
	// ring is reached deterministically in part of the streams.
	delayK := 0
	if rng.IntN(2) == 0 {
		delayK = rng.IntN(len(s.Pkts) + 1)
	}
	startReader := make(chan struct{})
	started := false
	start := func() {
		if !started {
			started = true
			close(startReader)
		}
	}
	out := make(chan [][]byte, 1)
	go func() {
		<-startReader
		var fr [][]byte
		for {
			f := enc.Read()
			if f == nil {
				break
			}
			fr = append(fr, append([]byte(nil), f...))
		}
		out <- fr
	}()
	stalled := false
write:
	for i, p := range s.Pkts {
		if i >= delayK {
			start()
		}
		for y := 0; y < yields[i]; y++ {
			runtime.Gosched()
		}
		for spins := 0; ; spins++ {
			if enc.Write(p.b) == 1 {
				p.Accepted = true
				break
			}
			// ring full: the gateway drops the packet here
			if s.TxMode == "concurrent-drop" {
				s.refuseDrp++
				break
			}
			start()
			s.refuseTry++
			if spins%512 == 511 {
				time.Sleep(100 * time.Microsecond)
			} else {
				runtime.Gosched()
			}
			if spins > 512*100000 {
				stalled = true
				break write
			}
		}
	}
	start()
	enc.Close()
	if stalled {
		return false
	}
	select {
	case s.frames = <-out:
	case <-time.After(120 * time.Second):
		return false
	}
	return true
}

// prepare derives, from the harness's own packet list and the observed frame
// lengths only, where each expected packet lies in the payload byte stream and
// how many frames it touches.
func (s *c41Stream) prepare() {
	off := 0
	for _, p := range s.Pkts {
		if p.Valid && p.Accepted {
			s.exp = append(s.exp, p)
			s.offs = append(s.offs, off)
			off += len(p.b)
		}
	}
	s.FrameLens = make([]int, len(s.frames))
	starts := make([]int, len(s.frames)+1)
	for i, f := range s.frames {
		s.FrameLens[i] = len(f)
		starts[i+1] = starts[i] + max(0, len(f)-dataplane.VerifHdrLen)
	}
	s.span = make([]int, len(s.exp))
	fi := 0
	for k, p := range s.exp {
		a, b := s.offs[k], s.offs[k]+len(p.b)
		for fi < len(s.frames) && starts[fi+1] <= a {
			fi++
		}
		n := 0
		for j := fi; j < len(s.frames) && starts[j] < b; j++ {
			n++
		}
		s.span[k] = n
		s.maxSpan = max(s.maxSpan, n)
		if k > 0 && fi < len(s.frames) && a > starts[fi] {
			s.multiPkt = true
		}
	}
	// frame header conformance with doc/sig.rst: recorded as notes for the
	// witness, not judged (the statement speaks about the packet stream).
	k := 0
	for i, f := range s.frames {
		if len(f) < dataplane.VerifHdrLen {
			s.note("frame %d shorter than the SIG header (%d bytes)", i, len(f))
			continue
		}
		if len(f) > s.MTU {
			s.note("frame %d has %d bytes > mtu %d", i, len(f), s.MTU)
		}
		if f[0] != 0 || f[1] != s.Sess || binary.BigEndian.Uint32(f[4:8]) != s.StreamID&0xfffff {
			s.note("frame %d: version/session/stream fields %x", i, f[:8])
		}
		if seq := binary.BigEndian.Uint64(f[8:16]); seq != uint64(i) {
			s.note("frame %d carries sequence number %d", i, seq)
		}
		for k < len(s.offs) && s.offs[k] < starts[i] {
			k++
		}
		want := 0xffff
		if k < len(s.offs) && s.offs[k] < starts[i+1] {
			want = s.offs[k] - starts[i]
		}
		if got := int(binary.BigEndian.Uint16(f[2:4])); got != want {
			s.note("frame %d: index %d, first packet start is at %d", i, got, want)
		}
	}
}

func (s *c41Stream) note(f string, a ...any) {
	if len(s.Notes) < 6 {
		s.Notes = append(s.Notes, fmt.Sprintf(f, a...))
	}
}

// ---------- receiver ----------

type c41Tun struct{ out [][]byte }

func (t *c41Tun) Write(p []byte) (int, error) {
	t.out = append(t.out, append([]byte(nil), p...))
	return len(p), nil
}
func (t *c41Tun) Close() error { return nil }

// c41Pool bounds how many pool frame buffers the concurrently running cases
// can keep parked, so that the gateway's global pool (a ring of pre-allocated
// buffers) is never exhausted by the harness itself.
type c41Pool struct {
	mu    sync.Mutex
	c     *sync.Cond
	free  int
	total int
}

func (p *c41Pool) acquire(n int) {
	p.mu.Lock()
	n = min(n, p.total)
	for p.free < n {
		p.c.Wait()
	}
	p.free -= n
	p.mu.Unlock()
}

func (p *c41Pool) release(n int) {
	p.mu.Lock()
	p.free += min(n, p.total)
	p.mu.Unlock()
	p.c.Broadcast()
}

type c41Delivery struct {
	S int `json:"s"` // stream index in the case
	F int `json:"f"` // frame index in the stream
}

// receive hands the deliveries to a fresh real worker. rx "direct" calls
// processFrame on this goroutine (optionally with cleanup() at the given
// positions); rx "run" queues them on the worker's ring for the real Run loop.
func (cx *c41Ctx) receive(streams []*c41Stream, sched []c41Delivery, rx string, cleanups map[int]int) (out [][]byte, poolMiss int) {
	// A reassembly list only ever holds one consecutive run of frames of the
	// packet being reassembled, so a stream parks at most maxSpan+1 buffers.
	weight := 2
	for _, s := range streams {
		weight += min(dataplane.VerifReassemblyListCap, s.maxSpan+1, len(s.frames)) + 1
	}
	if rx == "run" {
		weight += 66
	}
	t0 := time.Now()
	cx.pool.acquire(weight)
	t0 = c41Since(&cx.tRxWait, t0)
	defer c41Since(&cx.tRx, t0)
	defer cx.pool.release(weight)
	tun := &c41Tun{}
	w := dataplane.VerifNewWorker(streams[0].Sess, tun)
	if rx == "run" {
		done := make(chan struct{})
		go func() { w.Run(); close(done) }()
		for _, d := range sched {
			if !w.Dispatch(streams[d.S].frames[d.F]) {
				poolMiss++
			}
		}
		w.Stop()
		<-done
	} else {
		for i, d := range sched {
			for c := cleanups[i]; c > 0; c-- {
				w.Cleanup()
			}
			if !w.ProcessFrame(streams[d.S].frames[d.F]) {
				poolMiss++
			}
		}
	}
	w.ReleaseAll()
	return tun.out, poolMiss
}

// ---------- a case ----------

type c41Ref struct{ s, k int }

type c41Case struct {
	Index   int          `json:"index"`
	Streams []*c41Stream `json:"streams"`
	index   map[string]c41Ref
}

type c41Witness struct {
	Case     *c41Case      `json:"case"`
	Phase    string        `json:"phase"`
	Rx       string        `json:"rx,omitempty"`
	Profile  string        `json:"fault_profile,omitempty"`
	Schedule []c41Delivery `json:"delivery_schedule,omitempty"`
	Detail   string        `json:"detail"`
	Packet   string        `json:"packet_hex,omitempty"`
	Note     string        `json:"note"`
}

const c41Note = "packets are regenerated from seed+case index by --replay; in concurrent tx modes the frame boundaries depend on the schedule (frame_lens shows the observed ones)"

type c41Ctx struct {
	r    *mon.Run
	pool *c41Pool
	// accumulated wall time per phase, reporting only
	tGen, tEnc, tRx, tRxWait atomic.Int64
}

func c41Since(acc *atomic.Int64, t0 time.Time) time.Time {
	now := time.Now()
	acc.Add(int64(now.Sub(t0)))
	return now
}

func c41Hex(b []byte) string {
	if len(b) > 96 {
		return fmt.Sprintf("%x...(%d bytes)", b[:96], len(b))
	}
	return fmt.Sprintf("%x", b)
}

func c41Interleave(rng *rand.Rand, streams []*c41Stream) []c41Delivery {
	var sched []c41Delivery
	next := make([]int, len(streams))
	remaining := 0
	for _, s := range streams {
		remaining += len(s.frames)
	}
	chunky := rng.IntN(2) == 0
	for remaining > 0 {
		x := rng.IntN(remaining)
		si := 0
		for ; si < len(streams); si++ {
			left := len(streams[si].frames) - next[si]
			if x < left {
				break
			}
			x -= left
		}
		n := 1
		if chunky {
			n = 1 + rng.IntN(8)
		}
		for ; n > 0 && next[si] < len(streams[si].frames); n-- {
			sched = append(sched, c41Delivery{si, next[si]})
			next[si]++
			remaining--
		}
	}
	return sched
}

var c41Profiles = []string{"loss", "burst-loss", "dup", "reorder", "reverse", "replay", "mixed", "heavy"}

type c41FaultStats struct{ drop, dup, moved int }

// c41Faults perturbs an in-order delivery schedule.
func c41Faults(rng *rand.Rand, base []c41Delivery, profile string) ([]c41Delivery, c41FaultStats) {
	type item struct {
		d   c41Delivery
		key float64
	}
	var st c41FaultStats
	pLoss, pDup, pMove, window := 0.0, 0.0, 0.0, 1+rng.IntN(30)
	switch profile {
	case "loss":
		pLoss = 0.02 + 0.3*rng.Float64()
	case "dup":
		pDup = 0.05 + 0.5*rng.Float64()
	case "reorder":
		pMove = 0.05 + 0.5*rng.Float64()
	case "mixed":
		pLoss, pDup, pMove = 0.05*rng.Float64(), 0.1*rng.Float64(), 0.1*rng.Float64()
	case "heavy":
		pLoss, pDup, pMove = 0.3*rng.Float64(), 0.5*rng.Float64(), 0.6*rng.Float64()
	}
	dropped := make([]bool, len(base))
	if profile == "burst-loss" || profile == "mixed" || profile == "heavy" {
		for b := 1 + rng.IntN(3); b > 0 && len(base) > 0; b-- {
			a := rng.IntN(len(base))
			for i := a; i < min(len(base), a+1+rng.IntN(20)); i++ {
				dropped[i] = true
			}
		}
	}
	var items []item
	for i, d := range base {
		if dropped[i] || rng.Float64() < pLoss {
			st.drop++
			continue
		}
		key := float64(i)
		if rng.Float64() < pMove {
			key += float64(1+rng.IntN(window)) + 0.5
			st.moved++
		}
		items = append(items, item{d, key})
		for rng.Float64() < pDup {
			items = append(items, item{d, float64(i) + float64(rng.IntN(window+1)) + 0.25})
			st.dup++
			if rng.IntN(3) != 0 {
				break
			}
		}
	}
	if (profile == "reverse" || profile == "heavy") && len(base) > 1 {
		for b := 1 + rng.IntN(2); b > 0; b-- {
			a := rng.IntN(len(base))
			l := 2 + rng.IntN(min(40, len(base)))
			if rng.IntN(4) == 0 {
				a, l = 0, len(base)
			}
			for j := range items {
				if k := int(items[j].key); k >= a && k < a+l {
					items[j].key = float64(a + (a + l - 1 - k))
					st.moved++
				}
			}
		}
	}
	if (profile == "replay" || profile == "mixed" || profile == "heavy") && len(base) > 0 {
		for b := 1 + rng.IntN(3); b > 0; b-- {
			a := rng.IntN(len(base))
			l := 1 + rng.IntN(min(50, len(base)))
			at := float64(a+rng.IntN(len(base)-a+1)) + 0.75
			for i := a; i < min(len(base), a+l); i++ {
				items = append(items, item{base[i], at + float64(i-a)/1000})
				st.dup++
			}
		}
	}
	sort.SliceStable(items, func(i, j int) bool { return items[i].key < items[j].key })
	out := make([]c41Delivery, len(items))
	for i := range items {
		out[i] = items[i].d
	}
	return out, st
}

func (cx *c41Ctx) runCase(idx int) {
	r := cx.r
	rng := c41NewRand(r.Rand(fmt.Sprintf("c41/%d", idx)))
	c := &c41Case{Index: idx, index: map[string]c41Ref{}}
	nStreams := []int{1, 1, 1, 1, 2, 2, 3, 4}[rng.IntN(8)]
	var uid uint64
	budget := r.Pick(160_000, 400_000) / nStreams
	for si := 0; si < nStreams; si++ {
		t0 := time.Now()
		s := c41GenStream(rng, idx, si, &uid, budget)
		c41Since(&cx.tGen, t0)
		s.Sess = uint8(idx) // one session per case: all its streams go to one worker
		c.Streams = append(c.Streams, s)
	}
	wit := func(phase, rx, profile, detail string, pkt []byte, sched []c41Delivery) c41Witness {
		if len(sched) > 400 {
			sched = sched[:400]
		}
		return c41Witness{Case: c, Phase: phase, Rx: rx, Profile: profile, Detail: detail, Packet: c41Hex(pkt), Schedule: sched, Note: c41Note}
	}

	// ---- sender ----
	for si, s := range c.Streams {
		t0 := time.Now()
		if !s.encode(rng.Rand) {
			r.Inconclusive("encoder stalled (watchdog)")
			return
		}
		c41Since(&cx.tEnc, t0)
		s.prepare()
		for k, p := range s.exp {
			c.index[string(p.b)] = c41Ref{si, k}
		}
		for _, p := range s.Pkts {
			switch {
			case !p.Valid:
				r.Event("tx_invalid_packet_offered")
			case p.Accepted:
				r.Event("tx_valid_packet_accepted")
			}
		}
		r.EventN("tx_ring_full_drop", int64(s.refuseDrp))
		r.EventN("tx_ring_full_retry", int64(s.refuseTry))
		r.EventN("tx_frame", int64(len(s.frames)))
		if len(s.Notes) > 0 {
			r.Event("frame_header_deviation_noted")
		}
		// The payload byte stream of the frames must be exactly the accepted
		// valid packets, back to back: nothing invalid, nothing lost, nothing
		// added on the sending side.
		var got, want []byte
		for _, f := range s.frames {
			if len(f) > dataplane.VerifHdrLen {
				got = append(got, f[dataplane.VerifHdrLen:]...)
			}
		}
		for _, p := range s.exp {
			want = append(want, p.b...)
		}
		r.Eval(1)
		if !bytes.Equal(got, want) {
			key, detail := "C41:sender:payload-stream", fmt.Sprintf("frame payloads (%d bytes) differ from the accepted valid packets (%d bytes)", len(got), len(want))
			for _, p := range s.Pkts {
				if !p.Valid && len(p.b) >= 20 && bytes.Contains(got, p.b) {
					key, detail = "C41:sender:invalid-encapsulated", fmt.Sprintf("an %s packet of %d bytes was encapsulated", p.Kind, len(p.b))
					break
				}
			}
			d := 0
			for d < len(got) && d < len(want) && got[d] == want[d] {
				d++
			}
			r.Violation(key, fmt.Sprintf("stream %d mtu %d: %s; first difference at stream offset %d", si, s.MTU, detail, d), wit("sender", "", "", detail, nil, nil))
		}
	}

	// ---- lossless: each stream alone, frames in order ----
	for si, s := range c.Streams {
		rx := "direct"
		if rng.IntN(3) == 0 {
			rx = "run"
		}
		sched := make([]c41Delivery, len(s.frames))
		for f := range sched {
			sched[f] = c41Delivery{si, f}
		}
		// The worker's periodic clean-up may run between any two frames of a
		// stream that keeps receiving frames (never twice without a frame in
		// between: two ticks without traffic legitimately expire a parked fragment).
		var ticks map[int]int
		if rx == "direct" && rng.IntN(2) == 0 {
			ticks = map[int]int{}
			dens := 1 + rng.IntN(3)
			for f := range sched {
				if rng.IntN(dens) == 0 {
					ticks[f] = 1
				}
			}
			r.Event("lossless_with_cleanup_ticks")
		}
		out, miss := cx.receive(c.Streams[si:si+1], c41Rebase(sched, si), rx, ticks)
		if miss > 0 {
			r.Inconclusive("frame buffer pool empty")
			continue
		}
		cx.judgeLossless(c, []int{si}, out, "lossless", rx, sched, wit)
		maxSpan := s.maxSpan
		vers := map[string]bool{}
		inv := false
		for _, p := range s.Pkts {
			if p.Valid {
				vers[p.Kind] = true
			} else {
				inv = true
			}
		}
		spanC := "1"
		switch {
		case maxSpan > dataplane.VerifReassemblyListCap:
			spanC = ">100"
		case maxSpan > 10:
			spanC = "11-100"
		case maxSpan > 2:
			spanC = "3-10"
		case maxSpan == 2:
			spanC = "2"
		}
		r.Class(fmt.Sprintf("lossless/mtu=%s/tx=%s/rx=%s/max-frames-per-pkt=%s/multi-pkt-frames=%v/invalid-mixed=%v/v4=%v/v6=%v",
			c41MTUBucket(s.MTU), s.TxMode, rx, spanC, s.multiPkt, inv, vers["v4"], vers["v6"]))
		if r.WantSample() && idx%7 == 3 && len(s.Pkts) <= 12 && len(s.frames) <= 40 {
			r.Sample(map[string]any{"phase": "lossless", "stream": s, "emitted": len(out)})
		}
	}
	all := make([]int, nStreams)
	for i := range all {
		all[i] = i
	}
	// ---- lossless: several streams interleaved, each in order ----
	if nStreams > 1 {
		sched := c41Interleave(rng.Rand, c.Streams)
		out, miss := cx.receive(c.Streams, sched, "direct", nil)
		if miss > 0 {
			r.Inconclusive("frame buffer pool empty")
		} else {
			cx.judgeLossless(c, all, out, "lossless-interleaved", "direct", sched, wit)
			r.Class(fmt.Sprintf("lossless-interleaved/streams=%d", nStreams))
		}
	}

	// ---- faults ----
	nFrames := 0
	for _, s := range c.Streams {
		nFrames += len(s.frames)
	}
	faultRuns := 2
	if nFrames > 500 {
		faultRuns = 1
	}
	for run := 0; run < faultRuns; run++ {
		profile := c41Profiles[rng.IntN(len(c41Profiles))]
		base := c41Interleave(rng.Rand, c.Streams)
		sched, st := c41Faults(rng.Rand, base, profile)
		rx := "direct"
		cleanups := map[int]int{}
		switch rng.IntN(4) {
		case 0:
			rx = "run"
		case 1:
			for k := 1 + rng.IntN(4); k > 0 && len(sched) > 0; k-- {
				cleanups[rng.IntN(len(sched))] = 1 + rng.IntN(2)
			}
		}
		out, miss := cx.receive(c.Streams, sched, rx, cleanups)
		r.Eval(1)
		r.Event("fault_run")
		r.EventN("fault_frame_dropped", int64(st.drop))
		r.EventN("fault_frame_duplicated", int64(st.dup))
		r.EventN("fault_frame_displaced", int64(st.moved))
		r.EventN("fault_pool_empty_drop", int64(miss))
		if len(cleanups) > 0 {
			r.Event("fault_worker_cleanup")
		}
		seen := map[c41Ref]int{}
		for _, o := range out {
			ref, ok := c.index[string(o)]
			if !ok {
				r.Event("rx_fault_corrupt_packet")
				r.Violation("C41:fault:emitted-unsent-packet",
					fmt.Sprintf("under %s faults the receiver emitted a %d-byte packet that is not byte-identical to any packet sent", profile, len(o)),
					wit("fault", rx, profile, "emitted packet is not in the sent set", o, sched))
				continue
			}
			seen[ref]++
		}
		total, dupDeliv := 0, 0
		for _, s := range c.Streams {
			total += len(s.exp)
		}
		for _, n := range seen {
			dupDeliv += n - 1
		}
		r.EventN("rx_fault_packet_intact", int64(len(out)))
		r.EventN("rx_fault_packet_not_delivered", int64(total-len(seen)))
		r.EventN("rx_fault_packet_delivered_again", int64(dupDeliv))
		deliv := "some"
		switch {
		case total == 0:
			deliv = "nothing-sent"
		case len(seen) == total:
			deliv = "all"
		case len(seen) == 0:
			deliv = "none"
		}
		r.Class(fmt.Sprintf("fault/%s/rx=%s/cleanup=%v/streams=%d/delivered=%s/redelivered=%v", profile, rx, len(cleanups) > 0, nStreams, deliv, dupDeliv > 0))
		if r.WantSample() && idx%5 == 2 && len(sched) <= 30 {
			r.Sample(map[string]any{"phase": "fault", "profile": profile, "schedule": sched, "sent": total, "emitted": len(out), "distinct": len(seen)})
		}
	}
}

// c41Rebase maps a schedule over the whole case to one over a single stream.
func c41Rebase(sched []c41Delivery, si int) []c41Delivery {
	out := make([]c41Delivery, len(sched))
	for i, d := range sched {
		out[i] = c41Delivery{0, d.F}
	}
	return out
}

// judgeLossless: frames of the given streams were delivered in order without
// loss; per stream the emitted packets must be exactly the accepted valid
// packets, in order.
func (cx *c41Ctx) judgeLossless(c *c41Case, streams []int, out [][]byte, phase, rx string, sched []c41Delivery,
	wit func(phase, rx, profile, detail string, pkt []byte, sched []c41Delivery) c41Witness) {
	r := cx.r
	next := map[int]int{}
	missing := func(si, k int) {
		s := c.Streams[si]
		p := s.exp[k]
		r.Event("rx_lossless_packet_missing")
		if s.span[k] > dataplane.VerifReassemblyListCap {
			r.Violation("C41:lossless:lost-packet-spanning-over-100-frames",
				fmt.Sprintf("%s packet of %d bytes sent with frame size %d (spans %d frames, delivered in order without loss) was never emitted by the receiver", p.Kind, len(p.b), s.MTU, s.span[k]),
				wit(phase, rx, "", fmt.Sprintf("stream %d: accepted valid packet #%d missing from the output", si, k), p.b, nil))
			return
		}
		r.Violation("C41:lossless:lost-packet",
			fmt.Sprintf("%s packet of %d bytes sent with frame size %d (spans %d frames, delivered in order without loss) was never emitted by the receiver", p.Kind, len(p.b), s.MTU, s.span[k]),
			wit(phase, rx, "", fmt.Sprintf("stream %d: accepted valid packet #%d missing from the output", si, k), p.b, sched))
	}
	for _, o := range out {
		ref, ok := c.index[string(o)]
		if !ok {
			r.Violation("C41:lossless:emitted-unsent-packet",
				fmt.Sprintf("the receiver emitted a %d-byte packet that is not byte-identical to any accepted packet", len(o)),
				wit(phase, rx, "", "emitted packet is not in the sent set", o, sched))
			continue
		}
		if len(streams) == 1 && ref.s != streams[0] {
			ref.s = streams[0] // cannot happen: ids are unique per case
		}
		if ref.k < next[ref.s] {
			r.Violation("C41:lossless:order-or-duplicate",
				fmt.Sprintf("stream %d: packet #%d emitted after packet #%d had already been emitted", ref.s, ref.k, next[ref.s]-1),
				wit(phase, rx, "", "out of order or duplicated", o, sched))
			continue
		}
		for k := next[ref.s]; k < ref.k; k++ {
			missing(ref.s, k)
		}
		next[ref.s] = ref.k + 1
		r.Event("rx_lossless_packet_exact")
	}
	for _, si := range streams {
		for k := next[si]; k < len(c.Streams[si].exp); k++ {
			missing(si, k)
		}
		for _, n := range c.Streams[si].span {
			if n > 1 {
				r.Event("rx_lossless_packet_reassembled_from_several_frames")
			}
		}
		r.Eval(1)
		r.Event("lossless_stream")
	}
}

func checkC41(r *mon.Run) {
	r.Level = "fault_enumeration"
	r.Rule = "one case = 1..4 streams (own encoder, distinct stream id, frame size 57..65535 biased to the minimum and to 57..9000, 1..160 packets of " +
		"20..9000 bytes IPv4/IPv6 with unique ids, 0/10/30% invalid packets of 8 kinds, written pre-loaded or concurrently with the frame reader, " +
		"ring-full = retry or drop); evaluations: sender payload stream == accepted valid packets; per stream and interleaved lossless in-order delivery " +
		"to a fresh real worker (processFrame directly or through Run) must emit exactly the accepted valid packets in order; two fault schedules " +
		"(loss, burst loss, dup, reorder, reverse, replay, mixed, heavy; optional worker cleanup) where every emitted packet must be in the sent set; " +
		"class = phase x frame-size bucket x tx/rx mode x frames-per-packet x fault profile x delivery outcome"
	r.Assumptions = []string{
		"a packet is 'valid' iff version nibble is 4/6, the fixed header is present and the IP length field equals its length (the only criteria SIG framing uses)",
		"two encoders never share a stream id; stream ids differ in their low 20 bits",
		"frame-header conformance with doc/sig.rst (index, sequence) is noted in witnesses, not judged separately",
		"in the fault phase only integrity of emitted packets is demanded, not delivery, order or uniqueness",
	}
	if p := os.Getenv("VERIF_CPUPROFILE"); p != "" { // developer aid, no effect on the check
		if f, err := os.Create(p); err == nil && pprof.StartCPUProfile(f) == nil {
			defer pprof.StopCPUProfile()
		}
		defer func() {
			if f, err := os.Create(p + ".allocs"); err == nil {
				_ = pprof.Lookup("allocs").WriteTo(f, 0)
				f.Close()
			}
		}()
	}
	dataplane.VerifInitFramePool()
	cx := &c41Ctx{r: r, pool: &c41Pool{free: dataplane.VerifFreeFramesCap - 24, total: dataplane.VerifFreeFramesCap - 24}}
	cx.pool.c = sync.NewCond(&cx.pool.mu)

	first, total := 0, r.Pick(400, 8000)
	if f := r.ReplayFile(); f != "" {
		var rp struct {
			Witness struct {
				Case struct {
					Index int `json:"index"`
				} `json:"case"`
			} `json:"witness"`
		}
		b, err := os.ReadFile(f)
		if err != nil || json.Unmarshal(b, &rp) != nil {
			fmt.Fprintf(os.Stderr, "C41: cannot read replay file %s\n", f)
			os.Exit(2)
		}
		first, total = rp.Witness.Case.Index, rp.Witness.Case.Index+1
		r.Class("replay")
	}
	var next atomic.Int64
	next.Store(int64(first))
	var wg sync.WaitGroup
	for w := 0; w < min(runtime.GOMAXPROCS(0), 12); w++ {
		wg.Add(1)
		go func() {
			defer wg.Done()
			for {
				i := int(next.Add(1) - 1)
				if i >= total || r.Violations() > 60 {
					return
				}
				cx.runCase(i)
			}
		}()
	}
	wg.Wait()
	sec := func(a *atomic.Int64) float64 { return float64(a.Load()/1e6) / 1e3 }
	r.Extra("phase_seconds_summed_over_workers", map[string]float64{"generate": sec(&cx.tGen), "encode": sec(&cx.tEnc),
		"receive": sec(&cx.tRx), "receive_wait_for_pool_budget": sec(&cx.tRxWait)})
	if r.ReplayFile() != "" {
		r.Require(1, 2, "lossless_stream")
		return
	}
	r.Require(int64(total)*4, 150,
		"lossless_stream", "lossless_with_cleanup_ticks", "fault_run", "tx_valid_packet_accepted", "tx_invalid_packet_offered", "tx_ring_full_drop", "tx_ring_full_retry",
		"rx_lossless_packet_exact", "rx_lossless_packet_reassembled_from_several_frames",
		"fault_frame_dropped", "fault_frame_duplicated", "fault_frame_displaced", "fault_worker_cleanup",
		"rx_fault_packet_intact", "rx_fault_packet_not_delivered", "rx_fault_packet_delivered_again")
}
