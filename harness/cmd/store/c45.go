package main

// C45: the real hidden-path RegistryServer / AuthoritativeServer / Storer over
// the real sqlite path database, judged by the authorization table of
// verif/storeref and the abstract path store of C27.

import (
	"context"
	"encoding/json"
	"errors"
	"fmt"
	"math/rand/v2"
	"net"
	"os"
	"sync"
	"time"
	"verif/monlog"

	"github.com/scionproto/scion/pkg/addr"
	"github.com/scionproto/scion/pkg/experimental/hiddenpath"
	seg "github.com/scionproto/scion/pkg/segment"
	"github.com/scionproto/scion/pkg/snet"
	pathsqlite "github.com/scionproto/scion/private/storage/path/sqlite"

	"verif/mon"
	"verif/storeref"
)

type hpGroupSpec struct {
	ID         uint64   `json:"id"`
	Owner      uint64   `json:"owner"`
	Writers    []uint64 `json:"writers"`
	Readers    []uint64 `json:"readers,omitempty"`
	Registries []uint64 `json:"registries"`
}

type hpSetup struct {
	Local  uint64        `json:"local"`
	Groups []hpGroupSpec `json:"groups"`
	// Unknown is a group id that is not configured.
	Unknown uint64 `json:"unknown_group"`
}

type regSeg struct {
	V     int    `json:"v"`
	Label string `json:"variant"`
	Type  int    `json:"type"`
}

type hpOp struct {
	Kind   string   `json:"op"` // preload, register, request, cleanup, delete
	Segs   []regSeg `json:"segs,omitempty"`
	Group  uint64   `json:"group,omitempty"`
	Groups []uint64 `json:"groups,omitempty"`
	Peer   uint64   `json:"peer,omitempty"`
	Dst    uint64   `json:"dst,omitempty"`
	Now    int64    `json:"now,omitempty"`
	Prefix string   `json:"prefix,omitempty"`
}

func iaSet(l []uint64) map[addr.IA]struct{} {
	m := map[addr.IA]struct{}{}
	for _, x := range l {
		m[addr.IA(x)] = struct{}{}
	}
	return m
}

func refSet(l []uint64) map[storeref.IA]struct{} {
	m := map[storeref.IA]struct{}{}
	for _, x := range l {
		m[storeref.IA(x)] = struct{}{}
	}
	return m
}

func (s hpSetup) real() map[hiddenpath.GroupID]*hiddenpath.Group {
	out := map[hiddenpath.GroupID]*hiddenpath.Group{}
	for _, g := range s.Groups {
		id := hiddenpath.GroupIDFromUint64(g.ID)
		out[id] = &hiddenpath.Group{ID: id, Owner: addr.IA(g.Owner), Writers: iaSet(g.Writers),
			Readers: iaSet(g.Readers), Registries: iaSet(g.Registries)}
	}
	return out
}

func (s hpSetup) table() *storeref.AuthTable {
	t := &storeref.AuthTable{Local: storeref.IA(s.Local), Groups: map[uint64]*storeref.Group{}}
	for _, g := range s.Groups {
		t.Groups[g.ID] = &storeref.Group{ID: g.ID, Owner: storeref.IA(g.Owner), Writers: refSet(g.Writers),
			Readers: refSet(g.Readers), Registries: refSet(g.Registries)}
	}
	return t
}

func u64s(ias []addr.IA) []uint64 {
	out := make([]uint64, len(ias))
	for i, ia := range ias {
		out[i] = uint64(ia)
	}
	return out
}

// genHPSetup: 2-4 groups over a handful of ASes with overlapping membership;
// the local AS is registry of most groups but not all, and may also be owner,
// writer or reader.
func genHPSetup(rng *rand.Rand, ases []addr.IA) hpSetup {
	s := hpSetup{Local: uint64(pick(rng, ases))}
	used := map[uint64]bool{}
	for n := 2 + rng.IntN(3); len(s.Groups) < n; {
		owner := pick(rng, ases)
		id := uint64(owner.AS())<<16 | uint64(1+rng.IntN(3))
		if used[id] {
			continue
		}
		used[id] = true
		g := hpGroupSpec{ID: id, Owner: uint64(owner),
			Writers:    u64s(subset(rng, ases, 1, 3)),
			Readers:    u64s(subset(rng, ases, 0, 2)),
			Registries: u64s(subset(rng, ases, 1, 2)),
		}
		hasLocal := false
		for _, x := range g.Registries {
			hasLocal = hasLocal || x == s.Local
		}
		if !hasLocal && rng.IntN(10) < 6 {
			g.Registries = append(g.Registries, s.Local)
		}
		s.Groups = append(s.Groups, g)
	}
	for {
		s.Unknown = uint64(pick(rng, ases).AS())<<16 | uint64(4+rng.IntN(3))
		if !used[s.Unknown] {
			break
		}
	}
	return s
}

func genHPHistory(rng *rand.Rand, s hpSetup, pool []*variant, ases []addr.IA, nOps int) []hpOp {
	var ops []hpOp
	anyGroup := func() uint64 {
		if rng.IntN(8) == 0 {
			return s.Unknown
		}
		return pick(rng, s.Groups).ID
	}
	// content that is in the database before the servers start: public
	// segments (group 0), segments of other types and of groups unknown here.
	for i, n := 0, rng.IntN(4); i < n; i++ {
		v := rng.IntN(len(pool))
		ops = append(ops, hpOp{Kind: "preload", Segs: []regSeg{{V: v, Label: pool[v].Label, Type: int(pick(rng, segTypes))}},
			Groups: [][]uint64{{0}, {0}, {s.Unknown}, {pick(rng, s.Groups).ID}}[rng.IntN(4)]})
	}
	for len(ops) < nOps {
		switch w := rng.IntN(100); {
		case w < 45:
			op := hpOp{Kind: "register", Group: anyGroup(), Peer: uint64(pick(rng, ases))}
			if rng.IntN(3) != 0 { // favour an actual writer
				if g := pick(rng, s.Groups); op.Group == g.ID || rng.IntN(2) == 0 {
					op.Group = g.ID
					op.Peer = pick(rng, g.Writers)
				}
			}
			nSegs := []int{0, 1, 1, 1, 2, 2, 3}[rng.IntN(7)]
			big := rng.IntN(14) == 0
			if big {
				nSegs = 17 + rng.IntN(40) // large registrations (size limits of batch handling)
			}
			for i, n := 0, nSegs; i < n; i++ {
				v := rng.IntN(len(pool))
				t := seg.TypeDown
				if (!big && rng.IntN(12) == 0) || (big && i == n-1-rng.IntN(3) && rng.IntN(2) == 0) {
					t = pick(rng, []seg.Type{seg.TypeUp, seg.TypeCore})
				}
				op.Segs = append(op.Segs, regSeg{V: v, Label: pool[v].Label, Type: int(t)})
			}
			ops = append(ops, op)
		case w < 92:
			op := hpOp{Kind: "request", Peer: uint64(pick(rng, ases)), Dst: uint64(pick(rng, pool).Ref.Last)}
			if rng.IntN(8) == 0 {
				op.Dst = uint64(pick(rng, ases))
			}
			for i, n := 0, []int{0, 1, 1, 1, 1, 2, 2, 3}[rng.IntN(8)]; i < n; i++ {
				op.Groups = append(op.Groups, anyGroup())
			}
			ops = append(ops, op)
		case w < 96:
			ops = append(ops, hpOp{Kind: "cleanup", Now: expiryTimes(rng, pool)})
		default:
			ops = append(ops, hpOp{Kind: "delete", Prefix: pick(rng, pool).Ref.ID})
		}
	}
	return ops
}

var errScripted = errors.New("scripted verifier: signature does not verify")

// scriptedVerifier rejects a batch iff it contains a segment version the
// generator marked as not verifying.
type scriptedVerifier struct {
	mu    sync.Mutex
	bad   map[string]bool
	calls int
}

func (v *scriptedVerifier) Verify(_ context.Context, segs []*seg.Meta, _ net.Addr) error {
	v.mu.Lock()
	defer v.mu.Unlock()
	v.calls++
	for _, s := range segs {
		if v.bad[fingerprint(s.Segment)] {
			return errScripted
		}
	}
	return nil
}

type hpRun struct {
	rc      recorder
	ctx     context.Context
	db      *pathsqlite.Backend
	reg     hiddenpath.RegistryServer
	auth    hiddenpath.AuthoritativeServer
	table   *storeref.AuthTable
	model   *storeref.PathStore
	pool    []*variant
	reader  bool
	busy    bool
	removed bool
	interrupts int
}

func (h *hpRun) errFail(op string, err error) *failure {
	if h.reader && busyErr(err) {
		h.busy = true
		return nil
	}
	return failf("C45:store:error/"+op, "%s returned an error: %v", op, err)
}

func (h *hpRun) fullCompare(keyCtx, what string) *failure {
	res, err := h.db.GetAll(h.ctx)
	if err != nil {
		return h.errFail("get-all", err)
	}
	h.rc.eval()
	kind, detail, _ := comparePath(pathResultsOf(res), h.model.Get(storeref.PathQuery{}), nil)
	if kind != "" {
		return failf("C45:"+keyCtx+":"+kind, "%s: segment store differs from the abstract store: %s", what, detail)
	}
	return nil
}

func toGroupIDs(l []uint64) []hiddenpath.GroupID {
	var out []hiddenpath.GroupID
	for _, g := range l {
		out = append(out, hiddenpath.GroupIDFromUint64(g))
	}
	return out
}

func (h *hpRun) exec(op hpOp) *failure {
	switch op.Kind {
	case "preload":
		v := h.pool[op.Segs[0].V]
		if _, err := h.db.InsertWithHPGroupIDs(h.ctx, &seg.Meta{Segment: v.PS, Type: seg.Type(op.Segs[0].Type)}, op.Groups); err != nil {
			return h.errFail("preload", err)
		}
		h.model.Insert(v.Ref, op.Segs[0].Type, op.Groups)
		return h.fullCompare("store:after-preload", "preload")
	case "register":
		allDown, verifies := true, true
		var metas []*seg.Meta
		for _, s := range op.Segs {
			v := h.pool[s.V]
			allDown = allDown && seg.Type(s.Type) == seg.TypeDown
			verifies = verifies && !v.BadSig
			metas = append(metas, &seg.Meta{Segment: v.PS, Type: seg.Type(s.Type)})
		}
		ok, reason := h.table.MayRegister(op.Group, storeref.IA(op.Peer), allDown, verifies)
		err := h.reg.Register(h.ctx, hiddenpath.Registration{Segments: metas, GroupID: hiddenpath.GroupIDFromUint64(op.Group),
			Peer: &snet.SVCAddr{IA: addr.IA(op.Peer), SVC: addr.SvcCS}})
		if err != nil && h.reader && busyErr(err) {
			h.busy = true
			return nil
		}
		h.rc.eval()
		h.rc.event("register_" + reason)
		keyCtx := "register:rejected/" + reason
		if ok {
			keyCtx = "register:accepted"
			for _, s := range op.Segs {
				v := h.pool[s.V]
				var stored *storeref.Seg
				second := false
				if e := h.model.Entry(v.Ref.ID); e != nil {
					x := e.Seg
					stored = &x
					_, has := e.Groups[op.Group]
					second = !has
				}
				rel := relation(stored, v.Ref)
				if rel == "new" && h.removed {
					keyCtx = "register:accepted/new-after-removal"
				}
				out := h.model.Insert(v.Ref, s.Type, []uint64{op.Group})
				// an equal-version re-registration under a second group is decided
				// by the store's versioning (C27): observed, judged per the model.
				h.rc.class("reg/accepted/%s/%s/other-group=%v", rel, out, second)
				if (rel == "same" || rel == "equal") && second {
					h.rc.event("register_equal_version_second_group")
				}
			}
			h.rc.class("reg/accepted/segments=%s", bucket(len(op.Segs)))
		} else {
			h.rc.class("reg/rejected/%s/segments=%s/error=%v", reason, bucket(len(op.Segs)), err != nil)
		}
		if ok && err != nil {
			return failf("C45:register:refused-authorized", "registration by writer %x for group %x refused: %v", op.Peer, op.Group, err)
		}
		return h.fullCompare(keyCtx, fmt.Sprintf("after registration (expected %s)", reason))
	case "request":
		segs, err := h.auth.Segments(h.ctx, hiddenpath.SegmentRequest{GroupIDs: toGroupIDs(op.Groups),
			DstIA: addr.IA(op.Dst), Peer: addr.IA(op.Peer)})
		if err != nil && h.reader && busyErr(err) {
			h.busy = true
			return nil
		}
		answered := err == nil
		if len(op.Groups) == 0 {
			// "every requested group ..." is vacuous; whether such a request is
			// answered is not decided by the statement.
			h.rc.class("req/no-groups/answered=%v", answered)
			return nil
		}
		ok, reason := h.table.MayRead(op.Groups, storeref.IA(op.Peer))
		h.rc.eval()
		h.rc.event("request_" + reason)
		if !ok {
			h.rc.class("req/refused/%s/groups=%s", reason, bucket(len(op.Groups)))
			if answered {
				return failf("C45:request:answered-unauthorized/"+reason, "request by %x for groups %x answered with %d segments; expected refusal (%s)",
					op.Peer, op.Groups, len(segs), reason)
			}
			return nil
		}
		if !answered {
			return failf("C45:request:refused-authorized", "request by %x for groups %x refused: %v", op.Peer, op.Groups, err)
		}
		want := h.model.Get(storeref.PathQuery{Groups: op.Groups, EndsAt: []storeref.IA{storeref.IA(op.Dst)}})
		got := make([]storeref.PathResult, 0, len(segs))
		for _, m := range segs {
			got = append(got, storeref.PathResult{ID: idOf(m.Segment), Type: int(m.Type), Content: fingerprint(m.Segment)})
		}
		role := storeref.Role(h.table.Groups[op.Groups[0]], storeref.IA(op.Peer))
		h.rc.class("req/answered/role=%s/groups=%s/result=%s", role, bucket(len(op.Groups)), bucket(len(want)))
		kind, detail, id := comparePath(got, want, nil, true)
		if kind == "" {
			// The same request again, with a context that is cancelled while the
			// lookup is under way: it may fail, but an answer given without error
			// must be the complete one.
			if len(want) >= 1 && !h.reader {
				h.interrupts++
				ictx := newPollCtx(h.ctx, int(h.interrupts*5)%23)
				segs2, err2 := h.auth.Segments(ictx, hiddenpath.SegmentRequest{GroupIDs: toGroupIDs(op.Groups),
					DstIA: addr.IA(op.Dst), Peer: addr.IA(op.Peer)})
				h.rc.eval()
				if err2 != nil {
					h.rc.event("request_interrupted_error")
					h.rc.class("req/interrupted/error/result=%s", bucket(len(want)))
					return nil
				}
				h.rc.event("request_interrupted_answered")
				h.rc.class("req/interrupted/answered/result=%s", bucket(len(want)))
				got2 := make([]storeref.PathResult, 0, len(segs2))
				for _, m := range segs2 {
					got2 = append(got2, storeref.PathResult{ID: idOf(m.Segment), Type: int(m.Type), Content: fingerprint(m.Segment)})
				}
				if k2, d2, _ := comparePath(got2, want, nil, true); k2 != "" {
					return failf("C45:request:interrupted:"+k2, "request by %x for groups %x to %x with a context cancelled during the lookup was answered without error, but: %s",
						op.Peer, op.Groups, op.Dst, d2)
				}
			}
			return nil
		}
		why := ""
		if kind == "extra-segment" {
			switch e := h.model.Entry(id); {
			case e == nil:
				why = "/not-stored"
			case e.Seg.Last != storeref.IA(op.Dst):
				why = "/other-destination"
			default:
				why = "/other-group"
			}
		}
		return failf("C45:request:result:"+kind+why, "request by %x for groups %x to %x: %s", op.Peer, op.Groups, op.Dst, detail)
	case "cleanup":
		if _, err := h.db.DeleteExpired(h.ctx, time.Unix(op.Now, 0)); err != nil {
			return h.errFail("cleanup", err)
		}
		n, unspec := h.model.DeleteExpired(op.Now * 1e9)
		res, err := h.db.GetAll(h.ctx)
		if err != nil {
			return h.errFail("get-all", err)
		}
		present := map[string]bool{}
		for _, x := range res {
			present[idOf(x.Seg)] = true
		}
		for _, id := range unspec {
			if !present[id] {
				h.model.Remove(id)
				n++
			}
		}
		h.removed = h.removed || n > 0
		h.rc.class("store/cleanup/removed=%s", bucket(n))
		return h.fullCompare("store:after-cleanup", "after expiry clean-up")
	case "delete":
		if err := h.db.DeleteSegment(h.ctx, op.Prefix); err != nil {
			return h.errFail("delete", err)
		}
		n := h.model.Delete(op.Prefix)
		h.removed = h.removed || n > 0
		h.rc.class("store/delete/removed=%s", bucket(n))
		return h.fullCompare("store:after-delete", "after segment deletion")
	}
	panic("unknown op " + op.Kind)
}

func runHPHistory(r *mon.Run, s hpSetup, pool []*variant, ops []hpOp, mode dbMode, record bool) (f *failure, abandoned bool) {
	name, cfg, cleanup := mode.open("hp")
	defer cleanup()
	backend, err := pathsqlite.New(name, cfg)
	if err != nil {
		fmt.Fprintf(os.Stderr, "store: cannot open path db: %v\n", err)
		os.Exit(2)
	}
	// No deadline: with a cancellable context the sqlite driver starts a
	// goroutine per row; hangs are the driver script's watchdog's business.
	ctx := monlog.Alternate() // log level is a configuration dimension
	ver := &scriptedVerifier{bad: map[string]bool{}}
	for _, v := range pool {
		if v.BadSig {
			ver.bad[v.Ref.Content] = true
		}
	}
	groups := s.real()
	store := &hiddenpath.Storer{DB: backend}
	h := &hpRun{rc: recorder{r, record}, ctx: ctx, db: backend,
		reg:   hiddenpath.RegistryServer{Groups: groups, DB: store, Verifier: ver, LocalIA: addr.IA(s.Local)},
		auth:  hiddenpath.AuthoritativeServer{Groups: groups, DB: store, LocalIA: addr.IA(s.Local)},
		table: s.table(), model: storeref.NewPathStore(), pool: pool, reader: mode.reader}
	var wg sync.WaitGroup
	stop := make(chan struct{})
	// the reader performs a bounded number of reads per judged operation
	// (concurrently with it) instead of spinning on the database
	tick := make(chan struct{}, 4)
	if mode.reader {
		wg.Add(1)
		go func() { // unjudged concurrent requester, for the race detector only
			defer wg.Done()
			rrng := rand.New(rand.NewPCG(11, uint64(len(ops))))
			n := 0
			for {
				select {
				case <-stop:
					if record {
						r.EventN("concurrent_requests", int64(n))
					}
					return
				case <-tick:
				}
				g := pick(rrng, s.Groups)
				_, _ = h.auth.Segments(ctx, hiddenpath.SegmentRequest{GroupIDs: toGroupIDs([]uint64{g.ID}),
					DstIA: addr.IA(pick(rrng, pool).Ref.Last), Peer: addr.IA(pick(rrng, g.Writers))})
				n++
			}
		}()
	}
	for i, op := range ops {
		for k := 0; k < 2 && mode.reader; k++ {
			select {
			case tick <- struct{}{}:
			default:
			}
		}
		var fl *failure
		if p, stack := mon.Try(func() { fl = h.exec(op) }); p != nil {
			fl = failf("C45:panic:"+mon.PanicSite(stack), "panic in %s: %v\n%s", op.Kind, p, stack)
		}
		if fl != nil {
			fl.At = i
			f = fl
			break
		}
		if h.busy {
			abandoned = true
			break
		}
	}
	close(stop)
	wg.Wait()
	_ = backend.Close()
	return f, abandoned
}

func oneHPHistory(r *mon.Run, i int, dir string) {
	rng := r.Rand(fmt.Sprintf("c45/%d", i))
	ases := pickASes(rng, 4+rng.IntN(2))
	setup := genHPSetup(rng, ases)
	pool := genPool(rng, poolOpts{shapes: 4 + rng.IntN(3), variants: 3, ases: ases, maxIf: 3,
		lastFixed: subset(rng, ases, 2, 3)})
	for _, v := range pool {
		v.BadSig = rng.IntN(8) == 0
	}
	ops := genHPHistory(rng, setup, pool, ases, 22+rng.IntN(14))
	mode := modeFor(i, dir)
	f, abandoned := runHPHistory(r, setup, pool, ops, mode, true)
	r.Event("history_" + mode.String())
	if abandoned {
		r.Inconclusive("sqlite-busy-with-concurrent-reader")
	}
	if r.WantSample() && i%61 == 2 {
		r.Sample(map[string]any{"history": i, "mode": mode.String(), "setup": setup, "ops": ops[:min(8, len(ops))]})
	}
	if f == nil {
		return
	}
	quiet := dbMode{file: mode.file, dir: mode.dir}
	reportMu.Lock()
	defer reportMu.Unlock()
	small := ops[:f.At+1]
	if wantShrink(f.Key) {
		small = shrink(ops, f.At, f.Key, func(c []hpOp) *failure {
			ff, _ := runHPHistory(r, setup, pool, c, quiet, false)
			return ff
		})
	}
	var idx []int
	for _, op := range small {
		for _, s := range op.Segs {
			idx = append(idx, s.V)
		}
	}
	r.Violation(f.Key, f.What, map[string]any{"history": i, "mode": mode.String(), "setup": setup, "ops": small,
		"variants": usedVariants(pool, idx), "failed_at_op": len(small) - 1,
		"note": "history shrunk from the generated one; re-run with --replay to regenerate history " + fmt.Sprint(i)})
}

func checkC45(r *mon.Run) {
	r.Rule = "per history: 2-4 hidden-path groups over 4-5 ASes with overlapping owner/writer/reader/registry sets and the " +
		"local AS in varying roles; a pool of 4-6 segment ids x 3 versions (1 in 8 versions does not verify); 22-36 operations: " +
		"preloaded public/foreign segments, registrations (0-3 segments, mostly down, any peer, known/unknown group), " +
		"requests (1-3 groups, any peer, destination), expiry clean-up and deletion on the store; real RegistryServer, " +
		"AuthoritativeServer and Storer over a fresh raw sqlite path DB; after every registration the full store content, after " +
		"every request the answer/refusal and the returned set are compared with verif/storeref; " +
		"class = operation/outcome-or-reason/role/size"
	r.Assumptions = []string{
		"the Verifier is scripted by the generator (signature checking itself is C24's subject)",
		"requests name an exact destination ISD-AS; requests with an empty group list are observed, not judged",
		"'stored' is what the abstract path store of C27 says: an equal or older version re-registered under another group is ignored (observed as class other-group=true, judged per the model)",
		"both directions are judged: unauthorized => refused/not stored, authorized => answered/stored (distinct keys ...refused-authorized)",
	}
	dir := scratchDir()
	defer os.RemoveAll(dir)

	if rp := r.ReplayFile(); rp != "" {
		var w struct {
			Seed    int64 `json:"seed"`
			Witness struct {
				History int `json:"history"`
			} `json:"witness"`
		}
		b, err := os.ReadFile(rp)
		if err != nil || json.Unmarshal(b, &w) != nil {
			fmt.Fprintln(os.Stderr, "store: cannot read replay file")
			os.Exit(2)
		}
		r.Seed = w.Seed
		oneHPHistory(r, w.Witness.History, dir)
		r.Sample(map[string]any{"replayed": rp})
		r.Class("replay")
		r.Class("replay/hp")
		return
	}

	n := devLimit(r.Pick(600, 16000))
	parallel(n, workers(), func(i int) { oneHPHistory(r, i, dir) })

	r.Require(int64(n)*15, 45, "request_interrupted_error", "request_interrupted_answered",
		"register_ok", "register_unknown-group", "register_not-writer", "register_not-registry", "register_not-down",
		"register_not-verified", "register_equal_version_second_group",
		"request_ok", "request_unknown-group", "request_not-member", "request_not-authoritative",
		"history_memory", "history_file", "history_file+reader", "concurrent_requests")
	var roles []string
	for _, role := range []string{"owner", "writer", "reader", "registry"} {
		for _, res := range []string{"0", "1"} {
			roles = append(roles, fmt.Sprintf("req/answered/role=%s/groups=1/result=%s", role, res))
		}
	}
	r.RequireClasses(roles...)
}
