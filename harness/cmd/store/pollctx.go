package main

import (
	"context"
	"sync/atomic"
	"time"
)

// pollCtx is a deterministic context: it reports "cancelled" from the n-th
// poll (call of Done or Err) on. It makes "the request context is cancelled
// while the query is running" a schedulable event without any wall clock.
type pollCtx struct {
	parent context.Context
	n      int64
	polls  atomic.Int64
	closed chan struct{}
	open   chan struct{}
}

func newPollCtx(parent context.Context, n int) *pollCtx {
	c := &pollCtx{parent: parent, n: int64(n), closed: make(chan struct{}), open: make(chan struct{})}
	close(c.closed)
	return c
}

func (c *pollCtx) done() bool { return c.polls.Add(1) > c.n }

func (c *pollCtx) Deadline() (time.Time, bool) { return time.Time{}, false }
func (c *pollCtx) Done() <-chan struct{} {
	if c.done() {
		return c.closed
	}
	return c.open
}
func (c *pollCtx) Err() error {
	if c.polls.Load() > c.n {
		return context.Canceled
	}
	return nil
}
func (c *pollCtx) Value(k any) any { return c.parent.Value(k) }
