// Command store serves the storage properties: C27 (beacon and path databases
// behave like their abstract stores) and C45 (hidden segments are registered
// only by writers and served only to members). Built with the race detector.
package main

import "verif/mon"

func main() {
	mon.Main(map[string]func(*mon.Run){
		"C27": checkC27,
		"C45": checkC45,
	})
}
