package main

// C27: the sqlite beacon and path-segment databases behave like the abstract
// stores of verif/storeref under sequential operation histories over small
// pools of overlapping segments.

import (
	"context"
	"crypto/sha256"
	"encoding/binary"
	"encoding/json"
	"fmt"
	"math/rand/v2"
	"os"
	"path/filepath"
	"runtime"
	"sort"
	"strings"
	"sync"
	"sync/atomic"
	"time"
	"verif/monlog"

	"github.com/scionproto/scion/control/beacon"
	"github.com/scionproto/scion/pkg/addr"
	seg "github.com/scionproto/scion/pkg/segment"
	"github.com/scionproto/scion/pkg/segment/iface"
	"github.com/scionproto/scion/private/pathdb"
	"github.com/scionproto/scion/private/pathdb/query"
	storagebeacon "github.com/scionproto/scion/private/storage/beacon"
	beaconsqlite "github.com/scionproto/scion/private/storage/beacon/sqlite"
	"github.com/scionproto/scion/private/storage/db"
	pathsqlite "github.com/scionproto/scion/private/storage/path/sqlite"

	"verif/mon"
	"verif/storeref"
)

type failure struct {
	Key  string `json:"key"`
	What string `json:"what"`
	At   int    `json:"at"`
}

func failf(key, format string, a ...any) *failure {
	return &failure{Key: key, What: fmt.Sprintf(format, a...)}
}

var dbCounter atomic.Int64

var hpGroups = []uint64{0, 0xff00_0000_0110<<16 | 1, 0x2a<<16 | 7, 0xffff_ffff_ffff_ffff}

var segTypes = []seg.Type{seg.TypeUp, seg.TypeDown, seg.TypeCore}

func busyErr(err error) bool {
	s := strings.ToLower(err.Error())
	return strings.Contains(s, "locked") || strings.Contains(s, "busy")
}

// idOf recomputes the segment identifier of a returned segment from its hops.
func idOf(ps *seg.PathSegment) string {
	h := sha256.New()
	var b [12]byte
	for _, e := range ps.ASEntries {
		binary.BigEndian.PutUint64(b[0:], uint64(e.Local))
		binary.BigEndian.PutUint16(b[8:], e.HopEntry.HopField.ConsIngress)
		binary.BigEndian.PutUint16(b[10:], e.HopEntry.HopField.ConsEgress)
		h.Write(b[:])
	}
	return hexUp(h.Sum(nil))
}

func short(id string) string {
	if len(id) > 10 {
		return id[:10]
	}
	return id
}

func bucket(n int) string {
	switch {
	case n == 0:
		return "0"
	case n == 1:
		return "1"
	}
	return "2+"
}

// relation of an incoming version to the model's stored one.
func relation(stored *storeref.Seg, in storeref.Seg) string {
	switch {
	case stored == nil:
		return "new"
	case in.Version > stored.Version:
		return "newer"
	case in.Version == stored.Version:
		if in.Content == stored.Content {
			return "same"
		}
		return "equal"
	}
	return "older"
}

// ---------------------------------------------------------------------------
// path database

type pquery struct {
	SegIDs   []int            `json:"seg_ids,omitempty"` // variant index, -1 = unknown id
	Types    []int            `json:"types,omitempty"`
	Groups   []uint64         `json:"groups,omitempty"`
	Ifaces   []storeref.Iface `json:"ifaces,omitempty"`
	StartsAt []uint64         `json:"starts_at,omitempty"`
	EndsAt   []uint64         `json:"ends_at,omitempty"`
}

var unknownID = func() []byte {
	b := make([]byte, 32)
	for i := range b {
		b[i] = 0xEE
	}
	return b
}()

func (q *pquery) filters() []string {
	var f []string
	if len(q.SegIDs) > 0 {
		f = append(f, "ids")
	}
	if len(q.Types) > 0 {
		f = append(f, "types")
	}
	if len(q.Groups) > 0 {
		f = append(f, "groups")
	}
	if len(q.Ifaces) > 0 {
		f = append(f, "ifaces")
	}
	if len(q.StartsAt) > 0 {
		f = append(f, "starts")
	}
	if len(q.EndsAt) > 0 {
		f = append(f, "ends")
	}
	return f
}

func (q *pquery) only(f string) *pquery {
	switch f {
	case "ids":
		return &pquery{SegIDs: q.SegIDs}
	case "types":
		return &pquery{Types: q.Types}
	case "groups":
		return &pquery{Groups: q.Groups}
	case "ifaces":
		return &pquery{Ifaces: q.Ifaces}
	case "starts":
		return &pquery{StartsAt: q.StartsAt}
	case "ends":
		return &pquery{EndsAt: q.EndsAt}
	}
	return &pquery{}
}

func (q *pquery) params(pool []*variant) *query.Params {
	p := &query.Params{HPGroupIDs: q.Groups}
	for _, i := range q.SegIDs {
		if i < 0 {
			p.SegIDs = append(p.SegIDs, unknownID)
		} else {
			p.SegIDs = append(p.SegIDs, pool[i].IDRaw)
		}
	}
	for _, t := range q.Types {
		p.SegTypes = append(p.SegTypes, seg.Type(t))
	}
	for _, i := range q.Ifaces {
		p.Intfs = append(p.Intfs, &query.IntfSpec{IA: addr.IA(i.IA), IfID: iface.ID(i.ID)})
	}
	for _, ia := range q.StartsAt {
		p.StartsAt = append(p.StartsAt, addr.IA(ia))
	}
	for _, ia := range q.EndsAt {
		p.EndsAt = append(p.EndsAt, addr.IA(ia))
	}
	return p
}

func (q *pquery) model(pool []*variant) storeref.PathQuery {
	m := storeref.PathQuery{Types: q.Types, Groups: q.Groups, Ifaces: q.Ifaces}
	for _, i := range q.SegIDs {
		if i < 0 {
			m.SegIDs = append(m.SegIDs, hexUp(unknownID))
		} else {
			m.SegIDs = append(m.SegIDs, pool[i].Ref.ID)
		}
	}
	for _, ia := range q.StartsAt {
		m.StartsAt = append(m.StartsAt, storeref.IA(ia))
	}
	for _, ia := range q.EndsAt {
		m.EndsAt = append(m.EndsAt, storeref.IA(ia))
	}
	return m
}

type pathOp struct {
	Kind   string   `json:"op"`
	V      int      `json:"v"`
	Label  string   `json:"variant,omitempty"`
	Type   int      `json:"type,omitempty"`
	Groups []uint64 `json:"groups,omitempty"`
	Prefix string   `json:"prefix,omitempty"`
	Now    int64    `json:"now,omitempty"`
	Q      *pquery  `json:"query,omitempty"`
	Src    uint64   `json:"src,omitempty"`
	Dst    uint64   `json:"dst,omitempty"`
	T      int64    `json:"t,omitempty"`
}

func pick[T any](rng *rand.Rand, s []T) T { return s[rng.IntN(len(s))] }

func subset[T any](rng *rand.Rand, s []T, minN, maxN int) []T {
	n := minN + rng.IntN(maxN-minN+1)
	p := rng.Perm(len(s))
	var out []T
	for _, i := range p {
		if len(out) == n {
			break
		}
		out = append(out, s[i])
	}
	return out
}

func iaPatterns(rng *rand.Rand, pool []*variant, last bool, n int) []uint64 {
	var out []uint64
	for i := 0; i < n; i++ {
		v := pick(rng, pool)
		ia := v.Ref.First
		if last {
			ia = v.Ref.Last
		}
		switch rng.IntN(6) {
		case 0: // ISD wildcard
			out = append(out, uint64(ia.ISD())<<48)
		case 1: // some AS that may or may not occur
			out = append(out, uint64(pick(rng, allASes)))
		default:
			out = append(out, uint64(ia))
		}
	}
	return out
}

func expiryTimes(rng *rand.Rand, pool []*variant) int64 {
	switch rng.IntN(8) {
	case 0:
		return baseTS - 1000
	case 1:
		return baseTS + 200_000
	}
	v := pick(rng, pool)
	base := []int64{v.Ref.MinExpiry, v.Ref.MaxExpiry, v.Ref.InfoTS}[rng.IntN(3)]
	return base/1e9 + int64(rng.IntN(4)) - 1
}

func genPathQuery(rng *rand.Rand, pool []*variant) *pquery {
	q := &pquery{}
	mask := rng.IntN(64)
	if rng.IntN(3) == 0 { // favour single filters
		mask = 1 << rng.IntN(6)
	}
	if mask&1 != 0 {
		for i, n := 0, 1+rng.IntN(2); i < n; i++ {
			if rng.IntN(6) == 0 {
				q.SegIDs = append(q.SegIDs, -1)
			} else {
				q.SegIDs = append(q.SegIDs, rng.IntN(len(pool)))
			}
		}
	}
	if mask&2 != 0 {
		for _, t := range subset(rng, segTypes, 1, 2) {
			q.Types = append(q.Types, int(t))
		}
	}
	if mask&4 != 0 {
		q.Groups = subset(rng, hpGroups, 1, 2)
	}
	if mask&8 != 0 {
		for i, n := 0, 1+rng.IntN(2); i < n; i++ {
			v := pick(rng, pool)
			if rng.IntN(5) == 0 || len(v.Ref.Ifaces) == 0 {
				q.Ifaces = append(q.Ifaces, storeref.Iface{IA: storeref.IA(pick(rng, allASes)), ID: uint64(1 + rng.IntN(4))})
			} else {
				q.Ifaces = append(q.Ifaces, pick(rng, v.Ref.Ifaces))
			}
		}
	}
	if mask&16 != 0 {
		q.StartsAt = iaPatterns(rng, pool, false, 1+rng.IntN(2))
	}
	if mask&32 != 0 {
		q.EndsAt = iaPatterns(rng, pool, true, 1+rng.IntN(2))
	}
	return q
}

func genPathHistory(rng *rand.Rand, pool []*variant, nOps int) []pathOp {
	var ops []pathOp
	inTx := false
	// next-query pairs over a small pool whose members share ISD or AS number
	// (incl. the ISD wildcard form I-0), so that rows differing in one key column
	// only are frequent
	nqAS := []addr.AS{0, 64496, 0xff00_0000_0110, 0xff00_0000_0133}
	a1, a2 := nqAS[rng.IntN(len(nqAS))], nqAS[rng.IntN(len(nqAS))]
	nqIA := []addr.IA{addr.MustIAFrom(1, a1), addr.MustIAFrom(2, a1), addr.MustIAFrom(1, a2), addr.MustIAFrom(2, a2)}
	for len(ops) < nOps {
		var op pathOp
		switch w := rng.IntN(100); {
		case w < 20:
			op = pathOp{Kind: "insert", V: rng.IntN(len(pool)), Type: int(pick(rng, segTypes))}
		case w < 40:
			op = pathOp{Kind: "insert-hp", V: rng.IntN(len(pool)), Type: int(pick(rng, segTypes)),
				Groups: subset(rng, hpGroups, 1, 2)}
		case w < 49:
			id := pick(rng, pool).Ref.ID
			n := []int{1, 2, 4, 8, 64, 64, 64}[rng.IntN(7)]
			p := id[:n]
			if rng.IntN(2) == 0 {
				p = strings.ToLower(p)
			}
			if rng.IntN(10) == 0 {
				p = "0FEDCBA9"
			}
			op = pathOp{Kind: "delete", Prefix: p}
		case w < 58:
			op = pathOp{Kind: "delete-expired", Now: expiryTimes(rng, pool)}
		case w < 82:
			op = pathOp{Kind: "get", Q: genPathQuery(rng, pool)}
		case w < 84:
			op = pathOp{Kind: "get-all"}
		case w < 90:
			op = pathOp{Kind: "nq-insert", Src: uint64(nqIA[rng.IntN(4)]), Dst: uint64(nqIA[rng.IntN(4)]),
				T: baseTS*1e9 + []int64{0, 1, 1e9, -1e9, 5e8, 2e9}[rng.IntN(6)]}
		case w < 94:
			op = pathOp{Kind: "nq-get", Src: uint64(nqIA[rng.IntN(4)]), Dst: uint64(nqIA[rng.IntN(4)])}
		default:
			if !inTx {
				op = pathOp{Kind: "begin"}
				inTx = true
			} else {
				op = pathOp{Kind: pick(rng, []string{"commit", "rollback"})}
				inTx = false
			}
		}
		if op.Kind == "insert" || op.Kind == "insert-hp" {
			op.Label = pool[op.V].Label
		}
		ops = append(ops, op)
	}
	if inTx {
		ops = append(ops, pathOp{Kind: pick(rng, []string{"commit", "rollback"})})
	}
	return ops
}

type recorder struct {
	r  *mon.Run
	on bool
}

func (rc recorder) class(format string, a ...any) {
	if rc.on {
		rc.r.Class(fmt.Sprintf(format, a...))
	}
}
func (rc recorder) event(t string) {
	if rc.on {
		rc.r.Event(t)
	}
}
func (rc recorder) eval() {
	if rc.on {
		rc.r.Eval(1)
	}
}

type dbMode struct {
	file   bool
	reader bool
	dir    string
}

func (m dbMode) String() string {
	switch {
	case m.file && m.reader:
		return "file+reader"
	case m.file:
		return "file"
	}
	return "memory"
}

func (m dbMode) open(kind string) (name string, cfg *db.SqliteConfig, cleanup func()) {
	n := dbCounter.Add(1)
	if !m.file {
		return fmt.Sprintf("verif_%s_%d_%d", kind, os.Getpid(), n), &db.SqliteConfig{InMemory: true}, func() {}
	}
	p := filepath.Join(m.dir, fmt.Sprintf("%s_%d.db", kind, n))
	return p, &db.SqliteConfig{}, func() {
		for _, s := range []string{"", "-journal", "-wal", "-shm"} {
			os.Remove(p + s)
		}
	}
}

func pathResultsOf(res query.Results) []storeref.PathResult {
	out := make([]storeref.PathResult, 0, len(res))
	for _, r := range res {
		g := append([]uint64(nil), r.HPGroupIDs...)
		sort.Slice(g, func(i, j int) bool { return g[i] < g[j] })
		out = append(out, storeref.PathResult{ID: idOf(r.Seg), Type: int(r.Type), Content: fingerprint(r.Seg), Groups: g})
	}
	return out
}

func eqU64(a, b []uint64) bool {
	if len(a) != len(b) {
		return false
	}
	for i := range a {
		if a[i] != b[i] {
			return false
		}
	}
	return true
}

type idType struct {
	ID   string
	Type int
}

// comparePath compares a result of the database with the model's as sets of
// (segment id, type) entries. The returned mismatch kind is the first of:
// duplicate, extra-segment, missing-segment, extra-type, missing-type,
// content, groups.
func comparePath(got, want []storeref.PathResult, groupFilter []uint64, ignoreGroups ...bool) (kind, detail, id string) {
	gm := map[idType]storeref.PathResult{}
	gIDs := map[string]bool{}
	for _, g := range got {
		k := idType{g.ID, g.Type}
		if _, dup := gm[k]; dup {
			return "duplicate", fmt.Sprintf("entry (%s, type %d) returned twice", short(g.ID), g.Type), g.ID
		}
		gm[k] = g
		gIDs[g.ID] = true
	}
	wm := map[idType]storeref.PathResult{}
	wIDs := map[string]bool{}
	for _, w := range want {
		wm[idType{w.ID, w.Type}] = w
		wIDs[w.ID] = true
	}
	for _, g := range got {
		if !wIDs[g.ID] {
			return "extra-segment", fmt.Sprintf("segment %s (type %d) returned but not expected", short(g.ID), g.Type), g.ID
		}
	}
	for _, w := range want {
		if !gIDs[w.ID] {
			return "missing-segment", fmt.Sprintf("segment %s (type %d) expected but not returned", short(w.ID), w.Type), w.ID
		}
	}
	for _, g := range got {
		if _, ok := wm[idType{g.ID, g.Type}]; !ok {
			return "extra-type", fmt.Sprintf("segment %s returned with type %d which it does not have", short(g.ID), g.Type), g.ID
		}
	}
	for _, w := range want {
		if _, ok := gm[idType{w.ID, w.Type}]; !ok {
			return "missing-type", fmt.Sprintf("segment %s not returned with its type %d", short(w.ID), w.Type), w.ID
		}
	}
	for _, w := range want {
		g := gm[idType{w.ID, w.Type}]
		if g.Content != w.Content {
			return "content", fmt.Sprintf("segment %s: returned version %s, stored version must be %s (version %d)",
				short(w.ID), g.Content, w.Content, w.Version), w.ID
		}
		if len(ignoreGroups) > 0 && ignoreGroups[0] {
			continue
		}
		if len(groupFilter) == 0 {
			if !eqU64(g.Groups, w.Groups) {
				return "groups", fmt.Sprintf("segment %s: groups %x, expected %x", short(w.ID), g.Groups, w.Groups), w.ID
			}
			continue
		}
		// With a group filter the statement does not say whether the full
		// group set or the matching part is reported: demand only that every
		// reported group is one the segment has and at least one was requested.
		hit := false
		for _, x := range g.Groups {
			in := false
			for _, y := range w.Groups {
				in = in || x == y
			}
			if !in {
				return "groups", fmt.Sprintf("segment %s: reported group %x it is not registered under (%x)", short(w.ID), x, w.Groups), w.ID
			}
			for _, f := range groupFilter {
				hit = hit || f == x
			}
		}
		if !hit {
			return "groups", fmt.Sprintf("segment %s: none of the requested groups %x reported (%x)", short(w.ID), groupFilter, g.Groups), w.ID
		}
	}
	return "", "", ""
}

type pathRun struct {
	rc      recorder
	ctx     context.Context
	db      *pathsqlite.Backend
	rw      pathdb.ReadWrite
	tx      pathdb.Transaction
	model   *storeref.PathStore
	saved   *storeref.PathStore
	pool    []*variant
	reader  bool
	busy    bool
	removed bool // some entry was removed earlier in this history
	interrupts int
}

func (pr *pathRun) errFail(op string, err error) *failure {
	if pr.reader && busyErr(err) {
		pr.busy = true
		return nil
	}
	return failf("C27:path:error/"+op, "%s returned an error: %v", op, err)
}

// fullCompare compares the whole database content (query-all) with the model.
func (pr *pathRun) fullCompare(after string) *failure {
	res, err := pr.rw.GetAll(pr.ctx)
	if err != nil {
		return pr.errFail("get-all", err)
	}
	pr.rc.eval()
	kind, detail, _ := comparePath(pathResultsOf(res), pr.model.Get(storeref.PathQuery{}), nil)
	if kind != "" {
		return failf("C27:path:after-"+after+":"+kind, "database content differs from the abstract store after %s: %s", after, detail)
	}
	return nil
}

func statsOf(o storeref.Outcome) pathdb.InsertStats {
	switch o {
	case storeref.Inserted:
		return pathdb.InsertStats{Inserted: 1}
	case storeref.Updated:
		return pathdb.InsertStats{Updated: 1}
	}
	return pathdb.InsertStats{}
}

func (pr *pathRun) exec(op pathOp) *failure {
	switch op.Kind {
	case "insert", "insert-hp":
		v := pr.pool[op.V]
		var stored *storeref.Seg
		typeNew, groupNew := false, false
		groups := op.Groups
		if op.Kind == "insert" {
			groups = []uint64{0}
		}
		if e := pr.model.Entry(v.Ref.ID); e != nil {
			s := e.Seg
			stored = &s
			_, has := e.Types[op.Type]
			typeNew = !has
			for _, g := range groups {
				_, has := e.Groups[g]
				groupNew = groupNew || !has
			}
		}
		rel := relation(stored, v.Ref)
		var st pathdb.InsertStats
		var err error
		meta := &seg.Meta{Segment: v.PS, Type: seg.Type(op.Type)}
		if op.Kind == "insert" {
			st, err = pr.rw.Insert(pr.ctx, meta)
		} else {
			st, err = pr.rw.InsertWithHPGroupIDs(pr.ctx, meta, op.Groups)
		}
		if err != nil {
			return pr.errFail("insert", err)
		}
		out := pr.model.Insert(v.Ref, op.Type, groups)
		pr.rc.eval()
		pr.rc.event("path_insert_" + rel)
		after := ""
		if pr.removed && rel == "new" {
			after = "/after-removal"
		}
		pr.rc.class("path/%s/%s/%s/new-type=%v/new-group=%v%s", op.Kind, rel, out, typeNew, groupNew, after)
		if st != statsOf(out) {
			return failf("C27:path:insert-stats/"+rel, "insert of a %s version reported %+v, abstract store: %s", rel, st, out)
		}
		return pr.fullCompare("insert/" + rel + after)
	case "delete":
		if err := pr.rw.DeleteSegment(pr.ctx, op.Prefix); err != nil {
			return pr.errFail("delete", err)
		}
		n := pr.model.Delete(op.Prefix)
		pr.removed = pr.removed || n > 0
		pr.rc.event("path_delete")
		pr.rc.class("path/delete/prefix-len=%s/removed=%s", bucket(len(op.Prefix)/16), bucket(n))
		return pr.fullCompare("delete")
	case "delete-expired":
		before := pr.model.Len()
		cnt, err := pr.rw.DeleteExpired(pr.ctx, time.Unix(op.Now, 0))
		if err != nil {
			return pr.errFail("delete-expired", err)
		}
		n, unspec := pr.model.DeleteExpired(op.Now * 1e9)
		res, err := pr.rw.GetAll(pr.ctx)
		if err != nil {
			return pr.errFail("get-all", err)
		}
		present := map[string]bool{}
		for _, x := range res {
			present[idOf(x.Seg)] = true
		}
		gone := 0
		for _, id := range unspec {
			if !present[id] {
				pr.model.Remove(id)
				gone++
			}
		}
		pr.removed = pr.removed || n+gone > 0
		pr.rc.event("path_delete_expired")
		pr.rc.class("path/delete-expired/removed=%s/undecided-kept=%s/undecided-removed=%s/kept=%s",
			bucket(n), bucket(len(unspec)-gone), bucket(gone), bucket(pr.model.Len()))
		if f := pr.fullCompare("delete-expired"); f != nil {
			return f
		}
		pr.rc.eval()
		if cnt != before-pr.model.Len() {
			return failf("C27:path:delete-expired-count", "DeleteExpired reported %d removed segments, %d disappeared", cnt, before-pr.model.Len())
		}
		return nil
	case "get", "get-all":
		var res query.Results
		var err error
		q := op.Q
		if op.Kind == "get-all" {
			q = &pquery{}
			res, err = pr.rw.GetAll(pr.ctx)
		} else {
			res, err = pr.rw.Get(pr.ctx, q.params(pr.pool))
		}
		if err != nil {
			return pr.errFail("get", err)
		}
		want := pr.model.Get(q.model(pr.pool))
		pr.rc.eval()
		pr.rc.event("path_get")
		fs := strings.Join(q.filters(), "+")
		if fs == "" {
			fs = "none"
		}
		hit := "empty"
		if len(want) > 0 {
			hit = "hit"
			if len(want) < len(pr.model.Get(storeref.PathQuery{})) {
				hit = "selective"
			}
		}
		pr.rc.class("path/get/%s/%s", fs, hit)
		kind, detail, id := comparePath(pathResultsOf(res), want, q.Groups)
		if kind == "" {
			// the same query once more with a context that is cancelled while the
			// rows are read: it may fail, but what is returned without an error
			// must be the complete answer
			if len(want) >= 1 && op.Kind == "get" {
				pr.interrupts++
				ictx := newPollCtx(pr.ctx, int(pr.interrupts*5)%23)
				res2, err2 := pr.rw.Get(ictx, q.params(pr.pool))
				pr.rc.eval()
				if err2 != nil {
					pr.rc.event("path_get_interrupted_error")
					return nil
				}
				pr.rc.event("path_get_interrupted_answered")
				if k2, d2, _ := comparePath(pathResultsOf(res2), want, q.Groups); k2 != "" {
					return failf("C27:path:get-interrupted:"+k2, "query %s with a context cancelled during the lookup returned no error, but: %s", fs, d2)
				}
			}
			return nil
		}
		suffix := ""
		if kind == "extra-segment" {
			// name the filters that (each on its own) exclude the entry
			var failing []string
			for _, f := range q.filters() {
				in := false
				for _, r := range pr.model.Get(q.only(f).model(pr.pool)) {
					in = in || r.ID == id
				}
				if !in {
					failing = append(failing, f)
				}
			}
			if pr.model.Entry(id) == nil {
				failing = []string{"not-stored"}
			}
			if len(failing) > 0 {
				suffix = "/" + strings.Join(failing, "+")
			}
		}
		return failf("C27:path:get:"+kind+suffix, "Get with filters [%s]: %s", fs, detail)
	case "nq-insert":
		old, had := pr.model.NextQuery(storeref.IA(op.Src), storeref.IA(op.Dst))
		ok, err := pr.rw.InsertNextQuery(pr.ctx, addr.IA(op.Src), addr.IA(op.Dst), time.Unix(0, op.T))
		if err != nil {
			return pr.errFail("nq-insert", err)
		}
		want := pr.model.InsertNextQuery(storeref.IA(op.Src), storeref.IA(op.Dst), op.T)
		rel := "new"
		switch {
		case had && op.T > old:
			rel = "later"
		case had && op.T == old:
			rel = "equal"
		case had:
			rel = "earlier"
		}
		pr.rc.eval()
		pr.rc.event("path_next_query")
		pr.rc.class("path/nq-insert/%s", rel)
		if ok != want && rel != "equal" {
			return failf("C27:path:next-query-result/"+rel, "InsertNextQuery(%s time) returned %v, abstract store %v", rel, ok, want)
		}
		return pr.checkNextQuery(op, "after-insert/"+rel)
	case "nq-get":
		_, had := pr.model.NextQuery(storeref.IA(op.Src), storeref.IA(op.Dst))
		pr.rc.class("path/nq-get/stored=%v", had)
		return pr.checkNextQuery(op, "get")
	case "begin":
		if pr.tx != nil {
			return nil
		}
		tx, err := pr.db.BeginTransaction(pr.ctx, nil)
		if err != nil {
			return pr.errFail("begin", err)
		}
		pr.tx, pr.rw, pr.saved = tx, tx, pr.model.Clone()
		return nil
	case "commit", "rollback":
		if pr.tx == nil {
			return nil
		}
		var err error
		if op.Kind == "commit" {
			err = pr.tx.Commit()
		} else {
			err = pr.tx.Rollback()
			pr.model = pr.saved
		}
		pr.tx, pr.rw, pr.saved = nil, pr.db, nil
		if err != nil {
			return pr.errFail(op.Kind, err)
		}
		pr.rc.event("path_tx_" + op.Kind)
		pr.rc.class("path/tx/%s", op.Kind)
		if f := pr.fullCompare(op.Kind); f != nil {
			return f
		}
		return nil
	}
	panic("unknown op " + op.Kind)
}

func (pr *pathRun) checkNextQuery(op pathOp, ctx string) *failure {
	got, err := pr.rw.GetNextQuery(pr.ctx, addr.IA(op.Src), addr.IA(op.Dst))
	if err != nil {
		return pr.errFail("nq-get", err)
	}
	pr.rc.eval()
	want, had := pr.model.NextQuery(storeref.IA(op.Src), storeref.IA(op.Dst))
	switch {
	case !had && !got.IsZero():
		return failf("C27:path:next-query:"+ctx, "GetNextQuery returned %v for a pair never stored", got)
	case had && (got.IsZero() || got.UnixNano() != want):
		return failf("C27:path:next-query:"+ctx, "GetNextQuery returned %d, stored next-query time must be %d", got.UnixNano(), want)
	}
	return nil
}

// runPathHistory runs ops on a fresh database; it returns the first failure
// (nil if none) and whether the history had to be abandoned (lock contention
// with the concurrent reader).
func runPathHistory(r *mon.Run, pool []*variant, ops []pathOp, mode dbMode, record bool) (f *failure, abandoned bool) {
	name, cfg, cleanup := mode.open("path")
	defer cleanup()
	backend, err := pathsqlite.New(name, cfg)
	if err != nil {
		fmt.Fprintf(os.Stderr, "store: cannot open path db: %v\n", err)
		os.Exit(2)
	}
	// No deadline: with a cancellable context the sqlite driver starts a
	// goroutine per row; hangs are the driver script's watchdog's business.
	ctx := monlog.Alternate() // log level is a configuration dimension
	pr := &pathRun{rc: recorder{r, record}, ctx: ctx, db: backend, rw: backend,
		model: storeref.NewPathStore(), pool: pool, reader: mode.reader}
	var wg sync.WaitGroup
	stop := make(chan struct{})
	// the reader performs a bounded number of reads per judged operation
	// (concurrently with it) instead of spinning on the database
	tick := make(chan struct{}, 4)
	if mode.reader {
		wg.Add(1)
		go func() { // unjudged concurrent reader: only there for the race detector
			defer wg.Done()
			rrng := rand.New(rand.NewPCG(7, uint64(len(ops))))
			n := 0
			for {
				select {
				case <-stop:
					if record {
						r.EventN("path_concurrent_reads", int64(n))
					}
					return
				case <-tick:
				}
				switch n % 3 {
				case 0:
					_, _ = backend.GetAll(ctx)
				case 1:
					_, _ = backend.Get(ctx, genPathQuery(rrng, pool).params(pool))
				default:
					_, _ = backend.GetNextQuery(ctx, allASes[0], allASes[1])
				}
				n++
			}
		}()
	}
	for i, op := range ops {
		for k := 0; k < 2 && mode.reader; k++ {
			select {
			case tick <- struct{}{}:
			default:
			}
		}
		var fl *failure
		if p, stack := mon.Try(func() { fl = pr.exec(op) }); p != nil {
			fl = failf("C27:path:panic:"+mon.PanicSite(stack), "panic in %s: %v\n%s", op.Kind, p, stack)
		}
		if fl != nil {
			fl.At = i
			f = fl
			break
		}
		if pr.busy {
			abandoned = true
			break
		}
	}
	if pr.tx != nil {
		_ = pr.tx.Rollback()
	}
	close(stop)
	wg.Wait()
	if err := backend.Close(); err != nil && f == nil && !abandoned {
		f = failf("C27:path:error/close", "Close: %v", err)
	}
	return f, abandoned
}

// shrink greedily removes operations while the same violation key persists.
func shrink[T any](ops []T, failAt int, key string, run func([]T) *failure) []T {
	cur := append([]T(nil), ops[:failAt+1]...)
	budget := 400
	for changed := true; changed && budget > 0; {
		changed = false
		for i := len(cur) - 2; i >= 0 && budget > 0; i-- {
			if i >= len(cur)-1 {
				continue
			}
			cand := append(append([]T(nil), cur[:i]...), cur[i+1:]...)
			budget--
			if f := run(cand); f != nil && f.Key == key {
				cur = cand[:f.At+1]
				changed = true
			}
		}
	}
	return cur
}

func usedVariants(pool []*variant, idx []int) []any {
	seen := map[int]bool{}
	var out []any
	for _, i := range idx {
		if !seen[i] {
			seen[i] = true
			out = append(out, pool[i].describe())
		}
	}
	return out
}

type histWitness struct {
	DB       string `json:"db"`
	History  int    `json:"history"`
	Mode     string `json:"mode"`
	Ops      any    `json:"ops"`
	Variants []any  `json:"variants"`
	FailedAt int    `json:"failed_at_op"`
	Note     string `json:"note,omitempty"`
}

func pathPoolFor(rng *rand.Rand) []*variant {
	return genPool(rng, poolOpts{shapes: 3 + rng.IntN(3), variants: 3 + rng.IntN(2),
		ases: pickASes(rng, 3+rng.IntN(3)), maxIf: 3})
}

func modeFor(i int, dir string) dbMode {
	switch os.Getenv("STORE_DEV_MODE") { // developer timing aid, never set by the driver
	case "memory":
		return dbMode{}
	case "file":
		return dbMode{file: true, dir: dir}
	case "reader":
		return dbMode{file: true, reader: true, dir: dir}
	}
	switch i % 4 {
	case 0:
		return dbMode{file: true, reader: true, dir: dir}
	case 1:
		return dbMode{file: true, dir: dir}
	}
	return dbMode{}
}

func onePathHistory(r *mon.Run, i int, dir string) {
	rng := r.Rand(fmt.Sprintf("c27/path/%d", i))
	pool := pathPoolFor(rng)
	ops := genPathHistory(rng, pool, 24+rng.IntN(16))
	mode := modeFor(i, dir)
	f, abandoned := runPathHistory(r, pool, ops, mode, true)
	r.Event("path_history_" + mode.String())
	if abandoned {
		r.Inconclusive("sqlite-busy-with-concurrent-reader")
	}
	if r.WantSample() && i%97 == 3 {
		r.Sample(map[string]any{"db": "path", "history": i, "mode": mode.String(), "ops": ops[:min(8, len(ops))]})
	}
	if f == nil {
		return
	}
	quiet := dbMode{file: mode.file, dir: mode.dir}
	reportMu.Lock()
	defer reportMu.Unlock()
	small := ops[:f.At+1]
	if wantShrink(f.Key) {
		small = shrink(ops, f.At, f.Key, func(c []pathOp) *failure {
			ff, _ := runPathHistory(r, pool, c, quiet, false)
			return ff
		})
	}
	var idx []int
	for _, op := range small {
		if op.Kind == "insert" || op.Kind == "insert-hp" {
			idx = append(idx, op.V)
		}
		if op.Q != nil {
			for _, s := range op.Q.SegIDs {
				if s >= 0 {
					idx = append(idx, s)
				}
			}
		}
	}
	r.Violation(f.Key, f.What, histWitness{DB: "path", History: i, Mode: mode.String(), Ops: small,
		Variants: usedVariants(pool, idx), FailedAt: len(small) - 1,
		Note: "history shrunk from the generated one; re-run with --replay to regenerate history " + fmt.Sprint(i)})
}

// ---------------------------------------------------------------------------
// beacon database

type bquery struct {
	SegIDs   []string `json:"seg_id_prefixes,omitempty"` // hex, whole bytes
	StartsAt []uint64 `json:"starts_at,omitempty"`
	InIfs    []uint16 `json:"in_ifs,omitempty"`
	Usages   []int    `json:"usages,omitempty"`
	ValidAt  int64    `json:"valid_at,omitempty"` // seconds, 0 = unset
}

func (q *bquery) filters() []string {
	var f []string
	if len(q.SegIDs) > 0 {
		f = append(f, "ids")
	}
	if len(q.StartsAt) > 0 {
		f = append(f, "starts")
	}
	if len(q.InIfs) > 0 {
		f = append(f, "inifs")
	}
	if len(q.Usages) > 0 {
		f = append(f, "usages")
	}
	if q.ValidAt != 0 {
		f = append(f, "valid")
	}
	return f
}

func (q *bquery) only(f string) *bquery {
	switch f {
	case "ids":
		return &bquery{SegIDs: q.SegIDs}
	case "starts":
		return &bquery{StartsAt: q.StartsAt}
	case "inifs":
		return &bquery{InIfs: q.InIfs}
	case "usages":
		return &bquery{Usages: q.Usages}
	case "valid":
		return &bquery{ValidAt: q.ValidAt}
	}
	return &bquery{}
}

func unhex(s string) []byte {
	b := make([]byte, len(s)/2)
	for i := range b {
		fmt.Sscanf(s[2*i:2*i+2], "%02X", &b[i])
	}
	return b
}

func (q *bquery) params() *storagebeacon.QueryParams {
	p := &storagebeacon.QueryParams{IngressInterfaces: q.InIfs}
	for _, s := range q.SegIDs {
		p.SegIDs = append(p.SegIDs, unhex(s))
	}
	for _, ia := range q.StartsAt {
		p.StartsAt = append(p.StartsAt, addr.IA(ia))
	}
	for _, u := range q.Usages {
		p.Usages = append(p.Usages, beacon.Usage(u))
	}
	if q.ValidAt != 0 {
		p.ValidAt = time.Unix(q.ValidAt, 0)
	}
	return p
}

func (q *bquery) model() storeref.BeaconQuery {
	m := storeref.BeaconQuery{SegIDPrefixes: q.SegIDs, InIfs: q.InIfs, Usages: q.Usages}
	for _, ia := range q.StartsAt {
		m.StartsAt = append(m.StartsAt, storeref.IA(ia))
	}
	if q.ValidAt != 0 {
		m.ValidAt, m.HasTime = q.ValidAt*1e9, true
	}
	return m
}

// startsAny: the StartsAt list holds the full wildcard 0-0 next to other
// patterns (documented: every zero part is a wildcard, a beacon must match at
// least one entry).
func (q *bquery) startsAnyMixed() bool {
	any, other := false, false
	for _, ia := range q.StartsAt {
		if ia == 0 {
			any = true
		} else {
			other = true
		}
	}
	return any && other
}

type beaconOp struct {
	Kind    string  `json:"op"`
	V       int     `json:"v"`
	Label   string  `json:"variant,omitempty"`
	InIf    uint16  `json:"in_if,omitempty"`
	Usage   int     `json:"usage,omitempty"`
	Prefix  string  `json:"prefix,omitempty"`
	Now     int64   `json:"now,omitempty"`
	Q       *bquery `json:"query,omitempty"`
	SetSize int     `json:"set_size,omitempty"`
	Src     uint64  `json:"src,omitempty"`
}

var usageMasks = []int{1, 2, 4, 8, 3, 5, 9, 12, 15, 6}

func genBeaconQuery(rng *rand.Rand, pool []*variant) *bquery {
	q := &bquery{}
	mask := rng.IntN(32)
	if rng.IntN(3) == 0 {
		mask = 1 << rng.IntN(5)
	}
	if mask&1 != 0 {
		for i, n := 0, 1+rng.IntN(2); i < n; i++ {
			id := pick(rng, pool).Ref.ID
			if rng.IntN(6) == 0 {
				id = hexUp(unknownID)
			}
			q.SegIDs = append(q.SegIDs, id[:2*[]int{1, 2, 4, 32, 32}[rng.IntN(5)]])
		}
	}
	if mask&2 != 0 {
		for i, n := 0, 1+rng.IntN(2); i < n; i++ {
			ia := pick(rng, pool).Ref.First
			switch rng.IntN(8) {
			case 0:
				q.StartsAt = append(q.StartsAt, uint64(ia.ISD())<<48)
			case 1:
				q.StartsAt = append(q.StartsAt, ia.AS())
			case 2:
				q.StartsAt = append(q.StartsAt, 0)
			case 3:
				q.StartsAt = append(q.StartsAt, uint64(pick(rng, allASes)))
			default:
				q.StartsAt = append(q.StartsAt, uint64(ia))
			}
		}
	}
	if mask&4 != 0 {
		for i, n := 0, 1+rng.IntN(2); i < n; i++ {
			q.InIfs = append(q.InIfs, uint16(rng.IntN(4)))
		}
	}
	if mask&8 != 0 {
		q.Usages = subset(rng, usageMasks, 1, 2)
	}
	if mask&16 != 0 {
		q.ValidAt = expiryTimes(rng, pool)
	}
	return q
}

func genBeaconHistory(rng *rand.Rand, pool []*variant, nOps int) []beaconOp {
	var ops []beaconOp
	for len(ops) < nOps {
		var op beaconOp
		switch w := rng.IntN(100); {
		case w < 38:
			op = beaconOp{Kind: "insert", V: rng.IntN(len(pool)), InIf: uint16(rng.IntN(4)), Usage: pick(rng, usageMasks)}
			op.Label = pool[op.V].Label
		case w < 46:
			id := pick(rng, pool).Ref.ID
			p := id[:[]int{1, 2, 4, 8, 64, 64, 64}[rng.IntN(7)]]
			if rng.IntN(2) == 0 {
				p = strings.ToLower(p)
			}
			if rng.IntN(10) == 0 {
				p = "0FEDCBA9"
			}
			op = beaconOp{Kind: "delete", Prefix: p}
		case w < 55:
			op = beaconOp{Kind: "delete-expired", Now: expiryTimes(rng, pool)}
		case w < 75:
			op = beaconOp{Kind: "get", Q: genBeaconQuery(rng, pool)}
		case w < 96:
			var src uint64
			if rng.IntN(2) == 0 {
				src = uint64(pick(rng, pool).Ref.First)
				if rng.IntN(6) == 0 {
					src = uint64(pick(rng, allASes))
				}
			}
			op = beaconOp{Kind: "candidates", SetSize: rng.IntN(7), Usage: pick(rng, usageMasks[:6]), Src: src}
		default:
			op = beaconOp{Kind: "sources"}
		}
		ops = append(ops, op)
	}
	return ops
}

func beaconResultOf(s *seg.PathSegment, inIf uint16, usage int) storeref.BeaconResult {
	return storeref.BeaconResult{ID: idOf(s), Content: fingerprint(s), InIf: inIf, Usage: usage, Hops: len(s.ASEntries)}
}

// compareBeacons: got must contain every definite entry, nothing outside
// definite ∪ undecided, no duplicates, and the stored content/in-if/usage.
func compareBeacons(got, definite, undecided []storeref.BeaconResult, withUsage bool) (kind, detail, id string) {
	gm := map[string]storeref.BeaconResult{}
	for _, g := range got {
		if _, dup := gm[g.ID]; dup {
			return "duplicate", fmt.Sprintf("beacon %s returned twice", short(g.ID)), g.ID
		}
		gm[g.ID] = g
	}
	wm := map[string]storeref.BeaconResult{}
	for _, w := range definite {
		wm[w.ID] = w
	}
	um := map[string]storeref.BeaconResult{}
	for _, w := range undecided {
		um[w.ID] = w
	}
	for _, g := range got {
		if _, ok := wm[g.ID]; ok {
			continue
		}
		if _, ok := um[g.ID]; ok {
			continue
		}
		return "extra-segment", fmt.Sprintf("beacon %s returned but not expected", short(g.ID)), g.ID
	}
	for _, w := range definite {
		if _, ok := gm[w.ID]; !ok {
			return "missing-segment", fmt.Sprintf("beacon %s expected but not returned", short(w.ID)), w.ID
		}
	}
	for _, g := range got {
		w, ok := wm[g.ID]
		if !ok {
			w = um[g.ID]
		}
		switch {
		case g.Content != w.Content:
			return "content", fmt.Sprintf("beacon %s: returned version %s, stored version must be %s", short(g.ID), g.Content, w.Content), g.ID
		case g.InIf != w.InIf:
			return "in-if", fmt.Sprintf("beacon %s: ingress interface %d, expected %d", short(g.ID), g.InIf, w.InIf), g.ID
		case withUsage && g.Usage != w.Usage:
			return "usage", fmt.Sprintf("beacon %s: usage %#x, expected %#x", short(g.ID), g.Usage, w.Usage), g.ID
		}
	}
	return "", "", ""
}

type beaconRun struct {
	rc      recorder
	ctx     context.Context
	db      *beaconsqlite.Backend
	model   *storeref.BeaconStore
	pool    []*variant
	reader  bool
	busy    bool
	removed bool
}

func (br *beaconRun) errFail(op string, err error) *failure {
	if br.reader && busyErr(err) {
		br.busy = true
		return nil
	}
	return failf("C27:beacon:error/"+op, "%s returned an error: %v", op, err)
}

func (br *beaconRun) all() ([]storeref.BeaconResult, error) {
	res, err := br.db.GetBeacons(br.ctx, &storagebeacon.QueryParams{})
	if err != nil {
		return nil, err
	}
	out := make([]storeref.BeaconResult, 0, len(res))
	for _, b := range res {
		out = append(out, beaconResultOf(b.Beacon.Segment, b.Beacon.InIfID, int(b.Usage)))
	}
	return out, nil
}

func (br *beaconRun) fullCompare(after string) *failure {
	got, err := br.all()
	if err != nil {
		return br.errFail("get-all", err)
	}
	br.rc.eval()
	if kind, detail, _ := compareBeacons(got, br.model.All(), nil, true); kind != "" {
		return failf("C27:beacon:after-"+after+":"+kind, "database content differs from the abstract store after %s: %s", after, detail)
	}
	srcs, err := br.db.BeaconSources(br.ctx)
	if err != nil {
		return br.errFail("sources", err)
	}
	return br.compareSources(srcs, "after-"+after)
}

func (br *beaconRun) compareSources(srcs []addr.IA, ctx string) *failure {
	br.rc.eval()
	var got []storeref.IA
	for _, s := range srcs {
		got = append(got, storeref.IA(s))
	}
	sort.Slice(got, func(i, j int) bool { return got[i] < got[j] })
	want := br.model.Sources()
	same := len(got) == len(want)
	for i := 0; same && i < len(got); i++ {
		same = got[i] == want[i]
	}
	if !same {
		return failf("C27:beacon:sources:"+ctx, "BeaconSources = %x, stored beacons start at %x", got, want)
	}
	return nil
}

func (br *beaconRun) exec(op beaconOp) *failure {
	switch op.Kind {
	case "insert":
		v := br.pool[op.V]
		var stored *storeref.Seg
		if e := br.model.Entry(v.Ref.ID); e != nil {
			s := e.Seg
			stored = &s
		}
		rel := relation(stored, v.Ref)
		st, err := br.db.InsertBeacon(br.ctx, beacon.Beacon{Segment: v.PS, InIfID: op.InIf}, beacon.Usage(op.Usage))
		if err != nil {
			return br.errFail("insert", err)
		}
		out := br.model.Insert(v.Ref, op.InIf, op.Usage)
		br.rc.eval()
		br.rc.event("beacon_insert_" + rel)
		after := ""
		if br.removed && rel == "new" {
			after = "/after-removal"
		}
		br.rc.class("beacon/insert/%s/%s%s", rel, out, after)
		want := beacon.InsertStats{}
		switch out {
		case storeref.Inserted:
			want.Inserted = 1
		case storeref.Updated:
			want.Updated = 1
		}
		if st != want {
			return failf("C27:beacon:insert-stats/"+rel, "insert of a %s version reported %+v, abstract store: %s", rel, st, out)
		}
		return br.fullCompare("insert/" + rel + after)
	case "delete":
		if err := br.db.DeleteBeacon(br.ctx, op.Prefix); err != nil {
			return br.errFail("delete", err)
		}
		n := br.model.Delete(op.Prefix)
		br.removed = br.removed || n > 0
		br.rc.event("beacon_delete")
		br.rc.class("beacon/delete/prefix-len=%s/removed=%s", bucket(len(op.Prefix)/16), bucket(n))
		return br.fullCompare("delete")
	case "delete-expired":
		before := br.model.Len()
		cnt, err := br.db.DeleteExpiredBeacons(br.ctx, time.Unix(op.Now, 0))
		if err != nil {
			return br.errFail("delete-expired", err)
		}
		n, unspec := br.model.DeleteExpired(op.Now * 1e9)
		got, err := br.all()
		if err != nil {
			return br.errFail("get-all", err)
		}
		present := map[string]bool{}
		for _, g := range got {
			present[g.ID] = true
		}
		gone := 0
		for _, id := range unspec {
			if !present[id] {
				br.model.Remove(id)
				gone++
			}
		}
		br.removed = br.removed || n+gone > 0
		br.rc.event("beacon_delete_expired")
		br.rc.class("beacon/delete-expired/removed=%s/undecided-kept=%s/undecided-removed=%s/kept=%s",
			bucket(n), bucket(len(unspec)-gone), bucket(gone), bucket(br.model.Len()))
		if f := br.fullCompare("delete-expired"); f != nil {
			return f
		}
		br.rc.eval()
		if cnt != before-br.model.Len() {
			return failf("C27:beacon:delete-expired-count", "DeleteExpiredBeacons reported %d removed beacons, %d disappeared", cnt, before-br.model.Len())
		}
		return nil
	case "get":
		res, err := br.db.GetBeacons(br.ctx, op.Q.params())
		if err != nil {
			return br.errFail("get", err)
		}
		got := make([]storeref.BeaconResult, 0, len(res))
		for _, b := range res {
			got = append(got, beaconResultOf(b.Beacon.Segment, b.Beacon.InIfID, int(b.Usage)))
		}
		def, und := br.model.Get(op.Q.model())
		fs := strings.Join(op.Q.filters(), "+")
		if fs == "" {
			fs = "none"
		}
		if op.Q.startsAnyMixed() {
			fs = strings.Replace(fs, "starts", "starts(0-0+other)", 1)
		}
		hit := "empty"
		if len(def)+len(und) > 0 {
			hit = "hit"
			if len(def)+len(und) < br.model.Len() {
				hit = "selective"
			}
		}
		br.rc.eval()
		br.rc.event("beacon_get")
		br.rc.class("beacon/get/%s/%s/undecided=%s", fs, hit, bucket(len(und)))
		kind, detail, id := compareBeacons(got, def, und, true)
		if kind == "" {
			return nil
		}
		suffix := ""
		if kind == "extra-segment" {
			var failing []string
			for _, f := range op.Q.filters() {
				d, u := br.model.Get(op.Q.only(f).model())
				in := false
				for _, x := range append(d, u...) {
					in = in || x.ID == id
				}
				if !in {
					failing = append(failing, f)
				}
			}
			if br.model.Entry(id) == nil {
				failing = []string{"not-stored"}
			}
			if len(failing) > 0 {
				suffix = "/" + strings.Join(failing, "+")
			}
		}
		if kind == "missing-segment" && op.Q.startsAnyMixed() {
			// would the beacon have been returned without the StartsAt filter?
			suffix = "/starts(0-0+other)"
		}
		return failf("C27:beacon:get:"+kind+suffix, "GetBeacons with filters [%s]: %s", fs, detail)
	case "candidates":
		res, err := br.db.CandidateBeacons(br.ctx, op.SetSize, beacon.Usage(op.Usage), addr.IA(op.Src))
		if err != nil {
			return br.errFail("candidates", err)
		}
		match := br.model.Candidates(op.Usage, storeref.IA(op.Src))
		br.rc.eval()
		br.rc.event("beacon_candidates")
		distinctLens := map[int]bool{}
		for _, m := range match {
			distinctLens[m.Hops] = true
		}
		br.rc.class("beacon/candidates/src=%v/matching-vs-size=%s/lengths=%s", op.Src != 0,
			map[bool]string{true: "more", false: "fewer-or-equal"}[len(match) > op.SetSize], bucket(len(distinctLens)))
		mm := map[string]storeref.BeaconResult{}
		for _, m := range match {
			mm[m.ID] = m
		}
		seen := map[string]bool{}
		var lens []int
		for _, b := range res {
			g := beaconResultOf(b.Segment, b.InIfID, 0)
			w, ok := mm[g.ID]
			switch {
			case seen[g.ID]:
				return failf("C27:beacon:candidates:duplicate", "beacon %s returned twice", short(g.ID))
			case !ok && br.model.Entry(g.ID) == nil:
				return failf("C27:beacon:candidates:extra/not-stored", "beacon %s returned but not stored", short(g.ID))
			case !ok:
				e := br.model.Entry(g.ID)
				why := "usage"
				if e.Usage&op.Usage == op.Usage {
					why = "src"
				}
				return failf("C27:beacon:candidates:extra/"+why, "beacon %s (usage %#x, start %x) returned for usage %#x src %x",
					short(g.ID), e.Usage, e.Seg.First, op.Usage, op.Src)
			case g.Content != w.Content:
				return failf("C27:beacon:candidates:content", "beacon %s: returned version %s, stored %s", short(g.ID), g.Content, w.Content)
			case g.InIf != w.InIf:
				return failf("C27:beacon:candidates:in-if", "beacon %s: ingress interface %d, stored %d", short(g.ID), g.InIf, w.InIf)
			}
			seen[g.ID] = true
			lens = append(lens, g.Hops)
		}
		if want := min(op.SetSize, len(match)); len(res) != want {
			return failf("C27:beacon:candidates:count", "%d candidates returned for set size %d with %d matching beacons stored", len(res), op.SetSize, len(match))
		}
		for i := 1; i < len(lens); i++ {
			if lens[i] < lens[i-1] {
				return failf("C27:beacon:candidates:order", "candidate lengths %v are not non-decreasing", lens)
			}
		}
		for i, l := range lens { // a length-ordered listing cut at the count holds the shortest ones
			if match[i].Hops != l {
				var all []int
				for _, m := range match {
					all = append(all, m.Hops)
				}
				return failf("C27:beacon:candidates:not-shortest", "candidate lengths %v, stored matching lengths %v", lens, all)
			}
		}
		return nil
	case "sources":
		srcs, err := br.db.BeaconSources(br.ctx)
		if err != nil {
			return br.errFail("sources", err)
		}
		br.rc.class("beacon/sources/%s", bucket(len(br.model.Sources())))
		return br.compareSources(srcs, "query")
	}
	panic("unknown op " + op.Kind)
}

func runBeaconHistory(r *mon.Run, pool []*variant, ops []beaconOp, mode dbMode, record bool) (f *failure, abandoned bool) {
	name, cfg, cleanup := mode.open("beacon")
	defer cleanup()
	backend, err := beaconsqlite.New(name, allASes[0], cfg)
	if err != nil {
		fmt.Fprintf(os.Stderr, "store: cannot open beacon db: %v\n", err)
		os.Exit(2)
	}
	// No deadline: with a cancellable context the sqlite driver starts a
	// goroutine per row; hangs are the driver script's watchdog's business.
	ctx := context.Background()
	br := &beaconRun{rc: recorder{r, record}, ctx: ctx, db: backend, model: storeref.NewBeaconStore(), pool: pool, reader: mode.reader}
	var wg sync.WaitGroup
	stop := make(chan struct{})
	// the reader performs a bounded number of reads per judged operation
	// (concurrently with it) instead of spinning on the database
	tick := make(chan struct{}, 4)
	if mode.reader {
		wg.Add(1)
		go func() {
			defer wg.Done()
			rrng := rand.New(rand.NewPCG(9, uint64(len(ops))))
			n := 0
			for {
				select {
				case <-stop:
					if record {
						r.EventN("beacon_concurrent_reads", int64(n))
					}
					return
				case <-tick:
				}
				switch n % 3 {
				case 0:
					_, _ = backend.CandidateBeacons(ctx, 5, beacon.UsageProp, 0)
				case 1:
					_, _ = backend.GetBeacons(ctx, genBeaconQuery(rrng, pool).params())
				default:
					_, _ = backend.BeaconSources(ctx)
				}
				n++
			}
		}()
	}
	for i, op := range ops {
		for k := 0; k < 2 && mode.reader; k++ {
			select {
			case tick <- struct{}{}:
			default:
			}
		}
		var fl *failure
		if p, stack := mon.Try(func() { fl = br.exec(op) }); p != nil {
			fl = failf("C27:beacon:panic:"+mon.PanicSite(stack), "panic in %s: %v\n%s", op.Kind, p, stack)
		}
		if fl != nil {
			fl.At = i
			f = fl
			break
		}
		if br.busy {
			abandoned = true
			break
		}
	}
	close(stop)
	wg.Wait()
	if err := backend.Close(); err != nil && f == nil && !abandoned {
		f = failf("C27:beacon:error/close", "Close: %v", err)
	}
	return f, abandoned
}

func beaconPoolFor(rng *rand.Rand) []*variant {
	return genPool(rng, poolOpts{beacon: true, shapes: 3 + rng.IntN(4), variants: 3 + rng.IntN(2),
		ases: pickASes(rng, 3+rng.IntN(3)), maxIf: 3})
}

func oneBeaconHistory(r *mon.Run, i int, dir string) {
	rng := r.Rand(fmt.Sprintf("c27/beacon/%d", i))
	pool := beaconPoolFor(rng)
	ops := genBeaconHistory(rng, pool, 24+rng.IntN(16))
	mode := modeFor(i, dir)
	f, abandoned := runBeaconHistory(r, pool, ops, mode, true)
	r.Event("beacon_history_" + mode.String())
	if abandoned {
		r.Inconclusive("sqlite-busy-with-concurrent-reader")
	}
	if r.WantSample() && i%97 == 5 {
		r.Sample(map[string]any{"db": "beacon", "history": i, "mode": mode.String(), "ops": ops[:min(8, len(ops))]})
	}
	if f == nil {
		return
	}
	quiet := dbMode{file: mode.file, dir: mode.dir}
	reportMu.Lock()
	defer reportMu.Unlock()
	small := ops[:f.At+1]
	if wantShrink(f.Key) {
		small = shrink(ops, f.At, f.Key, func(c []beaconOp) *failure {
			ff, _ := runBeaconHistory(r, pool, c, quiet, false)
			return ff
		})
	}
	var idx []int
	for _, op := range small {
		if op.Kind == "insert" {
			idx = append(idx, op.V)
		}
	}
	r.Violation(f.Key, f.What, histWitness{DB: "beacon", History: i, Mode: mode.String(), Ops: small,
		Variants: usedVariants(pool, idx), FailedAt: len(small) - 1,
		Note: "history shrunk from the generated one; re-run with --replay to regenerate history " + fmt.Sprint(i)})
}

// ---------------------------------------------------------------------------
// directed case: two different segment ids with the same "full" id

func directedFullIDCollision(r *mon.Run) {
	a, b, c := allASes[0], allASes[2], allASes[3]
	// X: a -> c with a peering entry (peer b, interface 2) at a.
	// Y: a -> b -> c where b's hop has ingress 2 and the same egress as a's.
	for _, isBeacon := range []bool{false, true} {
		lastEg := uint16(0)
		var next addr.IA
		if isBeacon {
			lastEg, next = 4, allASes[1]
		}
		mk := func(label string, hops []hopSpec, peers []peerSpec) *variant {
			exp := make([]uint8, len(hops))
			for i := range exp {
				exp[i] = 63
			}
			v, err := buildVariant(label, segSpec{Hops: hops, Peers: peers, InfoTS: baseTS, SignNS: baseTS * 1e9,
				SegID: 7, Exp: exp, Beacon: isBeacon, Next: next})
			if err != nil {
				fmt.Fprintln(os.Stderr, "store:", err)
				os.Exit(2)
			}
			selfCheckVariant(v)
			return v
		}
		x := mk("X", []hopSpec{{a, 0, 1}, {c, 3, lastEg}}, []peerSpec{{At: 0, Peer: b, In: 2, Exp: 63}})
		y := mk("Y", []hopSpec{{a, 0, 1}, {b, 2, 1}, {c, 3, lastEg}}, nil)
		kind := map[bool]string{false: "path", true: "beacon"}[isBeacon]
		r.Eval(1)
		r.Class("directed/" + kind + "/distinct-ids-same-full-id")
		if x.Ref.ID == y.Ref.ID {
			continue
		}
		ctx := context.Background()
		var err1, err2 error
		var stored int
		if !isBeacon {
			name, cfg, cleanup := dbMode{}.open("pathdir")
			backend, err := pathsqlite.New(name, cfg)
			if err != nil {
				fmt.Fprintln(os.Stderr, "store:", err)
				os.Exit(2)
			}
			_, err1 = backend.Insert(ctx, &seg.Meta{Segment: x.PS, Type: seg.TypeDown})
			_, err2 = backend.Insert(ctx, &seg.Meta{Segment: y.PS, Type: seg.TypeDown})
			res, _ := backend.GetAll(ctx)
			stored = len(res)
			backend.Close()
			cleanup()
		} else {
			name, cfg, cleanup := dbMode{}.open("beacondir")
			backend, err := beaconsqlite.New(name, a, cfg)
			if err != nil {
				fmt.Fprintln(os.Stderr, "store:", err)
				os.Exit(2)
			}
			_, err1 = backend.InsertBeacon(ctx, beacon.Beacon{Segment: x.PS, InIfID: 1}, beacon.UsageProp)
			_, err2 = backend.InsertBeacon(ctx, beacon.Beacon{Segment: y.PS, InIfID: 1}, beacon.UsageProp)
			res, _ := backend.GetBeacons(ctx, nil)
			stored = len(res)
			backend.Close()
			cleanup()
		}
		if err1 != nil || err2 != nil || stored != 2 {
			r.Violation("C27:"+kind+":insert-rejected/full-id-coincides",
				fmt.Sprintf("two segments with different ids were inserted; errors %v / %v, %d stored (expected 2): "+
					"the peer entry of X hashes like the second hop of Y, so both have the same FullID and the UNIQUE(FullID) "+
					"column rejects the second", err1, err2, stored),
				map[string]any{"db": kind, "X": x.describe(), "Y": y.describe()})
		}
	}
}

// ---------------------------------------------------------------------------

func parallel(n, workers int, f func(i int)) {
	var wg sync.WaitGroup
	ch := make(chan int)
	for w := 0; w < workers; w++ {
		wg.Add(1)
		go func() {
			defer wg.Done()
			for i := range ch {
				f(i)
			}
		}()
	}
	for i := 0; i < n; i++ {
		ch <- i
	}
	close(ch)
	wg.Wait()
}

// devLimit lets a developer time a small run (STORE_DEV_LIMIT=n); the driver
// never sets it.
func devLimit(n int) int {
	var v int
	if _, err := fmt.Sscan(os.Getenv("STORE_DEV_LIMIT"), &v); err == nil && v > 0 {
		return min(n, v)
	}
	return n
}

var shrinkBudget sync.Map // key -> *atomic.Int64

// reportMu serialises shrink+report so that the violations mon prints (the
// first three per key) are exactly the ones that were shrunk.
var reportMu sync.Mutex

// wantShrink: only the first few violations per key are shrunk (mon prints
// three per key anyway).
func wantShrink(key string) bool {
	c, _ := shrinkBudget.LoadOrStore(key, new(atomic.Int64))
	return c.(*atomic.Int64).Add(1) <= 3
}

func workers() int { return max(2, min(16, runtime.NumCPU())) }

func checkC27(r *mon.Run) {
	r.Rule = "sequential histories of 24-40 operations (insert new/older/equal/newer version with type, group set, " +
		"usage, ingress interface; delete by id prefix; delete-expired(now) at expiry boundaries; Get/GetBeacons with " +
		"random filter combinations; CandidateBeacons; next-query insert/get; transactions) over per-history pools of 3-6 " +
		"segment ids x 3-4 versions on few ASes and interface ids 1..3, run against a fresh raw sqlite back-end " +
		"(in-memory, file, file + unjudged concurrent reader); after every mutating operation the full content and after " +
		"every query the result set is compared with verif/storeref; class = database/operation/relation-or-filter-set/outcome"
	r.Assumptions = []string{
		"operations are issued sequentially; the concurrent reader only feeds the race detector and is not judged",
		"times passed to delete-expired / ValidAt are whole seconds; between the earliest and the latest hop expiry (and, for the path DB, exactly at the expiry instant) the statement does not decide and either outcome is accepted",
		"path DB: StartsAt/EndsAt patterns with a zero ISD are not generated (only I-0 is a documented wildcard there); group lists passed to InsertWithHPGroupIDs are non-empty; usage 0 is not used as a filter",
		"CandidateBeacons: 'length order up to the requested count' is read as a length-ordered listing of all matching beacons cut at min(count, matching)",
		"the harness' own SHA-256 segment id is cross-checked against pkg/segment at pool construction",
	}
	dir := scratchDir()
	defer os.RemoveAll(dir)

	if rp := r.ReplayFile(); rp != "" {
		var w struct {
			Seed    int64 `json:"seed"`
			Witness struct {
				DB      string `json:"db"`
				History int    `json:"history"`
			} `json:"witness"`
		}
		b, err := os.ReadFile(rp)
		if err != nil || json.Unmarshal(b, &w) != nil {
			fmt.Fprintln(os.Stderr, "store: cannot read replay file")
			os.Exit(2)
		}
		r.Seed = w.Seed
		if w.Witness.DB == "beacon" {
			oneBeaconHistory(r, w.Witness.History, dir)
		} else {
			onePathHistory(r, w.Witness.History, dir)
		}
		r.Sample(map[string]any{"replayed": rp})
		r.Class("replay")
		r.Class("replay/" + w.Witness.DB)
		return
	}

	directedFullIDCollision(r)
	nPath := devLimit(r.Pick(450, 12000))
	nBeacon := devLimit(r.Pick(400, 10000))
	parallel(nPath, workers(), func(i int) { onePathHistory(r, i, dir) })
	parallel(nBeacon, workers(), func(i int) { oneBeaconHistory(r, i, dir) })

	r.Require(int64(nPath+nBeacon)*20, 150,
		"path_insert_new", "path_insert_newer", "path_insert_equal", "path_insert_same", "path_insert_older",
		"path_delete", "path_delete_expired", "path_get", "path_get_interrupted_answered", "path_next_query", "path_tx_commit", "path_tx_rollback",
		"beacon_insert_new", "beacon_insert_newer", "beacon_insert_equal", "beacon_insert_same", "beacon_insert_older",
		"beacon_delete", "beacon_delete_expired", "beacon_get", "beacon_candidates",
		"path_history_memory", "path_history_file", "path_history_file+reader", "path_concurrent_reads", "beacon_concurrent_reads")
}
