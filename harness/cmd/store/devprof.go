package main

import (
	"os"
	"runtime/pprof"
)

// devProfile starts a CPU profile when STORE_DEV_PROFILE names a file
// (developer aid; the driver never sets it).
func devProfile() func() {
	p := os.Getenv("STORE_DEV_PROFILE")
	if p == "" {
		return func() {}
	}
	f, err := os.Create(p)
	if err != nil {
		return func() {}
	}
	_ = pprof.StartCPUProfile(f)
	return func() { pprof.StopCPUProfile(); f.Close() }
}
