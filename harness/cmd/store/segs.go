package main

// Construction of small pools of overlapping beacons / path segments with
// pkg/segment's own constructors and a dummy signer (the databases never
// verify signatures), together with the facts the reference models need about
// each concrete version. Those facts (id, version, first/last AS, interfaces,
// expiry window) are derived here from the generator's specification, not
// from the segment's methods.

import (
	"context"
	"crypto/sha256"
	"encoding/binary"
	"encoding/hex"
	"encoding/json"
	"fmt"
	"math/rand/v2"
	"os"
	"strings"
	"time"

	"google.golang.org/protobuf/proto"
	"google.golang.org/protobuf/types/known/timestamppb"

	"github.com/scionproto/scion/pkg/addr"
	cryptopb "github.com/scionproto/scion/pkg/proto/crypto"
	seg "github.com/scionproto/scion/pkg/segment"

	"verif/storeref"
)

const (
	baseTS      = int64(1_700_000_000) // seconds
	expUnitNano = int64(24*time.Hour) / 256
)

var allASes = []addr.IA{
	addr.MustParseIA("1-ff00:0:110"),
	addr.MustParseIA("1-ff00:0:120"),
	addr.MustParseIA("1-ff00:0:111"),
	addr.MustParseIA("1-ff00:0:112"),
	addr.MustParseIA("2-ff00:0:210"),
	addr.MustParseIA("2-ff00:0:211"),
	addr.MustParseIA("1-64496"),
	addr.MustParseIA("65535-ffff:ffff:ffff"),
}

type hopSpec struct {
	IA addr.IA `json:"ia"`
	In uint16  `json:"in"`
	Eg uint16  `json:"eg"`
}

// expList is a list of hop-field ExpTime values (JSON: numbers, not base64).
type expList []uint8

func (e expList) MarshalJSON() ([]byte, error) {
	out := make([]int, len(e))
	for i, x := range e {
		out[i] = int(x)
	}
	return json.Marshal(out)
}

type peerSpec struct {
	At   int     `json:"at"`
	Peer addr.IA `json:"peer"`
	In   uint16  `json:"in"`
	Exp  uint8   `json:"exp"`
}

type segSpec struct {
	Hops   []hopSpec  `json:"hops"`
	Peers  []peerSpec `json:"peers,omitempty"`
	InfoTS int64      `json:"info_ts"`
	SegID  uint16     `json:"seg_id"`
	// SignNS is the signing time of the last AS entry (ns).
	SignNS int64   `json:"sign_ns"`
	Exp    expList `json:"exp"`
	Beacon bool    `json:"beacon,omitempty"`
	Next   addr.IA `json:"next,omitempty"`
}

// variant is one concrete version of a segment id.
type variant struct {
	Label  string
	Spec   segSpec
	PS     *seg.PathSegment
	Ref    storeref.Seg
	IDRaw  []byte
	BadSig bool // C45: the scripted verifier rejects it
}

func (v *variant) describe() map[string]any {
	return map[string]any{"label": v.Label, "id": v.Ref.ID[:12], "version": v.Ref.Version,
		"content": v.Ref.Content, "spec": v.Spec, "bad_sig": v.BadSig}
}

type fakeSigner struct{ ts time.Time }

// Sign builds a structurally valid signed message (header with algorithm,
// signing time and associated-data length; body) with a deterministic dummy
// signature.
func (s fakeSigner) Sign(_ context.Context, msg []byte, ad ...[]byte) (*cryptopb.SignedMessage, error) {
	n := 0
	for _, d := range ad {
		n += len(d)
	}
	rawHdr, err := proto.MarshalOptions{Deterministic: true}.Marshal(&cryptopb.Header{
		SignatureAlgorithm:   cryptopb.SignatureAlgorithm_SIGNATURE_ALGORITHM_ECDSA_WITH_SHA256,
		Timestamp:            timestamppb.New(s.ts),
		AssociatedDataLength: int32(n),
	})
	if err != nil {
		return nil, err
	}
	hb, err := proto.MarshalOptions{Deterministic: true}.Marshal(&cryptopb.HeaderAndBody{Header: rawHdr, Body: msg})
	if err != nil {
		return nil, err
	}
	h := sha256.New()
	h.Write(hb)
	for _, d := range ad {
		h.Write(d)
	}
	return &cryptopb.SignedMessage{HeaderAndBody: hb, Signature: h.Sum(nil)}, nil
}

// refHash is the documented segment identifier: SHA-256 over (ISD-AS, ingress,
// egress) of every hop, big endian; with peers it is the "full" identifier.
func refHash(sp segSpec, withPeers bool) []byte {
	h := sha256.New()
	var b [12]byte
	for i, hp := range sp.Hops {
		binary.BigEndian.PutUint64(b[0:], uint64(hp.IA))
		binary.BigEndian.PutUint16(b[8:], hp.In)
		binary.BigEndian.PutUint16(b[10:], hp.Eg)
		h.Write(b[:])
		if !withPeers {
			continue
		}
		for _, p := range sp.Peers {
			if p.At != i {
				continue
			}
			binary.BigEndian.PutUint64(b[0:], uint64(p.Peer))
			binary.BigEndian.PutUint16(b[8:], p.In)
			binary.BigEndian.PutUint16(b[10:], hp.Eg)
			h.Write(b[:])
		}
	}
	return h.Sum(nil)
}

func hexUp(b []byte) string { return strings.ToUpper(hex.EncodeToString(b)) }

// fingerprint identifies the concrete bytes of a segment version.
func fingerprint(ps *seg.PathSegment) string {
	h := sha256.New()
	var l [4]byte
	w := func(b []byte) {
		binary.BigEndian.PutUint32(l[:], uint32(len(b)))
		h.Write(l[:])
		h.Write(b)
	}
	w(ps.Info.Raw)
	for _, e := range ps.ASEntries {
		if e.Signed == nil {
			w(nil)
			continue
		}
		w(e.Signed.HeaderAndBody)
		w(e.Signed.Signature)
	}
	return hex.EncodeToString(h.Sum(nil))[:16]
}

func buildVariant(label string, sp segSpec) (*variant, error) {
	ps, err := seg.CreateSegment(time.Unix(sp.InfoTS, 0), sp.SegID)
	if err != nil {
		return nil, err
	}
	ref := storeref.Seg{
		First:  storeref.IA(sp.Hops[0].IA),
		Last:   storeref.IA(sp.Hops[len(sp.Hops)-1].IA),
		Hops:   len(sp.Hops),
		InfoTS: sp.InfoTS * 1e9,
	}
	minTTL, maxTTL := int64(1<<62), int64(0)
	ttl := func(e uint8) {
		d := (int64(e) + 1) * expUnitNano
		minTTL, maxTTL = min(minTTL, d), max(maxTTL, d)
	}
	for i, hp := range sp.Hops {
		var next addr.IA
		switch {
		case i+1 < len(sp.Hops):
			next = sp.Hops[i+1].IA
		case sp.Beacon:
			next = sp.Next
		}
		ase := seg.ASEntry{
			Local: hp.IA, Next: next, MTU: 1400 + i,
			HopEntry: seg.HopEntry{IngressMTU: 1300, HopField: seg.HopField{
				ExpTime: sp.Exp[i], ConsIngress: hp.In, ConsEgress: hp.Eg,
				MAC: [6]byte{byte(i), 1, 2, 3, 4, byte(sp.SegID)},
			}},
		}
		ttl(sp.Exp[i])
		if hp.In != 0 {
			ref.Ifaces = append(ref.Ifaces, storeref.Iface{IA: storeref.IA(hp.IA), ID: uint64(hp.In)})
		}
		if hp.Eg != 0 {
			ref.Ifaces = append(ref.Ifaces, storeref.Iface{IA: storeref.IA(hp.IA), ID: uint64(hp.Eg)})
		}
		for _, p := range sp.Peers {
			if p.At != i {
				continue
			}
			ase.PeerEntries = append(ase.PeerEntries, seg.PeerEntry{
				Peer: p.Peer, PeerInterface: 7, PeerMTU: 1200,
				HopField: seg.HopField{ExpTime: p.Exp, ConsIngress: p.In, ConsEgress: hp.Eg,
					MAC: [6]byte{9, 9, 9, byte(i), 0, 1}},
			})
			ttl(p.Exp)
			if p.In != 0 {
				ref.Ifaces = append(ref.Ifaces, storeref.Iface{IA: storeref.IA(hp.IA), ID: uint64(p.In)})
			}
		}
		ts := time.Unix(sp.InfoTS, 0)
		if i == len(sp.Hops)-1 {
			ts = time.Unix(0, sp.SignNS)
		}
		if err := ps.AddASEntry(context.Background(), ase, fakeSigner{ts: ts}); err != nil {
			return nil, err
		}
	}
	ref.MinExpiry, ref.MaxExpiry = ref.InfoTS+minTTL, ref.InfoTS+maxTTL
	id := refHash(sp, false)
	ref.ID = hexUp(id)
	if sp.Beacon {
		ref.Version = sp.InfoTS * 1e9
	} else {
		ref.Version = sp.SignNS
	}
	ref.Content = fingerprint(ps)
	return &variant{Label: label, Spec: sp, PS: ps, Ref: ref, IDRaw: id}, nil
}

// selfCheckVariant makes sure the harness' independent notion of the segment
// identifier agrees with the library's (a harness assumption, not the property).
func selfCheckVariant(v *variant) {
	if hexUp(v.PS.ID()) != v.Ref.ID {
		fmt.Fprintf(os.Stderr, "store: harness id computation disagrees with pkg/segment for %+v\n", v.Spec)
		os.Exit(2)
	}
	val := seg.ValidateSegment
	if v.Spec.Beacon {
		val = seg.ValidateBeacon
	}
	if err := v.PS.Validate(val); err != nil {
		fmt.Fprintf(os.Stderr, "store: generated segment is not valid: %v (%+v)\n", err, v.Spec)
		os.Exit(2)
	}
}

type poolOpts struct {
	beacon    bool
	shapes    int
	variants  int // per shape
	ases      []addr.IA
	maxIf     int
	downOnly  bool // C45: nothing special about the shape, kept for labels
	lastFixed []addr.IA
}

// genPool generates `shapes` distinct hop sequences over a few ASes and small
// interface ids (so that first/last ASes and interfaces overlap between
// segment ids) and a few versions of each (version time, creation time, hop
// expiry, peer entries vary).
func genPool(rng *rand.Rand, o poolOpts) []*variant {
	var pool []*variant
	seenID := map[string]bool{}
	fullIDs := map[string]string{} // full id -> segment id
	for s := 0; len(seenID) < o.shapes && s < o.shapes*20; s++ {
		n := []int{1, 2, 2, 2, 3, 3, 4}[rng.IntN(7)]
		hops := make([]hopSpec, n)
		for i := range hops {
			ia := o.ases[rng.IntN(len(o.ases))]
			if i == n-1 && len(o.lastFixed) > 0 {
				ia = o.lastFixed[rng.IntN(len(o.lastFixed))]
			}
			for i > 0 && ia == hops[i-1].IA {
				ia = o.ases[rng.IntN(len(o.ases))]
			}
			hops[i] = hopSpec{IA: ia, In: uint16(1 + rng.IntN(o.maxIf)), Eg: uint16(1 + rng.IntN(o.maxIf))}
		}
		hops[0].In = 0
		if !o.beacon {
			hops[n-1].Eg = 0
		}
		next := o.ases[rng.IntN(len(o.ases))]
		for next == hops[n-1].IA {
			next = allASes[rng.IntN(len(allASes))]
		}
		base := segSpec{Hops: hops, Beacon: o.beacon}
		if o.beacon {
			base.Next = next
		}
		id := hexUp(refHash(base, false))
		if seenID[id] {
			continue
		}
		shapeIdx := len(seenID)
		seenID[id] = true
		for k := 0; k < o.variants; k++ {
			sp := base
			sp.SegID = uint16(rng.IntN(1 << 16))
			sp.InfoTS = baseTS + []int64{0, 0, -600, 600, 1, 2}[rng.IntN(6)]
			sp.SignNS = baseTS*1e9 + []int64{0, 1, 1e9, -1e9, 2e9, 1e9 + 1, 5e8}[rng.IntN(7)]
			if o.beacon {
				sp.SignNS = sp.InfoTS * 1e9
			}
			sp.Exp = make([]uint8, n)
			e := []uint8{0, 1, 5, 63, 255}[rng.IntN(5)]
			for i := range sp.Exp {
				sp.Exp[i] = e
			}
			if n > 1 && rng.IntN(4) == 0 { // mixed hop expiries
				sp.Exp[rng.IntN(n)] = []uint8{0, 2, 7}[rng.IntN(3)]
			}
			if rng.IntN(3) == 0 {
				sp.Peers = []peerSpec{{At: rng.IntN(n), Peer: allASes[rng.IntN(len(allASes))],
					In: uint16(1 + rng.IntN(o.maxIf+1)), Exp: e}}
			}
			// Two different segment ids whose "full" ids coincide (a peer entry
			// of one reads like a hop of the other) are kept out of the random
			// pools; that coincidence has its own directed case.
			full := hexUp(refHash(sp, true))
			if other, ok := fullIDs[full]; ok && other != id {
				sp.Peers = nil
				full = hexUp(refHash(sp, true))
				if other, ok := fullIDs[full]; ok && other != id {
					continue
				}
			}
			fullIDs[full] = id
			v, err := buildVariant(fmt.Sprintf("s%d/v%d", shapeIdx, k), sp)
			if err != nil {
				fmt.Fprintf(os.Stderr, "store: cannot build segment: %v\n", err)
				os.Exit(2)
			}
			selfCheckVariant(v)
			pool = append(pool, v)
		}
	}
	return pool
}

func pickASes(rng *rand.Rand, n int) []addr.IA {
	p := rng.Perm(len(allASes))
	out := make([]addr.IA, 0, n)
	for _, i := range p[:n] {
		out = append(out, allASes[i])
	}
	return out
}

// scratchDir returns a fresh directory for database files, on tmpfs if there
// is one (the file-backed histories commit several thousand transactions).
func scratchDir() string {
	for _, base := range []string{"/dev/shm", ""} {
		if d, err := os.MkdirTemp(base, "verif-store-"); err == nil {
			return d
		}
	}
	fmt.Fprintln(os.Stderr, "store: cannot create scratch directory")
	os.Exit(2)
	return ""
}
