package main

import (
	"context"
	"encoding/binary"
	"errors"
	"fmt"
	"net"
	"net/netip"
	"sync"
	"syscall"
	"time"

	"github.com/scionproto/scion/pkg/addr"
	"github.com/scionproto/scion/private/underlay/conn"
	"github.com/scionproto/scion/router"

	"verif/mon"
	"verif/rfix"
)

// Send-path phase of C11: the data plane is RUN on in-memory connections and
// the internal socket accepts only part of the batches handed to it (as
// sendmmsg does under EPERM / ENOBUFS / EMSGSIZE), so that the router has to
// retry the rest. Every datagram the socket accepted is compared with the
// destination derived from the packet it carries.

type c11Dgram struct {
	b   []byte
	src *net.UDPAddr
}

type c11Out struct {
	dst netip.AddrPort
	b   []byte
}

type c11Conn struct {
	in       chan c11Dgram
	closed   chan struct{}
	once     sync.Once
	mu       sync.Mutex
	out      []c11Out
	partial  func(n int) (int, error) // nil: accept everything
	calls    int
	partials int
}

func (c *c11Conn) ReadBatch(msgs conn.Messages) (int, error) {
	select {
	case d := <-c.in:
		n := copy(msgs[0].Buffers[0], d.b)
		msgs[0].N = n
		msgs[0].Addr = d.src
		return 1, nil
	case <-c.closed:
		return 0, errors.New("closed")
	}
}

func (c *c11Conn) WriteBatch(msgs conn.Messages, _ int) (int, error) {
	c.mu.Lock()
	defer c.mu.Unlock()
	c.calls++
	k, err := len(msgs), error(nil)
	if c.partial != nil {
		k, err = c.partial(len(msgs))
		if k < len(msgs) {
			c.partials++
		}
	}
	for _, m := range msgs[:k] {
		o := c11Out{b: append([]byte{}, m.Buffers[0]...)}
		if a, ok := m.Addr.(*net.UDPAddr); ok && a != nil {
			o.dst = a.AddrPort()
		}
		c.out = append(c.out, o)
	}
	return k, err
}

func (c *c11Conn) Close() error {
	c.once.Do(func() { close(c.closed) })
	return nil
}

type c11Opener struct {
	mu       sync.Mutex
	internal *c11Conn
	ext      map[uint16]*c11Conn
	mk       func(internal bool) *c11Conn
}

func (o *c11Opener) Open(l, r netip.AddrPort, _ *conn.Config) (router.BatchConn, error) {
	o.mu.Lock()
	defer o.mu.Unlock()
	if r.IsValid() && r.Addr().Is4() && r.Addr().As4()[0] == 203 {
		a := r.Addr().As4()
		c := o.mk(false)
		o.ext[uint16(a[2])<<8|uint16(a[3])] = c
		return c, nil
	}
	c := o.mk(o.internal == nil)
	if o.internal == nil {
		o.internal = c
	}
	return c, nil
}

func (o *c11Opener) UDPCanReuseLocal() bool { return true }

func c11SendPhase(r *mon.Run) {
	rounds := r.Pick(8, 80)
	for round := 0; round < rounds; round++ {
		rng := r.Rand(fmt.Sprintf("c11-run-%d", round))
		key := make([]byte, 16)
		for i := range key {
			key[i] = byte(rng.IntN(256))
		}
		mode := rng.IntN(3)
		op := &c11Opener{ext: map[uint16]*c11Conn{}}
		op.mk = func(internal bool) *c11Conn {
			c := &c11Conn{in: make(chan c11Dgram, 8192), closed: make(chan struct{})}
			if internal {
				prng := r.Rand(fmt.Sprintf("c11-run-%d-partial", round))
				c.partial = func(n int) (int, error) {
					if n <= 1 || prng.IntN(3) == 0 {
						return n, nil
					}
					k := prng.IntN(n) // 0..n-1 accepted
					switch mode {
					case 0:
						return k, nil
					case 1:
						return k, syscall.EPERM
					default:
						if prng.IntN(2) == 0 {
							return k, syscall.ENOBUFS
						}
						return k, nil
					}
				}
			}
			return c
		}
		ifs := rfix.StdIfs(rng)
		s, err := rfix.NewStarRun(rfix.StarCfg{
			IA: addr.MustIAFrom(1, addr.AS(0xff00_0000_0310+uint64(round))), HopKey: rfix.DeriveHopKey(key),
			Ifs: ifs, ReuseLocal: true, Opener: op, RangeSet: true, PortStart: 31000, PortEnd: 32767,
		}, rfix.RunCfg{NumProcessors: 1 + rng.IntN(3), NumSlowPathProcessors: 1, BatchSize: []int{8, 16, 64}[rng.IntN(3)]})
		if err != nil {
			panic(err)
		}
		ctx, cancel := context.WithCancel(context.Background())
		runErr := make(chan error, 1)
		go func() { runErr <- s.C.DataPlane.Run(ctx) }()
		for deadline := time.Now().Add(5 * time.Second); !router.VerifIsRunning(s.C) && time.Now().Before(deadline); {
			time.Sleep(time.Millisecond)
		}
		if !router.VerifIsRunning(s.C) || op.internal == nil {
			r.Inconclusive("data-plane-not-started")
			cancel()
			continue
		}
		// packets for many hosts and ports of the local AS, arriving over external interfaces
		type exp struct{ dst netip.AddrPort }
		want := map[uint64]exp{}
		nPkts := 600
		sent := 0
		for i := 0; i < nPkts; i++ {
			sc := s.GenScenario(rng, rfix.ShDst, time.Now().Unix())
			if sc.Arr != rfix.ArrExternal || sc.In.IfID == 0 {
				continue
			}
			ing := op.ext[sc.In.IfID]
			if ing == nil {
				continue
			}
			host := netip.AddrFrom4([4]byte{10, 0, byte(200 + rng.IntN(4)), byte(1 + rng.IntN(30))})
			port := uint16(1 + rng.IntN(65535))
			if rng.IntN(2) == 0 {
				port = uint16(31000 + rng.IntN(1768))
			}
			sc.DstHost = addr.HostIP(host)
			tag := uint64(round)<<32 | uint64(i)
			b, err := sc.Packet(rng, func(p *rfix.PktSpec) {
				p.L4 = rfix.L4UDP
				p.DstPort = port
				p.HBH, p.E2E = false, false
				p.Payload = make([]byte, 8)
				binary.BigEndian.PutUint64(p.Payload, tag)
			})
			if err != nil {
				continue
			}
			eport := uint16(30041)
			if port >= 31000 && port <= 32767 {
				eport = port
			}
			want[tag] = exp{netip.AddrPortFrom(host, eport)}
			ing.in <- c11Dgram{b: b, src: net.UDPAddrFromAddrPort(rfix.ExtRemoteAddr(sc.In.IfID))}
			sent++
		}
		// bounded wait for the pipeline to drain; scheduling decides only how much is seen
		for spin := 0; spin < 250; spin++ {
			op.internal.mu.Lock()
			n := len(op.internal.out)
			op.internal.mu.Unlock()
			if n >= sent {
				break
			}
			time.Sleep(time.Millisecond)
		}
		cancel()
		select {
		case <-runErr:
		case <-time.After(5 * time.Second):
			r.Inconclusive("data-plane-did-not-stop")
		}
		op.internal.mu.Lock()
		outs, partials := op.internal.out, op.internal.partials
		op.internal.mu.Unlock()
		seen := 0
		for _, o := range outs {
			if len(o.b) < 8 {
				continue
			}
			tag := binary.BigEndian.Uint64(o.b[len(o.b)-8:])
			w, ok := want[tag]
			if !ok {
				continue
			}
			seen++
			r.Eval(1)
			if o.dst != w.dst {
				r.Violation("C11:send:wrong-destination-after-partial-write",
					fmt.Sprintf("a packet for %s left the internal socket addressed to %s (the socket accepted batches only partially: %d partial writes)", w.dst, o.dst, partials),
					map[string]any{"round": round, "expected": w.dst.String(), "got": o.dst.String(), "partial_write_mode": mode, "packet_hex": mon.Hex(o.b)})
				break
			}
		}
		r.EventN("send_phase_delivered_judged", int64(seen))
		r.EventN("send_phase_partial_writes", int64(partials))
		r.Class(fmt.Sprintf("send-phase/partial-write-mode=%d", mode))
		if partials > 0 {
			r.Event("send_phase_round_with_partial_writes")
		}
	}
}
