// Command routerlocal serves the router properties about local delivery and
// special path types: C11 (dispatched port range), C12 (one-hop paths), C13
// (EPIC) and C17 (socket buffer sizes). All of them configure real data planes
// through router.Connector / control.ConfigDataplane (rfix.NewLocalStar) and
// drive the real packet processors.
package main

import (
	"os"

	"verif/mon"
)

func main() {
	// C17 (b) re-executes this binary under strace as the socket-opening child.
	if os.Getenv(c17ChildEnv) != "" {
		c17Child()
		return
	}
	mon.Main(map[string]func(*mon.Run){
		"C11": checkC11,
		"C12": checkC12,
		"C13": checkC13,
		"C17": checkC17,
	})
}
