package main

import (
	"crypto/aes"
	"encoding/binary"
	"encoding/hex"
	"fmt"
	"math/rand/v2"
	"net"
	"time"

	"github.com/scionproto/scion/pkg/addr"
	"github.com/scionproto/scion/pkg/slayers/path/epic"
	"github.com/scionproto/scion/private/topology"
	"github.com/scionproto/scion/router"

	"verif/mon"
	"verif/rfix"
)

// ---- reference EPIC MAC (doc/protocols/scion-header.rst "EPIC Procedures",
// pkg/experimental/epic comments): CBC-MAC (AES, zero IV) keyed with the hop's
// full 16-byte MAC over
//   flags(1: source host address length bits) | Timestamp of the first info field (4) |
//   PktID (8: EpicTS, Counter) | SrcISD-AS (8) | SrcHostAddr (4..16) | PayloadLen (2) | zero padding
// truncated to 4 bytes. ----

func refEpicMAC(auth [16]byte, sl uint8, infoTs uint32, pktID [8]byte, srcIA uint64, srcHost []byte, payloadLen uint16) [4]byte {
	in := make([]byte, 0, 48)
	in = append(in, sl&3)
	in = binary.BigEndian.AppendUint32(in, infoTs)
	in = append(in, pktID[:]...)
	in = binary.BigEndian.AppendUint64(in, srcIA)
	in = append(in, srcHost...)
	in = binary.BigEndian.AppendUint16(in, payloadLen)
	for len(in)%16 != 0 {
		in = append(in, 0)
	}
	blk, err := aes.NewCipher(auth[:])
	if err != nil {
		panic(err)
	}
	var x [16]byte
	for i := 0; i < len(in); i += 16 {
		for j := 0; j < 16; j++ {
			x[j] ^= in[i+j]
		}
		blk.Encrypt(x[:], x[:])
	}
	var out [4]byte
	copy(out[:], x[:4])
	return out
}

const (
	epicTick       = 21 * time.Microsecond
	epicLifetime   = 2 * time.Second
	epicSkew       = time.Second
	epicWindowPast = epicLifetime + epicSkew // statement: "within the maximum packet lifetime plus clock skew"
)

// epicView is what the reference reads from EPIC packet bytes for the router
// that is about to process them.
type epicView struct {
	ok       bool
	pos      string // "last", "penultimate", "xover-penultimate", "other"
	hvfOK    bool   // the HVF relevant at pos equals the reference EPIC MAC
	senderNs int64  // time the packet claims to have been sent
	n, cur   int
}

// viewEpic judges EPIC packet bytes independently of the generator: position of
// the processing router, the relevant hop's full MAC recomputed under hopKey,
// and the HVF comparison.
func viewEpic(in []byte, hopKey []byte, fromOutside bool) epicView {
	var v epicView
	h, err := rfix.ParseHdr(in)
	if err != nil || h.PathType != 3 {
		return v
	}
	v.ok = true
	v.n, v.cur = h.NumHF, h.CurrHF
	meta := in[h.PathOff : h.PathOff+16]
	var pktID [8]byte
	copy(pktID[:], meta[:8])
	phvf, lhvf := meta[8:12], meta[12:16]
	firstTs := binary.BigEndian.Uint32(in[h.InfoOff[0]+4:])
	epicTS := binary.BigEndian.Uint32(pktID[:4])
	v.senderNs = int64(firstTs)*1e9 + (int64(epicTS)+1)*int64(epicTick)
	// which hop's authenticator matters
	cur := h.CurrHF
	info := in[h.InfoOff[h.CurrINF]:]
	peerFlag := info[0]&2 != 0
	peering := peerFlag && (cur == h.SegLen[0]-1 || cur == h.SegLen[0])
	xover := cur+1 < h.NumHF && h.SegOfHop(cur+1) != h.CurrINF && !peering
	hopIdx, infIdx := -1, h.CurrINF
	var hvf []byte
	switch {
	case cur == h.NumHF-1:
		v.pos, hopIdx, hvf = "last", cur, lhvf
	case cur == h.NumHF-2:
		v.pos, hopIdx, hvf = "penultimate", cur, phvf
	case xover && cur+1 == h.NumHF-2:
		v.pos, hopIdx, infIdx, hvf = "xover-penultimate", cur+1, h.CurrINF+1, phvf
	default:
		v.pos = "other"
		return v
	}
	inf := in[h.InfoOff[infIdx]:]
	hop := in[h.HopOff[hopIdx]:]
	segID := binary.BigEndian.Uint16(inf[2:4])
	if hopIdx == cur && inf[0]&1 == 0 && fromOutside && !peering {
		segID ^= binary.BigEndian.Uint16(hop[6:8])
	}
	full := rfix.HopMAC(hopKey, segID, binary.BigEndian.Uint32(inf[4:8]), hop[1],
		binary.BigEndian.Uint16(hop[2:4]), binary.BigEndian.Uint16(hop[4:6]))
	want := refEpicMAC(full, h.SL, firstTs, pktID, h.SrcIA, h.SrcHost, uint16(h.PayloadLen))
	v.hvfOK = string(want[:]) == string(hvf)
	return v
}

// freshAt: may a packet sent at senderNs be accepted at time t according to
// the statement (within lifetime+skew of the current time)?
func freshAt(senderNs int64, t time.Time) bool {
	d := t.UnixNano() - senderNs
	if d < 0 {
		d = -d
	}
	return d <= int64(epicWindowPast)
}

// surelyFreshAt: inside the window every reading of the documents accepts:
// not older than lifetime+skew, not more than the clock skew in the future.
func surelyFreshAt(senderNs int64, t time.Time) bool {
	d := t.UnixNano() - senderNs
	return d <= int64(epicWindowPast) && d >= -int64(epicSkew)
}

type c13W struct {
	Cfg      *cfgW  `json:"config"`
	Scenario string `json:"scenario"`
	Pos      string `json:"position"`
	Pert     string `json:"perturbation"`
	InIf     uint16 `json:"ingress_if"`
	SrcUDP   string `json:"ingress_src,omitempty"`
	Input    string `json:"input_hex"`
	Plain    string `json:"plain_twin_hex,omitempty"`
	Output   string `json:"output_hex,omitempty"`
	PlainOut string `json:"plain_twin_output_hex,omitempty"`
	OffsetMs int64  `json:"sender_minus_now_ms"`
	Note     string `json:"note,omitempty"`
}

func checkC13(r *mon.Run) {
	r.Rule = "star fixture (12 interfaces, all configuration orders, core/non-core); scenario paths (src/dst/transit/xover/peering roles, 1-3 segments, plus tiny peering paths with 1-hop segments) wrapped as EPIC with PHVF/LHVF from an independent AES-CBC-MAC; " +
		"router placed at last, penultimate, penultimate-after-crossover and other hops; perturbations: sender time at -3s, +1s, +3s boundaries (+-delta) and far off, each MAC input changed after the HVFs were computed " +
		"(src ISD-AS, src host same/other length, payload length, PktID counter, EpicTS tick, first info timestamp), HVF bit flips, swapped HVFs, HVF from another hop's authenticator or from the 6-byte MAC; " +
		"oracle (universal, from the bytes): forwarded/delivered at those positions => |now - sender time| <= 3 s and HVF == reference EPIC MAC under the hop's full MAC; valid and surely fresh => accepted; " +
		"other positions: same disposition, egress, SCMP type/code and output bytes (minus the 16 EPIC bytes, which must be unchanged) as the embedded SCION path sent as a plain SCION packet; class = position/shape/ingress/perturbation/outcome"
	r.Assumptions = []string{
		"the flags byte of the EPIC MAC input carries the source host address length in its two low bits, as pkg/experimental/epic documents (the drawing in scion-header.rst is ambiguous about the bit position)",
		"time: the router reads time.Now() inside; every case is bracketed (t0 before, t1 after) and cases whose freshness verdict differs between t0 and t1 are counted inconclusive; quick tier keeps >= 250 ms from every boundary",
		"sender times between now+1s (clock skew) and now+3s (lifetime+skew) are accepted by neither or either reading of the statement: observed, not judged",
		"a 32-bit HVF collision (2^-32 per case) is ignored",
	}
	if w := (c13W{}); loadReplay(r, &w) {
		c13Replay(r, &w)
		return
	}
	rng := r.Rand("c13")
	nStars := r.Pick(8, 48)
	perStar := r.Pick(3000, 25000)
	for i := 0; i < nStars; i++ {
		w := genCfg(rng)
		w.Order = rfix.LocalOrder(i % int(rfix.NumLocalOrders)).String()
		w.Range = "31000-32767"
		w.Reuse = i%2 == 0
		s := mustStar(w)
		for k := 0; k < perStar; k++ {
			c13Case(r, rng, s, w, k)
		}
	}
	r.Require(int64(nStars*perStar), 80, "valid_accepted_last", "valid_accepted_penultimate", "stale_rejected", "future_rejected",
		"hvf_mismatch_rejected", "other_hop_same_as_scion_forwarded", "other_hop_same_as_scion_rejected",
		"valid_accepted_xover_penultimate", "valid_accepted_peering_1_1_penultimate", "valid_accepted_peering_1_1_last")
}

// genPeerTiny builds a peering path with up-segment length u and down-segment
// length d (1..3 each) with the AS under test at the peering hop of the up
// (atUp) or down segment.
func genPeerTiny(s *rfix.Star, rng *rand.Rand, now int64, u, d int, atUp bool) *rfix.Scn {
	pickIf := func(lt topology.LinkType, not uint16) (rfix.IfSpec, bool) {
		var c []rfix.IfSpec
		for _, f := range s.Cfg.Ifs {
			if f.LinkTo == lt && f.Owned && f.ID != not {
				c = append(c, f)
			}
		}
		if len(c) == 0 {
			return rfix.IfSpec{}, false
		}
		return c[rng.IntN(len(c))], true
	}
	peerIf, ok := pickIf(topology.Peer, 0)
	if !ok {
		return nil
	}
	childIf, ok := pickIf(topology.Child, 0)
	if !ok {
		return nil
	}
	sc := &rfix.Scn{SrcIA: rfix.OtherIA, DstIA: addr.MustParseIA("3-ff00:0:777"), Kinds: []rfix.SegKind{rfix.KUp, rfix.KDown}, ConsDirs: []bool{false, true}}
	sc.SrcHost, sc.DstHost = rfix.RandHost(rng), rfix.RandHost(rng)
	rif := func() uint16 { return uint16(1 + rng.IntN(65535)) }
	type thop struct {
		in, eg uint16
		local  bool
	}
	up := make([]thop, u)
	dn := make([]thop, d)
	for i := range up {
		up[i] = thop{in: rif(), eg: rif()}
	}
	for i := range dn {
		dn[i] = thop{in: rif(), eg: rif()}
	}
	up[0].in = 0
	dn[d-1].eg = 0
	if atUp {
		sc.Shape = rfix.ShPeerUp
		up[u-1].local = true
		up[u-1].eg = peerIf.ID
		if u == 1 {
			sc.SrcIA = s.Cfg.IA
			sc.In = rfix.Ingress{IfID: 0, Src: &net.UDPAddr{IP: sc.SrcHost.IP().AsSlice(), Port: 30000 + rng.IntN(1000)}}
			sc.Arr = rfix.ArrInternal
		} else {
			up[u-1].in = childIf.ID
			sc.In = rfix.Ingress{IfID: childIf.ID}
			sc.Arr = rfix.ArrExternal
			sc.InIf = childIf.ID
		}
		sc.EgIf, sc.EgOwned = peerIf.ID, true
	} else {
		sc.Shape = rfix.ShPeerDown
		dn[0].local = true
		dn[0].in = peerIf.ID
		sc.In = rfix.Ingress{IfID: peerIf.ID}
		sc.Arr = rfix.ArrExternal
		sc.InIf = peerIf.ID
		if d == 1 {
			sc.DstIA = s.Cfg.IA
			sc.Deliver = true
		} else {
			dn[0].eg = childIf.ID
			sc.EgIf, sc.EgOwned = childIf.ID, true
		}
	}
	spec := &rfix.PathSpec{}
	g := 0
	for i, th := range [][]thop{up, dn} {
		consDir := i == 1
		seg := &rfix.Segment{Ts: uint32(now - int64(rng.IntN(3000)) - 5), Peer: true, B0: uint16(rng.IntN(1 << 16)), Hops: make([]rfix.Hop, len(th))}
		for tt, x := range th {
			ci := tt
			if !consDir {
				ci = len(th) - 1 - tt
			}
			hp := &seg.Hops[ci]
			hp.Exp = uint8(20 + rng.IntN(236))
			if consDir {
				hp.ConsIn, hp.ConsEg = x.in, x.eg
			} else {
				hp.ConsIn, hp.ConsEg = x.eg, x.in
			}
			if x.local {
				hp.Key = s.Cfg.HopKey
				sc.LocalHops = append(sc.LocalHops, g)
				spec.Cur = g
			}
			g++
		}
		seg.Seal(rng)
		spec.Segs = append(spec.Segs, rfix.SegUse{Seg: seg, ConsDir: consDir})
	}
	sc.Spec = spec
	return sc
}

// c13Scenario picks a scenario and says where the router stands.
func c13Scenario(rng *rand.Rand, s *rfix.Star, now int64) (*rfix.Scn, string) {
	want := []string{"last", "penultimate", "xover-penultimate", "other", "tiny-peer", "other"}[rng.IntN(6)]
	if want == "tiny-peer" {
		for try := 0; try < 20; try++ {
			sc := genPeerTiny(s, rng, now, 1+rng.IntN(3), 1+rng.IntN(3), rng.IntN(2) == 0)
			if sc != nil {
				return sc, "tiny-peer"
			}
		}
		want = "last"
	}
	for try := 0; try < 400; try++ {
		var shape rfix.Shape
		switch want {
		case "last":
			shape = rfix.ShDst
		case "penultimate":
			shape = []rfix.Shape{rfix.ShTransit, rfix.ShTransit, rfix.ShPeerDown, rfix.ShXover}[rng.IntN(4)]
		case "xover-penultimate":
			shape = rfix.ShXover
		default:
			shape = rfix.Shape(rng.IntN(int(rfix.NumShapes)))
		}
		sc := genScn(s, rng, shape, now)
		n := sc.Spec.NumHops()
		cur := sc.Spec.Cur
		switch want {
		case "last":
			return sc, want
		case "penultimate":
			if cur == n-2 {
				return sc, want
			}
		case "xover-penultimate":
			// arriving at the last hop of a segment with the next segment's first hop at n-2
			if cur == n-3 && len(sc.LocalHops) == 2 && sc.LocalHops[1] == n-2 {
				return sc, want
			}
		default:
			if cur < n-2 && !(len(sc.LocalHops) == 2 && sc.LocalHops[1] == n-2) {
				return sc, want
			}
		}
	}
	return genScn(s, rng, rfix.ShDst, now), "last"
}

var c13Perts = []string{
	"none", "none", "none",
	"time", "time", "time", "time",
	"src-ia", "src-host", "src-host-len", "payload-len", "pktid-counter", "epic-ts-tick", "info-ts",
	"hvf-bit", "hvf-bit", "other-hvf-bit", "hvf-swapped", "wrong-auth", "short-auth", "garbage", "hop-mac-bit",
}

func c13Case(r *mon.Run, rng *rand.Rand, s *rfix.Star, w *cfgW, idx int) {
	now := time.Now()
	sc, _ := c13Scenario(rng, s, now.Unix())
	pert := c13Perts[rng.IntN(len(c13Perts))]
	spec := sc.Spec
	n := spec.NumHops()

	// ---- sender time ----
	off := time.Duration(rng.IntN(1500)-1000) * time.Millisecond // surely fresh: [-1s, +0.5s)
	timeClass := "fresh"
	if pert == "time" {
		delta := time.Duration(250+rng.IntN(1500)) * time.Millisecond
		if r.Thorough() && rng.IntN(2) == 0 {
			delta = []time.Duration{time.Millisecond, 5 * time.Millisecond, 20 * time.Millisecond, 100 * time.Millisecond}[rng.IntN(4)]
		}
		switch rng.IntN(10) {
		case 0:
			off, timeClass = -epicWindowPast-delta, "just-stale"
		case 1:
			off, timeClass = -epicWindowPast+delta, "just-fresh-old"
		case 2:
			off, timeClass = epicSkew-delta, "just-fresh-young"
		case 3:
			off, timeClass = epicSkew+delta/8, "future-1s+"
		case 4:
			off, timeClass = epicWindowPast+delta, "future-3s+"
		case 5:
			off, timeClass = epicWindowPast-delta/8-time.Millisecond, "future-3s-"
		case 6:
			off, timeClass = -time.Duration(4+rng.IntN(900))*time.Second, "stale"
		case 7:
			off, timeClass = time.Duration(4+rng.IntN(3600))*time.Second, "future"
		case 8:
			off, timeClass = -time.Duration(rng.IntN(2900))*time.Millisecond, "fresh-old"
		default:
			off, timeClass = time.Duration(rng.IntN(900))*time.Millisecond, "fresh-young"
		}
	}
	target := now.Add(off)
	// the first info field's timestamp must not be after the sender time
	seg0 := spec.Segs[0].Seg
	if int64(seg0.Ts) > target.Unix()-1 {
		seg0.Ts = uint32(target.Unix() - 1 - int64(rng.IntN(50)))
		seg0.Seal(rng)
	}
	ticks := (target.UnixNano()-int64(seg0.Ts)*1e9)/int64(epicTick) - 1
	if ticks < 0 || ticks >= 1<<32 {
		r.Inconclusive("epic-ts-not-encodable")
		return
	}
	if rng.IntN(16) == 0 {
		// edge values of the 32-bit packet timestamp on a segment created just now:
		// the sender time they denote is up to ~25 h after the segment timestamp
		ticks = int64([...]uint32{0xffffffff, 0xfffffffe, 0, 1, 0x80000000, 0x7fffffff, 0xffff0000}[rng.IntN(7)])
		seg0.Ts = uint32(now.Unix() - int64(rng.IntN(4)))
		seg0.Seal(rng)
		timeClass = "tick-edge"
	}
	var pktID [8]byte
	binary.BigEndian.PutUint32(pktID[:4], uint32(ticks))
	binary.BigEndian.PutUint32(pktID[4:], rng.Uint32())

	// ---- base packet ----
	base := rfix.PktSpec{
		SrcIA: sc.SrcIA, DstIA: sc.DstIA, SrcHost: sc.SrcHost, DstHost: sc.DstHost,
		TC: uint8(rng.IntN(256)), FlowID: uint32(rng.IntN(1 << 20)),
		L4: rfix.L4UDP, SrcPort: uint16(1024 + rng.IntN(60000)), DstPort: uint16(1024 + rng.IntN(60000)),
		Payload: make([]byte, 1+rng.IntN(200)),
	}
	for i := range base.Payload {
		base.Payload[i] = byte(rng.IntN(256))
	}
	// what the source "claims" when computing the HVFs
	claimSrcIA, claimSrcHost, claimPayload, claimID, claimTs := base.SrcIA, base.SrcHost, len(base.Payload), pktID, seg0.Ts
	var infoTsDelta int64
	switch pert {
	case "src-ia":
		claimSrcIA = addr.MustIAFrom(addr.ISD(1+rng.IntN(60000)), addr.AS(1+rng.Uint64N(1<<40)))
		if claimSrcIA == base.SrcIA {
			claimSrcIA++
		}
	case "src-host", "src-host-len":
		for {
			claimSrcHost = rfix.RandHost(rng)
			same := claimSrcHost.IP().Is4() == base.SrcHost.IP().Is4()
			if claimSrcHost != base.SrcHost && same == (pert == "src-host") {
				break
			}
		}
	case "payload-len":
		claimPayload = len(base.Payload) + 1 + rng.IntN(50)
	case "pktid-counter":
		claimID[4+rng.IntN(4)] ^= 1 << rng.IntN(8)
	case "epic-ts-tick":
		t := binary.BigEndian.Uint32(claimID[:4])
		if rng.IntN(2) == 0 && t > 100 {
			t -= uint32(1 + rng.IntN(100))
		} else {
			t += uint32(1 + rng.IntN(100))
		}
		binary.BigEndian.PutUint32(claimID[:4], t)
	case "info-ts":
		// the HVFs are computed over another first-info-field timestamp than the packet carries
		infoTsDelta = int64(1 + rng.IntN(3))
		claimTs = uint32(int64(seg0.Ts) - infoTsDelta)
	}
	dec := spec.Decoded(sc.Arr)
	plainSpec := base
	plainSpec.Path, plainSpec.PathType = dec, 1
	plain, err := plainSpec.Build()
	if err != nil {
		r.Inconclusive("build-error")
		return
	}
	ph, err := rfix.ParseHdr(plain)
	if err != nil {
		r.Violation("C13:fixture-parse", "reference parser rejects a generated packet: "+err.Error(), c13W{Cfg: w, Input: hex.EncodeToString(plain)})
		return
	}
	// claimed MAC inputs -> HVFs
	claimRaw := func() (uint8, []byte) {
		ip := claimSrcHost.IP()
		if ip.Is4() {
			b := ip.As4()
			return 0, b[:]
		}
		b := ip.As16()
		return 3, b[:]
	}
	sl, srcRaw := claimRaw()
	payloadLen := ph.PayloadLen - len(base.Payload) + claimPayload
	hvfFor := func(g int) [4]byte {
		return refEpicMAC(spec.HopAt(g).Full, sl, claimTs, claimID, uint64(claimSrcIA), srcRaw, uint16(payloadLen))
	}
	var phvf, lhvf [4]byte
	if n >= 2 {
		phvf = hvfFor(n - 2)
	}
	lhvf = hvfFor(n - 1)
	// which HVF is "mine"
	gen := viewEpicPos(spec, sc)
	mine, otherHVF := &lhvf, &phvf
	if gen != "last" {
		mine, otherHVF = &phvf, &lhvf
	}
	switch pert {
	case "hvf-bit":
		b := rng.IntN(32)
		mine[b/8] ^= 1 << (b % 8)
	case "other-hvf-bit":
		b := rng.IntN(32)
		otherHVF[b/8] ^= 1 << (b % 8)
	case "hvf-swapped":
		phvf, lhvf = lhvf, phvf
	case "wrong-auth":
		g := rng.IntN(n)
		for n > 1 && (g == n-1 && gen == "last" || g == n-2 && gen != "last") {
			g = rng.IntN(n)
		}
		*mine = hvfFor(g)
		if n == 1 {
			mine[0] ^= 1
		}
	case "short-auth":
		var a [16]byte
		g := n - 1
		if gen != "last" {
			g = n - 2
		}
		copy(a[:], spec.HopAt(g).Mac[:])
		*mine = refEpicMAC(a, sl, claimTs, claimID, uint64(claimSrcIA), srcRaw, uint16(payloadLen))
	case "garbage":
		binary.BigEndian.PutUint32(phvf[:], rng.Uint32())
		binary.BigEndian.PutUint32(lhvf[:], rng.Uint32())
	}
	ep := &epic.Path{
		PktID: epic.PktID{Timestamp: binary.BigEndian.Uint32(pktID[:4]), Counter: binary.BigEndian.Uint32(pktID[4:])},
		PHVF:  phvf[:], LHVF: lhvf[:],
		ScionPath: rfix.RawPath(dec),
	}
	epSpec := base
	epSpec.Path, epSpec.PathType = ep, 3
	in, err := epSpec.Build()
	if err != nil {
		r.Inconclusive("build-error")
		return
	}
	if pert == "hop-mac-bit" {
		// the same damage to the current hop field in both twins
		eh, err := rfix.ParseHdr(in)
		if err != nil {
			r.Violation("C13:fixture-parse", "reference parser rejects a generated EPIC packet: "+err.Error(), c13W{Cfg: w, Input: hex.EncodeToString(in)})
			return
		}
		b := rng.IntN(48)
		in[eh.HopOff[eh.CurrHF]+6+b/8] ^= 1 << (b % 8)
		plain[ph.HopOff[ph.CurrHF]+6+b/8] ^= 1 << (b % 8)
	}
	c13Judge(r, s, w, sc, in, plain, pert, timeClass, idx)
}

// viewEpicPos is the generator's own idea of the position (only used to decide
// which HVF a perturbation targets).
func viewEpicPos(spec *rfix.PathSpec, sc *rfix.Scn) string {
	n := spec.NumHops()
	switch {
	case spec.Cur == n-1:
		return "last"
	case spec.Cur == n-2:
		return "penultimate"
	case spec.Cur == n-3 && len(sc.LocalHops) == 2 && sc.LocalHops[1] == n-2:
		return "xover-penultimate"
	}
	return "other"
}

func c13Judge(r *mon.Run, s *rfix.Star, w *cfgW, sc *rfix.Scn, in, plain []byte, pert, timeClass string, idx int) {
	fromOutside := true
	shape, ing, scDesc := "replay", "replay", "replay"
	var ingress rfix.Ingress
	if sc != nil {
		fromOutside = sc.Arr == rfix.ArrExternal
		ingress = sc.In
		shape = sc.Shape.String()
		ing = "external"
		if sc.In.IfID == 0 {
			ing = "host"
		} else if !fromOutside {
			ing = "sibling"
		}
		scDesc = fmt.Sprintf("%s kinds=%v consdir=%v in=%d eg=%d arr=%d cur=%d/%d", sc.Shape, sc.Kinds, sc.ConsDirs, sc.InIf, sc.EgIf, sc.Arr, sc.Spec.Cur, sc.Spec.NumHops())
	}
	v := viewEpic(in, s.Cfg.HopKey, fromOutside)
	if !v.ok {
		r.Violation("C13:fixture-parse", "reference cannot read the generated EPIC packet", c13W{Cfg: w, Input: hex.EncodeToString(in)})
		return
	}
	t0 := time.Now()
	res := s.Process(in, ingress)
	t1 := time.Now()
	r.Eval(1)
	wit := func(note string, pres *rfix.Result) c13W {
		x := c13W{Cfg: w, Scenario: scDesc, Pos: v.pos, Pert: pert + "/" + timeClass, InIf: ingress.IfID, Input: hex.EncodeToString(in),
			Plain: hex.EncodeToString(plain), Output: hex.EncodeToString(res.Out), OffsetMs: (v.senderNs - t0.UnixNano()) / 1e6, Note: note}
		if ingress.Src != nil {
			x.SrcUDP = ingress.Src.String()
		}
		if pres != nil {
			x.PlainOut = hex.EncodeToString(pres.Out)
		}
		return x
	}
	if res.Panic != "" {
		r.Violation("C13:panic:"+mon.PanicSite(res.Stack), "panic: "+res.Panic, wit(res.Stack, nil))
		return
	}
	outcome := "drop"
	if res.Forwarded() {
		outcome = "forward"
		if res.OutScope == router.Internal {
			outcome = "deliver"
		}
	} else if res.ViaSlow {
		outcome = fmt.Sprintf("scmp-%d-%d", res.SlowKind, res.SlowCode)
	}
	r.Class(fmt.Sprintf("%s/%s/%s/%s/%s/%s", v.pos, shape, ing, pert, timeClass, outcome))
	if r.WantSample() && idx%499 == 0 {
		r.Sample(wit("", nil))
	}
	if v.pos == "other" {
		c13Twin(r, s, ingress, in, plain, &res, wit)
		return
	}
	f0, f1 := freshAt(v.senderNs, t0), freshAt(v.senderNs, t1)
	if res.Forwarded() {
		if !f0 && !f1 {
			r.Violation("C13:accepted-stale:"+v.pos, fmt.Sprintf("EPIC packet accepted at its %s hop although its sender time is %d ms away from now (limit 3000 ms)", v.pos, (v.senderNs-t0.UnixNano())/1e6), wit("", nil))
			return
		}
		if !v.hvfOK {
			r.Violation("C13:accepted-bad-hvf:"+v.pos, fmt.Sprintf("EPIC packet accepted at its %s hop although the hop validation field is not the EPIC MAC of that hop's authenticator over the packet's source, payload length, packet id and timestamp", v.pos), wit("", nil))
			return
		}
		if f0 != f1 {
			r.Inconclusive("time-bracket")
			return
		}
		r.Event("valid_accepted_" + map[string]string{"last": "last", "penultimate": "penultimate", "xover-penultimate": "penultimate"}[v.pos])
		if v.pos == "xover-penultimate" {
			r.Event("valid_accepted_xover_penultimate")
		}
		if v.n == 2 && (shape == "peer-up" || shape == "peer-down") {
			// two-hop peering path (segment lengths 1,1): the first hop is penultimate and a peering hop
			r.Event("valid_accepted_peering_1_1_" + v.pos)
		}
		return
	}
	// rejected
	s0, s1 := surelyFreshAt(v.senderNs, t0), surelyFreshAt(v.senderNs, t1)
	switch {
	case !v.hvfOK:
		r.Event("hvf_mismatch_rejected")
	case !f0 && !f1:
		if v.senderNs > t1.UnixNano() {
			r.Event("future_rejected")
		} else {
			r.Event("stale_rejected")
		}
	case s0 && s1:
		// valid in every respect (hop MACs are the generator's) and inside the window of every reading
		if plain != nil {
			pres := s.Process(plain, ingress)
			if !pres.Forwarded() {
				r.Event("rejected_like_plain_twin")
				return
			}
		}
		r.Violation("C13:valid-rejected:"+v.pos, fmt.Sprintf("a fresh EPIC packet (sender time %d ms from now) with correct hop validation field was not accepted at its %s hop although its embedded SCION path is", (v.senderNs-t0.UnixNano())/1e6, v.pos), wit(fmt.Sprintf("disp=%d slow=%v kind=%d code=%d", res.Disp, res.ViaSlow, res.SlowKind, res.SlowCode), nil))
	case s0 != s1 || f0 != f1:
		r.Inconclusive("time-bracket")
	default:
		r.Event("future_within_lifetime_rejected_unjudged")
	}
}

// c13Twin compares the processing of an EPIC packet at a hop that is neither
// penultimate nor last with that of its embedded SCION path as a plain packet.
func c13Twin(r *mon.Run, s *rfix.Star, ingress rfix.Ingress, in, plain []byte, res *rfix.Result, wit func(string, *rfix.Result) c13W) {
	if plain == nil {
		return
	}
	eout := append([]byte(nil), res.Out...)
	pres := s.Process(plain, ingress)
	if pres.Panic != "" {
		r.Violation("C13:panic:"+mon.PanicSite(pres.Stack), "panic on the plain twin: "+pres.Panic, wit(pres.Stack, &pres))
		return
	}
	res.Out = eout
	if pres.Disp != res.Disp || pres.ViaSlow != res.ViaSlow || pres.Forwarded() != res.Forwarded() {
		r.Violation("C13:other-hop-differs:disposition", fmt.Sprintf("EPIC packet at a hop other than penultimate/last: disposition %d (slow=%v), its embedded SCION path as plain packet: %d (slow=%v)", res.Disp, res.ViaSlow, pres.Disp, pres.ViaSlow), wit("", &pres))
		return
	}
	if res.ViaSlow {
		if pres.SlowKind != res.SlowKind || pres.SlowCode != res.SlowCode {
			r.Violation("C13:other-hop-differs:scmp", fmt.Sprintf("EPIC: SCMP %d/%d, plain twin: SCMP %d/%d", res.SlowKind, res.SlowCode, pres.SlowKind, pres.SlowCode), wit("", &pres))
			return
		}
		r.Event("other_hop_same_as_scion_rejected")
		return
	}
	if !res.Forwarded() {
		r.Event("other_hop_same_as_scion_rejected")
		return
	}
	if pres.Egress != res.Egress || pres.OutScope != res.OutScope {
		r.Violation("C13:other-hop-differs:egress", fmt.Sprintf("EPIC packet leaves via %d (scope %d), plain twin via %d (scope %d)", res.Egress, res.OutScope, pres.Egress, pres.OutScope), wit("", &pres))
		return
	}
	eh, err1 := rfix.ParseHdr(res.Out)
	ph, err2 := rfix.ParseHdr(pres.Out)
	ih, err3 := rfix.ParseHdr(in)
	if err1 != nil || err2 != nil || err3 != nil || eh.PathType != 3 || ph.PathType != 1 {
		r.Violation("C13:other-hop-differs:unparsable", "forwarded packet does not parse", wit(fmt.Sprint(err1, err2, err3), &pres))
		return
	}
	same := len(res.Out) == len(pres.Out)+16 &&
		string(res.Out[0:5]) == string(pres.Out[0:5]) && // version, TC, flow id, next header
		int(res.Out[5]) == int(pres.Out[5])+4 && // header length: 16 bytes more
		string(res.Out[6:8]) == string(pres.Out[6:8]) && // payload length
		string(res.Out[9:eh.PathOff]) == string(pres.Out[9:ph.PathOff]) && // address types, addresses
		string(res.Out[eh.PathOff:eh.PathOff+16]) == string(in[ih.PathOff:ih.PathOff+16]) && // EPIC fields untouched
		string(res.Out[eh.PathOff+16:]) == string(pres.Out[ph.PathOff:]) // SCION path and payload
	if !same {
		r.Violation("C13:other-hop-differs:bytes", "EPIC packet forwarded at a hop other than penultimate/last differs from its embedded SCION path forwarded as a plain packet (beyond the 16 EPIC bytes)", wit("", &pres))
		return
	}
	r.Event("other_hop_same_as_scion_forwarded")
}

func c13Replay(r *mon.Run, w *c13W) {
	s := mustStar(w.Cfg)
	in, _ := hex.DecodeString(w.Input)
	var plain []byte
	if w.Plain != "" {
		plain, _ = hex.DecodeString(w.Plain)
	}
	r.Class("replay")
	r.Class("replay-2")
	r.Sample(w)
	fmt.Println("replay: freshness is relative to the time of the original run; only HVF and twin verdicts are reproducible")
	ing := rfix.Ingress{IfID: w.InIf}
	if w.SrcUDP != "" {
		if a, err := net.ResolveUDPAddr("udp", w.SrcUDP); err == nil {
			ing.Src = a
		}
	}
	fromOutside := w.InIf != 0 && s.Link(w.InIf) != nil && s.Link(w.InIf).Scope() == router.External
	v := viewEpic(in, s.Cfg.HopKey, fromOutside)
	res := s.Process(in, ing)
	r.Eval(1)
	if v.pos == "other" {
		c13Twin(r, s, ing, in, plain, &res, func(n string, p *rfix.Result) c13W { return *w })
		return
	}
	if res.Forwarded() && !v.hvfOK {
		r.Violation("C13:accepted-bad-hvf:"+v.pos, "replayed", w)
	}
}
