package main

import "verif/mon"

func checkC13(r *mon.Run) {}
