package main

import (
	"context"
	"encoding/binary"
	"encoding/hex"
	"fmt"
	"math/rand/v2"
	"net"
	"net/netip"
	"sync"
	"time"

	"github.com/gopacket/gopacket"
	"github.com/gopacket/gopacket/layers"

	"github.com/scionproto/scion/pkg/addr"
	"github.com/scionproto/scion/pkg/slayers"
	"github.com/scionproto/scion/pkg/slayers/path"
	"github.com/scionproto/scion/pkg/slayers/path/onehop"
	"github.com/scionproto/scion/pkg/slayers/path/scion"
	"github.com/scionproto/scion/private/underlay/conn"
	"github.com/scionproto/scion/router"

	"verif/mon"
	"verif/rfix"
)

// ---- fixture: two neighbouring ASes, one real data plane each ----

type c12Pair struct {
	WA, WB   *cfgW
	A, B     *rfix.Star
	IfA, IfB uint16 // owned interfaces joining A and B
	NbrA     map[uint16]addr.IA
	NbrB     map[uint16]addr.IA
}

func nbrTable(w *cfgW) map[uint16]addr.IA {
	m := map[uint16]addr.IA{}
	for _, f := range w.Ifs {
		m[f.ID] = addr.MustParseIA(f.Remote)
	}
	return m
}

func genPairCfg(rng *rand.Rand, idx int, bfdOn bool) (*cfgW, *cfgW, uint16, uint16) {
	wa := genCfg(rng)
	wb := genCfg(rng)
	for wb.IA == wa.IA {
		wb = genCfg(rng)
	}
	join := func(w *cfgW, remote string) uint16 {
		var owned []int
		for i, f := range w.Ifs {
			if f.Owned {
				owned = append(owned, i)
			}
		}
		i := owned[rng.IntN(len(owned))]
		w.Ifs[i].Remote = remote
		w.Ifs[i].BFD = bfdOn
		return w.Ifs[i].ID
	}
	ifA := join(wa, wb.IA)
	ifB := join(wb, wa.IA)
	for _, w := range []*cfgW{wa, wb} {
		w.Order = rfix.LocalOrder((idx) % int(rfix.NumLocalOrders)).String()
		w.Range = "31000-32767"
		w.Reuse = rng.IntN(2) == 0
		w.Svc = map[string][]string{"CS": {netip.AddrPortFrom(netip.AddrFrom4([4]byte{10, 9, 0, byte(1 + rng.IntN(250))}), 30252).String()}}
	}
	return wa, wb, ifA, ifB
}

func newPair(wa, wb *cfgW, ifA, ifB uint16) *c12Pair {
	return &c12Pair{WA: wa, WB: wb, A: mustStar(wa), B: mustStar(wb), IfA: ifA, IfB: ifB, NbrA: nbrTable(wa), NbrB: nbrTable(wb)}
}

// ---- one-hop packet description ----

type ohpSpec struct {
	SrcIA   string `json:"src_ia"`
	DstIA   string `json:"dst_ia"`
	SrcHost string `json:"src_host"`
	DstHost string `json:"dst_host"` // IP or "CS"
	ConsDir bool   `json:"cons_dir"`
	SegID   uint16 `json:"seg_id"`
	Ts      uint32 `json:"timestamp"`
	Exp     uint8  `json:"exp_time"`
	ConsIn  uint16 `json:"cons_ingress"`
	ConsEg  uint16 `json:"cons_egress"`
	Mac     string `json:"mac"`
	// second hop as sent (zero when sent by a host; arbitrary for synthesized incoming packets)
	Second string `json:"second_hop,omitempty"`
	Port   uint16 `json:"udp_dst_port"`
}

func parseHostW(s string) addr.Host {
	if s == "CS" {
		return addr.HostSVC(addr.SvcCS)
	}
	return addr.HostIP(netip.MustParseAddr(s))
}

func (o *ohpSpec) build() ([]byte, error) {
	var mac [6]byte
	b, _ := hex.DecodeString(o.Mac)
	copy(mac[:], b)
	p := &onehop.Path{
		Info:     path.InfoField{ConsDir: o.ConsDir, SegID: o.SegID, Timestamp: o.Ts},
		FirstHop: path.HopField{ExpTime: o.Exp, ConsIngress: o.ConsIn, ConsEgress: o.ConsEg, Mac: mac},
	}
	if o.Second != "" {
		sb, _ := hex.DecodeString(o.Second)
		if len(sb) == 12 {
			_ = p.SecondHop.DecodeFromBytes(sb)
		}
	}
	ps := &rfix.PktSpec{
		SrcIA: addr.MustParseIA(o.SrcIA), DstIA: addr.MustParseIA(o.DstIA),
		SrcHost: parseHostW(o.SrcHost), DstHost: parseHostW(o.DstHost),
		Path: p, PathType: 2, L4: rfix.L4UDP, SrcPort: 30252, DstPort: o.Port, Payload: []byte("one-hop beacon"),
		FlowID: 0x1234,
	}
	return ps.Build()
}

// refOHP is what the reference reads from one-hop packet bytes.
type refOHP struct {
	ok             bool
	srcIA, dstIA   uint64
	consDir        bool
	segID          uint16
	ts             uint32
	exp            uint8
	consIn, consEg uint16
	mac            [6]byte
	exp2           uint8
	consIn2        uint16
	consEg2        uint16
	mac2           [6]byte
}

func readOHP(b []byte) refOHP {
	var o refOHP
	h, err := rfix.ParseHdr(b)
	if err != nil || h.PathType != 2 {
		return o
	}
	o.ok = true
	o.srcIA, o.dstIA = h.SrcIA, h.DstIA
	inf := b[h.InfoOff[0]:]
	o.consDir = inf[0]&1 != 0
	o.segID = binary.BigEndian.Uint16(inf[2:4])
	o.ts = binary.BigEndian.Uint32(inf[4:8])
	h1 := b[h.HopOff[0]:]
	o.exp, o.consIn, o.consEg = h1[1], binary.BigEndian.Uint16(h1[2:4]), binary.BigEndian.Uint16(h1[4:6])
	copy(o.mac[:], h1[6:12])
	h2 := b[h.HopOff[1]:]
	o.exp2, o.consIn2, o.consEg2 = h2[1], binary.BigEndian.Uint16(h2[2:4]), binary.BigEndian.Uint16(h2[4:6])
	copy(o.mac2[:], h2[6:12])
	return o
}

func mustHop2Off(b []byte) int {
	h, err := rfix.ParseHdr(b)
	if err != nil || len(h.HopOff) < 2 {
		return 0
	}
	return h.HopOff[1]
}

func (o *refOHP) firstMACValid(key []byte) bool {
	m := rfix.HopMAC(key, o.segID, o.ts, o.exp, o.consIn, o.consEg)
	return string(m[:6]) == string(o.mac[:])
}

// ---- witness ----

type c12W struct {
	A       *cfgW    `json:"router_a"`
	B       *cfgW    `json:"router_b"`
	IfA     uint16   `json:"if_a"`
	IfB     uint16   `json:"if_b"`
	At      string   `json:"processed_by"`
	Ingress string   `json:"ingress_kind"`
	InIf    uint16   `json:"ingress_if"`
	Case    string   `json:"case"`
	Spec    *ohpSpec `json:"one_hop_packet,omitempty"`
	Input   string   `json:"input_hex"`
	Output  string   `json:"output_hex,omitempty"`
	Note    string   `json:"note,omitempty"`
	Chain   bool     `json:"chain"`
}

func (p *c12Pair) wit(at, ingress string, inIf uint16, cs string, spec *ohpSpec, in, out []byte, note string) c12W {
	return c12W{A: p.WA, B: p.WB, IfA: p.IfA, IfB: p.IfB, At: at, Ingress: ingress, InIf: inIf, Case: cs, Spec: spec,
		Input: hex.EncodeToString(in), Output: hex.EncodeToString(out), Note: note}
}

func checkC12(r *mon.Run) {
	r.Rule = "two real data planes A and B (neighbours over one owned interface each, 12 interfaces per AS, core/non-core, all configuration orders); " +
		"one-hop packets enumerated over {src local/neighbour/other} x {dst = neighbour behind first hop's egress / another neighbour / other / local} x first-hop MAC {good, bit flipped, SegID/timestamp/ExpTime/ConsIngress changed after MACing, other key} " +
		"x ConsDir flag x ingress {host on internal link, sibling link, owned external interface (matching / other neighbour)} x egress {owned, sibling-owned, unknown} x dst host {IP, registered service}; " +
		"oracle = the statement's conditions with an independent hop MAC; every chain host->A->B is carried on: B's completed second hop must verify under B's key with accumulator SegID0 xor MAC1[0:2], " +
		"the path reversed by onehop.Path.Reverse must be forwarded by B out of the same interface and delivered by A to the original source host; " +
		"BFD one-hop packets: built as bfdSend.Send builds them and captured from a running data plane, judged by the same sending conditions and by acceptance (processed, not discarded) at the peer; " +
		"class = router/ingress/src/dst/egress-kind/mac/consdir/outcome"
	r.Assumptions = []string{
		"'accepted' for a one-hop data packet means forwarded (outgoing) or delivered to the internal link (incoming); consumption of a BFD one-hop packet by the link's BFD session is observed, and judged only for the packets the router itself emits",
		"the one-hop processing does not look at hop expiry and the statement does not ask it to; round trips use fresh timestamps because the reversed path is an ordinary SCION path",
		"a 48-bit MAC collision is ignored",
	}
	if w := (c12W{}); loadReplay(r, &w) {
		c12Replay(r, &w)
		return
	}
	rng := r.Rand("c12")
	nPairs := r.Pick(10, 120)
	perPair := r.Pick(1500, 6000)
	for i := 0; i < nPairs; i++ {
		wa, wb, ifA, ifB := genPairCfg(rng, i, false)
		p := newPair(wa, wb, ifA, ifB)
		for k := 0; k < perPair; k++ {
			c12Case(r, rng, p, k)
		}
		c12BFDSynthetic(r, rng, i)
	}
	nRun := r.Pick(2, 10)
	for i := 0; i < nRun; i++ {
		c12BFDCaptured(r, rng, i)
	}
	r.Require(int64(nPairs*perPair), 60, "outgoing_valid_forwarded", "outgoing_invalid_rejected", "incoming_valid_delivered", "incoming_invalid_rejected",
		"second_hop_verified", "reverse_forwarded_by_b", "reverse_delivered_by_a", "bfd_synthetic_accepted", "bfd_captured_accepted")
}

var c12MacPerts = []string{"good", "good", "good", "bit", "segid", "ts", "exp", "consin", "otherkey"}

func pickOther(rng *rand.Rand, m map[uint16]addr.IA, not uint16) uint16 {
	ids := make([]int, 0, len(m))
	for id := range m {
		if id != not {
			ids = append(ids, int(id))
		}
	}
	// deterministic order
	for i := 1; i < len(ids); i++ {
		for j := i; j > 0 && ids[j] < ids[j-1]; j-- {
			ids[j], ids[j-1] = ids[j-1], ids[j]
		}
	}
	return uint16(ids[rng.IntN(len(ids))])
}

func ifOfKind(rng *rand.Rand, w *cfgW, owned bool, not uint16) uint16 {
	var c []uint16
	for _, f := range w.Ifs {
		if f.Owned == owned && f.ID != not {
			c = append(c, f.ID)
		}
	}
	return c[rng.IntN(len(c))]
}

func unknownIf(rng *rand.Rand, m map[uint16]addr.IA) uint16 {
	for {
		v := uint16(rng.IntN(65536))
		if _, ok := m[v]; !ok {
			return v
		}
	}
}

func c12Case(r *mon.Run, rng *rand.Rand, p *c12Pair, idx int) {
	now := time.Now().Unix()
	// Which router sees the generated packet first, and how.
	ingress := []string{"host", "host", "host", "sibling", "external", "external"}[rng.IntN(6)]
	chain := ingress == "host" && rng.IntN(2) == 0 // aim at B through IfA so that the chain can go on
	at, star, w, nbr, key := "A", p.A, p.WA, p.NbrA, p.A.Cfg.HopKey
	other := p.WB
	if !chain && rng.IntN(2) == 0 {
		at, star, w, nbr, key = "B", p.B, p.WB, p.NbrB, p.B.Cfg.HopKey
		other = p.WA
	}
	_ = other
	localIA := addr.MustParseIA(w.IA)
	o := &ohpSpec{ConsDir: rng.IntN(8) != 0, SegID: uint16(rng.IntN(65536)), Exp: uint8(1 + rng.IntN(255)), Port: uint16(rng.IntN(65536))}
	fresh := chain || rng.IntN(2) == 0
	if fresh {
		o.Ts = uint32(now - int64(rng.IntN(200)) - 1)
	} else {
		o.Ts = uint32(rng.Uint32())
	}
	if rng.IntN(4) == 0 {
		o.ConsIn = uint16(rng.IntN(65536))
	}
	o.SrcHost = rfix.RandHost(rng).String()
	if rng.IntN(2) == 0 {
		o.DstHost = "CS"
	} else {
		o.DstHost = rfix.RandHost(rng).String()
	}
	var in rfix.Ingress
	var inIf uint16
	egKind, srcKind, dstKind := "-", "", ""
	if ingress == "external" {
		// incoming at `star`
		inIf = ifOfKind(rng, w, true, 0)
		in = rfix.Ingress{IfID: inIf}
		switch rng.IntN(6) {
		case 0:
			srcKind, o.SrcIA = "other-neighbour", nbr[pickOther(rng, nbr, inIf)].String()
		case 1:
			srcKind, o.SrcIA = "other", rfix.OtherIA.String()
		case 2:
			srcKind, o.SrcIA = "local", localIA.String()
		default:
			srcKind, o.SrcIA = "neighbour", nbr[inIf].String()
		}
		switch rng.IntN(6) {
		case 0:
			dstKind, o.DstIA = "other", rfix.OtherIA.String()
		case 1:
			dstKind, o.DstIA = "neighbour", nbr[inIf].String()
		default:
			dstKind, o.DstIA = "local", localIA.String()
		}
		// the far router's egress interface and key are unknown to this router
		o.ConsEg = uint16(1 + rng.IntN(65535))
		m := make([]byte, 6)
		for i := range m {
			m[i] = byte(rng.IntN(256))
		}
		o.Mac = hex.EncodeToString(m)
		if rng.IntN(3) == 0 {
			sb := make([]byte, 12)
			for i := range sb {
				sb[i] = byte(rng.IntN(256))
			}
			sb[0] &= 3
			o.Second = hex.EncodeToString(sb)
		}
		c12Incoming(r, p, at, star, nbr, ingress, inIf, in, o, srcKind, dstKind, nil, nil)
		return
	}
	// outgoing at `star`
	switch {
	case chain:
		egKind, o.ConsEg = "owned", p.IfA
	default:
		switch rng.IntN(5) {
		case 0:
			egKind, o.ConsEg = "unknown", unknownIf(rng, nbr)
		case 1, 2:
			egKind, o.ConsEg = "sibling", ifOfKind(rng, w, false, 0)
		default:
			egKind, o.ConsEg = "owned", ifOfKind(rng, w, true, 0)
		}
	}
	switch rng.IntN(8) {
	case 0:
		srcKind, o.SrcIA = "other", rfix.OtherIA.String()
	case 1:
		if n, ok := nbr[o.ConsEg]; ok {
			srcKind, o.SrcIA = "neighbour", n.String()
		} else {
			srcKind, o.SrcIA = "other", rfix.OtherIA.String()
		}
	default:
		srcKind, o.SrcIA = "local", localIA.String()
	}
	switch rng.IntN(8) {
	case 0:
		dstKind, o.DstIA = "other-neighbour", nbr[pickOther(rng, nbr, o.ConsEg)].String()
	case 1:
		dstKind, o.DstIA = "other", rfix.OtherIA.String()
	case 2:
		dstKind, o.DstIA = "local", localIA.String()
	default:
		if n, ok := nbr[o.ConsEg]; ok {
			dstKind, o.DstIA = "egress-neighbour", n.String()
		} else {
			dstKind, o.DstIA = "other", rfix.OtherIA.String()
		}
	}
	// MAC by the reference, then the perturbation
	mp := c12MacPerts[rng.IntN(len(c12MacPerts))]
	k := key
	if mp == "otherkey" {
		k = rfix.DeriveHopKey([]byte(fmt.Sprintf("not the key %d", rng.IntN(1000))))
	}
	full := rfix.HopMAC(k, o.SegID, o.Ts, o.Exp, o.ConsIn, o.ConsEg)
	mac := append([]byte(nil), full[:6]...)
	switch mp {
	case "bit":
		b := rng.IntN(48)
		mac[b/8] ^= 1 << (b % 8)
	case "segid":
		o.SegID ^= 1 << rng.IntN(16)
	case "ts":
		o.Ts ^= 1 << rng.IntN(8)
	case "exp":
		o.Exp ^= 1 << rng.IntN(8)
	case "consin":
		o.ConsIn ^= 1 << rng.IntN(16)
	}
	o.Mac = hex.EncodeToString(mac)
	if ingress == "host" {
		in = rfix.Ingress{IfID: 0, Src: &net.UDPAddr{IP: parseHostW(o.SrcHost).IP().AsSlice(), Port: 30252}}
	} else {
		inIf = ifOfKind(rng, w, false, 0)
		in = rfix.Ingress{IfID: inIf}
	}
	c12Outgoing(r, rng, p, at, star, nbr, key, ingress, inIf, in, o, srcKind, dstKind, egKind, mp, chain)
}

// c12Outgoing judges a one-hop packet entering `star` from inside the AS.
func c12Outgoing(r *mon.Run, rng *rand.Rand, p *c12Pair, at string, star *rfix.Star, nbr map[uint16]addr.IA, key []byte,
	ingress string, inIf uint16, in rfix.Ingress, o *ohpSpec, srcKind, dstKind, egKind, mp string, chain bool) {
	raw, err := o.build()
	if err != nil {
		r.Inconclusive("build-error")
		return
	}
	ref := readOHP(raw)
	if !ref.ok {
		r.Violation("C12:fixture-parse", "reference parser rejects a generated one-hop packet", p.wit(at, ingress, inIf, "", o, raw, nil, ""))
		return
	}
	raw0 := append([]byte(nil), raw...)
	res := star.Process(raw, in)
	r.Eval(1)
	cs := fmt.Sprintf("src=%s dst=%s egress=%s mac=%s consdir=%v", srcKind, dstKind, egKind, mp, o.ConsDir)
	if res.Panic != "" {
		r.Violation("C12:panic:"+mon.PanicSite(res.Stack), "panic: "+res.Panic, p.wit(at, ingress, inIf, cs, o, raw, nil, res.Stack))
		return
	}
	local := uint64(star.Cfg.IA)
	srcLocal := ref.srcIA == local
	macOK := ref.firstMACValid(key)
	n, known := nbr[ref.consEg]
	dstOK := known && uint64(n) == ref.dstIA
	sent := res.Forwarded()
	outcome := "rejected"
	if sent {
		outcome = "forwarded"
	} else if res.ViaSlow {
		outcome = "scmp"
	}
	r.Class(fmt.Sprintf("%s/out/%s/%s/%s/%s/%s/consdir=%v/%s", at, ingress, srcKind, dstKind, egKind, mp, o.ConsDir, outcome))
	if r.WantSample() && mp == "good" && dstKind == "egress-neighbour" && srcKind == "local" && o.SegID%5 == 0 {
		r.Sample(p.wit(at, ingress, inIf, cs, o, raw, res.Out, outcome))
	}
	if sent {
		switch {
		case !srcLocal:
			r.Violation("C12:sent-foreign-source", "a one-hop packet whose source is not the local AS was sent on", p.wit(at, ingress, inIf, cs, o, raw, res.Out, ""))
		case !macOK:
			r.Violation("C12:sent-invalid-mac", "a one-hop packet whose first hop field MAC is not valid under this AS's key was sent on", p.wit(at, ingress, inIf, cs, o, raw, res.Out, ""))
		case !dstOK:
			r.Violation("C12:sent-wrong-neighbour", "a one-hop packet was sent on although its destination is not the neighbour behind the first hop's egress interface", p.wit(at, ingress, inIf, cs, o, raw, res.Out, ""))
		case res.Egress != ref.consEg:
			r.Violation("C12:sent-wrong-interface", fmt.Sprintf("one-hop packet left towards interface %d, first hop egress is %d", res.Egress, ref.consEg), p.wit(at, ingress, inIf, cs, o, raw, res.Out, ""))
		case res.OutScope == router.Internal:
			r.Violation("C12:sent-to-internal", "outgoing one-hop packet was put on the internal link", p.wit(at, ingress, inIf, cs, o, raw, res.Out, ""))
		default:
			r.Event("outgoing_valid_forwarded")
		}
	} else {
		if srcLocal && macOK && dstOK && ref.consDir && ingress == "host" {
			// not an only-if matter, but a monitor that never sees acceptance is blind
			r.Violation("C12:valid-rejected/outgoing", "a one-hop packet valid in every respect was not sent", p.wit(at, ingress, inIf, cs, o, raw, nil, fmt.Sprintf("disp=%d slow=%v %s", res.Disp, res.ViaSlow, res.SlowErr)))
			return
		}
		r.Event("outgoing_invalid_rejected")
		// a sender that was refused tries again: the very same packet, the same
		// processor - the verdict must be the same
		res2 := star.Process(append([]byte(nil), raw0...), in)
		r.Eval(1)
		switch {
		case res2.Panic != "":
			r.Violation("C12:panic:"+mon.PanicSite(res2.Stack), "panic: "+res2.Panic, p.wit(at, ingress, inIf, cs, o, raw0, nil, res2.Stack))
		case res2.Forwarded() && !srcLocal:
			r.Violation("C12:sent-foreign-source/retry", "a refused one-hop packet whose source is not the local AS was sent on when presented again", p.wit(at, ingress, inIf, cs, o, raw0, res2.Out, ""))
		case res2.Forwarded() && !macOK:
			r.Violation("C12:sent-invalid-mac/retry", "a refused one-hop packet whose first hop field MAC is not valid was sent on when presented again", p.wit(at, ingress, inIf, cs, o, raw0, res2.Out, ""))
		case res2.Forwarded() && !dstOK:
			r.Violation("C12:sent-wrong-neighbour/retry", "a refused one-hop packet for another AS than the egress neighbour was sent on when presented again", p.wit(at, ingress, inIf, cs, o, raw0, res2.Out, ""))
		case !res2.Forwarded():
			r.Event("outgoing_invalid_rejected_again")
		}
	}
	if !sent || !chain || res.OutScope != router.External || res.Egress != p.IfA || at != "A" {
		return
	}
	// carry the bytes over the A-B link
	beta1 := ref.segID ^ (uint16(ref.mac[0])<<8 | uint16(ref.mac[1]))
	c12Incoming(r, p, "B", p.B, p.NbrB, "external", p.IfB, rfix.Ingress{IfID: p.IfB}, o, "neighbour", "local", res.Out, &beta1)
}

// c12Incoming judges a one-hop packet arriving at `star` over an owned
// external interface. carried != nil: the bytes are A's real output (chain).
func c12Incoming(r *mon.Run, p *c12Pair, at string, star *rfix.Star, nbr map[uint16]addr.IA, ingress string, inIf uint16,
	in rfix.Ingress, o *ohpSpec, srcKind, dstKind string, carried []byte, beta1 *uint16) {
	raw := carried
	if raw == nil {
		var err error
		if raw, err = o.build(); err != nil {
			r.Inconclusive("build-error")
			return
		}
	}
	ref := readOHP(raw)
	if !ref.ok {
		r.Violation("C12:output-unparsable", "one-hop packet does not parse (forwarded bytes or fixture)", p.wit(at, ingress, inIf, "", o, raw, nil, ""))
		return
	}
	res := star.Process(raw, in)
	r.Eval(1)
	cs := fmt.Sprintf("incoming src=%s dst=%s consdir=%v chain=%v", srcKind, dstKind, ref.consDir, carried != nil)
	w := func(note string) c12W {
		x := p.wit(at, ingress, inIf, cs, o, raw, res.Out, note)
		x.Chain = carried != nil
		return x
	}
	if res.Panic != "" {
		r.Violation("C12:panic:"+mon.PanicSite(res.Stack), "panic: "+res.Panic, w(res.Stack))
		return
	}
	local := uint64(star.Cfg.IA)
	dstLocal := ref.dstIA == local
	srcOK := uint64(nbr[inIf]) == ref.srcIA
	acc := res.Forwarded()
	outcome := "rejected"
	if acc {
		outcome = "accepted"
	} else if res.ViaSlow {
		outcome = "scmp"
	}
	r.Class(fmt.Sprintf("%s/in/%s/%s/consdir=%v/chain=%v/svc=%v/%s", at, srcKind, dstKind, ref.consDir, carried != nil, o.DstHost == "CS", outcome))
	if !acc {
		if dstLocal && srcOK && ref.consDir {
			r.Violation("C12:valid-rejected/incoming", "a one-hop packet for the local AS from the neighbour on the receiving interface was not accepted", w(fmt.Sprintf("disp=%d slow=%v %s", res.Disp, res.ViaSlow, res.SlowErr)))
			return
		}
		r.Event("incoming_invalid_rejected")
		return
	}
	switch {
	case !dstLocal:
		r.Violation("C12:accepted-foreign-destination", "an incoming one-hop packet whose destination is not the local AS was accepted", w(""))
		return
	case !srcOK:
		r.Violation("C12:accepted-wrong-neighbour", "an incoming one-hop packet was accepted although its source is not the neighbour on the receiving interface", w(""))
		return
	case res.OutScope != router.Internal:
		r.Violation("C12:accepted-not-delivered", "an accepted incoming one-hop packet did not go to the internal link", w(""))
		return
	}
	r.Event("incoming_valid_delivered")
	// the completed second hop
	out := readOHP(res.Out)
	if !out.ok {
		r.Violation("C12:output-unparsable", "delivered one-hop packet does not parse", w(""))
		return
	}
	acc16 := ref.segID // the accumulator as it arrived
	if beta1 != nil {
		acc16 = *beta1 // what the chain implies: SegID0 xor MAC1[0:2]
	}
	want := rfix.HopMAC(star.Cfg.HopKey, acc16, ref.ts, out.exp2, out.consIn2, out.consEg2)
	if string(want[:6]) != string(out.mac2[:]) {
		r.Violation("C12:second-hop-invalid", fmt.Sprintf("completed second hop field (in=%d eg=%d exp=%d mac=%x) does not verify under the local key with accumulator %#04x", out.consIn2, out.consEg2, out.exp2, out.mac2, acc16), w(""))
		return
	}
	// The completed hop is the last hop of a path that ends in this AS: no egress
	// interface, no pending router alerts, whatever the neighbour had put into
	// the slot. Anything else would be a MACed hop field for a different use
	// (a transit hop ingress->X) or would divert the reversed path to the slow path.
	if out.consEg2 != 0 {
		r.Violation("C12:second-hop-not-terminal", fmt.Sprintf("completed second hop carries egress interface %d (the router issued a MAC for a transit hop %d->%d instead of the one-hop completion)", out.consEg2, out.consIn2, out.consEg2), w(""))
		return
	}
	if fl := res.Out[mustHop2Off(res.Out)] & 3; fl != 0 {
		r.Violation("C12:second-hop-alert-flags", fmt.Sprintf("completed second hop carries router-alert flags %#x: the reversed one-hop path is diverted to the slow path", fl), w(""))
		return
	}
	if out.consIn2 != inIf {
		r.Violation("C12:second-hop-wrong-interface", fmt.Sprintf("completed second hop names ingress %d, packet arrived on %d", out.consIn2, inIf), w(""))
		return
	}
	r.Event("second_hop_verified")
	if carried == nil || !time.Unix(int64(ref.ts), 0).After(time.Now().Add(-300*time.Second)) {
		return
	}
	c12Reverse(r, p, o, res.Out, w)
}

// c12Reverse sends the reply along the reversed completed one-hop path: host in
// B -> router B -> router A -> original source host.
func c12Reverse(r *mon.Run, p *c12Pair, o *ohpSpec, delivered []byte, w func(string) c12W) {
	var sl slayers.SCION
	if err := sl.DecodeFromBytes(delivered, gopacket.NilDecodeFeedback); err != nil {
		r.Violation("C12:output-unparsable", "slayers cannot decode the delivered packet: "+err.Error(), w(""))
		return
	}
	ohp, ok := sl.Path.(*onehop.Path)
	if !ok {
		r.Violation("C12:output-unparsable", "delivered packet has no one-hop path", w(""))
		return
	}
	rev, err := ohp.Reverse()
	if err != nil {
		r.Violation("C12:reverse-failed", "onehop.Path.Reverse fails on the completed path: "+err.Error(), w(""))
		return
	}
	dec := rev.(*scion.Decoded)
	srcHost := parseHostW(o.DstHost)
	if o.DstHost == "CS" {
		srcHost = addr.HostIP(netip.MustParseAddrPort(p.WB.Svc["CS"][0]).Addr())
	}
	ps := &rfix.PktSpec{
		SrcIA: addr.MustParseIA(p.WB.IA), DstIA: addr.MustParseIA(p.WA.IA),
		SrcHost: srcHost, DstHost: parseHostW(o.SrcHost),
		Path: dec, PathType: 1, L4: rfix.L4UDP, SrcPort: 30252, DstPort: 31000, Payload: []byte("reply"),
	}
	reply, err := ps.Build()
	if err != nil {
		r.Inconclusive("reply-build-error")
		return
	}
	r.Eval(1)
	rb := p.B.Process(reply, rfix.Ingress{IfID: 0, Src: &net.UDPAddr{IP: srcHost.IP().AsSlice(), Port: 30252}})
	if rb.Panic != "" {
		r.Violation("C12:panic:"+mon.PanicSite(rb.Stack), "panic: "+rb.Panic, w(rb.Stack))
		return
	}
	if !rb.Forwarded() || rb.Egress != p.IfB || rb.OutScope != router.External {
		x := w(fmt.Sprintf("reply %x: disp=%d slow=%v kind=%d code=%d egress=%d", reply, rb.Disp, rb.ViaSlow, rb.SlowKind, rb.SlowCode, rb.Egress))
		r.Violation("C12:reverse-rejected:completing-router", "the router that completed the one-hop path does not forward the reversed path out of the interface the packet came in on", x)
		return
	}
	r.Event("reverse_forwarded_by_b")
	ra := p.A.Process(rb.Out, rfix.Ingress{IfID: p.IfA})
	if ra.Panic != "" {
		r.Violation("C12:panic:"+mon.PanicSite(ra.Stack), "panic: "+ra.Panic, w(ra.Stack))
		return
	}
	ok = ra.Forwarded() && ra.OutScope == router.Internal && ra.Remote != nil
	if ok {
		ip, _ := netip.AddrFromSlice(ra.Remote.IP)
		ok = ip.Unmap() == parseHostW(o.SrcHost).IP().Unmap()
	}
	if !ok {
		x := w(fmt.Sprintf("reply at A %x: disp=%d slow=%v kind=%d code=%d", rb.Out, ra.Disp, ra.ViaSlow, ra.SlowKind, ra.SlowCode))
		r.Violation("C12:reverse-rejected:issuing-router", "the router that issued the one-hop path does not deliver the reversed path to the original source host", x)
		return
	}
	r.Event("reverse_delivered_by_a")
	r.Class("roundtrip/svc=" + fmt.Sprint(o.DstHost == "CS"))
}

// ---- BFD one-hop packets ----

// bfdPacket builds a BFD one-hop packet the way bfdSend.Send does for an
// inter-AS link: traffic class 0xb8, flow id 0xdead, one-hop path with
// ConsDir, timestamp now-10s, first hop {egress = interface, default ExpTime 63}.
func bfdPacket(key []byte, local, remote addr.IA, lh, rh addr.Host, ifID uint16, ts uint32, disc uint32) ([]byte, error) {
	full := rfix.HopMAC(key, 0, ts, 63, 0, ifID)
	var mac [6]byte
	copy(mac[:], full[:6])
	scn := &slayers.SCION{
		Version: 0, TrafficClass: 0xb8, FlowID: 0xdead, NextHdr: slayers.L4BFD,
		SrcIA: local, DstIA: remote, PathType: onehop.PathType,
		Path: &onehop.Path{
			Info:     path.InfoField{ConsDir: true, Timestamp: ts},
			FirstHop: path.HopField{ConsEgress: ifID, ExpTime: 63, Mac: mac},
		},
	}
	if err := scn.SetSrcAddr(lh); err != nil {
		return nil, err
	}
	if err := scn.SetDstAddr(rh); err != nil {
		return nil, err
	}
	b := &layers.BFD{Version: 1, State: layers.BFDStateDown, DetectMultiplier: 3, MyDiscriminator: layers.BFDDiscriminator(disc),
		DesiredMinTxInterval: 1000000, RequiredMinRxInterval: 200000}
	buf := gopacket.NewSerializeBuffer()
	if err := gopacket.SerializeLayers(buf, gopacket.SerializeOptions{FixLengths: true}, scn, b); err != nil {
		return nil, err
	}
	return append([]byte(nil), buf.Bytes()...), nil
}

// judgeEmittedBFD applies the statement's sending conditions to a BFD one-hop
// packet a router emits by itself on interface ifID.
func judgeEmittedBFD(r *mon.Run, how string, key []byte, local addr.IA, nbr map[uint16]addr.IA, ifID uint16, raw []byte, wit any) bool {
	ref := readOHP(raw)
	switch {
	case !ref.ok:
		r.Violation("C12:bfd-"+how+"-unparsable", "BFD packet emitted on an inter-AS link is not a one-hop-path packet", wit)
	case ref.srcIA != uint64(local):
		r.Violation("C12:bfd-"+how+"-foreign-source", "emitted BFD one-hop packet's source is not the local AS", wit)
	case !ref.firstMACValid(key):
		r.Violation("C12:bfd-"+how+"-invalid-mac", "emitted BFD one-hop packet's first hop MAC is not valid under the AS key", wit)
	case ref.consEg != ifID:
		r.Violation("C12:bfd-"+how+"-wrong-interface", fmt.Sprintf("BFD one-hop packet emitted on interface %d names egress %d", ifID, ref.consEg), wit)
	case uint64(nbr[ref.consEg]) != ref.dstIA:
		r.Violation("C12:bfd-"+how+"-wrong-neighbour", "emitted BFD one-hop packet's destination is not the neighbour behind its egress interface", wit)
	case !ref.consDir:
		r.Violation("C12:bfd-"+how+"-consdir", "emitted BFD one-hop packet does not have the construction-direction flag", wit)
	default:
		return true
	}
	return false
}

func c12BFDSynthetic(r *mon.Run, rng *rand.Rand, idx int) {
	wa, wb, ifA, ifB := genPairCfg(rng, idx, true)
	p := newPair(wa, wb, ifA, ifB)
	for k := 0; k < 6; k++ { // the non-running session buffers 10 messages
		ts := uint32(time.Now().Unix() - 10)
		raw, err := bfdPacket(p.A.Cfg.HopKey, addr.MustParseIA(wa.IA), addr.MustParseIA(wb.IA),
			addr.HostIP(rfix.ExtLocalAddr(ifA).Addr()), addr.HostIP(rfix.ExtRemoteAddr(ifA).Addr()), ifA, ts, 1+rng.Uint32N(1<<31))
		if err != nil {
			r.Inconclusive("bfd-build-error")
			return
		}
		r.Eval(1)
		wit := p.wit("B", "external", ifB, "bfd-synthetic", nil, raw, nil, "")
		if !judgeEmittedBFD(r, "synthetic", p.A.Cfg.HopKey, addr.MustParseIA(wa.IA), p.NbrA, ifA, raw, wit) {
			continue
		}
		res := p.B.Process(raw, rfix.Ingress{IfID: ifB})
		if res.Panic != "" {
			r.Violation("C12:panic:"+mon.PanicSite(res.Stack), "panic: "+res.Panic, wit)
			continue
		}
		r.Class(fmt.Sprintf("bfd/synthetic/disp=%d", res.Disp))
		if res.Disp != router.VerifDone {
			r.Violation("C12:bfd-ohp-rejected", fmt.Sprintf("peer did not accept a BFD one-hop packet built as bfdSend.Send builds it (disposition %d)", res.Disp), wit)
			continue
		}
		r.Event("bfd_synthetic_accepted")
	}
	// the same packet on a link without BFD session is discarded (observation)
	raw, _ := bfdPacket(p.A.Cfg.HopKey, addr.MustParseIA(wa.IA), addr.MustParseIA(wb.IA),
		addr.HostIP(rfix.ExtLocalAddr(ifA).Addr()), addr.HostIP(rfix.ExtRemoteAddr(ifA).Addr()), ifA, uint32(time.Now().Unix()-10), 7)
	other := ifOfKind(rng, wb, true, ifB)
	res := p.B.Process(raw, rfix.Ingress{IfID: other})
	r.Class(fmt.Sprintf("bfd/no-session/disp=%d", res.Disp))
}

// captureConn is a BatchConn that records what is written to it.
type captureConn struct {
	local, remote netip.AddrPort
	mu            *sync.Mutex
	out           *[]capturedPkt
	closed        chan struct{}
	once          sync.Once
}

type capturedPkt struct {
	Local, Remote netip.AddrPort
	Raw           []byte
}

func (c *captureConn) ReadBatch(conn.Messages) (int, error) {
	<-c.closed
	return 0, fmt.Errorf("closed")
}
func (c *captureConn) WriteBatch(m conn.Messages, _ int) (int, error) {
	c.mu.Lock()
	for i := range m {
		*c.out = append(*c.out, capturedPkt{c.local, c.remote, append([]byte(nil), m[i].Buffers[0]...)})
	}
	c.mu.Unlock()
	return len(m), nil
}
func (c *captureConn) Close() error {
	c.once.Do(func() { close(c.closed) })
	return nil
}

type captureOpener struct {
	mu  *sync.Mutex
	out *[]capturedPkt
}

func (o captureOpener) Open(l, r netip.AddrPort, _ *conn.Config) (router.BatchConn, error) {
	return &captureConn{local: l, remote: r, mu: o.mu, out: o.out, closed: make(chan struct{})}, nil
}
func (o captureOpener) UDPCanReuseLocal() bool { return true }

// c12BFDCaptured runs data plane A for real (its BFD sessions start and send
// through bfdSend.Send), captures what it writes to the external links'
// sockets, and hands the bytes to a configured peer B.
func c12BFDCaptured(r *mon.Run, rng *rand.Rand, idx int) {
	wa, wb, ifA, ifB := genPairCfg(rng, idx, true)
	// every external link of A runs BFD: several independent sender goroutines (the
	// race detector sees any state they share)
	for i := range wa.Ifs {
		if wa.Ifs[i].Owned {
			wa.Ifs[i].BFD = true
		}
	}
	var mu sync.Mutex
	var got []capturedPkt
	lc := wa.local()
	lc.Opener = captureOpener{mu: &mu, out: &got}
	lc.BFD = rfix.BFDDefaults()
	lc.NumProc = 2
	a, err := rfix.NewLocalStar(lc)
	if err != nil {
		fmt.Println("fixture error:", err)
		panic(err)
	}
	b := mustStar(wb)
	ctx, cancel := context.WithCancel(context.Background())
	done := make(chan struct{})
	go func() {
		defer close(done)
		_ = a.C.DataPlane.Run(ctx)
	}()
	want := rfix.ExtRemoteAddr(ifA)
	deadline := time.Now().Add(8 * time.Second)
	var mine []capturedPkt
	for time.Now().Before(deadline) {
		mu.Lock()
		mine = mine[:0]
		for _, c := range got {
			if c.Remote == want {
				mine = append(mine, c)
			}
		}
		mu.Unlock()
		if len(mine) >= 3 {
			break
		}
		time.Sleep(50 * time.Millisecond)
	}
	cancel()
	<-done
	a.C.DataPlane.Shutdown()
	if len(mine) == 0 {
		r.Inconclusive("bfd-capture-timeout")
		return
	}
	if len(mine) > 8 {
		mine = mine[:8]
	}
	nbrA := nbrTable(wa)
	for _, c := range mine {
		r.Eval(1)
		wit := c12W{A: wa, B: wb, IfA: ifA, IfB: ifB, At: "B", Ingress: "external", InIf: ifB, Case: "bfd-captured", Input: hex.EncodeToString(c.Raw),
			Note: "bytes written by running data plane A to the socket of interface if_a"}
		if !judgeEmittedBFD(r, "captured", a.Cfg.HopKey, addr.MustParseIA(wa.IA), nbrA, ifA, c.Raw, wit) {
			continue
		}
		res := b.Process(c.Raw, rfix.Ingress{IfID: ifB})
		if res.Panic != "" {
			r.Violation("C12:panic:"+mon.PanicSite(res.Stack), "panic: "+res.Panic, wit)
			continue
		}
		r.Class(fmt.Sprintf("bfd/captured/disp=%d", res.Disp))
		if res.Disp != router.VerifDone {
			r.Violation("C12:bfd-ohp-rejected", fmt.Sprintf("peer did not accept a BFD one-hop packet emitted by a running router (disposition %d)", res.Disp), wit)
			continue
		}
		r.Event("bfd_captured_accepted")
		if r.WantSample() {
			r.Sample(wit)
		}
	}
}

func c12Replay(r *mon.Run, w *c12W) {
	p := newPair(w.A, w.B, w.IfA, w.IfB)
	r.Class("replay")
	r.Class("replay-2")
	r.Sample(w)
	if w.Spec == nil {
		fmt.Println("replay: BFD witnesses carry only the captured bytes; re-judging acceptance at B")
		raw, _ := hex.DecodeString(w.Input)
		res := p.B.Process(raw, rfix.Ingress{IfID: w.IfB})
		r.Eval(1)
		if res.Disp != router.VerifDone {
			r.Violation("C12:bfd-ohp-rejected", fmt.Sprintf("disposition %d", res.Disp), w)
		}
		return
	}
	o := w.Spec
	star, nbr, key := p.A, p.NbrA, p.A.Cfg.HopKey
	if w.At == "B" && !w.Chain {
		star, nbr, key = p.B, p.NbrB, p.B.Cfg.HopKey
	}
	rng := r.Rand("replay")
	switch {
	case w.Chain:
		in := rfix.Ingress{IfID: 0, Src: &net.UDPAddr{IP: parseHostW(o.SrcHost).IP().AsSlice(), Port: 30252}}
		c12Outgoing(r, rng, p, "A", p.A, p.NbrA, p.A.Cfg.HopKey, "host", 0, in, o, "replay", "replay", "replay", "replay", true)
	case w.Ingress == "external":
		c12Incoming(r, p, w.At, star, nbr, "external", w.InIf, rfix.Ingress{IfID: w.InIf}, o, "replay", "replay", nil, nil)
	default:
		in := rfix.Ingress{IfID: w.InIf}
		if w.Ingress == "host" {
			in = rfix.Ingress{IfID: 0, Src: &net.UDPAddr{IP: parseHostW(o.SrcHost).IP().AsSlice(), Port: 30252}}
		}
		c12Outgoing(r, rng, p, w.At, star, nbr, key, w.Ingress, w.InIf, in, o, "replay", "replay", "replay", "replay", false)
	}
}
