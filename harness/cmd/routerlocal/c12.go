package main

import "verif/mon"

func checkC12(r *mon.Run) {}
