package main

import (
	"encoding/hex"
	"encoding/json"
	"fmt"
	"math/rand/v2"
	"net/netip"
	"os"
	"sort"

	"github.com/scionproto/scion/pkg/addr"
	"github.com/scionproto/scion/private/topology"

	"verif/mon"
	"verif/rfix"
)

// cfgW is the JSON-able description of a fixture configuration; it is part of
// every witness and is enough to rebuild the data plane for --replay.
type cfgW struct {
	IA        string              `json:"ia"`
	Core      bool                `json:"core"`
	MasterKey string              `json:"master_key"`
	Order     string              `json:"order"`
	Range     string              `json:"dispatched_ports"`
	NoRange   bool                `json:"no_range,omitempty"`
	OvStart   *int                `json:"override_start,omitempty"`
	OvEnd     *int                `json:"override_end,omitempty"`
	Reuse     bool                `json:"udp_can_reuse_local"`
	Auth      bool                `json:"scmp_auth,omitempty"`
	RecvBuf   int                 `json:"receive_buffer_size,omitempty"`
	SendBuf   int                 `json:"send_buffer_size,omitempty"`
	Ifs       []ifW               `json:"interfaces"`
	Svc       map[string][]string `json:"services,omitempty"`
	Providers map[string]string   `json:"providers,omitempty"`
}

type ifW struct {
	ID      uint16 `json:"id"`
	LinkTo  string `json:"link_to"`
	Remote  string `json:"remote_ia"`
	Owned   bool   `json:"owned"`
	Sibling int    `json:"sibling,omitempty"`
	BFD     bool   `json:"bfd,omitempty"`
}

func orderFromString(s string) rfix.LocalOrder {
	for o := rfix.LocalOrder(0); o < rfix.NumLocalOrders; o++ {
		if o.String() == s {
			return o
		}
	}
	return rfix.OrdRangeLast
}

func (w *cfgW) local() rfix.LocalCfg {
	mk, _ := hex.DecodeString(w.MasterKey)
	lc := rfix.LocalCfg{
		StarCfg: rfix.StarCfg{
			IA: addr.MustParseIA(w.IA), ReuseLocal: w.Reuse, SCMPAuth: w.Auth,
			OverrideStart: w.OvStart, OverrideEnd: w.OvEnd,
			RecvBuf: w.RecvBuf, SendBuf: w.SendBuf,
		},
		Order: orderFromString(w.Order), RangeStr: w.Range, NoRange: w.NoRange,
		MasterKey: mk, Core: w.Core,
	}
	for _, f := range w.Ifs {
		lc.Ifs = append(lc.Ifs, rfix.IfSpec{
			ID: f.ID, LinkTo: topology.LinkTypeFromString(f.LinkTo), Remote: addr.MustParseIA(f.Remote),
			Owned: f.Owned, Sibling: f.Sibling, BFD: f.BFD, MTU: 1400,
		})
	}
	if len(w.Svc) > 0 {
		lc.Svc = map[addr.SVC][]netip.AddrPort{}
		for k, v := range w.Svc {
			svc, err := addr.ParseSVC(k)
			if err != nil {
				panic(err)
			}
			for _, a := range v {
				lc.Svc[svc] = append(lc.Svc[svc], netip.MustParseAddrPort(a))
			}
		}
	}
	if len(w.Providers) > 0 {
		lc.Providers = map[uint16]string{}
		for k, v := range w.Providers {
			var id uint16
			fmt.Sscan(k, &id)
			lc.Providers[id] = v
		}
	}
	return lc
}

// genCfg draws a fixture configuration: a core or non-core AS with, for every
// link type that AS may have, two interfaces owned by the router under test and
// two owned by sibling routers 1 and 2.
func genCfg(rng *rand.Rand) *cfgW {
	w := &cfgW{
		IA:   addr.MustIAFrom(addr.ISD(1+rng.IntN(3)), addr.AS(0xff00_0000_0100+uint64(rng.IntN(200)))).String(),
		Core: rng.IntN(2) == 0,
	}
	mk := make([]byte, 16)
	for i := range mk {
		mk[i] = byte(rng.IntN(256))
	}
	w.MasterKey = hex.EncodeToString(mk)
	lts := []string{"parent", "child", "peer"}
	if w.Core {
		lts = []string{"core", "child", "peer"}
	}
	used := map[uint16]bool{0: true}
	pick := func() uint16 {
		for {
			var v uint16
			switch rng.IntN(3) {
			case 0:
				v = uint16(1 + rng.IntN(64))
			case 1:
				v = uint16(1 + rng.IntN(65535))
			default:
				v = uint16(65535 - rng.IntN(16))
			}
			if !used[v] {
				used[v] = true
				return v
			}
		}
	}
	n := 0
	for _, lt := range lts {
		for k := 0; k < 4; k++ {
			n++
			w.Ifs = append(w.Ifs, ifW{
				ID: pick(), LinkTo: lt,
				Remote: addr.MustIAFrom(addr.ISD(1+n%3), addr.AS(0xff00_0000_0200+uint64(n))).String(),
				Owned:  k < 2, Sibling: 1 + k%2,
			})
		}
	}
	sort.Slice(w.Ifs, func(i, j int) bool { return w.Ifs[i].ID < w.Ifs[j].ID })
	return w
}

func mustStar(w *cfgW) *rfix.Star {
	s, err := rfix.NewLocalStar(w.local())
	if err != nil {
		fmt.Println("fixture error:", err)
		panic(err)
	}
	return s
}

// genDst generates a destination-AS scenario whose ingress interface exists in
// the configuration (the generator picks link types the AS may not have).
func genScn(s *rfix.Star, rng *rand.Rand, shape rfix.Shape, now int64) *rfix.Scn {
	for i := 0; i < 200; i++ {
		sc := s.GenScenario(rng, shape, now)
		switch shape {
		case rfix.ShSrc:
			if sc.EgIf == 0 {
				continue
			}
		case rfix.ShDst:
			if sc.InIf == 0 {
				continue
			}
		default:
			if sc.InIf == 0 || sc.EgIf == 0 {
				continue
			}
		}
		return sc
	}
	panic("no scenario fits the configuration")
}

// loadReplay reads the witness of a replay file into v.
func loadReplay(r *mon.Run, v any) bool {
	if r.ReplayFile() == "" {
		return false
	}
	b, err := os.ReadFile(r.ReplayFile())
	if err != nil {
		fmt.Println("replay:", err)
		os.Exit(2)
	}
	var env struct {
		Witness json.RawMessage `json:"witness"`
	}
	if err := json.Unmarshal(b, &env); err != nil || json.Unmarshal(env.Witness, v) != nil {
		fmt.Println("replay: cannot decode witness")
		os.Exit(2)
	}
	return true
}
