package main

import (
	"encoding/hex"
	"fmt"
	"math/rand/v2"
	"net/netip"
	"sort"
	"strconv"
	"strings"
	"time"

	"github.com/scionproto/scion/pkg/addr"
	"github.com/scionproto/scion/router"
	"github.com/scionproto/scion/router/underlayproviders/udpip"

	"verif/mon"
	"verif/rfix"
)

// endhostPort is the documented default end-host port
// (doc/dev/design/router-port-dispatch.rst).
const endhostPort = 30041

// prange is the reference's idea of the configured dispatched-port range.
type prange struct {
	Empty bool `json:"empty"`
	A     int  `json:"start"`
	B     int  `json:"end"`
}

func (p prange) has(port int) bool { return !p.Empty && p.A <= port && port <= p.B }

// refRange interprets the topology's dispatched_ports string as documented:
// "<min>-<max>" inclusive, "-" (or nothing) the empty range, "all" 1-65535;
// a router-configuration override replaces the bounds it sets.
func refRange(s string, ovS, ovE *int) prange {
	var p prange
	switch strings.ToLower(s) {
	case "", "-":
		p.Empty = true
	case "all":
		p.A, p.B = 1, 65535
	default:
		parts := strings.Split(s, "-")
		p.A, _ = strconv.Atoi(parts[0])
		p.B, _ = strconv.Atoi(parts[1])
	}
	if ovS != nil && ovE != nil {
		p = prange{A: *ovS, B: *ovE}
	}
	return p
}

// c11W is the witness of one C11 case.
type c11W struct {
	Cfg      *cfgW  `json:"config"`
	Range    prange `json:"reference_range"`
	Kind     string `json:"kind"`
	Port     int    `json:"port"`
	DstHost  string `json:"dst_host"`
	InIf     uint16 `json:"ingress_if"`
	Input    string `json:"input_hex"`
	Expected string `json:"expected"`
	Got      string `json:"got"`
	LinkHeld string `json:"internal_link_dispatch_params,omitempty"`
}

// C11 input kinds.
const (
	k11UDP = iota
	k11TCP
	k11EchoRep
	k11TraceRep
	k11ErrUDP   // SCMP error quoting a UDP packet whose source port is the port
	k11EchoReq  // not in the statement's list: universal invariant only
	k11TraceReq //   "
	k11ErrEcho  // SCMP error quoting an echo request with identifier = port
	k11ErrTrace //   "
	k11Unknown  // unknown L4
	k11SvcReg   // registered service, UDP dst port = port
	k11SvcMcast // registered service with the multicast flag
	k11SvcUnreg // unregistered service
	k11NumKinds
)

var k11Names = [...]string{"udp", "tcp", "echo-reply", "traceroute-reply", "scmp-error-quoting-udp",
	"echo-request", "traceroute-request", "scmp-error-quoting-echo-request", "scmp-error-quoting-traceroute-request",
	"unknown-l4", "svc-registered", "svc-multicast", "svc-unregistered"}

func checkC11(r *mon.Run) {
	r.Rule = "configurations = {SetPortRange before AddInternalInterface, between internal interface and links, after everything (direct Connector calls), " +
		"control.ConfigDataplane on a generated topology.json} x dispatched_ports in {'-', absent, 'all', [a,b] incl. single-port and edge ranges} x optional router-config override x core/non-core AS x UDPCanReuseLocal; " +
		"inputs = valid last-hop packets for the local AS arriving on an owned external interface with L4 in {UDP, TCP, SCMP echo/traceroute reply, SCMP error quoting UDP, " +
		"echo/traceroute request, SCMP error quoting echo/traceroute request, unknown L4} to an IP host, or UDP to a registered/unregistered service address, " +
		"ports sampled at a-1,a,b,b+1,0,1,30040..30042,65535 and inside/outside the range; observation = underlay destination (IP, port) the internal link resolved; " +
		"oracle = documented rule (port if in range else 30041; service -> a registered instance's address and port); class = order/range-kind/override/kind/port-position/outcome"
	r.Assumptions = []string{
		"the dispatched_ports string is interpreted by the reference as the design document defines it; the implementation's own parse (topology loader) is always in the loop",
		"kinds the statement does not list (echo/traceroute requests, SCMP errors quoting SCMP, unknown L4, quoted UDP source port 0) are judged only by the universal invariant: delivered port is 30041 or inside the range",
		"a router-configuration override is generated with both bounds set (config validation requires it) and never as (0,0)",
	}
	if w := (c11W{}); loadReplay(r, &w) {
		c11Replay(r, &w)
		return
	}
	rng := r.Rand("c11")
	nCfg := r.Pick(160, 2400)
	for i := 0; i < nCfg; i++ {
		c11Config(r, rng, i)
	}
	c11SendPhase(r)
	r.Require(int64(nCfg*60), 80, "send_phase_delivered_judged", "send_phase_round_with_partial_writes", "delivered_in_range_unchanged", "delivered_redirected", "svc_delivered", "svc_unregistered_not_delivered", "svc_instance_removed")
}

func genRange(rng *rand.Rand) string {
	switch rng.IntN(10) {
	case 0:
		return "-"
	case 1:
		return ""
	case 2:
		if rng.IntN(2) == 0 {
			return "ALL"
		}
		return "all"
	case 3:
		return "31000-32767"
	case 4: // single port
		p := 1 + rng.IntN(65535)
		return fmt.Sprintf("%d-%d", p, p)
	case 5: // touching the low edge
		return fmt.Sprintf("1-%d", 1+rng.IntN(65535))
	case 6: // touching the high edge
		return fmt.Sprintf("%d-65535", 1+rng.IntN(65535))
	case 7: // around the end-host port
		a := 30041 - rng.IntN(3)
		return fmt.Sprintf("%d-%d", a, a+rng.IntN(4))
	default:
		a := 1 + rng.IntN(65535)
		b := a + rng.IntN(65536-a)
		return fmt.Sprintf("%d-%d", a, b)
	}
}

func rangeKind(s string, p prange, ov bool) string {
	k := "ab"
	switch {
	case ov:
		k = "override"
	case s == "-":
		k = "dash"
	case s == "":
		k = "absent"
	case strings.ToLower(s) == "all":
		k = "all"
	case p.A == p.B:
		k = "single"
	}
	return k
}

func c11Config(r *mon.Run, rng *rand.Rand, idx int) {
	w := genCfg(rng)
	w.Order = rfix.LocalOrder(idx % int(rfix.NumLocalOrders)).String()
	w.Range = genRange(rng)
	w.Reuse = rng.IntN(2) == 0
	if rng.IntN(3) == 0 {
		a := rng.IntN(65536)
		switch rng.IntN(6) {
		case 0, 1:
			a = 0 // the lowest valid bound
		case 2:
			a = []int{1, 1023, 1024, 30041, 65535}[rng.IntN(5)]
		}
		b := a + rng.IntN(65536-a)
		if rng.IntN(5) == 0 {
			b = 65535
		}
		if a == 0 && b == 0 {
			b = 1 + rng.IntN(1000)
		}
		w.OvStart, w.OvEnd = &a, &b
	}
	// services: CS always, DS half of the time (so that DS is "unregistered" otherwise)
	w.Svc = map[string][]string{}
	nCS := 1 + rng.IntN(3)
	for i := 0; i < nCS; i++ {
		w.Svc["CS"] = append(w.Svc["CS"], netip.AddrPortFrom(netip.AddrFrom4([4]byte{10, 9, byte(rng.IntN(250)), byte(1 + i)}), uint16(1+rng.IntN(65535))).String())
	}
	if rng.IntN(2) == 0 {
		w.Svc["DS"] = []string{netip.AddrPortFrom(netip.AddrFrom4([4]byte{10, 8, 0, byte(1 + rng.IntN(250))}), uint16(1+rng.IntN(65535))).String()}
	}
	s := mustStar(w)
	if rng.IntN(2) == 0 {
		// service registry history after start-up: instances come and go (the
		// router is told through AddSvc/DelSvc); the reference is the resulting set
		ia := addr.MustParseIA(w.IA)
		for k := 2 + rng.IntN(6); k > 0; k-- {
			cs := w.Svc["CS"]
			if len(cs) > 1 && rng.IntN(2) == 0 {
				i := rng.IntN(len(cs))
				ap := netip.MustParseAddrPort(cs[i])
				if err := s.C.DelSvc(ia, addr.SvcCS, addr.HostIP(ap.Addr()), ap.Port()); err != nil {
					r.Inconclusive("delsvc-error")
				}
				w.Svc["CS"] = append(append([]string{}, cs[:i]...), cs[i+1:]...)
				r.Event("svc_instance_removed")
			} else {
				ap := netip.AddrPortFrom(netip.AddrFrom4([4]byte{10, 7, byte(rng.IntN(250)), byte(1 + rng.IntN(250))}), uint16(1+rng.IntN(65535)))
				dup := false
				for _, x := range cs {
					if x == ap.String() {
						dup = true
					}
				}
				if dup {
					continue
				}
				if err := s.C.AddSvc(ia, addr.SvcCS, addr.HostIP(ap.Addr()), ap.Port()); err != nil {
					r.Inconclusive("addsvc-error")
				}
				w.Svc["CS"] = append(cs, ap.String())
			}
		}
	}
	ref := refRange(w.Range, w.OvStart, w.OvEnd)
	// ports to probe
	set := map[int]bool{0: true, 1: true, 30040: true, 30041: true, 30042: true, 65535: true}
	if !ref.Empty {
		for _, p := range []int{ref.A - 1, ref.A, ref.B, ref.B + 1} {
			if p >= 0 && p <= 65535 {
				set[p] = true
			}
		}
		set[ref.A+rng.IntN(ref.B-ref.A+1)] = true
	}
	for i := 0; i < 3; i++ {
		set[rng.IntN(65536)] = true
	}
	ports := make([]int, 0, len(set))
	for p := range set {
		ports = append(ports, p)
	}
	sort.Ints(ports)
	for _, port := range ports {
		// every listed kind at every port; the unlisted kinds and services at a sample
		for kind := 0; kind < k11NumKinds; kind++ {
			if kind >= k11EchoReq && rng.IntN(3) != 0 {
				continue
			}
			c11Case(r, rng, s, w, ref, kind, port)
		}
	}
}

// c11Build builds the packet for one case.
func c11Build(rng *rand.Rand, s *rfix.Star, w *cfgW, kind, port int) (*rfix.Scn, []byte, error) {
	sc := genScn(s, rng, rfix.ShDst, time.Now().Unix())
	quote := func(l4 int) []byte {
		// the offending packet: sent earlier by the local host (now the
		// destination of the error message) towards the remote source.
		q := &rfix.PktSpec{
			SrcIA: sc.DstIA, DstIA: sc.SrcIA, SrcHost: sc.DstHost, DstHost: sc.SrcHost,
			Path: sc.Spec.Decoded(rfix.ArrInternal), PathType: 1,
			L4: l4, SrcPort: uint16(port), DstPort: uint16(1 + rng.IntN(65535)), Payload: []byte("offending"),
		}
		if l4 != rfix.L4UDP {
			q.DstPort = uint16(port) // identifier
		}
		b, err := q.Build()
		if err != nil {
			panic(err)
		}
		return b
	}
	in, err := sc.Packet(rng, func(p *rfix.PktSpec) {
		p.DstPort = uint16(port)
		switch kind {
		case k11UDP:
		case k11TCP:
			p.L4 = rfix.L4TCP
		case k11EchoRep:
			p.L4 = rfix.L4SCMPEchoRep
		case k11TraceRep:
			p.L4 = rfix.L4SCMPTraceRep
		case k11ErrUDP:
			p.L4 = rfix.L4SCMPError
			p.Quote = quote(rfix.L4UDP)
		case k11EchoReq:
			p.L4 = rfix.L4SCMPEchoReq
		case k11TraceReq:
			p.L4 = rfix.L4SCMPTraceReq
		case k11ErrEcho:
			p.L4 = rfix.L4SCMPError
			p.Quote = quote(rfix.L4SCMPEchoReq)
		case k11ErrTrace:
			p.L4 = rfix.L4SCMPError
			p.Quote = quote(rfix.L4SCMPTraceReq)
		case k11Unknown:
			p.L4 = rfix.L4Unknown
			p.Payload = append([]byte{0, 0, byte(port >> 8), byte(port)}, p.Payload...)
		case k11SvcReg:
			p.DstHost = addr.HostSVC(addr.SvcCS)
		case k11SvcMcast:
			p.DstHost = addr.HostSVC(addr.SvcCS.Multicast())
		case k11SvcUnreg:
			switch {
			case len(w.Svc["DS"]) == 0 && rng.IntN(2) == 0:
				p.DstHost = addr.HostSVC(addr.SvcDS)
			case rng.IntN(2) == 0:
				p.DstHost = addr.HostSVC(addr.SvcWildcard)
			default:
				p.DstHost = addr.HostSVC(addr.SVC(0x0100 + rng.IntN(0x100)))
			}
		}
		sc.DstHost = p.DstHost
	})
	return sc, in, err
}

func c11Case(r *mon.Run, rng *rand.Rand, s *rfix.Star, w *cfgW, ref prange, kind, port int) {
	sc, in, err := c11Build(rng, s, w, kind, port)
	if err != nil {
		r.Inconclusive("build-error")
		return
	}
	c11Judge(r, s, w, ref, kind, port, sc.DstHost, sc.In.IfID, in)
}

func c11Judge(r *mon.Run, s *rfix.Star, w *cfgW, ref prange, kind, port int, dst addr.Host, inIf uint16, in []byte) {
	res := s.Process(in, rfix.Ingress{IfID: inIf})
	r.Eval(1)
	wit := func(exp, got string) c11W {
		cw := c11W{Cfg: w, Range: ref, Kind: k11Names[kind], Port: port, DstHost: dst.String(), InIf: inIf,
			Input: hex.EncodeToString(in), Expected: exp, Got: got}
		if a, b, c, ok := udpip.VerifInternalDispatch(s.Link(0)); ok {
			cw.LinkHeld = fmt.Sprintf("start=%d end=%d redirect=%d", a, b, c)
		}
		return cw
	}
	ov := w.OvStart != nil
	order := w.Order
	if res.Panic != "" {
		r.Violation("C11:panic:"+mon.PanicSite(res.Stack), "panic while processing: "+res.Panic, wit("", res.Stack))
		return
	}
	delivered := res.Forwarded() && res.OutScope == router.Internal && res.Remote != nil
	got := "not delivered"
	if delivered {
		got = res.Remote.String()
	} else if res.ViaSlow {
		got = fmt.Sprintf("not delivered (SCMP %d/%d)", res.SlowKind, res.SlowCode)
	}
	pos := "out"
	if ref.has(port) {
		pos = "in"
	}
	outcome := "none"
	if delivered {
		switch {
		case res.Remote.Port == port:
			outcome = "unchanged"
		case res.Remote.Port == endhostPort:
			outcome = "redirected"
		default:
			outcome = "other"
		}
	}
	r.Class(fmt.Sprintf("%s/%s/%s/%s/%s", order, rangeKind(w.Range, ref, ov), k11Names[kind], pos, outcome))
	if r.WantSample() && (port == ref.A || port == endhostPort+1) && kind%5 == int(inIf)%5 {
		r.Sample(wit("", got))
	}
	// ---- service destinations ----
	if kind >= k11SvcReg {
		if kind == k11SvcUnreg {
			if delivered {
				r.Violation("C11:svc-unregistered-delivered", fmt.Sprintf("packet for unregistered service %v delivered to %s", dst, got), wit("no delivery", got))
			} else {
				r.Event("svc_unregistered_not_delivered")
			}
			return
		}
		exp := strings.Join(w.Svc["CS"], " | ")
		if !delivered {
			r.Violation("C11:svc-not-delivered", "packet for a registered service was not delivered", wit(exp, got))
			return
		}
		ok := false
		for _, a := range w.Svc["CS"] {
			ap := netip.MustParseAddrPort(a)
			if ip, _ := netip.AddrFromSlice(res.Remote.IP); ip.Unmap() == ap.Addr() && res.Remote.Port == int(ap.Port()) {
				ok = true
			}
		}
		if !ok {
			r.Violation("C11:svc-wrong-instance:"+order, fmt.Sprintf("packet for service %v sent to %s which is not the address and port of a registered instance (%s)", dst, got, exp), wit(exp, got))
			return
		}
		r.Event("svc_delivered")
		return
	}
	// ---- IP hosts ----
	listed := kind <= k11ErrUDP && !(kind == k11ErrUDP && port == 0)
	if !delivered {
		if listed {
			r.Violation("C11:not-delivered:"+k11Names[kind], "a valid packet for a local IP host was not delivered", wit("delivery", got))
		} else {
			r.Event("unlisted_not_delivered")
		}
		return
	}
	if ip, _ := netip.AddrFromSlice(res.Remote.IP); ip.Unmap() != dst.IP().Unmap() {
		r.Violation("C11:wrong-host", fmt.Sprintf("delivered to %s, destination host is %s", got, dst), wit(dst.String(), got))
		return
	}
	gp := res.Remote.Port
	if !listed {
		// universal invariant only
		if gp != endhostPort && !ref.has(gp) {
			key := "C11:not-redirected:" + order
			r.Violation(key, fmt.Sprintf("%s: delivered to underlay port %d which is neither inside the configured range %+v nor %d", k11Names[kind], gp, ref, endhostPort), wit(fmt.Sprintf("port in range or %d", endhostPort), got))
			return
		}
		r.Event("unlisted_delivered_ok")
		return
	}
	want := endhostPort
	if ref.has(port) {
		want = port
	}
	exp := fmt.Sprintf("%s port %d", dst, want)
	switch {
	case gp == want:
		if want == port && ref.has(port) {
			r.Event("delivered_in_range_unchanged")
		} else {
			r.Event("delivered_redirected")
		}
	case want == endhostPort && gp == port:
		key := "C11:not-redirected:" + order
		if port == 0 && ref.Empty {
			// the topology loader represents the empty range as (0,0)
			key = "C11:not-redirected:port0-empty-range"
		}
		r.Violation(key, fmt.Sprintf("%s port %d is outside the configured range %+v but was delivered to underlay port %d instead of %d (order %s)", k11Names[kind], port, ref, gp, endhostPort, order), wit(exp, got))
	case want == port && gp == endhostPort:
		r.Violation("C11:redirected-in-range:"+order, fmt.Sprintf("%s port %d is inside the configured range %+v but was redirected to %d (order %s)", k11Names[kind], port, ref, endhostPort, order), wit(exp, got))
	default:
		r.Violation("C11:wrong-port:"+order, fmt.Sprintf("%s port %d, range %+v: delivered to underlay port %d, expected %d", k11Names[kind], port, ref, gp, want), wit(exp, got))
	}
}

func c11Replay(r *mon.Run, w *c11W) {
	s := mustStar(w.Cfg)
	in, _ := hex.DecodeString(w.Input)
	kind := 0
	for i, n := range k11Names {
		if n == w.Kind {
			kind = i
		}
	}
	h, err := rfix.ParseHdr(in)
	if err != nil {
		fmt.Println("replay: input does not parse:", err)
		return
	}
	var dst addr.Host
	if h.DT == 1 { // service
		dst = addr.HostSVC(addr.SVC(uint16(h.DstHost[0])<<8 | uint16(h.DstHost[1])))
	} else {
		ip, _ := netip.AddrFromSlice(h.DstHost)
		dst = addr.HostIP(ip)
	}
	c11Judge(r, s, w.Cfg, refRange(w.Cfg.Range, w.Cfg.OvStart, w.Cfg.OvEnd), kind, w.Port, dst, w.InIf, in)
	r.Class("replay")
	r.Class("replay-2")
	r.Sample(w)
}
