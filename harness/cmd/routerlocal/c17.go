package main

import (
	"bufio"
	"context"
	"encoding/json"
	"fmt"
	"github.com/scionproto/scion/private/underlay/conn"
	"math/rand/v2"
	"net/netip"
	"os"
	"os/exec"
	"path/filepath"
	"regexp"
	"strconv"
	"strings"
	"sync"
	"time"

	"github.com/scionproto/scion/pkg/addr"
	"github.com/scionproto/scion/router"
	"github.com/scionproto/scion/router/bfd"

	"verif/mon"
	"verif/rfix"
)

const c17ChildEnv = "VERIF_C17_CHILD"

// ---- spy underlay provider: observes the arguments of the provider factory ----

type spyCreation struct {
	Name              string
	Batch, Recv, Send int
}

var (
	spyMu        sync.Mutex
	spyCreations []spyCreation
	spyOnce      sync.Once
)

const (
	spyExt = "verifspy-ext" // only ever named by owned (external) interfaces
	spySib = "verifspy-sib" // only ever named by sibling-owned interfaces
)

func registerSpies() {
	spyOnce.Do(func() {
		for _, n := range []string{spyExt, spySib} {
			name := n
			router.AddUnderlay(name, func(batch, recv, send int) router.UnderlayProvider {
				spyMu.Lock()
				spyCreations = append(spyCreations, spyCreation{name, batch, recv, send})
				spyMu.Unlock()
				return &spyProvider{}
			})
		}
	})
}

func takeSpyCreations() []spyCreation {
	spyMu.Lock()
	defer spyMu.Unlock()
	out := spyCreations
	spyCreations = nil
	return out
}

type spyProvider struct{ n int }

func (p *spyProvider) SetConnOpener(any)                                               {}
func (p *spyProvider) NumConnections() int                                             { return p.n }
func (p *spyProvider) Headroom() int                                                   { return 0 }
func (p *spyProvider) SetDispatchPorts(start, end, redirect uint16)                    {}
func (p *spyProvider) AddSvc(addr.SVC, addr.Host, uint16) error                        { return nil }
func (p *spyProvider) DelSvc(addr.SVC, addr.Host, uint16) error                        { return nil }
func (p *spyProvider) Start(context.Context, router.PacketPool, []chan *router.Packet) {}
func (p *spyProvider) Stop()                                                           {}
func (p *spyProvider) NewExternalLink(_ int, b *bfd.Session, _, _ string, ifID uint16, m *router.InterfaceMetrics) (router.Link, error) {
	p.n++
	return &spyLink{ifID: ifID, scope: router.External, m: m, b: b}, nil
}
func (p *spyProvider) NewSiblingLink(_ int, b *bfd.Session, _, _ string, m *router.InterfaceMetrics) (router.Link, error) {
	p.n++
	return &spyLink{scope: router.Sibling, m: m, b: b}, nil
}
func (p *spyProvider) NewInternalLink(string, int, *router.InterfaceMetrics) (router.Link, error) {
	return nil, fmt.Errorf("spy provider has no internal link")
}

type spyLink struct {
	ifID  uint16
	scope router.LinkScope
	m     *router.InterfaceMetrics
	b     *bfd.Session
}

func (l *spyLink) IsUp() bool                                      { return true }
func (l *spyLink) IfID() uint16                                    { return l.ifID }
func (l *spyLink) Metrics() *router.InterfaceMetrics               { return l.m }
func (l *spyLink) Scope() router.LinkScope                         { return l.scope }
func (l *spyLink) BFDSession() *bfd.Session                        { return l.b }
func (l *spyLink) Resolve(*router.Packet, addr.Host, uint16) error { return fmt.Errorf("spy link") }
func (l *spyLink) Send(*router.Packet) bool                        { return true }
func (l *spyLink) SendBlocking(*router.Packet)                     {}

// ---- check ----

type c17W struct {
	Cfg      *cfgW  `json:"config"`
	Where    string `json:"where"`
	Local    string `json:"socket_local,omitempty"`
	Remote   string `json:"socket_remote,omitempty"`
	GotRecv  int    `json:"got_receive"`
	GotSend  int    `json:"got_send"`
	WantRecv int    `json:"configured_receive"`
	WantSend int    `json:"configured_send"`
	Trace    string `json:"strace_excerpt,omitempty"`
}

func checkC17(r *mon.Run) {
	r.Rule = "configurations = random receive != send buffer sizes (incl. one of them 0) x {direct Connector calls in three orders, control.ConfigDataplane} x UDPCanReuseLocal x core/non-core AS, " +
		"12 links (owned external, sibling-owned) + internal link, some links on a second (spy) underlay provider so that all three provider-factory call sites run; " +
		"observation (a) = conn.Config of every ConnOpener.Open and the arguments of every provider-factory call, (b, thorough) = SO_RCVBUF/SO_SNDBUF setsockopt values per socket seen by strace on real 127.0.0.0/8 sockets; " +
		"oracle = receive option == configured receive size and send option == configured send size; class = path/order/reuse/link-kind/sizes-shape"
	r.Assumptions = []string{
		"NewProviderFn's documented parameter order (batchSize, receiveBufferSize, sendBufferSize) from router/underlay.go is the contract of the factory",
		"strace part: the kernel may clamp the effective size; only the requested setsockopt value is compared",
	}
	registerSpies()
	if w := (c17W{}); loadReplay(r, &w) {
		c17Spy(r, w.Cfg)
		r.Class("replay")
		r.Class("replay-2")
		r.Sample(w)
		return
	}
	rng := r.Rand("c17")
	n := r.Pick(240, 2400)
	for i := 0; i < n; i++ {
		w := genCfg(rng)
		w.Order = rfix.LocalOrder(i % int(rfix.NumLocalOrders)).String()
		w.Range = "31000-32767"
		w.Reuse = (i/4)%2 == 0
		c17Sizes(rng, w)
		if i%3 != 0 {
			// put some links on the spy providers
			w.Providers = map[string]string{}
			for _, f := range w.Ifs {
				if rng.IntN(3) != 0 {
					continue
				}
				if f.Owned {
					w.Providers[fmt.Sprint(f.ID)] = spyExt
				} else if w.Order != rfix.OrdControl.String() {
					// control.ConfigDataplane puts every sibling link on udpip
					w.Providers[fmt.Sprint(f.ID)] = spySib
				}
			}
		}
		c17Spy(r, w)
	}
	// fault path: the first attempt to open one of the sockets fails (address
	// in use, descriptor limit, ...). Configuration may fail as a whole; every
	// socket that IS opened, at the first or a later attempt, must still be
	// opened with the configured sizes.
	nf := r.Pick(120, 1200)
	for i := 0; i < nf; i++ {
		w := genCfg(rng)
		w.Order = rfix.LocalOrder(i % int(rfix.NumLocalOrders)).String()
		w.Range = "31000-32767"
		w.Reuse = (i/4)%2 == 0
		c17Sizes(rng, w)
		c17OpenFault(r, rng, w)
	}
	minEv := int64(n * 4)
	events := []string{"open_internal_ok_or_judged", "open_external_ok_or_judged", "open_sibling_ok_or_judged", "factory_external_judged", "factory_sibling_judged"}
	// real sockets under strace: a few child runs in the quick tier too, because some
	// breaks (e.g. one option silently not requested) are invisible in conn.Config
	nb := r.Pick(4, 16)
	for i := 0; i < nb; i++ {
		c17Strace(r, rng, i)
	}
	events = append(events, "strace_socket_judged", "open_fault_injected", "open_after_fault_judged")
	r.Require(minEv, 12, events...)
}

func c17Sizes(rng *rand.Rand, w *cfgW) {
	size := func() int {
		switch rng.IntN(4) {
		case 0:
			return 1 + rng.IntN(4096)
		case 1:
			return 4096 << rng.IntN(12)
		default:
			return 1 + rng.IntN(1<<24)
		}
	}
	w.RecvBuf, w.SendBuf = size(), size()
	for w.RecvBuf == w.SendBuf {
		w.SendBuf = size()
	}
	switch rng.IntN(8) {
	case 0:
		w.RecvBuf = 0
	case 1:
		w.SendBuf = 0
	}
}

func sizesShape(w *cfgW) string {
	switch {
	case w.RecvBuf == 0:
		return "recv0"
	case w.SendBuf == 0:
		return "send0"
	case w.RecvBuf < w.SendBuf:
		return "recv<send"
	}
	return "recv>send"
}

func c17Verdict(r *mon.Run, w *cfgW, where, kind string, gotRecv, gotSend int, wit c17W) {
	r.Eval(1)
	wit.Cfg, wit.Where = w, where
	wit.GotRecv, wit.GotSend, wit.WantRecv, wit.WantSend = gotRecv, gotSend, w.RecvBuf, w.SendBuf
	if gotRecv == w.RecvBuf && gotSend == w.SendBuf {
		if r.WantSample() && w.RecvBuf%7 == 0 {
			r.Sample(wit)
		}
		return
	}
	if gotRecv == w.SendBuf && gotSend == w.RecvBuf {
		r.Violation("C17:swapped:"+kind, fmt.Sprintf("%s: receive buffer requested %d, send buffer requested %d, but configured receive=%d send=%d (swapped)", where, gotRecv, gotSend, w.RecvBuf, w.SendBuf), wit)
		return
	}
	r.Violation("C17:mismatch:"+kind, fmt.Sprintf("%s: receive buffer requested %d, send buffer requested %d, configured receive=%d send=%d", where, gotRecv, gotSend, w.RecvBuf, w.SendBuf), wit)
}

// c17Spy is part (a): configure with the spying opener / spy providers.
func c17Spy(r *mon.Run, w *cfgW) {
	takeSpyCreations()
	lc := w.local()
	s, err := rfix.NewLocalStar(lc)
	if err != nil {
		fmt.Println("fixture error:", err)
		panic(err)
	}
	base := fmt.Sprintf("spy/%s/reuse=%v/%s", w.Order, w.Reuse, sizesShape(w))
	intAddr := rfix.SiblingAddr(0)
	sibs := map[netip.AddrPort]bool{rfix.SiblingAddr(1): true, rfix.SiblingAddr(2): true}
	seen := map[string]int{}
	for _, o := range s.Opens {
		kind := "external"
		switch {
		case !o.Remote.IsValid():
			kind = "internal"
		case sibs[o.Remote] && o.Local == intAddr:
			kind = "sibling"
		}
		seen[kind]++
		r.Class(base + "/open-" + kind)
		r.Event("open_" + kind + "_ok_or_judged")
		c17Verdict(r, w, "ConnOpener.Open of the "+kind+" link's socket", kind, o.Cfg.ReceiveBufferSize, o.Cfg.SendBufferSize,
			c17W{Local: o.Local.String(), Remote: o.Remote.String()})
	}
	// completeness: one internal socket; one per owned udpip interface; with
	// reuse one per sibling router reached over udpip.
	if seen["internal"] != 1 {
		r.Violation("C17:fixture-opens", fmt.Sprintf("expected exactly one internal socket, saw %d", seen["internal"]), c17W{Cfg: w})
	}
	for _, c := range takeSpyCreations() {
		site := "external"
		if c.Name == spySib {
			site = "sibling"
		}
		r.Class(base + "/factory-" + site)
		r.Event("factory_" + site + "_judged")
		c17Verdict(r, w, "underlay provider factory called for a "+site+" link (NewProviderFn(batch, receive, send))", "provider-factory-"+site, c.Recv, c.Send, c17W{})
	}
}

// ---- part (b): real sockets under strace ----

type c17ChildCfg struct {
	Cfg  *cfgW `json:"cfg"`
	Base int   `json:"base_port"`
}

func c17Plan(cc *c17ChildCfg) rfix.LocalCfg {
	lc := cc.Cfg.local()
	lc.RealSockets = true
	b := uint16(cc.Base)
	lc.IntAddr = func() netip.AddrPort { return netip.AddrPortFrom(netip.AddrFrom4([4]byte{127, 0, 0, 1}), b) }
	lc.SibAddr = func(k int) netip.AddrPort {
		return netip.AddrPortFrom(netip.AddrFrom4([4]byte{127, 0, 4, byte(k)}), b+3)
	}
	lc.ExtLocal = func(id uint16) netip.AddrPort {
		return netip.AddrPortFrom(netip.AddrFrom4([4]byte{127, 0, 2, byte(id)}), b+1)
	}
	lc.ExtRemote = func(id uint16) netip.AddrPort {
		return netip.AddrPortFrom(netip.AddrFrom4([4]byte{127, 0, 3, byte(id)}), b+2)
	}
	lc.DontMakeProc = true
	return lc
}

// c17Child runs in the straced child: configure a router with the default
// connection opener, which opens the real sockets, then exit.
func c17Child() {
	var cc c17ChildCfg
	if err := json.Unmarshal([]byte(os.Getenv(c17ChildEnv)), &cc); err != nil {
		fmt.Println("child: bad config:", err)
		os.Exit(4)
	}
	if _, err := rfix.NewLocalStar(c17Plan(&cc)); err != nil {
		fmt.Println("child: configuration failed:", err)
		os.Exit(5)
	}
	fmt.Println("child: configured")
	os.Exit(0)
}

var (
	reLine   = regexp.MustCompile(`^(\d+)\s+(.*)$`)
	reSocket = regexp.MustCompile(`^socket\((AF_INET6?), ([A-Z_|]+), [A-Z_0-9]+\)\s+= (\d+)`)
	reAddr   = regexp.MustCompile(`sin6?_port=htons\((\d+)\).*?(?:inet_addr\("([0-9.]+)"\)|inet_pton\(AF_INET6, "([0-9a-f:.]+)")`)
	reBind   = regexp.MustCompile(`^(bind|connect)\((\d+), \{(.*)\}, \d+\)\s+= (-?\d+)`)
	reOpt    = regexp.MustCompile(`^setsockopt\((\d+), SOL_SOCKET, (SO_(?:RCV|SND)BUF(?:FORCE)?), \[(-?\d+)\], \d+\)\s+= (-?\d+)`)
	reClose  = regexp.MustCompile(`^close\((\d+)\)\s+= 0`)
)

type tracedSock struct {
	bind, conn string
	rcv, snd   []int
	lines      []string
}

func c17Strace(r *mon.Run, rng *rand.Rand, idx int) {
	w := genCfg(rng)
	// three links are enough: one owned external, one sibling, plus internal
	var ifs []ifW
	var haveO, haveS bool
	for _, f := range w.Ifs {
		if f.Owned && !haveO {
			f.ID = uint16(1 + rng.IntN(200))
			ifs, haveO = append(ifs, f), true
		} else if !f.Owned && !haveS {
			f.ID = uint16(201 + rng.IntN(50))
			ifs, haveS = append(ifs, f), true
		}
	}
	w.Ifs = ifs
	w.Order = rfix.LocalOrder(idx % int(rfix.NumLocalOrders)).String()
	w.Range = "31000-32767"
	w.Reuse = true // the default opener follows the OS (Linux: true)
	c17Sizes(rng, w)
	// a zero size means "leave the OS default": no setsockopt to observe for it,
	// but the other, configured, size must still be requested
	switch idx % 4 {
	case 1:
		w.RecvBuf, w.SendBuf = 3000+rng.IntN(100000), 0
	case 2:
		w.RecvBuf, w.SendBuf = 0, 200000+rng.IntN(100000)
	case 3:
		// above the kernel's rmem_max / wmem_max (the process runs privileged,
		// so any forced variants of the options are within its reach)
		w.RecvBuf, w.SendBuf = (8<<20)+rng.IntN(32<<20), (6<<20)+rng.IntN(16<<20)
		if rng.IntN(2) == 0 {
			w.SendBuf = 200000 + rng.IntN(100000)
		}
	default:
		if w.RecvBuf == 0 || w.SendBuf == 0 {
			w.RecvBuf, w.SendBuf = 3000+rng.IntN(100000), 200000+rng.IntN(100000)
		}
	}
	cc := &c17ChildCfg{Cfg: w, Base: 40000 + rng.IntN(20000)}
	js, _ := json.Marshal(cc)
	dir, err := os.MkdirTemp("", "verif-c17-")
	if err != nil {
		r.Inconclusive("tempdir")
		return
	}
	defer os.RemoveAll(dir)
	out := filepath.Join(dir, "trace.txt")
	self, err := os.Executable()
	if err != nil {
		r.Inconclusive("self-path")
		return
	}
	ctx, cancel := context.WithTimeout(context.Background(), 60*time.Second)
	defer cancel()
	cmd := exec.CommandContext(ctx, "strace", "-f", "-e", "trace=socket,bind,connect,setsockopt,close", "-o", out, self)
	cmd.Env = append(os.Environ(), c17ChildEnv+"="+string(js))
	co, err := cmd.CombinedOutput()
	if ctx.Err() != nil {
		r.Inconclusive("strace-timeout")
		return
	}
	if err != nil {
		// bind failures (port taken by another process) are not a verdict
		fmt.Printf("C17 strace child failed: %v\n%s\n", err, co)
		r.Inconclusive("strace-child-failed")
		return
	}
	f, err := os.Open(out)
	if err != nil {
		r.Inconclusive("strace-no-output")
		return
	}
	defer f.Close()
	// join "<unfinished ...>" / "<... resumed>" pairs per pid
	pending := map[string]string{}
	fds := map[string]*tracedSock{} // live sockets by fd
	var all []*tracedSock
	sc := bufio.NewScanner(f)
	sc.Buffer(make([]byte, 1<<20), 1<<20)
	for sc.Scan() {
		m := reLine.FindStringSubmatch(sc.Text())
		if m == nil {
			continue
		}
		pid, txt := m[1], m[2]
		if i := strings.Index(txt, " <unfinished ...>"); i >= 0 {
			pending[pid] = txt[:i]
			continue
		}
		if strings.HasPrefix(txt, "<... ") {
			if i := strings.Index(txt, " resumed>"); i >= 0 {
				txt = pending[pid] + txt[i+len(" resumed>"):]
				delete(pending, pid)
			}
		}
		if m := reSocket.FindStringSubmatch(txt); m != nil {
			if strings.Contains(m[2], "SOCK_DGRAM") {
				t := &tracedSock{lines: []string{txt}}
				fds[m[3]] = t
				all = append(all, t)
			} else {
				delete(fds, m[3])
			}
			continue
		}
		if m := reClose.FindStringSubmatch(txt); m != nil {
			delete(fds, m[1])
			continue
		}
		if m := reBind.FindStringSubmatch(txt); m != nil {
			t := fds[m[2]]
			if t == nil || m[4] != "0" {
				continue
			}
			t.lines = append(t.lines, txt)
			if a := reAddr.FindStringSubmatch(m[3]); a != nil {
				ad := a[2] + a[3] + ":" + a[1]
				if m[1] == "bind" {
					t.bind = ad
				} else {
					t.conn = ad
				}
			}
			continue
		}
		if m := reOpt.FindStringSubmatch(txt); m != nil {
			t := fds[m[1]]
			if t == nil {
				continue
			}
			t.lines = append(t.lines, txt)
			v, _ := strconv.Atoi(m[3])
			if m[4] != "0" {
				continue
			}
			if strings.HasPrefix(m[2], "SO_RCV") {
				t.rcv = append(t.rcv, v)
			} else {
				t.snd = append(t.snd, v)
			}
		}
	}
	lc := c17Plan(cc)
	intA := lc.IntAddr().String()
	found := map[string]bool{}
	for _, t := range all {
		if t.bind == "" || !strings.HasPrefix(t.bind, "127.0.") {
			continue
		}
		kind := ""
		switch {
		case t.bind == intA && t.conn == "":
			kind = "internal"
		case t.bind == intA && strings.HasPrefix(t.conn, "127.0.4."):
			kind = "sibling"
		case strings.HasPrefix(t.bind, "127.0.2.") && strings.HasPrefix(t.conn, "127.0.3."):
			kind = "external"
		default:
			continue
		}
		found[kind] = true
		r.Event("strace_socket_judged")
		r.Class(fmt.Sprintf("strace/%s/%s/%s", w.Order, kind, sizesShape(w)))
		wit := c17W{Local: t.bind, Remote: t.conn, Trace: strings.Join(t.lines, "\n")}
		if (len(t.rcv) == 0 && w.RecvBuf != 0) || (len(t.snd) == 0 && w.SendBuf != 0) {
			r.Eval(1)
			wit.Cfg, wit.Where, wit.WantRecv, wit.WantSend = w, "strace", w.RecvBuf, w.SendBuf
			r.Violation("C17:missing:"+kind, fmt.Sprintf("no SO_RCVBUF/SO_SNDBUF request seen on the %s socket although receive=%d send=%d are configured", kind, w.RecvBuf, w.SendBuf), wit)
			continue
		}
		// every request on the socket must carry the configured value
		gr, gs := w.RecvBuf, w.SendBuf // a size of 0 is not requested and not judged
		if len(t.rcv) > 0 && w.RecvBuf != 0 {
			gr = t.rcv[len(t.rcv)-1]
		}
		if len(t.snd) > 0 && w.SendBuf != 0 {
			gs = t.snd[len(t.snd)-1]
		}
		if w.RecvBuf == 0 {
			t.rcv = nil
		}
		if w.SendBuf == 0 {
			t.snd = nil
		}
		for _, v := range t.rcv {
			if v != w.RecvBuf {
				gr = v
			}
		}
		for _, v := range t.snd {
			if v != w.SendBuf {
				gs = v
			}
		}
		c17Verdict(r, w, "setsockopt on the real "+kind+" socket (strace)", kind, gr, gs, wit)
	}
	for _, k := range []string{"internal", "sibling", "external"} {
		if !found[k] {
			r.Inconclusive("strace-socket-not-found-" + k)
		}
	}
}

// faultOpener fails the failAt-th Open once and records the configuration of
// every Open that succeeds.
type faultOpener struct {
	reuse  bool
	failAt int
	n      int
	failed bool
	opens  *[]rfix.OpenRecord
}

func (o *faultOpener) Open(l, r netip.AddrPort, c *conn.Config) (router.BatchConn, error) {
	o.n++
	if o.n == o.failAt && !o.failed {
		o.failed = true
		return nil, fmt.Errorf("listen udp %s: bind: address already in use (injected)", l)
	}
	*o.opens = append(*o.opens, rfix.OpenRecord{Local: l, Remote: r, Cfg: *c})
	return rfix.NopOpener{}.Open(l, r, c)
}

func (o *faultOpener) UDPCanReuseLocal() bool { return o.reuse }

func c17OpenFault(r *mon.Run, rng *rand.Rand, w *cfgW) {
	var opens []rfix.OpenRecord
	op := &faultOpener{reuse: w.Reuse, failAt: 1 + rng.IntN(8), opens: &opens}
	lc := w.local()
	lc.Opener = op
	_, err := rfix.NewLocalStar(lc)
	if !op.failed {
		return // fewer sockets than failAt
	}
	r.Event("open_fault_injected")
	outcome := "configured"
	if err != nil {
		outcome = "configuration-failed"
	}
	r.Class(fmt.Sprintf("open-fault/%s/reuse=%v/at=%d/%s", w.Order, w.Reuse, min(op.failAt, 4), outcome))
	intAddr := rfix.SiblingAddr(0)
	sibs := map[netip.AddrPort]bool{rfix.SiblingAddr(1): true, rfix.SiblingAddr(2): true}
	for _, o := range opens {
		kind := "external"
		switch {
		case !o.Remote.IsValid():
			kind = "internal"
		case sibs[o.Remote] && o.Local == intAddr:
			kind = "sibling"
		}
		r.Event("open_after_fault_judged")
		c17Verdict(r, w, "ConnOpener.Open of the "+kind+" link's socket (an earlier Open failed)", kind+"/after-open-failure", o.Cfg.ReceiveBufferSize, o.Cfg.SendBufferSize,
			c17W{Local: o.Local.String(), Remote: o.Remote.String()})
	}
}
