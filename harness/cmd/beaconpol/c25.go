package main

import (
	"context"
	"crypto/hmac"
	"crypto/sha256"
	"encoding/binary"
	"encoding/json"
	"errors"
	"fmt"
	"hash"
	"math/rand/v2"
	"net"
	"net/netip"
	"os"
	"sort"
	"strings"
	"sync"
	"time"
	"verif/monlog"

	"google.golang.org/protobuf/proto"

	"github.com/scionproto/scion/control/beacon"
	"github.com/scionproto/scion/control/beaconing"
	"github.com/scionproto/scion/control/ifstate"
	"github.com/scionproto/scion/pkg/addr"
	cppb "github.com/scionproto/scion/pkg/proto/control_plane"
	cryptopb "github.com/scionproto/scion/pkg/proto/crypto"
	"github.com/scionproto/scion/pkg/scrypto"
	"github.com/scionproto/scion/pkg/scrypto/cppki"
	"github.com/scionproto/scion/pkg/scrypto/signed"
	seg "github.com/scionproto/scion/pkg/segment"
	"github.com/scionproto/scion/pkg/segment/extensions/discovery"
	"github.com/scionproto/scion/pkg/snet"
	snetpath "github.com/scionproto/scion/pkg/snet/path"
	infra "github.com/scionproto/scion/private/segment/verifier"
	"github.com/scionproto/scion/private/storage/beacon/sqlite"
	"github.com/scionproto/scion/private/storage/db"
	"github.com/scionproto/scion/private/topology"

	ref "verif/beaconpolref"
	"verif/mon"
)

// ---------------------------------------------------------------------------
// Case description (JSON-marshalable: this is the witness / replay format)
// ---------------------------------------------------------------------------

type ifSpec struct {
	ID     uint16  `json:"id"`
	Link   string  `json:"link"` // core|parent|child|peer|unset
	Neigh  addr.IA `json:"neigh"`
	Remote uint16  `json:"remote"`
}

type filterSpec struct {
	MaxLen       int        `json:"max_len"` // 0 = unset
	ASBlock      []addr.AS  `json:"as_block,omitempty"`
	ISDBlock     []addr.ISD `json:"isd_block,omitempty"`
	AllowISDLoop *bool      `json:"allow_isd_loop"` // nil = unset
	BestSet      int        `json:"best_set"`
	CandSet      int        `json:"cand_set"`
}

type hopSpec struct {
	IA addr.IA `json:"ia"`
	In uint16  `json:"in"`
	Eg uint16  `json:"eg"`
	// Sig: "" good; "flip" signature corrupted after the whole beacon was
	// built; "inline" corrupted before the next AS signed over it (only this
	// entry fails); "foreign" signed with another AS's key.
	Sig string `json:"sig,omitempty"`
}

type beaconSpec struct {
	InIf     uint16    `json:"in_if"`
	Hops     []hopSpec `json:"hops"`
	LastNext addr.IA   `json:"last_next"`
	TsOff    int       `json:"ts_off_s"` // info timestamp = start of fixture - TsOff seconds
	SegID    uint16    `json:"seg_id"`
	Labels   []string  `json:"labels,omitempty"`
	ResendOf int       `json:"resend_of"` // index of the beacon whose hops are re-sent, -1 if none
}

type fixtureSpec struct {
	Idx     int                   `json:"idx"`
	Local   addr.IA               `json:"local"`
	Core    bool                  `json:"core"`
	Ifs     []ifSpec              `json:"ifs"`
	Pol     map[string]filterSpec `json:"policies"`
	Beacons []beaconSpec          `json:"beacons"`
	// AllEgress: propagate on every interface instead of only core (core AS)
	// or child (non-core AS) interfaces.
	AllEgress bool `json:"all_egress"`
	// Direct-mode propagation: beacons handed to the propagator by a scripted
	// provider, with its own ISD-loop switch.
	Direct             []beaconSpec `json:"direct,omitempty"`
	DirectAllowISDLoop bool         `json:"direct_allow_isd_loop"`
}

type c25Witness struct {
	Phase   string         `json:"phase"`
	Step    int            `json:"step"`
	Detail  map[string]any `json:"detail,omitempty"`
	Fixture fixtureSpec    `json:"fixture"`
}

// ---------------------------------------------------------------------------
// Generators
// ---------------------------------------------------------------------------

var (
	c25ASNums = []addr.AS{0xff00_0000_0110, 0xff00_0000_0111, 0xff00_0000_0112, 0xff00_0000_0120, 64512}
	c25ISDs   = []addr.ISD{1, 2, 3, 4}
	c25Links  = []string{"core", "parent", "child", "peer", "unset"}
)

func c25Pool() []addr.IA {
	var pool []addr.IA
	for _, i := range c25ISDs {
		for _, a := range c25ASNums {
			pool = append(pool, addr.MustIAFrom(i, a))
		}
	}
	return pool
}

func linkOf(s string) (topology.LinkType, ref.Link) {
	switch s {
	case "core":
		return topology.Core, ref.LinkCore
	case "parent":
		return topology.Parent, ref.LinkParent
	case "child":
		return topology.Child, ref.LinkChild
	case "peer":
		return topology.Peer, ref.LinkPeer
	}
	return topology.Unset, ref.LinkUnset
}

func genFilter(rng *rand.Rand, lenient bool) filterSpec {
	var f filterSpec
	pAct := 0.45
	if lenient {
		pAct = 0.12
	}
	if rng.Float64() < pAct {
		f.MaxLen = []int{1, 2, 3, 4, 5, 6, 8, 11, 13}[rng.IntN(9)]
	}
	if rng.Float64() < pAct {
		perm := rng.Perm(len(c25ASNums))
		for _, p := range perm[:1+rng.IntN(3)] {
			f.ASBlock = append(f.ASBlock, c25ASNums[p])
		}
		if rng.IntN(4) == 0 {
			f.ASBlock = append(f.ASBlock, 0xff00_0000_0999) // never on a beacon
		}
	}
	if rng.Float64() < pAct {
		perm := rng.Perm(len(c25ISDs))
		for _, p := range perm[:1+rng.IntN(2)] {
			f.ISDBlock = append(f.ISDBlock, c25ISDs[p])
		}
	}
	k := rng.IntN(3)
	if lenient && rng.IntN(2) == 0 {
		k = 0
	}
	switch k {
	case 1:
		t := true
		f.AllowISDLoop = &t
	case 2:
		fl := false
		f.AllowISDLoop = &fl
	}
	f.BestSet = []int{0, 5, 50}[rng.IntN(3)]
	f.CandSet = []int{0, 50, 200}[rng.IntN(3)]
	return f
}

func (f filterSpec) ref() ref.Filter {
	out := ref.Filter{MaxLen: f.MaxLen, AllowISDLoop: f.AllowISDLoop}
	for _, a := range f.ASBlock {
		out.ASBlock = append(out.ASBlock, uint64(a))
	}
	for _, i := range f.ISDBlock {
		out.ISDBlock = append(out.ISDBlock, uint16(i))
	}
	return out
}

func (f filterSpec) policy() beacon.Policy {
	return beacon.Policy{
		BestSetSize:      f.BestSet,
		CandidateSetSize: f.CandSet,
		Filter: beacon.Filter{
			MaxHopsLength: f.MaxLen,
			AsBlackList:   append([]addr.AS(nil), f.ASBlock...),
			IsdBlackList:  append([]addr.ISD(nil), f.ISDBlock...),
			AllowIsdLoop:  f.AllowISDLoop,
		},
	}
}

func polNames(core bool) []string {
	if core {
		return []string{ref.Prop, ref.CoreReg}
	}
	return []string{ref.Prop, ref.UpReg, ref.DownReg}
}

func pickUnused(rng *rand.Rand, pool []addr.IA, used map[addr.IA]bool, isd addr.ISD) (addr.IA, bool) {
	var c []addr.IA
	for _, ia := range pool {
		if used[ia] || (isd != 0 && ia.ISD() != isd) {
			continue
		}
		c = append(c, ia)
	}
	if len(c) == 0 {
		return 0, false
	}
	return c[rng.IntN(len(c))], true
}

func otherIA(rng *rand.Rand, pool []addr.IA, not ...addr.IA) addr.IA {
	for {
		ia := pool[rng.IntN(len(pool))]
		ok := true
		for _, n := range not {
			if ia == n {
				ok = false
			}
		}
		if ok {
			return ia
		}
	}
}

// genHops builds n ISD-AS values ending in last.
func genHops(rng *rand.Rand, pool []addr.IA, local, last addr.IA, n int, mode string) []addr.IA {
	hops := make([]addr.IA, n)
	hops[n-1] = last
	used := map[addr.IA]bool{last: true, local: true}
	anyIA := func() addr.IA {
		if ia, ok := pickUnused(rng, pool, used, 0); ok {
			return ia
		}
		return otherIA(rng, pool, local)
	}
	switch mode {
	case "coherent": // ISDs are never re-entered (walking backwards from the last hop)
		visited := map[addr.ISD]bool{last.ISD(): true}
		cur := last.ISD()
		for i := n - 2; i >= 0; i-- {
			if rng.Float64() < 0.25 {
				var c []addr.ISD
				for _, isd := range c25ISDs {
					if !visited[isd] {
						c = append(c, isd)
					}
				}
				if len(c) > 0 {
					cur = c[rng.IntN(len(c))]
					visited[cur] = true
				}
			}
			ia, ok := pickUnused(rng, pool, used, cur)
			if !ok {
				ia = anyIA()
				cur = ia.ISD()
				visited[cur] = true
			}
			used[ia] = true
			hops[i] = ia
		}
	case "zigzag": // alternate between two ISDs
		a := last.ISD()
		b := c25ISDs[rng.IntN(len(c25ISDs))]
		for b == a {
			b = c25ISDs[rng.IntN(len(c25ISDs))]
		}
		run := 1 + rng.IntN(2)
		for i := n - 2; i >= 0; i-- {
			isd := a
			if ((n-1-i)/run)%2 == 1 {
				isd = b
			}
			ia, ok := pickUnused(rng, pool, used, isd)
			if !ok {
				ia = anyIA()
			}
			used[ia] = true
			hops[i] = ia
		}
	default: // "random", "asloop"
		for i := n - 2; i >= 0; i-- {
			ia := anyIA()
			used[ia] = true
			hops[i] = ia
		}
		if mode == "asloop" && n >= 2 {
			i := rng.IntN(n - 1)
			j := rng.IntN(n)
			for j == i {
				j = rng.IntN(n)
			}
			hops[i] = hops[j]
		}
	}
	return hops
}

func hopIdent(hops []hopSpec) string {
	var sb strings.Builder
	for _, h := range hops {
		fmt.Fprintf(&sb, "%d:%d:%d|", uint64(h.IA), h.In, h.Eg)
	}
	return sb.String()
}

type genCtx struct {
	rng   *rand.Rand
	pool  []addr.IA
	fx    *fixtureSpec
	good  []ifSpec // parent/core
	bad   []ifSpec // child/peer/unset
	used  map[string]bool
	ifIDs map[uint16]bool
}

func (g *genCtx) effMaxLens() []int {
	var out []int
	for _, n := range polNames(g.fx.Core) {
		m := g.fx.Pol[n].MaxLen
		if m == 0 {
			m = ref.DefaultMaxLen
		}
		out = append(out, m)
	}
	return out
}

// genBeacon generates one arriving beacon. direct=true generates input for the
// scripted provider of the propagator (no upstream/next/signature defects,
// egress neighbours planted on the beacon).
func (g *genCtx) genBeacon(direct bool, egress []ifSpec) beaconSpec {
	rng := g.rng
	fx := g.fx
	bs := beaconSpec{ResendOf: -1, LastNext: fx.Local}
	var in ifSpec
	known := true
	x := rng.Float64()
	switch {
	case x < 0.70 || (direct && x < 0.85):
		in = g.good[rng.IntN(len(g.good))]
	case x < 0.92 || direct:
		in = g.bad[rng.IntN(len(g.bad))]
		bs.Labels = append(bs.Labels, "badlink")
	default:
		known = false
		id := uint16(1 + rng.IntN(3000))
		for g.ifIDs[id] {
			id = uint16(1 + rng.IntN(3000))
		}
		in = ifSpec{ID: id, Neigh: otherIA(rng, g.pool, fx.Local)}
		bs.Labels = append(bs.Labels, "unknown-if")
	}
	_ = known
	bs.InIf = in.ID

	// length
	var n int
	switch x := rng.Float64(); {
	case x < 0.25:
		ms := g.effMaxLens()
		n = ms[rng.IntN(len(ms))] + rng.IntN(2)
	case x < 0.70:
		n = 1 + rng.IntN(5)
	case x < 0.90:
		n = 6 + rng.IntN(4)
	default:
		n = 10 + rng.IntN(5)
	}
	if n < 1 {
		n = 1
	}
	if n > 14 {
		n = 14
	}

	last := in.Neigh
	if !direct && rng.Float64() < 0.12 {
		last = otherIA(rng, g.pool, in.Neigh, fx.Local)
		bs.Labels = append(bs.Labels, "upstream")
	}
	if !direct && rng.Float64() < 0.12 {
		bs.LastNext = otherIA(rng, g.pool, fx.Local)
		bs.Labels = append(bs.Labels, "next")
	}
	mode := "coherent"
	switch x := rng.Float64(); {
	case x < 0.50:
	case x < 0.78:
		mode = "random"
	case x < 0.89:
		mode = "asloop"
	default:
		mode = "zigzag"
	}
	if mode != "coherent" {
		bs.Labels = append(bs.Labels, mode)
	}
	ias := genHops(rng, g.pool, fx.Local, last, n, mode)

	// plant a blocked AS number / ISD of some policy at a random non-last position
	if n >= 2 && rng.Float64() < 0.15 {
		names := polNames(fx.Core)
		f := fx.Pol[names[rng.IntN(len(names))]]
		pos := rng.IntN(n - 1)
		switch {
		case len(f.ASBlock) > 0 && rng.IntN(2) == 0:
			ias[pos] = addr.MustIAFrom(ias[pos].ISD(), f.ASBlock[rng.IntN(len(f.ASBlock))])
			bs.Labels = append(bs.Labels, "plant-as")
		case len(f.ISDBlock) > 0:
			ias[pos] = addr.MustIAFrom(f.ISDBlock[rng.IntN(len(f.ISDBlock))], ias[pos].AS())
			bs.Labels = append(bs.Labels, "plant-isd")
		}
	}
	// plant an egress neighbour (propagation must then skip that interface)
	if n >= 2 && len(egress) > 0 && rng.Float64() < map[bool]float64{false: 0.15, true: 0.4}[direct] {
		nb := egress[rng.IntN(len(egress))].Neigh
		if nb != last {
			ias[rng.IntN(n-1)] = nb
			bs.Labels = append(bs.Labels, "plant-egress-neigh")
		}
	}
	// the local AS itself somewhere on the beacon
	if n >= 2 && rng.Float64() < 0.05 {
		ias[rng.IntN(n-1)] = fx.Local
		bs.Labels = append(bs.Labels, "has-local")
	}

	for {
		bs.Hops = bs.Hops[:0]
		for i, ia := range ias {
			h := hopSpec{IA: ia, Eg: uint16(1 + rng.IntN(60000))}
			if i > 0 {
				h.In = uint16(1 + rng.IntN(60000))
			}
			bs.Hops = append(bs.Hops, h)
		}
		if id := hopIdent(bs.Hops); !g.used[id] {
			g.used[id] = true
			break
		}
	}
	if !direct && rng.Float64() < 0.12 {
		pos := rng.IntN(n)
		m := []string{"flip", "inline", "foreign"}[rng.IntN(3)]
		bs.Hops[pos].Sig = m
		where := "mid"
		if pos == n-1 {
			where = "last"
		} else if pos == 0 {
			where = "first"
		}
		bs.Labels = append(bs.Labels, "sig-"+m+"-"+where)
	}
	bs.SegID = uint16(rng.IntN(1 << 16))
	bs.TsOff = 20 + rng.IntN(3000)
	return bs
}

func (g *genCtx) genResend(prev []beaconSpec) beaconSpec {
	rng := g.rng
	j := rng.IntN(len(prev))
	bs := prev[j]
	bs.Hops = append([]hopSpec(nil), prev[j].Hops...)
	bs.Labels = []string{"resend"}
	bs.ResendOf = j
	if rng.IntN(4) != 0 {
		bs.TsOff -= 2 + rng.IntN(8) // newer
		if bs.TsOff < 1 {
			bs.TsOff = 1
		}
		bs.Labels = append(bs.Labels, "newer")
	} else {
		bs.TsOff += rng.IntN(8) // same or older
		bs.Labels = append(bs.Labels, "not-newer")
	}
	bs.SegID = uint16(rng.IntN(1 << 16))
	switch rng.IntN(4) {
	case 0, 1:
		pos := rng.IntN(len(bs.Hops))
		bs.Hops[pos].Sig = []string{"flip", "inline", "foreign"}[rng.IntN(3)]
		bs.Labels = append(bs.Labels, "sig")
	case 2:
		for i := range bs.Hops {
			bs.Hops[i].Sig = ""
		}
		bs.Labels = append(bs.Labels, "sig-clean")
	}
	return bs
}

func genFixture(rng *rand.Rand, idx int) fixtureSpec {
	pool := c25Pool()
	fx := fixtureSpec{Idx: idx, Core: idx%2 == 0, Pol: map[string]filterSpec{}}
	fx.Local = pool[rng.IntN(len(pool))]
	lenient := rng.Float64() < 0.35
	for _, n := range polNames(fx.Core) {
		fx.Pol[n] = genFilter(rng, lenient)
	}
	fx.AllEgress = rng.IntN(4) == 0
	egressLink := "child"
	if fx.Core {
		egressLink = "core"
	}
	links := []string{"core", "parent", "child", "peer", egressLink, egressLink}
	for k := rng.IntN(5); k > 0; k-- {
		if rng.IntN(10) == 0 {
			links = append(links, "unset")
		} else {
			links = append(links, c25Links[rng.IntN(4)])
		}
	}
	g := &genCtx{rng: rng, pool: pool, fx: &fx, used: map[string]bool{}, ifIDs: map[uint16]bool{}}
	var neighs []addr.IA
	for _, l := range links {
		id := uint16(1 + rng.IntN(2000))
		for g.ifIDs[id] {
			id = uint16(1 + rng.IntN(2000))
		}
		g.ifIDs[id] = true
		var nb addr.IA
		if len(neighs) > 0 && rng.Float64() < 0.25 {
			nb = neighs[rng.IntN(len(neighs))] // parallel link
		} else {
			nb = otherIA(rng, pool, fx.Local)
		}
		neighs = append(neighs, nb)
		is := ifSpec{ID: id, Link: l, Neigh: nb, Remote: uint16(1 + rng.IntN(2000))}
		fx.Ifs = append(fx.Ifs, is)
		if l == "core" || l == "parent" {
			g.good = append(g.good, is)
		} else {
			g.bad = append(g.bad, is)
		}
	}
	egress := egressIfs(&fx)
	nb := 24 + rng.IntN(16)
	for i := 0; i < nb; i++ {
		if i > 3 && rng.Float64() < 0.10 {
			fx.Beacons = append(fx.Beacons, g.genResend(fx.Beacons))
			continue
		}
		fx.Beacons = append(fx.Beacons, g.genBeacon(false, egress))
	}
	fx.DirectAllowISDLoop = rng.IntN(3) == 0
	for i := 8 + rng.IntN(8); i > 0; i-- {
		fx.Direct = append(fx.Direct, g.genBeacon(true, egress))
	}
	return fx
}

func egressIfs(fx *fixtureSpec) []ifSpec {
	var out []ifSpec
	for _, is := range fx.Ifs {
		if fx.AllEgress || (fx.Core && is.Link == "core") || (!fx.Core && is.Link == "child") {
			out = append(out, is)
		}
	}
	return out
}

// ---------------------------------------------------------------------------
// A dummy but functional signature scheme: HMAC-SHA256 under a per-AS key.
// Whether a beacon verifies is decided by the generator (hopSpec.Sig).
// ---------------------------------------------------------------------------

var c25Secret = []byte("verif-c25-signature-secret")

func c25Tag(ia addr.IA, hdrAndBody []byte, assoc [][]byte) []byte {
	var k [8]byte
	binary.BigEndian.PutUint64(k[:], uint64(ia))
	h := hmac.New(sha256.New, append(append([]byte(nil), c25Secret...), k[:]...))
	var l [4]byte
	binary.BigEndian.PutUint32(l[:], uint32(len(hdrAndBody)))
	h.Write(l[:])
	h.Write(hdrAndBody)
	for _, d := range assoc {
		binary.BigEndian.PutUint32(l[:], uint32(len(d)))
		h.Write(l[:])
		h.Write(d)
	}
	return h.Sum(nil)
}

type macSigner struct {
	ia       addr.IA
	validity cppki.Validity
}

func (s macSigner) Sign(_ context.Context, msg []byte, assoc ...[]byte) (*cryptopb.SignedMessage, error) {
	total := 0
	for _, d := range assoc {
		total += len(d)
	}
	var kid [8]byte
	binary.BigEndian.PutUint64(kid[:], uint64(s.ia))
	rawHdr, err := proto.Marshal(&cryptopb.Header{
		SignatureAlgorithm:   cryptopb.SignatureAlgorithm_SIGNATURE_ALGORITHM_ECDSA_WITH_SHA256,
		VerificationKeyId:    kid[:],
		AssociatedDataLength: int32(total),
	})
	if err != nil {
		return nil, err
	}
	hb, err := proto.Marshal(&cryptopb.HeaderAndBody{Header: rawHdr, Body: msg})
	if err != nil {
		return nil, err
	}
	return &cryptopb.SignedMessage{HeaderAndBody: hb, Signature: c25Tag(s.ia, hb, assoc)}, nil
}

func (s macSigner) Validity() cppki.Validity { return s.validity }

type macVerifier struct {
	ia    addr.IA
	bound bool
}

func (v macVerifier) Verify(_ context.Context, sm *cryptopb.SignedMessage,
	assoc ...[]byte) (*signed.Message, error) {
	if !v.bound {
		return nil, errors.New("verifier not bound to an ISD-AS")
	}
	if sm == nil {
		return nil, errors.New("nil signed message")
	}
	if !hmac.Equal(c25Tag(v.ia, sm.HeaderAndBody, assoc), sm.Signature) {
		return nil, errors.New("signature does not verify")
	}
	body, err := signed.ExtractUnverifiedBody(sm)
	if err != nil {
		return nil, err
	}
	return &signed.Message{Body: body}, nil
}
func (v macVerifier) WithServer(net.Addr) infra.Verifier         { return v }
func (v macVerifier) WithValidity(cppki.Validity) infra.Verifier { return v }
func (v macVerifier) WithIA(ia addr.IA) infra.Verifier           { return macVerifier{ia: ia, bound: true} }

// ---------------------------------------------------------------------------
// Fixture runtime: the real handler, store, sqlite DB, interfaces, propagator
// ---------------------------------------------------------------------------

type modelRow struct {
	usage string // canonical usage-set key
	ident string // hop identity (ISD-AS, ingress, egress per entry)
}

type fixture struct {
	spec   *fixtureSpec
	base   time.Time
	ifByID map[uint16]ifSpec
	intfs  *ifstate.Interfaces
	db     *sqlite.Backend
	store  interface {
		beaconing.BeaconInserter
		beaconing.BeaconProvider
	}
	handler beaconing.Handler
	refPol  ref.Policies
	model   map[string]modelRow
	sample  bool
}

var c25DBCounter struct {
	sync.Mutex
	n int
}

func newFixture(spec *fixtureSpec) (*fixture, error) {
	fx := &fixture{spec: spec, base: time.Now().Truncate(time.Second), ifByID: map[uint16]ifSpec{},
		model: map[string]modelRow{}}
	infos := map[uint16]ifstate.InterfaceInfo{}
	for _, is := range spec.Ifs {
		fx.ifByID[is.ID] = is
		lt, _ := linkOf(is.Link)
		infos[is.ID] = ifstate.InterfaceInfo{
			ID: is.ID, IA: is.Neigh, LinkType: lt, RemoteID: is.Remote, MTU: 1400,
			InternalAddr: netip.MustParseAddrPort("10.0.0.1:30042"),
		}
	}
	fx.intfs = ifstate.NewInterfaces(infos, ifstate.Config{})
	c25DBCounter.Lock()
	c25DBCounter.n++
	name := fmt.Sprintf("verif_c25_%d_%d", os.Getpid(), c25DBCounter.n)
	c25DBCounter.Unlock()
	bdb, err := sqlite.New(name, spec.Local, &db.SqliteConfig{InMemory: true, MaxOpenReadConns: 1, MaxIdleReadConns: 1})
	if err != nil {
		return nil, err
	}
	fx.db = bdb
	fx.refPol = ref.Policies{Core: spec.Core}
	if spec.Core {
		fx.refPol.Prop, fx.refPol.CoreReg = spec.Pol[ref.Prop].ref(), spec.Pol[ref.CoreReg].ref()
		st, err := beacon.NewCoreBeaconStore(beacon.CorePolicies{
			Prop: spec.Pol[ref.Prop].policy(), CoreReg: spec.Pol[ref.CoreReg].policy(),
		}, bdb)
		if err != nil {
			bdb.Close()
			return nil, err
		}
		fx.store = st
	} else {
		fx.refPol.Prop, fx.refPol.UpReg, fx.refPol.DownReg =
			spec.Pol[ref.Prop].ref(), spec.Pol[ref.UpReg].ref(), spec.Pol[ref.DownReg].ref()
		st, err := beacon.NewBeaconStore(beacon.Policies{
			Prop: spec.Pol[ref.Prop].policy(), UpReg: spec.Pol[ref.UpReg].policy(),
			DownReg: spec.Pol[ref.DownReg].policy(),
		}, bdb)
		if err != nil {
			bdb.Close()
			return nil, err
		}
		fx.store = st
	}
	fx.handler = beaconing.Handler{
		LocalIA:    spec.Local,
		Inserter:   fx.store,
		Verifier:   macVerifier{},
		Interfaces: fx.intfs,
	}
	return fx, nil
}

func (fx *fixture) close() { _ = fx.db.Close() }

func (fx *fixture) signerFor(ia addr.IA) macSigner {
	return macSigner{ia: ia, validity: cppki.Validity{
		NotBefore: fx.base.Add(-48 * time.Hour), NotAfter: fx.base.Add(48 * time.Hour)}}
}

// build constructs the beacon and passes it through the wire encoding, as the
// gRPC server does before calling the handler.
func (fx *fixture) build(bs beaconSpec) (*seg.PathSegment, error) {
	ctx := context.Background()
	ps, err := seg.CreateSegment(fx.base.Add(-time.Duration(bs.TsOff)*time.Second), bs.SegID)
	if err != nil {
		return nil, err
	}
	for i, h := range bs.Hops {
		next := bs.LastNext
		if i+1 < len(bs.Hops) {
			next = bs.Hops[i+1].IA
		}
		var mac [6]byte
		binary.BigEndian.PutUint16(mac[0:], h.In^0x5a5a)
		binary.BigEndian.PutUint16(mac[2:], h.Eg^0xa5a5)
		binary.BigEndian.PutUint16(mac[4:], bs.SegID+uint16(i))
		e := seg.ASEntry{
			Local: h.IA, Next: next, MTU: 1400,
			HopEntry: seg.HopEntry{
				IngressMTU: 1400,
				HopField:   seg.HopField{ExpTime: 63, ConsIngress: h.In, ConsEgress: h.Eg, MAC: mac},
			},
		}
		if i == 0 {
			e.HopEntry.IngressMTU = 0
		}
		signAs := h.IA
		if h.Sig == "foreign" {
			signAs = addr.MustIAFrom(h.IA.ISD(), h.IA.AS()^1)
		}
		if err := ps.AddASEntry(ctx, e, fx.signerFor(signAs)); err != nil {
			return nil, err
		}
		if h.Sig == "inline" {
			ps.ASEntries[i].Signed.Signature[3] ^= 0x10
		}
	}
	for i, h := range bs.Hops {
		if h.Sig == "flip" {
			s := ps.ASEntries[i].Signed.Signature
			s[len(s)-1] ^= 0x01
		}
	}
	raw, err := proto.Marshal(seg.PathSegmentToPB(ps))
	if err != nil {
		return nil, err
	}
	var pb cppb.PathSegment
	if err := proto.Unmarshal(raw, &pb); err != nil {
		return nil, err
	}
	return seg.BeaconFromPB(&pb)
}

func specSigOK(bs beaconSpec) bool {
	for _, h := range bs.Hops {
		if h.Sig != "" {
			return false
		}
	}
	return true
}

func refHops(entries []seg.ASEntry) []ref.IA {
	out := make([]ref.IA, len(entries))
	for i, e := range entries {
		out[i] = ref.IA(e.Local)
	}
	return out
}

func entriesKey(info seg.Info, entries []seg.ASEntry) string {
	var sb strings.Builder
	fmt.Fprintf(&sb, "t=%d,id=%d", info.Timestamp.Unix(), info.SegmentID)
	for _, e := range entries {
		sig := e.Signed.GetSignature()
		if len(sig) > 8 {
			sig = sig[:8]
		}
		fmt.Fprintf(&sb, "|%d>%d:%d-%d:%x", uint64(e.Local), uint64(e.Next),
			e.HopEntry.HopField.ConsIngress, e.HopEntry.HopField.ConsEgress, sig)
	}
	return sb.String()
}

func rowKey(inIf uint16, ps *seg.PathSegment) string {
	return fmt.Sprintf("if=%d|%s", inIf, entriesKey(ps.Info, ps.ASEntries))
}

func entriesIdent(entries []seg.ASEntry) string {
	var sb strings.Builder
	for _, e := range entries {
		fmt.Fprintf(&sb, "%d:%d:%d|", uint64(e.Local), e.HopEntry.HopField.ConsIngress, e.HopEntry.HopField.ConsEgress)
	}
	return sb.String()
}

// usageNames decodes the usage bit set of a stored row.
func usageNames(u beacon.Usage) (names []string, foreign beacon.Usage) {
	if u&beacon.UsageProp != 0 {
		names = append(names, ref.Prop)
	}
	if u&beacon.UsageUpReg != 0 {
		names = append(names, ref.UpReg)
	}
	if u&beacon.UsageDownReg != 0 {
		names = append(names, ref.DownReg)
	}
	if u&beacon.UsageCoreReg != 0 {
		names = append(names, ref.CoreReg)
	}
	return names, u &^ (beacon.UsageProp | beacon.UsageUpReg | beacon.UsageDownReg | beacon.UsageCoreReg)
}

func coreTag(core bool) string {
	if core {
		return "core"
	}
	return "noncore"
}

func (fx *fixture) witness(phase string, step int, detail map[string]any) c25Witness {
	sp := *fx.spec
	if phase == "handle" && step+1 < len(sp.Beacons) {
		sp.Beacons = sp.Beacons[:step+1]
		sp.Direct = nil
	}
	return c25Witness{Phase: phase, Step: step, Detail: detail, Fixture: sp}
}

func polShape(sp *fixtureSpec) string {
	var l, a, i, x bool
	for _, f := range sp.Pol {
		l = l || f.MaxLen != 0
		a = a || len(f.ASBlock) > 0
		i = i || len(f.ISDBlock) > 0
		x = x || (f.AllowISDLoop != nil && !*f.AllowISDLoop)
	}
	s := ""
	for _, p := range []struct {
		on bool
		c  string
	}{{l, "L"}, {a, "A"}, {i, "I"}, {x, "X"}} {
		if p.on {
			s += p.c
		}
	}
	if s == "" {
		s = "-"
	}
	return s
}

var errAbort = errors.New("abort fixture")

// handle injects beacon number i and judges the resulting DB content.
func (fx *fixture) handle(r *mon.Run, i int) error {
	ctx := monlog.Alternate() // log level is a configuration dimension
	bs := fx.spec.Beacons[i]
	ps, err := fx.build(bs)
	if err != nil {
		// Not expressible on the wire: cannot reach the handler.
		r.Class("unparseable")
		r.Event("unparseable")
		return nil
	}
	// Harness self-check: the dummy verifier agrees with the generator's decision.
	sigOK := true
	for k := range ps.ASEntries {
		if ps.VerifyASEntry(ctx, macVerifier{}.WithIA(ps.ASEntries[k].Local), k) != nil {
			sigOK = false
		}
	}
	if sigOK != specSigOK(bs) {
		panic(fmt.Sprintf("harness bug: verifier says %v, generator says %v for %+v", sigOK, specSigOK(bs), bs))
	}

	is, known := fx.ifByID[bs.InIf]
	_, rl := linkOf(is.Link)
	hops := refHops(ps.ASEntries)
	arr := ref.Arrival{
		IfKnown: known, Link: rl, Neighbour: ref.IA(is.Neigh), Local: ref.IA(fx.spec.Local),
		Hops: hops, LastNext: ref.IA(ps.ASEntries[len(ps.ASEntries)-1].Next), SigOK: sigOK,
	}
	want := ref.Judge(arr, fx.refPol)
	wantUsage := ref.UsageKey(want.Usages)
	key := rowKey(bs.InIf, ps)
	ident := entriesIdent(ps.ASEntries)

	var herr error
	pv, stack := mon.Try(func() {
		herr = fx.handler.HandleBeacon(ctx, beacon.Beacon{Segment: ps, InIfID: bs.InIf},
			&snet.UDPAddr{IA: is.Neigh, Path: snetpath.SCION{}})
	})
	r.Eval(1)
	r.Event("handled")
	if pv != nil {
		r.Violation("C25:panic:"+mon.PanicSite(stack), fmt.Sprintf("HandleBeacon panicked: %v\n%s", pv, stack),
			fx.witness("handle", i, nil))
		return errAbort
	}
	rows, err := fx.db.GetBeacons(ctx, nil)
	if err != nil {
		r.Inconclusive("db-read-error")
		fmt.Fprintf(os.Stderr, "C25: GetBeacons failed: %v\n", err)
		return errAbort
	}
	r.Event("db_read")
	got := map[string]modelRow{}
	gotUsage := map[string]beacon.Usage{}
	gotHops := map[string][]ref.IA{}
	for _, row := range rows {
		k := rowKey(row.Beacon.InIfID, row.Beacon.Segment)
		names, foreign := usageNames(row.Usage)
		if _, dup := got[k]; dup {
			r.Violation("C25:db-duplicate-row", "the same beacon is stored twice", fx.witness("handle", i, map[string]any{"row": k}))
		}
		u := ref.UsageKey(names)
		if foreign != 0 {
			u += fmt.Sprintf("+0x%x", int(foreign))
		}
		got[k] = modelRow{usage: u, ident: entriesIdent(row.Beacon.Segment.ASEntries)}
		gotUsage[k] = row.Usage
		gotHops[k] = refHops(row.Beacon.Segment.ASEntries)
	}

	// Expected DB content: previous content, plus the new beacon iff the
	// reference accepts it. If a beacon with the same hops is already stored,
	// which of the two versions is kept is the storage layer's business
	// (C27): both are accepted here.
	prior := ""
	for k, m := range fx.model {
		if m.ident == ident {
			prior = k
		}
	}
	exp := map[string]modelRow{}
	for k, m := range fx.model {
		exp[k] = m
	}
	var alt map[string]modelRow
	if want.Stored {
		if prior == "" || prior == key {
			exp[key] = modelRow{usage: wantUsage, ident: ident}
		} else {
			alt = map[string]modelRow{}
			for k, m := range fx.model {
				if k != prior {
					alt[k] = m
				}
			}
			alt[key] = modelRow{usage: wantUsage, ident: ident}
		}
	}
	same := func(a, b map[string]modelRow) bool {
		if len(a) != len(b) {
			return false
		}
		for k, m := range a {
			if b[k] != m {
				return false
			}
		}
		return true
	}
	ok := same(got, exp) || (alt != nil && same(got, alt))
	gotRow, stored := got[key]

	// classes
	ingress := "unknown"
	if known {
		ingress = is.Link
	}
	outcome := "rejected:" + want.Reason
	if want.Stored {
		outcome = "stored:" + wantUsage
	}
	labels := "clean"
	if len(bs.Labels) > 0 {
		labels = strings.Join(bs.Labels, ",")
	}
	errTag := "ret=nil"
	if herr != nil {
		errTag = "ret=err"
	}
	r.Class(fmt.Sprintf("h/%s/in=%s/%s/pol=%s/%s/%s", coreTag(fx.spec.Core), ingress, labels,
		polShape(fx.spec), outcome, errTag))
	r.Class("ingress/" + ingress + "/" + strings.SplitN(outcome, ":", 2)[0])
	if want.Stored {
		r.Class("stored/" + coreTag(fx.spec.Core) + "/" + wantUsage)
		r.Event("expected_stored")
	} else {
		for _, t := range strings.Split(want.Reason, "+") {
			r.Class("rejected/" + strings.SplitN(t, "=", 2)[0])
		}
		r.Event("expected_rejected")
	}
	for _, n := range fx.refPol.Names() {
		_, why := fx.refPol.Filter(n).Check(hops)
		if why == "" {
			why = "accept"
		}
		r.Class("filterset/" + n + "/" + why)
		for _, t := range strings.Split(why, "+") {
			r.Class("filter/" + n + "/" + t)
		}
	}
	if bs.ResendOf >= 0 {
		r.Event("resend")
	}
	if stored {
		r.Event("observed_stored")
	}
	if fx.sample && (i == 0 || (want.Stored && i < 12)) && r.WantSample() {
		r.Sample(map[string]any{"local": fx.spec.Local, "core": fx.spec.Core, "ingress": is,
			"beacon": bs, "policies": fx.spec.Pol, "expected": outcome, "db_rows_after": len(rows)})
	}

	if !ok {
		detail := map[string]any{"expected": outcome, "handler_error": fmt.Sprint(herr), "row": key,
			"db_rows": len(got), "model_rows": len(fx.model)}
		switch {
		case stored && !want.Stored:
			r.Violation("C25:stored:"+want.Reason,
				fmt.Sprintf("beacon stored (usage %s) although it must be rejected: %s", gotRow.usage, want.Reason),
				fx.witness("handle", i, detail))
		case stored && want.Stored && gotRow.usage != wantUsage:
			r.Violation(fmt.Sprintf("C25:usage:%s:got=%s:want=%s", coreTag(fx.spec.Core), gotRow.usage, wantUsage),
				fmt.Sprintf("beacon stored with usage %s, accepting policies are %s", gotRow.usage, wantUsage),
				fx.witness("handle", i, detail))
		case !stored && want.Stored && (prior == "" || !same(got, fx.model)):
			r.Violation(fmt.Sprintf("C25:not-stored:%s:want=%s", coreTag(fx.spec.Core), wantUsage),
				fmt.Sprintf("beacon meets every acceptance condition (usages %s) but is not in the DB; handler returned %v", wantUsage, herr),
				fx.witness("handle", i, detail))
		default:
			var diff []string
			for k, m := range got {
				if fx.model[k] != m && k != key {
					diff = append(diff, "changed/added: "+k+" "+m.usage)
				}
			}
			for k := range fx.model {
				if _, still := got[k]; !still && k != prior {
					diff = append(diff, "vanished: "+k)
				}
			}
			sort.Strings(diff)
			detail["diff"] = diff
			r.Violation("C25:db-changed", "handling a beacon changed other rows of the beacon DB",
				fx.witness("handle", i, detail))
		}
	}

	// Third clause, judged directly on what the DB returns: no stored beacon
	// exceeds the maximum length or contains a blocked AS / ISD of a policy
	// whose usage it carries. Only rows that are new or changed are checked.
	for k, m := range got {
		if fx.model[k] == m {
			continue
		}
		names, foreign := usageNames(gotUsage[k])
		if foreign != 0 || len(names) == 0 {
			r.Violation("C25:stored-usage-bits", fmt.Sprintf("row stored with usage bits %#x", int(gotUsage[k])),
				fx.witness("handle", i, map[string]any{"row": k}))
		}
		for _, n := range names {
			applicable := false
			for _, pn := range fx.refPol.Names() {
				applicable = applicable || pn == n
			}
			if !applicable {
				r.Violation("C25:stored-usage-foreign:"+coreTag(fx.spec.Core)+":"+n,
					"row carries a usage whose policy does not exist in this kind of store",
					fx.witness("handle", i, map[string]any{"row": k}))
				continue
			}
			f := fx.refPol.Filter(n)
			h := gotHops[k]
			for _, c := range []struct {
				bad  bool
				what string
			}{{f.TooLong(h), "maxlen"}, {f.BlockedAS(h), "as"}, {f.BlockedISD(h), "isd"}} {
				if c.bad {
					r.Violation("C25:stored-violates-filter:"+n+":"+c.what,
						fmt.Sprintf("stored beacon with usage %s violates that policy's %s filter", n, c.what),
						fx.witness("handle", i, map[string]any{"row": k, "usage": m.usage}))
				}
			}
		}
	}
	fx.model = got // resynchronise so that one mistake is reported once
	return nil
}

// candidatesCheck compares what the store's own query API serves per usage
// with the expected usage sets.
func (fx *fixture) candidatesCheck(r *mon.Run) {
	ctx := context.Background()
	bits := map[string]beacon.Usage{ref.Prop: beacon.UsageProp, ref.UpReg: beacon.UsageUpReg,
		ref.DownReg: beacon.UsageDownReg, ref.CoreReg: beacon.UsageCoreReg}
	for _, n := range []string{ref.Prop, ref.UpReg, ref.DownReg, ref.CoreReg} {
		bs, err := fx.db.CandidateBeacons(ctx, 100000, bits[n], 0)
		if err != nil {
			r.Inconclusive("db-read-error")
			return
		}
		got := map[string]bool{}
		for _, b := range bs {
			got[rowKey(b.InIfID, b.Segment)] = true
		}
		exp := map[string]bool{}
		for k, m := range fx.model {
			for _, u := range strings.Split(m.usage, "+") {
				if u == n {
					exp[k] = true
				}
			}
		}
		r.Eval(1)
		r.Event("candidates_check")
		bad := len(got) != len(exp)
		for k := range got {
			bad = bad || !exp[k]
		}
		if bad {
			r.Violation("C25:candidates:"+n,
				fmt.Sprintf("CandidateBeacons(%s) serves %d beacons, %d are stored with that usage", n, len(got), len(exp)),
				fx.witness("candidates", len(fx.spec.Beacons)-1, nil))
		}
	}
}

// ---- propagation ----

type sentRec struct {
	egress uint16
	dst    addr.IA
	seg    *seg.PathSegment
}

type recorder struct {
	mu   sync.Mutex
	sent []sentRec
}

type recSender struct {
	rc     *recorder
	dst    addr.IA
	egress uint16
}

func (rc *recorder) NewSender(_ context.Context, dst addr.IA, egress uint16, _ *net.UDPAddr) (beaconing.Sender, error) {
	return &recSender{rc: rc, dst: dst, egress: egress}, nil
}

func (s *recSender) Send(_ context.Context, b *seg.PathSegment) error {
	s.rc.mu.Lock()
	defer s.rc.mu.Unlock()
	s.rc.sent = append(s.rc.sent, sentRec{egress: s.egress, dst: s.dst, seg: b})
	return nil
}
func (s *recSender) Close() error { return nil }

type scriptedProvider []beacon.Beacon

func (p scriptedProvider) BeaconsToPropagate(context.Context) ([]beacon.Beacon, error) {
	return []beacon.Beacon(p), nil
}

func lenBucket(n int) string {
	switch {
	case n <= 2:
		return "1-2"
	case n <= 5:
		return "3-5"
	case n <= 9:
		return "6-9"
	}
	return "10+"
}

func (fx *fixture) propagate(r *mon.Run, mode string, provider beaconing.BeaconProvider, allow bool) error {
	ctx := monlog.Alternate() // log level is a configuration dimension
	macf, err := scrypto.HFMacFactory([]byte("0123456789abcdef"))
	if err != nil {
		panic(err)
	}
	local := fx.spec.Local
	signer := fx.signerFor(local)
	egress := egressIfs(fx.spec)
	isEgress := map[uint16]bool{}
	for _, is := range egress {
		isEgress[is.ID] = true
	}
	rec := &recorder{}
	p := &beaconing.Propagator{
		Extender: &beaconing.DefaultExtender{
			IA:  local,
			MTU: 1400,
			SignerGen: beaconing.SignerGenFunc(func(context.Context) ([]beaconing.Signer, error) {
				return []beaconing.Signer{signer}, nil
			}),
			MAC:                  func() hash.Hash { return macf() },
			Intfs:                fx.intfs,
			MaxExpTime:           func() uint8 { return beacon.DefaultMaxExpTime },
			StaticInfo:           func() *beaconing.StaticInfoCfg { return nil },
			DiscoveryInformation: func() *discovery.Extension { return nil },
		},
		SenderFactory: rec,
		Provider:      provider,
		IA:            local,
		Signer:        signer,
		AllInterfaces: fx.intfs,
		PropagationInterfaces: func() []*ifstate.Interface {
			return fx.intfs.Filtered(func(intf *ifstate.Interface) bool { return isEgress[intf.TopoInfo().ID] })
		},
		AllowIsdLoop: allow,
		Tick:         beaconing.NewTick(time.Hour),
	}
	provided, err := provider.BeaconsToPropagate(ctx)
	if err != nil {
		r.Inconclusive("provider-error")
		return errAbort
	}
	pv, stack := mon.Try(func() { p.Run(ctx) })
	if pv != nil {
		r.Violation("C25:panic:"+mon.PanicSite(stack), fmt.Sprintf("Propagator.Run panicked: %v\n%s", pv, stack),
			fx.witness("propagate-"+mode, 0, nil))
		return errAbort
	}
	r.Event("propagator_run")
	sort.Slice(rec.sent, func(i, j int) bool {
		if rec.sent[i].egress != rec.sent[j].egress {
			return rec.sent[i].egress < rec.sent[j].egress
		}
		return entriesKey(rec.sent[i].seg.Info, rec.sent[i].seg.ASEntries) <
			entriesKey(rec.sent[j].seg.Info, rec.sent[j].seg.ASEntries)
	})
	tag := fmt.Sprintf("p/%s/%s/allowisdloop=%v", mode, coreTag(fx.spec.Core), allow)
	sentSet := map[string]bool{}
	for _, s := range rec.sent {
		is, ok := fx.ifByID[s.egress]
		if !ok {
			r.Inconclusive("sent-on-unknown-egress")
			continue
		}
		nb := ref.IA(is.Neigh)
		hops := refHops(s.seg.ASEntries)
		n := len(hops)
		r.Eval(1)
		r.Event("prop_sent")
		if n >= 1 {
			sentSet[fmt.Sprintf("%d|%s", s.egress, entriesKey(s.seg.Info, s.seg.ASEntries[:n-1]))] = true
		}
		detail := map[string]any{"egress": is, "sent_hops": fmtHops(hops), "allow_isd_loop": allow}
		if ref.PropASLoop(hops, nb) {
			r.Violation("C25:prop-as-loop",
				fmt.Sprintf("beacon %v propagated on interface %d towards %v, which is already on the beacon",
					fmtHops(hops), s.egress, is.Neigh), fx.witness("propagate-"+mode, 0, detail))
		}
		if !allow && ref.PropISDLoop(hops, nb) {
			k := "C25:prop-isd-loop"
			if n >= 1 && !ref.PropISDLoop(hops[:n-1], nb) {
				// the loop exists only because of the ISD of the propagating AS itself
				k = "C25:prop-isd-loop:through-local-isd"
			}
			r.Violation(k, fmt.Sprintf("ISD loops disallowed, but beacon %v was propagated on interface %d towards %v: ISD sequence %v",
				fmtHops(hops), s.egress, is.Neigh, ref.ISDSequence(append(append([]ref.IA(nil), hops...), nb))),
				fx.witness("propagate-"+mode, 0, detail))
		}
		if n >= 2 && ref.PropASLoop(hops[:n-1], ref.IA(local)) {
			r.Event("obs_sent_beacon_contains_local_as_twice") // not judged, see report
		}
		if is.Neigh != s.dst {
			r.Event("obs_sender_dst_differs_from_neighbour")
		}
		r.Class(tag + "/egress=" + is.Link + "/len=" + lenBucket(n) + "/sent")
		if fx.sample && r.WantSample() && len(sentSet) == 1 {
			r.Sample(map[string]any{"mode": mode, "local": local, "egress": is, "allow_isd_loop": allow,
				"sent_hops": fmtHops(hops)})
		}
	}
	for _, b := range provided {
		if _, ok := fx.ifByID[b.InIfID]; !ok {
			continue
		}
		hops := refHops(b.Segment.ASEntries)
		for _, is := range egress {
			if sentSet[fmt.Sprintf("%d|%s", is.ID, entriesKey(b.Segment.Info, b.Segment.ASEntries))] {
				continue
			}
			why := "other"
			switch {
			case ref.PropASLoop(hops, ref.IA(is.Neigh)):
				why = "neighbour-on-beacon"
			case ref.HasASLoop(hops):
				why = "asloop-inside"
			case !allow && ref.PropISDLoop(hops, ref.IA(is.Neigh)):
				why = "isdloop"
			case b.Segment.ASEntries[len(hops)-1].Next != local:
				why = "not-extendable"
			}
			r.Event("prop_withheld")
			r.Class(tag + "/withheld:" + why)
		}
	}
	return nil
}

func fmtHops(h []ref.IA) []string {
	out := make([]string, len(h))
	for i, x := range h {
		out[i] = addr.IA(x).String()
	}
	return out
}

func runFixture(r *mon.Run, spec *fixtureSpec, sample bool) {
	fx, err := newFixture(spec)
	if err != nil {
		fmt.Fprintf(os.Stderr, "C25: fixture %d cannot be built: %v\n", spec.Idx, err)
		r.Inconclusive("fixture-setup")
		return
	}
	defer fx.close()
	fx.sample = sample
	r.Event("fixture")
	for i := range spec.Beacons {
		if fx.handle(r, i) != nil {
			return
		}
	}
	fx.reloadPhase(r, r.Rand(fmt.Sprint("reload", spec.Idx)))
	fx.candidatesCheck(r)
	// pipeline mode: the store feeds the propagator, wired as in the control service
	allow := fx.refPol.Prop.EffAllowISDLoop()
	if fx.propagate(r, "pipeline", fx.store, allow) != nil {
		return
	}
	// direct mode: scripted provider
	var direct scriptedProvider
	for _, bs := range spec.Direct {
		ps, err := fx.build(bs)
		if err != nil {
			continue
		}
		direct = append(direct, beacon.Beacon{Segment: ps, InIfID: bs.InIf})
	}
	if len(direct) > 0 {
		_ = fx.propagate(r, "direct", direct, spec.DirectAllowISDLoop)
	}
}

func checkC25(r *mon.Run) {
	r.Rule = "fixture = local AS (core / non-core) × interfaces of every link type × random policy filters per usage " +
		"(max length, AS / ISD block lists, ISD-loop switch); 24-40 beacons per fixture arrive at the real Handler+Store+sqlite DB " +
		"(ingress link type × wrong upstream / next ISD-AS × bad signature at any entry × AS loop × ISD loop × over-long × " +
		"blocked AS/ISD at any position × re-sent hops); after every HandleBeacon the full DB content with usages is compared " +
		"with the reference decision; then the real Propagator+DefaultExtender run once with the store and once with a scripted " +
		"provider and every beacon handed to a sender is judged; class = core × ingress link × defect labels × policy shape × " +
		"outcome (stored with usage set / rejected with reason set), per-usage filter verdicts, propagation mode × switch × sent/withheld reason"
	r.Assumptions = []string{
		"signature checking itself is C24's business: a functional dummy scheme (HMAC per AS) is used and the generator decides which entries fail",
		"arriving beacons passed seg.BeaconFromPB (as in the gRPC server); beacons that cannot be encoded are not injected",
		"policy fields left unset mean MaxHopsLength=10 and AllowIsdLoop=true (documented defaults)",
		"a policy accepts a received beacon iff length <= max, no AS appears twice, no ISD is re-entered when ISD loops are disallowed, no blocked AS number or ISD appears (filters apply to the received beacon, before extension)",
		"when a beacon with the same hops and interfaces is already stored, either version may be kept (C27); all other rows must stay untouched",
		"BestSetSize=1 is never configured (C26)",
		"a propagated beacon that contains the propagating AS itself twice is recorded (obs_*) but not judged: the statement ties the AS loop to the egress interface",
	}
	if p := r.ReplayFile(); p != "" {
		b, err := os.ReadFile(p)
		if err != nil {
			fmt.Fprintln(os.Stderr, err)
			os.Exit(2)
		}
		var f struct {
			Witness c25Witness `json:"witness"`
		}
		if err := json.Unmarshal(b, &f); err != nil {
			fmt.Fprintln(os.Stderr, err)
			os.Exit(2)
		}
		runFixture(r, &f.Witness.Fixture, true)
		return
	}

	nFix := r.Pick(800, 16000)
	workers := 12
	var wg sync.WaitGroup
	ch := make(chan int)
	for w := 0; w < workers; w++ {
		wg.Add(1)
		go func() {
			defer wg.Done()
			for idx := range ch {
				spec := genFixture(r.Rand(fmt.Sprint("fx", idx)), idx)
				runFixture(r, &spec, idx == 0)
			}
		}()
	}
	for idx := 0; idx < nFix; idx++ {
		ch <- idx
	}
	close(ch)
	wg.Wait()

	r.Require(int64(nFix)*20, 200, "handled", "db_read", "expected_stored", "expected_rejected", "observed_stored",
		"resend", "reload_handled", "candidates_check", "propagator_run", "prop_sent", "prop_withheld")
	need := []string{
		"stored/core/Prop", "stored/core/CoreReg", "stored/core/Prop+CoreReg",
		"stored/noncore/Prop", "stored/noncore/UpReg", "stored/noncore/DownReg",
		"stored/noncore/Prop+UpReg", "stored/noncore/Prop+DownReg", "stored/noncore/UpReg+DownReg",
		"stored/noncore/Prop+UpReg+DownReg",
		"rejected/unknown-if", "rejected/link", "rejected/upstream", "rejected/next", "rejected/sig", "rejected/policy",
		"ingress/core/stored", "ingress/parent/stored", "ingress/core/rejected", "ingress/parent/rejected",
		"ingress/child/rejected", "ingress/peer/rejected", "ingress/unset/rejected", "ingress/unknown/rejected",
	}
	for _, n := range []string{ref.Prop, ref.UpReg, ref.DownReg, ref.CoreReg} {
		for _, w := range []string{"accept", "maxlen", "asloop", "isdloop", "as", "isd"} {
			need = append(need, "filter/"+n+"/"+w)
		}
	}
	for _, m := range []string{"pipeline", "direct"} {
		for _, c := range []string{"core", "noncore"} {
			for _, a := range []string{"true", "false"} {
				need = append(need, fmt.Sprintf("p/%s/%s/allowisdloop=%s/withheld:neighbour-on-beacon", m, c, a))
			}
			need = append(need, fmt.Sprintf("p/%s/%s/allowisdloop=false/withheld:isdloop", m, c))
		}
	}
	r.RequireClasses(need...)
}
