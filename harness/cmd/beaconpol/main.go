// Command beaconpol serves property C25 (only valid, policy-conforming beacons
// are stored and propagated).
package main

import "verif/mon"

func main() {
	mon.Main(map[string]func(*mon.Run){
		"C25": checkC25,
	})
}
