package main

import (
	"context"
	"fmt"
	"math/rand/v2"
	"net"
	"net/netip"
	"os"

	"github.com/scionproto/scion/control/beacon"
	"github.com/scionproto/scion/control/beaconing"
	"github.com/scionproto/scion/control/ifstate"
	"github.com/scionproto/scion/pkg/addr"
	"github.com/scionproto/scion/pkg/scrypto/cppki"
	cryptopb "github.com/scionproto/scion/pkg/proto/crypto"
	"github.com/scionproto/scion/pkg/scrypto/signed"
	"github.com/scionproto/scion/pkg/snet"
	snetpath "github.com/scionproto/scion/pkg/snet/path"
	infra "github.com/scionproto/scion/private/segment/verifier"

	"verif/mon"
	ref "verif/beaconpolref"
)

// Topology reloads (ifstate.Interfaces.Update, what the control service does
// on SIGHUP) scheduled at the seams of HandleBeacon: while the store's
// PreFilter runs, while a signature is verified, or while the beacon is
// inserted. The handler may judge the beacon against the interface as it was
// before or after the reload; it must never store a beacon that neither state
// of the interface admits.

type reloadInserter struct {
	inner beaconing.BeaconInserter
	at    string
	do    func()
}

func (ri *reloadInserter) PreFilter(b beacon.Beacon) error {
	if ri.at == "prefilter" {
		ri.do()
	}
	return ri.inner.PreFilter(b)
}

func (ri *reloadInserter) InsertBeacon(ctx context.Context, b beacon.Beacon) (beacon.InsertStats, error) {
	if ri.at == "insert" {
		ri.do()
	}
	return ri.inner.InsertBeacon(ctx, b)
}

type reloadVerifier struct {
	inner infra.Verifier
	do    func()
}

func (v reloadVerifier) Verify(ctx context.Context, sm *cryptopb.SignedMessage,
	assoc ...[]byte) (*signed.Message, error) {
	v.do()
	return v.inner.Verify(ctx, sm, assoc...)
}
func (v reloadVerifier) WithServer(a net.Addr) infra.Verifier {
	return reloadVerifier{inner: v.inner.WithServer(a), do: v.do}
}
func (v reloadVerifier) WithIA(ia addr.IA) infra.Verifier {
	return reloadVerifier{inner: v.inner.WithIA(ia), do: v.do}
}
func (v reloadVerifier) WithValidity(val cppki.Validity) infra.Verifier {
	return reloadVerifier{inner: v.inner.WithValidity(val), do: v.do}
}

func (fx *fixture) infos(override *ifSpec) map[uint16]ifstate.InterfaceInfo {
	infos := map[uint16]ifstate.InterfaceInfo{}
	for _, is := range fx.spec.Ifs {
		if override != nil && is.ID == override.ID {
			is = *override
		}
		lt, _ := linkOf(is.Link)
		infos[is.ID] = ifstate.InterfaceInfo{
			ID: is.ID, IA: is.Neigh, LinkType: lt, RemoteID: is.Remote, MTU: 1400,
			InternalAddr: netip.MustParseAddrPort("10.0.0.1:30042"),
		}
	}
	return infos
}

func (fx *fixture) reloadPhase(r *mon.Run, rng *rand.Rand) {
	ctx := context.Background()
	pool := c25Pool()
	n := 3
	for c := 0; c < n; c++ {
		a := fx.spec.Ifs[rng.IntN(len(fx.spec.Ifs))]
		b := a
		b.Link = c25Links[rng.IntN(4)]
		if rng.IntN(3) != 0 {
			b.Neigh = otherIA(rng, pool, fx.spec.Local, a.Neigh)
		}
		if b.Link == a.Link && b.Neigh == a.Neigh {
			b.Link = []string{"core", "parent", "child", "peer"}[(rng.IntN(3)+1+indexOf(a.Link))%4]
		}
		// a short clean beacon whose last entry is one of the two neighbours
		last := a.Neigh
		if rng.IntN(2) == 0 {
			last = b.Neigh
		}
		nh := 1 + rng.IntN(3)
		var hops []hopSpec
		used := map[addr.IA]bool{fx.spec.Local: true, last: true}
		for i := 0; i < nh-1; i++ {
			ia, ok := pickUnused(rng, pool, used, 0)
			if !ok {
				break
			}
			used[ia] = true
			hops = append(hops, hopSpec{IA: ia, In: uint16(1 + rng.IntN(60000)), Eg: uint16(1 + rng.IntN(60000))})
		}
		if len(hops) > 0 {
			hops[0].In = 0
		}
		lh := hopSpec{IA: last, In: uint16(1 + rng.IntN(60000)), Eg: uint16(1 + rng.IntN(60000))}
		if len(hops) == 0 {
			lh.In = 0
		}
		hops = append(hops, lh)
		bs := beaconSpec{InIf: a.ID, Hops: hops, LastNext: fx.spec.Local, TsOff: 1 + rng.IntN(600),
			SegID: uint16(rng.IntN(1 << 16)), ResendOf: -1, Labels: []string{"reload"}}
		ps, err := fx.build(bs)
		if err != nil {
			r.Event("reload_unbuildable")
			continue
		}
		ident := entriesIdent(ps.ASEntries)
		clash := false
		for _, m := range fx.model {
			clash = clash || m.ident == ident
		}
		if clash {
			continue
		}
		// initial state and the state after the reload
		first, second := a, b
		dir := "A>B"
		if rng.IntN(2) == 0 {
			first, second = b, a
			dir = "B>A"
		}
		at := []string{"prefilter", "verify", "insert"}[rng.IntN(3)]
		fx.intfs.Update(fx.infos(&first))
		done := false
		do := func() {
			if !done {
				done = true
				fx.intfs.Update(fx.infos(&second))
			}
		}
		h := fx.handler
		h.Inserter = &reloadInserter{inner: fx.store, at: at, do: do}
		if at == "verify" {
			h.Verifier = reloadVerifier{inner: macVerifier{}, do: do}
		}
		var herr error
		pv, stack := mon.Try(func() {
			herr = h.HandleBeacon(ctx, beacon.Beacon{Segment: ps, InIfID: bs.InIf},
				&snet.UDPAddr{IA: first.Neigh, Path: snetpath.SCION{}})
		})
		fx.intfs.Update(fx.infos(nil))
		r.Eval(1)
		r.Event("reload_handled")
		detail := map[string]any{"beacon": bs, "interface_before": first, "interface_after": second,
			"reload_at": at, "handler_error": fmt.Sprint(herr)}
		if pv != nil {
			r.Violation("C25:panic:"+mon.PanicSite(stack), fmt.Sprintf("HandleBeacon panicked: %v\n%s", pv, stack),
				fx.witness("reload", c, detail))
			return
		}
		judge := func(is ifSpec) ref.Verdict {
			_, rl := linkOf(is.Link)
			return ref.Judge(ref.Arrival{IfKnown: true, Link: rl, Neighbour: ref.IA(is.Neigh), Local: ref.IA(fx.spec.Local),
				Hops: refHops(ps.ASEntries), LastNext: ref.IA(fx.spec.Local), SigOK: true}, fx.refPol)
		}
		w1, w2 := judge(first), judge(second)
		rows, err := fx.db.GetBeacons(ctx, nil)
		if err != nil {
			r.Inconclusive("db-read-error")
			fmt.Fprintf(os.Stderr, "C25: GetBeacons failed: %v\n", err)
			return
		}
		key := rowKey(bs.InIf, ps)
		got := map[string]modelRow{}
		for _, row := range rows {
			names, foreign := usageNames(row.Usage)
			u := ref.UsageKey(names)
			if foreign != 0 {
				u += fmt.Sprintf("+0x%x", int(foreign))
			}
			got[rowKey(row.Beacon.InIfID, row.Beacon.Segment)] = modelRow{usage: u, ident: entriesIdent(row.Beacon.Segment.ASEntries)}
		}
		gotRow, stored := got[key]
		okOutcome := false
		for _, w := range []ref.Verdict{w1, w2} {
			if w.Stored == stored && (!stored || ref.UsageKey(w.Usages) == gotRow.usage) {
				okOutcome = true
			}
		}
		adm := func(v ref.Verdict) string {
			if v.Stored {
				return "admits"
			}
			return "rejects"
		}
		out := "rejected"
		if stored {
			out = "stored"
		}
		r.Class(fmt.Sprintf("reload/%s/at=%s/before-%s/after-%s/%s", dir, at, adm(w1), adm(w2), out))
		r.Class(fmt.Sprintf("reload/%s>%s/nbr-changed=%v", first.Link, second.Link, first.Neigh != second.Neigh))
		detail["verdict_before"], detail["verdict_after"] = w1, w2
		if !okOutcome {
			if stored {
				r.Violation(fmt.Sprintf("C25:reload:stored:before-%s:after-%s", adm(w1), adm(w2)),
					fmt.Sprintf("topology reload during %s: beacon stored (usage %s) although the interface admits it neither before (%s) nor after (%s) the reload",
						at, gotRow.usage, w1.Reason, w2.Reason), fx.witness("reload", c, detail))
			} else {
				r.Violation("C25:reload:not-stored", fmt.Sprintf("topology reload during %s: beacon admitted by the interface both before and after the reload was not stored (%v)", at, herr),
					fx.witness("reload", c, detail))
			}
		}
		// other rows untouched
		for k, m := range fx.model {
			if got[k] != m {
				r.Violation("C25:db-changed", "handling a beacon changed other rows of the beacon DB", fx.witness("reload", c, detail))
				break
			}
		}
		fx.model = got
	}
}

func indexOf(l string) int {
	for i, x := range []string{"core", "parent", "child", "peer"} {
		if x == l {
			return i
		}
	}
	return 0
}
