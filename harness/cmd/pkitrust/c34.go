package main

import (
	"context"
	"crypto/x509"
	"fmt"
	"math/rand/v2"
	"net"
	"time"
	"verif/monlog"

	"github.com/scionproto/scion/pkg/scrypto/cppki"
	"github.com/scionproto/scion/private/trust"

	"verif/mon"
	gen "verif/pkitrustgen"
)

// ---------------------------------------------------------------------------
// Part A: cppki.VerifyChain with an explicit verification time.
// ---------------------------------------------------------------------------

// c34World is a fixed-date ISD: base TRC with roots r0 and r1, an update that
// replaces r0 (same name, new key) and keeps r1. r1's certificate expires
// long before the others so that "root expired at verification time" is
// reachable while CA and AS are still valid.
type c34World struct {
	T0        time.Time
	isd       *gen.ISD
	base, upd gen.TRC
	roots     map[string]gen.Ent
	keys      []gen.Key // keys owned by the world's entities
}

func buildC34World(pool *gen.Pool, rng *rand.Rand) *c34World {
	T0 := time.Date(2031, 3, 1, 12, 0, 0, 0, time.UTC)
	day := 24 * hour
	keys := pool.Drawer(rng).Take(10)
	w := &c34World{T0: T0, keys: keys, roots: map[string]gen.Ent{}}
	w.isd = gen.NewISD(keys[:6], 1, 2, 2, 2, 2, T0.Add(-100*day), T0.Add(100*day))
	w.isd.Roots[1] = gen.NewRoot(keys[5], "isd1 short-lived root", w.isd.IAOf(2), T0.Add(-90*day), T0.Add(20*day))
	w.base = w.isd.BaseTRC(1, T0.Add(-50*day), T0.Add(10*day))
	w.upd = w.isd.Update(w.base, gen.RegularUpdate, T0.Add(-1*day), T0.Add(15*day), 6*hour, map[int]gen.Key{0: keys[6]})
	w.roots["r0-old"] = w.base.Roots[0]
	w.roots["r0-new"] = w.upd.Roots[0]
	w.roots["r1"] = w.base.Roots[1]
	w.roots["rogue"] = gen.NewRoot(keys[7], "isd1 rogue root", w.isd.IAOf(7), T0.Add(-100*day), T0.Add(100*day))
	// A root of another ISD (never in ISD 1's TRCs).
	w.roots["other-isd"] = gen.NewRoot(keys[8], "isd2 root", "2-ff00:0:201", T0.Add(-100*day), T0.Add(100*day))
	return w
}

type c34Plan struct {
	Case   int
	Shape  string
	Root   string
	ASDev  string
	CADev  string
	Issuer string
	Cover  string
	TRCs   string
	At     string
	ASKey  string
	CAKey  string
	// derived
	Time   string
	Reason string // first reason the chain must be rejected, "" = all conditions hold
}

var (
	c34Shapes  = []string{"reversed", "as-only", "ca-only", "with-root", "as-as", "ca-ca", "empty", "nil-ca"}
	c34Roots   = []string{"r0-old", "r0-new", "r1", "rogue", "other-isd"}
	c34Covers  = []string{"inside", "equal", "as-starts-early", "as-ends-late"}
	c34TRCSets = []string{"base", "upd", "upd+base", "base+upd", "none", "zero"}
	c34Ats     = []string{"as-start-1s", "as-start", "mid", "as-end", "as-end+1s", "as-end+1ns", "root-end", "root-end+1s", "root-start-1s"}
	c34Curves  = []string{"P-256", "P-256", "P-256", "P-384", "P-521"}
)

func pick[T any](rng *rand.Rand, l []T) T { return l[rng.IntN(len(l))] }

func genC34Plan(rng *rand.Rand, i int) c34Plan {
	p := c34Plan{Case: i, Shape: "as-ca", Issuer: "ca", ASKey: pick(rng, c34Curves), CAKey: pick(rng, c34Curves)}
	// valid baseline
	p.Root = pick(rng, []string{"r0-old", "r0-new", "r1"})
	p.Cover = pick(rng, []string{"inside", "equal"})
	p.At = pick(rng, []string{"as-start", "mid", "mid", "as-end"})
	switch p.Root {
	case "r0-old":
		p.TRCs = pick(rng, []string{"base", "upd+base", "base+upd"})
	case "r0-new":
		p.TRCs = pick(rng, []string{"upd", "upd+base", "base+upd"})
	default:
		p.TRCs = pick(rng, []string{"base", "upd", "upd+base", "base+upd"})
	}
	if rng.IntN(100) < 30 {
		return p
	}
	// 1 or 2 departures from the baseline
	for n := 1 + rng.IntN(2); n > 0; n-- {
		switch rng.IntN(8) {
		case 0:
			p.Shape = pick(rng, c34Shapes)
		case 1:
			p.Root = pick(rng, c34Roots)
		case 2:
			p.ASDev = pick(rng, gen.ASDeviations).Name
		case 3:
			p.CADev = pick(rng, gen.CADeviations).Name
		case 4:
			p.Issuer = pick(rng, []string{"twin", "root"})
		case 5:
			p.Cover = pick(rng, c34Covers)
		case 6:
			p.TRCs = pick(rng, c34TRCSets)
		case 7:
			p.At = pick(rng, c34Ats)
		}
	}
	return p
}

// runC34Verify builds the planned chain, computes the reference verdict from
// the plan and compares with VerifyChain.
func runC34Verify(r *mon.Run, w *c34World, pool *gen.Pool, rng *rand.Rand, p c34Plan, st *c34Stats) {
	day := 24 * hour
	T0 := w.T0
	root := w.roots[p.Root]
	c0, c1 := T0.Add(-10*day), T0.Add(40*day)
	if p.At == "root-start-1s" {
		// let CA and AS start before the root does
		c0 = root.Cert.NotBefore.Add(-10 * day)
	}
	var a0, a1 time.Time
	switch p.Cover {
	case "inside":
		a0, a1 = c0.Add(day), c1.Add(-day)
	case "equal":
		a0, a1 = c0, c1
	case "as-starts-early":
		a0, a1 = c0.Add(-time.Second), c1.Add(-day)
	case "as-ends-late":
		a0, a1 = c0.Add(day), c1.Add(time.Second)
	}
	var t time.Time
	switch p.At {
	case "as-start-1s":
		t = a0.Add(-time.Second)
	case "as-start":
		t = a0
	case "mid":
		t = T0
	case "as-end":
		t = a1
	case "as-end+1s":
		t = a1.Add(time.Second)
	case "as-end+1ns":
		t = a1.Add(time.Nanosecond)
	case "root-end":
		t = root.Cert.NotAfter
	case "root-end+1s":
		t = root.Cert.NotAfter.Add(time.Second)
	case "root-start-1s":
		t = root.Cert.NotBefore.Add(-time.Second)
	}
	p.Time = t.Format(time.RFC3339Nano)

	dr := pool.Drawer(rng, w.keys...)
	caKey, asKey, twin := dr.Next(p.CAKey), dr.Next(p.ASKey), dr.Next(p.CAKey)
	plan := gen.ChainPlan{IA: w.isd.IAOf(5), CAIA: w.isd.IAOf(1), ASDev: p.ASDev, CADev: p.CADev, Issuer: p.Issuer,
		CANotBefore: c0, CANotAfter: c1, ASNotBefore: a0, ASNotAfter: a1}
	pair := gen.IssueChain(plan, root, caKey, asKey, twin)
	as, ca := pair[0], pair[1]
	var chain []*x509.Certificate
	switch p.Shape {
	case "as-ca":
		chain = []*x509.Certificate{as, ca}
	case "reversed":
		chain = []*x509.Certificate{ca, as}
	case "as-only":
		chain = []*x509.Certificate{as}
	case "ca-only":
		chain = []*x509.Certificate{ca}
	case "with-root":
		chain = []*x509.Certificate{as, ca, root.Cert}
	case "as-as":
		chain = []*x509.Certificate{as, as}
	case "ca-ca":
		chain = []*x509.Certificate{ca, ca}
	case "empty":
		chain = nil
	case "nil-ca":
		chain = []*x509.Certificate{as, nil}
	}
	var trcs []*cppki.TRC
	inBase := p.Root == "r0-old" || p.Root == "r1"
	inUpd := p.Root == "r0-new" || p.Root == "r1"
	rootTrusted := false
	switch p.TRCs {
	case "base":
		trcs, rootTrusted = []*cppki.TRC{&w.base.Signed.TRC}, inBase
	case "upd":
		trcs, rootTrusted = []*cppki.TRC{&w.upd.Signed.TRC}, inUpd
	case "upd+base":
		trcs, rootTrusted = []*cppki.TRC{&w.upd.Signed.TRC, &w.base.Signed.TRC}, inBase || inUpd
	case "base+upd":
		trcs, rootTrusted = []*cppki.TRC{&w.base.Signed.TRC, &w.upd.Signed.TRC}, inBase || inUpd
	case "none":
	case "zero":
		trcs = []*cppki.TRC{{}}
	}

	// ---- reference verdict, from the plan only ----
	switch {
	case p.Shape != "as-ca":
		p.Reason = "shape:" + p.Shape
	case p.ASDev != "":
		p.Reason = "as:" + p.ASDev
	case p.CADev != "":
		p.Reason = "ca:" + p.CADev
	case p.Issuer != "ca":
		p.Reason = "as-not-issued-by-ca:" + p.Issuer
	case p.Cover != "inside" && p.Cover != "equal":
		p.Reason = "ca-validity-not-covering:" + p.Cover
	case !rootTrusted:
		p.Reason = "ca-not-rooted-in-trc:" + p.Root + "/" + p.TRCs
	case !within(t, a0, a1):
		p.Reason = "as-not-valid-at-time"
	case !within(t, c0, c1):
		p.Reason = "ca-not-valid-at-time"
	case !within(t, root.Cert.NotBefore, root.Cert.NotAfter):
		p.Reason = "root-not-valid-at-time"
	}
	want := p.Reason == ""

	// ---- generator self-check: the parsed certificates must show exactly the
	// structural defects the plan intended (none / some). A mismatch is a
	// harness bug, never a finding.
	if p.Shape == "as-ca" {
		structural := refChainStructure(chain)
		planStructural := p.ASDev != "" || p.CADev != "" || (p.Cover != "inside" && p.Cover != "equal")
		if (len(structural) > 0) != planStructural {
			st.selfCheckFailed++
			r.Inconclusive("generator-self-check")
			fmt.Printf("SELF-CHECK c34 case %d: plan %+v parsed defects %v\n", p.Case, p, structural)
			return
		}
	}

	var err error
	pan, stack := mon.Try(func() {
		err = cppki.VerifyChain(chain, cppki.VerifyOptions{TRC: trcs, CurrentTime: t})
	})
	r.Eval(1)
	if pan != nil {
		r.Violation("C34:panic:"+mon.PanicSite(stack), fmt.Sprintf("VerifyChain panicked: %v", pan), p)
		return
	}
	got := err == nil
	outcome := "rejected"
	if got {
		outcome = "accepted"
	}
	r.Event("verify_" + outcome)
	cls := p.Reason
	if cls == "" {
		cls = "all-conditions-hold/" + p.Root + "/" + p.Cover + "/" + p.At + "/" + p.TRCs
	}
	r.Class("verify/" + cls + "/" + outcome)
	if r.WantSample() && p.Case%97 == 5 {
		r.Sample(map[string]any{"part": "VerifyChain", "plan": p, "accepted": got})
	}
	switch {
	case got && !want:
		r.Violation("C34:verifychain-accepts/"+keyReason(p.Reason),
			fmt.Sprintf("VerifyChain accepted a chain that must be rejected (%s) at %s", p.Reason, p.Time), p)
	case !got && want:
		st.validRejected++
		r.Event("premise_valid_chain_rejected")
		if st.validRejected <= 3 {
			fmt.Printf("PREMISE c34: valid chain rejected: %+v: %v\n", p, err)
		}
	case got:
		st.validAccepted++
	}
}

// keyReason strips per-case detail from a reason so that the violation key
// names the failing input class.
func keyReason(s string) string {
	for i := 0; i < len(s); i++ {
		if s[i] == '/' {
			return s[:i]
		}
	}
	return s
}

type c34Stats struct {
	validAccepted, validRejected, selfCheckFailed int
	provHanded, provTrustedWithheld               int
}

// ---------------------------------------------------------------------------
// Part B: FetchingProvider.GetChains on a real trust DB (wall clock).
// ---------------------------------------------------------------------------

type c34Fetcher struct {
	chains [][]*x509.Certificate
	calls  int
}

func (f *c34Fetcher) Chains(context.Context, trust.ChainQuery, net.Addr) ([][]*x509.Certificate, error) {
	f.calls++
	return f.chains, nil
}

func (f *c34Fetcher) TRC(context.Context, cppki.TRCID, net.Addr) (cppki.SignedTRC, error) {
	return cppki.SignedTRC{}, fmt.Errorf("not scripted")
}

type c34ProvChain struct {
	Spec   chainSpec
	Where  string // db | fetch
	Facts  chainFacts
	Result string
}

type c34ProvCase struct {
	Case     int
	Timeline string
	Mode     string
	Query    string
	Chains   []c34ProvChain
	T0, T1   string
	Err      string
}

// deviations a chain can carry and still be storable in the trust DB (the
// back-end needs a parsable ISD-AS in the AS subject).
var c34DBDevs = []string{"as-no-timestamping", "as-is-ca", "as-ku-certsign-added", "as-no-eku", "ca-pathlen-1", "ca-pathlen-unset",
	"ca-ku-digsig-added", "ca-not-ca", "ca-eku-serverauth", "ca-no-ia", "twin-issuer", "as-outlives-ca"}

// extra deviations only a remote can send.
var c34FetchDevs = []string{"as-no-ia", "as-ia-wildcard", "as-ia-noncanonical", "as-ku-none", "as-no-skid"}

func runC34Provider(r *mon.Run, pool *gen.Pool, rng *rand.Rand, i int, tl timeline, st *c34Stats) {
	ctx := monlog.Alternate() // log level is a configuration dimension
	dr := pool.Drawer(rng)
	w := buildWorld(dr, 1, tl, time.Now())
	d := newTrustDB()
	defer d.Close()
	w.insertTRCs(d)
	ia := w.ISD.IAOf(3)
	asKey := dr.Next("")
	pc := c34ProvCase{Case: i, Timeline: tl.Name}
	pc.Mode = pick(rng, []string{"local", "local", "fetch", "mixed"})

	roots := []string{"old", "kept", "rogue"}
	if tl.Update {
		roots = []string{"old", "new", "kept", "rogue", "new", "old"}
	}
	n := 2 + rng.IntN(4)
	facts := map[string]*c34ProvChain{}
	var order []string
	fetcher := &c34Fetcher{}
	for k := 0; k < n; k++ {
		cs := chainSpec{Root: pick(rng, roots), IA: ia, NBOff: -2 * hour, NAOff: 6 * hour}
		where := "db"
		if pc.Mode == "fetch" || (pc.Mode == "mixed" && rng.IntN(2) == 0) {
			where = "fetch"
		}
		switch x := rng.IntN(10); {
		case x < 5:
		case x < 7:
			devs := c34DBDevs
			if where == "fetch" {
				devs = append(append([]string{}, c34DBDevs...), c34FetchDevs...)
			}
			cs.Dev = pick(rng, devs)
		case x < 8:
			cs.NBOff, cs.NAOff = -6*hour, -1*hour // expired AS certificate
		case x < 9:
			cs.NBOff, cs.NAOff = 1*hour, 6*hour // not yet valid
		default:
			cs.Root = "rogue"
		}
		if tl.NearEdge && rng.IntN(3) == 0 {
			// AS certificate expiring within seconds of the call
			cs.NAOff = time.Duration(rng.IntN(7)-3) * time.Second
		}
		chain, f := w.issue(dr, cs, asKey)
		e := &c34ProvChain{Spec: cs, Where: where, Facts: f}
		facts[rawKey(chain)] = e
		order = append(order, rawKey(chain))
		if where == "db" {
			if _, err := d.InsertChain(ctx, chain); err != nil {
				panic(fmt.Sprintf("pkitrust: insert chain (%+v): %v", cs, err))
			}
		} else {
			fetcher.chains = append(fetcher.chains, chain)
		}
	}
	prov := trust.FetchingProvider{DB: d, Recurser: trust.LocalOnlyRecurser{}, Router: trust.LocalRouter{IA: mustIA(ia)}, Fetcher: fetcher}
	q := trust.ChainQuery{IA: mustIA(ia), SubjectKeyID: gen.SKID(asKey.Public())}
	pc.Query = "ia+skid"
	if rng.IntN(4) == 0 {
		q.SubjectKeyID = nil
		pc.Query = "ia"
	}

	var res [][]*x509.Certificate
	var err error
	t0 := time.Now()
	pan, stack := mon.Try(func() { res, err = prov.GetChains(ctx, q) })
	t1 := time.Now()
	pc.T0, pc.T1 = fmtOff(t0.Sub(w.TGen)), fmtOff(t1.Sub(w.TGen))
	if err != nil {
		pc.Err = err.Error()
	}
	if pan != nil {
		r.Eval(1)
		r.Violation("C34:panic:"+mon.PanicSite(stack), fmt.Sprintf("GetChains panicked: %v", pan), pc)
		return
	}
	returned := map[string]bool{}
	for _, c := range res {
		returned[rawKey(c)] = true
	}
	// judge every chain that was handed out
	inconclusive := false
	anyLocalTrusted := false
	for _, k := range order {
		e := facts[k]
		ok0, _ := w.Model.trusted(e.Facts, t0)
		ok1, _ := w.Model.trusted(e.Facts, t1)
		if ok0 != ok1 {
			inconclusive = true
			continue
		}
		if ok0 && e.Where == "db" {
			anyLocalTrusted = true
		}
	}
	if inconclusive {
		r.Inconclusive("time-bracket")
		return
	}
	r.Eval(1)
	for _, c := range res {
		k := rawKey(c)
		e, known := facts[k]
		if !known {
			r.Violation("C34:provider-returns-unknown-chain", "GetChains returned a chain that was neither stored nor fetched", pc)
			continue
		}
		ok, why := w.Model.trusted(e.Facts, t0)
		e.Result = "handed-out"
		st.provHanded++
		r.Event("provider_handed_out")
		cls := fmt.Sprintf("provider/%s/%s/%s/%s/handed-out", tl.Name, e.Where, e.Facts.Kind, why)
		r.Class(cls)
		if !ok {
			r.Violation(fmt.Sprintf("C34:provider-hands-out/%s/%s", why, tlKey(tl)),
				fmt.Sprintf("GetChains handed out a chain (%s, via %s) that is not trusted under timeline %s: %s",
					e.Facts.Kind, e.Where, tl.Name, why), pc)
		}
	}
	for _, k := range order {
		e := facts[k]
		if returned[k] {
			continue
		}
		ok, why := w.Model.trusted(e.Facts, t0)
		e.Result = "withheld"
		r.Event("provider_withheld")
		r.Class(fmt.Sprintf("provider/%s/%s/%s/%s/withheld", tl.Name, e.Where, e.Facts.Kind, why))
		// Premise: a trusted chain that the call could see is handed out
		// (local ones always; fetched ones only when nothing local is trusted).
		visible := e.Where == "db" || !anyLocalTrusted
		if ok && visible && !tl.PredMissing && why == "grace" && tl.PredExpiredInCase {
			// trusted only through a predecessor that has itself expired:
			// the statement is silent (see Assumptions), observed only.
			r.Event("observed_chain_of_expired_predecessor_withheld")
		} else if ok && visible && !tl.PredMissing {
			st.provTrustedWithheld++
			r.Event("premise_trusted_chain_withheld")
			if st.provTrustedWithheld <= 3 {
				fmt.Printf("PREMISE c34 provider: trusted chain withheld: %s %+v err=%v\n", tl.Name, e, err)
			}
		}
	}
	for _, k := range order {
		pc.Chains = append(pc.Chains, *facts[k])
	}
	if r.WantSample() && i%41 == 3 {
		r.Sample(map[string]any{"part": "GetChains", "case": pc})
	}
}

func tlKey(tl timeline) string {
	if tl.NearEdge {
		return "edge"
	}
	return tl.Name
}

func checkC34(r *mon.Run) {
	r.Rule = "A) chain plan = shape × issuing root × AS deviation × CA deviation × issuer × validity cover × TRC list × " +
		"verification instant (exact boundary instants via VerifyOptions.CurrentTime); expectation from the plan, compared with " +
		"cppki.VerifyChain. B) TRC timeline (base only / update in grace / grace over / not yet valid / expired / predecessor missing) × " +
		"chains stored in a real sqlite trust DB or served by a scripted Fetcher; every chain handed out by FetchingProvider.GetChains " +
		"must be trusted by the timeline model at both bracket instants. C) slow remote: nothing stored locally, the latest TRC (base, or update with " +
		"the grace period over) reaches NotAfter 1-2 s after GetChains starts, the scripted Fetcher answers shortly after that instant with a rogue-rooted / " +
		"signature-forged / genuine / mixed reply; a chain that verifies under no TRC of the world must be neither handed out nor stored (time-independent), " +
		"the genuine chain's outcome is recorded only. class = reason × outcome (A), timeline × source × chain kind × outcome (B), " +
		"timeline × reply × chain kind × outcome (C)"
	r.Assumptions = []string{
		"crypto/x509 certificate creation and parsing are trusted to build the inputs",
		"the statement is an 'only if': rejecting a conforming chain is not judged, but the run is reported broken unless every conforming chain was accepted (the premise that makes the rejections meaningful)",
		"a CA path length other than 0 (certificates.rst says 'should be 0') is treated as a constraint violation",
		"duplicate ISD-AS attributes and an expired predecessor TRC inside the grace period are observed but not judged (statement silent); " +
			"a chain trusted only through such an expired predecessor that is withheld does not count against the premise either",
		"slow-fetch phase: whether a genuine chain may still be handed out when its TRC reached NotAfter during the call is not judged (ambiguous); " +
			"only chains that verify under no TRC at any time are demanded to be refused and not stored",
	}
	pool := gen.NewPool(64, 8, 8)
	st := &c34Stats{}

	// Part C first (a few real seconds, concurrent cases): its samples are kept.
	tSlow := time.Now()
	runC34SlowPhase(r, pool, st)
	r.Extra("slow_fetch_phase_wall_s", time.Since(tSlow).Seconds()) // coverage information only

	rngA := r.Rand("c34-verify")
	w := buildC34World(pool, rngA)
	nA := r.Pick(4000, 80000)
	for i := 0; i < nA; i++ {
		runC34Verify(r, w, pool, rngA, genC34Plan(rngA, i), st)
	}

	rngB := r.Rand("c34-provider")
	nB := r.Pick(400, 6000)
	for i := 0; i < nB; i++ {
		tl := timelines[i%len(timelines)]
		if r.Thorough() && i%3 == 2 {
			tl = edgeTimeline(rngB)
		}
		runC34Provider(r, pool, rngB, i, tl, st)
	}

	r.Extra("valid_chains_accepted", st.validAccepted)
	r.Extra("valid_chains_rejected", st.validRejected)
	r.Extra("provider_chains_handed_out", st.provHanded)
	r.Extra("provider_trusted_chains_withheld", st.provTrustedWithheld)
	if st.validRejected == 0 && st.provTrustedWithheld == 0 && st.validAccepted > 0 && st.provHanded > 0 {
		r.Class("premise/every-conforming-chain-accepted")
	}
	if st.selfCheckFailed == 0 {
		r.Class("premise/generator-self-check-clean")
	}
	r.RequireClasses("premise/every-conforming-chain-accepted", "premise/generator-self-check-clean", "slow-fetch/rogue/refused")
	r.Require(int64(nA+nB/2), 60, "verify_accepted", "verify_rejected", "provider_handed_out", "provider_withheld",
		"slow_fetch_case", "slow_fetch_untrusted_refused")
}
