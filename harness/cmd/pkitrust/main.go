// Command pkitrust serves the control-plane PKI trust properties C34-C37.
package main

import "verif/mon"

func main() {
	mon.Main(map[string]func(*mon.Run){
		"C34": checkC34,
		"C35": checkC35,
		"C36": checkC36,
		"C37": checkC37,
	})
}
