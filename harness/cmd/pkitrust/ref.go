package main

// Reference model shared by C34-C37. Nothing in this file calls the trust or
// cppki code under test; expectations are computed from the generator's plan
// (who signed what, which deviation was injected, which instants bound which
// validity) and from doc/cryptography/{certificates,trc}.rst.

import (
	"crypto/x509"
	"encoding/asn1"
	"fmt"
	"strconv"
	"strings"
	"time"

	gen "verif/pkitrustgen"
)

// ---- canonical ISD-AS text (certificates.rst "Issuer") ----

// refIA parses the ISD-AS attribute text. ok: the text denotes an ISD-AS at
// all; canonical: it is the canonical spelling; wildcard: ISD or AS is 0.
func refIA(s string) (isd uint64, as uint64, ok, canonical, wildcard bool) {
	parts := strings.Split(s, "-")
	if len(parts) != 2 {
		return
	}
	dec := func(x string, max uint64) (uint64, bool, bool) {
		if x == "" {
			return 0, false, false
		}
		for _, c := range x {
			if c < '0' || c > '9' {
				return 0, false, false
			}
		}
		v, err := strconv.ParseUint(x, 10, 64)
		if err != nil || v > max {
			return 0, false, false
		}
		return v, true, strconv.FormatUint(v, 10) == x
	}
	i, iok, ican := dec(parts[0], 0xffff)
	if !iok {
		return
	}
	var a uint64
	var acan bool
	if strings.Contains(parts[1], ":") {
		g := strings.Split(parts[1], ":")
		if len(g) != 3 {
			return
		}
		acan = true
		for _, x := range g {
			if x == "" || len(x) > 4 {
				return
			}
			v, err := strconv.ParseUint(x, 16, 16)
			if err != nil {
				return
			}
			if strconv.FormatUint(v, 16) != x {
				acan = false
			}
			a = a<<16 | v
		}
		if a <= 0xffffffff {
			acan = false // BGP range is spelled in decimal
		}
	} else {
		var aok bool
		a, aok, acan = dec(parts[1], 0xffffffff)
		if !aok {
			return
		}
	}
	return i, a, true, ican && acan, i == 0 || a == 0
}

var oidIA = asn1.ObjectIdentifier{1, 3, 6, 1, 4, 1, 55324, 1, 2, 1}

// refNameIA returns the problems of the ISD-AS attribute of a parsed name
// ("" if fine) and the attribute text.
func refNameIA(names []pkixATV) (problem string, ia string) {
	n := 0
	for _, a := range names {
		if !a.Type.Equal(oidIA) {
			continue
		}
		n++
		s, isStr := a.Value.(string)
		if !isStr {
			return "ia-not-string", ""
		}
		if n == 1 {
			ia = s
		}
	}
	if n == 0 {
		return "ia-missing", ""
	}
	_, _, ok, canon, wild := refIA(ia)
	switch {
	case !ok:
		return "ia-unparsable", ia
	case wild:
		return "ia-wildcard", ia
	case !canon:
		return "ia-noncanonical", ia
	}
	return "", ia
}

type pkixATV = struct {
	Type  asn1.ObjectIdentifier
	Value any
}

func atvs(c *x509.Certificate, subject bool) []pkixATV {
	src := c.Issuer.Names
	if subject {
		src = c.Subject.Names
	}
	out := make([]pkixATV, len(src))
	for i, a := range src {
		out[i] = pkixATV{Type: a.Type, Value: a.Value}
	}
	return out
}

// refProfile lists the rules of certificates.rst a parsed certificate breaks
// when used as the given chain member ("as" or "ca"). Empty = conforming.
func refProfile(c *x509.Certificate, kind string) []string {
	var v []string
	if c.Version != 3 {
		v = append(v, "version")
	}
	switch c.SignatureAlgorithm {
	case x509.ECDSAWithSHA256, x509.ECDSAWithSHA384, x509.ECDSAWithSHA512:
	default:
		v = append(v, "signature-algorithm")
	}
	if len(c.SubjectKeyId) == 0 {
		v = append(v, "no-subject-key-id")
	}
	if len(c.AuthorityKeyId) == 0 {
		v = append(v, "no-authority-key-id")
	}
	if p, _ := refNameIA(atvs(c, true)); p != "" {
		v = append(v, "subject-"+p)
	}
	if p, _ := refNameIA(atvs(c, false)); p != "" {
		v = append(v, "issuer-"+p)
	}
	has := func(u x509.ExtKeyUsage) bool {
		for _, e := range c.ExtKeyUsage {
			if e == u {
				return true
			}
		}
		return false
	}
	for _, o := range c.UnknownExtKeyUsage {
		if o.Equal(gen.OIDRoot) || o.Equal(gen.OIDSensitive) || o.Equal(gen.OIDRegular) {
			v = append(v, "trc-certificate-type")
		}
	}
	switch kind {
	case "as":
		if c.KeyUsage&x509.KeyUsageDigitalSignature == 0 {
			v = append(v, "as-no-digital-signature")
		}
		if c.KeyUsage&x509.KeyUsageCertSign != 0 {
			v = append(v, "as-cert-sign")
		}
		if c.BasicConstraintsValid && c.IsCA {
			v = append(v, "as-is-ca")
		}
		if !has(x509.ExtKeyUsageTimeStamping) {
			v = append(v, "as-no-timestamping")
		}
	case "ca":
		if c.KeyUsage&x509.KeyUsageCertSign == 0 {
			v = append(v, "ca-no-cert-sign")
		}
		if c.KeyUsage&x509.KeyUsageDigitalSignature != 0 {
			v = append(v, "ca-digital-signature")
		}
		if !c.BasicConstraintsValid || !c.IsCA {
			v = append(v, "ca-basic-constraints")
		} else if !(c.MaxPathLen == 0 && c.MaxPathLenZero) {
			v = append(v, "ca-path-length")
		}
		if has(x509.ExtKeyUsageServerAuth) || has(x509.ExtKeyUsageClientAuth) {
			v = append(v, "ca-tls-eku")
		}
	}
	return v
}

// refChainStructure lists the structural rules a parsed chain breaks
// (everything of the statement's first sentence that does not involve keys,
// TRCs or the verification time).
func refChainStructure(chain []*x509.Certificate) []string {
	if len(chain) != 2 {
		return []string{"length"}
	}
	var v []string
	for _, p := range refProfile(chain[0], "as") {
		v = append(v, "as:"+p)
	}
	for _, p := range refProfile(chain[1], "ca") {
		v = append(v, "ca:"+p)
	}
	as, ca := chain[0], chain[1]
	if as.NotBefore.Before(ca.NotBefore) || as.NotAfter.After(ca.NotAfter) {
		v = append(v, "ca-validity-does-not-cover-as")
	}
	return v
}

// within reports nb <= t <= na.
func within(t, nb, na time.Time) bool { return !t.Before(nb) && !t.After(na) }

// ---- TRC timelines (shared by C34 provider part, C36, C37) ----

// trcWin is the plan of one TRC in a timeline: validity and grace period.
type trcWin struct {
	NB, NA time.Time
	Grace  time.Duration
}

// tlModel is the abstract state of an ISD's TRC store at the time of a call.
type tlModel struct {
	HasLatest bool
	Latest    trcWin
	IsUpdate  bool // latest is a non-base TRC
	PredInDB  bool
	Pred      trcWin
}

func (m tlModel) latestValid(t time.Time) bool {
	return m.HasLatest && within(t, m.Latest.NB, m.Latest.NA)
}

// inGrace: the grace period starts with the latest TRC's validity and lasts
// Grace (trc.rst "GracePeriod"); base TRCs have none.
func (m tlModel) inGrace(t time.Time) bool {
	return m.HasLatest && m.IsUpdate && within(t, m.Latest.NB, m.Latest.NB.Add(m.Latest.Grace))
}

// chainFacts is what the plan knows about a chain.
type chainFacts struct {
	Kind       string // label for classes/keys
	WellFormed bool   // no injected deviation, AS issued by the chain's CA, CA validity covers AS validity
	Root       string // "old" (root replaced by the update), "new" (its replacement), "kept" (in both), "rogue"
	// validity of AS ∩ CA ∩ issuing root certificate
	NB, NA time.Time
}

// rootIn reports whether the root label is in the predecessor / latest TRC.
func rootIn(root string, latest bool, isUpdate bool) bool {
	switch root {
	case "kept":
		return true
	case "old":
		return !latest || !isUpdate // the base TRC (as latest or predecessor) contains the old root
	case "new":
		return latest && isUpdate
	}
	return false
}

// verifiesLatest: chain verifies against the latest TRC at t.
func (m tlModel) verifiesLatest(c chainFacts, t time.Time) bool {
	return c.WellFormed && rootIn(c.Root, true, m.IsUpdate) && within(t, c.NB, c.NA)
}

// verifiesPred: chain verifies against the predecessor's roots at t.
func (m tlModel) verifiesPred(c chainFacts, t time.Time) bool {
	return m.IsUpdate && c.WellFormed && rootIn(c.Root, false, true) && within(t, c.NB, c.NA)
}

// trusted is the statement's condition for handing a chain out / accepting a
// renewal chain at t: verifies against the latest TRC while that TRC is
// valid, or against the predecessor during the latest TRC's grace period.
func (m tlModel) trusted(c chainFacts, t time.Time) (bool, string) {
	if !m.latestValid(t) {
		return false, "latest-trc-not-valid"
	}
	if m.verifiesLatest(c, t) {
		return true, "latest"
	}
	if m.inGrace(t) && m.PredInDB && m.verifiesPred(c, t) {
		return true, "grace"
	}
	switch {
	case !c.WellFormed:
		return false, "malformed-chain"
	case !within(t, c.NB, c.NA):
		return false, "outside-validity"
	case c.Root == "rogue":
		return false, "untrusted-root"
	case m.inGrace(t) && !m.PredInDB:
		return false, "predecessor-unavailable"
	}
	return false, "grace-period-over"
}

func fmtOff(d time.Duration) string {
	return fmt.Sprintf("%+.0fs", d.Seconds())
}
