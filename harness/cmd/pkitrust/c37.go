package main

import (
	"bytes"
	"crypto/x509"
	"fmt"
	"math/rand/v2"
	"strings"
	"time"
	"verif/monlog"

	"github.com/scionproto/scion/pkg/scrypto/cms/protocol"
	"github.com/scionproto/scion/pkg/scrypto/cppki"
	"github.com/scionproto/scion/private/ca/renewal"

	"verif/mon"
	gen "verif/pkitrustgen"
)

type c37Plan struct {
	Case      int
	Timeline  string
	ChainRoot string // old | new | kept | rogue
	ChainDev  string // "", deviation, or a validity window relative to the processing time (c37TimeDevs)
	// SigningTime is the requester-chosen CMS signing-time attribute: now | absent |
	// inside-chain-validity | long-ago | future-3s | future-1h
	SigningTime string
	Certs       string // chain | none | as-only | ca-only | chain+root | other-chain
	Signers     string // as | none | two-as | as+ca | ca | foreign-key | unrelated-cert
	Sig         string // ok | corrupt | covers-other-content
	Payload     string // csr | garbage
	CSRSubject  string // same | other-as | other-isd | none
	CSRSig      string // ok | broken
	CSRCurve    string
	// derived
	Trusted string
	Reason  string // first unmet condition, "" = all conditions of the statement hold
	T0, T1  string
	Err     string
}

var (
	c37Certs    = []string{"none", "as-only", "ca-only", "chain+root", "other-chain"}
	c37Signers  = []string{"none", "two-as", "as+ca", "ca", "foreign-key", "unrelated-cert"}
	c37Sigs     = []string{"corrupt", "covers-other-content"}
	c37Subjects = []string{"other-as", "other-isd", "none"}
	// c37TimeDevs place the client chain's validity relative to the processing
	// time: [NBOff, NAOff] of the AS certificate (offsets of at least 8 s).
	c37TimeDevs = map[string][2]time.Duration{
		"expired":          {-6 * hour, -1 * hour},
		"expired-8s":       {-6 * hour, -8 * time.Second},
		"expired-long":     {-10 * 24 * hour, -2 * 24 * hour},
		"not-yet-valid":    {1 * hour, 6 * hour},
		"not-yet-valid-8s": {8 * time.Second, 6 * hour},
	}
	c37TimeDevNames = []string{"expired", "expired-8s", "expired-long", "not-yet-valid", "not-yet-valid-8s"}
	c37SigningTimes = []string{"absent", "inside-chain-validity", "inside-chain-validity", "long-ago", "future-3s", "future-1h"}
	c37Devs         = []string{"expired", "not-yet-valid", "expired-8s", "expired-long", "not-yet-valid-8s", "as-no-timestamping", "as-is-ca", "ca-pathlen-1", "ca-ku-digsig-added",
		"ca-not-ca", "twin-issuer", "as-outlives-ca", "as-no-ia", "as-ia-wildcard", "ca-eku-clientauth"}
)

func genC37Plan(rng *rand.Rand, i int, tl timeline) c37Plan {
	p := c37Plan{Case: i, Timeline: tl.Name, Certs: "chain", Signers: "as", Sig: "ok", Payload: "csr",
		CSRSubject: "same", CSRSig: "ok", CSRCurve: pick(rng, []string{"", "", "P-384", "P-521"})}
	// Roots that can make the chain trusted under this timeline are preferred so
	// that single departures in the other dimensions are decisive.
	roots := []string{"old", "kept"}
	if tl.Update {
		roots = []string{"new", "kept", "new", "kept", "old"}
		if tl.Grace >= hour && tl.UpdNB < 0 && tl.UpdNB+tl.Grace > 0 {
			roots = []string{"old", "new", "kept"}
		}
	}
	p.ChainRoot = pick(rng, roots)
	p.SigningTime = "now"
	// Time × attacker-controlled attribute: a third of the plans carry a
	// signing-time attribute other than "now"; every seventh plan is otherwise
	// conforming and varies only the chain's validity window and the attribute.
	if rng.IntN(3) == 0 {
		p.SigningTime = pick(rng, c37SigningTimes)
	}
	if i%7 == 3 {
		// enumerated, not sampled: (validity window) × (signing time), cycling
		devs := append([]string{""}, c37TimeDevNames...)
		sts := []string{"now", "absent", "inside-chain-validity", "long-ago", "future-3s", "future-1h"}
		j := i / 7
		p.ChainDev, p.SigningTime = devs[j%len(devs)], sts[(j/len(devs))%len(sts)]
		return p
	}
	if rng.IntN(100) < 40 {
		return p
	}
	for n := 1 + rng.IntN(2); n > 0; n-- {
		switch rng.IntN(9) {
		case 8:
			p.ChainRoot = pick(rng, []string{"rogue", "old", "old"})
		case 0:
			p.ChainDev = pick(rng, c37Devs)
		case 1:
			p.Certs = pick(rng, c37Certs)
		case 2, 3:
			p.Signers = pick(rng, c37Signers)
		case 4:
			p.Sig = pick(rng, c37Sigs)
		case 5:
			p.Payload = "garbage"
		case 6:
			p.CSRSubject = pick(rng, c37Subjects)
		case 7:
			p.CSRSig = "broken"
		}
	}
	return p
}

type c37Stats struct {
	timeMatrix                   map[string]int // chain validity window × signing time × outcome → cases
	validAccepted, validRejected int
	chainsIssued, feasibleDenied int
}

func runC37Request(r *mon.Run, pool *gen.Pool, rng *rand.Rand, p c37Plan, tl timeline, st *c37Stats) {
	ctx := monlog.Alternate() // log level is a configuration dimension
	dr := pool.Drawer(rng)
	w := buildWorld(dr, 1, tl, time.Now())
	d := newTrustDB()
	defer d.Close()
	w.insertTRCs(d)
	ia := w.ISD.IAOf(3)

	// the client's chain
	asKey := dr.Next("")
	cs := chainSpec{Root: p.ChainRoot, IA: ia, NBOff: -2 * hour, NAOff: 6 * hour}
	if win, ok := c37TimeDevs[p.ChainDev]; ok {
		cs.NBOff, cs.NAOff = win[0], win[1]
	} else if p.ChainDev != "" {
		cs.Dev = p.ChainDev
	}
	if tl.NearEdge && rng.IntN(3) == 0 {
		cs.NAOff = time.Duration(rng.IntN(7)-3) * time.Second
	}
	chain, facts := w.issue(dr, cs, asKey)
	as, ca := chain[0], chain[1]
	caKeyOwner := w.root(p.ChainRoot) // only to have some certificate for chain+root
	// a second, fully valid chain of another AS of the ISD
	otherKey := dr.Next("")
	okRoot := "kept"
	otherChain, _ := w.issue(dr, chainSpec{Root: okRoot, IA: w.ISD.IAOf(4), NBOff: -2 * hour, NAOff: 6 * hour}, otherKey)

	// the request
	var subjIA string
	switch p.CSRSubject {
	case "same":
		subjIA = ia
	case "other-as":
		subjIA = w.ISD.IAOf(4)
	case "other-isd":
		subjIA = "2-ff00:0:103"
	case "none":
		subjIA = ""
	}
	csrKey := dr.Next(p.CSRCurve)
	csr := gen.CSR(gen.Name("renewed AS certificate", subjIA), csrKey)
	if p.CSRSig == "broken" {
		csr = gen.BreakCSRSignature(csr)
	}
	content := csr
	if p.Payload == "garbage" {
		content = []byte("this is not a certificate request")
	}
	var certs []*x509.Certificate
	switch p.Certs {
	case "chain":
		certs = []*x509.Certificate{as, ca}
	case "none":
	case "as-only":
		certs = []*x509.Certificate{as}
	case "ca-only":
		certs = []*x509.Certificate{ca}
	case "chain+root":
		certs = []*x509.Certificate{as, ca, caKeyOwner.Cert}
	case "other-chain":
		certs = otherChain
	}
	opts := gen.SIOpts{}
	// The signing-time attribute is whatever the requester writes into it.
	switch p.SigningTime {
	case "", "now":
	case "absent":
		opts.NoSigningTime = true
	case "inside-chain-validity": // for an expired chain: backdated; for a not yet valid one: forward-dated
		opts.SigningTime = as.NotBefore.Add(time.Minute)
	case "long-ago":
		opts.SigningTime = w.TGen.Add(-400 * 24 * hour)
	case "future-3s":
		opts.SigningTime = time.Now().Add(3 * time.Second)
	case "future-1h":
		opts.SigningTime = w.TGen.Add(hour)
	default:
		panic("pkitrust: unknown signing time " + p.SigningTime)
	}
	switch p.Sig {
	case "corrupt":
		opts.CorruptSignature = true
	case "covers-other-content":
		opts.DigestOver = gen.CSR(gen.Name("another request", ia), csrKey)
	}
	// the CA key of the chain is not kept by issue(); a CA-signed SignerInfo is
	// emulated by a SignerInfo that names the CA certificate (the verifier must
	// refuse it before looking at the signature value).
	var infos []protocol.SignerInfo
	asInfo := func() protocol.SignerInfo { return gen.SignerInfo(content, as, asKey, opts) }
	switch p.Signers {
	case "as":
		infos = []protocol.SignerInfo{asInfo()}
	case "none":
	case "two-as":
		infos = []protocol.SignerInfo{asInfo(), asInfo()}
	case "as+ca":
		infos = []protocol.SignerInfo{asInfo(), gen.SignerInfo(content, ca, asKey, opts)}
	case "ca":
		infos = []protocol.SignerInfo{gen.SignerInfo(content, ca, asKey, opts)}
	case "foreign-key":
		infos = []protocol.SignerInfo{gen.SignerInfo(content, as, otherKey, opts)}
	case "unrelated-cert":
		infos = []protocol.SignerInfo{gen.SignerInfo(content, otherChain[0], otherKey, opts)}
	}
	req := gen.CMS(content, certs, infos)

	v := renewal.RequestVerifier{TRCFetcher: d}
	var got *x509.CertificateRequest
	var err error
	t0 := time.Now()
	pan, stack := mon.Try(func() { got, err = v.VerifyCMSSignedRenewalRequest(ctx, req) })
	t1 := time.Now()
	p.T0, p.T1 = fmtOff(t0.Sub(w.TGen)), fmtOff(t1.Sub(w.TGen))
	if err != nil {
		p.Err = err.Error()
	}
	if pan != nil {
		r.Eval(1)
		r.Violation("C37:panic:"+mon.PanicSite(stack), fmt.Sprintf("VerifyCMSSignedRenewalRequest panicked: %v", pan), p)
		return
	}

	// ---- reference verdict ----
	// Which chain does the envelope carry, and is the single signer its AS
	// certificate (signed with that certificate's key)?
	inclFacts, inclIA := facts, "same"
	certsOK := p.Certs == "chain"
	signersOK := p.Signers == "as"
	if p.Certs == "other-chain" {
		// the (fully valid) chain of another AS of the ISD
		certsOK = true
		signersOK = p.Signers == "unrelated-cert" // = that AS's certificate and key
		inclIA = "other-as"
		inclFacts = chainFacts{Kind: "kept/well-formed", WellFormed: true, Root: "kept",
			NB: otherChain[0].NotBefore, NA: otherChain[0].NotAfter}
	}
	tr0, why0 := w.Model.trusted(inclFacts, t0)
	tr1, _ := w.Model.trusted(inclFacts, t1)
	p.Trusted = why0
	switch {
	case !certsOK:
		p.Reason = "certificates:" + p.Certs
	case !signersOK:
		p.Reason = "signer-infos:" + p.Signers
	case p.Sig != "ok":
		p.Reason = "signature:" + p.Sig
	case !tr0:
		p.Reason = "chain-not-trusted:" + why0
	case p.Payload != "csr":
		p.Reason = "payload:" + p.Payload
	case p.CSRSubject != inclIA:
		p.Reason = "subject:" + p.CSRSubject + "-vs-chain-of-" + inclIA
	case p.CSRSig != "ok":
		p.Reason = "request-signature:" + p.CSRSig
	}
	if certsOK && signersOK && p.Sig == "ok" && tr0 != tr1 {
		r.Inconclusive("time-bracket")
		return
	}
	want := p.Reason == ""
	accepted := err == nil
	r.Eval(1)
	outcome := "rejected"
	if accepted {
		outcome = "accepted"
	}
	r.Event("request_" + outcome)
	cls := p.Reason
	if cls == "" {
		cls = "all-conditions-hold/" + tl.Name + "/" + inclFacts.Kind + "/" + why0
	}
	r.Class("request/" + cls + "/" + outcome)
	// ---- time × signing-time attribute: everything else conforming, the latest TRC valid ----
	chainTime := "valid"
	if _, ok := c37TimeDevs[p.ChainDev]; ok && p.Certs == "chain" {
		chainTime = p.ChainDev
	}
	stLabel := p.SigningTime
	if stLabel == "inside-chain-validity" {
		switch {
		case strings.HasPrefix(chainTime, "expired"):
			stLabel = "backdated"
		case strings.HasPrefix(chainTime, "not-yet-valid"):
			stLabel = "forward-dated"
		}
	}
	timeOnly := p.Reason == "" || p.Reason == "chain-not-trusted:outside-validity"
	if timeOnly && !tl.NearEdge && !(tl.PredExpiredInCase && why0 == "grace") {
		r.Class(fmt.Sprintf("request/time/chain-%s/signing-time-%s/%s", chainTime, stLabel, outcome))
		st.timeMatrix[fmt.Sprintf("chain-%s/signing-time-%s/%s", chainTime, stLabel, outcome)]++
		if p.Reason != "" && p.SigningTime != "now" {
			r.Event("request_outside_validity_with_chosen_signing_time")
		}
	}
	if r.WantSample() && p.Case%61 == 7 {
		r.Sample(map[string]any{"part": "request", "plan": p, "accepted": accepted})
	}
	switch {
	case accepted && !want:
		key := "C37:accepts/" + keyReason(p.Reason)
		if strings.HasPrefix(p.Reason, "chain-not-trusted") {
			key += "/" + tlKey(tl)
		}
		what := fmt.Sprintf("renewal request accepted although: %s", p.Reason)
		if p.Reason == "chain-not-trusted:outside-validity" && p.SigningTime != "now" && chainTime != "valid" {
			// the chain does not verify at processing time; only the requester-chosen attribute differs from an honest request
			canon := "expired"
			if strings.HasPrefix(chainTime, "not-yet-valid") {
				canon = "not-yet-valid"
			}
			key = "C37:accepts/chain-" + canon + ":signing-time-" + stLabel
			what = fmt.Sprintf("renewal request accepted although the client chain is %s at processing time (AS certificate valid %s .. %s relative to now); "+
				"the CMS signing-time attribute was %s", chainTime, fmtOff(as.NotBefore.Sub(w.TGen)), fmtOff(as.NotAfter.Sub(w.TGen)), p.SigningTime)
		}
		r.Violation(key, what, p)
	case accepted:
		st.validAccepted++
		if got == nil || !bytes.Equal(got.Raw, csr) {
			r.Violation("C37:returns-other-request", "the verifier returned a request different from the signed one", p)
		}
	case want && p.SigningTime != "now":
		// conforming at processing time, but the requester wrote an unusual signing
		// time (or none): the statement does not say such a request must pass
		r.Class("request/observed/conforming-with-signing-time-" + p.SigningTime + "/rejected")
	case want && !(tl.PredExpiredInCase && why0 == "grace"):
		st.validRejected++
		r.Event("premise_valid_request_rejected")
		if st.validRejected <= 3 {
			fmt.Printf("PREMISE c37: valid request rejected: %+v\n", p)
		}
	case want:
		// predecessor TRC expired inside the grace period: statement silent
		r.Class("request/observed/grace-with-expired-predecessor/rejected")
	}
}

// ---- CAPolicy.CreateChain ----

type c37Issue struct {
	Case      int
	CAKey     string
	CSRKey    string
	Subject   string // with-ia | other-isd | none
	Start     string // relation of the signing time to the CA certificate's validity
	Validity  string
	Force512  bool
	WallClock bool
	Feasible  bool
	Err       string
	NotBefore string
	NotAfter  string
}

func sameATVs(a, b []pkixATV) bool {
	if len(a) != len(b) {
		return false
	}
	for i := range a {
		if !a[i].Type.Equal(b[i].Type) || fmt.Sprint(a[i].Value) != fmt.Sprint(b[i].Value) {
			return false
		}
	}
	return true
}

func runC37Issue(r *mon.Run, pool *gen.Pool, rng *rand.Rand, i int, st *c37Stats) {
	dr := pool.Drawer(rng)
	p := c37Issue{Case: i, CAKey: pick(rng, []string{"", "", "P-384", "P-521"}), CSRKey: pick(rng, []string{"", "", "P-384", "P-521"}),
		Subject: pick(rng, []string{"with-ia", "with-ia", "with-ia", "other-isd", "none"}), Force512: rng.IntN(4) == 0,
		WallClock: rng.IntN(5) == 0}
	base := time.Date(2032, 6, 1, 0, 0, 0, 0, time.UTC)
	if p.WallClock {
		base = time.Now().Truncate(time.Second)
	}
	c0, c1 := base.Add(-24*hour), base.Add(72*hour)
	root := gen.NewRoot(dr.Next(""), "issuing root", "1-ff00:0:101", base.Add(-30*24*hour), base.Add(30*24*hour))
	caKey := dr.Next(p.CAKey)
	caT := gen.Template(gen.CA, gen.Name("1-ff00:0:101 CA", "1-ff00:0:101"), c0, c1, caKey.Public())
	ca := gen.MustCreate(caT, caKey.Public(), &root, nil)

	var t time.Time
	var dur time.Duration
	if p.WallClock {
		// CurrentTime zero: the CA uses its own clock. The certificate end is
		// put seconds around now+validity so that both outcomes occur.
		dur = 72*hour + time.Duration(rng.IntN(9)-4)*time.Second
		p.Start, p.Validity = "wall-clock", fmt.Sprintf("ca-end%+ds", int((dur-72*hour)/time.Second))
		p.Feasible = dur <= 72*hour-2*time.Second
	} else {
		starts := map[string]time.Duration{"before-1s": -time.Second, "at-start": 0, "at-start+500ms": 500 * time.Millisecond,
			"inside": 24 * hour, "late": 95 * hour}
		names := []string{"before-1s", "at-start", "at-start+500ms", "inside", "inside", "late"}
		p.Start = pick(rng, names)
		t = c0.Add(starts[p.Start])
		left := c1.Sub(t)
		vals := map[string]time.Duration{"1s": time.Second, "short": hour, "to-end-1s": left - time.Second, "to-end": left,
			"to-end+1ns": left + time.Nanosecond, "to-end+1s": left + time.Second, "longer-than-ca": 200 * hour}
		vnames := []string{"1s", "short", "short", "to-end-1s", "to-end", "to-end+1ns", "to-end+1s", "longer-than-ca"}
		p.Validity = pick(rng, vnames)
		dur = vals[p.Validity]
		p.Feasible = !t.Before(c0) && !t.Add(dur).After(c1) && dur > 0
	}
	var subjIA string
	switch p.Subject {
	case "with-ia":
		subjIA = "1-ff00:0:110"
	case "other-isd":
		subjIA = "2-ff00:0:210"
	}
	if p.Subject == "none" {
		p.Feasible = false
	}
	csrKey := dr.Next(p.CSRKey)
	rawCSR := gen.CSR(gen.Name("requesting AS", subjIA), csrKey)
	csr, err := x509.ParseCertificateRequest(rawCSR)
	if err != nil {
		panic(err)
	}
	pol := cppki.CAPolicy{Validity: dur, Certificate: ca, Signer: caKey, CurrentTime: t, ForceECDSAWithSHA512: p.Force512}
	var chain []*x509.Certificate
	pan, stack := mon.Try(func() { chain, err = pol.CreateChain(csr) })
	r.Eval(1)
	if err != nil {
		p.Err = err.Error()
	}
	if pan != nil {
		r.Violation("C37:panic:"+mon.PanicSite(stack), fmt.Sprintf("CreateChain panicked: %v", pan), p)
		return
	}
	if err != nil || chain == nil {
		r.Event("issue_denied")
		r.Class(fmt.Sprintf("issue/%s/%s/%s/denied", p.Start, p.Validity, p.Subject))
		if p.Feasible {
			st.feasibleDenied++
			r.Event("premise_feasible_issue_denied")
			fmt.Printf("PREMISE c37 issue: feasible issuance denied: %+v\n", p)
		}
		return
	}
	st.chainsIssued++
	r.Event("issue_granted")
	r.Class(fmt.Sprintf("issue/%s/%s/%s/granted", p.Start, p.Validity, p.Subject))
	if len(chain) != 2 {
		r.Violation("C37:issued-chain-shape", fmt.Sprintf("issued chain has %d certificates", len(chain)), p)
		return
	}
	as := chain[0]
	p.NotBefore, p.NotAfter = as.NotBefore.Format(time.RFC3339), as.NotAfter.Format(time.RFC3339)
	if r.WantSample() && i%43 == 11 {
		r.Sample(map[string]any{"part": "issue", "plan": p})
	}
	if !bytes.Equal(chain[1].Raw, ca.Raw) {
		r.Violation("C37:issued-chain-ca", "second certificate is not the CA certificate", p)
	}
	if !samePub(as.PublicKey, csrKey.Public()) {
		r.Violation("C37:issued-key", "issued certificate does not carry the requested key", p)
	}
	csrNames := make([]pkixATV, len(csr.Subject.Names))
	for k, a := range csr.Subject.Names {
		csrNames[k] = pkixATV{Type: a.Type, Value: a.Value}
	}
	if !sameATVs(atvs(as, true), csrNames) {
		r.Violation("C37:issued-subject", fmt.Sprintf("issued subject %v differs from requested %v", as.Subject, csr.Subject), p)
	}
	if defects := refChainStructure(chain); len(defects) > 0 {
		r.Violation("C37:issued-chain-invalid/"+defects[0], fmt.Sprintf("issued chain is not a valid chain: %v", defects), p)
	}
	if e := as.CheckSignatureFrom(chain[1]); e != nil {
		r.Violation("C37:issued-chain-signature", "issued AS certificate is not signed by the CA certificate: "+e.Error(), p)
	}
	if as.NotBefore.Before(ca.NotBefore) || as.NotAfter.After(ca.NotAfter) {
		r.Violation("C37:issued-outlives-ca", fmt.Sprintf("issued validity [%s, %s] not within the CA certificate's [%s, %s]",
			p.NotBefore, p.NotAfter, ca.NotBefore.Format(time.RFC3339), ca.NotAfter.Format(time.RFC3339)), p)
	}
	if !p.WallClock && as.NotAfter.After(t.Add(dur)) {
		r.Violation("C37:issued-longer-than-policy", "issued certificate outlives signing time + policy validity", p)
	}
}

func checkC37(r *mon.Run) {
	r.Rule = "renewal request plan = TRC timeline × client chain (issuing root, mis-issued variants, validity window expired 8 s / 1 h / 2 d ago or " +
		"starting in 8 s / 1 h relative to the processing time) × requester-chosen CMS signing-time attribute (now, absent, inside the chain's own " +
		"validity = backdated / forward-dated, long ago, 3 s / 1 h in the future; window × attribute enumerated in every 7th plan) × certificate set in the CMS × " +
		"SignerInfos (0, 1, 2; AS key / CA certificate / foreign key / unrelated certificate) × signature (ok, corrupted, covering other " +
		"content) × payload × CSR subject (same, other AS, other ISD, none) × CSR self-signature; expectation from the plan, compared with " +
		"RequestVerifier.VerifyCMSSignedRenewalRequest on a real sqlite trust DB at both bracket instants. Issuance: CAPolicy.CreateChain over " +
		"signing time × validity relative to the CA certificate (exact ends, ±1 s, ±1 ns, wall clock) × key curves × subject; every issued " +
		"chain is checked for requested key and subject, chain validity (independent profile checker + signature) and containment in the CA " +
		"certificate's validity. Histories: one long-lived RequestVerifier per history whose TRCFetcher is the sqlite trust DB behind a seam that, " +
		"per lookup, answers or fails (context.DeadlineExceeded, wrapped deadline, context.Canceled, net.Error-like with Timeout() / Temporary(), plain error); " +
		"3-5 conforming requests per phase while the ISD's store advances base only -> update replacing root 0 in its grace period -> grace period over " +
		"(or directly base -> grace over), chains under the old / new / kept / a rogue root, valid or expired; the first lookup after the grace period is over " +
		"is failed for an old-root chain, fault kind cycling. class = first unmet condition × outcome; issuance start × validity × subject × outcome; " +
		"fault kind × phase × chain root × outcome"
	r.Assumptions = []string{
		"whether the client chain verifies is decided at processing time (the bracket instants around the call); the signing-time attribute is requester-controlled and never makes a request acceptable",
		"the statement is an 'only if': rejecting a conforming request is not judged, but the run is reported broken unless every conforming request was accepted and every feasible issuance granted",
		"a chain verifying only against a predecessor TRC that has itself expired inside the grace period is observed, not judged",
		"histories: the TRCs that count are those that are the latest / its predecessor in the store at processing time (world model), whatever earlier lookups returned; " +
			"a request whose TRC lookup failed may be refused (unjudged) but must not be accepted with a chain those TRCs do not admit",
	}
	pool := gen.NewPool(64, 6, 6)
	st := &c37Stats{timeMatrix: map[string]int{}}
	rng := r.Rand("c37")
	n := r.Pick(1000, 15000)
	for i := 0; i < n; i++ {
		tl := timelines[i%len(timelines)]
		if r.Thorough() && i%3 == 2 {
			tl = edgeTimeline(rng)
		}
		runC37Request(r, pool, rng, genC37Plan(rng, i, tl), tl, st)
	}
	rngI := r.Rand("c37-issue")
	ni := r.Pick(1500, 30000)
	for i := 0; i < ni; i++ {
		runC37Issue(r, pool, rngI, i, st)
	}
	// histories on one long-lived verifier with faults at the TRC-fetcher seam (c37hist.go)
	hs := &c37HistStats{}
	rngH := r.Rand("c37-history")
	nh := r.Pick(72, 1200)
	for h := 0; h < nh; h++ {
		runC37History(r, pool, rngH, h, hs)
	}
	st.validRejected += hs.conformingRefusedWithoutFault
	st.validAccepted += hs.accepted
	r.Extra("history_requests", map[string]int{"histories": nh, "requests": hs.requests, "with_failed_trc_lookup": hs.faultyRequests,
		"accepted": hs.accepted, "refused": hs.refused, "conforming_refused_without_fault": hs.conformingRefusedWithoutFault})
	r.Extra("chain_window_x_signing_time_cases", st.timeMatrix)
	r.Extra("valid_requests_accepted", st.validAccepted)
	r.Extra("valid_requests_rejected", st.validRejected)
	r.Extra("chains_issued", st.chainsIssued)
	r.Extra("feasible_issuances_denied", st.feasibleDenied)
	if st.validRejected == 0 && st.feasibleDenied == 0 && st.validAccepted > 0 && st.chainsIssued > 0 {
		r.Class("premise/conforming-requests-accepted-and-feasible-issuances-granted")
	}
	r.RequireClasses("premise/conforming-requests-accepted-and-feasible-issuances-granted",
		"request/time/chain-valid/signing-time-now/accepted",
		"request/time/chain-expired/signing-time-now/rejected", "request/time/chain-expired/signing-time-absent/rejected",
		"request/time/chain-expired/signing-time-backdated/rejected", "request/time/chain-expired-8s/signing-time-backdated/rejected",
		"request/time/chain-expired-long/signing-time-backdated/rejected", "request/time/chain-expired/signing-time-future-3s/rejected",
		"request/time/chain-expired/signing-time-future-1h/rejected", "request/time/chain-expired/signing-time-long-ago/rejected",
		"request/time/chain-not-yet-valid/signing-time-now/rejected", "request/time/chain-not-yet-valid/signing-time-forward-dated/rejected",
		"request/time/chain-not-yet-valid-8s/signing-time-forward-dated/rejected", "request/time/chain-not-yet-valid/signing-time-absent/rejected")
	// the history part must have exercised: undisturbed requests in every phase with both outcomes, and an
	// old-root chain after the grace period whose latest-TRC lookup failed in each of the ways
	r.RequireClasses("history/no-fault/base-only/old-root-chain/accepted", "history/no-fault/base-only/new-root-chain/refused",
		"history/no-fault/in-grace/old-root-chain/accepted", "history/no-fault/in-grace/new-root-chain/accepted",
		"history/no-fault/grace-over/new-root-chain/accepted", "history/no-fault/grace-over/old-root-chain/refused",
		"fetcher-fault/deadline-exceeded/grace-over/old-root-chain/refused", "fetcher-fault/net-timeout/grace-over/old-root-chain/refused",
		"fetcher-fault/net-temporary/grace-over/old-root-chain/refused", "fetcher-fault/wrapped-deadline/grace-over/old-root-chain/refused",
		"fetcher-fault/canceled/grace-over/old-root-chain/refused", "fetcher-fault/plain-error/grace-over/old-root-chain/refused")
	r.Require(int64((n+ni)/2), 50, "request_accepted", "request_rejected", "issue_granted", "issue_denied",
		"request_outside_validity_with_chosen_signing_time",
		"history_request_accepted", "history_request_refused", "history_trc_update_inserted", "fetcher_fault_injected",
		"fetcher_fault_after_trc_update", "fetcher_fault_deadline-exceeded", "fetcher_fault_net-timeout", "fetcher_fault_net-temporary",
		"fetcher_fault_canceled", "fetcher_fault_plain-error")
}
