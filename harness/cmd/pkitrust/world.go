package main

import (
	"context"
	"crypto/x509"
	"fmt"
	"math/rand/v2"
	"os"
	"sync/atomic"
	"time"

	"github.com/scionproto/scion/pkg/addr"
	"github.com/scionproto/scion/pkg/scrypto/cppki"
	"github.com/scionproto/scion/private/storage/db"
	truststorage "github.com/scionproto/scion/private/storage/trust"
	"github.com/scionproto/scion/private/storage/trust/sqlite"

	gen "verif/pkitrustgen"
)

var dbCtr atomic.Int64

// newTrustDB opens a fresh, private in-memory instance of the raw sqlite
// trust back-end (no background cleaner).
func newTrustDB() sqlite.DB {
	name := fmt.Sprintf("pkitrust_%d_%d", os.Getpid(), dbCtr.Add(1))
	d, err := sqlite.New(name, &db.SqliteConfig{InMemory: true, MaxOpenReadConns: 2})
	if err != nil {
		panic("pkitrust: opening trust db: " + err.Error())
	}
	return d
}

func allTRCs(d sqlite.DB) cppki.SignedTRCs {
	trcs, err := d.SignedTRCs(context.Background(), truststorage.TRCsQuery{})
	if err != nil {
		panic("pkitrust: reading TRCs: " + err.Error())
	}
	return trcs
}

const hour = time.Hour

// timeline is the plan of an ISD's TRC history relative to the generation
// instant: a base TRC and optionally one update that replaces root 0 and
// keeps root 1.
type timeline struct {
	Name              string
	BaseNB, BaseNA    time.Duration
	Update            bool
	UpdNB, UpdNA      time.Duration
	Grace             time.Duration
	PredMissing       bool // predecessor not inserted in the DB
	NearEdge          bool // some boundary is within seconds of the call (thorough tier)
	PredExpiredInCase bool // predecessor expires before the call although the grace period still runs
}

// The quick-tier timelines keep every boundary at least 30 minutes away from
// the call.
var timelines = []timeline{
	{Name: "base-valid", BaseNB: -10 * hour, BaseNA: 10 * hour},
	{Name: "base-expired", BaseNB: -10 * hour, BaseNA: -2 * hour},
	{Name: "base-not-yet-valid", BaseNB: 2 * hour, BaseNA: 10 * hour},
	{Name: "update-in-grace", BaseNB: -10 * hour, BaseNA: 10 * hour, Update: true, UpdNB: -1 * hour, UpdNA: 12 * hour, Grace: 3 * hour},
	{Name: "update-grace-over", BaseNB: -10 * hour, BaseNA: 10 * hour, Update: true, UpdNB: -3 * hour, UpdNA: 12 * hour, Grace: 1 * hour},
	{Name: "update-grace-zero", BaseNB: -10 * hour, BaseNA: 10 * hour, Update: true, UpdNB: -1 * hour, UpdNA: 12 * hour, Grace: 0},
	{Name: "update-not-yet-valid", BaseNB: -10 * hour, BaseNA: 10 * hour, Update: true, UpdNB: 2 * hour, UpdNA: 12 * hour, Grace: 3 * hour},
	{Name: "update-expired", BaseNB: -10 * hour, BaseNA: 10 * hour, Update: true, UpdNB: -5 * hour, UpdNA: -2 * hour, Grace: 8 * hour},
	{Name: "update-in-grace-pred-missing", BaseNB: -10 * hour, BaseNA: 10 * hour, Update: true, UpdNB: -1 * hour, UpdNA: 12 * hour, Grace: 3 * hour, PredMissing: true},
	{Name: "update-in-grace-pred-expired", BaseNB: -10 * hour, BaseNA: -hour / 2, Update: true, UpdNB: -1 * hour, UpdNA: 12 * hour, Grace: 3 * hour, PredExpiredInCase: true},
}

// edgeTimelines put the grace-period end or a validity bound within seconds
// of the call; the bracket rule discards the straddlers.
func edgeTimeline(rng *rand.Rand) timeline {
	off := time.Duration(rng.IntN(7)-3) * time.Second // -3s..+3s
	switch rng.IntN(4) {
	case 0: // grace ends at now+off
		return timeline{Name: "edge-grace-end", BaseNB: -10 * hour, BaseNA: 10 * hour, Update: true,
			UpdNB: -hour, UpdNA: 12 * hour, Grace: hour + off, NearEdge: true}
	case 1: // latest becomes valid at now+off
		return timeline{Name: "edge-latest-start", BaseNB: -10 * hour, BaseNA: 10 * hour, Update: true,
			UpdNB: off, UpdNA: 12 * hour, Grace: hour, NearEdge: true}
	case 2: // latest expires at now+off
		return timeline{Name: "edge-latest-end", BaseNB: -10 * hour, BaseNA: 10 * hour, Update: true,
			UpdNB: -3 * hour, UpdNA: off, Grace: hour, NearEdge: true}
	}
	return timeline{Name: "edge-base-end", BaseNB: -10 * hour, BaseNA: off, NearEdge: true}
}

// isdWorld is a concrete ISD built for one case.
type isdWorld struct {
	TL      timeline
	TGen    time.Time
	ISD     *gen.ISD
	Base    gen.TRC
	Upd     gen.TRC // valid iff TL.Update
	OldRoot gen.Ent // root 0 of the base TRC
	NewRoot gen.Ent // its replacement in the update (zero if none)
	Kept    gen.Ent // root 1, in both
	Rogue   gen.Ent // a root in no TRC
	Model   tlModel
	certNB  time.Time
	certNA  time.Time
}

// buildWorld creates the ISD entities and TRCs of tl around tgen (truncated to
// a second, the resolution of every encoded instant).
func buildWorld(dr *gen.Drawer, isd int, tl timeline, tgen time.Time) *isdWorld {
	tgen = tgen.Truncate(time.Second)
	keys := dr.Take(8)
	w := &isdWorld{TL: tl, TGen: tgen, certNB: tgen.Add(-20 * 24 * hour), certNA: tgen.Add(20 * 24 * hour)}
	w.ISD = gen.NewISD(keys[:6], isd, 2, 2, 2, 2, w.certNB, w.certNA)
	w.OldRoot, w.Kept = w.ISD.Roots[0], w.ISD.Roots[1]
	w.Rogue = gen.NewRoot(keys[6], fmt.Sprintf("isd%d rogue root", isd), w.ISD.IAOf(9), w.certNB, w.certNA)
	w.Base = w.ISD.BaseTRC(1, tgen.Add(tl.BaseNB), tgen.Add(tl.BaseNA))
	w.Model = tlModel{HasLatest: true, Latest: trcWin{NB: tgen.Add(tl.BaseNB), NA: tgen.Add(tl.BaseNA)}}
	if tl.Update {
		w.Upd = w.ISD.Update(w.Base, gen.RegularUpdate, tgen.Add(tl.UpdNB), tgen.Add(tl.UpdNA), tl.Grace,
			map[int]gen.Key{0: keys[7]})
		w.NewRoot = w.Upd.Roots[0]
		w.Model = tlModel{HasLatest: true, IsUpdate: true, PredInDB: !tl.PredMissing,
			Latest: trcWin{NB: tgen.Add(tl.UpdNB), NA: tgen.Add(tl.UpdNA), Grace: tl.Grace},
			Pred:   trcWin{NB: tgen.Add(tl.BaseNB), NA: tgen.Add(tl.BaseNA)}}
	}
	return w
}

// insertTRCs stores the timeline's TRCs directly (no verification: these
// checks are about what is done with an existing store).
func (w *isdWorld) insertTRCs(d sqlite.DB) {
	ctx := context.Background()
	if !(w.TL.Update && w.TL.PredMissing) {
		if _, err := d.InsertTRC(ctx, w.Base.Signed); err != nil {
			panic("pkitrust: insert base TRC: " + err.Error())
		}
	}
	if w.TL.Update {
		if _, err := d.InsertTRC(ctx, w.Upd.Signed); err != nil {
			panic("pkitrust: insert update TRC: " + err.Error())
		}
	}
}

func (w *isdWorld) root(label string) gen.Ent {
	switch label {
	case "old":
		return w.OldRoot
	case "new":
		if !w.TL.Update {
			panic("pkitrust: no new root without update")
		}
		return w.NewRoot
	case "kept":
		return w.Kept
	case "rogue":
		return w.Rogue
	}
	panic("pkitrust: unknown root " + label)
}

// chainSpec is the plan of a chain placed in a timeline world.
type chainSpec struct {
	Root       string        // old | new | kept | rogue
	Dev        string        // "", an AS/CA deviation name, "twin-issuer", "as-outlives-ca"
	NBOff      time.Duration // AS validity relative to tgen
	NAOff      time.Duration
	IA         string
	CAValidOff [2]time.Duration // CA validity relative to tgen; zero → 15 days around
}

// issue builds the chain for key and returns it with the facts the model needs.
func (w *isdWorld) issue(dr *gen.Drawer, cs chainSpec, asKey gen.Key) ([]*x509.Certificate, chainFacts) {
	caKey := dr.Next("")
	twin := caKey
	if cs.Dev == "twin-issuer" {
		twin = dr.Next("")
	}
	caNB, caNA := w.TGen.Add(-15*24*hour), w.TGen.Add(15*24*hour)
	if cs.CAValidOff != [2]time.Duration{} {
		caNB, caNA = w.TGen.Add(cs.CAValidOff[0]), w.TGen.Add(cs.CAValidOff[1])
	}
	plan := gen.ChainPlan{
		IA: cs.IA, CAIA: w.ISD.IAOf(1), Issuer: "ca",
		CANotBefore: caNB, CANotAfter: caNA,
		ASNotBefore: w.TGen.Add(cs.NBOff), ASNotAfter: w.TGen.Add(cs.NAOff),
	}
	wf := true
	switch {
	case cs.Dev == "":
	case cs.Dev == "twin-issuer":
		plan.Issuer, wf = "twin", false
	case cs.Dev == "as-outlives-ca":
		plan.CANotAfter, wf = plan.ASNotAfter.Add(-time.Second), false
	case gen.FindDeviation(gen.ASDeviations, cs.Dev) != nil:
		plan.ASDev, wf = cs.Dev, false
	case gen.FindDeviation(gen.CADeviations, cs.Dev) != nil:
		plan.CADev, wf = cs.Dev, false
	default:
		panic("pkitrust: unknown chain deviation " + cs.Dev)
	}
	root := w.root(cs.Root)
	chain := gen.IssueChain(plan, root, caKey, asKey, twin)
	f := chainFacts{
		Kind:       cs.Root + "/" + devLabel(cs.Dev),
		WellFormed: wf,
		Root:       cs.Root,
		NB:         maxTime(plan.ASNotBefore, plan.CANotBefore, root.Cert.NotBefore),
		NA:         minTime(plan.ASNotAfter, plan.CANotAfter, root.Cert.NotAfter),
	}
	return chain, f
}

func devLabel(d string) string {
	if d == "" {
		return "well-formed"
	}
	return d
}

func maxTime(ts ...time.Time) time.Time {
	m := ts[0]
	for _, t := range ts[1:] {
		if t.After(m) {
			m = t
		}
	}
	return m
}

func minTime(ts ...time.Time) time.Time {
	m := ts[0]
	for _, t := range ts[1:] {
		if t.Before(m) {
			m = t
		}
	}
	return m
}

func mustIA(s string) addr.IA {
	ia, err := addr.ParseIA(s)
	if err != nil {
		panic(err)
	}
	return ia
}

func rawKey(c []*x509.Certificate) string {
	if len(c) == 0 {
		return ""
	}
	s := ""
	for _, x := range c {
		s += string(x.Raw) + "|"
	}
	return s
}
