package main

import (
	"context"
	"crypto/x509"
	"encoding/pem"
	"fmt"
	"math/rand/v2"
	"net"
	"os"
	"path/filepath"
	"slices"
	"sort"
	"strings"
	"time"
	"verif/monlog"

	"github.com/scionproto/scion/pkg/addr"
	"github.com/scionproto/scion/pkg/scrypto"
	"github.com/scionproto/scion/pkg/scrypto/cppki"
	"github.com/scionproto/scion/private/storage/trust/sqlite"
	"github.com/scionproto/scion/private/trust"

	"verif/mon"
	gen "verif/pkitrustgen"
)

// c35World is one ISD with a genuine succession S1..SN (base 1) and, per
// serial, every broken variant; plus a second ISD with the same numbering.
type c35World struct {
	N        int
	isd      *gen.ISD
	genuine  []gen.TRC // index = serial (0 unused)
	other    []gen.TRC // ISD 2, same serials
	foreign  gen.Key
	brokenMu map[string]cppki.SignedTRC
}

const c35ISD = 1

func buildC35World(pool *gen.Pool, rng *rand.Rand, n int) *c35World {
	now := time.Now().Truncate(time.Second)
	dr := pool.Drawer(rng)
	w := &c35World{N: n, brokenMu: map[string]cppki.SignedTRC{}, foreign: dr.Next("")}
	mk := func(id int) (*gen.ISD, []gen.TRC) {
		isd := gen.NewISD(dr.Take(8), id, 3, 3, 2, 2, now.Add(-30*24*hour), now.Add(30*24*hour))
		out := make([]gen.TRC, n+1)
		out[1] = isd.BaseTRC(1, now.Add(-20*hour), now.Add(20*hour))
		for s := 2; s <= n; s++ {
			kind := gen.RegularUpdate
			rot := map[int]gen.Key{}
			switch s % 4 {
			case 3: // regular update replacing root 0 (acknowledged by the old root)
				rot[0] = dr.Next("")
			case 0: // sensitive update replacing root 1
				kind = gen.SensitiveUpdate
				rot[1] = dr.Next("")
			}
			out[s] = isd.Update(out[s-1], kind, now.Add(time.Duration(-20+s)*hour), now.Add(20*hour), 30*time.Minute, rot)
		}
		return isd, out
	}
	w.isd, w.genuine = mk(c35ISD)
	_, w.other = mk(2)
	return w
}

// c35Faults are the ways the scripted remote can fail to deliver the verified
// successor for a requested serial.
var c35Faults = append(append([]string{}, gen.BrokenKinds...), "other-isd", "stale", "ahead", "fetch-error", c35WriteFault)

// c35WriteFault is the fault kind of the storage seam: the remote delivers the
// genuine successor, it verifies, and the DB write (InsertTRC) of exactly that
// serial fails.
const c35WriteFault = "db-write-error"

// c35DBModes are call-level storage faults (in addition to the per-serial
// c35WriteFault of a script): the first write of the call fails and later ones
// work, every write of the call fails, every read of the call fails.
var c35DBModes = []string{"write-once", "write-always", "read-error"}

// serve returns what the scripted remote answers for serial s under fault
// kind ("" = the genuine TRC).
func (w *c35World) serve(kind string, s int) (cppki.SignedTRC, error) {
	if s < 1 || s > w.N {
		return cppki.SignedTRC{}, fmt.Errorf("remote: no TRC with serial %d", s)
	}
	switch kind {
	case "", c35WriteFault:
		return w.genuine[s].Signed, nil
	case "fetch-error":
		return cppki.SignedTRC{}, fmt.Errorf("remote: scripted fetch failure")
	case "other-isd":
		return w.other[s].Signed, nil
	case "stale":
		return w.genuine[s-1].Signed, nil
	case "ahead":
		if s+1 > w.N {
			return cppki.SignedTRC{}, fmt.Errorf("remote: nothing ahead of %d", s)
		}
		return w.genuine[s+1].Signed, nil
	}
	k := fmt.Sprintf("%s/%d", kind, s)
	if t, ok := w.brokenMu[k]; ok {
		return t, nil
	}
	t := w.isd.Broken(kind, w.genuine[s-1], w.genuine[s], w.foreign)
	w.brokenMu[k] = t
	return t, nil
}

type c35Fetch struct {
	ID   string
	Kind string
}

// c35Fetcher is the scripted remote. It serves by serial number and ignores
// the requested base (a lenient remote): a notification carrying a foreign
// base number must be stopped by the trust engine, not by the remote.
type c35Fetcher struct {
	w      *c35World
	script map[int]string
	log    []c35Fetch
}

func (f *c35Fetcher) Chains(context.Context, trust.ChainQuery, net.Addr) ([][]*x509.Certificate, error) {
	return nil, fmt.Errorf("not scripted")
}

func (f *c35Fetcher) TRC(_ context.Context, id cppki.TRCID, _ net.Addr) (cppki.SignedTRC, error) {
	kind := f.script[int(id.Serial)]
	f.log = append(f.log, c35Fetch{ID: id.String(), Kind: kind})
	if int(id.ISD) != c35ISD {
		return cppki.SignedTRC{}, fmt.Errorf("remote: unknown ISD")
	}
	return f.w.serve(kind, int(id.Serial))
}

// c35DB logs the insertion order on top of the real sqlite back-end and is the
// storage seam at which faults are injected: writes of scripted serials, the
// first write, every write or every read of a call fail. A failing write never
// reaches the back-end. Two flavours: a synthetic error, or the real error of
// the sqlite back-end for a context that expired inside the call (the write is
// passed down with a cancelled context).
type c35DB struct {
	sqlite.DB
	inserts []string

	failSerial map[int]bool
	mode       string // "", or one of c35DBModes
	viaCtx     bool   // flavour
	writes     []string
	nWriteErr  int
	nReadErr   int
}

func (d *c35DB) arm(script map[int]string, mode string, viaCtx bool) {
	d.inserts, d.writes, d.nWriteErr, d.nReadErr = nil, nil, 0, 0
	d.failSerial, d.mode, d.viaCtx = map[int]bool{}, mode, viaCtx
	for ser, k := range script {
		if k == c35WriteFault {
			d.failSerial[ser] = true
		}
	}
}

func (d *c35DB) fail(ctx context.Context, t cppki.SignedTRC) (bool, error) {
	d.nWriteErr++
	d.writes = append(d.writes, t.TRC.ID.String()+":failed")
	if !d.viaCtx {
		return false, fmt.Errorf("storage: scripted write failure (database is locked)")
	}
	cctx, cancel := context.WithCancel(ctx)
	cancel()
	ok, err := d.DB.InsertTRC(cctx, t)
	if err == nil {
		panic(fmt.Sprintf("pkitrust: c35: sqlite InsertTRC with a cancelled context did not fail (inserted=%v)", ok))
	}
	return false, err
}

func (d *c35DB) InsertTRC(ctx context.Context, t cppki.SignedTRC) (bool, error) {
	first := len(d.writes) == 0
	switch {
	case d.failSerial[int(t.TRC.ID.Serial)], d.mode == "write-always", d.mode == "write-once" && first:
		return d.fail(ctx, t)
	}
	ok, err := d.DB.InsertTRC(ctx, t)
	d.writes = append(d.writes, fmt.Sprintf("%s:%v", t.TRC.ID, err == nil))
	if err == nil && ok {
		d.inserts = append(d.inserts, t.TRC.ID.String())
	}
	return ok, err
}

func (d *c35DB) SignedTRC(ctx context.Context, id cppki.TRCID) (cppki.SignedTRC, error) {
	if d.mode == "read-error" {
		d.nReadErr++
		if !d.viaCtx {
			return cppki.SignedTRC{}, fmt.Errorf("storage: scripted read failure (disk I/O error)")
		}
		cctx, cancel := context.WithCancel(ctx)
		cancel()
		t, err := d.DB.SignedTRC(cctx, id)
		if err == nil {
			panic("pkitrust: c35: sqlite SignedTRC with a cancelled context did not fail")
		}
		return t, err
	}
	return d.DB.SignedTRC(ctx, id)
}

type c35Step struct {
	Notify   string
	Kind     string
	Script   map[int]string `json:",omitempty"`
	DBFault  string         `json:",omitempty"` // call-level storage fault
	DBWrites []string       `json:",omitempty"` // InsertTRC calls reaching the storage seam, with outcome
	Fetched  []c35Fetch     `json:",omitempty"`
	Inserted []string       `json:",omitempty"`
	Err      string         `json:",omitempty"`
	Stored   []string
	Expected []string
}

type c35Hist struct {
	Phase   string
	Case    int
	Initial []int
	Steps   []c35Step
}

// c35Session runs notifications against one DB and compares the DB with the
// model after every call.
type c35Session struct {
	r      *mon.Run
	w      *c35World
	db     *c35DB
	f      *c35Fetcher
	prov   trust.FetchingProvider
	model  map[int]bool // stored serials of base 1 in ISD 1
	latest int
	hist   *c35Hist
	dead   bool
	// storage fault of the next notify call (consumed by it)
	dbMode   string
	dbViaCtx bool
	// the previous notify call was stopped by a storage fault
	lastStorageFault bool
}

func newC35Session(r *mon.Run, w *c35World, initial []int, hist *c35Hist) *c35Session {
	s := &c35Session{r: r, w: w, model: map[int]bool{}, hist: hist}
	s.db = &c35DB{DB: newTrustDB()}
	s.f = &c35Fetcher{w: w}
	// The store is filled the way LoadTRCs fills it from a directory: in no
	// particular serial order (odd cases: descending).
	order := append([]int{}, initial...)
	if hist.Case%2 == 1 {
		slices.Reverse(order)
	}
	for _, ser := range order {
		if _, err := s.db.DB.InsertTRC(context.Background(), w.genuine[ser].Signed); err != nil {
			panic("pkitrust: c35 initial insert: " + err.Error())
		}
		s.model[ser] = true
		if ser > s.latest {
			s.latest = ser
		}
	}
	s.checkLatest("initial-fill")
	s.prov = trust.FetchingProvider{DB: s.db, Recurser: trust.LocalOnlyRecurser{}, Fetcher: s.f,
		Router: trust.LocalRouter{IA: addr.MustIAFrom(c35ISD, 0xff00_0000_0101)}}
	return s
}

func (s *c35Session) close() { s.db.DB.Close() }

// checkLatest: the latest stored TRC is the one with the highest serial the
// model holds, whatever the order of insertion was.
func (s *c35Session) checkLatest(when string) {
	lt, lerr := s.db.DB.SignedTRC(context.Background(),
		cppki.TRCID{ISD: c35ISD, Base: scrypto.LatestVer, Serial: scrypto.LatestVer})
	s.r.Eval(1)
	s.r.Event("latest_checked")
	if lerr != nil || int(lt.TRC.ID.Serial) != s.latest || lt.TRC.ID.Base != 1 {
		s.viol("C35:latest-regressed/"+when, fmt.Sprintf("latest is %v (err %v), highest stored serial is S%d", lt.TRC.ID, lerr, s.latest))
	}
}

// lateInsert stores a genuine older TRC that the store lacks (trust material
// loaded from disk after newer TRCs were fetched); the latest TRC must not move.
func (s *c35Session) lateInsert(ser int) {
	if s.dead || s.model[ser] || ser >= s.latest {
		return
	}
	if _, err := s.db.DB.InsertTRC(context.Background(), s.w.genuine[ser].Signed); err != nil {
		panic("pkitrust: c35 late insert: " + err.Error())
	}
	s.model[ser] = true
	s.hist.Steps = append(s.hist.Steps, c35Step{Notify: fmt.Sprintf("(direct insert of S%d)", ser), Kind: "late-insert"})
	s.r.Class(s.hist.Phase + "/late-insert")
	s.checkLatest("late-insert")
}

// viol reports a violation and ends the session: after a divergence the model
// and the store no longer correspond and later steps would only echo it.
func (s *c35Session) viol(key, what string) {
	s.dead = true
	s.r.Violation(key, what, s.hist)
}

func orNone(s string) string {
	if s == "" {
		return "no-fault"
	}
	return s
}

func sortedKeys(m map[int]bool) []int {
	var out []int
	for k := range m {
		out = append(out, k)
	}
	sort.Ints(out)
	return out
}

// notify performs one NotifyTRC and judges the resulting store. faultKey is
// the label used in violation keys. Returns the first fault position hit (0 if none).
func (s *c35Session) notify(id cppki.TRCID, kind string, script map[int]string) {
	if s.dead {
		return
	}
	ctx := monlog.Alternate() // log level is a configuration dimension
	s.f.script, s.f.log = script, nil
	dbMode, viaCtx := s.dbMode, s.dbViaCtx
	s.dbMode, s.dbViaCtx = "", false
	s.db.arm(script, dbMode, viaCtx)
	defer s.db.arm(nil, "", false)
	prevLatest := s.latest

	// ---- model ----
	// A TRC counts as stored only if it was delivered, verifies AND its write
	// succeeded; the first serial for which one of these fails ends the update.
	firstFault, faultKind := 0, ""
	if int(id.ISD) == c35ISD && int(id.Base) == 1 && int(id.Serial) > s.latest {
		for ser := s.latest + 1; ser <= int(id.Serial); ser++ {
			k := script[ser]
			if (k == "" || k == c35WriteFault) && ser > s.w.N {
				k = "unavailable"
			}
			switch {
			case dbMode == "read-error":
				// the engine cannot even learn its latest TRC
				k = "db-read-error"
			case k == "" && (dbMode == "write-once" || dbMode == "write-always"):
				k = c35WriteFault
			}
			if k != "" {
				firstFault, faultKind = ser, k
				break
			}
			s.model[ser] = true
			s.latest = ser
		}
	}

	var err error
	pan, stack := mon.Try(func() { err = s.prov.NotifyTRC(ctx, id) })
	step := c35Step{Notify: id.String(), Kind: kind, Script: script, DBFault: dbMode, DBWrites: s.db.writes,
		Fetched: s.f.log, Inserted: s.db.inserts}
	if viaCtx && step.DBFault != "" {
		step.DBFault += "(expired-context)"
	}
	nWriteErr, nReadErr := s.db.nWriteErr, s.db.nReadErr
	if err != nil {
		step.Err = err.Error()
		if _, seen := c35FaultErrors[faultKind]; !seen && firstFault > 0 {
			c35FaultErrors[faultKind] = err.Error()
		}
	}
	s.r.Eval(1)
	if pan != nil {
		s.hist.Steps = append(s.hist.Steps, step)
		s.viol("C35:panic:"+mon.PanicSite(stack), fmt.Sprintf("NotifyTRC panicked: %v", pan))
		return
	}

	// ---- observe the store ----
	stored := map[int]bool{}
	for _, t := range allTRCs(s.db.DB) {
		step.Stored = append(step.Stored, t.TRC.ID.String())
		if int(t.TRC.ID.ISD) != c35ISD {
			s.viol("C35:other-isd-stored", "a TRC of another ISD was stored: "+t.TRC.ID.String())
			continue
		}
		if t.TRC.ID.Base != 1 {
			s.hist.Steps = append(s.hist.Steps, step)
			s.viol("C35:other-base-stored/"+orNone(faultKind), "a TRC with another base number was accepted: "+t.TRC.ID.String())
			return
		}
		ser := int(t.TRC.ID.Serial)
		stored[ser] = true
		if ser <= s.w.N && string(t.TRC.Raw) != string(s.w.genuine[ser].Signed.TRC.Raw) {
			s.hist.Steps = append(s.hist.Steps, step)
			s.viol("C35:stored-unverified/"+orNone(faultKind), fmt.Sprintf("stored TRC %s is not the verified successor", t.TRC.ID))
			return
		}
	}
	for _, k := range sortedKeys(s.model) {
		step.Expected = append(step.Expected, fmt.Sprintf("S%d", k))
	}
	s.hist.Steps = append(s.hist.Steps, step)
	outcome := "unchanged"
	if s.latest > prevLatest {
		outcome = fmt.Sprintf("advanced+%d", s.latest-prevLatest)
	}
	cls := fmt.Sprintf("%s/%s", kind, outcome)
	if firstFault > 0 {
		cls += fmt.Sprintf("/stopped-by=%s@+%d", faultKind, firstFault-prevLatest)
	}
	s.r.Class(s.hist.Phase + "/" + cls)
	s.r.Event("notify_" + strings.SplitN(outcome, "+", 2)[0])
	// ---- storage-seam dimension: what was injected, where ----
	s.r.EventN("db_write_fault_injected", int64(nWriteErr))
	s.r.EventN("db_read_fault_injected", int64(nReadErr))
	prevStorageFault := s.lastStorageFault
	s.lastStorageFault = false
	if firstFault > 0 && (faultKind == c35WriteFault || faultKind == "db-read-error") && nWriteErr+nReadErr > 0 {
		s.lastStorageFault = true
		what := dbMode
		if what == "" {
			what = "write-serial"
		}
		where := "last-step"
		if firstFault < int(id.Serial) {
			where = "intermediate-step"
			if nx := firstFault + 1; script[nx] == "" && nx <= s.w.N && dbMode != "write-always" && dbMode != "read-error" {
				where += "/next-write-would-succeed"
			}
		}
		flavour := "synthetic-error"
		if viaCtx {
			flavour = "expired-context"
		}
		s.r.Class(fmt.Sprintf("store-fault/%s/%s", what, where))
		s.r.Class(fmt.Sprintf("store-fault/%s/%s", what, flavour))
		s.r.Event("store_fault_stopped_update")
	}

	otherBase := int(id.Base) != 1
	for _, ser := range sortedKeys(stored) {
		if s.model[ser] {
			continue
		}
		switch {
		case otherBase:
			s.viol("C35:advanced-on-other-base", fmt.Sprintf("notification %s (stored base 1) made the store accept S%d", id, ser))
		case firstFault > 0 && ser == firstFault:
			s.viol("C35:stored-unverified/"+faultKind, fmt.Sprintf("S%d was stored although the remote delivered %q for it", ser, faultKind))
		case firstFault > 0 && ser > firstFault:
			s.viol("C35:continued-after-failure/"+faultKind, fmt.Sprintf("S%d was stored although the update had to stop at S%d, which could not be fetched, verified or stored (%s)", ser, firstFault, faultKind))
		default:
			s.viol("C35:unexpected-trc-stored", fmt.Sprintf("S%d stored without a reason", ser))
		}
		return
	}
	for _, ser := range sortedKeys(s.model) {
		if !stored[ser] {
			s.viol("C35:missing-update", fmt.Sprintf("S%d should have been stored (gap-free succession up to the first failure) but is absent", ser))
			return
		}
	}
	// strictly in order: insertions are prevLatest+1, +2, ...
	for i, ins := range s.db.inserts {
		want := cppki.TRCID{ISD: c35ISD, Base: 1, Serial: scrypto.Version(prevLatest + 1 + i)}.String()
		if ins != want {
			s.viol("C35:insert-order", fmt.Sprintf("insertion %d was %s, expected %s", i, ins, want))
			return
		}
	}
	// stops at the first failure: nothing is requested after the failing serial
	if firstFault > 0 {
		for _, fe := range s.f.log {
			tid, perr := cppki.TRCIDFromString(fe.ID)
			if perr == nil && int(tid.Serial) > firstFault {
				s.viol("C35:fetch-after-failure/"+faultKind, fmt.Sprintf("%s requested after S%d failed", fe.ID, firstFault))
				return
			}
		}
	}
	// latest never regresses
	lt, lerr := s.db.DB.SignedTRC(ctx, cppki.TRCID{ISD: c35ISD, Base: scrypto.LatestVer, Serial: scrypto.LatestVer})
	if lerr != nil || int(lt.TRC.ID.Serial) < prevLatest || lt.TRC.ID.Base != 1 {
		s.viol("C35:latest-regressed", fmt.Sprintf("latest is %v (err %v) after it was S%d", lt.TRC.ID, lerr, prevLatest))
	}
	if !s.dead && prevStorageFault && firstFault == 0 && s.latest > prevLatest && s.latest == int(id.Serial) {
		s.r.Class("store-fault/fault-free-retry-completes-succession")
		s.r.Event("store_fault_retry_completed")
	}
}

// c35FaultErrors keeps, per fault kind, the first error NotifyTRC returned
// when it was stopped by it (evidence only).
var c35FaultErrors = map[string]string{}

func c35ID(isd, base, serial int) cppki.TRCID {
	return cppki.TRCID{ISD: addr.ISD(isd), Base: scrypto.Version(base), Serial: scrypto.Version(serial)}
}

// ---- LoadTRCs / TRCLoader: future-dated files are ignored ----

type c35LoadFile struct {
	Name     string
	NBOff    string
	Encoding string
	Future0  bool
	Future1  bool
	Loaded   bool
	InDB     bool
}

func runC35Load(r *mon.Run, pool *gen.Pool, rng *rand.Rand, idx int, edge bool) {
	ctx := context.Background()
	dir, err := os.MkdirTemp("", "pkitrust-c35-")
	if err != nil {
		panic(err)
	}
	defer os.RemoveAll(dir)
	tgen := time.Now().Truncate(time.Second)
	dr := pool.Drawer(rng)
	type fileRec struct {
		c35LoadFile
		id cppki.TRCID
		nb time.Time
	}
	var files []*fileRec
	nISD := 2 + rng.IntN(3)
	offs := []time.Duration{-5 * hour, -1 * hour, -30 * time.Minute, 30 * time.Minute, 1 * hour, 5 * hour}
	for k := 0; k < nISD; k++ {
		isd := gen.NewISD(dr.Take(6), 10+k, 2, 2, 2, 2, tgen.Add(-30*24*hour), tgen.Add(30*24*hour))
		depth := 1 + rng.IntN(3)
		if rng.IntN(4) == 0 {
			depth = 10 + rng.IntN(3) // file-name order differs from serial order (S10 before S2)
		}
		var prev gen.TRC
		for s := 1; s <= depth; s++ {
			off := pick(rng, offs)
			if edge && rng.IntN(2) == 0 {
				off = time.Duration(rng.IntN(9)-4) * time.Second
			}
			nb := tgen.Add(off)
			na := nb.Add(8 * hour)
			if rng.IntN(6) == 0 && off < -time.Hour {
				na = tgen.Add(-10 * time.Minute) // already expired: statement is silent, observed only
			}
			var t gen.TRC
			if s == 1 {
				t = isd.BaseTRC(1, nb, na)
			} else {
				t = isd.Update(prev, gen.RegularUpdate, nb, na, 10*time.Minute, nil)
			}
			prev = t
			enc := pick(rng, []string{"der", "pem"})
			raw := t.Signed.Raw
			if enc == "pem" {
				raw = pem.EncodeToMemory(&pem.Block{Type: "TRC", Bytes: raw})
			}
			name := filepath.Join(dir, fmt.Sprintf("ISD%d-B1-S%d.trc", 10+k, s))
			if err := os.WriteFile(name, raw, 0o644); err != nil {
				panic(err)
			}
			files = append(files, &fileRec{c35LoadFile: c35LoadFile{Name: filepath.Base(name), NBOff: fmtOff(off), Encoding: enc}, id: t.ID(), nb: nb})
		}
	}
	// decoys with other extensions are not TRC files
	_ = os.WriteFile(filepath.Join(dir, "notes.txt"), []byte("not a trc"), 0o644)
	_ = os.WriteFile(filepath.Join(dir, "ISD99-B1-S1.trc.bak"), []byte("garbage"), 0o644)

	d := newTrustDB()
	defer d.Close()
	via := pick(rng, []string{"LoadTRCs", "TRCLoader"})
	var res trust.LoadResult
	t0 := time.Now()
	pan, stack := mon.Try(func() {
		if via == "LoadTRCs" {
			res, err = trust.LoadTRCs(ctx, dir, d)
		} else {
			l := &trust.TRCLoader{Dir: dir, DB: d}
			res, err = l.Load(ctx)
		}
	})
	t1 := time.Now()
	wit := map[string]any{"via": via, "t0": fmtOff(t0.Sub(tgen)), "t1": fmtOff(t1.Sub(tgen))}
	if pan != nil {
		r.Eval(1)
		r.Violation("C35:panic:"+mon.PanicSite(stack), fmt.Sprintf("%s panicked: %v", via, pan), wit)
		return
	}
	if err != nil {
		wit["err"] = err.Error()
	}
	loaded := map[string]bool{}
	for _, f := range res.Loaded {
		loaded[filepath.Base(f)] = true
	}
	var list []c35LoadFile
	for _, f := range files {
		f.Future0, f.Future1 = t0.Before(f.nb), t1.Before(f.nb)
		got, gerr := d.SignedTRC(ctx, f.id)
		f.InDB = gerr == nil && !got.IsZero()
		f.Loaded = loaded[f.Name]
		list = append(list, f.c35LoadFile)
	}
	wit["files"] = list
	for _, f := range files {
		if f.Future0 != f.Future1 {
			r.Inconclusive("time-bracket")
			continue
		}
		r.Eval(1)
		switch {
		case f.Future0 && (f.InDB || f.Loaded):
			r.Violation("C35:future-trc-loaded", fmt.Sprintf("%s starts in the future (%s) but was loaded via %s", f.Name, f.NBOff, via), wit)
		case f.Future0:
			r.Event("load_future_ignored")
			r.Class("load/" + via + "/" + f.Encoding + "/future/ignored")
		case f.InDB:
			r.Event("load_current_loaded")
			r.Class("load/" + via + "/" + f.Encoding + "/started/loaded")
		default:
			r.Event("premise_started_trc_not_loaded")
			fmt.Printf("PREMISE c35 load: %s (%s) not loaded: err=%v ignored=%v\n", f.Name, f.NBOff, err, res.Ignored)
		}
	}
	// latest per ISD = highest serial among the loaded ones
	best := map[addr.ISD]cppki.TRCID{}
	for _, f := range files {
		if f.InDB && f.id.Serial > best[f.id.ISD].Serial {
			best[f.id.ISD] = f.id
		}
	}
	for isd, want := range best {
		lt, lerr := d.SignedTRC(ctx, cppki.TRCID{ISD: isd, Base: scrypto.LatestVer, Serial: scrypto.LatestVer})
		r.Eval(1)
		r.Event("load_latest_checked")
		if want.Serial >= 10 {
			r.Class("load/latest/serial>=10")
		}
		if lerr != nil || lt.TRC.ID != want {
			r.Violation("C35:latest-regressed/load", fmt.Sprintf("after %s the latest TRC of ISD %d is %v (err %v), highest loaded is %v",
				via, isd, lt.TRC.ID, lerr, want), wit)
		}
	}
	if r.WantSample() && idx%7 == 1 {
		r.Sample(map[string]any{"part": "load", "case": wit})
	}
}

func checkC35(r *mon.Run) {
	r.Level = "fault_enumeration"
	r.Rule = "real trust.FetchingProvider + sqlite trust DB + scripted remote. Enumeration: for every update distance d<=4 and EVERY " +
		"subset of failing positions, every fault kind (15: corrupted/missing/forged votes, below quorum, digest mismatch, vote by root, " +
		"skipped/same serial, base reset, other base, other ISD, stale, ahead, fetch error) and the storage fault db-write-error (genuine TRC " +
		"delivered, its InsertTRC fails) from PRNG-chosen initial stores; storage seam: per d<=4 the write of each single position / the first " +
		"write / every write / every read of a call fails (synthetic or expired-context sqlite error), for one or two calls, then a fault-free retry; plus random " +
		"notification histories (stale/current/next/future/beyond-available serials, other base numbers, unknown ISD) with per-call fault " +
		"scripts; after EVERY call the DB TRC set, insertion order and fetch log are compared with the succession model. LoadTRCs/TRCLoader " +
		"on temp dirs with past- and future-dated TRC files (DER/PEM). class = phase × notification kind × outcome × stopping fault"
	r.Assumptions = []string{
		"a TRC whose DB write failed is not stored: the update has to stop there exactly as for a fetch or verification failure, and a later fault-free notification completes the succession",
		"every broken variant is, by construction of the generator, not a verified successor under doc/cryptography/trc.rst (votes, quorum, serial, base, ISD)",
		"the scripted remote serves by serial number and ignores the requested base: a notification with a foreign base must be stopped by the engine",
		"error return values of NotifyTRC are recorded, not judged",
	}
	pool := gen.NewPool(64, 2, 2)
	rng := r.Rand("c35")
	const N = 9
	w := buildC35World(pool, rng, N)

	// ---- phase 1: fault enumeration for distances 1..4 ----
	caseNo := 0
	initials := [][]int{{1}, {1, 2}, {1, 2, 3}, {2}, {1, 2, 3, 4}, {3}, {1, 3}}
	perSubset := r.Pick(1, 3) // how many different initial stores per (d, subset, kind)
	for d := 1; d <= 4; d++ {
		for mask := 0; mask < 1<<d; mask++ {
			kinds := c35Faults
			if mask == 0 {
				kinds = []string{""}
			}
			for _, kind := range kinds {
				for rep := 0; rep < perSubset; rep++ {
					init := initials[rng.IntN(len(initials))]
					l0 := init[len(init)-1]
					if l0+d+1 > N {
						init, l0 = []int{1}, 1
					}
					script := map[int]string{}
					var pos []string
					for p := 1; p <= d; p++ {
						if mask&(1<<(p-1)) != 0 {
							k := kind
							if rep > 0 { // later repetitions mix kinds across positions
								k = pick(rng, c35Faults)
							}
							script[l0+p] = k
							pos = append(pos, fmt.Sprint(p))
						}
					}
					hist := &c35Hist{Phase: "enum", Case: caseNo, Initial: init}
					s := newC35Session(r, w, init, hist)
					s.dbViaCtx = rng.IntN(2) == 0 // flavour of the write faults of the script, if any
					s.notify(c35ID(c35ISD, 1, l0+d), fmt.Sprintf("d=%d/faults@%s", d, strings.Join(pos, ",")), script)
					// a retry without faults must complete the succession from where it stopped
					s.notify(c35ID(c35ISD, 1, l0+d), "retry-after-enum", nil)
					if r.WantSample() && caseNo%211 == 17 {
						r.Sample(hist)
					}
					s.close()
					caseNo++
					r.Event("enum_case")
				}
			}
		}
	}
	// ---- phase 1b: the storage seam. For every distance d<=4: the write of every
	// single position fails (the later ones would succeed), the first write of the
	// call fails, every write fails, every read fails; each in both flavours, from
	// PRNG-chosen initial stores; the fault persists for a second call or not;
	// then a fault-free retry must complete the succession.
	for d := 1; d <= 4; d++ {
		type sf struct {
			mode string
			pos  int
		}
		var list []sf
		for p := 1; p <= d; p++ {
			list = append(list, sf{"", p})
		}
		for _, m := range c35DBModes {
			list = append(list, sf{m, 0})
		}
		for _, f := range list {
			for _, viaCtx := range []bool{false, true} {
				for rep := 0; rep < perSubset; rep++ {
					init := initials[rng.IntN(len(initials))]
					l0 := init[len(init)-1]
					if l0+d+1 > N {
						init, l0 = []int{1}, 1
					}
					script := map[int]string{}
					label := f.mode
					if f.mode == "" {
						script[l0+f.pos] = c35WriteFault
						label = fmt.Sprintf("write-serial@%d", f.pos)
					}
					hist := &c35Hist{Phase: "enum-store", Case: caseNo, Initial: init}
					s := newC35Session(r, w, init, hist)
					for n := 1 + rng.IntN(2); n > 0; n-- {
						s.dbMode, s.dbViaCtx = f.mode, viaCtx
						s.notify(c35ID(c35ISD, 1, l0+d), fmt.Sprintf("d=%d/%s", d, label), script)
					}
					s.notify(c35ID(c35ISD, 1, l0+d), "retry-after-enum", nil)
					if r.WantSample() && caseNo%37 == 5 {
						r.Sample(hist)
					}
					s.close()
					caseNo++
					r.Event("enum_store_case")
				}
			}
		}
	}
	r.Extra("enumerated_cases", caseNo)
	defer func() { r.Extra("first_error_per_fault_kind", c35FaultErrors) }()
	r.Exhaustive = false

	// ---- phase 2: notification histories ----
	nH := r.Pick(150, 3000)
	for h := 0; h < nH; h++ {
		init := initials[rng.IntN(len(initials))]
		hist := &c35Hist{Phase: "history", Case: h, Initial: init}
		s := newC35Session(r, w, init, hist)
		for step := 0; step < 5+rng.IntN(6); step++ {
			l := s.latest
			var id cppki.TRCID
			var kind string
			if rng.IntN(5) == 0 && l > 1 {
				s.lateInsert(1 + rng.IntN(l-1))
			}
			switch rng.IntN(9) {
			case 0:
				kind, id = "stale", c35ID(c35ISD, 1, max(1, l-1-rng.IntN(2)))
			case 1:
				kind, id = "current", c35ID(c35ISD, 1, l)
			case 2, 3:
				kind, id = "next", c35ID(c35ISD, 1, l+1)
			case 4, 5:
				kind, id = "future", c35ID(c35ISD, 1, l+2+rng.IntN(3))
			case 6:
				kind, id = "beyond-available", c35ID(c35ISD, 1, N+1+rng.IntN(2))
			case 7:
				b := 2 + rng.IntN(3)
				kind, id = "other-base", c35ID(c35ISD, b, max(b, l+rng.IntN(4)))
			case 8:
				kind, id = "unknown-isd", c35ID(3, 1, l+1)
			}
			script := map[int]string{}
			if rng.IntN(2) == 0 {
				for n := 1 + rng.IntN(2); n > 0; n-- {
					script[l+1+rng.IntN(4)] = pick(rng, c35Faults)
				}
			}
			if rng.IntN(4) == 0 {
				s.dbMode = pick(rng, c35DBModes)
			}
			s.dbViaCtx = rng.IntN(2) == 0
			s.notify(id, kind, script)
		}
		if r.WantSample() && h%53 == 9 {
			r.Sample(hist)
		}
		s.close()
		r.Event("history")
	}

	// ---- phase 3: loading from disk ----
	nL := r.Pick(40, 600)
	rngL := r.Rand("c35-load")
	for i := 0; i < nL; i++ {
		runC35Load(r, pool, rngL, i, r.Thorough() && i%2 == 1)
	}

	for i := 0; i < r.Pick(3, 12); i++ {
		runC35LoadEdge(r, pool, rngL, i)
	}
	if r.Events("premise_started_trc_not_loaded") == 0 {
		r.Class("premise/started-trcs-loaded")
	}
	r.RequireClasses("premise/started-trcs-loaded", "load/latest/serial>=10", "history/late-insert",
		"store-fault/write-serial/intermediate-step/next-write-would-succeed", "store-fault/write-serial/last-step",
		"store-fault/write-once/intermediate-step/next-write-would-succeed", "store-fault/write-always/intermediate-step",
		"store-fault/read-error/intermediate-step", "store-fault/write-serial/expired-context", "store-fault/write-serial/synthetic-error",
		"store-fault/read-error/expired-context", "store-fault/fault-free-retry-completes-succession")
	r.Require(int64(caseNo), 60, "enum_case", "enum_store_case", "history", "notify_advanced", "notify_unchanged", "load_future_ignored",
		"load_current_loaded", "latest_checked", "load_latest_checked", "db_write_fault_injected", "db_read_fault_injected",
		"store_fault_stopped_update", "store_fault_retry_completed")
}

// runC35LoadEdge: a TRC file whose validity starts within the next second.
// The directory is polled about half a second before the start: the file must
// still be ignored. Judged only when the whole call ended before the start.
func runC35LoadEdge(r *mon.Run, pool *gen.Pool, rng *rand.Rand, idx int) {
	ctx := context.Background()
	dir, err := os.MkdirTemp("", "pkitrust-c35e-")
	if err != nil {
		panic(err)
	}
	defer os.RemoveAll(dir)
	dr := pool.Drawer(rng)
	tgen := time.Now()
	nb := tgen.Truncate(time.Second).Add(2 * time.Second)
	isd := gen.NewISD(dr.Take(6), 30+idx, 2, 2, 2, 2, tgen.Add(-30*24*hour), tgen.Add(30*24*hour))
	base := isd.BaseTRC(1, tgen.Add(-5*hour).Truncate(time.Second), tgen.Add(8*hour))
	upd := isd.Update(base, gen.RegularUpdate, nb, nb.Add(8*hour), 10*time.Minute, nil)
	for i, t := range []gen.TRC{base, upd} {
		if err := os.WriteFile(filepath.Join(dir, fmt.Sprintf("ISD%d-B1-S%d.trc", 30+idx, i+1)), t.Signed.Raw, 0o644); err != nil {
			panic(err)
		}
	}
	d := newTrustDB()
	defer d.Close()
	lead := time.Duration(150+rng.IntN(700)) * time.Millisecond
	if w := time.Until(nb.Add(-lead)); w > 0 {
		time.Sleep(w)
	}
	via := pick(rng, []string{"LoadTRCs", "TRCLoader"})
	t0 := time.Now()
	pan, stack := mon.Try(func() {
		if via == "LoadTRCs" {
			_, err = trust.LoadTRCs(ctx, dir, d)
		} else {
			l := &trust.TRCLoader{Dir: dir, DB: d}
			_, err = l.Load(ctx)
		}
	})
	t1 := time.Now()
	wit := map[string]any{"via": via, "not_before": nb.Format(time.RFC3339), "call_started_before_start_ms": nb.Sub(t0).Milliseconds(),
		"call_ended_before_start_ms": nb.Sub(t1).Milliseconds(), "err": fmt.Sprint(err)}
	r.Eval(1)
	if pan != nil {
		r.Violation("C35:panic:"+mon.PanicSite(stack), fmt.Sprintf("%s panicked: %v", via, pan), wit)
		return
	}
	if !t1.Before(nb) {
		r.Inconclusive("time-bracket")
		return
	}
	got, gerr := d.SignedTRC(ctx, upd.ID())
	loaded := gerr == nil && !got.IsZero()
	r.Event("load_edge_second_judged")
	r.Class(fmt.Sprintf("load/%s/starts-within-the-next-second/loaded=%v", via, loaded))
	if loaded {
		r.Violation("C35:future-trc-loaded", fmt.Sprintf("a TRC whose validity starts %d ms after the call ended was loaded via %s", nb.Sub(t1).Milliseconds(), via), wit)
	}
}
