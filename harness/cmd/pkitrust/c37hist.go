package main

import (
	"context"
	"crypto/x509"
	"errors"
	"fmt"
	"math/rand/v2"
	"time"
	"verif/monlog"

	"github.com/scionproto/scion/pkg/scrypto/cms/protocol"
	"github.com/scionproto/scion/pkg/scrypto/cppki"
	"github.com/scionproto/scion/private/ca/renewal"
	"github.com/scionproto/scion/private/storage/trust/sqlite"

	"verif/mon"
	gen "verif/pkitrustgen"
)

// ---- histories of renewal requests on one long-lived verifier, with faults at the TRC-fetcher seam ----
//
// The TRC store of one ISD advances through phases (base TRC only -> update
// that replaces root 0, grace period running -> grace period over) while one
// RequestVerifier processes a sequence of otherwise conforming requests whose
// chains hang under the old, the new, the kept or a rogue root. Every TRC
// lookup of the verifier goes through c37Fetcher, which answers from the real
// sqlite trust DB or fails in a planned way.

// c37FaultKinds are the ways a lookup can fail.
var c37FaultKinds = []string{"deadline-exceeded", "net-timeout", "net-temporary", "wrapped-deadline", "canceled", "plain-error"}

// c37NetErr is a net.Error-like error.
type c37NetErr struct{ timeout, temporary bool }

func (e c37NetErr) Error() string {
	return fmt.Sprintf("trust store: i/o failure (timeout=%v temporary=%v)", e.timeout, e.temporary)
}
func (e c37NetErr) Timeout() bool   { return e.timeout }
func (e c37NetErr) Temporary() bool { return e.temporary }

func c37FaultErr(kind string) error {
	switch kind {
	case "deadline-exceeded":
		return context.DeadlineExceeded
	case "canceled":
		return context.Canceled
	case "net-timeout":
		return c37NetErr{timeout: true}
	case "net-temporary":
		return c37NetErr{temporary: true}
	case "wrapped-deadline":
		return fmt.Errorf("trust store: database is locked: %w", context.DeadlineExceeded)
	case "plain-error":
		return errors.New("trust store: disk I/O error")
	}
	panic("pkitrust: unknown fault kind " + kind)
}

// c37Fetcher is the TRCFetcher of a history: the real trust DB behind a seam
// that fails the next lookups as planned (plan[i] for the i-th lookup of the
// current request; "" / beyond the plan = answer normally).
type c37Fetcher struct {
	d       sqlite.DB
	plan    []string
	lookups []string // observed: "<latest|serial-N>:<none|fault kind>"
	// firstFault is the kind of the first failed lookup of the current request
	firstFault string
}

func (f *c37Fetcher) arm(plan []string) { f.plan, f.lookups, f.firstFault = plan, nil, "" }

func (f *c37Fetcher) SignedTRC(ctx context.Context, id cppki.TRCID) (cppki.SignedTRC, error) {
	what := "latest"
	if !id.Serial.IsLatest() {
		what = fmt.Sprintf("serial-%d", id.Serial)
	}
	kind := ""
	if n := len(f.lookups); n < len(f.plan) {
		kind = f.plan[n]
	}
	if kind == "" {
		f.lookups = append(f.lookups, what+":none")
		return f.d.SignedTRC(ctx, id)
	}
	f.lookups = append(f.lookups, what+":"+kind)
	if f.firstFault == "" {
		f.firstFault = kind
	}
	return cppki.SignedTRC{}, c37FaultErr(kind)
}

type c37HReq struct {
	Step      int
	Phase     string   // base-only | in-grace | grace-over
	LatestTRC string   // the TRC that is the latest in the store at processing time
	ChainRoot string   // old | new | kept | rogue
	ChainTime string   // valid | expired
	Faults    []string // planned outcome of the request's 1st, 2nd lookup ("" = answer normally)
	Lookups   []string // lookups the verifier made, with what the seam answered
	Trusted   string   // reference: why the chain is (not) admitted by the current TRCs
	Admitted  bool
	Accepted  bool
	Err       string
	T0, T1    string
}

type c37HistoryRec struct {
	History int
	ISD     int
	Shape   string // base->in-grace->grace-over (two updates) | base->grace-over (one update)
	TRCs    []string
	Reqs    []c37HReq
}

type c37HistStats struct {
	requests, faultyRequests, accepted, refused int
	conformingRefusedWithoutFault               int
}

// c37Phase is one state of the ISD's TRC store.
type c37Phase struct {
	Name   string
	Insert *gen.TRC // TRC that becomes the latest when the phase starts (nil: base, already there)
	Latest string
	Model  tlModel
}

func runC37History(r *mon.Run, pool *gen.Pool, rng *rand.Rand, h int, hs *c37HistStats) {
	ctx := monlog.Alternate()
	dr := pool.Drawer(rng)
	isd := 100 + h%400 // an ISD of its own: whatever the process saw before belongs to other ISDs
	tgen := time.Now()
	w := buildWorld(dr, isd, timeline{Name: "history", BaseNB: -10 * hour, BaseNA: 10 * hour}, tgen)
	tg := w.TGen
	rec := c37HistoryRec{History: h, ISD: isd}

	// the TRC timeline (every boundary at least 30 minutes away from the calls)
	baseWin := trcWin{NB: tg.Add(-10 * hour), NA: tg.Add(10 * hour)}
	phases := []c37Phase{{Name: "base-only", Latest: "S1", Model: tlModel{HasLatest: true, Latest: baseWin}}}
	newKey := dr.Next("")
	if h%2 == 0 {
		rec.Shape = "base->update-in-grace->grace-over"
		s2 := w.ISD.Update(w.Base, gen.RegularUpdate, tg.Add(-1*hour), tg.Add(12*hour), 3*hour, map[int]gen.Key{0: newKey})
		s3 := w.ISD.Update(s2, gen.RegularUpdate, tg.Add(-50*time.Minute), tg.Add(12*hour), 15*time.Minute, nil)
		w.NewRoot = s2.Roots[0]
		s2Win := trcWin{NB: tg.Add(-1 * hour), NA: tg.Add(12 * hour), Grace: 3 * hour}
		phases = append(phases,
			c37Phase{Name: "in-grace", Insert: &s2, Latest: "S2", Model: tlModel{HasLatest: true, IsUpdate: true, PredInDB: true, Latest: s2Win, Pred: baseWin}},
			// S3 keeps S2's roots: "old" is in neither the latest nor its predecessor
			c37Phase{Name: "grace-over", Insert: &s3, Latest: "S3", Model: tlModel{HasLatest: true, IsUpdate: true, PredInDB: true,
				Latest: trcWin{NB: tg.Add(-50 * time.Minute), NA: tg.Add(12 * hour), Grace: 15 * time.Minute}, Pred: s2Win}})
		rec.TRCs = []string{"S1 base [-10h,+10h] roots old,kept", "S2 [-1h,+12h] grace 3h roots new,kept", "S3 [-50m,+12h] grace 15m roots new,kept"}
	} else {
		rec.Shape = "base->update-grace-over"
		s2 := w.ISD.Update(w.Base, gen.RegularUpdate, tg.Add(-3*hour), tg.Add(12*hour), 1*hour, map[int]gen.Key{0: newKey})
		w.NewRoot = s2.Roots[0]
		phases = append(phases,
			c37Phase{Name: "grace-over", Insert: &s2, Latest: "S2", Model: tlModel{HasLatest: true, IsUpdate: true, PredInDB: true,
				Latest: trcWin{NB: tg.Add(-3 * hour), NA: tg.Add(12 * hour), Grace: 1 * hour}, Pred: baseWin}})
		rec.TRCs = []string{"S1 base [-10h,+10h] roots old,kept", "S2 [-3h,+12h] grace 1h roots new,kept"}
	}
	w.TL.Update = true // the new root exists from the start (its TRC is merely not yet in the store)

	d := newTrustDB()
	defer d.Close()
	if _, err := d.InsertTRC(context.Background(), w.Base.Signed); err != nil {
		panic("pkitrust: insert base TRC: " + err.Error())
	}
	f := &c37Fetcher{d: d}
	v := renewal.RequestVerifier{TRCFetcher: f} // one verifier for the whole history
	ia := w.ISD.IAOf(3)

	pickFault := func(pNone int) string {
		if rng.IntN(100) < pNone {
			return ""
		}
		return pick(rng, c37FaultKinds)
	}
	step := 0
	for pi, ph := range phases {
		if ph.Insert != nil {
			if _, err := d.InsertTRC(context.Background(), ph.Insert.Signed); err != nil {
				panic("pkitrust: insert TRC update: " + err.Error())
			}
			r.Event("history_trc_update_inserted")
		}
		nReq := 3 + rng.IntN(3)
		for k := 0; k < nReq; k++ {
			q := c37HReq{Step: step, Phase: ph.Name, LatestTRC: ph.Latest, ChainTime: "valid",
				ChainRoot: pick(rng, []string{"old", "old", "new", "new", "kept", "rogue"}),
				Faults:    []string{pickFault(50), pickFault(85)}}
			if rng.IntN(8) == 0 {
				q.ChainTime = "expired"
			}
			switch {
			case pi == 0 && k == 0:
				// the history starts with an undisturbed, conforming request
				q.ChainRoot, q.ChainTime, q.Faults = pick(rng, []string{"old", "kept"}), "valid", []string{"", ""}
			case ph.Name == "grace-over" && k == 0:
				// enumerated, not sampled: the first lookup after the grace period is
				// over fails (kind cycling with the history) for an old-root chain
				q.ChainRoot, q.ChainTime = "old", "valid"
				q.Faults = []string{c37FaultKinds[(h/2)%len(c37FaultKinds)], ""}
			case k == 1:
				// and an undisturbed request under each root label of the phase, cycling
				q.ChainRoot, q.ChainTime = []string{"old", "new", "kept"}[(h/2+pi)%3], "valid"
				q.Faults = []string{"", ""}
			}
			step++
			cs := chainSpec{Root: q.ChainRoot, IA: ia, NBOff: -2 * hour, NAOff: 6 * hour}
			if q.ChainTime == "expired" {
				cs.NBOff, cs.NAOff = -6*hour, -1*hour
			}
			asKey := dr.Next("")
			chain, facts := w.issue(dr, cs, asKey)
			csr := gen.CSR(gen.Name("renewed AS certificate", ia), dr.Next(""))
			req := gen.CMS(csr, []*x509.Certificate{chain[0], chain[1]},
				[]protocol.SignerInfo{gen.SignerInfo(csr, chain[0], asKey, gen.SIOpts{})})

			f.arm(q.Faults)
			var err error
			t0 := time.Now()
			pan, stack := mon.Try(func() { _, err = v.VerifyCMSSignedRenewalRequest(ctx, req) })
			t1 := time.Now()
			q.T0, q.T1, q.Lookups = fmtOff(t0.Sub(tg)), fmtOff(t1.Sub(tg)), f.lookups
			q.Accepted = err == nil && pan == nil
			if err != nil {
				q.Err = err.Error()
			}
			rec.Reqs = append(rec.Reqs, q)
			last := &rec.Reqs[len(rec.Reqs)-1]
			if pan != nil {
				r.Eval(1)
				r.Violation("C37:panic:"+mon.PanicSite(stack), fmt.Sprintf("VerifyCMSSignedRenewalRequest panicked: %v", pan), rec)
				return
			}
			// reference: the TRCs that are the latest / its predecessor NOW, per the
			// world model - not whatever an earlier lookup returned
			tr0, why := ph.Model.trusted(facts, t0)
			tr1, _ := ph.Model.trusted(facts, t1)
			if tr0 != tr1 {
				r.Inconclusive("time-bracket")
				continue
			}
			last.Trusted, last.Admitted = why, tr0
			q = *last
			r.Eval(1)
			hs.requests++
			outcome := "refused"
			if q.Accepted {
				outcome = "accepted"
				hs.accepted++
			} else {
				hs.refused++
			}
			r.Event("history_request_" + outcome)
			// what the seam did to this request (a planned fault that no lookup reached does not count)
			fault := "no-fault"
			if f.firstFault != "" {
				fault = f.firstFault
			}
			chainLbl := q.ChainRoot + "-root-chain"
			if q.ChainTime != "valid" {
				chainLbl += "-" + q.ChainTime
			}
			if fault == "no-fault" {
				r.Class(fmt.Sprintf("history/no-fault/%s/%s/%s", ph.Name, chainLbl, outcome))
			} else {
				hs.faultyRequests++
				r.Event("fetcher_fault_injected")
				r.Event("fetcher_fault_" + fault)
				r.Class(fmt.Sprintf("fetcher-fault/%s/%s/%s/%s", fault, ph.Name, chainLbl, outcome))
				if pi > 0 {
					r.Event("fetcher_fault_after_trc_update")
				}
			}
			if r.WantSample() && h%17 == 3 && len(rec.Reqs) == 6 {
				r.Sample(map[string]any{"part": "history", "history": rec})
			}
			switch {
			case q.Accepted && !q.Admitted:
				key := "C37:accepts/chain-not-trusted:in-history/" + why
				what := fmt.Sprintf("request %d of a history on one verifier accepted although its chain (root %q, %s) is not admitted by the TRCs "+
					"that are current at processing time (%s, latest %s): %s", q.Step, q.ChainRoot, q.ChainTime, ph.Name, ph.Latest, why)
				if fault != "no-fault" {
					key = "C37:accepts/chain-not-trusted:after-trc-lookup-fault"
					what += fmt.Sprintf("; the TRC lookup of this request failed (%s, lookups %v)", fault, q.Lookups)
				}
				r.Violation(key, what, rec)
			case q.Accepted:
				// admitted by the current TRCs; with a failed lookup the statement does not forbid it
			case q.Admitted && fault == "no-fault":
				// only-if statement: not a violation, but the premise of the run
				hs.conformingRefusedWithoutFault++
				r.Event("premise_valid_request_rejected")
				if hs.conformingRefusedWithoutFault <= 3 {
					fmt.Printf("PREMISE c37 history: conforming request refused without a fault: history %d %+v\n", h, q)
				}
			default:
				// refused: not admitted, or the fetcher failed for this request (unjudged)
			}
		}
	}
}
