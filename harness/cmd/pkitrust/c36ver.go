package main

// C36, verifier side with state and faults: "messages it signs verify with a
// verifier bound to its ISD-AS". One trust.Verifier (with and without Cache)
// lives through a history of messages signed by generated signers, over a
// FetchingProvider on a real sqlite trust DB whose storage and remote can fail
// transiently. Oracle: once the faults have stopped, a message of a signer the
// C36 reference considers valid verifies within the next two fault-free
// attempts; wrongly bound or tampered messages never verify.

import (
	"bytes"
	"context"
	"crypto/x509"
	"fmt"
	"math/rand/v2"
	"net"
	"time"
	"verif/monlog"

	"github.com/patrickmn/go-cache"
	"github.com/scionproto/scion/pkg/addr"
	cryptopb "github.com/scionproto/scion/pkg/proto/crypto"
	"github.com/scionproto/scion/pkg/scrypto/cppki"
	"github.com/scionproto/scion/private/storage/trust/sqlite"
	"github.com/scionproto/scion/private/trust"

	"verif/mon"
	gen "verif/pkitrustgen"
)

// c36VerFaults are the transient faults of the verifying side. The first group
// bites inside Engine.NotifyTRC (only when the referenced TRC is not stored
// yet, except the read fault), the second inside GetChains.
var (
	c36NotifyFaults = []string{"trc-fetch-error", "trc-fetch-stale", "db-read-trc-error", "db-write-trc-error", "ctx-expired"}
	c36ChainFaults  = []string{"chain-fetch-error", "chain-fetch-empty", "db-read-chains-error", "db-write-chain-error"}
)

type c36FaultState struct {
	on   bool
	kind string
	hits int
}

func (f *c36FaultState) hit(kind string) bool {
	if f.on && f.kind == kind {
		f.hits++
		return true
	}
	return false
}

// c36Remote is the remote trust material server of the verifying AS.
type c36Remote struct {
	fs     *c36FaultState
	trcs   map[cppki.TRCID]cppki.SignedTRC
	stale  cppki.SignedTRC
	chains []c36Published
	// log
	trcCalls, chainCalls int
}

type c36Published struct {
	ia    addr.IA
	chain []*x509.Certificate
}

func (f *c36Remote) TRC(_ context.Context, id cppki.TRCID, _ net.Addr) (cppki.SignedTRC, error) {
	f.trcCalls++
	if f.fs.hit("trc-fetch-error") {
		return cppki.SignedTRC{}, fmt.Errorf("remote: transient network fault")
	}
	if f.fs.hit("trc-fetch-stale") {
		return f.stale, nil // a lagging replica answers with the TRC it has
	}
	t, ok := f.trcs[id]
	if !ok {
		return cppki.SignedTRC{}, fmt.Errorf("remote: TRC %s not found", id)
	}
	return t, nil
}

func (f *c36Remote) Chains(_ context.Context, q trust.ChainQuery, _ net.Addr) ([][]*x509.Certificate, error) {
	f.chainCalls++
	if f.fs.hit("chain-fetch-error") {
		return nil, fmt.Errorf("remote: transient network fault")
	}
	if f.fs.hit("chain-fetch-empty") {
		return nil, nil
	}
	var out [][]*x509.Certificate
	for _, p := range f.chains {
		if p.ia.Equal(q.IA) && bytes.Equal(p.chain[0].SubjectKeyId, q.SubjectKeyID) {
			out = append(out, p.chain)
		}
	}
	return out, nil
}

// c36DB is the verifying side's sqlite trust DB with a fault seam.
type c36DB struct {
	sqlite.DB
	fs *c36FaultState
}

func (d *c36DB) SignedTRC(ctx context.Context, id cppki.TRCID) (cppki.SignedTRC, error) {
	if d.fs.hit("db-read-trc-error") {
		return cppki.SignedTRC{}, fmt.Errorf("storage: transient read failure")
	}
	return d.DB.SignedTRC(ctx, id)
}

func (d *c36DB) InsertTRC(ctx context.Context, t cppki.SignedTRC) (bool, error) {
	if d.fs.hit("db-write-trc-error") {
		return false, fmt.Errorf("storage: transient write failure (database is locked)")
	}
	return d.DB.InsertTRC(ctx, t)
}

func (d *c36DB) Chains(ctx context.Context, q trust.ChainQuery) ([][]*x509.Certificate, error) {
	if d.fs.hit("db-read-chains-error") {
		return nil, fmt.Errorf("storage: transient read failure")
	}
	return d.DB.Chains(ctx, q)
}

func (d *c36DB) InsertChain(ctx context.Context, c []*x509.Certificate) (bool, error) {
	if d.fs.hit("db-write-chain-error") {
		return false, fmt.Errorf("storage: transient write failure (database is locked)")
	}
	return d.DB.InsertChain(ctx, c)
}

type c36VerAttempt struct {
	Msg     string
	Probe   string `json:",omitempty"` // "", wrong-binding, tampered:<how>
	Fault   string `json:",omitempty"` // fault active during the attempt
	Hits    int    `json:",omitempty"` // how often the fault was actually injected
	Err     string `json:",omitempty"`
	Latest  string // latest TRC of the verifying side's store after the attempt
	Fetches string `json:",omitempty"` // remote requests during the attempt
}

type c36VerHist struct {
	Case     int
	Timeline string
	Cache    bool
	Epochs   []string
	Chains   []c36Chain
	Attempts []c36VerAttempt
}

// c36VerTimelines: the latest TRC is valid in all of them and every boundary is
// at least 30 minutes away.
var c36VerTimelines = []string{"update-in-grace", "update-grace-over", "update-grace-zero", "base-valid", "update-in-grace"}

func timelineByName(name string) timeline {
	for _, tl := range timelines {
		if tl.Name == name {
			return tl
		}
	}
	panic("pkitrust: no timeline " + name)
}

func c36Tamper(sm *cryptopb.SignedMessage, how string) *cryptopb.SignedMessage {
	out := &cryptopb.SignedMessage{HeaderAndBody: append([]byte{}, sm.HeaderAndBody...), Signature: append([]byte{}, sm.Signature...)}
	switch how {
	case "signature-bit":
		out.Signature = gen.CorruptECDSASignature(out.Signature)
	case "body-bit":
		out.HeaderAndBody[len(out.HeaderAndBody)-1] ^= 0x01
	}
	return out
}

func runC36VerifierHistory(r *mon.Run, pool *gen.Pool, rng *rand.Rand, idx int) {
	dr := pool.Drawer(rng)
	tl := timelineByName(c36VerTimelines[idx%len(c36VerTimelines)])
	w := buildWorld(dr, 1, tl, time.Now())
	useCache := (idx/len(c36VerTimelines))%2 == 0
	ia, otherIA := mustIA(w.ISD.IAOf(3)), mustIA(w.ISD.IAOf(4))
	hist := &c36VerHist{Case: idx, Timeline: tl.Name, Cache: useCache}

	signerDB := newTrustDB()
	defer signerDB.Close()
	fs := &c36FaultState{}
	verDB := &c36DB{DB: newTrustDB(), fs: fs}
	defer verDB.DB.Close()
	remote := &c36Remote{fs: fs, trcs: map[cppki.TRCID]cppki.SignedTRC{}, stale: w.Base.Signed}
	prov := trust.FetchingProvider{DB: verDB, Recurser: trust.LocalOnlyRecurser{}, Router: trust.LocalRouter{IA: ia}, Fetcher: remote}
	v := trust.Verifier{BoundIA: ia, Engine: prov}
	vOther := trust.Verifier{BoundIA: otherIA, Engine: prov}
	if useCache {
		// as the control service configures it; no janitor goroutine
		c := cache.New(time.Minute, 0)
		v.Cache, vOther.Cache = c, c
	}
	bg := context.Background()
	mustIns := func(d trust.DB, t cppki.SignedTRC) {
		if _, err := d.InsertTRC(bg, t); err != nil {
			panic("pkitrust: c36 verifier history: insert TRC: " + err.Error())
		}
	}

	// Epochs: the ISD's TRC state as the signing side sees it. "base": only the
	// base TRC exists; "update": the update has been published and is active.
	epochs := []string{"base"}
	if tl.Update {
		epochs = []string{"update"}
		if rng.IntN(2) == 0 {
			epochs = []string{"base", "update"} // the update happens in the middle of the history
		}
	}
	hist.Epochs = epochs
	baseModel := tlModel{HasLatest: true, Latest: trcWin{NB: w.TGen.Add(tl.BaseNB), NA: w.TGen.Add(tl.BaseNA)}}

	mustIns(signerDB, w.Base.Signed)
	mustIns(verDB.DB, w.Base.Signed)
	remote.trcs[w.Base.ID()] = w.Base.Signed
	verKnowsUpd := false

	var ring c36Ring
	var keys []gen.Key
	var chains []*c36Chain
	byRaw := map[string]*c36Chain{}
	msgNo := 0

	latestOfVer := func() string {
		t, err := verDB.DB.SignedTRC(bg, cppki.TRCID{ISD: ia.ISD()})
		if err != nil {
			return "err:" + err.Error()
		}
		return t.TRC.ID.String()
	}

	// attempt performs one Verify call and logs it.
	attempt := func(ver trust.Verifier, sm *cryptopb.SignedMessage, assoc []byte, label, probe, fault string) (out []byte, err error, pan any, stack string) {
		ctx := monlog.Alternate() // log level is a configuration dimension
		fs.on, fs.kind, fs.hits = fault != "", fault, 0
		if fault == "ctx-expired" {
			// the request's deadline expires: every DB access of the attempt fails in the back-end
			cctx, cancel := context.WithCancel(ctx)
			cancel()
			ctx = cctx
			fs.hits = 1
		}
		t0, c0 := remote.trcCalls, remote.chainCalls
		pan, stack = mon.Try(func() {
			m, e := ver.Verify(ctx, sm, assoc)
			err = e
			if m != nil {
				out = m.Body
			}
		})
		a := c36VerAttempt{Msg: label, Probe: probe, Fault: fault, Hits: fs.hits, Latest: latestOfVer()}
		if err != nil {
			a.Err = err.Error()
			if len(a.Err) > 160 {
				a.Err = a.Err[:160]
			}
		}
		if n, m := remote.trcCalls-t0, remote.chainCalls-c0; n+m > 0 {
			a.Fetches = fmt.Sprintf("trc=%d chains=%d", n, m)
		}
		fs.on = false
		hist.Attempts = append(hist.Attempts, a)
		return
	}
	dead := false
	viol := func(key, what string) {
		dead = true
		r.Violation(key, what, hist)
	}

	for _, epoch := range epochs {
		model := baseModel
		if epoch == "update" {
			model = w.Model
			mustIns(signerDB, w.Upd.Signed)
			remote.trcs[w.Upd.ID()] = w.Upd.Signed
			if len(epochs) == 1 && rng.IntN(3) == 0 {
				mustIns(verDB.DB, w.Upd.Signed) // the verifying side has seen the update already
				verKnowsUpd = true
			}
		}
		// new keys and chains of this epoch
		roots := []string{"old", "kept"}
		if epoch == "update" {
			roots = []string{"new", "new", "kept", "old"}
		}
		for n := 1 + rng.IntN(2); n > 0; n-- {
			key := dr.Next("")
			keys, ring = append(keys, key), append(ring, key)
			cs := chainSpec{Root: pick(rng, roots), IA: ia.String(), NBOff: -2 * hour, NAOff: pick(rng, []time.Duration{3 * hour, 5 * hour, 7 * hour})}
			chain, f := w.issue(dr, cs, key)
			c := &c36Chain{Key: len(keys) - 1, Spec: cs, OwnIA: true, Facts: f, asNB: chain[0].NotBefore, asNA: chain[0].NotAfter, raw: rawKey(chain)}
			if _, err := signerDB.InsertChain(bg, chain); err != nil {
				panic("pkitrust: c36 verifier history: insert chain: " + err.Error())
			}
			remote.chains = append(remote.chains, c36Published{ia: ia, chain: chain})
			chains, byRaw[c.raw] = append(chains, c), c
			hist.Chains = append(hist.Chains, *c)
		}
		// the signing AS (re)generates its signers
		g := trust.SignerGen{IA: ia, KeyRing: ring, DB: signerDB}
		signers, gerr := g.Generate(bg)
		if gerr != nil {
			r.Event("verifier_no_signer_in_epoch")
			continue
		}
		for _, sg := range signers {
			if dead {
				return
			}
			k := -1
			for i, key := range keys {
				if samePub(sg.PrivateKey.Public(), key.Public()) {
					k = i
				}
			}
			var c *c36Chain
			if len(sg.Chain) == 2 {
				c = byRaw[rawKey(sg.Chain)]
			}
			if k < 0 || c == nil || c.Key != k {
				r.Event("verifier_signer_not_attributable") // judged by the generation phase
				continue
			}
			// validAt: the C36 reference considers the signer valid at t.
			validAt := func(t time.Time) bool {
				e := c36Model(model, chains, k, t)
				in := within(t, c.asNB, c.asNA)
				okLatest := model.verifiesLatest(c.Facts, t) && in
				okPred := model.inGrace(t) && model.PredInDB && model.verifiesPred(c.Facts, t) && in
				return !t.After(sg.Expiration) && ((e.Tier == "active" && okLatest) || (e.Tier == "grace" && okPred))
			}
			if !validAt(time.Now()) {
				r.Event("verifier_signer_not_valid_by_reference") // judged by the generation phase
				continue
			}
			chainWhere := "remote"
			if rng.IntN(2) == 0 {
				chainWhere = "local"
				if _, err := verDB.DB.InsertChain(bg, sg.Chain); err != nil {
					panic("pkitrust: c36 verifier history: insert chain (verifier): " + err.Error())
				}
			}
			for m := 1 + rng.IntN(2); m > 0; m-- {
				msgNo++
				label := fmt.Sprintf("m%d/key%d/%s/%s", msgNo, k, c.Facts.Kind, sg.TRCID)
				body := []byte("body of " + label)
				assoc := []byte("assoc")
				sm, serr := sg.Sign(bg, body, assoc)
				if serr != nil {
					r.Event("premise_live_signer_refused")
					fmt.Printf("PREMISE c36 verifier: live signer refused to sign: %v\n", serr)
					continue
				}
				trcState := "known"
				unseen := epoch == "update" && !verKnowsUpd
				if unseen {
					trcState = "unseen"
				}
				// fault plan: the first nFaulty attempts run under one transient fault
				nFaulty, fault := 0, ""
				p := rng.IntN(4)
				if p > 0 || (unseen && rng.IntN(2) == 0) {
					nFaulty = 1 + rng.IntN(2)
					kinds := append(append([]string{}, c36NotifyFaults...), c36ChainFaults...)
					if unseen && rng.IntN(3) > 0 {
						kinds = c36NotifyFaults
					}
					fault = pick(rng, kinds)
				}
				faultBit, faultyFailed := false, false
				for a := 0; a < nFaulty && !dead; a++ {
					_, err, pan, stack := attempt(v, sm, assoc, label, "", fault)
					if pan != nil {
						viol("C36:panic:"+mon.PanicSite(stack), fmt.Sprintf("Verify panicked: %v", pan))
						return
					}
					if fs.hits > 0 {
						faultBit = true
						r.Event("verifier_fault_hit")
					}
					if err != nil {
						faultyFailed = true
						r.Event("verifier_faulty_attempt_failed")
					}
					// must-not probes also while the fault lasts
					if rng.IntN(3) == 0 {
						how := pick(rng, []string{"signature-bit", "body-bit", "other-associated-data"})
						as := assoc
						if how == "other-associated-data" {
							as = []byte("assoc2")
						}
						_, perr, _, _ := attempt(v, c36Tamper(sm, how), as, label, "tampered:"+how, fault)
						r.Eval(1)
						if perr == nil {
							viol("C36:verifier:tampered-message-verifies/"+how, "a tampered message verified (during a transient fault)")
							return
						}
						r.Class("verifier/must-not/tampered/rejected")
					}
				}
				// fault-free attempts: the message must verify within two of them
				verifiedAt := 0
				var lastErr error
				inconclusive := false
				for a := 1; a <= 2 && verifiedAt == 0; a++ {
					v0 := time.Now()
					out, err, pan, stack := attempt(v, sm, assoc, label, "", "")
					v1 := time.Now()
					if pan != nil {
						viol("C36:panic:"+mon.PanicSite(stack), fmt.Sprintf("Verify panicked: %v", pan))
						return
					}
					if !validAt(v0) || !validAt(v1) {
						inconclusive = true
						break
					}
					if err == nil && bytes.Equal(out, body) {
						verifiedAt = a
					} else if err == nil {
						viol("C36:verifier:other-body-returned", "Verify returned a body different from the signed one")
						return
					}
					lastErr = err
				}
				if inconclusive {
					r.Inconclusive("time-bracket")
					continue
				}
				r.Eval(1)
				fk := "none"
				if nFaulty > 0 {
					fk = fault
					if !faultBit {
						fk += "(not-reached)"
					}
				}
				if verifiedAt == 0 {
					key := "C36:verifier:valid-rejected"
					if nFaulty > 0 {
						key = "C36:verifier:valid-rejected-after-transient-fault/" + fault
					}
					viol(key, fmt.Sprintf("a message of a valid generated signer (chain %s, signer TRC %s; verifier cache=%v, TRC %s at the verifying side, chain %s) "+
						"does not verify with a verifier bound to %s in two fault-free attempts after %d attempt(s) under fault %q: %v",
						c.Facts.Kind, sg.TRCID, useCache, trcState, chainWhere, ia, nFaulty, fault, lastErr))
					return
				}
				if lt := latestOfVer(); epoch == "update" && lt == w.Upd.ID().String() {
					if !verKnowsUpd {
						r.Event("verifier_learned_trc_update")
					}
					verKnowsUpd = true
				}
				outcome := "verified"
				if verifiedAt == 2 {
					outcome = "verified-at-second-fault-free-attempt" // observed, within the bound
				}
				r.Event("verifier_valid_verified")
				r.Class(fmt.Sprintf("verifier/cache=%v/trc-%s/chain-%s/root=%s/fault=%s/%s", useCache, trcState, chainWhere, c.Facts.Root, fk, outcome))
				dim := func(k string) {
					r.Class("verifier/dimension/" + k)
					c36DimCount[k]++
				}
				if unseen && faultBit && faultyFailed && slicesContains(c36NotifyFaults, fault) {
					dim(fmt.Sprintf("cache=%v/unseen-trc-update/failed-notification-then-retry/verified", useCache))
					c36DimCount[fmt.Sprintf("cache=%v/unseen-trc-update/failed-notification(%s)", useCache, fault)]++
					r.Event("verifier_retry_after_failed_trc_notification")
				}
				if faultBit && faultyFailed && slicesContains(c36ChainFaults, fault) {
					dim(fmt.Sprintf("cache=%v/failed-chain-lookup-then-retry/verified", useCache))
				}
				if len(epochs) == 2 && epoch == "update" {
					dim("trc-update-in-the-middle-of-the-history")
				}
				// must-not probes after the faults: wrong binding, tampered
				_, werr, _, _ := attempt(vOther, sm, assoc, label, "wrong-binding", "")
				r.Eval(1)
				if werr == nil {
					viol("C36:verifier:verifies-with-other-binding", fmt.Sprintf("a message signed by %s verified with a verifier bound to %s", ia, otherIA))
					return
				}
				r.Class("verifier/must-not/wrong-binding/rejected")
				how := pick(rng, []string{"signature-bit", "body-bit", "other-associated-data"})
				as := assoc
				if how == "other-associated-data" {
					as = []byte("assoc2")
				}
				_, terr, _, _ := attempt(v, c36Tamper(sm, how), as, label, "tampered:"+how, "")
				r.Eval(1)
				if terr == nil {
					viol("C36:verifier:tampered-message-verifies/"+how, "a tampered message verified")
					return
				}
				r.Class("verifier/must-not/tampered/rejected")
				r.Event("verifier_must_not_rejected")
			}
		}
	}
	if r.WantSample() && idx%41 == 3 {
		r.Sample(hist)
	}
	r.Event("verifier_history")
}

// c36DimCount counts, per exercised dimension, the judged messages (evidence).
var c36DimCount = map[string]int{}

func slicesContains(l []string, s string) bool {
	for _, x := range l {
		if x == s {
			return true
		}
	}
	return false
}
