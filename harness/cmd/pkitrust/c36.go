package main

import (
	"bytes"
	"context"
	"crypto"
	"crypto/ecdsa"
	"crypto/x509"
	"fmt"
	"math/rand/v2"
	"slices"
	"time"
	"verif/monlog"

	"github.com/scionproto/scion/pkg/addr"
	"github.com/scionproto/scion/pkg/scrypto/signed"
	"github.com/scionproto/scion/private/trust"

	"verif/mon"
	gen "verif/pkitrustgen"
)

type c36Ring []crypto.Signer

func (k c36Ring) PrivateKeys(context.Context) ([]crypto.Signer, error) { return k, nil }

type c36Chain struct {
	Key   int // index in the key ring
	Spec  chainSpec
	OwnIA bool
	Facts chainFacts
	asNB  time.Time
	asNA  time.Time
	raw   string
}

// c36Expect is the reference outcome for one key at one instant.
type c36Expect struct {
	Tier   string // "none", "active", "grace"
	Why    string
	MaxNA  time.Time // NotAfter of the latest-expiring eligible chain
	Expiry time.Time
	// evidence only: how non-trivial the selection was
	Eligible   int  // chains eligible in the chosen tier
	LaterDecoy bool // a chain of the same key expires later but is not eligible in that tier
}

func (e c36Expect) eq(o c36Expect) bool {
	return e.Tier == o.Tier && e.MaxNA.Equal(o.MaxNA) && e.Expiry.Equal(o.Expiry)
}

// c36Model computes, from the plan, what a generated signer for key k may
// look like at instant t.
func c36Model(m tlModel, chains []*c36Chain, k int, t time.Time) c36Expect {
	if !m.latestValid(t) {
		return c36Expect{Tier: "none", Why: "latest-trc-not-valid"}
	}
	var active, grace []*c36Chain
	for _, c := range chains {
		if c.Key != k || !c.OwnIA || !within(t, c.asNB, c.asNA) {
			continue
		}
		if m.verifiesLatest(c.Facts, t) {
			active = append(active, c)
		} else if m.inGrace(t) && m.PredInDB && m.verifiesPred(c.Facts, t) {
			grace = append(grace, c)
		}
	}
	latest := func(l []*c36Chain) time.Time {
		mx := l[0].asNA
		for _, c := range l[1:] {
			if c.asNA.After(mx) {
				mx = c.asNA
			}
		}
		return mx
	}
	decoy := func(mx time.Time, elig []*c36Chain) bool {
		for _, c := range chains {
			if c.Key != k || !c.asNA.After(mx) {
				continue
			}
			in := false
			for _, e := range elig {
				in = in || e == c
			}
			if !in {
				return true
			}
		}
		return false
	}
	switch {
	case len(active) > 0:
		mx := latest(active)
		return c36Expect{Tier: "active", MaxNA: mx, Expiry: minTime(mx, m.Latest.NA),
			Eligible: len(active), LaterDecoy: decoy(mx, active)}
	case len(grace) > 0:
		mx := latest(grace)
		return c36Expect{Tier: "grace", MaxNA: mx,
			Expiry:   minTime(mx, m.Latest.NB.Add(m.Latest.Grace), m.Pred.NA),
			Eligible: len(grace), LaterDecoy: decoy(mx, grace)}
	}
	why := "no-verifiable-chain"
	if m.IsUpdate && !m.inGrace(t) {
		why = "no-chain-under-active-trc-and-grace-over"
	}
	return c36Expect{Tier: "none", Why: why}
}

func samePub(a, b crypto.PublicKey) bool {
	x, ok1 := a.(*ecdsa.PublicKey)
	y, ok2 := b.(*ecdsa.PublicKey)
	return ok1 && ok2 && x.Equal(y)
}

type c36Stats struct {
	signers, expectedButMissing, signOK, verifyOK, refused int
}

func runC36Case(r *mon.Run, pool *gen.Pool, rng *rand.Rand, idx int, tl timeline, st *c36Stats) {
	ctx := context.Background()
	dr := pool.Drawer(rng)
	w := buildWorld(dr, 1, tl, time.Now())
	d := newTrustDB()
	defer d.Close()
	w.insertTRCs(d)
	ia, otherIA := w.ISD.IAOf(3), w.ISD.IAOf(4)

	nKeys := 1 + rng.IntN(3)
	var ring c36Ring
	var keys []gen.Key
	for k := 0; k < nKeys; k++ {
		curve := pick(rng, []string{"", "", "", "", "P-384", "P-521"})
		key := dr.Next(curve)
		keys = append(keys, key)
		ring = append(ring, key)
	}
	roots := []string{"old", "kept", "rogue", "old"}
	if tl.Update {
		roots = []string{"old", "new", "kept", "rogue", "old", "new"}
	}
	naChoices := []time.Duration{1 * hour, 90 * time.Minute, 3 * hour, 3 * hour, 5 * hour, 7 * hour, 20 * hour}
	var chains []*c36Chain
	byRaw := map[string]*c36Chain{}
	for k := range keys {
		for n := rng.IntN(5); n > 0; n-- {
			cs := chainSpec{Root: pick(rng, roots), IA: ia, NBOff: -2 * hour, NAOff: pick(rng, naChoices)}
			own := true
			switch x := rng.IntN(12); {
			case x < 7:
			case x < 9:
				cs.Dev = pick(rng, c34DBDevs)
			case x < 10:
				cs.NBOff, cs.NAOff = -6*hour, -1*hour
			case x < 11:
				cs.NBOff = 1 * hour
			default:
				cs.IA, own = otherIA, false
				cs.NAOff = 9 * hour // a tempting decoy: expires last
			}
			if tl.NearEdge && rng.IntN(4) == 0 {
				cs.NAOff = time.Duration(rng.IntN(7)-3) * time.Second
			}
			chain, f := w.issue(dr, cs, keys[k])
			c := &c36Chain{Key: k, Spec: cs, OwnIA: own, Facts: f, asNB: chain[0].NotBefore, asNA: chain[0].NotAfter, raw: rawKey(chain)}
			if _, err := d.InsertChain(ctx, chain); err != nil {
				panic(fmt.Sprintf("pkitrust: c36 insert chain %+v: %v", cs, err))
			}
			chains = append(chains, c)
			byRaw[c.raw] = c
		}
	}
	type witness struct {
		Case     int
		Timeline string
		Keys     int
		Chains   []c36Chain
		T0, T1   string
		Err      string   `json:",omitempty"`
		Signers  []string `json:",omitempty"`
		Expected []string `json:",omitempty"`
	}
	wit := witness{Case: idx, Timeline: tl.Name, Keys: nKeys}
	for _, c := range chains {
		wit.Chains = append(wit.Chains, *c)
	}

	// the order in which a store returns the chains of a key is not part of its
	// contract: hand them over as stored, reversed, or shuffled
	orderMode := rng.IntN(3)
	var sdb trust.DB = d
	if orderMode != 0 {
		sdb = c36OrderDB{DB: d, reverse: orderMode == 1, perm: rng.Uint64()}
	}
	r.Class(fmt.Sprintf("chain-order/%s", []string{"as-stored", "reversed", "shuffled"}[orderMode]))
	g := trust.SignerGen{IA: mustIA(ia), KeyRing: ring, DB: sdb}
	var signers []trust.Signer
	var err error
	t0 := time.Now()
	pan, stack := mon.Try(func() { signers, err = g.Generate(ctx) })
	t1 := time.Now()
	wit.T0, wit.T1 = fmtOff(t0.Sub(w.TGen)), fmtOff(t1.Sub(w.TGen))
	if err != nil {
		wit.Err = err.Error()
	}
	if pan != nil {
		r.Eval(1)
		r.Violation("C36:panic:"+mon.PanicSite(stack), fmt.Sprintf("Generate panicked: %v", pan), wit)
		return
	}
	exp := make([]c36Expect, nKeys)
	for k := range keys {
		e0, e1 := c36Model(w.Model, chains, k, t0), c36Model(w.Model, chains, k, t1)
		if !e0.eq(e1) {
			r.Inconclusive("time-bracket")
			return
		}
		exp[k] = e0
		wit.Expected = append(wit.Expected, fmt.Sprintf("key%d:%s exp=%s maxNA=%s", k, e0.Tier+e0.Why,
			fmtOff(e0.Expiry.Sub(w.TGen)), fmtOff(e0.MaxNA.Sub(w.TGen))))
	}
	r.Eval(1)
	seen := map[int]bool{}
	for _, sg := range signers {
		k := -1
		for i, key := range keys {
			if samePub(sg.PrivateKey.Public(), key.Public()) {
				k = i
			}
		}
		desc := fmt.Sprintf("key%d exp=%s grace=%v", k, fmtOff(sg.Expiration.Sub(w.TGen)), sg.InGrace)
		wit.Signers = append(wit.Signers, desc)
		st.signers++
		r.Event("signer_generated")
		if k < 0 {
			r.Violation("C36:signer-with-foreign-key", "generated signer uses a key that is not in the key ring", wit)
			continue
		}
		seen[k] = true
		e := exp[k]
		var c *c36Chain
		if len(sg.Chain) == 2 {
			c = byRaw[rawKey(sg.Chain)]
		}
		switch {
		case c == nil:
			r.Violation("C36:unknown-chain", "generated signer carries a chain that is not in the store", wit)
			continue
		case !samePub(sg.Chain[0].PublicKey, sg.PrivateKey.Public()) || c.Key != k:
			r.Violation("C36:chain-does-not-authenticate-key", "the signer's chain certifies another key", wit)
			continue
		case !c.OwnIA || !sg.IA.Equal(mustIA(ia)):
			r.Violation("C36:chain-of-other-as", "the signer's chain belongs to another ISD-AS", wit)
			continue
		}
		r.Class(fmt.Sprintf("generate/%s/%s/chain=%s", tl.Name, e.Tier, c.Facts.Kind))
		okLatest := w.Model.verifiesLatest(c.Facts, t0) && within(t0, c.asNB, c.asNA)
		okPred := w.Model.inGrace(t0) && w.Model.PredInDB && w.Model.verifiesPred(c.Facts, t0) && within(t0, c.asNB, c.asNA)
		switch {
		case e.Tier == "none":
			r.Violation("C36:signer-without-verifiable-chain/"+e.Why+"/"+tlKey(tl),
				fmt.Sprintf("a signer was generated for key %d (chain %s) although no chain is currently verifiable (%s)", k, c.Facts.Kind, e.Why), wit)
			continue
		case e.Tier == "active" && !okLatest && okPred:
			r.Violation("C36:grace-chain-preferred-over-active",
				fmt.Sprintf("key %d: a chain only verifiable against the predecessor TRC was used although one verifies against the active TRC", k), wit)
			continue
		case (e.Tier == "active" && !okLatest) || (e.Tier == "grace" && !okPred):
			r.Violation("C36:unverifiable-chain-used", fmt.Sprintf("key %d: chain %s does not verify against the %s TRC", k, c.Facts.Kind, e.Tier), wit)
			continue
		case !c.asNA.Equal(e.MaxNA):
			r.Violation("C36:not-latest-expiring/"+e.Tier,
				fmt.Sprintf("key %d: chain expiring %s used, the latest-expiring eligible one expires %s", k,
					fmtOff(c.asNA.Sub(w.TGen)), fmtOff(e.MaxNA.Sub(w.TGen))), wit)
			continue
		case !sg.Expiration.Equal(e.Expiry):
			r.Violation("C36:expiry/"+e.Tier,
				fmt.Sprintf("key %d: signer expires %s, expected %s (min of chain, TRC validity%s)", k,
					fmtOff(sg.Expiration.Sub(w.TGen)), fmtOff(e.Expiry.Sub(w.TGen)),
					map[bool]string{true: ", grace end, predecessor validity", false: ""}[e.Tier == "grace"]), wit)
			continue
		}
		bound := "chain"
		if !e.Expiry.Equal(e.MaxNA) {
			bound = "trc-or-grace"
		}
		r.Class(fmt.Sprintf("expiry/%s/bound-by=%s", e.Tier, bound))
		r.Class(fmt.Sprintf("select/%s/eligible=%d/later-expiring-ineligible-chain=%v", e.Tier, min(e.Eligible, 3), e.LaterDecoy))
		c36SignVerify(r, w, d, sg, c, wit, st)
	}
	if len(signers) == 0 {
		r.Event("generate_no_signer")
		r.Class("generate/" + tl.Name + "/no-signer")
	}
	for k := range keys {
		if exp[k].Tier != "none" && !seen[k] && !tl.PredMissing {
			st.expectedButMissing++
			r.Event("premise_signer_missing")
			if st.expectedButMissing <= 3 {
				fmt.Printf("PREMISE c36: no signer for key %d: %+v err=%v\n", k, wit, err)
			}
		}
	}
	if r.WantSample() && idx%37 == 4 {
		r.Sample(wit)
	}
}

// c36SignVerify: messages signed by a live signer verify with a verifier
// bound to its ISD-AS; an expired signer refuses.
func c36SignVerify(r *mon.Run, w *isdWorld, d trust.DB, sg trust.Signer, c *c36Chain, wit any, st *c36Stats) {
	ctx := monlog.Alternate() // log level is a configuration dimension
	msg := []byte(fmt.Sprintf("message for %s", c.Facts.Kind))
	assoc := []byte("associated")
	t0 := time.Now()
	sm, err := sg.Sign(ctx, msg, assoc)
	t1 := time.Now()
	exp0, exp1 := t0.After(sg.Expiration), t1.After(sg.Expiration)
	switch {
	case exp0 != exp1:
		r.Inconclusive("time-bracket")
		return
	case exp0 && err == nil:
		r.Eval(1)
		r.Violation("C36:expired-signer-signs/generated", fmt.Sprintf("Sign succeeded %s after the signer's expiration", t0.Sub(sg.Expiration)), wit)
		return
	case exp0:
		r.Eval(1)
		st.refused++
		r.Event("expired_signer_refused")
		r.Class("sign/generated/expired/refused")
		return
	case err != nil:
		r.Event("premise_live_signer_refused")
		fmt.Printf("PREMISE c36: live signer refused to sign: %v\n", err)
		return
	}
	st.signOK++
	prov := trust.FetchingProvider{DB: d, Recurser: trust.LocalOnlyRecurser{}, Router: trust.LocalRouter{IA: sg.IA}, Fetcher: &c34Fetcher{}}
	v := trust.Verifier{BoundIA: sg.IA, Engine: prov}
	v0 := time.Now()
	out, verr := v.Verify(ctx, sm, assoc)
	v1 := time.Now()
	tr0, _ := w.Model.trusted(c.Facts, v0)
	tr1, _ := w.Model.trusted(c.Facts, v1)
	if !tr0 || !tr1 {
		// the chain stopped being verifiable between generation and verification
		r.Inconclusive("time-bracket")
		return
	}
	r.Eval(1)
	if verr != nil || out == nil || !bytes.Equal(out.Body, msg) {
		r.Violation("C36:signed-message-does-not-verify", fmt.Sprintf("message signed by the generated signer does not verify with a verifier bound to %s: %v", sg.IA, verr), wit)
		return
	}
	st.verifyOK++
	r.Event("signed_message_verified")
	r.Class("sign/generated/live/verified")
}

// c36Direct constructs signers with a chosen expiration around "now".
func c36Direct(r *mon.Run, pool *gen.Pool, rng *rand.Rand, idx int, st *c36Stats) {
	ctx := monlog.Alternate() // log level is a configuration dimension
	dr := pool.Drawer(rng)
	now := time.Now()
	offs := []time.Duration{-2 * hour, -time.Minute, -time.Second, -300 * time.Millisecond, 300 * time.Millisecond, time.Second, time.Minute, 2 * hour}
	if r.Thorough() {
		offs = append(offs, -50*time.Millisecond, -5*time.Millisecond, -time.Millisecond, time.Millisecond, 5*time.Millisecond, 50*time.Millisecond)
	}
	off := pick(rng, offs)
	key := dr.Next(pick(rng, []string{"", "", "P-384", "P-521"}))
	root := gen.NewRoot(dr.Next(""), "direct root", "1-ff00:0:101", now.Add(-24*hour), now.Add(24*hour))
	chain := gen.IssueChain(gen.ChainPlan{IA: "1-ff00:0:105", CAIA: "1-ff00:0:101",
		CANotBefore: now.Add(-12 * hour), CANotAfter: now.Add(12 * hour),
		ASNotBefore: now.Add(-6 * hour), ASNotAfter: now.Add(6 * hour)}, root, dr.Next(""), key, nil)
	algo, err := signed.SelectSignatureAlgorithm(key.Public())
	if err != nil {
		panic(err)
	}
	exp := time.Now().Add(off)
	sg := trust.Signer{PrivateKey: key, Algorithm: algo, IA: addr.MustIAFrom(1, 0xff00_0000_0105),
		Subject: chain[0].Subject, Chain: chain, SubjectKeyID: chain[0].SubjectKeyId, Expiration: exp}
	op := pick(rng, []string{"Sign", "SignCMS"})
	var serr error
	t0 := time.Now()
	pan, stack := mon.Try(func() {
		if op == "Sign" {
			_, serr = sg.Sign(ctx, []byte("m"), []byte("a"))
		} else {
			_, serr = sg.SignCMS(ctx, []byte("m"))
		}
	})
	t1 := time.Now()
	wit := map[string]any{"op": op, "expiration_offset": off.String(), "t0": t0.Sub(exp).String(), "t1": t1.Sub(exp).String(), "err": fmt.Sprint(serr)}
	if pan != nil {
		r.Eval(1)
		r.Violation("C36:panic:"+mon.PanicSite(stack), fmt.Sprintf("%s panicked: %v", op, pan), wit)
		return
	}
	e0, e1 := t0.After(exp), t1.After(exp)
	if e0 != e1 {
		r.Inconclusive("time-bracket")
		return
	}
	r.Eval(1)
	switch {
	case e0 && serr == nil:
		r.Violation("C36:expired-signer-signs/"+op, fmt.Sprintf("%s succeeded %s after the expiration", op, t0.Sub(exp)), wit)
	case e0:
		st.refused++
		r.Event("expired_signer_refused")
		r.Class("sign/direct/" + op + "/expired/refused")
	case serr != nil:
		r.Event("premise_live_signer_refused")
		fmt.Printf("PREMISE c36 direct: live signer refused: %v\n", serr)
	default:
		r.Event("live_signer_signed")
		r.Class("sign/direct/" + op + "/live/signed")
	}
	if r.WantSample() && idx%29 == 2 {
		r.Sample(wit)
	}
}

func checkC36(r *mon.Run) {
	r.Rule = "key ring (1-3 keys, P-256/384/521) × per-key chain set (issuing root old/new/kept/rogue, mis-issued variants, expired / " +
		"not-yet-valid / other-AS decoys, expiry offsets with ties and beyond the TRC's validity) × TRC timeline (base only, update in grace, " +
		"grace over, grace zero, latest not yet valid / expired, predecessor missing / expired) on a real sqlite trust DB; SignerGen.Generate is " +
		"compared with the selection model at both bracket instants; every accepted signer signs a message that must verify through " +
		"trust.Verifier bound to the ISD-AS (real FetchingProvider); expired signers (generated and directly constructed, Sign and SignCMS) must " +
		"refuse. Verifier histories: one trust.Verifier (with / without Cache) bound to the signer's ISD-AS over a FetchingProvider on a sqlite " +
		"trust DB + scripted remote lives through messages of signers generated before/after a TRC update it has not seen; the first 0-2 attempts " +
		"per message run under one transient fault (TRC/chain fetch, TRC/chain read, TRC/chain write, expired context, stale/empty answers); after " +
		"the faults a valid signer's message must verify within 2 fault-free attempts, wrongly bound / tampered messages never. " +
		"class = timeline × tier × chain kind, expiry bound, sign outcome; verifier: cache × TRC seen × chain location × root × fault × outcome"
	r.Assumptions = []string{
		"a signer not being generated for a key is not judged (the statement constrains generated signers); the run is reported broken unless every key with an eligible chain got a signer",
		"chains of another ISD-AS are not eligible (a verifier bound to the signer's ISD-AS could not find them)",
		"the InGrace flag itself is not judged, only chain choice and expiry",
		"verifier histories: a signer is 'valid' if the selection model (evaluated at both bracket instants of the attempt) yields its chain for its key and it has not expired; attempts made while a fault is injected are not judged; no verdict waits for a cache entry to expire",
	}
	pool := gen.NewPool(64, 4, 4)
	st := &c36Stats{}
	rng := r.Rand("c36")
	n := r.Pick(400, 8000)
	for i := 0; i < n; i++ {
		tl := timelines[i%len(timelines)]
		if r.Thorough() && i%3 == 2 {
			tl = edgeTimeline(rng)
		}
		runC36Case(r, pool, rng, i, tl, st)
	}
	rngD := r.Rand("c36-direct")
	nd := r.Pick(300, 6000)
	for i := 0; i < nd; i++ {
		c36Direct(r, pool, rngD, i, st)
	}
	// verifier side with state and faults
	rngV := r.Rand("c36-verifier")
	nv := r.Pick(100, 2400)
	for i := 0; i < nv; i++ {
		runC36VerifierHistory(r, pool, rngV, i)
	}
	r.Extra("verifier_histories", nv)
	r.Extra("verifier_dimension_messages", c36DimCount)
	r.Extra("signers_generated", st.signers)
	r.Extra("signed_and_verified", st.verifyOK)
	r.Extra("expired_refusals", st.refused)
	r.Extra("eligible_keys_without_signer", st.expectedButMissing)
	if st.expectedButMissing == 0 && r.Events("premise_live_signer_refused") == 0 && st.verifyOK > 0 {
		r.Class("premise/eligible-keys-get-signers-and-live-signers-sign")
	}
	r.RequireClasses("premise/eligible-keys-get-signers-and-live-signers-sign",
		"sign/generated/expired/refused", "sign/generated/live/verified",
		"verifier/dimension/cache=true/unseen-trc-update/failed-notification-then-retry/verified",
		"verifier/dimension/cache=false/unseen-trc-update/failed-notification-then-retry/verified",
		"verifier/dimension/cache=true/failed-chain-lookup-then-retry/verified",
		"verifier/dimension/cache=false/failed-chain-lookup-then-retry/verified",
		"verifier/dimension/trc-update-in-the-middle-of-the-history",
		"verifier/must-not/wrong-binding/rejected", "verifier/must-not/tampered/rejected")
	r.Require(int64(n/2), 30, "signer_generated", "generate_no_signer", "signed_message_verified", "expired_signer_refused", "live_signer_signed",
		"verifier_history", "verifier_valid_verified", "verifier_fault_hit", "verifier_faulty_attempt_failed", "verifier_learned_trc_update",
		"verifier_retry_after_failed_trc_notification", "verifier_must_not_rejected")
}

// c36OrderDB returns the chains of a query in another order than the store does.
type c36OrderDB struct {
	trust.DB
	reverse bool
	perm    uint64
}

func (o c36OrderDB) Chains(ctx context.Context, q trust.ChainQuery) ([][]*x509.Certificate, error) {
	cs, err := o.DB.Chains(ctx, q)
	if err != nil || len(cs) < 2 {
		return cs, err
	}
	out := append([][]*x509.Certificate{}, cs...)
	if o.reverse {
		slices.Reverse(out)
		return out, nil
	}
	x := o.perm | 1
	for i := len(out) - 1; i > 0; i-- {
		x = x*6364136223846793005 + 1442695040888963407
		j := int((x >> 33) % uint64(i+1))
		out[i], out[j] = out[j], out[i]
	}
	return out, nil
}
