package main

import (
	"bytes"
	"context"
	"crypto/x509"
	"fmt"
	"math/rand/v2"
	"net"
	"sync"
	"time"
	"verif/monlog"

	"github.com/scionproto/scion/pkg/scrypto/cppki"
	"github.com/scionproto/scion/private/trust"

	"verif/mon"
	gen "verif/pkitrustgen"
)

// ---------------------------------------------------------------------------
// Part C: FetchingProvider.GetChains with a SLOW remote (time passes during a
// dependency call): no chain is stored locally, the latest TRC (no successor,
// not in grace) is valid when the call starts and reaches NotAfter while
// Fetcher.Chains is in flight.
//
// Oracle (needs no time bracket): a chain that verifies under NO TRC of the
// world - its CA is signed by a root that is in no TRC, or its AS signature is
// corrupted - must never be handed out nor stored in the trust DB, whenever
// the call runs. What happens to a genuine chain whose TRC expired during the
// call is recorded only (the statement's "while that TRC is valid" is
// ambiguous for a call that straddles NotAfter).
// ---------------------------------------------------------------------------

type c34SlowFetcher struct {
	chains           [][]*x509.Certificate
	until            time.Time // answer at this wall-clock instant
	calls            int
	called, answered time.Time
}

func (f *c34SlowFetcher) Chains(context.Context, trust.ChainQuery, net.Addr) ([][]*x509.Certificate, error) {
	f.calls++
	f.called = time.Now()
	for {
		d := f.until.Sub(time.Now())
		if d <= 0 {
			break
		}
		time.Sleep(d)
	}
	f.answered = time.Now()
	return f.chains, nil
}

func (f *c34SlowFetcher) TRC(context.Context, cppki.TRCID, net.Addr) (cppki.SignedTRC, error) {
	return cppki.SignedTRC{}, fmt.Errorf("not scripted")
}

type c34SlowChain struct {
	Kind      string // rogue | forged | genuine
	Root      string
	Untrusted bool // verifies under no TRC of the world, at any time
	HandedOut bool
	Stored    bool
	raw       string
}

type c34SlowCase struct {
	Case           int
	Timeline       string
	Reply          string // rogue | genuine | forged | mixed
	Query          string
	NotAfterIn     string // latest TRC's NotAfter relative to the start of GetChains
	FetcherCalls   int
	FetcherCalled  string // relative to the latest TRC's NotAfter
	FetcherAnswers string // relative to the latest TRC's NotAfter
	Returns        string // GetChains return, relative to the latest TRC's NotAfter
	Exercised      bool   // fetcher called before NotAfter and answered after it
	Chains         []c34SlowChain
	Returned       int
	Err            string
	Panic          string
	panicStack     string
	selfCheck      string // generator self-check failure, "" = clean
}

var c34SlowReplies = []string{"rogue", "genuine", "forged", "mixed"}

// forgeChain returns a copy of chain whose AS certificate carries a corrupted
// signature (one bit of the ECDSA r value flipped inside the DER encoding;
// the certificate still parses).
func forgeChain(chain []*x509.Certificate) ([]*x509.Certificate, error) {
	as := chain[0]
	raw := append([]byte(nil), as.Raw...)
	pos := bytes.LastIndex(raw, as.Signature)
	if pos < 0 || len(as.Signature) < 16 {
		return nil, fmt.Errorf("signature not found in raw certificate")
	}
	raw[pos+8] ^= 0x01
	forged, err := x509.ParseCertificate(raw)
	if err != nil {
		return nil, err
	}
	return []*x509.Certificate{forged, chain[1]}, nil
}

// runC34Slow runs one case; it only touches its own world, DB and PRNG and
// reports through the returned record (judged by the caller, sequentially).
func runC34Slow(pool *gen.Pool, rng *rand.Rand, ctx context.Context, i int) *c34SlowCase {
	sc := &c34SlowCase{Case: i, Reply: c34SlowReplies[i%len(c34SlowReplies)]}
	dr := pool.Drawer(rng)

	// The latest TRC's NotAfter is a whole second, 1.2 s .. 2.2 s from now.
	now := time.Now()
	naOff := 2 * time.Second
	if now.Truncate(time.Second).Add(naOff).Sub(now) < 1200*time.Millisecond {
		naOff += time.Second
	}
	var tl timeline
	genuineRoots := []string{"old", "kept"}
	if (i+i/len(c34SlowReplies))%2 == 0 {
		tl = timeline{Name: "slow-base-expiring", BaseNB: -10 * hour, BaseNA: naOff}
	} else {
		// latest is an update whose grace period is over: the predecessor is
		// not part of the active set.
		tl = timeline{Name: "slow-update-grace-over-expiring", BaseNB: -10 * hour, BaseNA: 10 * hour, Update: true,
			UpdNB: -3 * hour, UpdNA: naOff, Grace: hour}
		genuineRoots = []string{"new", "kept"}
	}
	sc.Timeline = tl.Name
	w := buildWorld(dr, 1, tl, now)
	notAfter := w.Model.Latest.NA
	d := newTrustDB()
	defer d.Close()
	w.insertTRCs(d)
	ia := w.ISD.IAOf(3)
	asKey := dr.Next("")

	var kinds []string
	switch sc.Reply {
	case "mixed":
		kinds = []string{"rogue", "genuine"}
		if rng.IntN(2) == 0 {
			kinds = []string{"genuine", "rogue"}
		}
	default:
		kinds = []string{sc.Reply}
	}
	fetcher := &c34SlowFetcher{until: notAfter.Add(time.Duration(150+rng.IntN(200)) * time.Millisecond)}
	var trcRoots []gen.Ent
	trcRoots = append(trcRoots, w.Base.Roots...)
	if tl.Update {
		trcRoots = append(trcRoots, w.Upd.Roots...)
	}
	for _, kind := range kinds {
		cs := chainSpec{Root: pick(rng, genuineRoots), IA: ia, NBOff: -2 * hour, NAOff: 6 * hour}
		if kind == "rogue" {
			cs.Root = "rogue"
		}
		chain, _ := w.issue(dr, cs, asKey)
		e := c34SlowChain{Kind: kind, Root: cs.Root}
		// Generator self-check with crypto/x509 only (shares nothing with the
		// code under test): the untrusted chains really verify under no root
		// of any TRC of the world, the genuine one is rooted in the latest.
		switch kind {
		case "forged":
			var err error
			if chain, err = forgeChain(chain); err != nil {
				sc.selfCheck = "forging: " + err.Error()
				return sc
			}
			if chain[0].CheckSignatureFrom(chain[1]) == nil {
				sc.selfCheck = "forged AS signature still verifies"
				return sc
			}
			e.Untrusted = true
		case "rogue":
			for _, root := range trcRoots {
				if chain[1].CheckSignatureFrom(root.Cert) == nil {
					sc.selfCheck = "rogue CA verifies under a TRC root"
					return sc
				}
			}
			e.Untrusted = true
		default:
			if chain[0].CheckSignatureFrom(chain[1]) != nil || chain[1].CheckSignatureFrom(w.root(cs.Root).Cert) != nil {
				sc.selfCheck = "genuine chain does not verify"
				return sc
			}
		}
		e.raw = rawKey(chain)
		sc.Chains = append(sc.Chains, e)
		fetcher.chains = append(fetcher.chains, chain)
	}

	prov := trust.FetchingProvider{DB: d, Recurser: trust.LocalOnlyRecurser{}, Router: trust.LocalRouter{IA: mustIA(ia)}, Fetcher: fetcher}
	q := trust.ChainQuery{IA: mustIA(ia), SubjectKeyID: gen.SKID(asKey.Public())}
	sc.Query = "ia+skid"
	if rng.IntN(3) == 0 {
		q.SubjectKeyID = nil
		sc.Query = "ia"
	}

	var res [][]*x509.Certificate
	var err error
	t0 := time.Now()
	pan, stack := mon.Try(func() { res, err = prov.GetChains(ctx, q) })
	t1 := time.Now()
	sc.NotAfterIn = fmtMs(notAfter.Sub(t0))
	sc.Returns = fmtMs(t1.Sub(notAfter))
	sc.FetcherCalls = fetcher.calls
	if fetcher.calls > 0 {
		sc.FetcherCalled = fmtMs(fetcher.called.Sub(notAfter))
		sc.FetcherAnswers = fmtMs(fetcher.answered.Sub(notAfter))
	}
	sc.Exercised = fetcher.calls == 1 && fetcher.called.Before(notAfter) && fetcher.answered.After(notAfter)
	if err != nil {
		sc.Err = err.Error()
	}
	if pan != nil {
		sc.Panic, sc.panicStack = fmt.Sprint(pan), stack
		return sc
	}
	sc.Returned = len(res)
	stored, derr := d.Chains(context.Background(), trust.ChainQuery{IA: mustIA(ia)})
	if derr != nil {
		panic("pkitrust: reading chains back: " + derr.Error())
	}
	for k := range sc.Chains {
		e := &sc.Chains[k]
		for _, c := range res {
			if rawKey(c) == e.raw {
				e.HandedOut = true
			}
		}
		for _, c := range stored {
			if rawKey(c) == e.raw {
				e.Stored = true
			}
		}
	}
	return sc
}

func fmtMs(d time.Duration) string { return fmt.Sprintf("%+dms", d.Milliseconds()) }

// runC34SlowPhase runs the slow-fetch cases concurrently (each one sleeps for
// one to two real seconds) and judges them in case order.
func runC34SlowPhase(r *mon.Run, pool *gen.Pool, st *c34Stats) {
	n := r.Pick(4, 16)
	out := make([]*c34SlowCase, n)
	var wg sync.WaitGroup
	for i := 0; i < n; i++ {
		rng := r.Rand(fmt.Sprint("c34-slow-", i))
		ctx := monlog.Alternate()
		wg.Add(1)
		go func() {
			defer wg.Done()
			out[i] = runC34Slow(pool, rng, ctx, i)
		}()
	}
	wg.Wait()
	for _, sc := range out {
		if sc.selfCheck != "" {
			st.selfCheckFailed++
			r.Inconclusive("generator-self-check")
			fmt.Printf("SELF-CHECK c34 slow case %d: %s\n", sc.Case, sc.selfCheck)
			continue
		}
		r.Eval(1)
		if sc.Panic != "" {
			r.Violation("C34:panic:"+mon.PanicSite(sc.panicStack), "GetChains panicked with a slow fetcher: "+sc.Panic, sc)
			continue
		}
		phase := "trc-expired-during-fetch"
		if sc.Exercised {
			r.Event("slow_fetch_case")
		} else {
			// The call did not straddle NotAfter (machine stalled). The
			// judgement of untrusted chains does not depend on time, so it is
			// still made, but the case does not count as exercised.
			phase = "slow-fetch"
			r.Event("slow_fetch_case_not_straddling")
			r.Inconclusive("slow-fetch-not-straddling")
			fmt.Printf("NOTE c34 slow case %d did not straddle NotAfter: %+v\n", sc.Case, *sc)
		}
		for _, e := range sc.Chains {
			outcome := "refused"
			switch {
			case e.HandedOut && e.Stored:
				outcome = "handed-out"
			case e.HandedOut:
				outcome = "handed-out-not-stored"
			case e.Stored:
				outcome = "stored-not-handed-out"
			}
			if sc.Exercised {
				r.Class(fmt.Sprintf("slow-fetch/%s/%s", e.Kind, outcome))
				r.Class(fmt.Sprintf("slow-fetch/%s/reply-%s/%s/%s", sc.Timeline, sc.Reply, e.Kind, outcome))
			} else {
				r.Class(fmt.Sprintf("slow-fetch-not-straddling/%s/%s", e.Kind, outcome))
			}
			if !e.Untrusted {
				// genuine chain, TRC expired during the call: recorded only
				r.Event("slow_fetch_genuine_" + outcome)
				continue
			}
			why := "untrusted-root"
			if e.Kind == "forged" {
				why = "forged-signature"
			}
			switch {
			case e.HandedOut:
				r.Violation(fmt.Sprintf("C34:provider-hands-out/%s/%s", why, phase),
					fmt.Sprintf("GetChains handed out a %s chain (root %q) that verifies under no TRC of the ISD; the latest TRC (%s) reached NotAfter "+
						"while the remote fetch was in flight (fetcher answered %s relative to NotAfter); stored in the trust DB: %v; expected: refused",
						e.Kind, e.Root, sc.Timeline, sc.FetcherAnswers, e.Stored), sc)
			case e.Stored:
				r.Violation(fmt.Sprintf("C34:provider-stores/%s/%s", why, phase),
					fmt.Sprintf("GetChains inserted a %s chain (root %q) that verifies under no TRC of the ISD into the trust DB (timeline %s, "+
						"fetcher answered %s relative to NotAfter); expected: neither stored nor handed out", e.Kind, e.Root, sc.Timeline, sc.FetcherAnswers), sc)
			default:
				r.Event("slow_fetch_untrusted_refused")
			}
		}
		if sc.Case < 2 {
			r.Sample(map[string]any{"part": "GetChains/slow-fetch", "case": sc})
		}
	}
}
