// Package mon is the shared monitor runtime of the verif harness: seeded PRNG,
// thread-safe counters of observed events and distinct classes, three-valued
// verdicts, known-findings lookup, replay files and the evidence writer.
//
// The monitor's own state is guarded by its own mutex and is never touched
// while holding a lock of the code under test.
package mon

import (
	"encoding/json"
	"flag"
	"fmt"
	"math/rand/v2"
	"os"
	"path/filepath"
	"runtime/debug"
	"sort"
	"strconv"
	"strings"
	"sync"
	"time"
)

// VerifDir is the root of the verification tree. Overridable for snapshots.
func VerifDir() string {
	if d := os.Getenv("VERIF_DIR"); d != "" {
		return d
	}
	return "/verif"
}

type finding struct {
	Property string `json:"property"`
	Key      string `json:"key"`
	Status   string `json:"status"`
	Commit   string `json:"commit,omitempty"`
	What     string `json:"what"`
}

// Run accumulates what one check observed.
type Run struct {
	ID    string
	Tier  string
	Seed  int64
	Level string

	Rule        string
	Assumptions []string
	Exhaustive  bool

	start time.Time

	mu           sync.Mutex
	evals        int64
	classes      map[string]struct{}
	events       map[string]int64
	samples      []any
	maxSamples   int
	violations   int
	violKeys     map[string]int
	knownHit     map[string]int
	inconclusive map[string]int64
	extra        map[string]any
	minEvals     int64
	minClasses   int
	needEvents   []string
	needClasses  []string
	known        []finding
	replayPath   string
	maxViolPrint int
}

var (
	flagTier   = flag.String("tier", "", "quick|thorough (default: $VERIF_TIER or quick)")
	flagSeed   = flag.Int64("seed", -1, "PRNG seed (default: $VERIF_SEED or 1)")
	flagReplay = flag.String("replay", "", "replay file to re-run")
	flagEvid   = flag.String("evidence", "", "evidence output path (default /verif/evidence/<id>.json)")
)

// Start creates the Run for property id. flag.Parse must have been called by
// the caller (cmd mains call mon.Parse()).
func Start(id string) *Run {
	tier := *flagTier
	if tier == "" {
		tier = os.Getenv("VERIF_TIER")
	}
	if tier != "thorough" {
		tier = "quick"
	}
	seed := *flagSeed
	if seed < 0 {
		seed = 1
		if s := os.Getenv("VERIF_SEED"); s != "" {
			if v, err := strconv.ParseInt(s, 10, 64); err == nil {
				seed = v
			}
		}
	}
	r := &Run{
		ID: id, Tier: tier, Seed: seed, Level: "exploration",
		start:        time.Now(),
		classes:      map[string]struct{}{},
		events:       map[string]int64{},
		violKeys:     map[string]int{},
		knownHit:     map[string]int{},
		inconclusive: map[string]int64{},
		extra:        map[string]any{},
		maxSamples:   6,
		maxViolPrint: 20,
		replayPath:   *flagReplay,
	}
	r.loadKnown()
	return r
}

// Parse parses the common flags.
func Parse() { flag.Parse() }

// Thorough reports whether the thorough tier was requested.
func (r *Run) Thorough() bool { return r.Tier == "thorough" }

// Pick returns q in quick tier and t in thorough tier.
func (r *Run) Pick(q, t int) int {
	if r.Thorough() {
		return t
	}
	return q
}

// ReplayFile returns the --replay argument ("" if none).
func (r *Run) ReplayFile() string { return r.replayPath }

// Rand returns a PCG stream derived from the seed and a stream label, so that
// independent parts of a check do not perturb each other's sequences.
func (r *Run) Rand(label string) *rand.Rand {
	var h uint64 = 1469598103934665603
	for i := 0; i < len(label); i++ {
		h ^= uint64(label[i])
		h *= 1099511628211
	}
	return rand.New(rand.NewPCG(uint64(r.Seed), h))
}

func (r *Run) loadKnown() {
	b, err := os.ReadFile(filepath.Join(VerifDir(), "known_findings.json"))
	if err != nil {
		return
	}
	var all struct {
		Findings []finding `json:"findings"`
	}
	if err := json.Unmarshal(b, &all); err != nil {
		fmt.Fprintf(os.Stderr, "mon: known_findings.json unreadable: %v\n", err)
		os.Exit(2)
	}
	for _, f := range all.Findings {
		if f.Property == r.ID {
			r.known = append(r.known, f)
		}
	}
}

// Eval counts n judged cases.
func (r *Run) Eval(n int) {
	r.mu.Lock()
	r.evals += int64(n)
	r.mu.Unlock()
}

// Class records that a case of the given non-trivial class was observed.
func (r *Run) Class(key string) {
	r.mu.Lock()
	r.classes[key] = struct{}{}
	r.mu.Unlock()
}

// Event counts an observed event type.
func (r *Run) Event(typ string) { r.EventN(typ, 1) }

// EventN counts n observed events of a type.
func (r *Run) EventN(typ string, n int64) {
	r.mu.Lock()
	r.events[typ] += n
	r.mu.Unlock()
}

// Events returns the count for an event type.
func (r *Run) Events(typ string) int64 {
	r.mu.Lock()
	defer r.mu.Unlock()
	return r.events[typ]
}

// Sample keeps v as one of the verbatim samples (first few only).
func (r *Run) Sample(v any) {
	r.mu.Lock()
	if len(r.samples) < r.maxSamples {
		r.samples = append(r.samples, v)
	}
	r.mu.Unlock()
}

// WantSample reports whether more samples are wanted (to avoid building them).
func (r *Run) WantSample() bool {
	r.mu.Lock()
	defer r.mu.Unlock()
	return len(r.samples) < r.maxSamples
}

// Inconclusive counts a case that could not be judged.
func (r *Run) Inconclusive(reason string) {
	r.mu.Lock()
	r.inconclusive[reason]++
	r.mu.Unlock()
}

// Extra attaches an additional coverage key.
func (r *Run) Extra(key string, v any) {
	r.mu.Lock()
	r.extra[key] = v
	r.mu.Unlock()
}

// Require declares the minimum observations below which the run is broken.
func (r *Run) Require(minEvals int64, minClasses int, eventTypes ...string) {
	r.minEvals, r.minClasses = minEvals, minClasses
	r.needEvents = append(r.needEvents, eventTypes...)
}

// RequireClasses declares class keys that must have been observed.
func (r *Run) RequireClasses(keys ...string) { r.needClasses = append(r.needClasses, keys...) }

// Violation reports a refuting observation. key is the canonical identity of
// the failing input/call site/history; it is matched against the known
// findings file. witness is written to a replay file.
func (r *Run) Violation(key, what string, witness any) {
	r.mu.Lock()
	for _, f := range r.known {
		if f.Status == "known" && f.Key == key {
			r.knownHit[key]++
			first := r.knownHit[key] == 1
			r.mu.Unlock()
			if first {
				fmt.Printf("KNOWN-FINDING: property=%s %s [%s]\n", r.ID, f.What, key)
			}
			return
		}
	}
	r.violations++
	r.violKeys[key]++
	n := r.violations
	nk := r.violKeys[key]
	r.mu.Unlock()
	if nk > 3 || n > r.maxViolPrint {
		return
	}
	dir := filepath.Join(VerifDir(), "replays", r.ID)
	_ = os.MkdirAll(dir, 0o755)
	p := filepath.Join(dir, fmt.Sprintf("%d-%d.json", r.Seed, n))
	b, err := json.MarshalIndent(map[string]any{
		"property": r.ID, "seed": r.Seed, "tier": r.Tier, "key": key, "what": what, "witness": witness,
	}, "", " ")
	if err != nil {
		b = []byte(fmt.Sprintf("{\"property\":%q,\"key\":%q,\"what\":%q,\"witness_error\":%q}", r.ID, key, what, err.Error()))
	}
	_ = os.WriteFile(p, b, 0o644)
	fmt.Printf("VIOLATION property=%s replay=%s\n", r.ID, p)
	fmt.Printf("  key=%s what=%s\n", key, what)
}

// Violations returns the number of (unknown) violations so far.
func (r *Run) Violations() int {
	r.mu.Lock()
	defer r.mu.Unlock()
	return r.violations
}

// Guard runs f and converts a panic into a violation with the given key.
// It returns true if f panicked.
func (r *Run) Guard(key string, witness any, f func()) (panicked bool) {
	defer func() {
		if e := recover(); e != nil {
			panicked = true
			r.Violation(key, fmt.Sprintf("panic: %v\n%s", e, trimStack(debug.Stack())), witness)
		}
	}()
	f()
	return false
}

// Try runs f and returns the panic value and stack, if any.
func Try(f func()) (p any, stack string) {
	defer func() {
		if e := recover(); e != nil {
			p = e
			stack = trimStack(debug.Stack())
		}
	}()
	f()
	return nil, ""
}

func trimStack(b []byte) string {
	s := string(b)
	if len(s) > 3000 {
		s = s[:3000]
	}
	return s
}

// PanicSite extracts "file:line" of the first scion frame of a stack, for use
// as a stable violation key.
func PanicSite(stack string) string {
	for _, l := range strings.Split(stack, "\n") {
		l = strings.TrimSpace(l)
		root := os.Getenv("VERIF_REPO")
		if root == "" {
			root = "/repo"
		}
		if strings.HasPrefix(l, root+"/") {
			if i := strings.Index(l, " "); i > 0 {
				l = l[:i]
			}
			return strings.TrimPrefix(l, root+"/")
		}
	}
	return "unknown"
}

// Finish writes the evidence file and exits: 0 held, 1 violated, 3 broken
// (too little observed).
func (r *Run) Finish() {
	r.mu.Lock()
	cov := map[string]any{
		"evaluations":         r.evals,
		"distinct_nontrivial": len(r.classes),
		"rule":                r.Rule,
		"samples":             r.samples,
		"events_by_type":      r.events,
		"exhaustive":          r.Exhaustive,
	}
	if len(r.inconclusive) > 0 {
		cov["inconclusive"] = r.inconclusive
	}
	if len(r.knownHit) > 0 {
		cov["known_findings_hit"] = r.knownHit
	}
	if len(r.violKeys) > 0 {
		cov["violation_keys"] = r.violKeys
	}
	cls := make([]string, 0, len(r.classes))
	for k := range r.classes {
		cls = append(cls, k)
	}
	sort.Strings(cls)
	if len(cls) > 40 {
		cov["classes_sample"] = cls[:40]
	} else {
		cov["classes"] = cls
	}
	for k, v := range r.extra {
		cov[k] = v
	}
	var broken []string
	if r.evals < r.minEvals || r.evals < 1 {
		broken = append(broken, fmt.Sprintf("evaluations %d < required %d", r.evals, max(r.minEvals, 1)))
	}
	if len(r.classes) < r.minClasses || len(r.classes) < 2 {
		broken = append(broken, fmt.Sprintf("distinct classes %d < required %d", len(r.classes), max(r.minClasses, 2)))
	}
	for _, e := range r.needEvents {
		if r.events[e] == 0 {
			broken = append(broken, "event type never observed: "+e)
		}
	}
	for _, c := range r.needClasses {
		if _, ok := r.classes[c]; !ok {
			broken = append(broken, "class never observed: "+c)
		}
	}
	if len(r.samples) == 0 {
		broken = append(broken, "no samples recorded")
	}
	verdict := "held"
	if r.violations > 0 {
		verdict = "violated"
	} else if len(broken) > 0 {
		verdict = "inconclusive"
	}
	cov["verdict"] = verdict
	if len(broken) > 0 {
		cov["broken"] = broken
	}
	if r.Assumptions == nil {
		r.Assumptions = []string{}
	}
	if r.samples == nil {
		r.samples = []any{}
	}
	ev := map[string]any{
		"property_id": r.ID,
		"tier":        r.Tier,
		"seed":        r.Seed,
		"level":       r.Level,
		"coverage":    cov,
		"assumptions": r.Assumptions,
		"wall_s":      time.Since(r.start).Seconds(),
		"violations":  r.violations,
	}
	viol := r.violations
	r.mu.Unlock()

	path := *flagEvid
	if path == "" {
		path = filepath.Join(VerifDir(), "evidence", r.ID+".json")
	}
	b, err := json.MarshalIndent(ev, "", " ")
	if err != nil {
		fmt.Fprintf(os.Stderr, "mon: cannot marshal evidence: %v\n", err)
		os.Exit(2)
	}
	_ = os.MkdirAll(filepath.Dir(path), 0o755)
	if err := os.WriteFile(path, b, 0o644); err != nil {
		fmt.Fprintf(os.Stderr, "mon: cannot write evidence: %v\n", err)
		os.Exit(2)
	}
	fmt.Printf("RESULT property=%s tier=%s seed=%d verdict=%s evaluations=%d distinct=%d violations=%d wall=%.1fs\n",
		r.ID, r.Tier, r.Seed, verdict, ev["coverage"].(map[string]any)["evaluations"], len(cls), viol,
		time.Since(r.start).Seconds())
	switch {
	case viol > 0:
		os.Exit(1)
	case len(broken) > 0:
		for _, s := range broken {
			fmt.Printf("BROKEN property=%s %s\n", r.ID, s)
		}
		os.Exit(3)
	}
	os.Exit(0)
}

// Hex is a helper for witnesses.
func Hex(b []byte) string { return fmt.Sprintf("%x", b) }

var flagProp = flag.String("prop", "", "property id to check")

// Main dispatches to the check function of the property named by -prop.
func Main(checks map[string]func(*Run)) {
	flag.Parse()
	f, ok := checks[*flagProp]
	if !ok {
		ids := make([]string, 0, len(checks))
		for k := range checks {
			ids = append(ids, k)
		}
		sort.Strings(ids)
		fmt.Fprintf(os.Stderr, "unknown -prop %q; this binary serves %v\n", *flagProp, ids)
		os.Exit(2)
	}
	r := Start(*flagProp)
	f(r)
	r.Finish()
}

// AdoptReplaySeed makes the run use the seed and tier recorded in the replay
// file given with -replay (checks whose case generation is a pure function of
// the seed replay a witness by regenerating the run that produced it).
func (r *Run) AdoptReplaySeed() bool {
	if r.replayPath == "" {
		return false
	}
	b, err := os.ReadFile(r.replayPath)
	if err != nil {
		fmt.Printf("replay: cannot read %s: %v\n", r.replayPath, err)
		return false
	}
	var w struct {
		Seed int64  `json:"seed"`
		Tier string `json:"tier"`
		Key  string `json:"key"`
	}
	if err := json.Unmarshal(b, &w); err != nil {
		fmt.Printf("replay: %s is not a witness file: %v\n", r.replayPath, err)
		return false
	}
	r.Seed = w.Seed
	if w.Tier == "thorough" || w.Tier == "quick" {
		r.Tier = w.Tier
	}
	fmt.Printf("replay: regenerating the run of seed %d tier %s that produced %s (key %s)\n", r.Seed, r.Tier, r.replayPath, w.Key)
	return true
}
