// Package storeref holds the reference models used by cmd/store (C27, C45):
// an abstract beacon store, an abstract path-segment store and the hidden-path
// authorization table. The models are written from the property statements and
// the documented interfaces only; they import nothing from scion and never
// call the databases or servers they are compared with.
//
// Identifiers are upper-case hex strings of the segment id, ISD-AS values are
// plain 64-bit numbers (ISD in the top 16 bits), times are nanoseconds since
// the Unix epoch.
package storeref

import (
	"sort"
	"strings"
)

// IA is an ISD-AS number (ISD<<48 | AS).
type IA uint64

func (ia IA) ISD() uint64 { return uint64(ia) >> 48 }
func (ia IA) AS() uint64  { return uint64(ia) & (1<<48 - 1) }

// MatchIA reports whether ia is matched by pattern p, in which a zero ISD
// and/or a zero AS is a wildcard.
func MatchIA(p, ia IA) bool {
	if p.ISD() != 0 && p.ISD() != ia.ISD() {
		return false
	}
	if p.AS() != 0 && p.AS() != ia.AS() {
		return false
	}
	return true
}

// Iface is an interface of an AS.
type Iface struct {
	IA IA
	ID uint64
}

// Seg is what the models know about one concrete version of a segment.
type Seg struct {
	// ID is the segment identifier (hex, upper case).
	ID string
	// Version orders the versions of one ID: the info timestamp for beacons,
	// the signing time of the last AS entry for path segments.
	Version int64
	// Content identifies this concrete version (a fingerprint of its bytes).
	Content string
	// First and Last are the first and last ISD-AS of the segment.
	First, Last IA
	// Ifaces are the interfaces the segment traverses or peers over.
	Ifaces []Iface
	// Hops is the number of AS entries.
	Hops int
	// InfoTS is the segment creation time (ns).
	InfoTS int64
	// MinExpiry / MaxExpiry are the earliest / latest hop-field expiry (ns).
	// Before MinExpiry the segment is certainly not expired, after MaxExpiry
	// it certainly is; in between the statement does not say.
	MinExpiry, MaxExpiry int64
}

// Outcome of an insertion.
type Outcome int

const (
	Ignored Outcome = iota
	Inserted
	Updated
)

func (o Outcome) String() string { return [...]string{"ignored", "inserted", "updated"}[o] }

// Tri is a three-valued verdict.
type Tri int

const (
	No Tri = iota
	Yes
	Unspecified
)

// expired: certainly expired strictly after MaxExpiry, certainly not up to
// MinExpiry; `atMaxIs` says what the instant now == MaxExpiry means for the
// caller (the beacon interface documents "expiration time before now", the
// path interface does not say).
func expired(s Seg, now int64, atMax Tri) Tri {
	switch {
	case now > s.MaxExpiry:
		return Yes
	case now == s.MaxExpiry && s.MinExpiry == s.MaxExpiry:
		return atMax
	case now <= s.MinExpiry:
		return No
	default:
		return Unspecified
	}
}

func hasPrefixFold(id, prefix string) bool {
	return strings.HasPrefix(strings.ToUpper(id), strings.ToUpper(prefix))
}

// ---------------------------------------------------------------------------
// Path-segment store

// PathEntry is the stored state for one segment id.
type PathEntry struct {
	Seg    Seg
	Types  map[int]struct{}
	Groups map[uint64]struct{}
}

// PathStore is the abstract path-segment database: a map from segment id to
// {version, types, hidden-path groups, content} plus the next-query table.
type PathStore struct {
	m  map[string]*PathEntry
	nq map[[2]IA]int64
}

func NewPathStore() *PathStore {
	return &PathStore{m: map[string]*PathEntry{}, nq: map[[2]IA]int64{}}
}

// Clone returns a deep copy (used to model transaction roll-back).
func (s *PathStore) Clone() *PathStore {
	c := NewPathStore()
	for k, e := range s.m {
		ne := &PathEntry{Seg: e.Seg, Types: map[int]struct{}{}, Groups: map[uint64]struct{}{}}
		for t := range e.Types {
			ne.Types[t] = struct{}{}
		}
		for g := range e.Groups {
			ne.Groups[g] = struct{}{}
		}
		c.m[k] = ne
	}
	for k, v := range s.nq {
		c.nq[k] = v
	}
	return c
}

// Len is the number of stored segment ids.
func (s *PathStore) Len() int { return len(s.m) }

// Entry returns the stored entry for id (nil if absent).
func (s *PathStore) Entry(id string) *PathEntry { return s.m[id] }

// Insert applies the statement: an unknown id is stored with the given type
// and groups; a strictly newer version replaces the stored one and adds its
// type and groups; an equal or older version is ignored entirely.
func (s *PathStore) Insert(seg Seg, typ int, groups []uint64) Outcome {
	e, ok := s.m[seg.ID]
	if !ok {
		e = &PathEntry{Seg: seg, Types: map[int]struct{}{typ: {}}, Groups: map[uint64]struct{}{}}
		for _, g := range groups {
			e.Groups[g] = struct{}{}
		}
		s.m[seg.ID] = e
		return Inserted
	}
	if seg.Version <= e.Seg.Version {
		return Ignored
	}
	e.Seg = seg
	e.Types[typ] = struct{}{}
	for _, g := range groups {
		e.Groups[g] = struct{}{}
	}
	return Updated
}

// Delete removes every entry whose id starts with the (hex) prefix.
func (s *PathStore) Delete(prefix string) int {
	n := 0
	for id := range s.m {
		if hasPrefixFold(id, prefix) {
			delete(s.m, id)
			n++
		}
	}
	return n
}

// Remove removes exactly id.
func (s *PathStore) Remove(id string) { delete(s.m, id) }

// DeleteExpired removes the entries certainly expired at now and returns
// their number together with the ids for which the statement does not decide
// (now between min and max hop expiry, or exactly at the expiry instant);
// those stay in the model until the caller resolves them with Remove.
func (s *PathStore) DeleteExpired(now int64) (removed int, unspecified []string) {
	for id, e := range s.m {
		switch expired(e.Seg, now, Unspecified) {
		case Yes:
			delete(s.m, id)
			removed++
		case Unspecified:
			unspecified = append(unspecified, id)
		}
	}
	sort.Strings(unspecified)
	return removed, unspecified
}

// PathQuery is a conjunction of filters; an empty list does not constrain.
type PathQuery struct {
	SegIDs   []string
	Types    []int
	Groups   []uint64
	Ifaces   []Iface
	StartsAt []IA
	EndsAt   []IA
}

// PathResult is one (segment, type) entry of a result.
type PathResult struct {
	ID      string
	Type    int
	Content string
	Version int64
	// Groups is the complete group set of the stored segment (ascending).
	Groups []uint64
}

func sortedGroups(m map[uint64]struct{}) []uint64 {
	out := make([]uint64, 0, len(m))
	for g := range m {
		out = append(out, g)
	}
	sort.Slice(out, func(i, j int) bool { return out[i] < out[j] })
	return out
}

func matchAnyIA(ps []IA, ia IA) bool {
	if len(ps) == 0 {
		return true
	}
	for _, p := range ps {
		if MatchIA(p, ia) {
			return true
		}
	}
	return false
}

// Get returns exactly the stored (segment, type) entries matching all filters,
// ordered by (ID, Type).
func (s *PathStore) Get(q PathQuery) []PathResult {
	var out []PathResult
	for id, e := range s.m {
		if len(q.SegIDs) > 0 {
			ok := false
			for _, want := range q.SegIDs {
				if strings.EqualFold(want, id) {
					ok = true
				}
			}
			if !ok {
				continue
			}
		}
		if len(q.Groups) > 0 {
			ok := false
			for _, g := range q.Groups {
				if _, in := e.Groups[g]; in {
					ok = true
				}
			}
			if !ok {
				continue
			}
		}
		if len(q.Ifaces) > 0 {
			ok := false
			for _, want := range q.Ifaces {
				for _, have := range e.Seg.Ifaces {
					if want == have {
						ok = true
					}
				}
			}
			if !ok {
				continue
			}
		}
		if !matchAnyIA(q.StartsAt, e.Seg.First) || !matchAnyIA(q.EndsAt, e.Seg.Last) {
			continue
		}
		for t := range e.Types {
			if len(q.Types) > 0 {
				ok := false
				for _, want := range q.Types {
					if want == t {
						ok = true
					}
				}
				if !ok {
					continue
				}
			}
			out = append(out, PathResult{ID: id, Type: t, Content: e.Seg.Content,
				Version: e.Seg.Version, Groups: sortedGroups(e.Groups)})
		}
	}
	sort.Slice(out, func(i, j int) bool {
		if out[i].ID != out[j].ID {
			return out[i].ID < out[j].ID
		}
		return out[i].Type < out[j].Type
	})
	return out
}

// InsertNextQuery stores t for (src,dst) unless a stored time is already at
// least t; it reports whether the stored value changed. A stored next-query
// time never decreases.
func (s *PathStore) InsertNextQuery(src, dst IA, t int64) bool {
	k := [2]IA{src, dst}
	if old, ok := s.nq[k]; ok && old >= t {
		return false
	}
	s.nq[k] = t
	return true
}

// NextQuery returns the stored time for (src,dst).
func (s *PathStore) NextQuery(src, dst IA) (int64, bool) {
	v, ok := s.nq[[2]IA{src, dst}]
	return v, ok
}

// ---------------------------------------------------------------------------
// Beacon store

// BeaconEntry is the stored state for one beacon id.
type BeaconEntry struct {
	Seg   Seg
	InIf  uint16
	Usage int
}

// BeaconStore is the abstract beacon database: segment id -> stored version
// with its ingress interface and usage mask.
type BeaconStore struct {
	m map[string]*BeaconEntry
}

func NewBeaconStore() *BeaconStore { return &BeaconStore{m: map[string]*BeaconEntry{}} }

func (s *BeaconStore) Len() int                     { return len(s.m) }
func (s *BeaconStore) Entry(id string) *BeaconEntry { return s.m[id] }

// Insert: unknown id -> stored; strictly newer info timestamp -> the stored
// beacon (with its ingress interface and usage) is replaced; else ignored.
func (s *BeaconStore) Insert(seg Seg, inIf uint16, usage int) Outcome {
	e, ok := s.m[seg.ID]
	if !ok {
		s.m[seg.ID] = &BeaconEntry{Seg: seg, InIf: inIf, Usage: usage}
		return Inserted
	}
	if seg.Version <= e.Seg.Version {
		return Ignored
	}
	*e = BeaconEntry{Seg: seg, InIf: inIf, Usage: usage}
	return Updated
}

// Delete removes every beacon whose id starts with the (hex) prefix.
func (s *BeaconStore) Delete(prefix string) int {
	n := 0
	for id := range s.m {
		if hasPrefixFold(id, prefix) {
			delete(s.m, id)
			n++
		}
	}
	return n
}

func (s *BeaconStore) Remove(id string) { delete(s.m, id) }

// DeleteExpired removes the beacons "that have an expiration time before"
// now (documented on the Cleanable interface, so the expiry instant itself is
// kept); ids with now between min and max hop expiry are returned undecided.
func (s *BeaconStore) DeleteExpired(now int64) (removed int, unspecified []string) {
	for id, e := range s.m {
		switch expired(e.Seg, now, No) {
		case Yes:
			delete(s.m, id)
			removed++
		case Unspecified:
			unspecified = append(unspecified, id)
		}
	}
	sort.Strings(unspecified)
	return removed, unspecified
}

// BeaconResult is one stored beacon in a result.
type BeaconResult struct {
	ID      string
	Content string
	InIf    uint16
	Usage   int
	Hops    int
}

func (e *BeaconEntry) result() BeaconResult {
	return BeaconResult{ID: e.Seg.ID, Content: e.Seg.Content, InIf: e.InIf, Usage: e.Usage, Hops: e.Seg.Hops}
}

func sortBeacons(b []BeaconResult) {
	sort.Slice(b, func(i, j int) bool { return b[i].ID < b[j].ID })
}

// BeaconQuery is a conjunction of filters; an empty list / zero ValidAt does
// not constrain.
type BeaconQuery struct {
	// SegIDPrefixes: hex prefixes (whole bytes) of segment ids.
	SegIDPrefixes []string
	// StartsAt: patterns with zero ISD/AS/both as wildcards.
	StartsAt []IA
	InIfs    []uint16
	// Usages: a usage matches if all its bits are set in the beacon's usage.
	Usages  []int
	ValidAt int64
	HasTime bool
}

// Get returns the beacons that certainly match and those whose validity at
// ValidAt the statement does not decide (between min and max hop expiry).
func (s *BeaconStore) Get(q BeaconQuery) (definite, unspecified []BeaconResult) {
	for id, e := range s.m {
		if len(q.SegIDPrefixes) > 0 {
			ok := false
			for _, p := range q.SegIDPrefixes {
				if hasPrefixFold(id, p) {
					ok = true
				}
			}
			if !ok {
				continue
			}
		}
		if !matchAnyIA(q.StartsAt, e.Seg.First) {
			continue
		}
		if len(q.InIfs) > 0 {
			ok := false
			for _, i := range q.InIfs {
				if i == e.InIf {
					ok = true
				}
			}
			if !ok {
				continue
			}
		}
		if len(q.Usages) > 0 {
			ok := false
			for _, u := range q.Usages {
				if e.Usage&u == u {
					ok = true
				}
			}
			if !ok {
				continue
			}
		}
		if q.HasTime {
			if q.ValidAt < e.Seg.InfoTS || q.ValidAt > e.Seg.MaxExpiry {
				continue
			}
			if q.ValidAt >= e.Seg.MinExpiry { // the expiry instant itself is not decided either
				unspecified = append(unspecified, e.result())
				continue
			}
		}
		definite = append(definite, e.result())
	}
	sortBeacons(definite)
	sortBeacons(unspecified)
	return definite, unspecified
}

// Candidates returns all stored beacons allowed for the usage mask (all bits
// of usage set) and, if src is non-zero, originated by src; sorted by
// (Hops, ID). The database must return a length-ordered prefix of this set.
func (s *BeaconStore) Candidates(usage int, src IA) []BeaconResult {
	var out []BeaconResult
	for _, e := range s.m {
		if e.Usage&usage != usage {
			continue
		}
		if src != 0 && e.Seg.First != src {
			continue
		}
		out = append(out, e.result())
	}
	sort.Slice(out, func(i, j int) bool {
		if out[i].Hops != out[j].Hops {
			return out[i].Hops < out[j].Hops
		}
		return out[i].ID < out[j].ID
	})
	return out
}

// Sources returns the distinct first ISD-AS of all stored beacons, ascending.
func (s *BeaconStore) Sources() []IA {
	seen := map[IA]struct{}{}
	for _, e := range s.m {
		seen[e.Seg.First] = struct{}{}
	}
	out := make([]IA, 0, len(seen))
	for ia := range seen {
		out = append(out, ia)
	}
	sort.Slice(out, func(i, j int) bool { return out[i] < out[j] })
	return out
}

// All returns every stored beacon sorted by id.
func (s *BeaconStore) All() []BeaconResult {
	d, _ := s.Get(BeaconQuery{})
	return d
}

// ---------------------------------------------------------------------------
// Hidden-path authorization table

// Group is a hidden-path group.
type Group struct {
	ID         uint64
	Owner      IA
	Writers    map[IA]struct{}
	Readers    map[IA]struct{}
	Registries map[IA]struct{}
}

// AuthTable is the set of groups known to the local AS.
type AuthTable struct {
	Local  IA
	Groups map[uint64]*Group
}

func in(m map[IA]struct{}, ia IA) bool { _, ok := m[ia]; return ok }

// MayRegister: a registry stores segments for a group only if the group
// exists, the registering AS is one of its writers, the registry is one of its
// registries, all segments are down segments and they verify. The returned
// reason names the first failing condition in statement order ("ok" if none).
func (t *AuthTable) MayRegister(group uint64, peer IA, allDown, verifies bool) (bool, string) {
	g, ok := t.Groups[group]
	switch {
	case !ok:
		return false, "unknown-group"
	case !in(g.Writers, peer):
		return false, "not-writer"
	case !in(g.Registries, t.Local):
		return false, "not-registry"
	case !allDown:
		return false, "not-down"
	case !verifies:
		return false, "not-verified"
	}
	return true, "ok"
}

// Role names the strongest role of peer in g (owner, writer, reader, registry)
// or "none".
func Role(g *Group, peer IA) string {
	switch {
	case g.Owner == peer:
		return "owner"
	case in(g.Writers, peer):
		return "writer"
	case in(g.Readers, peer):
		return "reader"
	case in(g.Registries, peer):
		return "registry"
	}
	return "none"
}

// MayRead: a server answers only if every requested group exists, the
// requester is its owner, a writer, reader or registry, and the server is a
// registry of it.
func (t *AuthTable) MayRead(groups []uint64, peer IA) (bool, string) {
	for _, id := range groups {
		g, ok := t.Groups[id]
		if !ok {
			return false, "unknown-group"
		}
		if Role(g, peer) == "none" {
			return false, "not-member"
		}
		if !in(g.Registries, t.Local) {
			return false, "not-authoritative"
		}
	}
	return true, "ok"
}
