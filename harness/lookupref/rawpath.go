package lookupref

import (
	"encoding/binary"
	"fmt"
	"time"
)

// RawHop is one hop field of a raw SCION path.
type RawHop struct {
	ExpTime                 uint8
	ConsIngress, ConsEgress uint16
}

// RawSeg is one segment of a raw SCION path.
type RawSeg struct {
	ConsDir, Peer bool
	Timestamp     uint32
	Hops          []RawHop
}

// DecodeRaw decodes a raw SCION path (doc/protocols/scion-header.rst: 4-byte
// path meta header, 8-byte info fields, 12-byte hop fields).
func DecodeRaw(b []byte) ([]RawSeg, error) {
	if len(b) < 4 {
		return nil, fmt.Errorf("raw path too short: %d", len(b))
	}
	meta := binary.BigEndian.Uint32(b)
	lens := []int{int(meta>>12) & 0x3f, int(meta>>6) & 0x3f, int(meta) & 0x3f}
	nInf, nHop := 0, 0
	for i, l := range lens {
		if l == 0 {
			for _, r := range lens[i:] {
				if r != 0 {
					return nil, fmt.Errorf("segment lengths %v have a gap", lens)
				}
			}
			break
		}
		nInf++
		nHop += l
	}
	if nInf == 0 {
		return nil, fmt.Errorf("no segments")
	}
	if want := 4 + 8*nInf + 12*nHop; len(b) != want {
		return nil, fmt.Errorf("raw path length %d, expected %d", len(b), want)
	}
	segs := make([]RawSeg, nInf)
	off := 4
	for i := 0; i < nInf; i++ {
		segs[i].ConsDir = b[off]&0x1 != 0
		segs[i].Peer = b[off]&0x2 != 0
		segs[i].Timestamp = binary.BigEndian.Uint32(b[off+4:])
		off += 8
	}
	for i := 0; i < nInf; i++ {
		for k := 0; k < lens[i]; k++ {
			segs[i].Hops = append(segs[i].Hops, RawHop{
				ExpTime:     b[off+1],
				ConsIngress: binary.BigEndian.Uint16(b[off+2:]),
				ConsEgress:  binary.BigEndian.Uint16(b[off+4:]),
			})
			off += 12
		}
	}
	return segs, nil
}

// RawExpiry is the instant at which the first hop field of the path expires.
func RawExpiry(segs []RawSeg) time.Time {
	var min time.Time
	for _, s := range segs {
		for _, h := range s.Hops {
			e := time.Unix(int64(s.Timestamp), 0).Add(HopTTL(h.ExpTime))
			if min.IsZero() || e.Before(min) {
				min = e
			}
		}
	}
	return min
}
