package lookupref

import (
	"fmt"
	"sort"
	"strings"

	"github.com/scionproto/scion/pkg/addr"
)

// ReqPattern is one expected segment request: a segment type and the sets of
// acceptable request endpoints (more than one where the statement does not
// distinguish them, e.g. "the single core AS" versus the ISD wildcard).
type ReqPattern struct {
	Type     string // "up", "core", "down"
	Src, Dst []addr.IA
}

// Req is an observed request in neutral form.
type Req struct {
	Type     string
	Src, Dst addr.IA
}

func wild(ia addr.IA) addr.IA { return addr.MustIAFrom(ia.ISD(), 0) }

// ExpectedRequests is the decision table of C30: which up/core/down requests a
// lookup from src to dst needs, given the kinds of source and destination.
//
//	srcCore     whether the local AS is a core AS
//	dstCore     whether dst is a core AS (an ISD wildcard counts as core: it
//	            stands for "any core AS of that ISD")
//	localCores  the core ASes of the local ISD
//
// Transcription of the statement and doc/control-plane.rst "Path Lookup":
// a non-core source needs an up segment; a non-core destination needs a down
// segment; a core segment is needed to get from the core AS(es) reachable by
// the source to the core AS(es) of the destination unless source and
// destination share an ISD that has a single core AS (or the destination is
// the local ISD wildcard, which any up segment already reaches).
func ExpectedRequests(src, dst addr.IA, srcCore, dstCore bool, localCores []addr.IA) []ReqPattern {
	same := src.ISD() == dst.ISD()
	var single addr.IA
	if same && len(localCores) == 1 {
		single = localCores[0]
	}
	one := func(x addr.IA) []addr.IA { return []addr.IA{x} }
	switch {
	case !srcCore && !dstCore:
		if single != 0 {
			return []ReqPattern{
				{"up", one(src), []addr.IA{single, wild(src)}},
				{"down", []addr.IA{single, wild(dst)}, one(dst)},
			}
		}
		return []ReqPattern{
			{"up", one(src), one(wild(src))},
			{"core", one(wild(src)), one(wild(dst))},
			{"down", one(wild(dst)), one(dst)},
		}
	case !srcCore && dstCore:
		if same && (dst.AS() == 0 || dst == single) {
			return []ReqPattern{{"up", one(src), []addr.IA{dst, wild(src)}}}
		}
		return []ReqPattern{
			{"up", one(src), one(wild(src))},
			{"core", one(wild(src)), one(dst)},
		}
	case srcCore && !dstCore:
		if single != 0 && single == src {
			return []ReqPattern{{"down", []addr.IA{src, wild(dst)}, one(dst)}}
		}
		return []ReqPattern{
			{"core", one(src), one(wild(dst))},
			{"down", one(wild(dst)), one(dst)},
		}
	default:
		return []ReqPattern{{"core", one(src), one(dst)}}
	}
}

func in(x addr.IA, set []addr.IA) bool {
	for _, s := range set {
		if s == x {
			return true
		}
	}
	return false
}

// MatchRequests reports whether the observed requests are exactly the expected
// ones (as a multiset, order ignored). The returned string describes the
// first discrepancy.
func MatchRequests(got []Req, want []ReqPattern) (bool, string) {
	if len(got) != len(want) {
		return false, fmt.Sprintf("%d requests, expected %d", len(got), len(want))
	}
	used := make([]bool, len(got))
	for _, w := range want {
		found := false
		for i, g := range got {
			if !used[i] && g.Type == w.Type && in(g.Src, w.Src) && in(g.Dst, w.Dst) {
				used[i] = true
				found = true
				break
			}
		}
		if !found {
			return false, fmt.Sprintf("missing %s request %v -> %v", w.Type, w.Src, w.Dst)
		}
	}
	return true, ""
}

// TypesOf returns the sorted segment types of a request list, e.g. "core+up".
func TypesOf(got []Req) string {
	var t []string
	for _, g := range got {
		t = append(t, g.Type)
	}
	sort.Strings(t)
	return strings.Join(t, "+")
}

// PatternTypes is TypesOf for expectations.
func PatternTypes(want []ReqPattern) string {
	var t []string
	for _, g := range want {
		t = append(t, g.Type)
	}
	sort.Strings(t)
	return strings.Join(t, "+")
}
