package lookupref

import (
	"time"
)

// Tri is a three-valued verdict: the bracket rule yields Unknown when the
// reference decides differently for the instants before and after a call.
type Tri int

const (
	No Tri = iota
	Yes
	Unknown
)

func (t Tri) String() string { return [...]string{"no", "yes", "unknown"}[t] }

// RevKey identifies an interface.
type RevKey struct {
	IA   uint64
	IfID uint64
}

// Rev is a revocation as the model sees it: whole-second issue time and
// lifetime.
type Rev struct {
	Key RevKey
	TS  uint32
	TTL uint32
	ID  int // identity chosen by the harness (index of the insert operation)
}

// Expiry is the instant from which the revocation is expired.
func (r Rev) Expiry() time.Time { return time.Unix(int64(r.TS)+int64(r.TTL), 0) }

type stored struct {
	rev Rev
	// slack: the implementation computes the remaining lifetime at one instant
	// and arms its expiry at a later one inside the same Insert call, so the
	// stored item may outlive the revocation by at most the duration of that
	// call.
	slack time.Duration
}

// RevCacheRef is the reference model of C31: per interface the last accepted
// revocation; a revocation is accepted iff it is unexpired and there is no
// live stored one, or it is newer (strictly later issue time) than the live
// stored one.
type RevCacheRef struct {
	m map[RevKey]stored
}

func NewRevCacheRef() *RevCacheRef { return &RevCacheRef{m: map[RevKey]stored{}} }

// unexpiredAt: is rev unexpired for a call bracketed by [t0, t1]?
func unexpired(r Rev, slack time.Duration, t0, t1 time.Time) Tri {
	e := r.Expiry()
	switch {
	case e.After(t1):
		return Yes
	case slack == 0 && !e.After(t0):
		return No
	case e.Add(slack).Before(t0):
		return No
	}
	return Unknown
}

// Live returns the stored revocation for key and whether it is live during
// [t0, t1].
func (c *RevCacheRef) Live(key RevKey, t0, t1 time.Time) (Rev, Tri) {
	s, ok := c.m[key]
	if !ok {
		return Rev{}, No
	}
	return s.rev, unexpired(s.rev, s.slack, t0, t1)
}

// Insert decides whether inserting r during [t0, t1] is accepted and, if the
// decision is definite, updates the model.
func (c *RevCacheRef) Insert(r Rev, t0, t1 time.Time) Tri {
	fresh := unexpired(r, 0, t0, t1)
	if fresh == No {
		return No
	}
	cur, live := c.Live(r.Key, t0, t1)
	var v Tri
	switch {
	case live == No:
		v = Yes
	case r.TS > cur.TS: // newer than whatever is stored: live or not, it goes in
		v = Yes
	case live == Yes:
		v = No
	default:
		v = Unknown
	}
	if v == No {
		return No
	}
	if fresh == Unknown || v == Unknown {
		return Unknown
	}
	c.m[r.Key] = stored{rev: r, slack: t1.Sub(t0)}
	return Yes
}

// Has returns the stored (last accepted) revocation for key, live or not.
func (c *RevCacheRef) Has(key RevKey) (Rev, bool) {
	s, ok := c.m[key]
	return s.rev, ok
}

// Keys returns the keys that ever had an accepted revocation.
func (c *RevCacheRef) Keys() []RevKey {
	out := make([]RevKey, 0, len(c.m))
	for k := range c.m {
		out = append(out, k)
	}
	return out
}
